(* Model/XmlRun.v — glue for the C07/C08 correspondence case files: boolean equalities
   on the data exchanged with the harness and the entry points it evaluates. *)
From MP Require Import Common.Base Common.Tree Common.XStr Spec.Xml Spec.Infoset Spec.Mirror Model.XmlOut Model.XmlIn.

Definition kind_eqb (a b : lkind) : bool :=
  match a, b with
  | LElem, LElem | LComment, LComment | LPI, LPI => true
  | _, _ => false
  end.

Definition odict_eqb (a b : list (option pystr * pystr)) : bool := list_eqb opair_eqb a b.

Fixpoint xel_eqb (a b : xel) {struct a} : bool :=
  let 'XEl ka ta pa na xa la aa ca := a in
  let 'XEl kb tb pb nb xb lb ab cb := b in
  kind_eqb ka kb && pystr_eqb ta tb && opt_eqb pystr_eqb pa pb && odict_eqb na nb &&
  opt_eqb pystr_eqb xa xb && opt_eqb pystr_eqb la lb && dict_eqb aa ab &&
  (fix go (x y : list xel) {struct x} : bool :=
     match x, y with
     | [], [] => true
     | p :: x', q :: y' => xel_eqb p q && go x' y'
     | _, _ => false
     end) ca cb.

Definition xkind_eqb (a b : xkind) : bool :=
  match a, b with
  | KElem, KElem | KComment, KComment | KPI, KPI => true
  | _, _ => false
  end.

Fixpoint xnode_eqb (a b : xnode) {struct a} : bool :=
  let 'XN ka na aa ta ca la := a in
  let 'XN kb nb ab tb cb lb := b in
  xkind_eqb ka kb && pystr_eqb na nb && dict_eqb aa ab && pystr_eqb ta tb && pystr_eqb la lb &&
  (fix go (x y : list xnode) {struct x} : bool :=
     match x, y with
     | [], [] => true
     | p :: x', q :: y' => xnode_eqb p q && go x' y'
     | _, _ => false
     end) ca cb.

Definition ind_eqb (a b : ind) : bool :=
  pystr_eqb (i_name a) (i_name b) && opt_eqb pystr_eqb (i_content a) (i_content b) &&
  opt_eqb pystr_eqb (i_tail a) (i_tail b) && opt_eqb pystr_eqb (i_prefix a) (i_prefix b) &&
  dict_eqb (i_attrs a) (i_attrs b) && dict_eqb (i_extras a) (i_extras b) &&
  odict_eqb (i_nsmap a) (i_nsmap b).

Fixpoint itree_eqb (a b : itree) {struct a} : bool :=
  let 'IT da ka := a in
  let 'IT db kb := b in
  ind_eqb da db &&
  (fix go (x y : list itree) {struct x} : bool :=
     match x, y with
     | [], [] => true
     | p :: x', q :: y' => itree_eqb p q && go x' y'
     | _, _ => false
     end) ka kb.

Definition res_eqb {A} (eqb : A -> A -> bool) (a b : res A) : bool :=
  match a, b with
  | Ok x, Ok y => eqb x y
  | Crash x, Crash y => pystr_eqb x y
  | _, _ => false
  end.

(** C07 entry points *)
Definition run_to_xml (t : ftree) : pystr := to_xml_top t.
Definition run_eml (t : ftree) : pystr := eml_to_xml_top t.
(** the exporters with every optional parameter: parent's nsmap, level, skip_ns *)
Definition run_to_xml_p (c : option (list (pystr * pystr)) * nat * bool * ftree) : pystr :=
  let '(pm, lv, sk, t) := c in to_xml pm lv sk t.
Definition run_eml_l (c : nat * ftree) : pystr := eml_to_xml (fst c) (snd c).
(** the specification parser followed by the lxml view *)
Definition run_parse (doc : pystr) : option xel := option_map (lxml_of []) (xparse doc).

(** C08 entry point: flags, literals, infoset *)
Definition run_import (c : bool * bool * list pystr * xel) : res itree :=
  let '(cl, co, ls, e) := c in process_element cl co ls e.

(** string helpers validated against the interpreter *)
Definition run_strip (x : pystr) : pystr := strip x.
Definition run_split (x : pystr) : list pystr := split_ws x.

(** the declarative mirror (Spec/Mirror.v) against the implementation's tree, the in-scope
    bindings compared as finite maps *)
Definition omap_equivb (a b : list (option pystr * pystr)) : bool :=
  Nat.eqb (length a) (length b) &&
  forallb (fun kv => opt_eqb pystr_eqb (oassoc (fst kv) a) (oassoc (fst kv) b)) (a ++ b).

Fixpoint itree_equivb (a b : itree) {struct a} : bool :=
  let 'IT da ka := a in
  let 'IT db kb := b in
  pystr_eqb (i_name da) (i_name db) && opt_eqb pystr_eqb (i_content da) (i_content db) &&
  opt_eqb pystr_eqb (i_tail da) (i_tail db) && opt_eqb pystr_eqb (i_prefix da) (i_prefix db) &&
  dict_eqb (i_attrs da) (i_attrs db) && dict_eqb (i_extras da) (i_extras db) &&
  omap_equivb (i_nsmap da) (i_nsmap db) &&
  (fix go (x y : list itree) {struct x} : bool :=
     match x, y with
     | [], [] => true
     | p :: x', q :: y' => itree_equivb p q && go x' y'
     | _, _ => false
     end) ka kb.

(** in class, and the mirror is the observed tree *)
Definition run_mirror (c : bool * bool * list pystr * xel * res itree) : bool :=
  let '(cl, co, ls, e, want) := c in
  infoset_okb e &&
  match want with
  | Ok t => itree_equivb t (mirror cl co ls e)
  | Crash _ => false
  end.

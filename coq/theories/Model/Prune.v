(* Model/Prune.v — executable model of validate.prune (src/metapype/eml/validate.py:52-98)
   as a pure function on id-carrying trees.  Definitions only.

   Everything the property observes is the resulting tree, the returned list and the
   registry as a set of ids, so the in-place algorithm is modelled by the tree it leaves
   behind: removing a child = dropping it from the child list, [Node.delete_node_instance]
   (recursive) = the ids of the subtree as it is at that moment leave the registry.

   The control flow is the Python's, exception-steered:
     - name = "metadata": nothing is done;
     - [node(n)] fail-fast: UnknownNodeError -> n itself is pruned and the call returns;
       any other rule error is swallowed; any other exception escapes ([PCrash]);
     - [r = rule.get_rule(n.name)] ([PCrash] where the Python raises KeyError);
     - first loop over a copy of the children: every child whose name the rule does not
       list is removed ("not allowed");
     - second loop over a copy of the remaining children: recursive call; in strict mode a
       child that is still listed is validated in its current (already pruned) state and
       removed on any rule error.
   The two loops are fused into one structural pass ([go]) that keeps their outputs apart:
   the first loop neither raises nor depends on the second, so every entry of the first
   loop precedes every entry of the second in the returned list. *)
From MP Require Import Common.Base Common.Tree Model.Rule.

Inductive reason : Type := RUnknown | RNotAllowed | RInvalid.

(** outcome of one call: the tree left behind ([None]: the node pruned itself), the returned
    list (node id, reason) in order, the ids deleted from the registry in order of the
    [delete_node_instance] calls (per call: the ids of the subtree) *)
Inductive pout : Type :=
| POk (t : option ftree) (l : list (pystr * reason)) (rem : list pystr)
| PCrash (kind : pystr).

Definition UNKNOWN_CLS : pystr := s "UnknownNodeError".

(** validate.node(n) in fail-fast mode on the current state of [t] *)
Definition node_ff (orc : pystr -> oans) (tb : tables) (t : ftree) : ffout :=
  ff_of (node_of orc tb (view t)).

(** [rule.get_rule(name)._rule_children_names]; [None] where the Python raises
    (KeyError: name not mapped / rule missing; a children section no code path handles) *)
Definition get_rule_names (tb : tables) (name : pystr) : option (list pystr) :=
  match assoc name (tb_node_map tb) with
  | None => None
  | Some rn =>
      match assoc rn (tb_rules tb) with
      | None => None
      | Some r =>
          match parse_children (rr_children r) with
          | None => None
          | Some top => Some (names_of_top top)
          end
      end
  end.

(** result of the two loops over the children: kept children, entries of the first loop,
    entries of the second loop, registry deletions of the first and of the second loop *)
Inductive lres : Type :=
| LOk (kept : list ftree) (l1 l2 : list (pystr * reason)) (rem1 rem2 : list pystr)
| LCrash (kind : pystr).

Definition lcons_notallowed (k : ftree) (r : lres) : lres :=
  match r with
  | LCrash c => LCrash c
  | LOk kept l1 l2 rem1 rem2 => LOk kept ((ft_id k, RNotAllowed) :: l1) l2 (ids_of k ++ rem1) rem2
  end.

(** second loop, one child: [lk], [remk] come from the recursive call; [keep] is the child left
    in the list (if any); [extra] the entry added by the strict re-validation *)
Definition lcons_visit (keep : option ftree) (lk : list (pystr * reason)) (remk : list pystr) (r : lres) : lres :=
  match r with
  | LCrash c => LCrash c
  | LOk kept l1 l2 rem1 rem2 =>
      LOk (match keep with Some k' => k' :: kept | None => kept end) l1 (lk ++ l2) rem1 (remk ++ rem2)
  end.

Fixpoint prune (orc : pystr -> oans) (tb : tables) (strict : bool) (t : ftree) {struct t} : pout :=
  let 'FT d kids := t in
  if pystr_eqb (n_name d) METADATA then POk (Some t) [] []
  else
    let body :=
      match get_rule_names tb (n_name d) with
      | None => PCrash (s "KeyError-get_rule")
      | Some allowed =>
          match
            (fix go (ks : list ftree) : lres :=
               match ks with
               | [] => LOk [] [] [] [] []
               | k :: r =>
                   if negb (smem (ft_name k) allowed) then lcons_notallowed k (go r)
                   else
                     match prune orc tb strict k with
                     | PCrash c => LCrash c
                     | POk None lk remk => lcons_visit None lk remk (go r)     (* no longer listed *)
                     | POk (Some k') lk remk =>
                         if strict then
                           match node_ff orc tb k' with
                           | FCrash c => LCrash c
                           | FRaise _ => lcons_visit None (lk ++ [(ft_id k', RInvalid)]) (remk ++ ids_of k') (go r)
                           | FOk => lcons_visit (Some k') lk remk (go r)
                           end
                         else lcons_visit (Some k') lk remk (go r)
                     end
               end) kids
          with
          | LCrash c => PCrash c
          | LOk kept l1 l2 rem1 rem2 => POk (Some (FT d kept)) (l1 ++ l2) (rem1 ++ rem2)
          end
      end in
    match node_ff orc tb t with
    | FCrash c => PCrash c
    | FRaise cls =>
        if pystr_eqb cls UNKNOWN_CLS then POk None [(n_id d, RUnknown)] (ids_of t) else body
    | FOk => body
    end.

(** the registry after the deletions; [None] = KeyError (an id to delete is not registered) *)
Fixpoint store_del (i : pystr) (store : list pystr) : option (list pystr) :=
  match store with
  | [] => None
  | j :: r => if pystr_eqb i j then Some r
              else match store_del i r with Some r' => Some (j :: r') | None => None end
  end.

Fixpoint store_del_all (rem : list pystr) (store : list pystr) : option (list pystr) :=
  match rem with
  | [] => Some store
  | i :: r => match store_del i store with Some st => store_del_all r st | None => None end
  end.

(* Model/JsonRun.v — glue for evaluating the JSON codec models on harness-generated
   cases (C06 correspondence run).  Definitions only. *)
From MP Require Import Common.Base Common.Tree Model.Json.

(** one generated tree with everything the implementation produced from it *)
Record c06case := {
  c_t : ftree;                    (* snapshot of the tree that was serialised *)
  c_j : json;                     (* metapype_io._serialize / to_json output, as a value *)
  c_loaded : result ftree;        (* snapshot of metapype_io.from_json(text) *)
  c_jl : json;                    (* mp_io.objectify / to_json output *)
  c_lloaded : result ftree;       (* snapshot of mp_io.from_json(...) *)
  c_ju : result json;             (* the legacy document after utils/convert.py: to_20210209 *)
  c_uloaded : result ftree        (* snapshot of metapype_io.from_json(upgraded) *)
}.

Definition rt_eqb := result_eqb ftree_eqb.
Definition rj_eqb := result_eqb json_eqb.

(** codes of the sub-checks that disagree: 1 serialize, 2 load, 3 objectify, 4 legacy load,
    5 upgrade, 6 load of the upgraded document *)
Definition check_case (c : c06case) : list nat :=
  (if json_eqb (serialize (c_t c)) (c_j c) then [] else [1]) ++
  (if rt_eqb (load (c_j c)) (c_loaded c) then [] else [2]) ++
  (if json_eqb (objectify (c_t c)) (c_jl c) then [] else [3]) ++
  (if rt_eqb (legacy_load (c_jl c)) (c_lloaded c) then [] else [4]) ++
  (if rj_eqb (upgrade (c_jl c)) (c_ju c) then [] else [5]) ++
  (match c_ju c with
   | Ok ju => if rt_eqb (load ju) (c_uloaded c) then [] else [6]
   | _ => []
   end).

Fixpoint check_from (i : nat) (cs : list c06case) : list nat :=
  match cs with
  | [] => []
  | c :: r => map (fun code => i * 8 + code) (check_case c) ++ check_from (S i) r
  end.
Definition check_cases (cs : list c06case) : list nat := check_from 0 cs.

(** malformed / arbitrary documents: which = 0 _from_dict, 1 mp_io.from_json, 2 to_20210209 *)
Record doccase := {
  d_which : nat;
  d_j : json;
  d_want_t : result ftree;
  d_want_j : result json
}.

Definition is_outside {A} (r : result A) : bool := match r with Outside _ => true | _ => false end.

(** 0 agree, 1 disagree, 2 the model declines (Outside) *)
Definition check_doc (c : doccase) : nat :=
  match d_which c with
  | 0 => let r := load (d_j c) in if is_outside r then 2 else if rt_eqb r (d_want_t c) then 0 else 1
  | 1 => let r := legacy_load (d_j c) in if is_outside r then 2 else if rt_eqb r (d_want_t c) then 0 else 1
  | _ => let r := upgrade (d_j c) in if is_outside r then 2 else if rj_eqb r (d_want_j c) then 0 else 1
  end.

Fixpoint where_code (code : nat) (i : nat) (l : list nat) : list nat :=
  match l with
  | [] => []
  | x :: r => (if Nat.eqb x code then [i] else []) ++ where_code code (S i) r
  end.
Definition doc_mismatches (cs : list doccase) : list nat := where_code 1 0 (map check_doc cs).
Definition doc_outside (cs : list doccase) : list nat := where_code 2 0 (map check_doc cs).

(* Model/EditsRun.v — glue for harness/c09.py case files. *)
From MP Require Export Common.Base.
From MP Require Export Model.Edits.

(** a state given by lists (position = object identity) *)
Definition mk (ks : list (list nat)) (ps : list (option nat)) (ns : list nat) (rs : list bool) : st :=
  mkst (fun i => nth i ks []) (fun i => nth i ps None) (fun i => nth i ns 0) (fun i => nth i rs false).

Definition row := (list nat * option nat * bool)%type.
Definition obs := (list row * ret)%type.

Definition snap (n : nat) (s : st) : list row := map (fun i => (kids s i, parent s i, reg s i)) (seq 0 n).

Definition natlist_eqb := list_eqb Nat.eqb.
Definition row_eqb (a b : row) : bool :=
  let '(k1, p1, r1) := a in let '(k2, p2, r2) := b in
  natlist_eqb k1 k2 && opt_eqb Nat.eqb p1 p2 && Bool.eqb r1 r2.
Definition exn_eqb (a b : exn) : bool :=
  match a, b with
  | ValueError, ValueError | IndexError, IndexError | KeyError, KeyError
  | AttributeError, AttributeError | OutOfFuel, OutOfFuel => true
  | _, _ => false
  end.
Definition ret_eqb (a b : ret) : bool :=
  match a, b with
  | RNone, RNone => true
  | RInt i, RInt j => Nat.eqb i j
  | Raise e, Raise f => exn_eqb e f
  | _, _ => false
  end.
Definition obs_eqb (a b : obs) : bool := list_eqb row_eqb (fst a) (fst b) && ret_eqb (snd a) (snd b).

(** every given operation applied to one state *)
Definition run_ops (n : nat) (s : st) (ops : list op) : list obs :=
  map (fun o => let '(s', r) := exec (S n) o s in (snap n s', r)) ops.

(** a whole history, observed after every step *)
Fixpoint run_hist (n : nat) (s : st) (ops : list op) : list obs :=
  match ops with
  | [] => []
  | o :: r => let '(s', rt) := exec (S n) o s in (snap n s', rt) :: run_hist n s' r
  end.

(** the states after every step of a history *)
Fixpoint states_of (n : nat) (s : st) (ops : list op) : list st :=
  match ops with
  | [] => []
  | o :: r => let s' := fst (exec (S n) o s) in s' :: states_of n s' r
  end.

(** all queries on one state, in the order harness/c09.py uses; None = out of fuel *)
Definition ids (l : list rtree) : list nat := map rt_id l.
Definition oid (o : option rtree) : list nat := match o with Some t => [rt_id t] | None => [] end.

Definition q_node (n : nat) (nnames : nat) (paths : list (list nat)) (s : st) (i : nat) : list (option (list nat)) :=
  match reify (S n) s i with
  | None => [None]
  | Some t =>
    flat_map (fun nm => [Some (oid (find_child nm t)); Some (ids (find_all_children nm t));
                         Some (oid (find_descendant nm t)); Some (ids (find_all_descendants nm t [t]))])
             (seq 0 nnames) ++
    flat_map (fun p => [Some (oid (find_single_node_by_path p t)); Some (ids (find_all_nodes_by_path p t))]) paths ++
    [get_ancestry (S n) s i] ++
    map (fun c => Some (match child_index s i c with Some k => [k] | None => [] end)) (seq 0 n)
  end.

Definition q_all (n nnames : nat) (paths : list (list nat)) (s : st) : list (option (list nat)) :=
  flat_map (q_node n nnames paths s) (seq 0 n).

Definition q_eqb := opt_eqb natlist_eqb.

(* Model/Heap.v — the object heap of a metapype process, WITH ALIASING.
   Nodes are records addressed by node ids (nat); the three per-node dictionaries
   (attributes, extras, nsmap) are *locations* (nat) into a table of ordered
   association lists, so that several nodes may hold the same dict object
   (`id(a.nsmap) == id(b.nsmap)`  <->  equal [ns_loc]).  The child list is a field of
   the record (a record owns its list; see notes/C12.md for what that leaves out).
   [store] is the class-level registry `Node.store` (a Python dict: str -> node).

   Finite maps are association lists with replace-or-append update; all facts are
   stated point-wise through [nlookup_nupdate] (no functional extensionality).
   Definitions only + the lookup/update algebra.  Stdlib only. *)
From MP Require Import Common.Base Common.Tree.

Definition dict := list (pystr * pystr).

Record nrec := mkN {
  nm : pystr;
  content : option pystr;
  tail : option pystr;
  prefix : option pystr;
  attrs_loc : nat;
  extras_loc : nat;
  ns_loc : nat;
  kids : list nat;
  parent : option nat;
  idstr : pystr
}.

Record heap := mkH {
  nodes : list (nat * nrec);
  dicts : list (nat * dict);
  next_loc : nat;
  next_id : nat;
  store : list (pystr * nat)
}.

(** outcome of a model run: Python exceptions and fuel exhaustion are explicit *)
Inductive res (A : Type) : Type :=
| Ok (a : A)
| Crash (kind : string)
| OutOfFuel.
Arguments Ok {A} a.
Arguments Crash {A} kind.
Arguments OutOfFuel {A}.

Definition bind {A B} (x : res A) (f : A -> res B) : res B :=
  match x with Ok a => f a | Crash k => Crash k | OutOfFuel => OutOfFuel end.

(** * nat-keyed association lists *)
Fixpoint nlookup {V} (k : nat) (l : list (nat * V)) : option V :=
  match l with
  | [] => None
  | (k', v) :: r => if Nat.eqb k k' then Some v else nlookup k r
  end.

Fixpoint nupdate {V} (k : nat) (v : V) (l : list (nat * V)) : list (nat * V) :=
  match l with
  | [] => [(k, v)]
  | (k', v') :: r => if Nat.eqb k k' then (k', v) :: r else (k', v') :: nupdate k v r
  end.

Lemma nlookup_nupdate {V} k k' (v : V) l :
  nlookup k' (nupdate k v l) = if Nat.eqb k' k then Some v else nlookup k' l.
Proof.
  induction l as [|[k0 v0] r IH]; simpl.
  - destruct (Nat.eqb k' k); reflexivity.
  - destruct (Nat.eqb k k0) eqn:E; simpl.
    + apply Nat.eqb_eq in E; subst k0. destruct (Nat.eqb k' k); reflexivity.
    + rewrite IH. destruct (Nat.eqb k' k0) eqn:E2; [|reflexivity].
      apply Nat.eqb_eq in E2; subst k0.
      destruct (Nat.eqb k' k) eqn:E3; [|reflexivity].
      apply Nat.eqb_eq in E3; subst k'. rewrite Nat.eqb_refl in E; discriminate.
Qed.

Lemma nlookup_In {V} k (v : V) l : nlookup k l = Some v -> In k (map fst l).
Proof.
  induction l as [|[k0 v0] r IH]; simpl; [discriminate|].
  destruct (Nat.eqb k k0) eqn:E.
  - apply Nat.eqb_eq in E; auto.
  - intro H; right; apply IH, H.
Qed.

Lemma nupdate_length_present {V} k (v v0 : V) l :
  nlookup k l = Some v0 -> length (nupdate k v l) = length l.
Proof.
  induction l as [|[k1 v1] r IH]; simpl; [discriminate|].
  rewrite (Nat.eqb_sym k k1).
  destruct (Nat.eqb k1 k) eqn:E; simpl; [reflexivity|].
  intro H; rewrite IH; auto.
Qed.

Lemma nupdate_length_absent {V} k (v : V) l :
  nlookup k l = None -> length (nupdate k v l) = S (length l).
Proof.
  induction l as [|[k1 v1] r IH]; simpl; [reflexivity|].
  rewrite (Nat.eqb_sym k k1).
  destruct (Nat.eqb k1 k) eqn:E; simpl; [discriminate|].
  intro H; rewrite IH; auto.
Qed.

(** * heap access *)
Definition nget (h : heap) (n : nat) : option nrec := nlookup n (nodes h).

Definition nset (h : heap) (n : nat) (r : nrec) : heap :=
  mkH (nupdate n r (nodes h)) (dicts h) (next_loc h) (next_id h) (store h).

(** contents of a dict location (an unallocated location reads as empty; the
    allocation discipline [locs < next_loc] is part of the invariants) *)
Definition dget (h : heap) (l : nat) : dict :=
  match nlookup l (dicts h) with Some d => d | None => [] end.

Definition dset (h : heap) (l : nat) (d : dict) : heap :=
  mkH (nodes h) (nupdate l d (dicts h)) (next_loc h) (next_id h) (store h).

(** a new dict object with the given items: `{}` / `copy.deepcopy(d)` *)
Definition alloc (h : heap) (d : dict) : heap * nat :=
  (mkH (nodes h) (nupdate (next_loc h) d (dicts h)) (S (next_loc h)) (next_id h) (store h), next_loc h).

(** a new node object *)
Definition new_node (h : heap) (r : nrec) : heap * nat :=
  (mkH (nupdate (next_id h) r (nodes h)) (dicts h) (next_loc h) (S (next_id h)) (store h), next_id h).

Definition set_store (h : heap) (st : list (pystr * nat)) : heap :=
  mkH (nodes h) (dicts h) (next_loc h) (next_id h) st.

(** record field updates *)
Definition set_ns (r : nrec) (l : nat) : nrec :=
  mkN (nm r) (content r) (tail r) (prefix r) (attrs_loc r) (extras_loc r) l (kids r) (parent r) (idstr r).
Definition set_attrs (r : nrec) (l : nat) : nrec :=
  mkN (nm r) (content r) (tail r) (prefix r) l (extras_loc r) (ns_loc r) (kids r) (parent r) (idstr r).
Definition set_extras (r : nrec) (l : nat) : nrec :=
  mkN (nm r) (content r) (tail r) (prefix r) (attrs_loc r) l (ns_loc r) (kids r) (parent r) (idstr r).
Definition set_kids (r : nrec) (k : list nat) : nrec :=
  mkN (nm r) (content r) (tail r) (prefix r) (attrs_loc r) (extras_loc r) (ns_loc r) k (parent r) (idstr r).
Definition set_parent (r : nrec) (p : option nat) : nrec :=
  mkN (nm r) (content r) (tail r) (prefix r) (attrs_loc r) (extras_loc r) (ns_loc r) (kids r) p (idstr r).
Definition set_idstr (r : nrec) (i : pystr) : nrec :=
  mkN (nm r) (content r) (tail r) (prefix r) (attrs_loc r) (extras_loc r) (ns_loc r) (kids r) (parent r) i.
Definition set_content (r : nrec) (c : option pystr) : nrec :=
  mkN (nm r) c (tail r) (prefix r) (attrs_loc r) (extras_loc r) (ns_loc r) (kids r) (parent r) (idstr r).
Definition set_tail (r : nrec) (c : option pystr) : nrec :=
  mkN (nm r) (content r) c (prefix r) (attrs_loc r) (extras_loc r) (ns_loc r) (kids r) (parent r) (idstr r).
Definition set_prefix (r : nrec) (c : option pystr) : nrec :=
  mkN (nm r) (content r) (tail r) c (attrs_loc r) (extras_loc r) (ns_loc r) (kids r) (parent r) (idstr r).

(** the empty process *)
Definition empty_heap : heap := mkH [] [] 0 0 [].

(** point-wise algebra *)
Lemma nget_nset h n r m : nget (nset h n r) m = if Nat.eqb m n then Some r else nget h m.
Proof. unfold nget, nset; simpl. apply nlookup_nupdate. Qed.

Lemma nget_dset h l d m : nget (dset h l d) m = nget h m.
Proof. reflexivity. Qed.

Lemma dget_nset h n r l : dget (nset h n r) l = dget h l.
Proof. reflexivity. Qed.

Lemma dget_dset h l d l' : dget (dset h l d) l' = if Nat.eqb l' l then d else dget h l'.
Proof.
  unfold dget, dset; simpl. rewrite nlookup_nupdate. destruct (Nat.eqb l' l); reflexivity.
Qed.

Lemma dget_alloc h d l' : dget (fst (alloc h d)) l' = if Nat.eqb l' (next_loc h) then d else dget h l'.
Proof.
  unfold dget, alloc; simpl. rewrite nlookup_nupdate. destruct (Nat.eqb l' (next_loc h)); reflexivity.
Qed.

Lemma nget_alloc h d m : nget (fst (alloc h d)) m = nget h m.
Proof. reflexivity. Qed.

Lemma nget_new_node h r m : nget (fst (new_node h r)) m = if Nat.eqb m (next_id h) then Some r else nget h m.
Proof. unfold nget, new_node; simpl. apply nlookup_nupdate. Qed.

Lemma dget_new_node h r l : dget (fst (new_node h r)) l = dget h l.
Proof. reflexivity. Qed.

(** Python's [list.insert(i, x)]: negative indices count from the end, out-of-range
    indices clamp *)
Fixpoint insert_at {A} (i : nat) (x : A) (l : list A) : list A :=
  match i, l with
  | O, _ => x :: l
  | S i', [] => [x]
  | S i', y :: r => y :: insert_at i' x r
  end.

Definition py_insert {A} (i : Z) (x : A) (l : list A) : list A :=
  let n := Z.of_nat (length l) in
  let j := if (i <? 0)%Z then (if (i + n <? 0)%Z then 0%Z else (i + n)%Z) else i in
  insert_at (Z.to_nat j) x l.

(** reification of the subtree of a node as a value ([Common/Tree.v: ftree]) *)
Definition nd_of (h : heap) (r : nrec) : nd :=
  {| n_id := idstr r; n_name := nm r; n_content := content r; n_tail := tail r; n_prefix := prefix r;
     n_attrs := dget h (attrs_loc r); n_extras := dget h (extras_loc r); n_nsmap := dget h (ns_loc r) |}.

Fixpoint opt_all {A} (l : list (option A)) : option (list A) :=
  match l with
  | [] => Some []
  | Some x :: r => option_map (cons x) (opt_all r)
  | None :: _ => None
  end.

Fixpoint reify (fuel : nat) (h : heap) (n : nat) : option ftree :=
  match fuel with
  | O => None
  | S f =>
    match nget h n with
    | None => None
    | Some r => option_map (FT (nd_of h r)) (opt_all (map (reify f h) (kids r)))
    end
  end.

(** the fuel every recursive walk is started with *)
Definition fuel_of (h : heap) : nat := length (nodes h).

(* Model/HeapRun.v — glue for harness/c12.py and harness/c14.py: a small script language over
   the heap model (create / edit / copy / delete) and the full observation compared with the
   implementation: per node object every field, child and parent links, the identity classes
   of the three dicts, and the registry in insertion order.
   Node objects are numbered in creation order (copy() numbers the copy in pre-order); ids
   made by uuid1 are canonicalised to "#k" for object number k on both sides.
   Definitions only. *)
From MP Require Import Common.Base Common.Tree Model.Heap Model.Namespace Model.Registry
     Model.HeapEdits Model.Copy.

Fixpoint digits (fuel n : nat) (acc : pystr) : pystr :=
  match fuel with
  | O => acc
  | S f => let d := (48 + N.of_nat (n mod 10))%N in
           if Nat.ltb n 10 then d :: acc else digits f (n / 10) (d :: acc)
  end.

(** "#k" *)
Definition canon_uuid (k : nat) : pystr := 35%N :: digits 12 k [].

Inductive cmd : Type :=
| KCreate (name : pystr) (ids : option pystr) (cont : option pystr)   (* Node(name, id=…, content=…) *)
| KEdit (e : edit)
| KCopy (n : nat)
| KDelete (i : pystr) (children : bool)                              (* Node.delete_node_instance *)
| KSetInstance (n : nat).                                            (* Node.set_node_instance *)

Definition exec_cmd (h : heap) (c : cmd) : res heap :=
  match c with
  | KCreate name ids cont =>
    let i := match ids with Some i => i | None => canon_uuid (next_id h) end in
    Ok (fst (create_node h name i cont))
  | KEdit e => exec_edit h e
  | KCopy n => match copy_op canon_uuid h n with Ok (h', _) => Ok h' | Crash k => Crash k | OutOfFuel => OutOfFuel end
  | KDelete i ch => delete_node_instance (fuel_of h) h i ch
  | KSetInstance n => set_node_instance h n
  end.

Fixpoint run_script (h : heap) (cs : list cmd) : res heap :=
  match cs with
  | [] => Ok h
  | c :: r => bind (exec_cmd h c) (fun h' => run_script h' r)
  end.

Record nobs := mkO {
  o_name : pystr; o_content : option pystr; o_tail : option pystr; o_prefix : option pystr;
  o_attrs : dict; o_extras : dict; o_ns : dict;
  o_kids : list nat; o_parent : option nat; o_id : pystr;
  o_cls : nat * nat * nat
}.

Fixpoint first_index (x : nat) (l : list nat) : nat :=
  match l with
  | [] => 0
  | y :: r => if Nat.eqb x y then 0 else S (first_index x r)
  end.

Definition slots (h : heap) (k : nat) : list nat :=
  flat_map (fun n => match nget h n with
                     | Some r => [attrs_loc r; extras_loc r; ns_loc r]
                     | None => [0; 0; 0]
                     end) (seq 0 k).

Definition obs_node (h : heap) (sl : list nat) (r : nrec) : nobs :=
  mkO (nm r) (content r) (tail r) (prefix r)
      (dget h (attrs_loc r)) (dget h (extras_loc r)) (dget h (ns_loc r))
      (kids r) (parent r) (idstr r)
      (first_index (attrs_loc r) sl, first_index (extras_loc r) sl, first_index (ns_loc r) sl).

Definition nobs_eqb (a b : nobs) : bool :=
  pystr_eqb (o_name a) (o_name b) && opt_eqb pystr_eqb (o_content a) (o_content b) &&
  opt_eqb pystr_eqb (o_tail a) (o_tail b) && opt_eqb pystr_eqb (o_prefix a) (o_prefix b) &&
  dict_eqb (o_attrs a) (o_attrs b) && dict_eqb (o_extras a) (o_extras b) && dict_eqb (o_ns a) (o_ns b) &&
  list_eqb Nat.eqb (o_kids a) (o_kids b) && opt_eqb Nat.eqb (o_parent a) (o_parent b) &&
  pystr_eqb (o_id a) (o_id b) &&
  (let '(a1, a2, a3) := o_cls a in let '(b1, b2, b3) := o_cls b in Nat.eqb a1 b1 && Nat.eqb a2 b2 && Nat.eqb a3 b3).

Definition observe (h : heap) : list nobs * list (pystr * nat) :=
  let k := next_id h in
  let sl := slots h k in
  (flat_map (fun n => match nget h n with Some r => [obs_node h sl r] | None => [] end) (seq 0 k), store h).

Definition store_eqb (a b : list (pystr * nat)) : bool :=
  list_eqb (fun x y => pystr_eqb (fst x) (fst y) && Nat.eqb (snd x) (snd y)) a b.

(** expected outcome of a script: the final state, or the exception class of the failing last command *)
Inductive want : Type :=
| WState (ns : list nobs) (st : list (pystr * nat))
| WRaise (kind : string).

Definition script_ok (c : list cmd * want) : bool :=
  let '(cs, w) := c in
  match run_script empty_heap cs, w with
  | Ok h, WState ns st => let '(ns', st') := observe h in list_eqb nobs_eqb ns' ns && store_eqb st' st
  | Crash k, WRaise k' => String.eqb k k'
  | _, _ => false
  end.

Fixpoint failing_from {A} (f : A -> bool) (i : nat) (l : list A) : list nat :=
  match l with
  | [] => []
  | x :: r => (if f x then [] else [i]) ++ failing_from f (S i) r
  end.
Definition failing {A} (f : A -> bool) (l : list A) : list nat := failing_from f 0 l.

Definition show_script (cs : list cmd) :=
  match run_script empty_heap cs with
  | Ok h => inl (observe h)
  | Crash k => inr k
  | OutOfFuel => inr "OutOfFuel"%string
  end.

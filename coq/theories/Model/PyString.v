(* Model/PyString.v — the Python [str] primitives used by normalize.py / evaluate.py,
   on code-point lists.  Definitions only; lemmas are in Proofs/C20_PyString.v.
   Every definition here is compared with the real [str] method by harness/c20.py
   ([is_py_space] on every code point 0..0x10FFFF, the others on a dense pool). *)
From MP Require Import Common.Base.

(** [str.isspace()] of a one-character string / Py_UNICODE_ISSPACE: the characters that
    [str.strip()] and [str.split()] (no argument) treat as whitespace.  Inclusive ranges. *)
Definition py_space_ranges : list (N * N) :=
  [ (9, 13); (28, 32); (133, 133); (160, 160); (5760, 5760); (8192, 8202);
    (8232, 8233); (8239, 8239); (8287, 8287); (12288, 12288) ]%N.

Definition in_range (c : N) (r : N * N) : bool := (fst r <=? c)%N && (c <=? snd r)%N.

Definition is_py_space (c : N) : bool := existsb (in_range c) py_space_ranges.

(** sweep used by the harness: the code points below [n] that satisfy [p], ascending *)
Definition sweep (p : N -> bool) (n : N) : list N :=
  rev (snd (N.iter n (fun st => let '(i, acc) := st in
                                (N.succ i, if p i then i :: acc else acc)) (0%N, []))).

(** [s.lstrip()] *)
Fixpoint py_lstrip (x : pystr) : pystr :=
  match x with
  | [] => []
  | c :: r => if is_py_space c then py_lstrip r else x
  end.

(** [s.rstrip()]: drop the trailing whitespace run *)
Fixpoint py_rstrip (x : pystr) : pystr :=
  match x with
  | [] => []
  | c :: r => match py_rstrip r with
              | [] => if is_py_space c then [] else [c]
              | r' => c :: r'
              end
  end.

(** [s.strip()] *)
Definition py_strip (x : pystr) : pystr := py_rstrip (py_lstrip x).

(** split at EVERY character satisfying [p]; always at least one piece
    ([""] for the empty string, empty pieces between adjacent separators) *)
Fixpoint split_by (p : N -> bool) (x : pystr) : list pystr :=
  match x with
  | [] => [[]]
  | c :: r => if p c then [] :: split_by p r
              else match split_by p r with
                   | w :: ws => (c :: w) :: ws
                   | [] => [[c]]            (* unreachable: split_by never returns [] *)
                   end
  end.

(** [s.split(sep)] for a one-character separator *)
Definition py_split_on (sep : N) (x : pystr) : list pystr := split_by (N.eqb sep) x.

Definition nonempty (x : pystr) : bool := match x with [] => false | _ => true end.

(** [s.split()]: maximal runs of non-whitespace characters, in order *)
Definition py_split_ws (x : pystr) : list pystr := filter nonempty (split_by is_py_space x).

(** [sep.join(l)] *)
Fixpoint py_join (sep : pystr) (l : list pystr) : pystr :=
  match l with
  | [] => []
  | w :: r => match r with
              | [] => w
              | _ => w ++ sep ++ py_join sep r
              end
  end.

(** [s.replace(a, b)] for one-character [a], [b] *)
Definition replace_char (a b : N) (x : pystr) : pystr :=
  map (fun c => if (c =? a)%N then b else c) x.

(** truthiness of a Python str / Optional[str]: [None] and [""] are falsy *)
Definition truthy (c : option pystr) : bool :=
  match c with Some (_ :: _) => true | _ => false end.

(* Model/EvaluateRun.v — glue evaluated by harness/c19.py case files (no theorems):
   the model instantiated with the GENERATED tables. *)
From MP Require Import Common.Base.
From MP Require Import Common.Tree.
From MP Require Import Gen.Tables.
From MP Require Import Model.PyString.
From MP Require Import Model.Evaluate.
From MP Require Import Spec.Recommend.

(** compact literal: evaluation reads only id, name, content, attributes *)
Definition mk (id name : pystr) (content : option pystr) (attrs : list (pystr * pystr)) (kids : list ftree) : ftree :=
  FT {| n_id := id; n_name := name; n_content := content; n_tail := None; n_prefix := None;
        n_attrs := attrs; n_extras := []; n_nsmap := [] |} kids.

Record ecase := {
  ec_parent : option pystr;            (* root.parent.name of the evaluated (sub)tree *)
  ec_tree : ftree;
  ec_prefix : list (pystr * pystr)     (* entries already in the warnings list *)
}.

(** per-node results of evaluate.node in document order *)
Fixpoint node_results (parent : option pystr) (t : ftree) : list nres :=
  let 'FT d kids := t in
  eval_node eval_dispatch warn_codes parent t :: flat_map (node_results (Some (n_name d))) kids.

(** what the correspondence observes for one case *)
Record eobs := {
  eo_tree : eres;                                 (* evaluate.tree(root, prefix) *)
  eo_nodes : list nres;                           (* evaluate.node(n) for every n *)
  eo_spec : option (list (pystr * pystr))         (* Spec: expected warnings, when shape_ok *)
}.

Definition run_case (c : ecase) : eobs :=
  {| eo_tree := eval_tree eval_dispatch warn_codes (ec_parent c) (ec_tree c) (ec_prefix c);
     eo_nodes := node_results (ec_parent c) (ec_tree c);
     eo_spec := if shape_ok (ec_tree c) then Some (expected_at (ec_parent c) (ec_tree c)) else None |}.

Definition warnings_eqb : list (pystr * pystr) -> list (pystr * pystr) -> bool := list_eqb pair_eqb.

Definition eres_eqb (a b : eres) : bool :=
  match a, b with
  | EOk x, EOk y => warnings_eqb x y
  | ECrash x, ECrash y => pystr_eqb x y
  | _, _ => false
  end.

Definition nres_eqb (a b : nres) : bool :=
  match a, b with
  | NOk x, NOk y => opt_eqb (list_eqb pystr_eqb) x y
  | NCrash x, NCrash y => pystr_eqb x y
  | _, _ => false
  end.

(** the implementation's observation: tree result, node results, and the NEW entries of the
    tree run (compared with the spec only when the spec applies) *)
Record ewant := {
  ew_tree : eres;
  ew_nodes : list nres;
  ew_new : list (pystr * pystr)
}.

(** 0 = agree; 1 = tree differs; 2 = node results differ; 3 = spec differs from implementation *)
Definition compare_case (c : ecase) (w : ewant) : nat :=
  let o := run_case c in
  if negb (eres_eqb (eo_tree o) (ew_tree w)) then 1
  else if negb (list_eqb nres_eqb (eo_nodes o) (ew_nodes w)) then 2
  else match eo_spec o with
       | Some e => if warnings_eqb e (ew_new w) then 0 else 3
       | None => 0
       end.

Definition spec_applies (c : ecase) : bool := shape_ok (ec_tree c).

(* Model/Json.v — the JSON codecs of metapype as functions on VALUES (C06).

   Modelled code (read statement by statement):
     src/metapype/model/metapype_io.py : _serialize, _from_dict  (to_json/from_json = these
                                         composed with json.dumps/json.loads, the oracle pair)
     src/metapype/model/mp_io.py       : objectify, from_json    (legacy codec)
     utils/convert.py                  : to_20210209
     src/metapype/model/node.py        : add_namespace, add_child  (as they act on field VALUES;
                                         which nodes share one dict object is C13's business and
                                         is invisible here: a shared dict has one value, and since
                                         the copy-on-write fix no write goes through a shared dict)

   Partial Python operations are explicit: [Crash kind] is a Python exception of that class
   escaping, [Outside why] is a document the value model deliberately does not interpret
   (non-string ids/prefixes/dict values, fresh uuids, iteration over non-objects), [NoFuel]
   is the out-of-fuel value of the recursion on document depth.  Definitions only. *)
From MP Require Import Common.Base Common.Tree.

(** * JSON values as [json.loads] returns them (objects ordered, keys unique) *)
Inductive json : Type :=
| JNull
| JBool (b : bool)
| JNum (z : Z)
| JStr (x : pystr)
| JArr (l : list json)
| JObj (l : list (pystr * json)).

Inductive result (A : Type) : Type :=
| Ok (a : A)
| Crash (kind : pystr)
| Outside (why : pystr)
| NoFuel.
Arguments Ok {A} a.
Arguments Crash {A} kind.
Arguments Outside {A} why.
Arguments NoFuel {A}.

Definition bind {A B} (r : result A) (f : A -> result B) : result B :=
  match r with
  | Ok a => f a
  | Crash k => Crash k
  | Outside w => Outside w
  | NoFuel => NoFuel
  end.

Definition IndexError := s "IndexError".
Definition KeyError := s "KeyError".
Definition TypeError := s "TypeError".
Definition AttributeError := s "AttributeError".

(** * Python subscripting on loaded JSON *)

(** [x[z]] for an int literal z: list / str index with Python's negative indices; a dict
    loaded from JSON has only str keys, so an int key is a KeyError. *)
Definition norm_index (len : nat) (z : Z) : option nat :=
  if (0 <=? z)%Z then (if (z <? Z.of_nat len)%Z then Some (Z.to_nat z) else None)
  else if (0 <=? Z.of_nat len + z)%Z then Some (Z.to_nat (Z.of_nat len + z)) else None.

Definition py_index (x : json) (z : Z) : result json :=
  match x with
  | JArr l =>
      match norm_index (length l) z with
      | Some i => match nth_error l i with Some v => Ok v | None => Crash IndexError end
      | None => Crash IndexError
      end
  | JStr l =>
      match norm_index (length l) z with
      | Some i => match nth_error l i with Some c => Ok (JStr [c]) | None => Crash IndexError end
      | None => Crash IndexError
      end
  | JObj _ => Crash KeyError
  | JNull | JBool _ | JNum _ => Crash TypeError
  end.

(** [x["key"]] for a str key *)
Definition py_key (x : json) (k : pystr) : result json :=
  match x with
  | JObj d => match assoc k d with Some v => Ok v | None => Crash KeyError end
  | _ => Crash TypeError
  end.

(** [body[i]["key"]] *)
Definition slot (body : json) (i : Z) (key : pystr) : result json :=
  bind (py_index body i) (fun o => py_key o key).

(** [dict.popitem()]: removes and returns the LAST item *)
Fixpoint popitem {A} (l : list A) : option A :=
  match l with
  | [] => None
  | [x] => Some x
  | _ :: r => popitem r
  end.

(** [str(x)] as applied by the content setter *)
Definition digit (n : N) : N := (48 + n)%N.
Fixpoint dec_digits (fuel : nat) (n : N) (acc : pystr) : pystr :=
  match fuel with
  | O => acc
  | S f => let acc' := digit (n mod 10) :: acc in
           if (n / 10 =? 0)%N then acc' else dec_digits f (n / 10)%N acc'
  end.
Definition str_of_N (n : N) : pystr := dec_digits (S (N.to_nat (N.log2 n))) n [].
Definition str_of_Z (z : Z) : pystr :=
  match z with
  | Z0 => s "0"
  | Zpos p => str_of_N (Npos p)
  | Zneg p => s "-" ++ str_of_N (Npos p)
  end.

Definition py_str (j : json) : result pystr :=
  match j with
  | JStr x => Ok x
  | JBool true => Ok (s "True")
  | JBool false => Ok (s "False")
  | JNum z => Ok (str_of_Z z)
  | JNull => Ok (s "None")
  | JArr _ | JObj _ => Outside (s "str() of a container")
  end.

(** * Field setters on a node value *)
Definition set_nsmap (d : nd) (m : list (pystr * pystr)) : nd :=
  {| n_id := n_id d; n_name := n_name d; n_content := n_content d; n_tail := n_tail d;
     n_prefix := n_prefix d; n_attrs := n_attrs d; n_extras := n_extras d; n_nsmap := m |}.
Definition set_prefix (d : nd) (p : option pystr) : nd :=
  {| n_id := n_id d; n_name := n_name d; n_content := n_content d; n_tail := n_tail d;
     n_prefix := p; n_attrs := n_attrs d; n_extras := n_extras d; n_nsmap := n_nsmap d |}.
Definition set_attrs (d : nd) (m : list (pystr * pystr)) : nd :=
  {| n_id := n_id d; n_name := n_name d; n_content := n_content d; n_tail := n_tail d;
     n_prefix := n_prefix d; n_attrs := m; n_extras := n_extras d; n_nsmap := n_nsmap d |}.
Definition set_extras (d : nd) (m : list (pystr * pystr)) : nd :=
  {| n_id := n_id d; n_name := n_name d; n_content := n_content d; n_tail := n_tail d;
     n_prefix := n_prefix d; n_attrs := n_attrs d; n_extras := m; n_nsmap := n_nsmap d |}.
Definition set_content (d : nd) (c : option pystr) : nd :=
  {| n_id := n_id d; n_name := n_name d; n_content := c; n_tail := n_tail d;
     n_prefix := n_prefix d; n_attrs := n_attrs d; n_extras := n_extras d; n_nsmap := n_nsmap d |}.
Definition set_tail (d : nd) (c : option pystr) : nd :=
  {| n_id := n_id d; n_name := n_name d; n_content := n_content d; n_tail := c;
     n_prefix := n_prefix d; n_attrs := n_attrs d; n_extras := n_extras d; n_nsmap := n_nsmap d |}.

(** [Node(name, id=...)]: every other field at its constructor default *)
Definition new_node (name id : pystr) : nd :=
  {| n_id := id; n_name := name; n_content := None; n_tail := None; n_prefix := None;
     n_attrs := []; n_extras := []; n_nsmap := [] |}.

(** * node.py on values *)

(** [prefix in nsmap and nsmap[prefix] == namespace] *)
Definition bound_to (p u : pystr) (m : list (pystr * pystr)) : bool :=
  match assoc p m with Some u' => pystr_eqb u' u | None => false end.

Definition in_keys (p : pystr) (m : list (pystr * pystr)) : bool :=
  match assoc p m with Some _ => true | None => false end.

(** [node.add_namespace(prefix, namespace)] (node.py): when the prefix is absent or bound
    to something else the node gets a fresh copy of its map with the binding set (position
    kept when present, appended otherwise); then the same on every child, whatever
    happened at this node. *)
Fixpoint add_namespace (p u : pystr) (t : ftree) : ftree :=
  let 'FT d kids := t in
  let d' := if bound_to p u (n_nsmap d) then d else set_nsmap d (dict_set p u (n_nsmap d)) in
  FT d' (map (add_namespace p u) kids).

(** the merge loop of add_child: [for prefix in self.nsmap: if prefix not in child.nsmap:
    child.add_namespace(prefix, self.nsmap[prefix])] — the test reads the child's CURRENT map *)
Definition merge_ns (pmap : list (pystr * pystr)) (child : ftree) : ftree :=
  fold_left (fun c pu => if in_keys (fst pu) (n_nsmap (ft_d c)) then c
                         else add_namespace (fst pu) (snd pu) c) pmap child.

(** [parent.add_child(child)] with index None: append, then share the parent's map when
    the item lists are equal in order (invisible on values), else merge. *)
Definition add_child (parent child : ftree) : ftree :=
  let 'FT d kids := parent in
  let child' := if dict_eqb (n_nsmap d) (n_nsmap (ft_d child)) then child
                else merge_ns (n_nsmap d) child in
  FT d (kids ++ [child']).

(** * Reading a JSON dict of strings into a node dict:
    [if x is not None: for k in x: node.add_xxx(k, x[k])] *)
Fixpoint set_all (setk : pystr -> pystr -> ftree -> ftree) (d0 : list (pystr * json))
         (ks : list pystr) (n : ftree) : result ftree :=
  match ks with
  | [] => Ok n
  | k :: r =>
      match assoc k d0 with
      | None => Crash KeyError
      | Some (JStr v) => set_all setk d0 r (setk k v n)
      | Some _ => Outside (s "non-string value in a dict")
      end
  end.

Definition for_items (setk : pystr -> pystr -> ftree -> ftree) (j : json) (n : ftree) : result ftree :=
  match j with
  | JNull => Ok n                                   (* "is not None" guard *)
  | JObj d => set_all setk d (keys d) n
  | JArr [] | JStr [] => Ok n                       (* empty iteration *)
  | JArr _ | JStr _ => Outside (s "iteration over a non-object")
  | JBool _ | JNum _ => Crash TypeError             (* not iterable *)
  end.

Definition on_d (f : nd -> nd) (t : ftree) : ftree := let 'FT d kids := t in FT (f d) kids.

Definition add_attribute (k v : pystr) : ftree -> ftree :=
  on_d (fun d => set_attrs d (dict_set k v (n_attrs d))).
Definition add_extras (k v : pystr) : ftree -> ftree :=
  on_d (fun d => set_extras d (dict_set k v (n_extras d))).

(** [if x is not None: node.f = x] for fields without coercion (prefix, tail) *)
Definition opt_str_field (setf : nd -> option pystr -> nd) (j : json) (n : ftree) : result ftree :=
  match j with
  | JNull => Ok n
  | JStr x => Ok (on_d (fun d => setf d (Some x)) n)
  | _ => Outside (s "non-string field")
  end.

(** content: [if content is not None: node.content = content] through the setter's str() *)
Definition content_field (j : json) (n : ftree) : result ftree :=
  match j with
  | JNull => Ok n
  | _ => bind (py_str j) (fun x => Ok (on_d (fun d => set_content d (Some x)) n))
  end.

(** [for child in children] *)
Definition iter_children (j : json) : result (list json) :=
  match j with
  | JArr l => Ok l
  | JObj d => Ok (map (fun kv => JStr (fst kv)) d)
  | JStr x => Ok (map (fun c => JStr [c]) x)
  | JNull | JBool _ | JNum _ => Crash TypeError
  end.

Section Kids.
  Variable ld : json -> result ftree.
  (** [for child in children: child_node = _from_dict(child, node); node.add_child(child_node)] *)
  Fixpoint load_kids (kids : list json) (n : ftree) : result ftree :=
    match kids with
    | [] => Ok n
    | k :: r => bind (ld k) (fun c => load_kids r (add_child n c))
    end.
End Kids.

(** slot names, in one place *)
Definition K_id := s "id".
Definition K_nsmap := s "nsmap".
Definition K_prefix := s "prefix".
Definition K_attributes := s "attributes".
Definition K_extras := s "extras".
Definition K_content := s "content".
Definition K_tail := s "tail".
Definition K_children := s "children".

(** the (index, key) pairs the loaders read and the keys the serialisers write, in source order
    (compared by the harness with the literals found in the Python AST) *)
Definition load_slots : list (Z * pystr) :=
  [(0, K_id); (1, K_nsmap); (2, K_prefix); (3, K_attributes); (4, K_extras); (5, K_content);
   (6, K_tail); (7, K_children)]%Z.
Definition legacy_slots : list (Z * pystr) :=
  [(0, K_id); (1, K_attributes); (2, K_content); (3, K_children)]%Z.
Definition upgrade_inserts : list (Z * pystr) :=
  [(1, K_nsmap); (2, K_prefix); (4, K_extras); (6, K_tail)]%Z.

Definition id_field (j : json) : result pystr :=
  match j with
  | JStr x => Ok x
  | JNull => Outside (s "id None: a fresh uuid")
  | _ => Outside (s "non-string id")
  end.

(** * metapype_io._from_dict *)
Fixpoint load_f (fuel : nat) (j : json) : result ftree :=
  match fuel with
  | O => NoFuel
  | S fuel' =>
      match j with
      | JObj entries =>
          match popitem entries with
          | None => Crash KeyError                          (* popitem(): dictionary is empty *)
          | Some (name, body) =>
              bind (slot body 0 K_id) (fun jid =>
              bind (id_field jid) (fun id =>
              let n0 := FT (new_node name id) [] in
              bind (slot body 1 K_nsmap) (fun jns =>
              bind (for_items add_namespace jns n0) (fun n1 =>
              bind (slot body 2 K_prefix) (fun jp =>
              bind (opt_str_field set_prefix jp n1) (fun n2 =>
              bind (slot body 3 K_attributes) (fun ja =>
              bind (for_items add_attribute ja n2) (fun n3 =>
              bind (slot body 4 K_extras) (fun je =>
              bind (for_items add_extras je n3) (fun n4 =>
              bind (slot body 5 K_content) (fun jc =>
              bind (content_field jc n4) (fun n5 =>
              bind (slot body 6 K_tail) (fun jt =>
              bind (opt_str_field set_tail jt n5) (fun n6 =>
              bind (slot body 7 K_children) (fun jk =>
              bind (iter_children jk) (fun kids =>
              load_kids (load_f fuel') kids n6))))))))))))))))
          end
      | _ => Crash AttributeError                           (* no .popitem *)
      end
  end.

(** document height: enough fuel for any document *)
Fixpoint jheight (j : json) : nat :=
  match j with
  | JArr l => S (fold_right (fun x a => Nat.max (jheight x) a) 0 l)
  | JObj l => S (fold_right (fun kv a => Nat.max (jheight (snd kv)) a) 0 l)
  | _ => 1
  end.

Definition load (j : json) : result ftree := load_f (jheight j) j.

(** * mp_io.from_json (legacy: id, attributes, content, children) *)
Fixpoint legacy_load_f (fuel : nat) (j : json) : result ftree :=
  match fuel with
  | O => NoFuel
  | S fuel' =>
      match j with
      | JObj entries =>
          match popitem entries with
          | None => Crash KeyError
          | Some (name, body) =>
              bind (slot body 0 K_id) (fun jid =>
              bind (id_field jid) (fun id =>
              let n0 := FT (new_node name id) [] in
              bind (slot body 1 K_attributes) (fun ja =>
              bind (for_items add_attribute ja n0) (fun n1 =>
              bind (slot body 2 K_content) (fun jc =>
              bind (content_field jc n1) (fun n2 =>
              bind (slot body 3 K_children) (fun jk =>
              bind (iter_children jk) (fun kids =>
              load_kids (legacy_load_f fuel') kids n2))))))))
          end
      | _ => Crash AttributeError
      end
  end.

Definition legacy_load (j : json) : result ftree := legacy_load_f (jheight j) j.

(** * Serialisers *)
Definition jdict (d : list (pystr * pystr)) : json := JObj (map (fun kv => (fst kv, JStr (snd kv))) d).
Definition jopt (o : option pystr) : json := match o with None => JNull | Some x => JStr x end.
Definition one (k : pystr) (v : json) : json := JObj [(k, v)].

(** metapype_io._serialize *)
Fixpoint serialize (t : ftree) : json :=
  let 'FT d kids := t in
  one (n_name d)
      (JArr [one K_id (JStr (n_id d));
             one K_nsmap (jdict (n_nsmap d));
             one K_prefix (jopt (n_prefix d));
             one K_attributes (jdict (n_attrs d));
             one K_extras (jdict (n_extras d));
             one K_content (jopt (n_content d));
             one K_tail (jopt (n_tail d));
             one K_children (JArr (map serialize kids))]).

(** mp_io.objectify *)
Fixpoint objectify (t : ftree) : json :=
  let 'FT d kids := t in
  one (n_name d)
      (JArr [one K_id (JStr (n_id d));
             one K_attributes (jdict (n_attrs d));
             one K_content (jopt (n_content d));
             one K_children (JArr (map objectify kids))]).

(** * utils/convert.py: to_20210209 — the in-place update, as the value it leaves behind *)

(** [list.insert(i, x)]: an index past the end appends *)
Definition insert_at {A} (i : nat) (x : A) (l : list A) : list A := firstn i l ++ x :: skipn i l.

Fixpoint map_result {A B} (f : A -> result B) (l : list A) : result (list B) :=
  match l with
  | [] => Ok []
  | x :: r => bind (f x) (fun y => bind (map_result f r) (fun ys => Ok (y :: ys)))
  end.

Fixpoint replace_nth {A} (i : nat) (x : A) (l : list A) : list A :=
  match i, l with
  | _, [] => []
  | O, _ :: r => x :: r
  | S i', y :: r => y :: replace_nth i' x r
  end.

Fixpoint upgrade_f (fuel : nat) (model : json) : result json :=
  match fuel with
  | O => NoFuel
  | S fuel' =>
      match model with
      | JObj entries =>                                     (* for node in model: model[node]... *)
          bind (map_result (fun kv =>
            match snd kv with
            | JArr l0 =>
                let l1 := insert_at 1 (one K_nsmap (JObj [])) l0 in
                let l2 := insert_at 2 (one K_prefix JNull) l1 in
                let l3 := insert_at 4 (one K_extras (JObj [])) l2 in
                let l4 := insert_at 6 (one K_tail JNull) l3 in
                bind (py_index (JArr l4) 7) (fun o7 =>
                bind (py_key o7 K_children) (fun children =>
                match children with
                | JArr kids =>
                    bind (map_result (upgrade_f fuel') kids) (fun kids' =>
                    match o7 with
                    | JObj d7 => Ok (fst kv, JArr (replace_nth 7 (JObj (dict_set K_children (JArr kids') d7)) l4))
                    | _ => Crash TypeError                  (* unreachable: py_key succeeded *)
                    end)
                | JNull | JBool _ | JNum _ => Crash TypeError   (* not iterable *)
                | JStr [] | JObj [] => Ok (fst kv, JArr l4)     (* empty iteration *)
                | JStr _ | JObj _ => Outside (s "children is not a list")
                end))
            | _ => Crash AttributeError                     (* no .insert *)
            end) entries) (fun entries' => Ok (JObj entries'))
      | JArr [] | JStr [] => Ok model                       (* empty iteration: nothing happens *)
      | JArr _ | JStr _ => Outside (s "model is not an object")
      | JNull | JBool _ | JNum _ => Crash TypeError         (* not iterable *)
      end
  end.

Definition upgrade (j : json) : result json := upgrade_f (jheight j) j.

(** * Boolean equalities for the correspondence run *)
Fixpoint json_eqb (a b : json) {struct a} : bool :=
  match a, b with
  | JNull, JNull => true
  | JBool x, JBool y => Bool.eqb x y
  | JNum x, JNum y => Z.eqb x y
  | JStr x, JStr y => pystr_eqb x y
  | JArr x, JArr y =>
      (fix go (x y : list json) {struct x} : bool :=
         match x, y with
         | [], [] => true
         | p :: x', q :: y' => json_eqb p q && go x' y'
         | _, _ => false
         end) x y
  | JObj x, JObj y =>
      (fix go (x y : list (pystr * json)) {struct x} : bool :=
         match x, y with
         | [], [] => true
         | (k1, p) :: x', (k2, q) :: y' => pystr_eqb k1 k2 && json_eqb p q && go x' y'
         | _, _ => false
         end) x y
  | _, _ => false
  end.

Definition result_eqb {A} (eqb : A -> A -> bool) (a b : result A) : bool :=
  match a, b with
  | Ok x, Ok y => eqb x y
  | Crash x, Crash y => pystr_eqb x y
  | Outside _, Outside _ => true
  | NoFuel, NoFuel => true
  | _, _ => false
  end.

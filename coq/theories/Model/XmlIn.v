(* Model/XmlIn.v — executable model of metapype_io._process_element / from_xml (C08).
   Input: the lxml infoset as data ([Spec.Infoset.xel]); lxml.etree.fromstring is an
   oracle.  Output: the value of the resulting Node tree (all fields; ids are fresh
   uuids and not modelled; dict identity/sharing is not modelled, only values).
   Definitions only; they follow the Python statement by statement. *)
From MP Require Import Common.Base Common.XStr Spec.Infoset.
Local Open Scope N_scope.

(** * The whitespace policy *)
Definition is_keep_char (c : N) : bool := (c =? 32) || (c =? 160) || (c =? 9).

(** re.fullmatch of [space nbsp tab]+ on x: the whole text consists of one or more
    spaces / non-breaking spaces / tabs *)
Definition keep_regex (x : pystr) : bool := nonempty x && forallb is_keep_char x.

(** the clean branch applied to a text that is not None *)
Definition clean_str (collapse : bool) (x : pystr) : option pystr :=
  if keep_regex x then Some x
  else
    let t := strip x in
    if is_nil t then None
    else if collapse then Some (join [32] (split_ws x))
    else Some t.

Definition clean_opt (collapse : bool) (x : option pystr) : option pystr :=
  match x with
  | None => None
  | Some v => clean_str collapse v
  end.

(** * _format_extras *)

(** re.match of the pattern  CARET LBRACE (any-star) RBRACE (any-star) DOLLAR : greedy first
    group (so the split is at the LAST right brace), the dot does not match a newline,
    the dollar may sit before a final newline. *)
Definition match_clark (name : pystr) : option (pystr * pystr) :=
  match name with
  | c :: body0 =>
      if c =? 123 then
        let body := match rev body0 with
                    | x :: r => if x =? 10 then rev r else body0
                    | [] => body0
                    end in
        if existsb (N.eqb 10) body then None
        else
          let (t_rev, rest) := span (fun x => negb (x =? 125)) (rev body) in
          match rest with
          | [] => None
          | _ :: u_rev => Some (rev u_rev, rev t_rev)
          end
      else None
  | [] => None
  end.

Definition xml_ns_uri : pystr := s "http://www.w3.org/XML/1998/namespace".

(** str(k) inside an f-string *)
Definition key_str (k : option pystr) : pystr :=
  match k with Some p => p | None => s "None" end.

Definition format_extras (name : pystr) (nsmap : list (option pystr * pystr)) : pystr :=
  match match_clark name with
  | None => name
  | Some (uri, target) =>
      let n0 := if pystr_eqb uri xml_ns_uri then s "xml:" ++ target else name in
      fold_left (fun acc kv => if pystr_eqb uri (snd kv)
                               then key_str (fst kv) ++ [58] ++ target else acc) nsmap n0
  end.

(** * Node.add_namespace on a subtree, on values: every node of the subtree ends up with
    nsmap[prefix] = namespace (overwritten in place, or appended). *)
Fixpoint add_ns (p : option pystr) (u : pystr) (t : itree) {struct t} : itree :=
  let 'IT d kids := t in
  IT {| i_name := i_name d; i_content := i_content d; i_tail := i_tail d; i_prefix := i_prefix d;
        i_attrs := i_attrs d; i_extras := i_extras d; i_nsmap := odict_set p u (i_nsmap d) |}
     (map (add_ns p u) kids).

Definition opair_eqb (a b : option pystr * pystr) : bool :=
  okey_eqb (fst a) (fst b) && pystr_eqb (snd a) (snd b).

(** the namespace part of Node.add_child(child): share when the items are equal in
    order (identity only), otherwise give the child every parent prefix it lacks *)
Definition attach (pn : list (option pystr * pystr)) (c : itree) : itree :=
  if list_eqb opair_eqb pn (i_nsmap (it_d c)) then c
  else fold_left (fun c kv => match oassoc (fst kv) (i_nsmap (it_d c)) with
                              | Some _ => c
                              | None => add_ns (fst kv) (snd kv) c
                              end) pn c.

(** dict == dict on Optional[str]-keyed maps (unordered) *)
Definition odict_eq_unord (a b : list (option pystr * pystr)) : bool :=
  Nat.eqb (length a) (length b) &&
  forallb (fun kv => match oassoc (fst kv) b with
                     | Some v => pystr_eqb (snd kv) v
                     | None => false
                     end) a.

(** the loop after the children have been attached: a child whose nsmap equals the node's
    as a dict (in any order) is given the node's dict object, hence the node's ORDER *)
Definition share (pn : list (option pystr * pystr)) (c : itree) : itree :=
  let 'IT d kids := c in
  if odict_eq_unord (i_nsmap d) pn
  then IT {| i_name := i_name d; i_content := i_content d; i_tail := i_tail d; i_prefix := i_prefix d;
             i_attrs := i_attrs d; i_extras := i_extras d; i_nsmap := pn |} kids
  else c.

(** e.tag[e.tag.find(RBRACE) + 1:] *)
Definition strip_clark (tag : pystr) : pystr :=
  match find_char 125 tag with
  | Some i => skipn (S i) tag
  | None => tag
  end.

Definition has_lbrace (n : pystr) : bool :=
  match find_char 123 n with Some _ => true | None => false end.

Definition split_attrib (nsmap : list (option pystr * pystr)) (attrib : list (pystr * pystr))
  : list (pystr * pystr) * list (pystr * pystr) :=
  fold_left (fun ax nv =>
               if has_lbrace (fst nv)
               then (fst ax, dict_set (format_extras (fst nv) nsmap) (snd nv) (snd ax))
               else (dict_set (fst nv) (snd nv) (fst ax), snd ax))
            attrib ([], []).

Fixpoint process_element (clean collapse : bool) (literals : list pystr) (e : xel) {struct e}
  : res itree :=
  let 'XEl k tag pfx nsmap text tail attrib kids := e in
  match k with
  | LElem =>
      let name := strip_clark tag in
      let content :=
        if clean then
          match text with
          | None => None
          | Some x => if smem name literals then Some x else clean_str collapse x
          end
        else text in
      let tl := if clean then clean_opt collapse tail else tail in
      let ax := split_attrib nsmap attrib in
      let d := {| i_name := name; i_content := content; i_tail := tl; i_prefix := pfx;
                  i_attrs := fst ax; i_extras := snd ax; i_nsmap := nsmap |} in
      match (fix go (ks : list xel) : res (list itree) :=
               match ks with
               | [] => Ok []
               | k1 :: r =>
                   match l_kind k1 with
                   | LComment => go r
                   | _ =>
                       match process_element clean collapse literals k1 with
                       | Crash c => Crash c
                       | Ok c =>
                           match go r with
                           | Crash c' => Crash c'
                           | Ok cs => Ok (share nsmap (attach nsmap c) :: cs)
                           end
                       end
                   end
               end) kids with
      | Crash c => Crash c
      | Ok cs => Ok (IT d cs)
      end
  | LComment => Crash (s "AttributeError")
  | LPI => Crash (s "AttributeError")
  end.

Definition from_xml_model := process_element.

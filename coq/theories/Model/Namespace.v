(* Model/Namespace.v — Node.add_namespace / Node.remove_namespace / Node.add_child
   (src/metapype/model/node.py:163-206, 552-564) transcribed on the aliasing heap.

   `id(x.nsmap)`            = the node's [ns_loc]
   `copy.deepcopy(d)`       = [alloc] of a fresh location with the same items in the same order
   `d[k] = v` / `del d[k]`  = [dset] of the location with [dict_set] / [dict_del]
   recursion over children  = fuel ([fuel_of]); exhaustion is the explicit [OutOfFuel]

   add_namespace and remove_namespace have literally the same shape:

       if nsmap_id is None: nsmap_id = id(self.nsmap)
       if NEED(self.nsmap):
           self.nsmap = copy.deepcopy(self.nsmap)
           WRITE(self.nsmap)
       for child in self._children:
           if id(child.nsmap) == nsmap_id:
               child.nsmap = self.nsmap
               child.<same>(…, nsmap_id=nsmap_id)
           else:
               child.<same>(…)

   so both are instances of [ns_walk need wr]; the two instantiations are validated
   separately against the implementation by harness/c13.py.  Definitions only. *)
From MP Require Import Common.Base Common.Tree Model.Heap.

Section Walk.
  Variable need : dict -> bool.   (* the guard of the copy-and-write statement *)
  Variable wr : dict -> dict.     (* the in-place write on the fresh copy *)

  (** the statements before the loop over the children *)
  Definition walk_head (h : heap) (n : nat) (r : nrec) : heap :=
    if need (dget h (ns_loc r)) then
      let (h1, l) := alloc h (dget h (ns_loc r)) in        (* copy.deepcopy(self.nsmap)   *)
      let h2 := nset h1 n (set_ns r l) in                  (* self.nsmap = <the copy>      *)
      dset h2 l (wr (dget h2 l))                           (* self.nsmap[p] = u / del …    *)
    else h.

  (** `for child in self._children:` with the recursive call abstracted as [rec] *)
  Fixpoint walk_kids (rec : heap -> nat -> option nat -> res heap)
           (n nsid : nat) (ks : list nat) (h : heap) : res heap :=
    match ks with
    | [] => Ok h
    | c :: ks' =>
      match nget h n, nget h c with
      | Some rn, Some rc =>
        if Nat.eqb (ns_loc rc) nsid then                    (* id(child.nsmap) == nsmap_id  *)
          let h1 := nset h c (set_ns rc (ns_loc rn)) in     (* child.nsmap = self.nsmap     *)
          bind (rec h1 c (Some nsid)) (walk_kids rec n nsid ks')
        else
          bind (rec h c None) (walk_kids rec n nsid ks')
      | _, _ => Crash "dangling node"
      end
    end.

  Fixpoint ns_walk (fuel : nat) (h : heap) (n : nat) (nsmap_id : option nat) : res heap :=
    match fuel with
    | O => OutOfFuel
    | S f =>
      match nget h n with
      | None => Crash "dangling node"
      | Some r =>
        let nsid := match nsmap_id with Some i => i | None => ns_loc r end in
        walk_kids (ns_walk f) n nsid (kids r) (walk_head h n r)
      end
    end.
End Walk.

(** `prefix not in self.nsmap or self.nsmap[prefix] != namespace` *)
Definition need_add (p u : pystr) (d : dict) : bool :=
  match assoc p d with
  | None => true
  | Some v => negb (pystr_eqb v u)
  end.

(** `prefix in self.nsmap` *)
Definition need_del (p : pystr) (d : dict) : bool :=
  match assoc p d with None => false | Some _ => true end.

Definition add_ns (fuel : nat) (h : heap) (n : nat) (p u : pystr) (nsmap_id : option nat) : res heap :=
  ns_walk (need_add p u) (dict_set p u) fuel h n nsmap_id.

Definition remove_ns (fuel : nat) (h : heap) (n : nat) (p : pystr) (nsmap_id : option nat) : res heap :=
  ns_walk (need_del p) (dict_del p) fuel h n nsmap_id.

(** `for prefix in self.nsmap: if prefix not in child.nsmap: child.add_namespace(prefix, self.nsmap[prefix])`
    — iterated over the key list taken when the loop starts; `self.nsmap[prefix]` and
    `child.nsmap` are re-read from the heap in every iteration *)
Fixpoint merge_loop (fuel : nat) (par c : nat) (ps : list pystr) (h : heap) : res heap :=
  match ps with
  | [] => Ok h
  | q :: ps' =>
    match nget h par, nget h c with
    | Some rp, Some rc =>
      match assoc q (dget h (ns_loc rc)) with
      | Some _ => merge_loop fuel par c ps' h
      | None =>
        match assoc q (dget h (ns_loc rp)) with
        | None => Crash "KeyError"
        | Some u => bind (add_ns fuel h c q u None) (merge_loop fuel par c ps')
        end
      end
    | _, _ => Crash "dangling node"
    end
  end.

(** add_child(child, index=None) *)
Definition add_child (fuel : nat) (h : heap) (par c : nat) (index : option Z) : res heap :=
  match nget h par with
  | None => Crash "dangling node"
  | Some rp =>
    let ks := match index with
              | None => kids rp ++ [c]                       (* self._children.append(child) *)
              | Some i => py_insert i c (kids rp)            (* self._children.insert(index, child) *)
              end in
    let h1 := nset h par (set_kids rp ks) in
    match nget h1 c with
    | None => Crash "dangling node"
    | Some rc =>
      let h2 := nset h1 c (set_parent rc (Some par)) in      (* child.parent = self *)
      match nget h2 par, nget h2 c with
      | Some rp2, Some rc2 =>
        if dict_eqb (dget h2 (ns_loc rp2)) (dget h2 (ns_loc rc2)) then
          Ok (nset h2 c (set_ns rc2 (ns_loc rp2)))           (* child.nsmap = self.nsmap *)
        else
          merge_loop fuel par c (keys (dget h2 (ns_loc rp2))) h2
      | _, _ => Crash "dangling node"
      end
    end
  end.

(** * The operations of the property's alphabet, started with the standard fuel *)
Inductive nsop : Type :=
| Attach (par c : nat) (index : option Z)
| Declare (n : nat) (p u : pystr)            (* first declaration and re-declaration alike *)
| Undeclare (n : nat) (p : pystr).

Definition exec_nsop (h : heap) (o : nsop) : res heap :=
  match o with
  | Attach par c i => add_child (fuel_of h) h par c i
  | Declare n p u => add_ns (fuel_of h) h n p u None
  | Undeclare n p => remove_ns (fuel_of h) h n p None
  end.

(** `Node(name)` with a fresh id string: a parentless, childless node with three new
    empty dicts (registered in the store) *)
Definition create_node (h : heap) (name idstring : pystr) (cont : option pystr) : heap * nat :=
  let (h1, la) := alloc h [] in
  let (h2, ln) := alloc h1 [] in
  let (h3, le) := alloc h2 [] in
  let (h4, n) := new_node h3 (mkN name cont None None la le ln [] None idstring) in
  (set_store h4 (dict_set idstring n (store h4)), n).

(* Model/RegOps.v — the operations of the C14 history alphabet on the aliasing heap:
   create (`Node(name, id=…)`), copy, attach, replace ± delete_old, delete ± children.
   [uuid] is the uuid1 oracle (see Model/Copy.v).  Definitions only. *)
From MP Require Import Common.Base Common.Tree Model.Heap Model.Namespace Model.Registry
     Model.HeapEdits Model.Copy.

Section RegOps.
  Variable uuid : nat -> pystr.

  Inductive rop : Type :=
  | RCreate (name : pystr) (ids : option pystr) (cont : option pystr)
  | RCopy (n : nat)
  | RAttach (par c : nat) (idx : option Z)
  | RReplace (par old new : nat) (delete_old : bool)
  | RDelete (i : pystr) (children : bool).

  Definition exec_rop (h : heap) (o : rop) : res heap :=
    match o with
    | RCreate name ids cont =>
      let i := match ids with Some i => i | None => uuid (next_id h) end in
      Ok (fst (create_node h name i cont))
    | RCopy n =>
      match copy_op uuid h n with Ok (h', _) => Ok h' | Crash k => Crash k | OutOfFuel => OutOfFuel end
    | RAttach par c idx => exec_edit h (ENs (Attach par c idx))
    | RReplace par old new d => exec_edit h (EReplaceChild par old new d)
    | RDelete i ch => delete_node_instance (fuel_of h) h i ch
    end.
End RegOps.

(* Model/Effects.v — effect summaries of the read-only operations (C11).

   A tiny effect language: programs over a heap whose only ways of touching the heap are
   the primitives below; every WRITE is an explicit primitive.  Each read-only operation
   of the library gets a SUMMARY: the kinds of primitives the Python code performs on
   nodes, on their dicts / child lists and on the node registry, found by reading the
   source.  The theorems (Proofs/C11_Frame.v) are about every program that stays within
   its summary.  That the summaries are right is NOT proved here: it is established by
   the correspondence run (harness/c11.py), which for this property is a deep-snapshot
   comparison plus a trace of the attribute reads and writes on Node objects.

   Definitions only. *)
From MP Require Import Common.Base.

(** * Primitives *)
Inductive field : Type :=
| FId | FName | FContent | FTail | FPrefix | FAttrs | FExtras | FNsmap | FKids | FParent.

Definition obj := nat.      (* a Node object *)
Definition loc := nat.      (* a dict or a list object *)

Inductive val : Type :=
| VNone
| VStr (x : pystr)
| VObj (o : obj)
| VLoc (l : loc)
| VObjs (l : list obj)
| VItems (d : list (pystr * pystr))
| VKeys (l : list pystr).

Inductive rprim : Type :=
| GetField (n : obj) (f : field)           (* node.f : for the three dicts and the child list, the OBJECT *)
| DictItems (d : loc)                      (* iterate / index / len of a dict *)
| ListItems (l : loc)                      (* iterate / index / len of a child list *)
| StoreGet (k : pystr)                     (* Node.store.get(id) *)
| StoreKeys.

Inductive wprim : Type :=
| SetField (n : obj) (f : field) (v : val) (* node.f = v  (also rebinding a dict or the child list) *)
| DictSet (d : loc) (k v : pystr)          (* d[k] = v *)
| DictDel (d : loc) (k : pystr)            (* del d[k] / d.pop(k) *)
| ListSet (l : loc) (items : list obj)     (* append / insert / remove / sort / slice assignment *)
| StoreSet (k : pystr) (n : obj)           (* Node.store[id] = node *)
| StoreDel (k : pystr).                    (* del Node.store[id] *)

(** * Programs: a free monad over the primitives.  Results (returned value, raised
    exception class, codes appended to the CALLER's list, produced string) are the [A]. *)
Inductive prog (A : Type) : Type :=
| Ret (a : A)
| Read (r : rprim) (k : val -> prog A)
| Write (w : wprim) (k : prog A).
Arguments Ret {A} a.
Arguments Read {A} r k.
Arguments Write {A} w k.

Section Run.
  Variable heap : Type.
  Variable rd : rprim -> heap -> val.
  Variable wr : wprim -> heap -> heap.

  Fixpoint run {A} (p : prog A) (h : heap) : A * heap :=
    match p with
    | Ret a => (a, h)
    | Read r k => run (k (rd r h)) h
    | Write w k => run k (wr w h)
    end.

  (** a call sequence: each program's result, in call order, and the final heap *)
  Fixpoint run_seq {A} (ps : list (prog A)) (h : heap) : list A * heap :=
    match ps with
    | [] => ([], h)
    | p :: r => let (a, h1) := run p h in
                let (l, h2) := run_seq r h1 in (a :: l, h2)
    end.
End Run.

(** * Kinds of primitives, and summaries *)
Inductive kind : Type :=
| KRead (f : field)        (* GetField _ f, and reading through the object it yields *)
| KStoreRead               (* StoreGet / StoreKeys *)
| KWrite (f : field)       (* SetField _ f, and DictSet/DictDel/ListSet through it *)
| KStoreWrite.

Definition field_eqb (a b : field) : bool :=
  match a, b with
  | FId, FId | FName, FName | FContent, FContent | FTail, FTail | FPrefix, FPrefix
  | FAttrs, FAttrs | FExtras, FExtras | FNsmap, FNsmap | FKids, FKids | FParent, FParent => true
  | _, _ => false
  end.

Definition is_write (k : kind) : bool :=
  match k with KWrite _ | KStoreWrite => true | _ => false end.

Definition reads (s : list kind) (f : field) : bool :=
  existsb (fun k => match k with KRead g => field_eqb f g | _ => false end) s.
Definition reads_store (s : list kind) : bool :=
  existsb (fun k => match k with KStoreRead => true | _ => false end) s.

(** the read-only operations named by the property *)
Inductive op : Type :=
| ValidateNodeFF | ValidateNodeCollect | ValidateTreeFF | ValidateTreeCollect
| EvaluateNode | EvaluateTree
| ToJson | LegacyToJson | IoToXml | ExportToXml | Graph | LegacyGraph
| FindChild | FindAllChildren | FindDescendant | FindAllDescendants
| FindSingleNodeByPath | FindAllNodesByPath | GetAncestry | ChildIndex
| ListAttributes | AttributeValue | GetNodeInstance
| ChildInsertIndex | IsEqual.

Definition all_ops : list op :=
  [ValidateNodeFF; ValidateNodeCollect; ValidateTreeFF; ValidateTreeCollect;
   EvaluateNode; EvaluateTree; ToJson; LegacyToJson; IoToXml; ExportToXml; Graph; LegacyGraph;
   FindChild; FindAllChildren; FindDescendant; FindAllDescendants;
   FindSingleNodeByPath; FindAllNodesByPath; GetAncestry; ChildIndex;
   ListAttributes; AttributeValue; GetNodeInstance; ChildInsertIndex; IsEqual].

Definition op_name (o : op) : pystr :=
  match o with
  | ValidateNodeFF => s "validate.node.ff" | ValidateNodeCollect => s "validate.node.collect"
  | ValidateTreeFF => s "validate.tree.ff" | ValidateTreeCollect => s "validate.tree.collect"
  | EvaluateNode => s "evaluate.node" | EvaluateTree => s "evaluate.tree"
  | ToJson => s "metapype_io.to_json" | LegacyToJson => s "mp_io.to_json"
  | IoToXml => s "metapype_io.to_xml" | ExportToXml => s "export.to_xml"
  | Graph => s "metapype_io.graph" | LegacyGraph => s "mp_io.graph"
  | FindChild => s "find_child" | FindAllChildren => s "find_all_children"
  | FindDescendant => s "find_descendant" | FindAllDescendants => s "find_all_descendants"
  | FindSingleNodeByPath => s "find_single_node_by_path" | FindAllNodesByPath => s "find_all_nodes_by_path"
  | GetAncestry => s "get_ancestry" | ChildIndex => s "child_index"
  | ListAttributes => s "list_attributes" | AttributeValue => s "attribute_value"
  | GetNodeInstance => s "get_node_instance"
  | ChildInsertIndex => s "child_insert_index" | IsEqual => s "is_equal"
  end.

Definition R := map KRead.

(** What each operation does to nodes / dicts / child lists / the registry, from the source:
    validate.py + rule.py (the cursor state lives on a freshly built Rule; errors are appended
    to the CALLER's list), evaluate.py, metapype_io.py (_serialize, to_xml, graph), mp_io.py
    (objectify, graph), export.py (escapes into a LOCAL variable since commit e3be338),
    node.py (queries; find_all_descendants appends to the CALLER's list; is_equal). *)
Definition summary (o : op) : list kind :=
  match o with
  | ValidateNodeFF | ValidateNodeCollect | ValidateTreeFF | ValidateTreeCollect =>
      R [FName; FContent; FAttrs; FKids]
  | EvaluateNode | EvaluateTree => R [FName; FContent; FAttrs; FKids; FParent]
  | ToJson => R [FName; FId; FNsmap; FPrefix; FAttrs; FExtras; FContent; FTail; FKids]
  | LegacyToJson => R [FName; FId; FAttrs; FContent; FKids]
  | IoToXml => R [FName; FPrefix; FAttrs; FNsmap; FExtras; FContent; FTail; FKids]
  | ExportToXml => R [FName; FAttrs; FContent; FKids]
  | Graph => R [FName; FId; FPrefix; FContent; FAttrs; FKids]
  | LegacyGraph => R [FName; FId; FContent; FAttrs; FKids]
  | FindChild | FindAllChildren | FindDescendant | FindAllDescendants
  | FindSingleNodeByPath | FindAllNodesByPath => R [FKids; FName]
  | GetAncestry => R [FParent]
  | ChildIndex => R [FKids; FId; FName; FContent; FTail; FPrefix; FAttrs; FExtras; FNsmap; FParent]   (* a missing child: list.index puts repr(child) into the ValueError it raises, and repr reads every field *)
  | ListAttributes | AttributeValue => R [FAttrs]
  | GetNodeInstance => [KStoreRead]
  | ChildInsertIndex => R [FName; FKids]
  | IsEqual => R [FName; FContent; FTail; FAttrs; FNsmap; FPrefix; FExtras; FKids]
  end.

(** the summary of export.to_xml BEFORE commit e3be338 (node.content = escape(node.content)) *)
Definition summary_export_before_fix : list kind :=
  R [FName; FAttrs; FContent; FKids] ++ [KWrite FContent].

(** * Programs that stay within a summary.
    A dict / list object may be read only when it was obtained from a field the summary
    allows; on the level of kinds this is: DictItems / ListItems are reads of the fields
    that hold such objects. *)
Definition rprim_allowed (s : list kind) (r : rprim) : bool :=
  match r with
  | GetField _ f => reads s f
  | DictItems _ => reads s FAttrs || reads s FExtras || reads s FNsmap
  | ListItems _ => reads s FKids
  | StoreGet _ | StoreKeys => reads_store s
  end.

Definition wprim_kind (w : wprim) : list kind :=
  match w with
  | SetField _ f _ => [KWrite f]
  | DictSet _ _ _ | DictDel _ _ => [KWrite FAttrs; KWrite FExtras; KWrite FNsmap]
  | ListSet _ _ => [KWrite FKids]
  | StoreSet _ _ | StoreDel _ => [KStoreWrite]
  end.

Definition kind_eqb (a b : kind) : bool :=
  match a, b with
  | KRead f, KRead g | KWrite f, KWrite g => field_eqb f g
  | KStoreRead, KStoreRead | KStoreWrite, KStoreWrite => true
  | _, _ => false
  end.

Definition wprim_allowed (s : list kind) (w : wprim) : bool :=
  existsb (fun k => existsb (kind_eqb k) s) (wprim_kind w).

Inductive within {A} (s : list kind) : prog A -> Prop :=
| within_ret a : within s (Ret a)
| within_read r k : rprim_allowed s r = true -> (forall v, within s (k v)) -> within s (Read r k)
| within_write w k : wprim_allowed s w = true -> within s k -> within s (Write w k).

Inductive read_only {A} : prog A -> Prop :=
| ro_ret a : read_only (Ret a)
| ro_read r k : (forall v, read_only (k v)) -> read_only (Read r k).

(** * A concrete heap, for the exemplar programs and the witness of the old exporter *)
Record nrec := {
  r_id : pystr; r_name : pystr; r_content : option pystr; r_tail : option pystr;
  r_prefix : option pystr; r_attrs : loc; r_extras : loc; r_nsmap : loc; r_kids : loc;
  r_parent : option obj
}.

Record cheap := {
  h_nodes : list (obj * nrec);
  h_dicts : list (loc * list (pystr * pystr));
  h_lists : list (loc * list obj);
  h_store : list (pystr * obj)
}.

Fixpoint nassoc {V} (k : nat) (l : list (nat * V)) : option V :=
  match l with
  | [] => None
  | (k', v) :: r => if Nat.eqb k k' then Some v else nassoc k r
  end.

Fixpoint nset {V} (k : nat) (v : V) (l : list (nat * V)) : list (nat * V) :=
  match l with
  | [] => [(k, v)]
  | (k', v') :: r => if Nat.eqb k k' then (k', v) :: r else (k', v') :: nset k v r
  end.

Definition vopt (o : option pystr) : val := match o with Some x => VStr x | None => VNone end.

Definition crd (r : rprim) (h : cheap) : val :=
  match r with
  | GetField n f =>
      match nassoc n (h_nodes h) with
      | None => VNone
      | Some x =>
          match f with
          | FId => VStr (r_id x) | FName => VStr (r_name x)
          | FContent => vopt (r_content x) | FTail => vopt (r_tail x) | FPrefix => vopt (r_prefix x)
          | FAttrs => VLoc (r_attrs x) | FExtras => VLoc (r_extras x) | FNsmap => VLoc (r_nsmap x)
          | FKids => VLoc (r_kids x)
          | FParent => match r_parent x with Some p => VObj p | None => VNone end
          end
      end
  | DictItems d => match nassoc d (h_dicts h) with Some m => VItems m | None => VNone end
  | ListItems l => match nassoc l (h_lists h) with Some m => VObjs m | None => VNone end
  | StoreGet k => match assoc k (h_store h) with Some n => VObj n | None => VNone end
  | StoreKeys => VKeys (keys (h_store h))
  end.

Definition vstr_opt (v : val) : option pystr := match v with VStr x => Some x | _ => None end.
Definition vloc_or (v : val) (d : loc) : loc := match v with VLoc l => l | _ => d end.

Definition set_field (x : nrec) (f : field) (v : val) : nrec :=
  match f with
  | FId => {| r_id := match v with VStr y => y | _ => r_id x end; r_name := r_name x; r_content := r_content x; r_tail := r_tail x; r_prefix := r_prefix x; r_attrs := r_attrs x; r_extras := r_extras x; r_nsmap := r_nsmap x; r_kids := r_kids x; r_parent := r_parent x |}
  | FName => {| r_id := r_id x; r_name := match v with VStr y => y | _ => r_name x end; r_content := r_content x; r_tail := r_tail x; r_prefix := r_prefix x; r_attrs := r_attrs x; r_extras := r_extras x; r_nsmap := r_nsmap x; r_kids := r_kids x; r_parent := r_parent x |}
  | FContent => {| r_id := r_id x; r_name := r_name x; r_content := vstr_opt v; r_tail := r_tail x; r_prefix := r_prefix x; r_attrs := r_attrs x; r_extras := r_extras x; r_nsmap := r_nsmap x; r_kids := r_kids x; r_parent := r_parent x |}
  | FTail => {| r_id := r_id x; r_name := r_name x; r_content := r_content x; r_tail := vstr_opt v; r_prefix := r_prefix x; r_attrs := r_attrs x; r_extras := r_extras x; r_nsmap := r_nsmap x; r_kids := r_kids x; r_parent := r_parent x |}
  | FPrefix => {| r_id := r_id x; r_name := r_name x; r_content := r_content x; r_tail := r_tail x; r_prefix := vstr_opt v; r_attrs := r_attrs x; r_extras := r_extras x; r_nsmap := r_nsmap x; r_kids := r_kids x; r_parent := r_parent x |}
  | FAttrs => {| r_id := r_id x; r_name := r_name x; r_content := r_content x; r_tail := r_tail x; r_prefix := r_prefix x; r_attrs := vloc_or v (r_attrs x); r_extras := r_extras x; r_nsmap := r_nsmap x; r_kids := r_kids x; r_parent := r_parent x |}
  | FExtras => {| r_id := r_id x; r_name := r_name x; r_content := r_content x; r_tail := r_tail x; r_prefix := r_prefix x; r_attrs := r_attrs x; r_extras := vloc_or v (r_extras x); r_nsmap := r_nsmap x; r_kids := r_kids x; r_parent := r_parent x |}
  | FNsmap => {| r_id := r_id x; r_name := r_name x; r_content := r_content x; r_tail := r_tail x; r_prefix := r_prefix x; r_attrs := r_attrs x; r_extras := r_extras x; r_nsmap := vloc_or v (r_nsmap x); r_kids := r_kids x; r_parent := r_parent x |}
  | FKids => {| r_id := r_id x; r_name := r_name x; r_content := r_content x; r_tail := r_tail x; r_prefix := r_prefix x; r_attrs := r_attrs x; r_extras := r_extras x; r_nsmap := r_nsmap x; r_kids := vloc_or v (r_kids x); r_parent := r_parent x |}
  | FParent => {| r_id := r_id x; r_name := r_name x; r_content := r_content x; r_tail := r_tail x; r_prefix := r_prefix x; r_attrs := r_attrs x; r_extras := r_extras x; r_nsmap := r_nsmap x; r_kids := r_kids x; r_parent := match v with VObj p => Some p | _ => None end |}
  end.

Definition cwr (w : wprim) (h : cheap) : cheap :=
  match w with
  | SetField n f v =>
      match nassoc n (h_nodes h) with
      | None => h
      | Some x => {| h_nodes := nset n (set_field x f v) (h_nodes h); h_dicts := h_dicts h; h_lists := h_lists h; h_store := h_store h |}
      end
  | DictSet d k v =>
      match nassoc d (h_dicts h) with
      | None => h
      | Some m => {| h_nodes := h_nodes h; h_dicts := nset d (dict_set k v m) (h_dicts h); h_lists := h_lists h; h_store := h_store h |}
      end
  | DictDel d k =>
      match nassoc d (h_dicts h) with
      | None => h
      | Some m => {| h_nodes := h_nodes h; h_dicts := nset d (dict_del k m) (h_dicts h); h_lists := h_lists h; h_store := h_store h |}
      end
  | ListSet l items =>
      {| h_nodes := h_nodes h; h_dicts := h_dicts h; h_lists := nset l items (h_lists h); h_store := h_store h |}
  | StoreSet k n =>
      {| h_nodes := h_nodes h; h_dicts := h_dicts h; h_lists := h_lists h; h_store := dict_set k n (h_store h) |}
  | StoreDel k =>
      {| h_nodes := h_nodes h; h_dicts := h_dicts h; h_lists := h_lists h; h_store := dict_del k (h_store h) |}
  end.

(** * Exemplar programs (the shape of the Python, pure parts abstracted as functions) *)

(** xml.sax.saxutils.escape on code points *)
Definition escape (x : pystr) : pystr :=
  flat_map (fun c => if N.eqb c 38 then s "&amp;" else if N.eqb c 60 then s "&lt;"
                     else if N.eqb c 62 then s "&gt;" else [c]) x.

Definition bindp {A B} (p : prog A) (f : A -> prog B) : prog B :=
  (fix go (p : prog A) : prog B :=
     match p with
     | Ret a => f a
     | Read r k => Read r (fun v => go (k v))
     | Write w k => Write w (go k)
     end) p.

Fixpoint mapp {A B} (f : A -> prog B) (l : list A) : prog (list B) :=
  match l with
  | [] => Ret []
  | x :: r => bindp (f x) (fun y => bindp (mapp f r) (fun ys => Ret (y :: ys)))
  end.

Definition kids_of (n : obj) : prog (list obj) :=
  Read (GetField n FKids) (fun v =>
  match v with
  | VLoc l => Read (ListItems l) (fun w => Ret (match w with VObjs m => m | _ => [] end))
  | _ => Ret []
  end).

Definition name_of (n : obj) : prog pystr :=
  Read (GetField n FName) (fun v => Ret (match v with VStr x => x | _ => [] end)).

(** export.to_xml as it is now: the escaped text goes into a local variable.  The
    produced string is abstracted to the list of (name, text written) per node. *)
Fixpoint export_to_xml (fuel : nat) (n : obj) : prog (list (pystr * option pystr)) :=
  match fuel with
  | O => Ret []
  | S f =>
      bindp (name_of n) (fun name =>
      Read (GetField n FAttrs) (fun a =>
      Read (DictItems (vloc_or a 0)) (fun _ =>
      Read (GetField n FContent) (fun c =>
      let text := match c with VStr x => Some (escape x) | _ => None end in
      bindp (kids_of n) (fun kids =>
      bindp (mapp (export_to_xml f) kids) (fun rest =>
      Ret ((name, text) :: concat rest)))))))
  end.

(** export.to_xml before the fix: [node.content = escape(node.content)] *)
Fixpoint export_to_xml_before_fix (fuel : nat) (n : obj) : prog (list (pystr * option pystr)) :=
  match fuel with
  | O => Ret []
  | S f =>
      bindp (name_of n) (fun name =>
      Read (GetField n FAttrs) (fun a =>
      Read (DictItems (vloc_or a 0)) (fun _ =>
      Read (GetField n FContent) (fun c =>
      let text := match c with VStr x => Some (escape x) | _ => None end in
      let continue :=
        bindp (kids_of n) (fun kids =>
        bindp (mapp (export_to_xml_before_fix f) kids) (fun rest =>
        Ret ((name, text) :: concat rest))) in
      match text with
      | Some e => Write (SetField n FContent (VStr e)) continue
      | None => continue
      end))))
  end.

(** Node.find_all_descendants(child_name, descendants): appends to the CALLER's list,
    which is a value of the program, not a heap object of the tree *)
Fixpoint find_all_descendants (fuel : nat) (name : pystr) (n : obj) (acc : list obj) : prog (list obj) :=
  match fuel with
  | O => Ret acc
  | S f =>
      bindp (kids_of n) (fun kids =>
      (fix each (l : list obj) (acc : list obj) : prog (list obj) :=
         match l with
         | [] => Ret acc
         | c :: r =>
             bindp (name_of c) (fun cn =>
             let acc1 := if pystr_eqb cn name then acc ++ [c] else acc in
             bindp (find_all_descendants f name c acc1) (fun acc2 => each r acc2))
         end) kids acc)
  end.

(** Rule.child_insert_index(parent, new_child): [rule_names] is the rule's child-name list *)
Fixpoint index_of (x : pystr) (l : list pystr) : option nat :=
  match l with
  | [] => None
  | y :: r => if pystr_eqb x y then Some 0 else option_map S (index_of x r)
  end.

Inductive outcome : Type := Index (i : nat) | Raised (cls : pystr).

Definition child_insert_index (rule_names : list pystr) (parent new_child : obj) : prog outcome :=
  bindp (name_of new_child) (fun nn =>
  match index_of nn rule_names with
  | None => Ret (Raised (s "ChildNotAllowedError"))
  | Some ni =>
      bindp (kids_of parent) (fun kids =>
      (fix scan (i : nat) (l : list obj) : prog outcome :=
         match l with
         | [] => Ret (Index i)
         | c :: r =>
             bindp (name_of c) (fun cn =>
             match index_of cn rule_names with
             | None => Ret (Raised (s "ValueError"))
             | Some ci => if Nat.ltb ni ci then Ret (Index i) else scan (S i) r
             end)
         end) 0 kids)
  end).

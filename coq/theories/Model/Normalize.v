(* Model/Normalize.v — model of metapype.model.normalize.normalize.
   Text branch (normalize.py:66-67):
       words = content.replace('\xa0', ' ').split(" ")
       normalized = " ".join([word.strip() for word in words if word.strip() != ""])
   XML branch (normalize.py:23-52, 62-65): the meaning of the XSLT stylesheet on the
   infoset, see [norm_xml] below.  Definitions only. *)
From MP Require Import Common.Base.
From MP Require Import Model.PyString.

Definition NBSP : N := 160%N.
Definition SP : N := 32%N.

Definition norm_words (x : pystr) : list pystr :=
  map py_strip (filter (fun w => nonempty (py_strip w)) (py_split_on SP (replace_char NBSP SP x))).

Definition norm (x : pystr) : pystr := py_join [SP] (norm_words x).

(* Model/Normalize.v — model of metapype.model.normalize.normalize.
   Text branch (normalize.py:66-67):
       words = content.replace('\xa0', ' ').split(" ")
       normalized = " ".join([word.strip() for word in words if word.strip() != ""])
   XML branch (normalize.py:23-52, 62-65): the meaning of the XSLT stylesheet on the
   infoset, see [norm_xml] below.  Definitions only. *)
From MP Require Import Common.Base.
From MP Require Import Model.PyString.

Definition NBSP : N := 160%N.
Definition SP : N := 32%N.

Definition norm_words (x : pystr) : list pystr :=
  map py_strip (filter (fun w => nonempty (py_strip w)) (py_split_on SP (replace_char NBSP SP x))).

Definition norm (x : pystr) : pystr := py_join [SP] (norm_words x).

(** * XML branch: the meaning of the stylesheet on the infoset

    normalize.py:62-65 replaces the raw U+00A0 characters of the document string by spaces,
    parses it, runs the XSLT stylesheet [normalize_whitespace] (libxslt) and serialises the
    result (libxml2).  Parser, XSLT engine and serialiser are not modelled; [norm_xml] is what
    the stylesheet MEANS on the parsed tree (template priorities: the two text() templates
    beat node(); the later [@*] template beats the [@*] alternative of the identity template):
      - [@*|node()]: identity copy, attributes first, then children;
      - [@*]: the attribute is re-created with value [normalize-space(translate(., NBSP, ' '))];
      - [text()[not(ancestor::P1 or ... or ancestor::Pn)]]: replaced by
        [normalize-space(translate(., NBSP, ' '))] (an empty result creates no text node);
      - [text()] (priority 0, i.e. the text nodes WITH a protected ancestor): replaced by
        [translate(., NBSP, ' ')].
    The string-level replace only performs part of the same translation earlier (it misses
    character references), so on the infoset of the ORIGINAL document the result is
    [xslt_tr false root].  Names are opaque strings (an unprefixed XPath name test matches
    elements in no namespace only; the harness uses expanded names). *)
Inductive xnode : Type :=
| XE (name : pystr) (attrs : list (pystr * pystr)) (kids : list xnode)
| XT (text : pystr).

(** XPath 1.0 / XML whitespace: #x20 | #x9 | #xD | #xA *)
Definition is_xml_space (c : N) : bool := (c =? 32)%N || (c =? 9)%N || (c =? 13)%N || (c =? 10)%N.

(** XPath [normalize-space]: strip, and collapse every whitespace run into one space *)
Definition xnorm (x : pystr) : pystr := py_join [SP] (filter nonempty (split_by is_xml_space x)).

(** [translate(., '&#xA0;', ' ')] *)
Definition tr (x : pystr) : pystr := replace_char NBSP SP x.

Section Xml.
  Variable protected : list pystr.    (* the ancestor names of the text() template; from the stylesheet *)

  Definition is_protected (name : pystr) : bool := smem name protected.

  (** the stylesheet applied to one node; [anc] = some ancestor element is protected.
      Returns the list of result nodes (a text node may vanish). *)
  Fixpoint xslt_tr (anc : bool) (n : xnode) {struct n} : list xnode :=
    match n with
    | XT x => if anc then [XT (tr x)]
              else match xnorm (tr x) with [] => [] | y => [XT y] end
    | XE name attrs kids =>
        [XE name (map (fun kv => (fst kv, xnorm (tr (snd kv)))) attrs)
            (flat_map (xslt_tr (anc || is_protected name)) kids)]
    end.

  (** normalize(doc, is_xml=True) on the document element *)
  Definition norm_xml (root : xnode) : list xnode := xslt_tr false root.

  (** ** factorisation used by the proofs (Proofs/C20_Xml.v: [xslt_tr anc n = xslt anc (nbsp_x n)]):
      U+00A0 -> U+0020 everywhere, then the stylesheet without [translate] *)
  Fixpoint xslt (anc : bool) (n : xnode) {struct n} : list xnode :=
    match n with
    | XT x => if anc then [XT x]
              else match xnorm x with [] => [] | y => [XT y] end
    | XE name attrs kids =>
        [XE name (map (fun kv => (fst kv, xnorm (snd kv))) attrs)
            (flat_map (xslt (anc || is_protected name)) kids)]
    end.

  Fixpoint nbsp_x (n : xnode) : xnode :=
    match n with
    | XT x => XT (tr x)
    | XE name attrs kids =>
        XE name (map (fun kv => (fst kv, tr (snd kv))) attrs) (map nbsp_x kids)
    end.
End Xml.

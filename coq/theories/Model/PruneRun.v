(* Model/PruneRun.v — glue for evaluating the prune model on harness-generated cases
   (correspondence run of C15).  Definitions only. *)
From MP Require Import Common.Base Common.Tree Model.Rule Model.RuleRun Model.Prune.

(** compact node literal: id, name, content, attributes; other fields empty *)
Definition mk (i n : pystr) (c : option pystr) (a : list (pystr * pystr)) : nd :=
  {| n_id := i; n_name := n; n_content := c; n_tail := None; n_prefix := None;
     n_attrs := a; n_extras := []; n_nsmap := [] |}.

Record pcase := {
  pc_tree : ftree;
  pc_strict : bool;
  pc_orc : list (pystr * oans);
  pc_store : list pystr           (* registry keys before the call (sorted by the harness) *)
}.

Definition reason_str (r : reason) : pystr :=
  match r with
  | RUnknown => s "unknown"
  | RNotAllowed => s "notallowed"
  | RInvalid => s "invalid"
  end.

(** observable: tree left behind, returned (id, reason kind) list, registry keys after *)
Inductive pobs : Type :=
| PO (t : option ftree) (l : list (pystr * pystr)) (store : option (list pystr))
| PC.   (* an exception escaped *)

Definition pobs_eqb (a b : pobs) : bool :=
  match a, b with
  | PC, PC => true
  | PO ta la sa, PO tb lb sb =>
      opt_eqb ftree_eqb ta tb && list_eqb pair_eqb la lb && opt_eqb (list_eqb pystr_eqb) sa sb
  | _, _ => false
  end.

Definition run_pcase (tb : tables) (c : pcase) : pobs :=
  match prune (orc_of (pc_orc c)) tb (pc_strict c) (pc_tree c) with
  | PCrash _ => PC
  | POk t l rem => PO t (map (fun p => (fst p, reason_str (snd p))) l) (store_del_all rem (pc_store c))
  end.

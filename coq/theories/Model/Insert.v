(* Model/Insert.v — executable model of Rule.child_insert_index (rule.py:202-227) and
   Rule.is_allowed_child (rule.py:252-253).  Definitions only.  Both read the flattened
   child-name list of the rule (Model/Rule.v names_of / names_of_top, the model of
   _get_rule_children_names). *)
From MP Require Import Common.Base.
From MP Require Import Model.Rule.

(** Python [list.index]: position of the first occurrence; [None] = ValueError *)
Fixpoint index_of (x : pystr) (l : list pystr) : option nat :=
  match l with
  | [] => None
  | y :: r => if pystr_eqb x y then Some O else option_map S (index_of x r)
  end.

Inductive ires : Type :=
| Idx (i : nat)            (* the returned index *)
| Refused                  (* ChildNotAllowedError: the new child's name is not in the rule *)
| CrashValueError          (* an EXISTING child's name is not in the rule: .index raises ValueError *)
| BadRule.                 (* the rule's children section has no modality: Rule(name) itself raises *)

(** the for loop over enumerate(parent.children): [rx] is the rank of the new child *)
Fixpoint scan (names : list pystr) (rx : nat) (w : list pystr) (i : nat) : ires :=
  match w with
  | [] => Idx i                                   (* index = len(parent.children) *)
  | c :: w' =>
      match index_of c names with
      | None => CrashValueError
      | Some rc => if Nat.ltb rx rc then Idx i    (* parent_child_index > new_child_index *)
                   else scan names rx w' (S i)
      end
  end.

Definition child_insert_index (names : list pystr) (w : list pystr) (x : pystr) : ires :=
  match index_of x names with
  | None => Refused
  | Some rx => scan names rx w O
  end.

Definition is_allowed_child (names : list pystr) (x : pystr) : bool := smem x names.

(** the same two queries on a rule as stored in the table *)
Definition rule_insert_index (r : rule_raw) (w : list pystr) (x : pystr) : ires :=
  match parse_children (rr_children r) with
  | None => BadRule
  | Some top => child_insert_index (names_of_top top) w x
  end.

Definition rule_allowed_child (r : rule_raw) (x : pystr) : option bool :=
  match parse_children (rr_children r) with
  | None => None
  | Some top => Some (is_allowed_child (names_of_top top) x)
  end.

(** observable of one query for the correspondence run:
    index >= 0, -1 refused, -2 ValueError, -3 rule construction failed *)
Definition ires_code (r : ires) : Z :=
  match r with
  | Idx i => Z.of_nat i
  | Refused => (-1)%Z
  | CrashValueError => (-2)%Z
  | BadRule => (-3)%Z
  end.

(** * glue for the correspondence run: one case = one rule, an alphabet, words given as
      index lists into the alphabet, candidate names; every (word, candidate) pair is
      evaluated inside Coq *)
Record icase := {
  ic_rule : rule_raw;
  ic_alpha : list pystr;
  ic_words : list (list nat);
  ic_cands : list nat
}.

Definition iout := (list Z * list (option bool))%type.

Definition run_icase (c : icase) : iout :=
  let nm := fun i => nth i (ic_alpha c) [] in
  (flat_map (fun w => map (fun x => ires_code (rule_insert_index (ic_rule c) (map nm w) (nm x))) (ic_cands c))
            (ic_words c),
   map (fun x => rule_allowed_child (ic_rule c) (nm x)) (ic_cands c)).

Definition iout_eqb (a b : iout) : bool :=
  list_eqb Z.eqb (fst a) (fst b) && list_eqb (opt_eqb Bool.eqb) (snd a) (snd b).

Definition no_rule : rule_raw :=
  {| rr_attrs := []; rr_children := [RInt 0]; rr_content_rules := []; rr_content_enum := None |}.

Definition rule_named (rules : list (pystr * rule_raw)) (rn : pystr) : rule_raw :=
  match assoc rn rules with Some r => r | None => no_rule end.

(* Model/HeapEdits.v — the single-node edit operations of node.py on the aliasing heap
   (setters, attribute / extras edits, remove_child, replace_child), and the sum type of
   every edit the properties C12 (frame) and C14 (registry) quantify over.
   Definitions only. *)
From MP Require Import Common.Base Common.Tree Model.Heap Model.Namespace Model.Registry.

Definition with_node {A} (h : heap) (n : nat) (f : nrec -> res A) : res A :=
  match nget h n with None => Crash "dangling node" | Some r => f r end.

(** content / tail / prefix setters (values are str or None) *)
Definition set_content_op (h : heap) (n : nat) (v : option pystr) : res heap :=
  with_node h n (fun r => Ok (nset h n (set_content r v))).
Definition set_tail_op (h : heap) (n : nat) (v : option pystr) : res heap :=
  with_node h n (fun r => Ok (nset h n (set_tail r v))).
Definition set_prefix_op (h : heap) (n : nat) (v : option pystr) : res heap :=
  with_node h n (fun r => Ok (nset h n (set_prefix r v))).

(** add_attribute: self._attributes[name] = value   (in place) *)
Definition add_attribute (h : heap) (n : nat) (k v : pystr) : res heap :=
  with_node h n (fun r => Ok (dset h (attrs_loc r) (dict_set k v (dget h (attrs_loc r))))).

(** remove_attribute: del self._attributes[name]    (in place; KeyError when absent) *)
Definition remove_attribute (h : heap) (n : nat) (k : pystr) : res heap :=
  with_node h n (fun r =>
    match assoc k (dget h (attrs_loc r)) with
    | None => Crash "KeyError"
    | Some _ => Ok (dset h (attrs_loc r) (dict_del k (dget h (attrs_loc r))))
    end).

(** add_extras: self._extras[key] = value *)
Definition add_extras (h : heap) (n : nat) (k v : pystr) : res heap :=
  with_node h n (fun r => Ok (dset h (extras_loc r) (dict_set k v (dget h (extras_loc r))))).

(** list.remove(x): first occurrence, ValueError when absent *)
Fixpoint list_remove (x : nat) (l : list nat) : option (list nat) :=
  match l with
  | [] => None
  | y :: r => if Nat.eqb x y then Some r else option_map (cons y) (list_remove x r)
  end.

(** list.index(x) *)
Fixpoint list_index (x : nat) (l : list nat) : option nat :=
  match l with
  | [] => None
  | y :: r => if Nat.eqb x y then Some 0 else option_map S (list_index x r)
  end.

Fixpoint list_set (i : nat) (x : nat) (l : list nat) : list nat :=
  match i, l with
  | _, [] => []
  | O, _ :: r => x :: r
  | S i', y :: r => y :: list_set i' x r
  end.

(** remove_child(child):
        self._children.remove(child)
        if child.parent is self: child.parent = None *)
Definition remove_child (h : heap) (par c : nat) : res heap :=
  with_node h par (fun rp =>
    match list_remove c (kids rp) with
    | None => Crash "ValueError"
    | Some ks =>
      let h1 := nset h par (set_kids rp ks) in
      with_node h1 c (fun rc =>
        match parent rc with
        | Some p => if Nat.eqb p par then Ok (nset h1 c (set_parent rc None)) else Ok h1
        | None => Ok h1
        end)
    end).

(** replace_child(old_child, new_child, delete_old=True):
        if new_child.name != old_child.name: raise ValueError
        index = self._children.index(old_child)
        new_child.parent = self
        self._children[index] = new_child
        if old_child.parent is self and old_child is not new_child: old_child.parent = None
        if delete_old: Node.delete_node_instance(id=old_child.id) *)
Definition replace_child (fuel : nat) (h : heap) (par old new : nat) (delete_old : bool) : res heap :=
  with_node h par (fun _ =>
  with_node h old (fun ro =>
  with_node h new (fun rn =>
    if negb (pystr_eqb (nm rn) (nm ro)) then Crash "ValueError" else
    with_node h par (fun rp =>
      match list_index old (kids rp) with
      | None => Crash "ValueError"
      | Some i =>
        let h1 := nset h new (set_parent rn (Some par)) in
        with_node h1 par (fun rp1 =>
          let h2 := nset h1 par (set_kids rp1 (list_set i new (kids rp1))) in
          with_node h2 old (fun ro2 =>
            let h3 := match parent ro2 with
                      | Some p => if Nat.eqb p par && negb (Nat.eqb old new)
                                  then nset h2 old (set_parent ro2 None) else h2
                      | None => h2
                      end in
            if delete_old then
              with_node h3 old (fun ro3 => delete_node_instance fuel h3 (idstr ro3) true)
            else Ok h3))
      end)))).

(** every single edit of the C12 frame statement *)
Inductive edit : Type :=
| ESetContent (n : nat) (v : option pystr)
| ESetTail (n : nat) (v : option pystr)
| ESetPrefix (n : nat) (v : option pystr)
| EAddAttr (n : nat) (k v : pystr)
| ERemoveAttr (n : nat) (k : pystr)
| EAddExtras (n : nat) (k v : pystr)
| ENs (o : nsop)                                   (* add_namespace / remove_namespace / add_child *)
| ERemoveChild (par c : nat)
| EReplaceChild (par old new : nat) (delete_old : bool).

Definition exec_edit (h : heap) (e : edit) : res heap :=
  match e with
  | ESetContent n v => set_content_op h n v
  | ESetTail n v => set_tail_op h n v
  | ESetPrefix n v => set_prefix_op h n v
  | EAddAttr n k v => add_attribute h n k v
  | ERemoveAttr n k => remove_attribute h n k
  | EAddExtras n k v => add_extras h n k v
  | ENs o => exec_nsop h o
  | ERemoveChild par c => remove_child h par c
  | EReplaceChild par old new d => replace_child (fuel_of h) h par old new d
  end.

(* Model/XmlOut.v — executable models of the two XML exporters (C07), character level.
     metapype_io.to_xml (node, parent, level, skip_ns)   -> [to_xml]
     metapype.eml.export.to_xml (node, level)            -> [eml_to_xml]
     xml.sax.saxutils.escape (data, entities)            -> [escape], [escape_attr]
   Definitions only; they follow the Python statement by statement. *)
From MP Require Import Common.Base Common.Tree Common.XStr.
Local Open Scope N_scope.

(** xml.sax.saxutils.escape: ampersand first, then greater-than and less-than; the
    extra entities of _escape_attribute (double quote, tab, newline, carriage return, in
    dict order) are applied after the three basic ones. *)
Definition escape (x : pystr) : pystr :=
  replace1 60 (s "&lt;") (replace1 62 (s "&gt;") (replace1 38 (s "&amp;") x)).

(** escape(text, {CR: "&#13;"}) — content and tail of both exporters *)
Definition escape_text (x : pystr) : pystr := replace1 13 (s "&#13;") (escape x).

Definition escape_attr (x : pystr) : pystr :=
  replace1 13 (s "&#13;") (replace1 10 (s "&#10;") (replace1 9 (s "&#9;")
    (replace1 34 (s "&quot;") (escape x)))).

Definition dq : pystr := [34].

(** the f-string  k=QUOTE _escape_attribute(v) QUOTE *)
Definition fmt_attr (kv : pystr * pystr) : pystr :=
  fst kv ++ [61] ++ dq ++ escape_attr (snd kv) ++ dq.

(** the f-string  xmlns:k=QUOTE _escape_attribute(v) QUOTE *)
Definition fmt_ns (kv : pystr * pystr) : pystr := s "xmlns:" ++ fmt_attr kv.

(** dict == dict : same size and every item of a is an item of b (keys are unique) *)
Definition dict_eq_unord (a b : list (pystr * pystr)) : bool :=
  Nat.eqb (length a) (length b) &&
  forallb (fun kv => match assoc (fst kv) b with
                     | Some v => pystr_eqb (snd kv) v
                     | None => false
                     end) a.

(** _nsp_unique(child_nsmap, parent_nsmap) *)
Definition nsp_unique (child parent : list (pystr * pystr)) : list (pystr * pystr) :=
  filter (fun kv => match assoc (fst kv) parent with
                    | Some v => negb (pystr_eqb (snd kv) v)
                    | None => true
                    end) child.

Definition sp : pystr := [32].
Definition nl : pystr := [10].

Definition spaces (n : nat) : pystr := repeat 32 n.

(** the [attributes] string of metapype_io.to_xml, before the open tag is assembled *)
Definition attr_string (parent : option (list (pystr * pystr))) (skip_ns : bool) (d : nd) : pystr :=
  let a0 := if nonempty (n_attrs d) then join sp (map fmt_attr (n_attrs d)) else [] in
  let a1 :=
    if skip_ns then a0
    else match parent with
         | None =>
             if nonempty (n_nsmap d) then a0 ++ sp ++ join sp (map fmt_ns (n_nsmap d)) else a0
         | Some pm =>
             if negb (dict_eq_unord (n_nsmap d) pm) then
               let u := nsp_unique (n_nsmap d) pm in
               if nonempty u then a0 ++ sp ++ join sp (map fmt_ns u) else a0
             else a0
         end in
  let a2 := if nonempty (n_extras d) then a1 ++ sp ++ join sp (map fmt_attr (n_extras d)) else a1 in
  if nonempty a2 then sp ++ lstrip a2 else a2.

Definition tag_of (d : nd) : pystr :=
  match n_prefix d with
  | None => n_name d
  | Some p => p ++ [58] ++ n_name d
  end.

(** metapype_io.to_xml.  [parent] is the parent's nsmap (the only thing read from it). *)
Fixpoint to_xml (parent : option (list (pystr * pystr))) (level : nat) (skip_ns : bool)
         (t : ftree) {struct t} : pystr :=
  let 'FT d kids := t in
  let indent := spaces (2 * level) in
  let tag := tag_of d in
  let attributes := attr_string parent skip_ns d in
  let '(open_tag, close0) :=
    match n_content d with
    | None =>
        if is_nil kids
        then (indent ++ [60] ++ tag ++ attributes ++ s "/>" ++ nl, [])
        else (indent ++ [60] ++ tag ++ attributes ++ [62] ++ nl,
              indent ++ s "</" ++ tag ++ [62] ++ nl)
    | Some c =>
        (indent ++ [60] ++ tag ++ attributes ++ [62] ++ escape_text c,
         s "</" ++ tag ++ [62] ++ nl)
    end in
  let close_tag := match n_tail d with
                   | None => close0
                   | Some tl => close0 ++ escape_text tl
                   end in
  open_tag ++ flat_map (to_xml (Some (n_nsmap d)) (S level) skip_ns) kids ++ close_tag.

(** entry point with the default arguments *)
Definition to_xml_top (t : ftree) : pystr := to_xml None 0 false t.

(** * metapype.eml.export.to_xml *)
Definition boiler : pystr :=
  s "xmlns:eml=""https://eml.ecoinformatics.org/eml-2.2.0"" " ++
  s "xmlns:stmml=""http://www.xml-cml.org/schema/stmml-1.2"" " ++
  s "xmlns:xsi=""http://www.w3.org/2001/XMLSchema-instance"" " ++
  s "xsi:schemaLocation=""https://eml.ecoinformatics.org/eml-2.2.0 " ++
  s "https://nis.lternet.edu/schemas/EML/eml-2.2.0/xsd/eml.xsd""".

Definition preescaped (c : pystr) : bool :=
  contains (s "&amp;") c || contains (s "&lt;") c || contains (s "&gt;") c.

Definition eml_content (c : pystr) : pystr :=
  if preescaped c then c
  else replace (s "&lt;/para&gt;") (s "</para>") (replace (s "&lt;para&gt;") (s "<para>") (escape_text c)).

Fixpoint eml_to_xml (level : nat) (t : ftree) {struct t} : pystr :=
  let 'FT d kids := t in
  let attributes0 := flat_map (fun kv => sp ++ fmt_attr kv) (n_attrs d) in
  let root_eml := Nat.eqb level 0 && pystr_eqb (n_name d) (s "eml") in
  let name := if root_eml then n_name d ++ [58] ++ n_name d else n_name d in
  let attributes := if root_eml then attributes0 ++ sp ++ boiler else attributes0 in
  let indent := spaces (4 * level) in
  let open_tag := [60] ++ name ++ attributes ++ [62] in
  let close_tag := s "</" ++ name ++ [62] in
  match n_content d with
  | Some c =>
      indent ++ open_tag ++ eml_content c ++ close_tag ++ nl ++
      flat_map (eml_to_xml (S level)) kids
  | None =>
      indent ++ open_tag ++ (if nonempty kids then nl else []) ++
      flat_map (eml_to_xml (S level)) kids ++
      (if nonempty kids then indent else []) ++ close_tag ++ nl
  end.

Definition eml_to_xml_top (t : ftree) : pystr := eml_to_xml 0 t.

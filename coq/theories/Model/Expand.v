(* Model/Expand.v — executable model of references.expand (src/metapype/eml/references.py)
   as a pure function on id-carrying trees with a fresh-id supply.  Definitions only.

   Python control flow:
     references = find_all_descendants("references")        (document order)
     ids = _register_ids(root)                               (ValueError on a duplicate)
     for every reference: content in ids, else ValueError    (all of them, before any change)
     for every reference, in order: parent loses it at index i (registry loses its subtree),
       and gains copy() of every child of the source at i, i+1, ... (add_child with index:
       namespace adoption from the new parent).
   Check phase ([check]) and edit phase ([expand_tree]) are separate functions; the edit
   phase only runs when the check phase succeeded, which is the atomicity of the failure path.

   Scope: the edit phase reads the sources from the tree as it was before the first edit.
   The Python reads them while editing; the two agree when no referenced element holds a
   references node (the property's precondition) and no references node holds another one
   ([in_scope]; outside it the Python may loop forever or raise AttributeError, and the model
   answers [EOutOfScope]).

   uuid.uuid1() is a supply of fresh ids: the k-th node created gets [fresh k]. *)
From MP Require Import Common.Base Common.Tree.

Definition REFERENCES : pystr := s "references".
Definition ID_ATTR : pystr := s "id".

(** Node.find_all_descendants(name): proper descendants, document order *)
Fixpoint find_desc (name : pystr) (t : ftree) : list ftree :=
  let 'FT _ kids := t in
  flat_map (fun k => (if pystr_eqb (ft_name k) name then [k] else []) ++ find_desc name k) kids.

Definition is_some {A} (o : option A) : bool := match o with Some _ => true | None => false end.

(** the loop over node.attributes.items() of _register_ids *)
Definition own_ids (t : ftree) : list (pystr * ftree) :=
  fold_left (fun reg av => if pystr_eqb (fst av) ID_ATTR then dict_set (snd av) t reg else reg)
            (n_attrs (ft_d t)) [].

(** {**a, **b} *)
Definition dict_merge {V} (a b : list (pystr * V)) : list (pystr * V) :=
  fold_left (fun acc kv => dict_set (fst kv) (snd kv) acc) b a.

(** _register_ids: [None] = ValueError("Duplicate use of ID") *)
Fixpoint register (t : ftree) : option (list (pystr * ftree)) :=
  let 'FT _ kids := t in
  (fix go (ks : list ftree) (reg : list (pystr * ftree)) : option (list (pystr * ftree)) :=
     match ks with
     | [] => Some reg
     | k :: r =>
         match register k with
         | None => None
         | Some sub =>
             if existsb (fun kv => is_some (assoc (fst kv) reg)) sub then None
             else go r (dict_merge reg sub)
         end
     end) kids (own_ids t).

(** [reference.content in ids] *)
Definition resolves (ids : list (pystr * ftree)) (r : ftree) : bool :=
  match n_content (ft_d r) with
  | Some c => is_some (assoc c ids)
  | None => false
  end.

(** check phase: a pure function of the tree; [None] = ValueError *)
Definition check (t : ftree) : option (list (pystr * ftree)) :=
  match register t with
  | None => None
  | Some ids => if forallb (resolves ids) (find_desc REFERENCES t) then Some ids else None
  end.

Definition source_of (ids : list (pystr * ftree)) (r : ftree) : option ftree :=
  match n_content (ft_d r) with
  | Some c => assoc c ids
  | None => None
  end.

(** some node of the subtree (the root included) is called "references" *)
Definition holds_refs (t : ftree) : bool :=
  existsb (fun x => pystr_eqb (ft_name x) REFERENCES) (preorder t).

Definition in_scope (ids : list (pystr * ftree)) (t : ftree) : bool :=
  forallb (fun r =>
             match find_desc REFERENCES r with [] => true | _ => false end &&
             match source_of ids r with Some src => negb (holds_refs src) | None => true end)
          (find_desc REFERENCES t).

(** fresh ids *)
Definition fresh (k : nat) : pystr := [126%N; N.of_nat k].

Definition set_id (d : nd) (i : pystr) : nd :=
  {| n_id := i; n_name := n_name d; n_content := n_content d; n_tail := n_tail d; n_prefix := n_prefix d;
     n_attrs := n_attrs d; n_extras := n_extras d; n_nsmap := n_nsmap d |}.

Definition set_nsmap (d : nd) (m : list (pystr * pystr)) : nd :=
  {| n_id := n_id d; n_name := n_name d; n_content := n_content d; n_tail := n_tail d; n_prefix := n_prefix d;
     n_attrs := n_attrs d; n_extras := n_extras d; n_nsmap := m |}.

(** Node.copy(): same fields, new ids in pre-order *)
Fixpoint copy_tree (t : ftree) (n : nat) : ftree * nat :=
  let 'FT d kids := t in
  let '(kids', n') :=
    (fix go (ks : list ftree) (n : nat) : list ftree * nat :=
       match ks with
       | [] => ([], n)
       | k :: r =>
           let '(k', n1) := copy_tree k n in
           let '(r', n2) := go r n1 in
           (k' :: r', n2)
       end) kids (S n) in
  (FT (set_id d (fresh n)) kids', n').

(** Node.add_namespace(prefix, ns) on a subtree: every node binds prefix to ns *)
Fixpoint ns_push (p v : pystr) (t : ftree) : ftree :=
  let 'FT d kids := t in
  FT (set_nsmap d (dict_set p v (n_nsmap d))) (map (ns_push p v) kids).

(** the namespace part of parent.add_child(c): share when the items agree in order, else
    the child subtree adopts the parent's prefixes it does not bind itself *)
Definition adopt (pns : list (pystr * pystr)) (c : ftree) : ftree :=
  if dict_eqb pns (n_nsmap (ft_d c)) then c
  else fold_left (fun c pv => if is_some (assoc (fst pv) (n_nsmap (ft_d c))) then c else ns_push (fst pv) (snd pv) c)
                 pns c.

(** copies of the children of the source, each adopted by the new parent *)
Fixpoint copy_into (pns : list (pystr * pystr)) (ks : list ftree) (n : nat) : list ftree * nat :=
  match ks with
  | [] => ([], n)
  | k :: r =>
      let '(k', n1) := copy_tree k n in
      let '(r', n2) := copy_into pns r n1 in
      (adopt pns k' :: r', n2)
  end.

(** edit phase: every child called "references" is replaced, in place, by the copies *)
Fixpoint expand_tree (ids : list (pystr * ftree)) (t : ftree) (n : nat) : ftree * nat :=
  let 'FT d kids := t in
  let '(kids', n') :=
    (fix go (ks : list ftree) (n : nat) : list ftree * nat :=
       match ks with
       | [] => ([], n)
       | k :: r =>
           if pystr_eqb (ft_name k) REFERENCES then
             let src_kids := match source_of ids k with Some src => ft_kids src | None => [] end in
             let '(cs, n1) := copy_into (n_nsmap d) src_kids n in
             let '(r', n2) := go r n1 in
             (cs ++ r', n2)
           else
             let '(k', n1) := expand_tree ids k n in
             let '(r', n2) := go r n1 in
             (k' :: r', n2)
       end) kids n in
  (FT d kids', n').

Inductive eout : Type :=
| EOk (t : ftree) (removed : list pystr) (created : nat)   (* ids leaving the registry; ids fresh 0..created-1 join it *)
| EFail                                                    (* ValueError; the tree is the input *)
| EOutOfScope.

Definition expand (t : ftree) : eout :=
  match check t with
  | None => EFail
  | Some ids =>
      if in_scope ids t then
        let '(t', n) := expand_tree ids t 0 in
        EOk t' (flat_map ids_of (find_desc REFERENCES t)) n
      else EOutOfScope
  end.

(* Model/Evaluate.v — model of metapype/eml/evaluate.py (as of the fix commits:
   get_text_content tolerates para/markdown content None; _description_rule tolerates a
   node without parent; intellectualRights text is read with get_text_content).  Definitions only.

   A tree is an [ftree]; [node.parent.name] is threaded by the walk as [parent : option pystr]
   ([None] = the node has no parent).  An evaluator returns [option (list code)]: [None] is
   Python's [None] return value ([_individual_name_rule] on a complete name), codes are the
   member NAMES of EvaluationWarning.  The message strings are not modelled; the node of
   every triple is the evaluated node itself, so [eval_node] attaches its id.

   Partial operations: [EvaluationWarning.X] (AttributeError if X is not a member) and the
   function a dispatch entry points to; both are explicit crash results. *)
From MP Require Import Common.Base.
From MP Require Import Common.Tree.
From MP Require Import Model.PyString.
From MP Require Import Model.Normalize.

Definition nm_is (n : string) (t : ftree) : bool := pystr_eqb (ft_name t) (s n).
Definition content_of (t : ftree) : option pystr := n_content (ft_d t).
Definition has_content (t : ftree) : bool := truthy (content_of t).

(** [x if x else ''] *)
Definition str_or_empty (c : option pystr) : pystr :=
  match c with Some (x :: r) => x :: r | _ => [] end.

(** Node.find_all_descendants(name, acc): pre-order, the node itself excluded *)
Definition descendants (t : ftree) : list ftree := flat_map preorder (ft_kids t).
Definition find_all_descendants (n : string) (t : ftree) : list ftree := filter (nm_is n) (descendants t).
(** Node.find_all_children(name) *)
Definition find_all_children (n : string) (t : ftree) : list ftree := filter (nm_is n) (ft_kids t).

Definition NL : N := 10%N.

(** evaluate.py:27-41 *)
Definition add_text (acc : pystr) (p : ftree) : pystr := acc ++ NL :: str_or_empty (content_of p).
Definition get_text_content (t : ftree) : pystr :=
  let content := str_or_empty (content_of t) in
  let content := fold_left add_text (find_all_descendants "para" t) content in
  fold_left add_text (find_all_descendants "markdown" t) content.

(** thresholds (evaluate.py:87, 132, 355) *)
Definition abstract_min_words : nat := 20.
Definition keywords_min : nat := 5.
Definition title_min_words : nat := 5.

Definition orcid_directory : pystr := s "https://orcid.org".

(** ** _responsible_party_rule (evaluate.py:287-317) *)
Definition rp_step (st : bool * bool * bool) (child : ftree) : bool * bool * bool :=
  let '(userid, orcid, email) := st in
  let '(userid, orcid) :=
    if nm_is "userId" child && has_content child
    then (true, if opt_eqb pystr_eqb (assoc (s "directory") (n_attrs (ft_d child))) (Some orcid_directory)
                then true else orcid)
    else (userid, orcid) in
  let email := if nm_is "electronicMailAddress" child && has_content child then true else email in
  (userid, orcid, email).

Definition responsible_party_rule (node : ftree) : option (list pystr) :=
  let '(userid, orcid, email) := fold_left rp_step (ft_kids node) (false, false, false) in
  Some ((if orcid then [] else [s "ORCID_ID_MISSING"]) ++
        (if userid then [] else [s "USER_ID_MISSING"]) ++
        (if email then [] else [s "EMAIL_MISSING"])).

(** ** _dataset_rule (evaluate.py:58-152) *)
Record ds_state := {
  ds_abstract : option ftree;
  ds_coverage : option ftree;
  ds_datatable : option ftree;
  ds_rights : option ftree;
  ds_keywordsets : list ftree;
  ds_methods : option ftree;
  ds_project : option ftree
}.

Definition ds_init : ds_state :=
  {| ds_abstract := None; ds_coverage := None; ds_datatable := None; ds_rights := None;
     ds_keywordsets := []; ds_methods := None; ds_project := None |}.

(** the if/elif chain of the loop body; plain assignment = the last matching child wins *)
Definition ds_step (st : ds_state) (child : ftree) : ds_state :=
  if nm_is "abstract" child then
    {| ds_abstract := Some child; ds_coverage := ds_coverage st; ds_datatable := ds_datatable st; ds_rights := ds_rights st;
       ds_keywordsets := ds_keywordsets st; ds_methods := ds_methods st; ds_project := ds_project st |}
  else if nm_is "coverage" child then
    {| ds_abstract := ds_abstract st; ds_coverage := Some child; ds_datatable := ds_datatable st; ds_rights := ds_rights st;
       ds_keywordsets := ds_keywordsets st; ds_methods := ds_methods st; ds_project := ds_project st |}
  else if nm_is "dataTable" child then
    {| ds_abstract := ds_abstract st; ds_coverage := ds_coverage st; ds_datatable := Some child; ds_rights := ds_rights st;
       ds_keywordsets := ds_keywordsets st; ds_methods := ds_methods st; ds_project := ds_project st |}
  else if nm_is "intellectualRights" child then
    {| ds_abstract := ds_abstract st; ds_coverage := ds_coverage st; ds_datatable := ds_datatable st; ds_rights := Some child;
       ds_keywordsets := ds_keywordsets st; ds_methods := ds_methods st; ds_project := ds_project st |}
  else if nm_is "keywordSet" child then
    {| ds_abstract := ds_abstract st; ds_coverage := ds_coverage st; ds_datatable := ds_datatable st; ds_rights := ds_rights st;
       ds_keywordsets := ds_keywordsets st ++ [child]; ds_methods := ds_methods st; ds_project := ds_project st |}
  else if nm_is "methods" child then
    {| ds_abstract := ds_abstract st; ds_coverage := ds_coverage st; ds_datatable := ds_datatable st; ds_rights := ds_rights st;
       ds_keywordsets := ds_keywordsets st; ds_methods := Some child; ds_project := ds_project st |}
  else if nm_is "project" child then
    {| ds_abstract := ds_abstract st; ds_coverage := ds_coverage st; ds_datatable := ds_datatable st; ds_rights := ds_rights st;
       ds_keywordsets := ds_keywordsets st; ds_methods := ds_methods st; ds_project := Some child |}
  else st.

Definition nonempty_list {A} (l : list A) : bool := match l with [] => false | _ => true end.
Definition is_some {A} (o : option A) : bool := match o with Some _ => true | None => false end.

Definition abstract_part (abstract_node : option ftree) : list pystr :=
  match abstract_node with
  | Some a =>
      let content := get_text_content a in
      if nonempty content then
        let words := py_split_ws content in
        if Nat.ltb (length words) abstract_min_words then [s "DATASET_ABSTRACT_TOO_SHORT"] else []
      else [s "DATASET_ABSTRACT_MISSING"]
  | None => [s "DATASET_ABSTRACT_MISSING"]
  end.

Definition keywords_part (keywordset_nodes : list ftree) : list pystr :=
  match keywordset_nodes with
  | [] => [s "KEYWORDS_MISSING"]
  | _ =>
      let num_keywords := fold_left (fun n ks => n + length (find_all_children "keyword" ks)) keywordset_nodes 0 in
      if Nat.ltb num_keywords keywords_min then [s "KEYWORDS_INSUFFICIENT"] else []
  end.

Definition dataset_rule (node : ftree) : option (list pystr) :=
  let st := fold_left ds_step (ft_kids node) ds_init in
  Some (abstract_part (ds_abstract st) ++
        (if match ds_coverage st with Some c => nonempty_list (ft_kids c) | None => false end
         then [] else [s "DATASET_COVERAGE_MISSING"]) ++
        (if is_some (ds_datatable st) then [] else [s "DATATABLE_MISSING"]) ++
        (if match ds_rights st with Some r => nonempty (get_text_content r) | None => false end
         then [] else [s "INTELLECTUAL_RIGHTS_MISSING"]) ++
        keywords_part (ds_keywordsets st) ++
        (if is_some (ds_methods st) then [] else [s "DATASET_METHOD_STEPS_MISSING"]) ++
        (if is_some (ds_project st) then [] else [s "DATASET_PROJECT_MISSING"])).

(** ** _datatable_rule (evaluate.py:155-243) *)
Record ph_state := {
  ph_auth : option ftree;
  ph_recdelim : option ftree;
  ph_size : option ftree;
  ph_dataformat : option ftree
}.

Definition ph_step (st : ph_state) (child : ftree) : ph_state :=
  if nm_is "authentication" child then
    {| ph_auth := Some child; ph_recdelim := ph_recdelim st; ph_size := ph_size st; ph_dataformat := ph_dataformat st |}
  else if nm_is "recordDelimiter" child then
    {| ph_auth := ph_auth st; ph_recdelim := Some child; ph_size := ph_size st; ph_dataformat := ph_dataformat st |}
  else if nm_is "size" child then
    {| ph_auth := ph_auth st; ph_recdelim := ph_recdelim st; ph_size := Some child; ph_dataformat := ph_dataformat st |}
  else if nm_is "dataFormat" child then
    {| ph_auth := ph_auth st; ph_recdelim := ph_recdelim st; ph_size := ph_size st; ph_dataformat := Some child |}
  else st.

Definition ph_init : ph_state := {| ph_auth := None; ph_recdelim := None; ph_size := None; ph_dataformat := None |}.

(** [not n or not n.content] is False exactly when the node exists and has text *)
Definition present (o : option ftree) : bool := match o with Some n => has_content n | None => false end.

(** first child with the name (loop with [break]) *)
Definition first_child (n : string) (t : ftree) : option ftree := find (nm_is n) (ft_kids t).

Definition datatable_rule (node : ftree) : option (list pystr) :=
  let description := existsb (fun child => nm_is "entityDescription" child && has_content child) (ft_kids node) in
  let physical_node := first_child "physical" node in
  let st := match physical_node with Some p => fold_left ph_step (ft_kids p) ph_init | None => ph_init end in
  let text_format_node := match ph_dataformat st with Some df => first_child "textFormat" df | None => None end in
  let record_delimiter_node :=
    match text_format_node with
    | Some tf => match first_child "recordDelimiter" tf with Some r => Some r | None => ph_recdelim st end
    | None => ph_recdelim st
    end in
  let number_of_records_node := first_child "numberOfRecords" node in
  Some ((if description then [] else [s "DATATABLE_DESCRIPTION_MISSING"]) ++
        (if present (ph_size st) then [] else [s "DATATABLE_SIZE_MISSING"]) ++
        (if present (ph_auth st) then [] else [s "DATATABLE_MD5_CHECKSUM_MISSING"]) ++
        (if present number_of_records_node then [] else [s "DATATABLE_NUMBER_OF_RECORDS_MISSING"]) ++
        (if present record_delimiter_node then [] else [s "DATATABLE_RECORD_DELIMITER_MISSING"])).

(** ** _description_rule (evaluate.py:246-277); the if/elif chain over the parent's name *)
Definition description_parents : list (pystr * pystr) :=
  [ (s "connectionDefinition", s "CONNECTION_DEFINITION_DESCRIPTION_MISSING");
    (s "designDescription", s "DESIGN_DESCRIPTION_DESCRIPTION_MISSING");
    (s "maintenance", s "MAINTENANCE_DESCRIPTION_MISSING");
    (s "methodStep", s "METHOD_STEP_DESCRIPTION_MISSING");
    (s "procedureStep", s "PROCEDURE_STEP_DESCRIPTION_MISSING");
    (s "qualityControl", s "QUALITY_CONTROL_DESCRIPTION_MISSING");
    (s "samplingDescription", s "SAMPLING_DESCRIPTION_DESCRIPTION_MISSING");
    (s "studyExtent", s "STUDY_EXTENT_DESCRIPTION_MISSING") ].

Definition description_rule (parent : option pystr) (node : ftree) : option (list pystr) :=
  let content := get_text_content node in
  let warning :=
    if nonempty content then None
    else match parent with
         | Some p => assoc p description_parents
         | None => None
         end in
  Some (match warning with Some w => [w] | None => [] end).

(** ** _individual_name_rule (evaluate.py:266-284): returns None when complete *)
Definition in_step (st : bool * bool) (child : ftree) : bool * bool :=
  let '(givename, surname) := st in
  let givename := if nm_is "givenName" child && has_content child then true else givename in
  let surname := if nm_is "surName" child && has_content child then true else surname in
  (givename, surname).

Definition individual_name_rule (node : ftree) : option (list pystr) :=
  let '(givename, surname) := fold_left in_step (ft_kids node) (false, false) in
  if givename && surname then None else Some [s "INDIVIDUAL_NAME_INCOMPLETE"].

(** ** _other_entity_rule *)
Definition other_entity_rule (node : ftree) : option (list pystr) :=
  let description := existsb (fun child => nm_is "entityDescription" child && has_content child) (ft_kids node) in
  Some (if description then [] else [s "OTHER_ENTITY_DESCRIPTION_MISSING"]).

(** ** _title_rule: [len(normalize(title).split(" "))] — [''.split(" ")] is [['']], length 1 *)
Definition title_rule (parent : option pystr) (node : ftree) : option (list pystr) :=
  match content_of node with
  | None => Some []
  | Some title =>
      match parent with
      | Some p =>
          if pystr_eqb p (s "dataset") then
            let len := length (py_split_on SP (norm title)) in
            if Nat.ltb len title_min_words then Some [s "TITLE_TOO_SHORT"] else Some []
          else Some []
      | None => Some []
      end
  end.

(** ** the module-level functions the dispatch dict can point to *)
Definition evaluator := option pystr -> ftree -> option (list pystr).

Definition evaluators : list (pystr * evaluator) :=
  [ (s "_associated_responsible_party_rule", fun _ => responsible_party_rule);
    (s "_contact_rule", fun _ => responsible_party_rule);
    (s "_creator_rule", fun _ => responsible_party_rule);
    (s "_dataset_rule", fun _ => dataset_rule);
    (s "_datatable_rule", fun _ => datatable_rule);
    (s "_description_rule", description_rule);
    (s "_individual_name_rule", fun _ => individual_name_rule);
    (s "_metadata_provider_rule", fun _ => responsible_party_rule);
    (s "_other_entity_rule", fun _ => other_entity_rule);
    (s "_personnel_rule", fun _ => responsible_party_rule);
    (s "_responsible_party_rule", fun _ => responsible_party_rule);
    (s "_title_rule", title_rule) ].

(** every code an evaluator of this model can append *)
Definition model_codes : list pystr :=
  [ s "ORCID_ID_MISSING"; s "USER_ID_MISSING"; s "EMAIL_MISSING";
    s "DATASET_ABSTRACT_TOO_SHORT"; s "DATASET_ABSTRACT_MISSING"; s "DATASET_COVERAGE_MISSING";
    s "DATATABLE_MISSING"; s "INTELLECTUAL_RIGHTS_MISSING"; s "KEYWORDS_MISSING"; s "KEYWORDS_INSUFFICIENT";
    s "DATASET_METHOD_STEPS_MISSING"; s "DATASET_PROJECT_MISSING";
    s "DATATABLE_DESCRIPTION_MISSING"; s "DATATABLE_SIZE_MISSING"; s "DATATABLE_MD5_CHECKSUM_MISSING";
    s "DATATABLE_NUMBER_OF_RECORDS_MISSING"; s "DATATABLE_RECORD_DELIMITER_MISSING";
    s "INDIVIDUAL_NAME_INCOMPLETE"; s "OTHER_ENTITY_DESCRIPTION_MISSING"; s "TITLE_TOO_SHORT" ]
  ++ map snd description_parents.

(** ** evaluate.node / evaluate.tree *)
Inductive nres :=
| NOk (evaluation : option (list pystr))
| NCrash (kind : pystr).

Section WithTables.
  Variable dispatch : list (pystr * pystr).   (* element name -> function name (Gen/Tables.v: eval_dispatch) *)
  Variable codes : list pystr.                 (* members of EvaluationWarning (Gen/Tables.v: warn_codes) *)

  Definition eval_node (parent : option pystr) (t : ftree) : nres :=
    match assoc (ft_name t) dispatch with
    | None => NOk None                                         (* node.name not in rules *)
    | Some fn =>
        match assoc fn evaluators with
        | None => NCrash (s "unmodelled-evaluator")
        | Some f =>
            match f parent t with
            | None => NOk None
            | Some l => if forallb (fun c => smem c codes) l then NOk (Some l)
                        else NCrash (s "AttributeError")        (* EvaluationWarning.X, X not a member *)
            end
        end
    end.

  Definition warning := (pystr * pystr)%type.    (* (code, node id) *)

  Inductive eres :=
  | EOk (warnings : list warning)
  | ECrash (kind : pystr).

  (** evaluate.tree: pre-order, warnings.extend, no metadata cut-off *)
  Fixpoint eval_tree (parent : option pystr) (t : ftree) (ws : list warning) {struct t} : eres :=
    let 'FT d kids := t in
    match eval_node parent t with
    | NCrash k => ECrash k
    | NOk ev =>
        let ws1 := match ev with
                   | None => ws
                   | Some l => ws ++ map (fun c => (c, n_id d)) l
                   end in
        (fix go (ks : list ftree) (acc : list warning) {struct ks} : eres :=
           match ks with
           | [] => EOk acc
           | k :: r => match eval_tree (Some (n_name d)) k acc with
                       | EOk acc' => go r acc'
                       | ECrash e => ECrash e
                       end
           end) kids ws1
    end.
End WithTables.

(* Model/ExpandRun.v — glue for evaluating the expand model on harness-generated cases
   (correspondence run of C16).  Definitions only. *)
From MP Require Import Common.Base Common.Tree Model.Prune Model.PruneRun Model.Expand.

(** node literal with a namespace map *)
Definition mkn (i n : pystr) (c : option pystr) (a m : list (pystr * pystr)) : nd :=
  {| n_id := i; n_name := n; n_content := c; n_tail := None; n_prefix := None;
     n_attrs := a; n_extras := []; n_nsmap := m |}.

Record ecase := {
  ec_tree : ftree;
  ec_store : list pystr          (* registry keys before the call, in dict order *)
}.

(** observable: tree after + registry keys after (dict order: survivors, then the new nodes in
    creation order), or ValueError, or outside the modelled scope *)
Inductive eobs : Type :=
| EO (t : ftree) (store : option (list pystr))
| EF
| EX.

Definition eobs_eqb (a b : eobs) : bool :=
  match a, b with
  | EF, EF => true
  | EX, EX => true
  | EO ta sa, EO tb sb => ftree_eqb ta tb && opt_eqb (list_eqb pystr_eqb) sa sb
  | _, _ => false
  end.

Definition run_ecase (c : ecase) : eobs :=
  match expand (ec_tree c) with
  | EFail => EF
  | EOutOfScope => EX
  | EOk t rem n =>
      EO t (match store_del_all rem (ec_store c) with
            | Some st => Some (st ++ map fresh (seq 0 n))
            | None => None
            end)
  end.

(* Model/Witness.v — C10: a generator of one minimal tree per element name.
   Definitions only.  The generator is not a model of any Python code; it is the
   witness construction of the claim "for every known element at least one tree rooted
   at it passes whole-tree validation".  Trees are built bottom-up by height: round k
   may only use children that already received a tree in a round < k, so recursion
   between rules is avoided and every tree is finite by construction. *)
From MP Require Import Common.Base.
From MP Require Import Model.Rule.
From MP Require Import Model.RuleRun.

(** * canonical content and attributes *)
Definition first_nonempty (l : list pystr) : option pystr :=
  match find (fun v => negb (is_nil v)) l with
  | Some v => Some v
  | None => hd_error l
  end.

(** content rule name -> canonical literal satisfying it *)
Definition canon_table : list (pystr * pystr) := [
  (s "floatRangeContent_EW", s "0");
  (s "floatRangeContent_NS", s "0");
  (s "floatContent_Nonnegative", s "1");
  (s "floatContent", s "1");
  (s "intContent", s "1");
  (s "timeContent", s "12:00:00");
  (s "yearDateContent", s "2000");
  (s "uriContent", s "http://a.b/");
  (s "nonEmptyContent", s "x")
].

Definition canon_content (r : rule_raw) : option pystr :=
  match rr_content_enum r with
  | Some vals => first_nonempty vals
  | None =>
      if smem (s "emptyContent") (rr_content_rules r) then None
      else match find (fun p => smem (fst p) (rr_content_rules r)) canon_table with
           | Some p => Some (snd p)
           | None => None
           end
  end.

Definition first_str (l : list rj) : option pystr :=
  match find (fun v => match v with RStr _ => true | _ => false end) l with
  | Some (RStr x) => Some x
  | _ => None
  end.

(** required attributes, each with its first allowed value (or "v") *)
Definition canon_attrs (r : rule_raw) : list (pystr * pystr) :=
  flat_map (fun p => match snd p with
                     | RBool true :: vals =>
                         [(fst p, match first_str vals with Some v => v | None => s "v" end)]
                     | _ => []
                     end) (rr_attrs r).

(** * shortest words of a children spec over the available child names *)
Definition shorter (a b : option (list pystr)) : option (list pystr) :=
  match a, b with
  | Some x, Some y => if (length y <? length x)%nat then b else a
  | Some _, None => a
  | None, _ => b
  end.

Definition okhi (k : nat) (hi : option nat) : bool :=
  match hi with Some h => (k <=? h)%nat | None => true end.

Section MinWord.
  Variable avail : pystr -> bool.     (* child names that already have a witness tree *)
  Variable mixed : bool.

  (** [mw sp] = (a shortest word of the language of [sp], a shortest NON-EMPTY word),
      using only available names; [None] when the generator finds none. *)
  Fixpoint mw (sp : spec) : option (list pystr) * option (list pystr) :=
    match sp with
    | El n lo hi =>
        ( if (lo =? 0)%nat then Some []
          else if avail n && okhi lo hi then Some (repeat n lo) else None,
          let k := Nat.max lo 1 in
          if avail n && okhi k hi then Some (repeat n k) else None )
    | Seq items =>
        let rs := map mw items in
        match all_some (map fst rs) with
        | None => (None, None)
        | Some ws =>
            let w := concat ws in
            (Some w, match w with
                     | _ :: _ => Some w
                     | [] => fold_right shorter None (map snd rs)
                     end)
        end
    | Cho alts lo hi =>
        let rs := map mw alts in
        let best := fold_right shorter None (map snd rs) in   (* a shortest single occurrence *)
        let rep k := match best with
                     | Some o => if okhi k hi then Some (concat (repeat o k)) else None
                     | None => None
                     end in
        ( if mixed || (lo =? 0)%nat then Some [] else rep lo,
          rep (Nat.max lo 1) )
    end.
End MinWord.

Definition is_some {A} (o : option A) : bool := match o with Some _ => true | None => false end.

(** * one tree for element [n] governed by rule [rn], children taken from [tbl] *)
Definition build_tree (tb : tables) (tbl : list (pystr * tree)) (n rn : pystr) (r : rule_raw) : option tree :=
  match parse_children (rr_children r) with
  | None => None
  | Some top =>
      let w := match top with
               | None => Some []
               | Some sp => fst (mw (fun c => is_some (assoc c tbl)) (smem rn (tb_mixed tb)) sp)
               end in
      match w with
      | None => None
      | Some w =>
          match all_some (map (fun c => assoc c tbl) w) with
          | Some kids => Some (T n (canon_content r) (canon_attrs r) kids)
          | None => None
          end
      end
  end.

(** one round: every element that has no tree yet and can be built from [tbl] *)
Definition round (tb : tables) (tbl : list (pystr * tree)) : list (pystr * tree) :=
  tbl ++ flat_map (fun p =>
                     match assoc (fst p) tbl with
                     | Some _ => []
                     | None =>
                         match assoc (snd p) (tb_rules tb) with
                         | None => []
                         | Some r => match build_tree tb tbl (fst p) (snd p) r with
                                     | Some t => [(fst p, t)]
                                     | None => []
                                     end
                         end
                     end) (tb_node_map tb).

Fixpoint iter_rounds (tb : tables) (fuel : nat) (tbl : list (pystr * tree)) : list (pystr * tree) :=
  match fuel with
  | O => tbl
  | S f => let t' := round tb tbl in
           if (length t' =? length tbl)%nat then tbl else iter_rounds tb f t'
  end.

Definition min_trees (tb : tables) (fuel : nat) : list (pystr * tree) := iter_rounds tb fuel [].

Definition min_tree (tb : tables) (fuel : nat) (n : pystr) : option tree := assoc n (min_trees tb fuel).

(** fuel: number of rules plus a margin (the height of a minimal tree cannot exceed the
    number of element names; rounds stop as soon as nothing new is built) *)
Definition witness_fuel (tb : tables) : nat := length (tb_rules tb) + 8.

(** * the finite oracle for the canonical literals (answers CHECKED by harness/c10.py
      against the running interpreter on every run) *)
Definition oa (i : bool) (f : option fval) (t y u : bool) : oans :=
  {| o_int := i; o_float := f; o_time := t; o_yd := y; o_uri := u |}.

Definition orc_canon_tbl : list (pystr * oans) := [
  (s "0",           oa true  (Some (FFin 0 1)) false false false);
  (s "1",           oa true  (Some (FFin 1 1)) false false false);
  (s "12:00:00",    oa false None              true  false false);
  (s "2000",        oa true  (Some (FFin 2000 1)) true true false);
  (s "http://a.b/", oa false None              false false true);
  (s "x",           oa false None              false false false);
  (s "v",           oa false None              false false false)
].

Definition orc_canon : pystr -> oans := orc_of orc_canon_tbl.

Definition res_ok (r : res) : bool := match r with Errs [] => true | _ => false end.

(** element names without a witness tree that is rooted at the element and validates *)
Definition witness_bad (orc : pystr -> oans) (tb : tables) (fuel : nat) : list pystr :=
  let tbl := min_trees tb fuel in
  filter (fun n => match assoc n tbl with
                   | Some t => negb (pystr_eqb (t_name t) n && res_ok (validate_tree orc tb t))
                   | None => true
                   end) (keys (tb_node_map tb)).

(** * flat encoding of trees for transport to the harness *)
Definition enc_str (x : pystr) : list N := N.of_nat (length x) :: x.

Fixpoint enc_tree (t : tree) : list N :=
  let 'T n c a k := t in
  enc_str n ++
  (match c with None => [0%N] | Some x => 1%N :: enc_str x end) ++
  (N.of_nat (length a) :: flat_map (fun p => enc_str (fst p) ++ enc_str (snd p)) a) ++
  (N.of_nat (length k) :: flat_map enc_tree k).

Definition enc_opt_tree (o : option tree) : list N :=
  match o with None => [0%N] | Some t => 1%N :: enc_tree t end.

(** equality of oracle answers (for checking [orc_canon_tbl] against live answers) *)
Definition fval_eqb (a b : fval) : bool :=
  match a, b with
  | FNan, FNan => true
  | FInf x, FInf y => Bool.eqb x y
  | FFin n d, FFin n' d' => Z.eqb n n' && Pos.eqb d d'
  | _, _ => false
  end.

Definition oans_eqb (a b : oans) : bool :=
  Bool.eqb (o_int a) (o_int b) && opt_eqb fval_eqb (o_float a) (o_float b) &&
  Bool.eqb (o_time a) (o_time b) && Bool.eqb (o_yd a) (o_yd b) && Bool.eqb (o_uri a) (o_uri b).

Definition orc_entry_eqb (a b : pystr * oans) : bool :=
  pystr_eqb (fst a) (fst b) && oans_eqb (snd a) (snd b).

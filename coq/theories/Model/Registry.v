(* Model/Registry.v — the class-level registry `Node.store` (node.py:34, 84-101, 134-158)
   on the aliasing heap: a Python dict  id string -> node object.
   Definitions only. *)
From MP Require Import Common.Base Common.Tree Model.Heap.

(** `Node.set_node_instance(node)`:  cls.store[node.id] = node *)
Definition set_node_instance (h : heap) (n : nat) : res heap :=
  match nget h n with
  | None => Crash "dangling node"
  | Some r => Ok (set_store h (dict_set (idstr r) n (store h)))
  end.

(** `Node.get_node_instance(id)`:  cls.store.get(id, None) *)
Definition get_node_instance (h : heap) (i : pystr) : option nat := assoc i (store h).

(** `Node.delete_node_instance(id, children=True)`

        if children:
            node = cls.get_node_instance(id)
            for child in node.children:            # AttributeError when node is None
                cls.delete_node_instance(child.id)
        del Node.store[id]                          # KeyError when absent                *)
Fixpoint delete_kids (rec : heap -> pystr -> res heap) (ks : list nat) (h : heap) : res heap :=
  match ks with
  | [] => Ok h
  | c :: ks' =>
    match nget h c with
    | None => Crash "dangling node"
    | Some rc => bind (rec h (idstr rc)) (delete_kids rec ks')
    end
  end.

Definition del_store (h : heap) (i : pystr) : res heap :=
  match assoc i (store h) with
  | None => Crash "KeyError"
  | Some _ => Ok (set_store h (dict_del i (store h)))
  end.

Fixpoint delete_rec (fuel : nat) (h : heap) (i : pystr) : res heap :=
  match fuel with
  | O => OutOfFuel
  | S f =>
    match get_node_instance h i with
    | None => Crash "AttributeError"                       (* None.children *)
    | Some n =>
      match nget h n with
      | None => Crash "dangling node"
      | Some r => bind (delete_kids (delete_rec f) (kids r) h) (fun h' => del_store h' i)
      end
    end
  end.

Definition delete_node_instance (fuel : nat) (h : heap) (i : pystr) (children : bool) : res heap :=
  if children then delete_rec fuel h i else del_store h i.

(* Model/RuleRun.v — glue for evaluating the rule model on harness-generated cases
   (correspondence run).  Definitions only. *)
From MP Require Import Common.Base Model.Rule.

Definition oans0 : oans := {| o_int := false; o_float := None; o_time := false; o_yd := false; o_uri := false |}.

Definition orc_of (tbl : list (pystr * oans)) (x : pystr) : oans :=
  match assoc x tbl with Some a => a | None => oans0 end.

(** observable outcome of one node validation: fail-fast outcome and collecting codes *)
Definition ff_str (r : res) : pystr :=
  match ff_of r with
  | FOk => s "OK"
  | FRaise c => c
  | FCrash k => s "CRASH:" ++ k
  end.

Definition codes_of (r : res) : list pystr :=
  match r with
  | Errs l => map code_of l
  | Crash pre k => map code_of pre ++ [s "CRASH:" ++ k]
  end.

Definition outcome := (pystr * list pystr)%type.
Definition outcome_eqb (a b : outcome) : bool :=
  pystr_eqb (fst a) (fst b) && list_eqb pystr_eqb (snd a) (snd b).

Definition obs (r : res) : outcome := (ff_str r, codes_of r).

(** a node-validation case against the shipped tables *)
Record ncase := {
  nc_name : pystr;
  nc_content : option pystr;
  nc_attrs : list (pystr * pystr);
  nc_kids : list pystr;
  nc_orc : list (pystr * oans)
}.

Definition run_ncase (tb : tables) (c : ncase) : outcome :=
  obs (validate_node (orc_of (nc_orc c)) tb (nc_name c) (nc_content c) (nc_attrs c) (nc_kids c)).

(** a case against a harness-installed rule *)
Record rcase := {
  rc_rule : rule_raw;
  rc_mixed : bool;
  rc_case : ncase
}.

Definition RNAME := s "__v".

Definition run_rcase (ranges : (Z * Z) * (Z * Z)) (c : rcase) : outcome :=
  let tb := {| tb_rules := [(RNAME, rc_rule c)]; tb_node_map := [];
               tb_mixed := if rc_mixed c then [RNAME] else []; tb_ranges := ranges |} in
  let n := rc_case c in
  obs (validate_rule (orc_of (nc_orc n)) tb RNAME (rc_rule c) (nc_name n) (nc_content n) (nc_attrs n) (nc_kids n)).

(** whole trees *)
Record tcase := { tc_tree : tree; tc_orc : list (pystr * oans) }.
Definition run_tcase (tb : tables) (c : tcase) : outcome :=
  obs (validate_tree (orc_of (tc_orc c)) tb (tc_tree c)).

(** a case against a shipped rule selected by rule name (Rule(rname).validate_rule(node)) *)
Record rncase := { rn_rule : pystr; rn_case : ncase }.
Definition run_rncase (tb : tables) (c : rncase) : outcome :=
  let n := rn_case c in
  match assoc (rn_rule c) (tb_rules tb) with
  | Some r => obs (validate_rule (orc_of (nc_orc n)) tb (rn_rule c) r (nc_name n) (nc_content n) (nc_attrs n) (nc_kids n))
  | None => (s "CRASH:KeyError", [s "CRASH:KeyError"])
  end.

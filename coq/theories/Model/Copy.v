(* Model/Copy.v — Node.copy() (node.py:256-284) on the aliasing heap, statement by statement.

       _copy = copy.copy(self)                      new object, every field aliases self's
       _copy._id = str(uuid.uuid1())                fresh id string (oracle [uuid])
       _copy.parent = None                          the copy is a detached tree (commit 67b45ec)
       Node.set_node_instance(_copy)
       _copy.attributes = {}; for k, v in self.attributes.items(): _copy.attributes[k] = v
       _copy.nsmap = {};      … same …
       _copy.extras = {};     … same …
       _copy.children = []
       for child in self.children:
           _child_copy = child.copy(); _child_copy.parent = _copy; _copy.children.append(_child_copy)
       return _copy

   The uuid1 oracle is a parameter: [uuid k] is the string handed to the k-th node object of
   the process (theorems assume it injective and unused so far; the harness instantiates it).
   Definitions only. *)
From MP Require Import Common.Base Common.Tree Model.Heap Model.Registry.

(** `for key, val in items: d[key] = val` on the dict at location [l] *)
Definition fill (h : heap) (l : nat) (items : dict) : heap :=
  fold_left (fun h kv => dset h l (dict_set (fst kv) (snd kv) (dget h l))) items h.

Section Copy.
  Variable uuid : nat -> pystr.

  (** the loop over self.children, with the recursive call abstracted *)
  Fixpoint copy_kids (rec : heap -> nat -> res (heap * nat)) (n' : nat) (ks : list nat) (h : heap) : res heap :=
    match ks with
    | [] => Ok h
    | c :: ks' =>
      match rec h c with
      | Ok (h1, cc) =>
        match nget h1 cc with
        | None => Crash "dangling node"
        | Some rcc =>
          let h2 := nset h1 cc (set_parent rcc (Some n')) in              (* _child_copy.parent = _copy *)
          match nget h2 n' with
          | None => Crash "dangling node"
          | Some rn' =>
            copy_kids rec n' ks' (nset h2 n' (set_kids rn' (kids rn' ++ [cc])))   (* _copy.children.append(…) *)
          end
        end
      | Crash k => Crash k
      | OutOfFuel => OutOfFuel
      end
    end.

  (** `_copy.X = {}` followed by `for key, val in self.X.items(): _copy.X[key] = val`:
      a new empty dict (it gets location [next_loc h]) is stored in the field of the copy
      ([rc'] is the copy's record with that field already pointing to [next_loc h]) and
      filled key by key from the dict at [src], the corresponding location of self *)
  Definition fresh_dict (h : heap) (n' : nat) (rc' : nrec) (src : nat) : heap :=
    let (h1, l) := alloc h [] in
    fill (nset h1 n' rc') l (dget h1 src).

  (** the statements before the loop over the children; returns the heap and the new object *)
  Definition copy_head (h : heap) (r : nrec) : heap * nat :=
    let n' := next_id h in
    let h1 := fst (new_node h r) in                                   (* copy.copy(self) *)
    let r1 := set_parent (set_idstr r (uuid n')) None in              (* _copy._id = uuid1(); _copy.parent = None *)
    let h2 := nset h1 n' r1 in
    let h3 := set_store h2 (dict_set (idstr r1) n' (store h2)) in     (* Node.set_node_instance(_copy) *)
    let r2 := set_attrs r1 (next_loc h3) in                           (* _copy.attributes = {} … *)
    let h5 := fresh_dict h3 n' r2 (attrs_loc r) in
    let r3 := set_ns r2 (next_loc h5) in                              (* _copy.nsmap = {} … *)
    let h7 := fresh_dict h5 n' r3 (ns_loc r) in
    let r4 := set_extras r3 (next_loc h7) in                          (* _copy.extras = {} … *)
    let h9 := fresh_dict h7 n' r4 (extras_loc r) in
    (nset h9 n' (set_kids r4 []), n').                                (* _copy.children = [] *)

  Fixpoint copy_node (fuel : nat) (h : heap) (n : nat) : res (heap * nat) :=
    match fuel with
    | O => OutOfFuel
    | S f =>
      match nget h n with
      | None => Crash "dangling node"
      | Some r =>
        let (h10, n') := copy_head h r in
        match copy_kids (copy_node f) n' (kids r) h10 with                (* for child in self.children *)
        | Ok h11 => Ok (h11, n')
        | Crash k => Crash k
        | OutOfFuel => OutOfFuel
        end
      end
    end.

  Definition copy_op (h : heap) (n : nat) : res (heap * nat) := copy_node (fuel_of h) h n.
End Copy.

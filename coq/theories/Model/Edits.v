(* Model/Edits.v — C09: the tree-editing operations and queries of node.py as they are NOW
   (add_child 163-179, remove_child 537-549, remove_children 551-555, replace_child 571-593,
   shift 595-648, child_index 221-238, find_* 294-437, get_ancestry 439-447,
   delete_node_instance 84-101).  Namespace side effects of add_child are C13's.
   A forest is a pure state over object identities [nat]; definitions only. *)
From MP Require Import Common.Base.

Record st := mkst {
  kids : nat -> list nat;        (* node._children, as object identities *)
  parent : nat -> option nat;    (* node._parent *)
  name : nat -> nat;             (* node._name (a name id); never changed by an edit *)
  reg : nat -> bool              (* node.id in Node.store (ids are distinct per object) *)
}.

Definition upd {A} (f : nat -> A) (i : nat) (v : A) : nat -> A :=
  fun j => if Nat.eqb j i then v else f j.

Definition set_kids (s : st) (p : nat) (l : list nat) : st := mkst (upd (kids s) p l) (parent s) (name s) (reg s).
Definition set_parent (s : st) (c : nat) (p : option nat) : st := mkst (kids s) (upd (parent s) c p) (name s) (reg s).
Definition set_reg (s : st) (r : nat -> bool) : st := mkst (kids s) (parent s) (name s) r.

(** * Python list primitives (identity comparison: Node defines no __eq__) *)
Fixpoint insert_at (k : nat) (x : nat) (l : list nat) : list nat :=
  match k, l with
  | 0, _ => x :: l
  | S _, [] => [x]
  | S k', y :: r => y :: insert_at k' x r
  end.

(** list.insert(idx, x): negative indices count from the end, everything clamps *)
Definition py_insert (idx : Z) (x : nat) (l : list nat) : list nat :=
  let n := Z.of_nat (length l) in
  let i := if (idx <? 0)%Z then (if (idx + n <? 0)%Z then 0%Z else (idx + n)%Z)
           else (if (n <? idx)%Z then n else idx) in
  insert_at (Z.to_nat i) x l.

(** list.index(x): first position, None = ValueError *)
Fixpoint index_of (x : nat) (l : list nat) : option nat :=
  match l with
  | [] => None
  | y :: r => if Nat.eqb y x then Some 0 else option_map S (index_of x r)
  end.

(** list.remove(x): first occurrence, None = ValueError *)
Fixpoint py_remove (x : nat) (l : list nat) : option (list nat) :=
  match l with
  | [] => None
  | y :: r => if Nat.eqb y x then Some r else option_map (cons y) (py_remove x r)
  end.

(** l[i] = x, None = IndexError *)
Fixpoint list_set (i : nat) (x : nat) (l : list nat) : option (list nat) :=
  match l, i with
  | [], _ => None
  | _ :: r, 0 => Some (x :: r)
  | y :: r, S i' => option_map (cons y) (list_set i' x r)
  end.

(** l[i], l[j] = (l[j], l[i]) — the right-hand tuple is read first, then slot i, then slot j *)
Definition swap_slots (i j : nat) (l : list nat) : option (list nat) :=
  match nth_error l j, nth_error l i with
  | Some b, Some a => match list_set i b l with
                      | Some l1 => list_set j a l1
                      | None => None
                      end
  | _, _ => None
  end.

(** * outcomes *)
Inductive exn := ValueError | IndexError | KeyError | AttributeError | OutOfFuel.
Inductive ret := RNone | RInt (i : nat) | Raise (e : exn).

Inductive dir := LEFT | RIGHT.
Inductive op :=
| AddChild (p c : nat) (idx : option Z)
| RemoveChild (p c : nat)
| ReplaceChild (p old new : nat) (del : bool)
| Shift (p c : nat) (d : dir) (sib : bool)
| RemoveChildren (p : nat).

(** * delete_node_instance(id, children=True) on the registry; the state after a failure is
      the partially emptied registry *)
Fixpoint del_tree (fuel : nat) (k : nat -> list nat) (r : nat -> bool) (i : nat) {struct fuel}
  : (nat -> bool) * option exn :=
  match fuel with
  | 0 => (r, Some OutOfFuel)
  | S f =>
    if r i then                                       (* node = cls.get_node_instance(id) *)
      let '(r1, e) :=
        (fix go (r : nat -> bool) (l : list nat) {struct l} : (nat -> bool) * option exn :=
           match l with
           | [] => (r, None)
           | c :: rest => let '(r', e) := del_tree f k r c in
                          match e with None => go r' rest | Some _ => (r', e) end
           end) r (k i) in
      match e with
      | Some _ => (r1, e)
      | None => if r1 i then (upd r1 i false, None) else (r1, Some KeyError)   (* del Node.store[id] *)
      end
    else (r, Some AttributeError)                     (* None.children *)
  end.

(** * the edits *)
Definition exec_add (s : st) (p c : nat) (idx : option Z) : st * ret :=
  let l' := match idx with
            | None => kids s p ++ [c]
            | Some z => py_insert z c (kids s p)
            end in
  (set_parent (set_kids s p l') c (Some p), RNone).

(** if child.parent is self: child.parent = None *)
Definition opt_nat_eqb (a : option nat) (b : nat) : bool :=
  match a with Some x => Nat.eqb x b | None => false end.
Definition clear_parent_if (s : st) (c p : nat) : st :=
  if opt_nat_eqb (parent s c) p then set_parent s c None else s.

Definition exec_remove (s : st) (p c : nat) : st * ret :=
  match py_remove c (kids s p) with
  | None => (s, Raise ValueError)
  | Some l' => (clear_parent_if (set_kids s p l') c p, RNone)
  end.

(** remove_children: for child in self._children: (clear its parent link if it names self);
    then self._children = [] *)
Definition exec_clear (s : st) (p : nat) : st * ret :=
  (set_kids (fold_left (fun s c => clear_parent_if s c p) (kids s p) s) p [], RNone).

Definition exec_replace (fuel : nat) (s : st) (p old new : nat) (del : bool) : st * ret :=
  if negb (Nat.eqb (name s new) (name s old)) then (s, Raise ValueError) else
  match index_of old (kids s p) with
  | None => (s, Raise ValueError)
  | Some i =>
    let s1 := set_parent s new (Some p) in
    match list_set i new (kids s1 p) with
    | None => (s1, Raise IndexError)
    | Some l' =>
      let s2' := set_kids s1 p l' in
      (* if old_child.parent is self and old_child is not new_child: old_child.parent = None *)
      let s2 := if negb (Nat.eqb old new) then clear_parent_if s2' old p else s2' in
      if del then
        let '(r, e) := del_tree fuel (kids s2) (reg s2) old in
        (set_reg s2 r, match e with None => RNone | Some x => Raise x end)
      else (s2, RNone)
    end
  end.

(** for sib_index in range(index + 1, len): [l] is the suffix that starts at position [j] *)
Fixpoint scan_right (nm : nat -> nat) (target : nat) (l : list nat) (j : nat) : option nat :=
  match l with
  | [] => None
  | y :: r => if Nat.eqb (nm y) target then Some j else scan_right nm target r (S j)
  end.

(** for sib_index in range(index - 1, -1, -1): [l] is the reversed prefix, its head sits at
    position [k - 1] *)
Fixpoint scan_left (nm : nat -> nat) (target : nat) (l : list nat) (k : nat) : option nat :=
  match l with
  | [] => None
  | y :: r => if Nat.eqb (nm y) target then Some (k - 1) else scan_left nm target r (k - 1)
  end.

Definition exec_shift (s : st) (p c : nat) (d : dir) (sib : bool) : st * ret :=
  let l := kids s p in
  match index_of c l with
  | None => (s, Raise ValueError)
  | Some i =>
    match nth_error l i with
    | None => (s, Raise IndexError)
    | Some ci =>
      let nm := name s ci in
      let target :=
        match d, sib with
        | RIGHT, true => scan_right (name s) nm (skipn (S i) l) (S i)
        | RIGHT, false => if Nat.ltb i (length l - 1) then Some (i + 1) else None
        | LEFT, true => scan_left (name s) nm (rev (firstn i l)) i
        | LEFT, false => if Nat.ltb 0 i then Some (i - 1) else None
        end in
      match target with
      | None => (s, RInt i)
      | Some j => match swap_slots i j l with
                  | Some l' => (set_kids s p l', RInt j)
                  | None => (s, Raise IndexError)
                  end
      end
    end
  end.

Definition exec (fuel : nat) (o : op) (s : st) : st * ret :=
  match o with
  | AddChild p c idx => exec_add s p c idx
  | RemoveChild p c => exec_remove s p c
  | ReplaceChild p old new del => exec_replace fuel s p old new del
  | Shift p c d sib => exec_shift s p c d sib
  | RemoveChildren p => exec_clear s p
  end.

Definition run (fuel : nat) (h : list op) (s : st) : st := fold_left (fun s o => fst (exec fuel o s)) h s.

(** * queries that read the state directly *)
Definition child_index (s : st) (p c : nat) : option nat := index_of c (kids s p).

(** get_ancestry: ancestry.insert(0, node); node = node.parent; until there is none.
    None = out of fuel (the Python loop would not terminate) *)
Fixpoint ancestry (fuel : nat) (s : st) (i : nat) (acc : list nat) : option (list nat) :=
  match fuel with
  | 0 => None
  | S f => match parent s i with
           | None => Some (i :: acc)
           | Some p => ancestry f s p (i :: acc)
           end
  end.
Definition get_ancestry (fuel : nat) (s : st) (i : nat) := ancestry fuel s i [].

(** * the tree a node's queries walk: children lists unfolded *)
Inductive rtree := RT (id : nat) (nm : nat) (ks : list rtree).
Definition rt_id (t : rtree) := let 'RT i _ _ := t in i.
Definition rt_name (t : rtree) := let 'RT _ n _ := t in n.
Definition rt_kids (t : rtree) := let 'RT _ _ k := t in k.

Fixpoint reify (fuel : nat) (s : st) (i : nat) {struct fuel} : option rtree :=
  match fuel with
  | 0 => None
  | S f =>
    match (fix go (l : list nat) : option (list rtree) :=
             match l with
             | [] => Some []
             | c :: r => match reify f s c, go r with
                         | Some t, Some ts => Some (t :: ts)
                         | _, _ => None
                         end
             end) (kids s i) with
    | Some ks => Some (RT i (name s i) ks)
    | None => None
    end
  end.

(** find_child: first child with the name *)
Fixpoint first_named (nm : nat) (l : list rtree) : option rtree :=
  match l with
  | [] => None
  | c :: r => if Nat.eqb (rt_name c) nm then Some c else first_named nm r
  end.
Definition find_child (nm : nat) (t : rtree) : option rtree := first_named nm (rt_kids t).

Definition find_all_children (nm : nat) (t : rtree) : list rtree :=
  filter (fun c => Nat.eqb (rt_name c) nm) (rt_kids t).

(** find_descendant: a child is tested before its descendants, the first hit breaks the loop *)
Fixpoint find_descendant (nm : nat) (t : rtree) {struct t} : option rtree :=
  let 'RT _ _ ks := t in
  (fix go (l : list rtree) : option rtree :=
     match l with
     | [] => None
     | c :: r =>
       let d := if Nat.eqb (rt_name c) nm then Some c else find_descendant nm c in
       match d with
       | Some x => Some x         (* if descendant: break *)
       | None => go r
       end
     end) ks.

(** find_all_descendants(name, descendants): appends to the caller's list *)
Fixpoint find_all_descendants (nm : nat) (t : rtree) (acc : list rtree) {struct t} : list rtree :=
  let 'RT _ _ ks := t in
  (fix go (l : list rtree) (acc : list rtree) : list rtree :=
     match l with
     | [] => acc
     | c :: r =>
       let acc1 := if Nat.eqb (rt_name c) nm then acc ++ [c] else acc in
       go r (find_all_descendants nm c acc1)
     end) ks acc.

(** find_single_node_by_path *)
Fixpoint walk_single (path : list nat) (cur : option rtree) : option rtree :=
  match path with
  | [] => cur
  | nm :: rest => match cur with
                  | None => None                     (* if not current_node: return None *)
                  | Some t => walk_single rest (find_child nm t)
                  end
  end.
Definition find_single_node_by_path (path : list nat) (t : rtree) : option rtree :=
  match path with
  | [] => None                                       (* if not path or len(path) == 0 *)
  | _ => walk_single path (Some t)
  end.

(** find_all_nodes_by_path *)
Fixpoint walk_all (path : list nat) (cur : list rtree) : list rtree :=
  match path with
  | [] => cur
  | nm :: rest => match cur with
                  | [] => []                         (* if not current_list: return [] *)
                  | _ => walk_all rest (flat_map (find_all_children nm) cur)
                  end
  end.
Definition find_all_nodes_by_path (path : list nat) (t : rtree) : list rtree :=
  match path with
  | [] => []
  | _ => walk_all path [t]
  end.

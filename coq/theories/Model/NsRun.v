(* Model/NsRun.v — glue for harness/c13.py: compact encoding of histories over a forest
   of [k] fresh nodes, and the observation compared with the implementation after a
   step: per node (nsmap items in order, identity class of the nsmap object, child list).
   Definitions only. *)
From MP Require Import Common.Base Common.Tree Model.Heap Model.Namespace.

(* index 9 stands for the empty string (a legal, falsy prefix / URI) *)
Definition pname (i : nat) : pystr := if Nat.eqb i 9 then [] else [112%N; (48 + N.of_nat i)%N].   (* "p0", "p1", … *)
Definition uname (i : nat) : pystr := if Nat.eqb i 9 then [] else [117%N; (48 + N.of_nat i)%N].   (* "u0", "u1", … *)

Inductive cop : Type :=
| CA (par c : nat) (i : option Z)
| CD (n p u : nat)
| CU (n p : nat).

Definition to_nsop (o : cop) : nsop :=
  match o with
  | CA par c i => Attach par c i
  | CD n p u => Declare n (pname p) (uname u)
  | CU n p => Undeclare n (pname p)
  end.

Fixpoint init_forest (k : nat) (h : heap) : heap :=
  match k with
  | O => h
  | S k' => init_forest k' (fst (create_node h (s "n") [N.of_nat (next_id h)] None))
  end.

(** index of the first element equal to [x] *)
Fixpoint first_index (x : nat) (l : list nat) : nat :=
  match l with
  | [] => 0
  | y :: r => if Nat.eqb x y then 0 else S (first_index x r)
  end.

Definition obs1 := (list (nat * nat) * nat * list nat)%type.   (* items (prefix,uri indices), class, kids *)

Definition obs_eqb1 (h : heap) (locs : list nat) (n : nat) (w : obs1) : bool :=
  match nget h n with
  | None => false
  | Some r =>
    let '(items, cls, ks) := w in
    dict_eqb (dget h (ns_loc r)) (map (fun pu => (pname (fst pu), uname (snd pu))) items)
    && Nat.eqb (first_index (ns_loc r) locs) cls
    && list_eqb Nat.eqb (kids r) ks
  end.

Definition locs_of (h : heap) (k : nat) : list nat :=
  map (fun n => match nget h n with Some r => ns_loc r | None => 0 end) (seq 0 k).

Fixpoint obs_eqb_from (h : heap) (locs : list nat) (n : nat) (w : list obs1) : bool :=
  match w with
  | [] => true
  | x :: r => obs_eqb1 h locs n x && obs_eqb_from h locs (S n) r
  end.

Definition state_ok (k : nat) (h : heap) (w : list obs1) : bool :=
  Nat.eqb (length w) k && obs_eqb_from h (locs_of h k) 0 w.

(** whole trace: after every step *)
Fixpoint trace_ok (k : nat) (h : heap) (ops : list cop) (want : list (list obs1)) : bool :=
  match ops, want with
  | [], [] => true
  | o :: ops', w :: want' =>
    match exec_nsop h (to_nsop o) with
    | Ok h' => state_ok k h' w && trace_ok k h' ops' want'
    | _ => false
    end
  | _, _ => false
  end.

(** final state only *)
Fixpoint run_ops (h : heap) (ops : list cop) : res heap :=
  match ops with
  | [] => Ok h
  | o :: ops' => bind (exec_nsop h (to_nsop o)) (fun h' => run_ops h' ops')
  end.

Definition final_ok (k : nat) (ops : list cop) (want : list obs1) : bool :=
  match run_ops (init_forest k empty_heap) ops with
  | Ok h => state_ok k h want
  | _ => false
  end.

Definition trace_case (c : nat * list cop * list (list obs1)) : bool :=
  let '(k, ops, want) := c in trace_ok k (init_forest k empty_heap) ops want.

Definition final_case (c : nat * list cop * list obs1) : bool :=
  let '(k, ops, want) := c in final_ok k ops want.

(** indices of failing cases *)
Fixpoint failing_from {A} (f : A -> bool) (i : nat) (l : list A) : list nat :=
  match l with
  | [] => []
  | x :: r => (if f x then [] else [i]) ++ failing_from f (S i) r
  end.
Definition failing {A} (f : A -> bool) (l : list A) : list nat := failing_from f 0 l.

(** what the model computes, for replay files *)
Definition show_state (k : nat) (h : heap) : list (dict * nat * list nat) :=
  map (fun n => match nget h n with
                | Some r => (dget h (ns_loc r), first_index (ns_loc r) (locs_of h k), kids r)
                | None => ([], 0, [])
                end) (seq 0 k).

(* Model/EqualRun.v — glue for harness/c18.py case files. *)
From MP Require Export Common.Base.
From MP Require Export Common.Tree.
From MP Require Export Model.Equal.

(** a case: two labelled trees; result = (is_equal a b, is_equal b a) *)
Definition run_eq (c : otree * otree) : bool * bool :=
  (is_equal (fst c) (snd c), is_equal (snd c) (fst c)).
Definition bb_eqb (x y : bool * bool) : bool := Bool.eqb (fst x) (fst y) && Bool.eqb (snd x) (snd y).

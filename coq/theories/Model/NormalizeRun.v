(* Model/NormalizeRun.v — glue evaluated by harness/c20.py case files (no theorems). *)
From MP Require Import Common.Base.
From MP Require Import Model.PyString.
From MP Require Import Model.Normalize.

(** everything the text-branch correspondence observes about one input string:
    [ [normalize(x); x.strip(); x.lstrip(); x.rstrip(); x.replace(nbsp," ");
       " ".join(x.split(" ")); "-+".join(x.split())];  x.split(" ");  x.split() ] *)
Definition text_obs (x : pystr) : list (list pystr) :=
  [ [ norm x; py_strip x; py_lstrip x; py_rstrip x; replace_char 160 32 x;
      py_join [32%N] (py_split_on 32 x); py_join (s "-+") (py_split_ws x) ];
    py_split_on 32 x;
    py_split_ws x ].

Definition obs_eqb : list (list pystr) -> list (list pystr) -> bool := list_eqb (list_eqb pystr_eqb).

(** ** XML branch *)
Definition is_text (n : xnode) : bool := match n with XT _ => true | XE _ _ _ => false end.
Definition is_ws_text (n : xnode) : bool := match n with XT x => forallb is_xml_space x | XE _ _ _ => false end.
Definition attrs_eqb (a b : list (pystr * pystr)) : bool :=
  list_eqb (fun p q => pystr_eqb (fst p) (fst q) && pystr_eqb (snd p) (snd q)) a b.

(** model result [m] against the re-parsed output [o] of the implementation.  The libxml2
    serialiser (indent="yes") may add whitespace-only text nodes to an element that has no
    text child; nothing else may differ. *)
Fixpoint x_agree (m o : xnode) {struct m} : bool :=
  match m, o with
  | XT a, XT b => pystr_eqb a b
  | XE n a k, XE n' a' k' =>
      pystr_eqb n n' && attrs_eqb a a' &&
      (fix go (l l' : list xnode) {struct l} : bool :=
         match l, l' with
         | [], [] => true
         | x :: r, y :: r' => x_agree x y && go r r'
         | _, _ => false
         end) k (if existsb is_text k then k' else filter (fun x => negb (is_ws_text x)) k')
  | _, _ => false
  end.

Record xcase := { xc_protected : list pystr; xc_input : xnode; xc_output : xnode }.

Definition run_xcase (c : xcase) : bool :=
  match norm_xml (xc_protected c) (xc_input c) with
  | [m] => x_agree m (xc_output c)
  | _ => false
  end.

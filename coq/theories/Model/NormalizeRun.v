(* Model/NormalizeRun.v — glue evaluated by harness/c20.py case files (no theorems). *)
From MP Require Import Common.Base.
From MP Require Import Model.PyString.
From MP Require Import Model.Normalize.

(** everything the text-branch correspondence observes about one input string:
    [ [normalize(x); x.strip(); x.lstrip(); x.rstrip(); x.replace(nbsp," ");
       " ".join(x.split(" ")); "-+".join(x.split())];  x.split(" ");  x.split() ] *)
Definition text_obs (x : pystr) : list (list pystr) :=
  [ [ norm x; py_strip x; py_lstrip x; py_rstrip x; replace_char 160 32 x;
      py_join [32%N] (py_split_on 32 x); py_join (s "-+") (py_split_ws x) ];
    py_split_on 32 x;
    py_split_ws x ].

Definition obs_eqb : list (list pystr) -> list (list pystr) -> bool := list_eqb (list_eqb pystr_eqb).

(* Model/Equal.v — C18: Node.is_equal (node.py:449-496) as it is NOW.
   Trees carry an object identity per node ([obj], CPython's id()); the code's first test
   is [id(node1) == id(node2)] -> False.  Definitions only. *)
From MP Require Import Common.Base.
From MP Require Import Common.Tree.

Inductive otree : Type := OT (obj : nat) (d : nd) (kids : list otree).

Definition ot_obj (t : otree) := let 'OT o _ _ := t in o.
Definition ot_d (t : otree) := let 'OT _ d _ := t in d.
Definition ot_kids (t : otree) := let 'OT _ _ k := t in k.

Fixpoint erase (t : otree) : ftree := let 'OT _ d k := t in FT d (map erase k).
Fixpoint objs (t : otree) : list nat := let 'OT o _ k := t in o :: flat_map objs k.

(** label an [ftree] with consecutive object identities in document order, starting at [n];
    returns the labelled tree and the next free identity *)
Fixpoint label (n : nat) (t : ftree) {struct t} : otree * nat :=
  let 'FT d k := t in
  let '(k', n') :=
    (fix go (n : nat) (l : list ftree) {struct l} : list otree * nat :=
       match l with
       | [] => ([], n)
       | x :: r => let '(x', n1) := label n x in let '(r', n2) := go n1 r in (x' :: r', n2)
       end) (S n) k in
  (OT n d k', n').

(** [len(d1) != len(d2)] -> False; else for every key of d1: d1[key] != d2[key] -> False,
    KeyError -> False.  Not an ordered comparison. *)
Definition dict_cmp (a b : list (pystr * pystr)) : bool :=
  if negb (Nat.eqb (length a) (length b)) then false
  else forallb (fun k => match assoc k a, assoc k b with
                         | Some x, Some y => pystr_eqb x y
                         | _, _ => false          (* KeyError *)
                         end) (keys a).

(** generic "compare position by position, stop at the first False"; the third case is the
    IndexError of [node2.children[index]], unreachable after the length test *)
Fixpoint forall2b {A} (f : A -> A -> bool) (x y : list A) : bool :=
  match x, y with
  | [], _ => true
  | p :: x', q :: y' => if f p q then forall2b f x' y' else false
  | _ :: _, [] => false
  end.

Fixpoint is_equal (a b : otree) {struct a} : bool :=
  let 'OT oa da ka := a in
  let 'OT ob db kb := b in
  if Nat.eqb oa ob then false else
  if negb (pystr_eqb (n_name da) (n_name db)) then false else
  if negb (opt_eqb pystr_eqb (n_content da) (n_content db)) then false else
  if negb (opt_eqb pystr_eqb (n_tail da) (n_tail db)) then false else
  if negb (dict_cmp (n_attrs da) (n_attrs db)) then false else
  if negb (dict_cmp (n_nsmap da) (n_nsmap db)) then false else
  if negb (opt_eqb pystr_eqb (n_prefix da) (n_prefix db)) then false else
  if negb (dict_cmp (n_extras da) (n_extras db)) then false else
  if negb (Nat.eqb (length ka) (length kb)) then false else
  (fix go (x y : list otree) {struct x} : bool :=
     match x, y with
     | [], _ => true
     | p :: x', q :: y' => if is_equal p q then go x' y' else false
     | _ :: _, [] => false
     end) ka kb.

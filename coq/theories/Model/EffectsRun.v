(* Model/EffectsRun.v — glue for comparing observed attribute-access traces of the
   implementation with the effect summaries (C11 correspondence run).  Definitions only. *)
From MP Require Import Common.Base Model.Effects.

Definition find_op (nm : pystr) : option op := find (fun o => pystr_eqb (op_name o) nm) all_ops.

(** what the harness observed during ONE call of an operation *)
Record trace := {
  t_op : pystr;
  t_reads : list field;        (* private fields of Node objects that were read *)
  t_store_read : bool;         (* Node.store was read *)
  t_writes : list field;       (* fields of Node objects that were assigned *)
  t_store_write : bool         (* Node.store was written *)
}.

Definition allows_write (sm : list kind) (f : field) : bool := existsb (kind_eqb (KWrite f)) sm.
Definition allows_store_write (sm : list kind) : bool := existsb (kind_eqb KStoreWrite) sm.

Definition trace_ok (t : trace) : bool :=
  match find_op (t_op t) with
  | None => false
  | Some o =>
      let sm := summary o in
      forallb (reads sm) (t_reads t) &&
      (negb (t_store_read t) || reads_store sm) &&
      forallb (allows_write sm) (t_writes t) &&
      (negb (t_store_write t) || allows_store_write sm)
  end.

Fixpoint bad_from (i : nat) (l : list trace) : list nat :=
  match l with
  | [] => []
  | t :: r => (if trace_ok t then [] else [i]) ++ bad_from (S i) r
  end.
Definition bad_traces (l : list trace) : list nat := bad_from 0 l.

(** the harness exercises exactly the operations of the table *)
Definition same_ops (names : list pystr) : bool := list_eqb pystr_eqb (map op_name all_ops) names.

(** fields a summary allows but no trace ever used (information for the evidence only) *)
Definition all_fields := [FId; FName; FContent; FTail; FPrefix; FAttrs; FExtras; FNsmap; FKids; FParent].
Definition field_code (f : field) : nat :=
  match f with FId => 0 | FName => 1 | FContent => 2 | FTail => 3 | FPrefix => 4 | FAttrs => 5
             | FExtras => 6 | FNsmap => 7 | FKids => 8 | FParent => 9 end.
Definition unused (nm : pystr) (seen : list field) : list nat :=
  match find_op nm with
  | None => []
  | Some o => map field_code (filter (fun f => reads (summary o) f && negb (existsb (field_eqb f) seen)) all_fields)
  end.

(* Model/Rule.v — executable model of src/metapype/eml/rule.py (Rule.validate_rule and
   helpers), src/metapype/eml/validate.py (node, tree).  Definitions only; proofs live
   in Proofs/.  The model follows the Python control flow; see DESIGN.md section 5.

   One model serves both validation modes: it computes the *collecting* error list.
   Fail-fast mode raises at the program point where collecting mode appends, and up
   to that point both runs are in the same state, so the fail-fast outcome is the
   exception class of the first collected entry ([ff_of]).  The correspondence run
   checks that claim against the implementation in both modes. *)
From MP Require Import Common.Base.

(** * Parsed children specs (rule.py:810-859 modality detection) *)
Inductive spec : Type :=
| El (n : pystr) (lo : nat) (hi : option nat)
| Seq (items : list spec)
| Cho (alts : list spec) (lo : nat) (hi : option nat).

Definition rj_nat (v : rj) : option nat :=
  match v with RInt z => if (0 <=? z)%Z then Some (Z.to_nat z) else None | _ => None end.

Definition rj_max (v : rj) : option (option nat) :=
  match v with
  | RNull => Some None
  | RInt z => if (0 <=? z)%Z then Some (Some (Z.to_nat z)) else None
  | _ => None
  end.

(* split a list into (all but the last two, second-to-last, last) *)
Fixpoint split_last2 {A} (l : list A) : option (list A * A * A) :=
  match l with
  | [] | [_] => None
  | [a; b] => Some ([], a, b)
  | x :: r => match split_last2 r with
              | Some (i, a, b) => Some (x :: i, a, b)
              | None => None
              end
  end.

Definition is_rlist (v : rj) : bool := match v with RList _ => true | _ => false end.

Fixpoint all_some {A} (l : list (option A)) : option (list A) :=
  match l with
  | [] => Some []
  | Some x :: r => match all_some r with Some r' => Some (x :: r') | None => None end
  | None :: _ => None
  end.

(** [parse_item v]: v is one JSON list.  Canonical shapes only:
    - ["name", lo, hi]                         -> El
    - [[...], ..., [...]]   (last is a list)   -> Seq
    - [[...], ..., lo, hi]  (first is a list, second-to-last an int) -> Cho
    Anything else is rejected (None); rules.json is checked to contain only
    canonical shapes by the C10 table obligation. *)
Definition build_item (l : list rj) (ps : list (option spec)) : option spec :=
  match l with
  | [RStr n; lo; hi] =>
      match rj_nat lo, rj_max hi with
      | Some lo', Some hi' => Some (El n lo' hi')
      | _, _ => None
      end
  | _ =>
      match split_last2 (combine l ps) with
      | Some (init, (a, _), (b, _)) =>
          if is_rlist b then
            (* sequence: every element is a list *)
            match all_some ps with
            | Some items => Some (Seq items)
            | None => None
            end
          else
            match rj_nat a, rj_max b with
            | Some lo', Some hi' =>
                match init with
                | [] => None
                | _ => match all_some (map snd init) with
                       | Some alts => Some (Cho alts lo' hi')
                       | None => None
                       end
                end
            | _, _ => None
            end
      | None =>
          match l with
          | [x] => if is_rlist x then
                     match all_some ps with Some items => Some (Seq items) | None => None end
                   else None
          | _ => None
          end
      end
  end.

Fixpoint parse_item (v : rj) : option spec :=
  match v with
  | RList l => build_item l (map parse_item l)
  | _ => None
  end.

(** top-level children section: [] = no children constraint beyond "none allowed" *)
Definition parse_children (l : list rj) : option (option spec) :=
  match l with
  | [] => Some None
  | _ => match parse_item (RList l) with
         | Some (El _ _ _) => None        (* top-level bare rule child: not a shape the code handles *)
         | Some sp => Some (Some sp)
         | None => None
         end
  end.

(** no Seq directly inside a Seq (the code would treat it as a rule child) *)
Fixpoint no_seq_in_seq (sp : spec) : bool :=
  match sp with
  | El _ _ _ => true
  | Seq items => forallb (fun i => match i with Seq _ => false | _ => no_seq_in_seq i end) items
  | Cho alts _ _ => forallb no_seq_in_seq alts
  end.

(** _get_rule_children_names *)
Fixpoint names_of (sp : spec) : list pystr :=
  match sp with
  | El n _ _ => [n]
  | Seq items => flat_map names_of items
  | Cho alts _ _ => flat_map names_of alts
  end.

Definition names_of_top (o : option spec) : list pystr :=
  match o with None => [] | Some sp => names_of sp end.

(** * Validation errors *)
Inductive verr : Type :=
| EUnknownNode
| EContentEmpty | EContentEnum | EContentInt | EContentFloat | EContentRange
| EContentNonEmpty | EContentStrUnicode | EContentTime | EContentUri | EContentYear
| EUnknownContentRule
| EAttrRequired (a : pystr) | EAttrUnrecognized (a : pystr) | EAttrEnum (a : pystr)
| EChildNotAllowed (c : pystr)          (* pre-pass: name not in the rule *)
| EChildPosition (c : pystr)            (* trailing cursor check *)
| EMaxChoice | EMinChoice
| EMaxOcc | EMinOcc (c : pystr)
| EMetadataMax.

Definition code_of (e : verr) : pystr :=
  match e with
  | EUnknownNode => s "UNKNOWN_NODE"
  | EContentEmpty => s "CONTENT_EXPECTED_EMPTY"
  | EContentEnum => s "CONTENT_EXPECTED_ENUM"
  | EContentInt => s "CONTENT_EXPECTED_INT"
  | EContentFloat => s "CONTENT_EXPECTED_FLOAT"
  | EContentRange => s "CONTENT_EXPECTED_RANGE"
  | EContentNonEmpty => s "CONTENT_EXPECTED_NONEMPTY"
  | EContentStrUnicode => s "CONTENT_EXPECTED_STRING"
  | EContentTime => s "CONTENT_EXPECTED_TIME_FORMAT"
  | EContentUri => s "CONTENT_EXPECTED_URI"
  | EContentYear => s "CONTENT_EXPECTED_YEAR_FORMAT"
  | EUnknownContentRule => s "UNKNOWN_CONTENT_RULE"
  | EAttrRequired _ => s "ATTRIBUTE_REQUIRED"
  | EAttrUnrecognized _ => s "ATTRIBUTE_UNRECOGNIZED"
  | EAttrEnum _ => s "ATTRIBUTE_EXPECTED_ENUM"
  | EChildNotAllowed _ => s "CHILD_NOT_ALLOWED"
  | EChildPosition _ => s "CHILD_NOT_ALLOWED"
  | EMaxChoice => s "MAX_CHOICE_EXCEEDED"
  | EMinChoice => s "MIN_CHOICE_UNMET"
  | EMaxOcc => s "MAX_OCCURRENCE_EXCEEDED"
  | EMinOcc _ => s "MIN_OCCURRENCE_UNMET"
  | EMetadataMax => s "MAX_OCCURRENCE_EXCEEDED"
  end.

(** exception class raised at the same program point in fail-fast mode *)
Definition class_of (e : verr) : pystr :=
  match e with
  | EUnknownNode => s "UnknownNodeError"
  | EContentStrUnicode => s "StrContentUnicodeError"
  | EContentUri => s "ContentExpectedUriError"
  | EUnknownContentRule => s "UnknownContentRuleError"
  | EChildNotAllowed _ | EChildPosition _ => s "ChildNotAllowedError"
  | EMaxChoice | EMaxOcc | EMetadataMax => s "MaxOccurrenceExceededError"
  | EMinChoice | EMinOcc _ => s "MinOccurrenceUnmetError"
  | _ => s "MetapypeRuleError"
  end.

(** [Crash pre kind]: a non-rule exception [kind] escaped after the entries [pre] had
    been collected (in fail-fast mode the first of [pre], if any, is raised instead). *)
Inductive res : Type :=
| Errs (l : list verr)
| Crash (pre : list verr) (kind : pystr).

Definition res_app (a : res) (b : res) : res :=
  match a with
  | Crash p k => Crash p k
  | Errs l => match b with Crash p k => Crash (l ++ p) k | Errs l' => Errs (l ++ l') end
  end.

(** fail-fast outcome derived from the collecting run *)
Inductive ffout : Type := FOk | FRaise (cls : pystr) | FCrash (kind : pystr).
Definition ff_of (r : res) : ffout :=
  match r with
  | Crash [] k => FCrash k
  | Crash (e :: _) _ => FRaise (class_of e)
  | Errs [] => FOk
  | Errs (e :: _) => FRaise (class_of e)
  end.

(** * Children matcher (rule.py:630-808) *)
Definition mstate := (list pystr * list verr)%type.   (* remaining names (cursor), errors so far *)

Definition hi_reached (hi : option nat) (occ : nat) : bool :=
  match hi with Some h => Nat.eqb occ h | None => false end.
Definition hi_exceeded (hi : option nat) (occ : nat) : bool :=
  match hi with Some h => Nat.ltb h occ | None => false end.

(** _validate_rule_child *)
Fixpoint rule_child (n : pystr) (lo : nat) (hi : option nat) (limit_max : bool)
         (occ : nat) (w : list pystr) (errs : list verr) : mstate :=
  match w with
  | x :: w' =>
      if pystr_eqb n x then
        let occ' := S occ in
        if limit_max && hi_reached hi occ' then (w', errs)
        else rule_child n lo hi limit_max occ' w'
                        (if hi_exceeded hi occ' then errs ++ [EMaxOcc] else errs)
      else (w, if Nat.ltb occ lo then errs ++ [EMinOcc n] else errs)
  | [] => (w, if Nat.ltb occ lo then errs ++ [EMinOcc n] else errs)
  end.

Definition head_in (w : list pystr) (ns : list pystr) : bool :=
  match w with [] => false | x :: _ => smem x ns end.

Definition is_nil {A} (l : list A) : bool := match l with [] => true | _ => false end.

(** result of the while loop of _validate_choice: out of fuel is explicit *)
Inductive wres : Type := WOk (st : mstate) (occ : nat) | WFuel.

Fixpoint m_spec (mixed : bool) (sp : spec) (limit_max : bool) (st : mstate) {struct sp} : option mstate :=
  match sp with
  | El n lo hi => Some (rule_child n lo hi limit_max 0 (fst st) (snd st))
  | Seq items =>
      (fix go (l : list spec) (st : mstate) : option mstate :=
         match l with
         | [] => Some st
         | i :: r =>
             match m_spec mixed i false st with
             | Some st' => go r st'
             | None => None
             end
         end) items st
  | Cho alts lo hi =>
      let ns := flat_map names_of alts in
      let pass :=
        (fix go (l : list spec) (st : mstate) (occ : nat) : option (mstate * nat) :=
           match l with
           | [] => Some (st, occ)
           | a :: r =>
               if is_nil (fst st) then Some (st, occ)       (* break *)
               else
                 if head_in (fst st) (names_of a) then
                   match m_spec mixed a true st with
                   | Some st' => go r st' (S occ)
                   | None => None
                   end
                 else go r st occ
           end) in
      let while :=
        (fix loop (fuel : nat) (st : mstate) (occ : nat) : option (mstate * nat) :=
           match fuel with
           | O => None
           | S f =>
               if head_in (fst st) ns then
                 match pass alts st occ with
                 | Some (st', occ') => loop f st' occ'
                 | None => None
                 end
               else Some (st, occ)
           end) in
      match while (S (length (fst st))) st 0 with
      | None => None
      | Some (st', occ) =>
          let e1 := if hi_exceeded hi occ then [EMaxChoice] else [] in
          let e2 := if Nat.ltb occ lo && negb mixed then [EMinChoice] else [] in
          Some (fst st', snd st' ++ e1 ++ e2)
      end
  end.

Definition METADATA := s "metadata".

(** _validate_children.  [None] = out of fuel (proved impossible). *)
Definition validate_children (top : option spec) (mixed : bool) (pname : pystr)
           (w : list pystr) : option (list verr) :=
  if pystr_eqb pname METADATA then
    Some (if Nat.ltb 1 (length w) then [EMetadataMax] else [])
  else
    let allowed := names_of_top top in
    let pre := flat_map (fun c => if smem c allowed then [] else [EChildNotAllowed c]) w in
    match (match top with
           | None => Some (w, pre)
           | Some sp => m_spec mixed sp false (w, pre)
           end) with
    | None => None
    | Some (rest, errs) =>
        Some (match rest with
              | [] => errs
              | c :: _ => errs ++ [EChildPosition c]
              end)
    end.

(** * Attributes (rule.py:562-628) *)
Definition attr_required (spec : list rj) : option bool :=
  match spec with RBool b :: _ => Some b | _ => None end.

(* the enumerated values: everything after the flag; non-string entries never equal a string value *)
Definition attr_values (spec : list rj) : list rj := tl spec.

Definition rj_mem_str (v : pystr) (l : list rj) : bool :=
  existsb (fun x => match x with RStr y => pystr_eqb v y | _ => false end) l.

Definition validate_attrs (rattrs : list (pystr * list rj)) (nattrs : list (pystr * pystr)) : res :=
  let req :=
    fold_right (fun '(a, sp) acc =>
                  match attr_required sp with
                  | None => Crash [] (s "attr-spec-not-led-by-bool")
                  | Some r =>
                      res_app (Errs (if r && negb (smem a (keys nattrs)) then [EAttrRequired a] else [])) acc
                  end) (Errs []) rattrs in
  let chk :=
    fold_right (fun '(a, v) acc =>
                  match assoc a rattrs with
                  | None => res_app (Errs [EAttrUnrecognized a]) acc
                  | Some sp =>
                      res_app (Errs (if Nat.ltb 1 (length sp) && negb (rj_mem_str v (attr_values sp))
                                     then [EAttrEnum a] else [])) acc
                  end) (Errs []) nattrs in
  res_app req chk.

(** introspection queries: None models `raise Exception("Unknown attribute")` *)
Definition is_required_attribute (rattrs : list (pystr * list rj)) (a : pystr) : option (option bool) :=
  match assoc a rattrs with
  | None => None
  | Some sp => Some (attr_required sp)
  end.
Definition allowed_attribute_values (rattrs : list (pystr * list rj)) (a : pystr) : option (list rj) :=
  match assoc a rattrs with
  | None => None
  | Some sp => Some (if Nat.ltb 1 (length sp) then attr_values sp else [])
  end.

(** * Content (rule.py:291-560) *)
(** value of Python float(s): NaN, infinities, or an exact rational *)
Inductive fval : Type := FNan | FInf (neg : bool) | FFin (num : Z) (den : positive).

(** oracle answers for one content string (computed by the harness from the real
    library functions on that string; universally quantified in the theorems) *)
Record oans := {
  o_int : bool;                 (* int(s) succeeds *)
  o_float : option fval;        (* float(s) *)
  o_time : bool;                (* datetime.time.fromisoformat(s) succeeds *)
  o_yd : bool;                  (* strptime(s, "%Y") or strptime(s, "%Y-%m-%d") succeeds *)
  o_uri : bool                  (* rfc3986 validation (scheme in http/https/ftp, host present, components valid) *)
}.

Definition nonempty (x : pystr) : bool := negb (is_nil x).

Definition is_int (orc : pystr -> oans) (c : pystr) : bool := nonempty c && o_int (orc c).
Definition is_float (orc : pystr -> oans) (c : option pystr) : bool :=
  match c with None => false | Some x => match o_float (orc x) with Some _ => true | None => false end end.
Definition is_time (orc : pystr -> oans) (c : pystr) : bool := nonempty c && o_time (orc c).
Definition is_yeardate (orc : pystr -> oans) (c : pystr) : bool := nonempty c && o_yd (orc c).
Definition is_uri (orc : pystr -> oans) (c : pystr) : bool := o_uri (orc c).

(** lo <= v <= hi with IEEE semantics (every comparison with NaN is false) *)
Definition f_in_range (v : fval) (lo hi : Z) : bool :=
  match v with
  | FNan => false
  | FInf _ => false
  | FFin n d => ((lo * Zpos d <=? n) && (n <=? hi * Zpos d))%Z
  end.
Definition f_nonneg (v : fval) : bool :=
  match v with
  | FNan => false
  | FInf neg => negb neg
  | FFin n _ => (0 <=? n)%Z
  end.

Definition is_surrogate (c : N) : bool := ((55296 <=? c) && (c <=? 57343))%N.

Definition float_check (orc : pystr -> oans) (c : option pystr) : list verr :=
  match c with
  | None => []
  | Some _ => if is_float orc c then [] else [EContentFloat]
  end.

Definition content_rule (orc : pystr -> oans) (ranges : (Z * Z) * (Z * Z)) (mixed : bool)
           (c : option pystr) (nkids : nat) (cr : pystr) : list verr :=
  if pystr_eqb cr (s "emptyContent") then
    match c with None => [] | Some _ => [EContentEmpty] end
  else if pystr_eqb cr (s "floatContent") then float_check orc c
  else if pystr_eqb cr (s "floatRangeContent_EW") then
    float_check orc c ++
    match c with
    | Some x => match o_float (orc x) with
                | Some v => if f_in_range v (fst (fst ranges)) (snd (fst ranges)) then [] else [EContentRange]
                | None => []
                end
    | None => []
    end
  else if pystr_eqb cr (s "floatRangeContent_NS") then
    float_check orc c ++
    match c with
    | Some x => match o_float (orc x) with
                | Some v => if f_in_range v (fst (snd ranges)) (snd (snd ranges)) then [] else [EContentRange]
                | None => []
                end
    | None => []
    end
  else if pystr_eqb cr (s "floatContent_Nonnegative") then
    float_check orc c ++
    match c with
    | Some x => match o_float (orc x) with
                | Some v => if f_nonneg v then [] else [EContentRange]
                | None => []
                end
    | None => []
    end
  else if pystr_eqb cr (s "intContent") then
    match c with Some x => if is_int orc x then [] else [EContentInt] | None => [] end
  else if pystr_eqb cr (s "nonEmptyContent") then
    match c with
    | Some (_ :: _) => []
    | _ => if (mixed && Nat.eqb nkids 0) || negb mixed then [EContentNonEmpty] else []
    end
  else if pystr_eqb cr (s "strContent") then
    match c with Some x => if existsb is_surrogate x then [EContentStrUnicode] else [] | None => [] end
  else if pystr_eqb cr (s "timeContent") then
    match c with Some x => if is_time orc x then [] else [EContentTime] | None => [] end
  else if pystr_eqb cr (s "uriContent") then
    match c with Some x => if is_uri orc x then [] else [EContentUri] | None => [] end
  else if pystr_eqb cr (s "yearDateContent") then
    match c with Some x => if is_yeardate orc x then [] else [EContentYear] | None => [] end
  else if pystr_eqb cr (s "anyContent") then []
  else [EUnknownContentRule].

Definition validate_content (orc : pystr -> oans) (ranges : (Z * Z) * (Z * Z)) (mixed : bool)
           (crs : list pystr) (enum : option (list pystr)) (c : option pystr) (nkids : nat) : list verr :=
  flat_map (content_rule orc ranges mixed c nkids) crs ++
  match enum with
  | None => []
  | Some vals =>
      match c with
      | Some x => if smem x vals then [] else [EContentEnum]
      | None => [EContentEnum]
      end
  end.

(** * validate_rule / validate.node / validate.tree *)
Record tables := {
  tb_rules : list (pystr * rule_raw);
  tb_node_map : list (pystr * pystr);
  tb_mixed : list pystr;
  tb_ranges : (Z * Z) * (Z * Z)
}.

Definition validate_rule (orc : pystr -> oans) (tb : tables) (rname : pystr) (r : rule_raw)
           (name : pystr) (content : option pystr) (attrs : list (pystr * pystr)) (kidnames : list pystr) : res :=
  let mixed := smem rname (tb_mixed tb) in
  match parse_children (rr_children r) with
  | None => Crash [] (s "children-spec-unparsable")
  | Some top =>
      if negb (match top with Some sp => no_seq_in_seq sp | None => true end)
      then Crash [] (s "sequence-directly-inside-sequence")
      else
      let ec := validate_content orc (tb_ranges tb) mixed (rr_content_rules r) (rr_content_enum r)
                                 content (length kidnames) in
      let ea := validate_attrs (rr_attrs r) attrs in
      match validate_children top mixed name kidnames with
      | None => Crash [] (s "out-of-fuel")
      | Some ek => res_app (res_app (Errs ec) ea) (Errs ek)
      end
  end.

Definition validate_node (orc : pystr -> oans) (tb : tables)
           (name : pystr) (content : option pystr) (attrs : list (pystr * pystr)) (kidnames : list pystr) : res :=
  match assoc name (tb_node_map tb) with
  | None => Errs [EUnknownNode]
  | Some rname =>
      match assoc rname (tb_rules tb) with
      | None => Crash [] (s "KeyError-rule-missing")
      | Some r => validate_rule orc tb rname r name content attrs kidnames
      end
  end.

Definition node_of (orc : pystr -> oans) (tb : tables) (t : tree) : res :=
  validate_node orc tb (t_name t) (t_content t) (t_attrs t) (map t_name (t_kids t)).

Fixpoint validate_tree (orc : pystr -> oans) (tb : tables) (t : tree) : res :=
  let 'T name content attrs kids := t in
  let here := validate_node orc tb name content attrs (map t_name kids) in
  if pystr_eqb name METADATA then here
  else fold_left (fun acc k => res_app acc (validate_tree orc tb k)) kids here.

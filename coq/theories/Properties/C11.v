(* Properties/C11.v — read-only operations never modify the tree.
   Only statements closed by [exact]; proofs are in Proofs/C11_Frame.v.

   THESE ARE THEOREMS ABOUT EFFECT SUMMARIES (Model/Effects.v): [summary o] lists the
   kinds of primitives operation [o] performs on nodes, their dicts and child lists and
   the registry; [within (summary o) p] says program [p] performs only such primitives.
   That the Python operations stay within their summaries is established by the
   correspondence run (deep snapshots before/after every call + attribute-access traces),
   not by these proofs. *)
From Coq Require Import Permutation.
From MP Require Import Common.Base Model.Effects Proofs.C11_Frame.

(** Table obligation: no read-only operation's summary contains a write kind
    (complete enumeration over all operations). *)
Theorem C11_summaries_write_free :
  forallb (fun o => write_free (summary o)) all_ops = true /\ (forall o, In o all_ops).
Proof. exact (conj summaries_write_free all_ops_complete). Qed.
Print Assumptions C11_summaries_write_free.

(** Every operation leaves the heap — every field of every node, child lists, the three
    dicts, the registry — exactly as it was; for any heap and any semantics of the primitives. *)
Theorem C11_frame :
  forall (heap : Type) (rd : rprim -> heap -> val) (wr : wprim -> heap -> heap)
         (A : Type) (o : op) (p : prog A),
    within (summary o) p -> forall h, snd (run heap rd wr p h) = h.
Proof. exact frame. Qed.
Print Assumptions C11_frame.

(** In any call sequence each call returns what it returns when run alone on the initial
    heap, so results do not depend on which operations ran before. *)
Theorem C11_order_independent :
  forall (heap : Type) (rd : rprim -> heap -> val) (wr : wprim -> heap -> heap)
         (A : Type) (calls : list (op * prog A)),
    Forall (fun c => within (summary (fst c)) (snd c)) calls ->
    forall h, run_seq heap rd wr (map snd calls) h
              = (map (fun c => fst (run heap rd wr (snd c) h)) calls, h).
Proof. exact order_independent. Qed.
Print Assumptions C11_order_independent.

Theorem C11_permutation_independent :
  forall (heap : Type) (rd : rprim -> heap -> val) (wr : wprim -> heap -> heap)
         (A : Type) (calls calls' : list (op * prog A)),
    Forall (fun c => within (summary (fst c)) (snd c)) calls ->
    Permutation calls calls' ->
    forall h,
      Permutation (combine calls (fst (run_seq heap rd wr (map snd calls) h)))
                  (combine calls' (fst (run_seq heap rd wr (map snd calls') h)))
      /\ snd (run_seq heap rd wr (map snd calls) h) = h
      /\ snd (run_seq heap rd wr (map snd calls') h) = h.
Proof. exact permutation_independent. Qed.
Print Assumptions C11_permutation_independent.

(** Non-vacuity: exemplar programs written after the Python stay within their summaries. *)
Theorem C11_exemplars_within :
  (forall fuel n, within (summary ExportToXml) (export_to_xml fuel n)) /\
  (forall fuel name n acc, within (summary FindAllDescendants) (find_all_descendants fuel name n acc)) /\
  (forall names parent new_child, within (summary ChildInsertIndex) (child_insert_index names parent new_child)).
Proof.
  exact (conj export_within (conj find_all_descendants_within child_insert_index_within)).
Qed.
Print Assumptions C11_exemplars_within.

(** The frame statement has content: the exporter as it was before commit e3be338
    (node.content = escape(node.content)) changes the heap, and a second export sees it. *)
Theorem C11_export_before_fix_refuted :
  snd (run cheap crd cwr (export_to_xml_before_fix 3 0) witness_heap) <> witness_heap
  /\ fst (run_seq cheap crd cwr [export_to_xml_before_fix 3 0; export_to_xml_before_fix 3 0] witness_heap)
     = [[(s "title", Some (s "a&lt;b"))]; [(s "title", Some (s "a&amp;lt;b"))]].
Proof. exact export_before_fix_refuted. Qed.
Print Assumptions C11_export_before_fix_refuted.

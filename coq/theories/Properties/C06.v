(* Properties/C06.v — JSON save/load reproduces the tree exactly.
   Only statements closed by [exact]; proofs are in Proofs/C06_*.v.
   [serialize]/[load] = metapype_io._serialize/_from_dict, [objectify]/[legacy_load] =
   mp_io.objectify/from_json, [upgrade] = utils/convert.py:to_20210209 (Model/Json.v);
   [tree_ok], [ns_closed], [legacy_view] are the property's vocabulary (Spec/JsonSpec.v).
   Equality of [ftree]s is equality of ids, names, child order, content, tail, attributes,
   extras, prefix and namespace maps including key order, at every node. *)
From MP Require Import Common.Base Common.Tree Model.Json Spec.JsonSpec
  Proofs.C06_Roundtrip Proofs.C06_Examples.

(** Saving and loading reproduces the tree exactly, for every tree whose namespace
    prefixes include their parent's. *)
Theorem C06_roundtrip :
  forall t : ftree, tree_ok t -> ns_closed t -> load (serialize t) = Ok t.
Proof. exact roundtrip. Qed.
Print Assumptions C06_roundtrip.

(** ... and re-serialising the loaded tree gives the identical JSON value (ordered keys,
    which json.dumps maps injectively to text). *)
Theorem C06_reserialize :
  forall t : ftree, tree_ok t -> ns_closed t ->
  exists t', load (serialize t) = Ok t' /\ serialize t' = serialize t.
Proof. exact reserialize. Qed.
Print Assumptions C06_reserialize.

(** The legacy codec reproduces the fields it carries. *)
Theorem C06_legacy :
  forall t : ftree, tree_ok t -> legacy_load (objectify t) = Ok (legacy_view t).
Proof. exact legacy_roundtrip. Qed.
Print Assumptions C06_legacy.

(** A legacy document upgraded by the bundled converter loads as the same tree with empty
    namespace data. *)
Theorem C06_upgrade :
  forall t : ftree, tree_ok t ->
  exists j, upgrade (objectify t) = Ok j /\ load j = Ok (legacy_view t).
Proof. exact upgrade_roundtrip. Qed.
Print Assumptions C06_upgrade.

(** Non-vacuity: a three-level tree with namespaces (child lists the root's prefixes in
    another order, grandchild rebinds one) satisfies the hypotheses. *)
Theorem C06_nonvacuous :
  tree_ok ex3 /\ ns_closed ex3 /\ theight ex3 = 3 /\ load (serialize ex3) = Ok ex3.
Proof. exact ex3_nonvacuous. Qed.
Print Assumptions C06_nonvacuous.

(** The precondition is needed: outside it the loader's attach step rewrites bindings. *)
Theorem C06_closed_needed :
  tree_ok bad3 /\ ~ ns_closed bad3 /\ load (serialize bad3) = Ok bad3_loaded /\ bad3_loaded <> bad3.
Proof. exact closed_needed. Qed.
Print Assumptions C06_closed_needed.

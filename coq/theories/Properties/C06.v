(* Properties/C06.v — placeholder while the proofs are being written *)
From MP Require Import Common.Base Common.Tree Model.Json.

(* Properties/C03.v — attribute validation enforces exactly required / allowed / enumerated.
   Only statements closed by [exact]; proofs are in Proofs/. *)
From MP Require Import Common.Base Gen.Tables Model.Rule Spec.Attr.

(** Table obligation: every shipped rule's attribute table is well-formed
    (complete enumeration, re-run against the working tree). *)
Theorem C03_table : forallb (fun r => wf_attrs (rr_attrs (snd r))) rules = true.
Proof. vm_compute. reflexivity. Qed.
Print Assumptions C03_table.

(* Properties/C03.v — attribute validation enforces exactly required / allowed / enumerated.
   Only statements closed by [exact]; proofs are in Proofs/C03_attrs.v.
   [validate_attrs] computes the collecting-mode list; fail-fast mode is [ff_of] of it
   (Model/Rule.v header). *)
From MP Require Import Common.Base Gen.Tables Model.Rule Spec.Attr Proofs.C03_attrs.

(** Table obligation: every shipped rule's attribute table is well-formed
    (complete enumeration, re-run against the working tree). *)
Theorem C03_table : forallb (fun r => wf_attrs (rr_attrs (snd r))) rules = true.
Proof. vm_compute. reflexivity. Qed.
Print Assumptions C03_table.

(** Acceptance, both modes: exactly when every required attribute is present, no
    unlisted attribute is present, and enumerated attributes carry listed values. *)
Theorem C03_accepts_iff : forall r a, wf_attrs r = true ->
  (validate_attrs r a = Errs [] <-> attrs_ok r a) /\
  (ff_of (validate_attrs r a) = FOk <-> attrs_ok r a).
Proof. exact C03_accepts_iff_l. Qed.
Print Assumptions C03_accepts_iff.

(** Collecting mode: one error per violated constraint (never a crash), in the order
    required-missing (table order) then per node attribute; fail-fast raises the first. *)
Theorem C03_collect : forall r a, wf_attrs r = true ->
  validate_attrs r a = Errs (map verr_of_aviol (attr_violations r a)) /\
  ff_of (validate_attrs r a) = match attr_violations r a with
                               | [] => FOk
                               | v :: _ => FRaise (class_of (verr_of_aviol v))
                               end.
Proof. exact C03_collect_l. Qed.
Print Assumptions C03_collect.

(** ... where the reported list is exactly the set of violated constraints, each once. *)
Theorem C03_one_per_violation : forall r a, wf_attrs r = true -> NoDup (keys a) ->
  (forall v, In v (attr_violations r a) <-> violated r a v) /\ NoDup (attr_violations r a).
Proof. exact C03_one_per_violation_l. Qed.
Print Assumptions C03_one_per_violation.

(** Introspection reports the table ... *)
Theorem C03_introspection_table : forall r k sp, wf_attrs r = true -> In (k, sp) r ->
  is_required_attribute r k = Some (Some (spec_required sp)) /\
  allowed_attribute_values r k = Some (map RStr (spec_values sp)).
Proof. exact C03_introspection_table_l. Qed.
Print Assumptions C03_introspection_table.

(** ... and the same facts that validation enforces. *)
Theorem C03_introspection_required : forall r a k, wf_attrs r = true -> In k (keys r) -> attrs_ok r a ->
  (is_required_attribute r k = Some (Some true) <-> ~ attrs_ok r (omit k a)).
Proof. exact is_required_semantic. Qed.
Print Assumptions C03_introspection_required.

Theorem C03_introspection_values : forall r a k vals v, wf_attrs r = true ->
  allowed_attribute_values r k = Some vals -> attrs_ok r a ->
  ((vals = [] \/ In (RStr v) vals) <-> attrs_ok r (assign k v a)).
Proof. exact allowed_values_semantic. Qed.
Print Assumptions C03_introspection_values.

(** For every shipped rule (generic theorem + table obligation). *)
Theorem C03 : forall rn r a, In (rn, r) rules ->
  (validate_attrs (rr_attrs r) a = Errs [] <-> attrs_ok (rr_attrs r) a) /\
  validate_attrs (rr_attrs r) a = Errs (map verr_of_aviol (attr_violations (rr_attrs r) a)).
Proof. exact (C03_from_table rules C03_table). Qed.
Print Assumptions C03.

(* Properties/C17.v — the suggested insertion index is schema-legal and restores validity
   when possible.  Statements only; proofs are in Proofs/C17_*.v.  "Valid child sequence"
   is membership in the language L of the rule's children spec (Spec/Lang.v, the strict
   reading; the matcher of Model/Rule.v is not involved — C01 relates the two). *)
From MP Require Import Common.Base.
From MP Require Import Gen.Tables.
From MP Require Import Model.Rule.
From MP Require Import Model.Insert.
From MP Require Import Spec.Lang.
From MP Require Import Spec.InsertSpec.
From MP Require Import Proofs.C17_Index.
From MP Require Import Proofs.C17_Lang.
From MP Require Import Proofs.C17_Restore.
From MP Require Import Proofs.C17_Table.

(** The index lies within bounds. *)
Theorem C17_bounds : forall names w x k,
  child_insert_index names w x = Idx k -> 0 <= k <= length w.
Proof. exact cii_bounds. Qed.
Print Assumptions C17_bounds.

(** It is the first position whose child is declared later than the new child, else the
    length: every child before it is declared no later, the child at it strictly later. *)
Theorem C17_order : forall names w x k,
  child_insert_index names w x = Idx k -> In x names /\ first_larger names x w k.
Proof. exact cii_first_larger. Qed.
Print Assumptions C17_order.

(** Children that are in the rule's declared order stay so after the insertion. *)
Theorem C17_keeps_order : forall names w x k,
  in_declared_order names w ->
  child_insert_index names w x = Idx k ->
  in_declared_order names (insert_at k x w).
Proof. exact cii_keeps_order. Qed.
Print Assumptions C17_keeps_order.

(** A name the rule does not allow is refused (ChildNotAllowedError), and only such a name. *)
Theorem C17_refuse : forall names w x,
  child_insert_index names w x = Refused <-> ~ In x names.
Proof. exact cii_refuse_iff. Qed.
Print Assumptions C17_refuse.

(** The only other non-index outcome (ValueError) needs an EXISTING child the rule does
    not name — outside the property's quantifier, modelled for faithfulness. *)
Theorem C17_foreign_child_only : forall names w x,
  child_insert_index names w x = CrashValueError -> exists c, In c w /\ ~ In c names.
Proof. exact cii_crash. Qed.
Print Assumptions C17_foreign_child_only.

(** Totality inside the property's quantifier: when the new child and all existing
    children are names of the rule, an index is always returned. *)
Theorem C17_total : forall names w x,
  In x names -> (forall c, In c w -> In c names) -> exists k, child_insert_index names w x = Idx k.
Proof. exact cii_total. Qed.
Print Assumptions C17_total.

(** Whenever some insertion position makes the child sequence valid, the suggested one does. *)
Theorem C17_restores : forall mixed top x w i,
  insert_ok_top top = true ->
  Ltop mixed top (insert_at i x w) ->
  exists k, child_insert_index (names_of_top top) w x = Idx k /\
            Ltop mixed top (insert_at k x w).
Proof. exact restores. Qed.
Print Assumptions C17_restores.

(** The allowed-child query is true exactly for names occurring in some valid sequence. *)
Theorem C17_allowed : forall mixed top x,
  occurs_ok_top top = true ->
  (is_allowed_child (names_of_top top) x = true <-> exists w, In x w /\ Ltop mixed top w).
Proof. exact allowed_iff. Qed.
Print Assumptions C17_allowed.

(** Table obligations: every rule of rules.json satisfies both side conditions
    (complete enumeration, re-run against the working tree). *)
Theorem C17_table : forallb (fun p => rule_insert_ok (snd p)) rules = true.
Proof. exact insert_ok_shipped. Qed.
Print Assumptions C17_table.

Theorem C17_table_occurs : forallb (fun p => rule_occurs_ok (snd p)) rules = true.
Proof. exact occurs_ok_shipped. Qed.
Print Assumptions C17_table_occurs.

(** Hence the whole statement for every shipped rule. *)
Theorem C17 : forall rn r, In (rn, r) rules -> C17_for_rule rn r.
Proof. exact C17_shipped. Qed.
Print Assumptions C17.

(** non-vacuity and necessity of the side conditions *)
Example C17_restores_nonvacuous :
  let sp := Seq [El (s "a") 1 (Some 1); Cho [El (s "b") 1 (Some 1); El (s "c") 1 (Some 1)] 1 None; El (s "d") 0 (Some 1)] in
  insert_ok sp = true /\
  child_insert_index (names_of sp) [s "a"; s "d"] (s "c") = Idx 1 /\
  L false sp (insert_at 1 (s "c") [s "a"; s "d"]).
Proof. exact restores_nonvacuous. Qed.

Example C17_insert_ok_needed :
  let sp := Cho [El (s "a") 1 None; El (s "b") 1 (Some 1)] 1 (Some 2) in
  let w := [s "b"; s "a"] in
  child_insert_index (names_of sp) w (s "a") = Idx 0 /\
  L false sp (insert_at 2 (s "a") w) /\
  insert_ok sp = false.
Proof. exact insert_ok_needed. Qed.

Example C17_occurs_ok_needed :
  let sp := Seq [El (s "a") 0 (Some 0)] in
  is_allowed_child (names_of sp) (s "a") = true /\
  ~ exists w, In (s "a") w /\ L false sp w.
Proof. exact occurs_ok_needed. Qed.

(* Properties/C12.v — copy is deep, equal and independent.
   Only statements closed by [exact]; proofs are in Proofs/C12_*.v.

   Model: Model/Copy.v ([copy_op], Node.copy() on the aliasing heap), Model/HeapEdits.v (the edits).
   [uuid] is the uuid1 oracle: the id string handed to the k-th node object; the only
   assumption is that it never repeats ([uuid_inj]); "never equals an id already in use" is a
   hypothesis of C12_ids_unused alone.
   [reify g h n] is the subtree of n as a value (Common/Tree.v: ftree; every field, ordered
   children); [equal_up_to_ids] blanks the ids (Spec/CopySpec.v).
   Hypotheses: the heap is a forest ([Forest]), well formed ([HeapWf]: objects below the
   allocation pointers, dicts with unique keys), and n is a node. *)
From MP Require Import Common.Base Common.Tree Model.Heap Model.Namespace Model.Registry
     Model.HeapEdits Model.Copy Spec.CopySpec
     Proofs.HeapInv Proofs.DictFacts Proofs.C13_Refine
     Proofs.C12_Base Proofs.C12_Copy Proofs.C12_Main Proofs.C12_Frame Proofs.C12_FrameCopy Proofs.C12_Examples.

Section C12.
  Variable uuid : nat -> pystr.
  Hypothesis uuid_inj : forall a b, uuid a = uuid b -> a = b.

  (** copy() returns normally on every node of a forest (never OutOfFuel, never Crash) *)
  Theorem C12_total : forall h n,
    Forest h -> HeapWf h -> alive h n -> exists h' n', copy_op uuid h n = Ok (h', n').
  Proof.
    exact (fun h n Fo W Al => let '(ex_intro _ h' (ex_intro _ n' (conj R _))) := copy_op_ok uuid uuid_inj h n Fo W Al in
                              ex_intro _ h' (ex_intro _ n' R)).
  Qed.

  Section Call.
    Variables (h : heap) (n : nat) (h' : heap) (n' : nat).
    Hypothesis Fo : Forest h.
    Hypothesis W : HeapWf h.
    Hypothesis Al : alive h n.
    Hypothesis Call : copy_op uuid h n = Ok (h', n').

    Let P := copy_op_post uuid uuid_inj h n h' n' Fo W Al Call.

    (** the copy equals the original subtree in every field and in child order, ids excepted *)
    Theorem C12_equal : forall g t, reify g h n = Some t ->
      exists t', reify g h' n' = Some t' /\ equal_up_to_ids t' t.
    Proof. exact (copy_equal uuid h n h' n' P). Qed.

    (** (the original reifies, so C12_equal is not vacuous, and it is left as it was) *)
    Theorem C12_original_kept : (exists t, reify (fuel_of h) h n = Some t) /\ forall g, reify g h' n = reify g h n.
    Proof.
      exact (conj (reify_total h (fuel_of h) n (fuel_ok h n Fo Al))
                  (copy_keeps_original uuid h n h' n' W P (orig_alive h n Fo Al))).
    Qed.

    (** every node of the copy carries the id issued for its new object and is registered under it *)
    Theorem C12_fresh : forall m, desc h' n' m ->
      exists r, nget h' m = Some r /\ idstr r = uuid m /\ next_id h <= m /\
                get_node_instance h' (idstr r) = Some m.
    Proof. exact (copy_fresh uuid h n h' n' P). Qed.

    (** … these ids are pairwise distinct … *)
    Theorem C12_ids_distinct : forall m1 m2 r1 r2,
      desc h' n' m1 -> desc h' n' m2 -> nget h' m1 = Some r1 -> nget h' m2 = Some r2 ->
      m1 <> m2 -> idstr r1 <> idstr r2.
    Proof. exact (copy_ids_distinct uuid uuid_inj h n h' n' P). Qed.

    (** … and, when uuid1 never returns an id that is already in use, unused before *)
    Theorem C12_ids_unused : forall m r m0 r0,
      (forall k, next_id h <= k -> forall x rx, nget h x = Some rx -> idstr rx <> uuid k) ->
      desc h' n' m -> nget h' m = Some r -> nget h m0 = Some r0 -> idstr r <> idstr r0.
    Proof. exact (copy_ids_unused uuid h n h' n' P). Qed.

    (** all parent links below the copy's root point inside the copy (at the holder of the child) *)
    Theorem C12_parents : forall m, desc h' n' m -> m <> n' ->
      exists r p, nget h' m = Some r /\ parent r = Some p /\ desc h' n' p /\ In m (kids_of h' p).
    Proof. exact (copy_parents uuid h n h' n' P). Qed.

    (** … and the copy is a detached tree: its root has no parent (so ALL parent links of the
        copy point inside the copy) *)
    Theorem C12_root_detached : exists r', nget h' n' = Some r' /\ parent r' = None.
    Proof. exact (copy_root_parent uuid h n h' n' P). Qed.

    (** copy and original share no node object and no attributes / extras / nsmap dict object
        (a node record owns its child list in this model, so child lists are covered by the
        node clause) *)
    Theorem C12_disjoint : forall m m' r r',
      desc h' n' m -> desc h' n m' -> nget h' m = Some r -> nget h' m' = Some r' ->
      m <> m' /\ (forall l l', In l (locs3 r) -> In l' (locs3 r') -> l <> l').
    Proof. exact (fun m m' r r' => copy_disjoint uuid h n h' n' W P m m' r r' (orig_alive h n Fo Al)). Qed.

    (** frame: ANY single edit of [edit] (content/tail/prefix setters, add/remove attribute,
        add extras, add/remove namespace, add/remove/replace child ± registry deletion) that
        returns normally and names only nodes of the copy leaves the original's value unchanged… *)
    Theorem C12_frame_edit_in_copy : forall e h2,
      exec_edit h' e = Ok h2 -> edit_ready h' e ->
      (forall t, In t (edit_nodes e) -> desc h' n' t) ->
      forall g, reify g h2 n = reify g h' n.
    Proof. exact (edit_in_copy_frame uuid h n h' n' Fo W Al P). Qed.

    (** … and vice versa *)
    Theorem C12_frame_edit_in_original : forall e h2,
      exec_edit h' e = Ok h2 -> edit_ready h' e ->
      (forall t, In t (edit_nodes e) -> desc h' n t) ->
      forall g, reify g h2 n' = reify g h' n'.
    Proof. exact (edit_in_orig_frame uuid h n h' n' Fo W Al P). Qed.

    (** [edit_ready] only concerns the namespace operations (enough fuel for the walk; for
        add_child additionally that the child is not above the parent); inside either tree
        the fuel part always holds *)
    Theorem C12_ready : forall t, desc h' n' t \/ desc h' n t -> NsInv h' /\ tree_at h' (fuel_of h') t.
    Proof. exact (ready_in_trees uuid h n h' n' Fo W Al P). Qed.
  End Call.
End C12.

Print Assumptions C12_total.
Print Assumptions C12_equal.
Print Assumptions C12_original_kept.
Print Assumptions C12_fresh.
Print Assumptions C12_ids_distinct.
Print Assumptions C12_ids_unused.
Print Assumptions C12_parents.
Print Assumptions C12_root_detached.
Print Assumptions C12_disjoint.
Print Assumptions C12_frame_edit_in_copy.
Print Assumptions C12_frame_edit_in_original.
Print Assumptions C12_ready.

(** The general frame theorem behind the two corollaries: a tree separated from an edit (no
    node of it below a node the edit names, no dict of it written in place) keeps its value.
    It also covers edits that attach or substitute nodes from a third tree. *)
Theorem C12_frame_general : forall h e h2 x,
  exec_edit h e = Ok h2 -> edit_ready h e ->
  (forall t m, In t (edit_nodes e) -> desc h t m -> ~ desc h x m) ->
  (forall m rm l, desc h x m -> nget h m = Some rm -> In l (locs3 rm) -> ~ In l (edit_inplace h e)) ->
  (forall m, desc h x m -> exists rm, nget h m = Some rm /\ forall l, In l (locs3 rm) -> l < next_loc h) ->
  forall g, reify g h2 x = reify g h x.
Proof. exact edit_frame. Qed.
Print Assumptions C12_frame_general.

(** Non-vacuity: a concrete forest satisfying every hypothesis, on which copy() runs. *)
Example C12_nonvacuous :
  Forest h1_example /\ HeapWf h1_example /\ alive h1_example 0 /\
  exists h' n', copy_op uuid_example h1_example 0 = Ok (h', n') /\ n' = 1.
Proof. exact C12_nonvacuous_proof. Qed.
Print Assumptions C12_nonvacuous.

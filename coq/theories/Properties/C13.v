(* placeholder, replaced below *)
From MP Require Import Common.Base Model.Heap Model.Namespace.

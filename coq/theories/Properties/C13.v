(* Properties/C13.v — namespace operations stay inside the subtree they are applied to.
   Only statements closed by [exact]; proofs are in Proofs/C13_*.v.

   Model:  Model/Namespace.v (add_namespace, remove_namespace, add_child on the aliasing heap)
   Spec:   Spec/NsSpec.v     (declare / undeclare / attach on per-node prefix->URI maps)
   [abs h] reads a heap as a spec state: the forest shape and, per node, the contents of the
   dict its nsmap field points to.  [Inv h] = forest invariant + NsInv (dicts allocated below
   the allocation pointer, unique keys).  fix_nsmap / set_nsmap are outside the alphabet. *)
From MP Require Import Common.Base Common.Tree Model.Heap Model.Namespace Spec.NsSpec
     Proofs.HeapInv Proofs.DictFacts Proofs.C13_Walk Proofs.C13_Refine Proofs.C13_Attach Proofs.C13_Main.

(** Each concrete operation, run with the standard fuel, terminates normally (never
    [OutOfFuel], never [Crash]), yields for EVERY node exactly the bindings the specification
    prescribes, and re-establishes the invariants. *)
Theorem C13_refines : forall h o,
  Inv h -> apre (abs_op o) (abs h) ->
  exists h', exec_nsop h o = Ok h' /\ Inv h' /\ step_spec (abs_op o) (abs h) (abs h').
Proof. exact step_refines. Qed.
Print Assumptions C13_refines.

(** … lifted over any history (induction over the operation list) *)
Theorem C13_refines_history : forall ops h,
  Inv h -> history_ok h ops -> steps_refine h ops.
Proof. exact history_refines. Qed.
Print Assumptions C13_refines_history.

(** No operation changes the bindings seen on a node outside the subtree it is applied to
    (ancestors, siblings, unrelated trees). *)
Theorem C13_local : forall h o h' m q,
  Inv h -> apre (abs_op o) (abs h) -> exec_nsop h o = Ok h' ->
  ~ desc h (target (abs_op o)) m -> vis_of h' m q = vis_of h m q.
Proof. exact step_local. Qed.
Print Assumptions C13_local.

(** The recursion over children never exhausts the standard fuel on a forest. *)
Theorem C13_fuel : forall h n, Forest h -> alive h n -> tree_at h (fuel_of h) n.
Proof. exact fuel_ok. Qed.
Print Assumptions C13_fuel.

(** The invariants hold on every forest of freshly created nodes (the initial states of the
    harness histories), so the theorems above are not vacuous. *)
Theorem C13_fresh_forest : forall names, Inv (create_many names empty_heap).
Proof. exact (fun names => proj1 (create_many_Inv names empty_heap (proj1 Inv_empty) (proj2 Inv_empty))). Qed.
Print Assumptions C13_fresh_forest.

(** Non-vacuity: the history that broke the pre-fix code (DESIGN 5.C13) satisfies the
    preconditions step by step, and the model computes the bindings the property demands:
    r keeps p |-> u1, k1 sees p |-> u2, k2 keeps p |-> u1. *)
Example C13_witness :
  let h0 := create_many [(s "r", s "0"); (s "k", s "1"); (s "k", s "2")] empty_heap in
  match run_nsops h0 [Attach 0 1 None; Attach 0 2 None; Declare 0 (s "p") (s "u1"); Declare 1 (s "p") (s "u2")] with
  | Ok h => (vis_of h 0 (s "p"), vis_of h 1 (s "p"), vis_of h 2 (s "p")) = (Some (s "u1"), Some (s "u2"), Some (s "u1"))
  | _ => False
  end.
Proof. exact C13_witness_proof. Qed.
Print Assumptions C13_witness.

(** … and a concrete state + history that satisfy the hypotheses of C13_refines_history *)
Example C13_nonvacuous :
  Inv h0_example /\ history_ok h0_example [Attach 0 1 None; Declare 1 (s "p") (s "u")].
Proof. exact C13_nonvacuous_proof. Qed.
Print Assumptions C13_nonvacuous.

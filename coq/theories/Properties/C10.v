(* Properties/C10.v — the rule table is closed and consistent with the known element names.
   Statements only; every proof is [exact] of a lemma from Proofs/ (generic reading lemma
   applied to a table obligation closed by vm_compute over Gen/Tables.v). *)
From MP Require Import Common.Base.
From MP Require Import Gen.Tables.
From MP Require Import Model.Rule.
From MP Require Import Model.RuleRun.
From MP Require Import Spec.Attr.
From MP Require Import Spec.TableWf.
From MP Require Import Model.Witness.
From MP Require Import Proofs.SpecInd.
From MP Require Import Proofs.C10_Sound.
From MP Require Import Proofs.C10_Table.

(** Every element name resolves to a rule that exists. *)
Theorem C10_rules_exist :
  forall n rn, In (n, rn) node_map -> exists r, assoc rn rules = Some r.
Proof. exact (rules_exist_reading shipped rules_exist_shipped). Qed.
Print Assumptions C10_rules_exist.

(** Every rule of rules.json (reachable or not) is structurally well-formed. *)
Theorem C10_wf :
  forall rn r, In (rn, r) rules ->
    wf_attrs (rr_attrs r) = true /\
    (exists top, parse_children (rr_children r) = Some top /\
       match top with
       | None => True
       | Some sp => no_seq_in_seq sp = true /\
                    forall t, sub t sp -> match t with
                                          | El _ lo hi | Cho _ lo hi => Lang.le_hi lo hi
                                          | Seq _ => True
                                          end
       end) /\
    (forall c, In c (rr_content_rules r) -> In c implemented).
Proof.
  exact (fun rn r H => wf_rule_reading implemented r (all_rules_wf_reading implemented shipped all_rules_wf_shipped rn r H)).
Qed.
Print Assumptions C10_wf.

(** The child names permitted by reachable rules that are not element names are EXACTLY
    the committed known gaps: a new gap and a closed gap both break this. *)
Theorem C10_children_known : gaps shipped = known_gaps.
Proof. exact gaps_shipped. Qed.
Print Assumptions C10_children_known.

(** ... hence every other child name a reachable rule permits is a known element. *)
Theorem C10_children_closed :
  forall c, permits shipped c -> ~ In c known_gaps -> In c (keys node_map).
Proof. exact (gaps_closed shipped known_gaps gaps_shipped). Qed.
Print Assumptions C10_children_closed.

(** For every known element some tree rooted at it passes whole-tree validation
    (model of validate.tree; oracle answers of the canonical literals are checked
    against the interpreter by the harness, which also validates the same trees on
    the implementation). *)
Theorem C10_witness :
  forall n, In n (keys node_map) ->
    exists t, t_name t = n /\ validate_tree orc_canon shipped t = Errs [].
Proof. exact (witness_reading orc_canon shipped (witness_fuel shipped) witness_shipped). Qed.
Print Assumptions C10_witness.

Example C10_witness_nonvacuous :
  exists t, min_tree shipped (witness_fuel shipped) (s "eml") = Some t /\ t_kids t <> [].
Proof. vm_compute. eexists. split; [reflexivity | discriminate]. Qed.

(* Properties/Valid.v — the link between whole-tree validation (Model/Rule.v: validate_tree)
   and the per-node DECLARATIVE specs, proved once and used by C05 / C16 / C19.
   Only statements closed by [exact]; proofs are in Proofs/Valid_Char.v, Proofs/C19_Full.v.

   [node_valid orc n] (Proofs/Valid_Char.v) is the declarative conjunction, over the generated
   tables: the name of [n] is a key of node_map, its rule [rn] exists and its children section
   parses to [top]; [content_ok] (Spec/Content.v) of the content; [attrs_ok] (Spec/Attr.v) of
   the attributes; and the child names are all declared and form a word of [Ltop (is_mixed rn) top]
   (Spec/Lang.v) — except for an element named "metadata", which must have at most one child.
   [visible_preorder] (Spec/TreeVal.v): document order without anything below a metadata element. *)
From MP Require Import Common.Base Common.Tree Gen.Tables Model.Rule
  Spec.TreeVal Spec.Content Spec.Attr Spec.Lang Model.PyString Model.Evaluate Spec.Recommend
  Model.Expand Spec.ExpandSpec
  Proofs.C01_Main Proofs.C01_Table Proofs.Valid_Char Proofs.C19_Full Proofs.C16_Full.

(** Table obligation: every shipped rule has the greedy_ok children shape (C01) and a
    well-formed attribute table (C03) — complete enumeration, re-run on every check. *)
Theorem valid_table : rules_ok shipped = true.
Proof. exact rules_ok_shipped. Qed.
Print Assumptions valid_table.

(** what [node_valid] says, spelled out *)
Theorem node_valid_def : forall orc n,
  node_valid orc n <->
  exists rn r top,
    assoc (t_name n) node_map = Some rn /\ assoc rn rules = Some r /\
    parse_children (rr_children r) = Some top /\
    content_ok orc (range_ew, range_ns) (is_mixed rn) (rr_content_rules r) (rr_content_enum r)
               (t_content n) (length (t_kids n)) /\
    attrs_ok (rr_attrs r) (t_attrs n) /\
    (if is_metadata (t_name n) then length (t_kids n) <= 1
     else allowed_names top (map t_name (t_kids n)) /\ Ltop (is_mixed rn) top (map t_name (t_kids n))).
Proof. exact node_valid_unfold. Qed.
Print Assumptions node_valid_def.

(** validate.node accepts exactly the declaratively valid nodes ... *)
Theorem valid_node_char : forall orc n, node_of orc shipped n = Errs [] <-> node_valid orc n.
Proof. exact valid_node_char_proof. Qed.
Print Assumptions valid_node_char.

(** ... and validate.tree exactly the trees all of whose visible nodes are valid, in collecting
    mode and in fail-fast mode. *)
Theorem valid_tree_char : forall orc t,
  validate_tree orc shipped t = Errs [] <-> Forall (node_valid orc) (visible_preorder t).
Proof. exact valid_tree_char_proof. Qed.
Print Assumptions valid_tree_char.

Theorem valid_tree_char_failfast : forall orc t,
  ff_of (validate_tree orc shipped t) = FOk <-> Forall (node_valid orc) (visible_preorder t).
Proof. exact valid_tree_char_failfast_proof. Qed.
Print Assumptions valid_tree_char_failfast.

(** generic in the tables, under the table obligation *)
Theorem valid_tree_char_generic : forall orc tb, rules_ok tb = true -> forall t,
  validate_tree orc tb t = Errs [] <-> Forall (node_valid_tb orc tb) (visible_preorder t).
Proof. exact tree_char. Qed.
Print Assumptions valid_tree_char_generic.

(** * C19: on a tree that passes validation the warnings are exactly the recommended ones.
    evaluate.tree walks below metadata elements, validate.tree does not; "passes validation" is
    [valid_tree orc t]: validate.tree accepts [view t] and no metadata element has children ... *)
Theorem C19_exact_of_validation : forall orc t ws,
  validate_tree orc shipped (view t) = Errs [] -> metadata_childless t ->
  eval_tree eval_dispatch warn_codes None t ws = Evaluate.EOk (ws ++ expected t).
Proof. exact (fun orc t ws V MC => full_validation orc t ws (conj V MC)). Qed.
Print Assumptions C19_exact_of_validation.

(** ... or, more generally, [deep_valid]: every node, also below metadata, validates on its own. *)
Theorem C19_exact_of_deep_validity : forall orc t ws,
  (forall d, In d (preorder t) -> node_of orc shipped (view d) = Errs []) ->
  eval_tree eval_dispatch warn_codes None t ws = Evaluate.EOk (ws ++ expected t).
Proof.
  exact (fun orc t ws H => full_deep orc t ws (fun d Hd => proj1 (valid_node_char_proof orc (view d)) (H d Hd))).
Qed.
Print Assumptions C19_exact_of_deep_validity.

(** validation alone establishes the hypothesis of C19_exact *)
Theorem C19_shape_of_validation : forall orc t,
  validate_tree orc shipped (view t) = Errs [] -> metadata_childless t -> Spec.Recommend.shape_ok t = true.
Proof. exact (fun orc t V MC => deep_valid_shape orc t (valid_tree_deep orc t (conj V MC))). Qed.
Print Assumptions C19_shape_of_validation.

(** The side condition is needed: a dataset with two abstracts below a metadata element passes
    validate.tree, and evaluate.tree reports on the LAST abstract where the table reads the first. *)
Theorem C19_metadata_condition_needed :
  validate_tree orc_none shipped (view hidden_dataset) = Errs [] /\
  eval_tree eval_dispatch warn_codes None hidden_dataset [] <> Evaluate.EOk ([] ++ expected hidden_dataset).
Proof. exact full_needs_hypothesis. Qed.
Print Assumptions C19_metadata_condition_needed.

(** * C16: a tree that validated before expansion still validates after.
    This is [C16_valid_full_statement] of Properties/C16.v with its hypotheses adjusted:
    - the shipped tables instead of arbitrary ones (the statement needs the references shapes
      C16_table, greedy_ok C01_table, wf attributes C03_table, and that rules allowing a
      references child are not mixed-content rules — all re-proved by enumeration);
    - the preconditions of C16_eq ([attrs_wf], [spec_ok], [refs_flat], [ns_agree]);
    - "governed by the same rule" for EVERY parent holding the references node (ftree values carry
      no identity, the same value may occur under several parents);
    - [metadata_childless]: validate.tree does not look below metadata, expansion moves subtrees. *)
Theorem C16_valid_full : forall orc t t' rem n,
  attrs_wf t -> spec_ok t = true -> refs_flat t = true -> ns_agree t = true ->
  metadata_childless t ->
  (forall p r x, In p (preorder t) -> In r (ft_kids p) -> is_ref r = true -> target t r = Some x ->
     assoc (ft_name p) node_map = assoc (ft_name x) node_map) ->
  validate_tree orc shipped (view t) = Errs [] ->
  expand t = Expand.EOk t' rem n ->
  validate_tree orc shipped (view t') = Errs [].
Proof. exact expand_preserves_validation. Qed.
Print Assumptions C16_valid_full.

(** without the restriction on metadata, for deep validity (every node, also below metadata,
    validates on its own; no references node directly below a metadata element) *)
Theorem C16_valid_deep : forall orc t t' rem n,
  attrs_wf t -> spec_ok t = true -> refs_flat t = true -> ns_agree t = true ->
  (forall p, In p (preorder t) -> is_metadata (ft_name p) = true -> existsb is_ref (ft_kids p) = false) ->
  (forall p r x, In p (preorder t) -> In r (ft_kids p) -> is_ref r = true -> target t r = Some x ->
     assoc (ft_name p) node_map = assoc (ft_name x) node_map) ->
  (forall d, In d (preorder t) -> node_of orc shipped (view d) = Errs []) ->
  expand t = Expand.EOk t' rem n ->
  forall d', In d' (preorder t') -> node_of orc shipped (view d') = Errs [].
Proof. exact expand_preserves_deep_validity. Qed.
Print Assumptions C16_valid_deep.

(** the hypotheses are jointly satisfiable: a project whose second personnel refers to the first *)
Theorem C16_valid_full_nonvacuous :
  attrs_wf exv /\ spec_ok exv = true /\ refs_flat exv = true /\ ns_agree exv = true /\
  metadata_childless exv /\
  (forall p r x, In p (preorder exv) -> In r (ft_kids p) -> is_ref r = true -> target exv r = Some x ->
     assoc (ft_name p) node_map = assoc (ft_name x) node_map) /\
  validate_tree orc_none shipped (view exv) = Errs [] /\
  exists t' rem n, expand exv = Expand.EOk t' rem n /\
                   map ft_name (ft_kids (nth 2 (ft_kids t') exv)) = [s "organizationName"; s "role"; s "role"].
Proof. exact exv_hypotheses. Qed.
Print Assumptions C16_valid_full_nonvacuous.

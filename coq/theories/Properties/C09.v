(* placeholder until the proofs land *)
From MP Require Import Common.Base.
From MP Require Import Model.Edits.

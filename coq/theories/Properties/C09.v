(* Properties/C09.v — edit histories keep an ordered tree; queries observe exactly that tree.
   Model: Model/Edits.v ([exec] on a pure forest state over object identities; queries on the
   state and on the rose tree [reify] unfolds).  Spec: Spec/ListModel.v (ordered-list model
   [step] with firstn/skipn/nth only; invariant [Inv]; proviso [pre]; query specifications).
   Only statements closed by [exact]; proofs are in Proofs/C09_*.v. *)
From MP Require Import Common.Base.
From MP Require Import Model.Edits.
From MP Require Import Spec.ListModel.
From MP Require Import Proofs.C09_Refine.
From MP Require Import Proofs.C09_Inv.
From MP Require Import Proofs.C09_Main.
From MP Require Import Proofs.C09_Total.

(** Every edit keeps the forest invariant (listed child <-> parent link, no node listed
    twice, no cycle) under the proviso: the node being attached by add_child / replace_child
    is a detached root, distinct from and not an ancestor of the target.  Edits that refuse
    (ValueError) need no proviso. *)
Theorem C09_inv : forall fuel o s, Inv s -> pre s o -> Inv (fst (exec fuel o s)).
Proof. exact c09_inv. Qed.
Print Assumptions C09_inv.

(** ... hence along every history, in particular from the all-detached forest. *)
Theorem C09_inv_history : forall fuel h s, Inv s -> hist_ok fuel s h -> Inv (run fuel h s).
Proof. exact c09_inv_history. Qed.
Print Assumptions C09_inv_history.

Theorem C09_inv_from_detached : forall fuel h nm rg,
  let s0 := mkst (fun _ => []) (fun _ => None) nm rg in
  hist_ok fuel s0 h -> Inv (run fuel h s0).
Proof. exact c09_inv_from_detached. Qed.
Print Assumptions C09_inv_from_detached.

(** After each edit the child lists are what the ordered-list model predicts; where the list
    model refuses, the edit raises ValueError and returns the state it was given.  The only
    other exceptions come from the registry walk of replace_child(delete_old=True). *)
Theorem C09_refines : forall fuel o s,
  match step (name s) o (kids s) with
  | None => exec fuel o s = (s, Raise ValueError)
  | Some (ks', r) =>
      (forall q, kids (fst (exec fuel o s)) q = ks' q) /\
      (snd (exec fuel o s) = ret_of r \/
       (exists p old new, o = ReplaceChild p old new true) /\
       exists e, snd (exec fuel o s) = Raise e /\ registry_exn e)
  end.
Proof. exact c09_refines. Qed.
Print Assumptions C09_refines.

(** A failing edit leaves the state unchanged (the registry exceptions of delete_old=True on
    a node that is not registered are outside the claim; see notes/C09.md). *)
Theorem C09_fail_unchanged : forall fuel o s e,
  snd (exec fuel o s) = Raise e ->
  (e = ValueError /\ fst (exec fuel o s) = s) \/
  ((exists p old new, o = ReplaceChild p old new true) /\ registry_exn e).
Proof. exact c09_fail_unchanged. Qed.
Print Assumptions C09_fail_unchanged.

(** shift never fails on a listed child, at an edge or elsewhere, and returns the index at
    which the child now sits. *)
Theorem C09_shift : forall fuel s p c d sib,
  In c (kids s p) ->
  exists i, snd (exec fuel (Shift p c d sib) s) = RInt i /\
            nth_error (kids (fst (exec fuel (Shift p c d sib) s)) p) i = Some c /\
            length (kids (fst (exec fuel (Shift p c d sib) s)) p) = length (kids s p).
Proof. exact c09_shift. Qed.
Print Assumptions C09_shift.

(** ... exactly two slots are exchanged (or none), chosen as the list model says; *)
Theorem C09_shift_positions : forall fuel s p c d sib i,
  pos c (kids s p) = Some i ->
  match spec_target (name s) (kids s p) i d sib with
  | None => fst (exec fuel (Shift p c d sib) s) = s /\ snd (exec fuel (Shift p c d sib) s) = RInt i
  | Some j => (forall q, kids (fst (exec fuel (Shift p c d sib) s)) q =
                         if Nat.eqb q p then swap_at i j (kids s p) else kids s q) /\
              snd (exec fuel (Shift p c d sib) s) = RInt j
  end.
Proof. exact c09_shift_positions. Qed.
Print Assumptions C09_shift_positions.

(** ... and with sib=True the other slot is the NEAREST same-named sibling on that side. *)
Theorem C09_sib_left_nearest : forall nm l i,
  match sib_left nm l i with
  | Some j => j < i /\ nm (nth j l 0) = nm (nth i l 0) /\
              forall k, j < k < i -> nm (nth k l 0) <> nm (nth i l 0)
  | None => forall k, k < i -> nm (nth k l 0) <> nm (nth i l 0)
  end.
Proof. exact sib_left_nearest. Qed.
Print Assumptions C09_sib_left_nearest.

Theorem C09_sib_right_nearest : forall nm l i,
  match sib_right nm l i with
  | Some j => i < j < length l /\ nm (nth j l 0) = nm (nth i l 0) /\
              forall k, i < k < j -> nm (nth k l 0) <> nm (nth i l 0)
  | None => forall k, i < k < length l -> nm (nth k l 0) <> nm (nth i l 0)
  end.
Proof. exact sib_right_nearest. Qed.
Print Assumptions C09_sib_right_nearest.

(** Every query answers what the ordered tree implies: first / all children by name,
    first / all descendants in document order, single / all nodes by path (empty path:
    nothing), child index (None when absent), ancestry (the chain of listers from a detached
    root), and the tree the recursive queries walk is the one the child lists describe. *)
Theorem C09_queries :
  (forall nm t, find_child nm t = spec_find_child nm t) /\
  (forall nm t, find_all_children nm t = spec_find_all_children nm t) /\
  (forall nm t, find_descendant nm t = spec_find_descendant nm t) /\
  (forall nm t acc, find_all_descendants nm t acc = acc ++ spec_find_all_descendants nm t) /\
  (forall path t, find_single_node_by_path path t = spec_single_by_path path t) /\
  (forall path t, find_all_nodes_by_path path t = spec_all_by_path path t) /\
  (forall s p c, child_index s p c = pos c (kids s p) /\
                 match child_index s p c with
                 | Some i => nth_error (kids s p) i = Some c /\ ~ In c (firstn i (kids s p))
                 | None => ~ In c (kids s p)
                 end) /\
  (forall s fuel i l, Inv s -> get_ancestry fuel s i = Some l -> is_ancestry s i l) /\
  (forall fuel s i t, reify fuel s i = Some t -> tree_of s i t).
Proof. exact c09_queries. Qed.
Print Assumptions C09_queries.

(** In a universe of n nodes the walks are total with fuel n+1 (what harness/c09.py passes):
    get_ancestry terminates with the ancestry, the recursive queries see the whole tree, and
    the universe bound is kept by every edit whose operands lie in the universe. *)
Theorem C09_ancestry_total : forall s n i, Inv s -> bounded n s ->
  exists l, get_ancestry (S n) s i = Some l /\ is_ancestry s i l.
Proof. exact ancestry_total. Qed.
Print Assumptions C09_ancestry_total.

Theorem C09_reify_total : forall s n i, Inv s -> bounded n s ->
  exists t, reify (S n) s i = Some t /\ tree_of s i t.
Proof. exact reify_total. Qed.
Print Assumptions C09_reify_total.

Theorem C09_bounded : forall fuel n o s, bounded n s -> op_in n o -> bounded n (fst (exec fuel o s)).
Proof. exact c09_bounded. Qed.
Print Assumptions C09_bounded.

(** Non-vacuity: a 7-step history over 5 nodes that satisfies the proviso (with a refused
    remove_child and a refused replace_child in it), its final child lists and parent
    links, and three return values. *)
Example C09_example_history_ok : hist_ok 5 ex_s0 ex_h.
Proof. exact ex_hist_ok. Qed.
Print Assumptions C09_example_history_ok.

Example C09_example_result :
  map (kids (run 5 ex_h ex_s0)) [0; 1; 2; 3] = [[2; 4; 1]; []; []; []] /\
  map (parent (run 5 ex_h ex_s0)) [1; 2; 3; 4] = [Some 0; Some 0; None; Some 0] /\
  map (fun o => snd (exec 5 o (run 5 (firstn 3 ex_h) ex_s0))) [Shift 0 1 RIGHT true; Shift 0 3 RIGHT false; RemoveChild 0 4]
    = [RInt 2; RInt 2; Raise ValueError].
Proof. exact ex_result. Qed.
Print Assumptions C09_example_result.

(* Properties/C01.v — child-sequence validation equals the rule's declared content model.
   Only statements closed by [exact]; definitions are in Model/Rule.v (the matcher),
   Spec/Lang.v (the languages L, Llen, Ltop — written from the property text),
   Spec/GreedyOk.v (the decidable side condition), Spec/LangDec.v (the decider inL);
   proofs are in Proofs/C01_*.v. *)
From MP Require Import Common.Base Gen.Tables Model.Rule Spec.Lang Spec.GreedyOk Spec.LangDec
  Proofs.C01_Total Proofs.C01_Sound Proofs.C01_Main Proofs.C01_Table Proofs.C01_Tight.

(** Table obligation: the children section of every shipped rule parses to a spec of the
    greedy_ok shape (complete enumeration, re-run against the working tree). *)
Theorem C01_table : forallb (fun r => greedy_ok_raw (snd r)) rules = true.
Proof. exact C01_table_proof. Qed.
Print Assumptions C01_table.

(** The matcher terminates on every spec (the fuel of the choice loop always suffices:
    every iteration consumes a name) ... *)
Theorem C01_total : forall top mixed pname w, validate_children top mixed pname w <> None.
Proof. exact validate_children_total. Qed.
Print Assumptions C01_total.

(** ... and whatever it reports is a child-not-allowed / minimum / maximum error. *)
Theorem C01_family : forall top mixed pname w errs,
  pname <> METADATA -> validate_children top mixed pname w = Some errs -> Forall c01_fam errs.
Proof. exact validate_children_family. Qed.
Print Assumptions C01_family.

(** Generic theorem: for every spec of the greedy_ok shape, every mixed flag and every
    sequence of child names, validation collects no error exactly when all names are
    declared and the sequence is in the (strict) language of the spec. *)
Theorem C01_generic : forall top mixed pname w,
  greedy_ok_top top = true -> pname <> METADATA ->
  (validate_children top mixed pname w = Some [] <-> allowed_names top w /\ Ltop mixed top w).
Proof. exact C01_generic_proof. Qed.
Print Assumptions C01_generic.

(** Both modes (fail-fast = first collected entry), totality and error family at once. *)
Theorem C01_modes : forall top mixed pname w,
  greedy_ok_top top = true -> pname <> METADATA ->
  exists errs,
    validate_children top mixed pname w = Some errs /\
    (errs = [] <-> allowed_names top w /\ Ltop mixed top w) /\
    (ff_of (Errs errs) = FOk <-> allowed_names top w /\ Ltop mixed top w) /\
    Forall c01_fam errs.
Proof. exact C01_modes_proof. Qed.
Print Assumptions C01_modes.

(** Soundness alone needs only lo <= hi on rule children: whatever the matcher accepts is in
    the strict language — also for specs on which the greedy matcher is incomplete. *)
Theorem C01_accept_sound : forall top mixed pname w,
  match top with Some sp => lohi_ok sp = true | None => True end ->
  pname <> METADATA ->
  validate_children top mixed pname w = Some [] -> allowed_names top w /\ Ltop mixed top w.
Proof. exact accept_sound. Qed.
Print Assumptions C01_accept_sound.

(** Sandwich between the strict and the lenient reading (the band in between is what the
    property leaves unspecified). *)
Theorem C01_sandwich : forall top mixed pname w,
  greedy_ok_top top = true -> pname <> METADATA ->
  (Ltop mixed top w -> validate_children top mixed pname w = Some []) /\
  (validate_children top mixed pname w = Some [] -> Llentop mixed top w).
Proof. exact C01_sandwich_proof. Qed.
Print Assumptions C01_sandwich.

(** The side condition is needed: outside it the greedy matcher rejects words of the language
    (five shapes, one per clause, in Proofs/C01_Tight.v). *)
Theorem C01_side_condition_needed :
  exists sp w, greedy_ok sp = false /\ L false sp w /\ validate_children (Some sp) false (s "p") w <> Some [].
Proof. exact side_condition_needed_proof. Qed.
Print Assumptions C01_side_condition_needed.

(** The language is decidable; [inL] is the oracle of the statement search. *)
Theorem C01_inL_correct : forall mixed sp w, inL mixed sp w = true <-> L mixed sp w.
Proof. exact inL_correct. Qed.
Print Assumptions C01_inL_correct.

Theorem C01_inLlen_correct : forall mixed sp w, inLlen mixed sp w = true <-> Llen mixed sp w.
Proof. exact inLlen_correct. Qed.
Print Assumptions C01_inLlen_correct.

(** C01 for the shipped table: every rule, every parent name but [metadata] (C05's clause),
    every sequence of child names, mixed-content flag as rule.py computes it. *)
Theorem C01 : forall rn r, In (rn, r) rules ->
  exists top, parse_children (rr_children r) = Some top /\
  forall pname w, pname <> METADATA ->
  exists errs,
    validate_children top (is_mixed rn) pname w = Some errs /\
    (errs = [] <-> allowed_names top w /\ Ltop (is_mixed rn) top w) /\
    (ff_of (Errs errs) = FOk <-> allowed_names top w /\ Ltop (is_mixed rn) top w) /\
    Forall c01_fam errs.
Proof. exact C01_proof. Qed.
Print Assumptions C01.

(** The same observed through Rule.validate_rule on a parent whose content and attributes
    are valid. *)
Theorem C01_rule : forall orc rn r name content attrs kids, In (rn, r) rules ->
  name <> METADATA ->
  validate_content orc (tb_ranges shipped) (is_mixed rn) (rr_content_rules r) (rr_content_enum r)
                   content (length kids) = [] ->
  validate_attrs (rr_attrs r) attrs = Errs [] ->
  exists top errs,
    parse_children (rr_children r) = Some top /\
    validate_rule orc shipped rn r name content attrs kids = Errs errs /\
    (errs = [] <-> allowed_names top kids /\ Ltop (is_mixed rn) top kids) /\
    (ff_of (Errs errs) = FOk <-> allowed_names top kids /\ Ltop (is_mixed rn) top kids) /\
    Forall c01_fam errs.
Proof. exact C01_rule_proof. Qed.
Print Assumptions C01_rule.

(** Non-vacuity: shipped rules with a word inside and a word outside their language. *)
Example C01_witness_in :
  exists r top, In (s "accessRule", r) rules /\ parse_children (rr_children r) = Some top /\
    let w := [s "allow"; s "deny"; s "allow"] in
    validate_children top (is_mixed (s "accessRule")) (s "access") w = Some [] /\
    Ltop (is_mixed (s "accessRule")) top w.
Proof. exact C01_witness_in_proof. Qed.

Example C01_witness_out :
  exists r top, In (s "individualNameRule", r) rules /\ parse_children (rr_children r) = Some top /\
    let w := [s "givenName"; s "surName"; s "surName"] in
    validate_children top (is_mixed (s "individualNameRule")) (s "individualName") w = Some [EMaxOcc] /\
    ~ Ltop (is_mixed (s "individualNameRule")) top w.
Proof. exact C01_witness_out_proof. Qed.

Example C01_witness_mixed :
  exists r top, In (s "textRule", r) rules /\ parse_children (rr_children r) = Some top /\
    validate_children top (is_mixed (s "textRule")) (s "abstract") [] = Some [] /\
    Ltop true top [] /\ ~ Ltop false top [] /\
    validate_children top false (s "abstract") [] = Some [EMinChoice].
Proof. exact C01_witness_mixed_proof. Qed.

(* Properties/C18.v — structural equality compares whole trees.
   Model: Model/Equal.v [is_equal] on trees with object identities ([otree]);
   Spec: Spec/TreeEq.v [tree_eq] (dicts as finite maps, children in order), [one_edit].
   [tree_wf] = every dict has pairwise distinct keys (true of every Python dict).
   Only statements closed by [exact]; proofs are in Proofs/C18_*.v. *)
From MP Require Import Common.Base.
From MP Require Import Common.Tree.
From MP Require Import Spec.TreeEq.
From MP Require Import Model.Equal.
From MP Require Import Proofs.C18_Equal.
From MP Require Import Proofs.C18_Main.

(** Two trees that share no node object compare equal exactly when they agree in every
    field of every node and, in order, in all children. *)
Theorem C18_iff : forall a b,
  tree_wf (erase a) -> tree_wf (erase b) -> disjoint_objs a b ->
  (is_equal a b = true <-> tree_eq (erase a) (erase b)).
Proof. exact c18_iff. Qed.
Print Assumptions C18_iff.

(** "true" never lies, whatever is shared. *)
Theorem C18_true_sound : forall a b,
  tree_wf (erase a) -> tree_wf (erase b) -> is_equal a b = true -> tree_eq (erase a) (erase b).
Proof. exact is_equal_sound. Qed.
Print Assumptions C18_true_sound.

(** The same object is never "equal" to itself (the code's first test). *)
Theorem C18_same_object : forall a b, ot_obj a = ot_obj b -> is_equal a b = false.
Proof. exact c18_same_object. Qed.
Print Assumptions C18_same_object.

(** Symmetry, for all pairs (no assumption on sharing). *)
Theorem C18_sym : forall a b,
  tree_wf (erase a) -> tree_wf (erase b) -> is_equal a b = is_equal b a.
Proof. exact is_equal_sym. Qed.
Print Assumptions C18_sym.

(** Anything that agrees with [a] field by field under disjoint identities — in
    particular a deep copy — compares equal to it, in both argument orders. *)
Theorem C18_refl_copy : forall a b,
  tree_wf (erase a) -> tree_wf (erase b) -> disjoint_objs a b ->
  tree_eq (erase a) (erase b) -> is_equal a b = true /\ is_equal b a = true.
Proof. exact c18_refl_copy. Qed.
Print Assumptions C18_refl_copy.

(** Such a copy exists for every tree (fresh identities in document order). *)
Theorem C18_copy_exists : forall a m,
  tree_wf (erase a) -> (forall x, In x (objs a) -> x < m) ->
  let b := fst (label m (erase a)) in
  erase b = erase a /\ disjoint_objs a b /\ is_equal a b = true /\ is_equal b a = true.
Proof. exact c18_copy_exists. Qed.
Print Assumptions C18_copy_exists.

(** ... until one of them is edited anywhere: one field of one node at any depth and child
    position (name, content, tail, prefix; one key of attributes / extras / nsmap added, replaced by another key,
    changed or removed), one child added or removed, two unequal children exchanged. *)
Theorem C18_single_edit : forall a b b',
  tree_wf (erase a) -> tree_wf (erase b) -> tree_wf (erase b') ->
  is_equal a b = true -> one_edit (erase b) (erase b') ->
  is_equal a b' = false /\ is_equal b' a = false.
Proof. exact c18_single_edit. Qed.
Print Assumptions C18_single_edit.

(** The same when the edit is made in the first argument (whose shape drives the
    code's traversal). *)
Theorem C18_single_edit_left : forall a a' b,
  tree_wf (erase a) -> tree_wf (erase a') -> tree_wf (erase b) ->
  is_equal a b = true -> one_edit (erase a) (erase a') ->
  is_equal a' b = false /\ is_equal b a' = false.
Proof. exact c18_single_edit_left. Qed.
Print Assumptions C18_single_edit_left.

(** Transitivity: equal answers chain, so on trees that share no node object is_equal is
    an equivalence relation (with [C18_sym] and [C18_refl_copy]). *)
Theorem C18_trans : forall a b c,
  tree_wf (erase a) -> tree_wf (erase b) -> tree_wf (erase c) -> disjoint_objs a c ->
  is_equal a b = true -> is_equal b c = true -> is_equal a c = true.
Proof. exact c18_trans. Qed.
Print Assumptions C18_trans.

(** Non-vacuity: a copy compares equal, an edit of the second child's extras is seen,
    dict insertion order is not, the same object compares unequal. *)
Example C18_example :
  is_equal ex_a ex_b = true /\ is_equal ex_a ex_b' = false /\ is_equal ex_a ex_c = true /\
  is_equal ex_a ex_a = false /\ one_edit (erase ex_b) (erase ex_b').
Proof. exact c18_example. Qed.
Print Assumptions C18_example.

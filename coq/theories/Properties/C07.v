(* Properties/C07.v — XML export is well-formed and round-trips the tree.
   Only statements closed by [exact]; proofs are in Proofs/C07_*.v.
   Reading guide: [xparse] (Spec/Xml.v) is the specification parser standing in for a
   conforming XML parser, "well-formed" = [xparse s <> None]; the precondition class and
   the relation [sim] (the tree, up to surrounding white space of content and tail) are
   in Spec/XmlSim.v; [to_xml_top] / [eml_to_xml_top] (Model/XmlOut.v) are the models of
   metapype_io.to_xml and metapype.eml.export.to_xml. *)
From MP Require Import Common.Base Common.Tree Common.XStr Spec.Xml Spec.XmlSim Model.XmlOut
  Proofs.C07_Escape Proofs.C07_Lex Proofs.C07_Parse Proofs.C07_General Proofs.C07_Eml.

(** Stage 1: escaped text is a sequence of plain characters (no less-than, greater-than,
    ampersand or CR; in attribute values also no double quote, tab, newline) and references,
    and the parser's decoders map it back to the original string — for every string.
    [escape_text] = saxutils.escape(text, CR -> &#13;) is what both exporters apply to content
    and tail, [escape_attr] what they apply to attribute values. *)
Theorem escape_clean : forall x, escaped false (escape_text x).
Proof. exact escape_clean. Qed.
Print Assumptions escape_clean.

Theorem escape_attr_clean : forall x, escaped true (escape_attr x).
Proof. exact escape_attr_clean. Qed.
Print Assumptions escape_attr_clean.

Theorem escape_no_markup : forall x, ~ In 60%N (escape_text x) /\ ~ In 62%N (escape_text x).
Proof. exact (fun x => conj (escape_no_lt x) (escape_no_gt x)). Qed.
Print Assumptions escape_no_markup.

Theorem escape_decode : forall x, xtext_decode (escape_text x) = Some x.
Proof. exact escape_decode. Qed.
Print Assumptions escape_decode.

Theorem escape_attr_decode : forall x, xattr_decode (escape_attr x) = Some x.
Proof. exact escape_attr_decode. Qed.
Print Assumptions escape_attr_decode.

(** Stage 2: every start tag the general exporter writes (both shapes) is re-lexed to the
    node's qualified name and exactly the attribute list it carries: attributes, emitted
    namespace declarations, qualified attributes, in that order. *)
Theorem C07_lexical : forall parent d rest,
  lex_ok d ->
  ptag (tag_of d ++ attr_string parent false d ++ [62%N] ++ rest)
    = Some (tag_of d, all_attrs parent d, false, rest)
  /\ ptag (tag_of d ++ attr_string parent false d ++ s "/>" ++ rest)
    = Some (tag_of d, all_attrs parent d, true, rest).
Proof. exact C07_lexical_stmt. Qed.
Print Assumptions C07_lexical.

(** Stage 3: the general exporter.  For every tree over XML-legal names, with prefixes bound
    in the node's own map to legal namespace names, XML-representable values (any XML 1.0
    character, CR included: it is written as a reference), well-formed dicts, children that keep their
    parent's prefixes, and no tail on the root: the output is well-formed and parses back to
    the same names, prefixes, attributes, qualified attributes, in-scope bindings and child
    order, content and tail up to leading/trailing white space (mixed content and tails
    included). *)
Theorem C07_general : forall t,
  xml_names t -> prefixes_bound t -> xml_values t -> dicts_wf t -> ns_closed t ->
  n_tail (ft_d t) = None ->
  exists x, xparse (to_xml_top t) = Some x /\ sim [] x t.
Proof. exact C07_general_proof. Qed.
Print Assumptions C07_general.

(** ... and the parse result is known exactly: [layout] is the tree with the exporter's
    newline + indentation appended to content and wrapped around tails. *)
Theorem C07_general_layout : forall t,
  xml_names t -> prefixes_bound t -> xml_values t -> dicts_wf t -> ns_closed t ->
  n_tail (ft_d t) = None ->
  xparse (to_xml_top t) = Some (layout None 0 t []).
Proof. exact C07_general_exact. Qed.
Print Assumptions C07_general_layout.

(** the implication is not vacuous *)
Theorem C07_general_witness :
  (xml_names witness /\ prefixes_bound witness /\ xml_values witness /\ dicts_wf witness
   /\ ns_closed witness /\ n_tail (ft_d witness) = None)
  /\ xparse (to_xml_top witness) <> None.
Proof. exact (conj witness_in_class witness_parses). Qed.
Print Assumptions C07_general_witness.

(** Stage 4: the EML exporter.  For every tree over XML-legal element and attribute names with
    XML-representable values in which no node carries both text and children and content is
    free of the pre-escaped entity spellings and of inline para tags: the output is
    well-formed and parses back to the same local names, attributes, child order and text (up
    to surrounding white space); on an eml root the boilerplate declarations and
    xsi:schemaLocation are added and the element is written eml:eml. *)
Theorem C07_eml : forall t,
  eml_class t -> exists x, xparse (eml_to_xml_top t) = Some x /\ esim x t.
Proof. exact C07_eml_proof. Qed.
Print Assumptions C07_eml.

Theorem C07_eml_witness : eml_class ewitness /\ xparse (eml_to_xml_top ewitness) <> None.
Proof. exact (conj ewitness_in_class ewitness_parses). Qed.
Print Assumptions C07_eml_witness.

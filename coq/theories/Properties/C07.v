(* Properties/C07.v — XML export is well-formed and round-trips the tree.
   Only statements closed by [exact]; proofs are in Proofs/. *)
From MP Require Import Common.Base Common.Tree Common.XStr Spec.Xml Model.XmlOut.

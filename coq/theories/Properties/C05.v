(* Properties/C05.v — whole-tree validation is the conjunction of node validations;
   metadata is opaque.  Only statements; proofs are in Proofs/C05_tree.v (generic, any
   tables) and Proofs/C04_shipped.v (table obligations).
   [node_of orc tb n] is validate.node on n alone (it sees [node_view n] only);
   [visible_preorder t] is document order without anything below a metadata element;
   [res_concat] combines results left to right (a crash stops the walk). *)
From MP Require Import Common.Base Gen.Tables Model.Rule Spec.TreeVal
     Proofs.C05_tree Proofs.C04_total Proofs.C04_shipped.

(** validating a node on its own looks at name, content, attributes, child NAMES only *)
Theorem C05_node_view : forall orc tb t t', node_view t = node_view t' -> node_of orc tb t = node_of orc tb t'.
Proof. exact node_of_view. Qed.
Print Assumptions C05_node_view.

(** collecting mode, any tables *)
Theorem C05_collect_generic : forall orc tb t,
  validate_tree orc tb t = res_concat (map (node_of orc tb) (visible_preorder t)).
Proof. exact validate_tree_concat. Qed.
Print Assumptions C05_collect_generic.

(** collecting mode, shipped tables (closed, so no node crashes): the tree's error list is
    the concatenation, in document order, of the per-node error lists *)
Theorem C05_collect : forall orc t,
  validate_tree orc shipped_tb t =
  Errs (concat (map (fun n => errs_of (node_of orc shipped_tb n)) (visible_preorder t))).
Proof. exact C05_collect_shipped. Qed.
Print Assumptions C05_collect.

(** fail-fast mode raises what the first failing node raises *)
Theorem C05_failfast : forall orc tb t,
  ff_of (validate_tree orc tb t) = first_failure (map (fun n => ff_of (node_of orc tb n)) (visible_preorder t)).
Proof. exact validate_tree_failfast. Qed.
Print Assumptions C05_failfast.

(** success = every visible node succeeds on its own, in both modes *)
Theorem C05_iff : forall orc tb t,
  validate_tree orc tb t = Errs [] <-> Forall (fun n => node_of orc tb n = Errs []) (visible_preorder t).
Proof. exact validate_tree_ok_iff. Qed.
Print Assumptions C05_iff.

Theorem C05_iff_failfast : forall orc tb t,
  ff_of (validate_tree orc tb t) = FOk <-> Forall (fun n => ff_of (node_of orc tb n) = FOk) (visible_preorder t).
Proof. exact validate_tree_failfast_ok_iff. Qed.
Print Assumptions C05_iff_failfast.

(** nothing below a metadata element influences the outcome *)
Theorem C05_opaque : forall orc tb t t', same_outside_metadata t t' ->
  validate_tree orc tb t = validate_tree orc tb t'.
Proof. exact validate_tree_opaque. Qed.
Print Assumptions C05_opaque.

(** ... beyond it having at most one child *)
Theorem C05_metadata_node : forall orc w,
  validate_node orc shipped_tb (s "metadata") None [] w = Errs [] <-> length w <= 1.
Proof. exact shipped_metadata_accepts. Qed.
Print Assumptions C05_metadata_node.

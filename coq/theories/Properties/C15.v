(* Properties/C15.v — prune removes exactly the offending subtrees and nothing else.
   Only statements closed by [exact]; proofs are in Proofs/C15_*.v.

   [prune orc tb strict t] is the Gallina model of validate.prune (Model/Prune.v): result
   [POk t' l rem] = tree left ([None]: the root pruned itself), returned (id, reason) list in
   order, ids deleted from the registry; [PCrash] = a non-rule exception escaped.
   [prune_spec] (Spec/PruneSpec.v) is the declarative statement.  Hypotheses on the tables are
   C04's closure condition [tables_closed] and "metadata is an element name"; both are table
   obligations re-proved on the regenerated tables ([C15_table]).  [orc] (float/int/date/URI
   library answers) is arbitrary. *)
From Coq Require Import Permutation.
From MP Require Import Common.Base Common.Tree Model.Rule Model.RuleRun Model.Prune Spec.PruneSpec Spec.TreeVal.
From MP Require Import Proofs.C15_Eq Proofs.C15_Spec Proofs.C15_Closed Proofs.C15_Main Proofs.C15_Table.

(** Table obligation (complete enumeration of Gen/Tables.v, re-run on every check) *)
Theorem C15_table : tables_closed shipped15 = true /\ known shipped15 METADATA = true.
Proof. exact (conj shipped15_closed shipped15_metadata). Qed.
Print Assumptions C15_table.

(** The model computes the spec: tree, list in order, registry deletions. *)
Theorem C15_eq : forall orc tb strict,
  tables_closed tb = true -> known tb METADATA = true ->
  forall t,
    prune orc tb strict t =
    POk (fst (prune_spec orc tb strict t)) (spec_list (snd (prune_spec orc tb strict t)))
        (spec_rem (snd (prune_spec orc tb strict t))).
Proof. exact eq_l. Qed.
Print Assumptions C15_eq.

(** Pruning never raises. *)
Theorem C15_total : forall orc tb strict,
  tables_closed tb = true -> known tb METADATA = true ->
  forall t, exists t' l rem, prune orc tb strict t = POk t' l rem.
Proof. exact total_l. Qed.
Print Assumptions C15_total.

(** A tree rooted at a known element keeps its root. *)
Theorem C15_root : forall orc tb strict,
  tables_closed tb = true -> known tb METADATA = true ->
  forall t, known tb (ft_name t) = true ->
    prune orc tb strict t =
    POk (Some (keep orc tb strict t)) (spec_list (removed orc tb strict t)) (spec_rem (removed orc tb strict t)).
Proof. exact known_root_l. Qed.
Print Assumptions C15_root.

(** Postconditions: every node of the result outside metadata content ([visited]) has a known
    name; none has a child its rule does not allow; in strict mode every such node other than
    the root (= every child of such a node) passes single-node validation. *)
Theorem C15_post : forall orc tb strict,
  tables_closed tb = true -> known tb METADATA = true ->
  forall t t' l rem, known tb (ft_name t) = true -> prune orc tb strict t = POk (Some t') l rem ->
  forall x, visited tb t' x ->
    known tb (ft_name x) = true /\
    (opaque tb (ft_name x) = false ->
     forall c, In c (ft_kids x) ->
       known tb (ft_name c) = true /\ allowed tb (ft_name x) (ft_name c) = true /\
       (strict = true -> node_valid orc tb c = true)).
Proof. exact post_l. Qed.
Print Assumptions C15_post.

(** Kept nodes are untouched (same record: id and all fields) and keep their order. *)
Theorem C15_kept : forall orc tb strict,
  tables_closed tb = true -> known tb METADATA = true ->
  forall t t' l rem, known tb (ft_name t) = true -> prune orc tb strict t = POk (Some t') l rem ->
  embeds t' t.
Proof. exact kept_l. Qed.
Print Assumptions C15_kept.

(** The returned list names removed subtree roots, each for a true reason ([entry_ok]); the
    registry deletions are the ids of those subtrees; ids left + ids deleted = ids of the input. *)
Theorem C15_removed_exact : forall orc tb strict,
  tables_closed tb = true -> known tb METADATA = true ->
  forall t t' l rem, known tb (ft_name t) = true -> prune orc tb strict t = POk (Some t') l rem ->
  exists L : list (ftree * reason),
    l = spec_list L /\ rem = spec_rem L /\
    (forall u r, In (u, r) L -> entry_ok orc tb strict t u r) /\
    Permutation (ids_of t) (ids_of t' ++ rem).
Proof. exact removed_exact_l. Qed.
Print Assumptions C15_removed_exact.

(** Removed nodes leave the registry, kept ones stay. *)
Theorem C15_registry : forall orc tb strict,
  tables_closed tb = true -> known tb METADATA = true ->
  forall t t' l rem, known tb (ft_name t) = true -> prune orc tb strict t = POk (Some t') l rem ->
  forall store, NoDup (ids_of t) -> NoDup store -> incl (ids_of t) store ->
    store_del_all rem store = Some (filter (fun j => negb (smem j rem)) store) /\
    (forall i, In i (ids_of t) -> (In i rem <-> ~ In i (ids_of t'))).
Proof. exact registry_l. Qed.
Print Assumptions C15_registry.

(** Pruning a second time removes nothing. *)
Theorem C15_idem : forall orc tb strict,
  tables_closed tb = true -> known tb METADATA = true ->
  forall t t' l rem, known tb (ft_name t) = true -> prune orc tb strict t = POk (Some t') l rem ->
  prune orc tb strict t' = POk (Some t') [] [].
Proof. exact idem_l. Qed.
Print Assumptions C15_idem.

(** Non-vacuity: on the shipped tables the hypotheses hold and pruning does remove things. *)
Example C15_witness_lenient :
  known shipped15 (ft_name ex_tree) = true /\
  prune (orc_of []) shipped15 false ex_tree =
  POk (Some (FT (ft_d ex_tree) (tl (ft_kids ex_tree)))) [(s "a", RNotAllowed)] [s "a"; s "a1"].
Proof. exact (conj ex_known ex_lenient). Qed.

Example C15_witness_strict :
  prune (orc_of []) shipped15 true ex_tree =
  POk (Some (FT (ft_d ex_tree) (tl (tl (ft_kids ex_tree))))) [(s "a", RNotAllowed); (s "b", RInvalid)] [s "a"; s "a1"; s "b"].
Proof. exact ex_strict. Qed.

(* Properties/C19.v — placeholder while the proofs are being written. *)
From MP Require Import Common.Base.
From MP Require Import Common.Tree.
From MP Require Import Gen.Tables.
From MP Require Import Model.PyString.
From MP Require Import Model.Evaluate.
From MP Require Import Spec.Recommend.

Theorem C19_codes_table : forallb (fun c => smem c warn_codes) model_codes = true.
Proof. vm_compute. reflexivity. Qed.
Print Assumptions C19_codes_table.

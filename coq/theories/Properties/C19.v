(* Properties/C19.v — evaluation is total and reports exactly the documented recommendations.
   Only statements closed by [exact] or by complete enumeration of a generated table;
   proofs are in Proofs/C19_*.v.

   [eval_tree eval_dispatch warn_codes parent t ws] models evaluate.tree(t, ws) for a node [t]
   whose parent has name [parent] ([None]: no parent); [eval_node] models evaluate.node.
   A result [EOk l] is the warnings list afterwards as (code name, node id) pairs;
   [ECrash] stands for any exception.  [expected_at] is the table of Spec/Recommend.v. *)
From MP Require Import Common.Base.
From MP Require Import Common.Tree.
From MP Require Import Gen.Tables.
From MP Require Import Model.PyString.
From MP Require Import Model.Evaluate.
From MP Require Import Spec.Recommend.
From MP Require Import Proofs.C19_Nodes.
From MP Require Import Proofs.C19_Main.
From MP Require Import Proofs.C19_Shape.
From MP Require Import Proofs.C19_Shipped.

(** ** table obligations over the generated tables (re-run against the working tree) *)

(** every code the evaluators can report is a member of EvaluationWarning *)
Theorem C19_table_codes : forallb (fun c => smem c warn_codes) model_codes = true.
Proof. vm_compute. reflexivity. Qed.
Print Assumptions C19_table_codes.

(** the members referenced by evaluate.py are members, and are exactly the modelled ones *)
Theorem C19_table_used :
  subset warn_used warn_codes && subset warn_used model_codes && subset model_codes warn_used = true.
Proof. vm_compute. reflexivity. Qed.
Print Assumptions C19_table_used.

(** every dispatch entry points to a modelled evaluator; its keys are known element names *)
Theorem C19_table_dispatch :
  fns_known eval_dispatch && subset (keys eval_dispatch) (keys node_map) = true.
Proof. vm_compute. reflexivity. Qed.
Print Assumptions C19_table_dispatch.

(** the dispatch table is the one the recommendation table was written for *)
Theorem C19_table_canonical : assoc_agree eval_dispatch canonical_dispatch = true.
Proof. vm_compute. reflexivity. Qed.
Print Assumptions C19_table_canonical.

(** the element-name constants read by the evaluators have the values the model uses *)
Theorem C19_table_names : names_agree name_consts = true.
Proof. vm_compute. reflexivity. Qed.
Print Assumptions C19_table_names.

(** ** generic theorems (any dispatch / code table satisfying the obligations) *)
Theorem C19_total_generic : forall dispatch codes,
  fns_known dispatch = true ->
  forallb (fun c => smem c codes) model_codes = true ->
  forall parent t ws, exists new,
    eval_tree dispatch codes parent t ws = EOk (ws ++ new) /\ Forall (fun w => In (fst w) codes) new.
Proof. exact total_generic. Qed.
Print Assumptions C19_total_generic.

Theorem C19_exact_generic : forall dispatch codes,
  fns_known dispatch = true ->
  forallb (fun c => smem c codes) model_codes = true ->
  assoc_agree dispatch canonical_dispatch = true ->
  forall parent t ws, shape_ok t = true ->
    eval_tree dispatch codes parent t ws = EOk (ws ++ expected_at parent t).
Proof. exact exact_generic. Qed.
Print Assumptions C19_exact_generic.

(** ** the property, for the shipped tables *)

(** Total: for EVERY tree (any names, any content, valid or not) and every initial list,
    evaluation returns normally, leaves the earlier entries in place and appends only
    entries whose code is a member of EvaluationWarning. *)
Theorem C19_total : forall parent t ws, exists new,
  eval_tree eval_dispatch warn_codes parent t ws = EOk (ws ++ new) /\
  Forall (fun w => In (fst w) warn_codes) new.
Proof. exact total_shipped. Qed.
Print Assumptions C19_total.

(** Exact: on a tree whose single-valued children are single (what validation guarantees:
    [shape_ok], Spec/Recommend.v), the appended entries are exactly the unmet rows of the
    recommendation table, element by element in document order. *)
Theorem C19_exact : forall parent t ws, shape_ok t = true ->
  eval_tree eval_dispatch warn_codes parent t ws = EOk (ws ++ expected_at parent t).
Proof. exact exact_shipped. Qed.
Print Assumptions C19_exact.

Theorem C19_exact_root : forall t ws, shape_ok t = true ->
  eval_tree eval_dispatch warn_codes None t ws = EOk (ws ++ expected t).
Proof. exact exact_root_shipped. Qed.
Print Assumptions C19_exact_root.

(** ** from validation to the hypothesis

    Table obligation: in the generated rule table the single-valued children ARE single-valued
    ([ub_child e c]: the largest number of [c] children in any word of the language of [e]'s
    rule, computed from rules.json as parsed by Model/Rule.v). *)
Theorem C19_table_singletons :
  ub_child "dataset" "abstract" = Some 1 /\ ub_child "dataset" "coverage" = Some 1 /\
  ub_child "dataset" "intellectualRights" = Some 1 /\
  ub_child "physical" "size" = Some 1 /\ ub_child "physical" "dataFormat" = Some 1.
Proof. exact table_singletons. Qed.
Print Assumptions C19_table_singletons.

(** [lang_ok t]: for every element of [t] that has a rule, its children sequence is a word of
    the rule's language (Spec/Lang.v — what C01 proves child validation accepts), and every
    authentication / recordDelimiter element carries text (content rule nonEmptyContent, C02).
    Then the hypothesis of C19_exact holds ... *)
Theorem C19_shape_from_validation : forall t, lang_ok t -> shape_ok t = true.
Proof. exact lang_shape. Qed.
Print Assumptions C19_shape_from_validation.

(** ... and the warnings are exactly the recommended ones. *)
Theorem C19_exact_validated : forall t ws, lang_ok t ->
  eval_tree eval_dispatch warn_codes None t ws = EOk (ws ++ expected t).
Proof. exact exact_lang_shipped. Qed.
Print Assumptions C19_exact_validated.

(** The full statement of the property for a notion [valid] of "passes validation"; it is
    proved from the one link [valid t -> shape_ok t = true] (by the theorem above it suffices
    that [valid t -> lang_ok t], which is the content of C01 + C02 + C05 for validate.tree).
    That link is checked by the harness on generated valid trees, not proved here. *)
Definition C19_full_statement (valid : ftree -> Prop) : Prop :=
  forall t ws, valid t ->
    eval_tree eval_dispatch warn_codes None t ws = EOk (ws ++ expected t).

Theorem C19_exact_partial : forall valid : ftree -> Prop,
  (forall t, valid t -> shape_ok t = true) -> C19_full_statement valid.
Proof. exact full_from_shape. Qed.
Print Assumptions C19_exact_partial.

(** evaluate.node on one node: total, only member codes, and the unmet rows of that element. *)
Theorem C19_node : forall parent t, exists ev,
  eval_node eval_dispatch warn_codes parent t = NOk ev /\
  Forall (fun c => In c warn_codes) (codes_of ev) /\
  (shape_ok t = true -> codes_of ev = unmet parent t).
Proof. exact node_shipped. Qed.
Print Assumptions C19_node.

(** ** non-vacuity *)
Definition ex_node (id name : string) (content : option pystr) (kids : list ftree) : ftree :=
  FT {| n_id := s id; n_name := s name; n_content := content; n_tail := None; n_prefix := None;
        n_attrs := []; n_extras := []; n_nsmap := [] |} kids.

(** a dataset with a four-word title and a short abstract given as para text *)
Definition ex_dataset : ftree :=
  ex_node "d" "dataset" None
    [ ex_node "t" "title" (Some (s "Soil flux data 2019")) [];
      ex_node "c" "creator" None [ex_node "i" "individualName" None [ex_node "g" "surName" (Some (s "Lee")) []]];
      ex_node "a" "abstract" None [ex_node "p" "para" (Some (s "Too short.")) []] ].

Example C19_example :
  shape_ok ex_dataset = true /\
  eval_tree eval_dispatch warn_codes None ex_dataset [(s "EARLIER", s "x")] =
  EOk ([(s "EARLIER", s "x")] ++
       [ (s "DATASET_ABSTRACT_TOO_SHORT", s "d"); (s "DATASET_COVERAGE_MISSING", s "d"); (s "DATATABLE_MISSING", s "d");
         (s "INTELLECTUAL_RIGHTS_MISSING", s "d"); (s "KEYWORDS_MISSING", s "d"); (s "DATASET_METHOD_STEPS_MISSING", s "d");
         (s "DATASET_PROJECT_MISSING", s "d"); (s "TITLE_TOO_SHORT", s "t");
         (s "ORCID_ID_MISSING", s "c"); (s "USER_ID_MISSING", s "c"); (s "EMAIL_MISSING", s "c");
         (s "INDIVIDUAL_NAME_INCOMPLETE", s "i") ]).
Proof. vm_compute. split; reflexivity. Qed.

(** the hypothesis of C19_exact is needed: with two abstracts the code reads the LAST one,
    the table reads "the" (first) one *)
Definition ex_two_abstracts : ftree :=
  ex_node "d" "dataset" None
    [ ex_node "a1" "abstract" (Some (s "short")) [];
      ex_node "a2" "abstract" None [] ].

Example C19_hypothesis_needed :
  shape_ok ex_two_abstracts = false /\
  eval_tree eval_dispatch warn_codes None ex_two_abstracts [] <> EOk ([] ++ expected ex_two_abstracts).
Proof. split; [vm_compute; reflexivity | vm_compute; discriminate]. Qed.

(* Properties/C04.v — validation is total: only rule errors escape, collecting mode never
   raises.  Only statements; proofs are in Proofs/C04_total.v, Proofs/C04_shipped.v.
   [validate_tree]/[validate_node] compute the collecting-mode result: [Errs es] (the
   appended entries) or [Crash pre kind] (a non-rule exception escaped); fail-fast mode is
   [ff_of] of it.  Termination is by construction (structural recursion on the tree; the
   matcher's fuel is shown sufficient).  [total_outcome codes parent r] says:
   r = Errs es for some es (nothing escaped in collecting mode), every entry's code is a
   member of [codes], the fail-fast outcome is success or a class of the family rooted at
   MetapypeRuleError, and es = [] exactly when fail-fast succeeds. *)
From MP Require Import Common.Base Gen.Tables Model.Rule Spec.TreeVal Proofs.C04_total Proofs.C04_shipped.

(** Table obligations *)
Theorem C04_table_closed : tables_closed shipped_tb = true.
Proof. exact shipped_closed. Qed.
Print Assumptions C04_table_closed.

Theorem C04_table_family : forall e, in_family exn_parent RULE_ERROR_ROOT (class_of e).
Proof. exact (classes_in_family _ _ _ shipped_classes_in_family). Qed.
Print Assumptions C04_table_family.

Theorem C04_table_codes : forall e, In (code_of e) verr_codes.
Proof. exact (codes_in_enum _ shipped_codes_in_enum). Qed.
Print Assumptions C04_table_codes.

(** Generic: any closed tables, any oracle, any tree *)
Theorem C04_generic : forall tb codes parent,
  tables_closed tb = true ->
  (forall e, In (code_of e) codes) ->
  (forall e, in_family parent RULE_ERROR_ROOT (class_of e)) ->
  forall orc t, total_outcome codes parent (validate_tree orc tb t).
Proof. exact C04_tree_generic. Qed.
Print Assumptions C04_generic.

(** The shipped tables: validate.node and validate.tree *)
Theorem C04_node : forall orc name content attrs kidnames,
  total_outcome verr_codes exn_parent (validate_node orc shipped_tb name content attrs kidnames).
Proof. exact C04_node_shipped. Qed.
Print Assumptions C04_node.

Theorem C04 : forall orc t,
  exists es, validate_tree orc shipped_tb t = Errs es /\
    Forall (fun e => In (code_of e) verr_codes) es /\
    (ff_of (validate_tree orc shipped_tb t) = FOk \/
     exists c, ff_of (validate_tree orc shipped_tb t) = FRaise c /\ in_family exn_parent RULE_ERROR_ROOT c) /\
    (ff_of (validate_tree orc shipped_tb t) = FOk <-> es = []).
Proof. exact C04_tree_shipped. Qed.
Print Assumptions C04.

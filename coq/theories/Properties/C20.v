(* Properties/C20.v — whitespace normalisation is idempotent and structure-preserving.
   Only statements closed by [exact]; proofs are in Proofs/C20_*.v.
   Text branch: [norm] (Model/Normalize.v) models normalize(s) for every Python str
   (code-point list).  32 = U+0020 SPACE, 160 = U+00A0 NO-BREAK SPACE. *)
From MP Require Import Common.Base.
From MP Require Import Model.PyString.
From MP Require Import Model.Normalize.
From MP Require Import Proofs.C20_PyString.
From MP Require Import Proofs.C20_Text.
From MP Require Import Spec.XmlShape.
From MP Require Import Proofs.C20_Xml.

(** The whitespace predicate is exactly this explicit set (checked against str.isspace
    on all 1,114,112 code points by the harness). *)
Theorem C20_space_set : forall c, is_py_space c = true <->
  (9 <= c <= 13 \/ 28 <= c <= 32 \/ c = 133 \/ c = 160 \/ c = 5760 \/ 8192 <= c <= 8202 \/
   c = 8232 \/ c = 8233 \/ c = 8239 \/ c = 8287 \/ c = 12288)%N.
Proof. exact is_py_space_set. Qed.
Print Assumptions C20_space_set.

(** Text normalisation is idempotent. *)
Theorem C20_idem : forall x : pystr, norm (norm x) = norm x.
Proof. exact C20_idem_l. Qed.
Print Assumptions C20_idem.

(** The result contains no non-breaking space, does not start or end with whitespace
    (in particular not with a space), and has no two adjacent spaces. *)
Theorem C20_shape : forall x : pystr,
  ~ In 160%N (norm x) /\
  (forall c r, norm x = c :: r -> is_py_space c = false) /\
  (forall r c, norm x = r ++ [c] -> is_py_space c = false) /\
  (forall a b, norm x <> a ++ 32%N :: 32%N :: b).
Proof. exact C20_shape_l. Qed.
Print Assumptions C20_shape.

(** The words (as [str.split()] sees them) and their order are kept ... *)
Theorem C20_words : forall x : pystr,
  py_split_ws (norm x) = py_split_ws (replace_char 160 32 x).
Proof. exact C20_words_l. Qed.
Print Assumptions C20_words.

(** ... also relative to the original string, U+00A0 being whitespace for [str.split()]. *)
Theorem C20_words_orig : forall x : pystr, py_split_ws (norm x) = py_split_ws x.
Proof. exact C20_words_orig_l. Qed.
Print Assumptions C20_words_orig.

(** The subsequence of non-whitespace characters is unchanged. *)
Theorem C20_nonspace : forall x : pystr,
  filter (fun c => negb (is_py_space c)) (norm x) = filter (fun c => negb (is_py_space c)) x.
Proof. exact C20_nonspace_l. Qed.
Print Assumptions C20_nonspace.

(** Non-vacuity / sanity: a concrete string with every kind of whitespace. *)
Example C20_example :
  norm ([160; 32] ++ s "a" ++ [9; 32; 32; 160] ++ s "b" ++ [10] ++ s "c" ++ [32; 8195])%N
  = (s "a" ++ [32] ++ s "b" ++ [10] ++ s "c")%N.
Proof. vm_compute. reflexivity. Qed.

(** * XML branch: the infoset semantics of the stylesheet ([norm_xml], Model/Normalize.v)

    [protected] is the ancestor list of the stylesheet's text() template (the harness reads it
    from normalize.py on every run: markup, literalLayout, objectName, attributeName, para);
    the theorems hold for any list.  The XML parser, libxslt and the libxml2 serialiser are
    NOT modelled: string-level idempotence and well-formedness of the returned text are
    checked differentially only (harness/c20.py). *)

(** Normalising twice changes nothing more. *)
Theorem C20x_idem : forall protected root,
  flat_map (norm_xml protected) (norm_xml protected root) = norm_xml protected root.
Proof. exact xml_idem. Qed.
Print Assumptions C20x_idem.

(** Same elements, attribute names and order. *)
Theorem C20x_struct : forall protected root, flat_map skeleton (norm_xml protected root) = skeleton root.
Proof. exact xml_struct. Qed.
Print Assumptions C20x_struct.

(** Text nodes below a protected element are kept, in order, apart from U+00A0 -> U+0020 ... *)
Theorem C20x_protected : forall protected root,
  flat_map (texts protected true false) (norm_xml protected root) =
  map (replace_char 160 32) (texts protected true false root).
Proof. exact xml_protected. Qed.
Print Assumptions C20x_protected.

(** ... indeed below a protected element the stylesheet changes attribute values only
    ([nbsp_x]: U+00A0 -> U+0020 in text and attribute values). *)
Theorem C20x_protected_subtree : forall protected n,
  xslt_tr protected true n = [attrs_only xnorm (nbsp_x n)].
Proof. exact xslt_protected_subtree. Qed.
Print Assumptions C20x_protected_subtree.

(** Every other text node is non-empty and space-normalised; so is every attribute value
    (which may be empty). *)
Theorem C20x_norm : forall protected root,
  Forall (fun v => v <> [] /\ xnormal v) (flat_map (texts protected false false) (norm_xml protected root)) /\
  Forall xnormal (flat_map attr_values (norm_xml protected root)).
Proof. exact xml_norm. Qed.
Print Assumptions C20x_norm.

(** For the protected elements named by the property ([protected_names], Spec/XmlShape.v:
    markup, literalLayout, objectName, attributeName, para); harness/c20.py checks on every run
    that the stylesheet's ancestor list is this one (tie:xslt:protected-list) and runs the
    statement oracle with this list. *)
Theorem C20x_shipped : forall root,
  flat_map (norm_xml protected_names) (norm_xml protected_names root) = norm_xml protected_names root /\
  flat_map skeleton (norm_xml protected_names root) = skeleton root /\
  flat_map (texts protected_names true false) (norm_xml protected_names root) =
    map (replace_char 160 32) (texts protected_names true false root) /\
  Forall (fun v => v <> [] /\ xnormal v) (flat_map (texts protected_names false false) (norm_xml protected_names root)) /\
  Forall xnormal (flat_map attr_values (norm_xml protected_names root)).
Proof. exact xml_shipped. Qed.
Print Assumptions C20x_shipped.

Example C20x_example :
  norm_xml [s "para"]
    (XE (s "a") [(s "x", [32; 49; 9; 160; 50; 32]%N)]
        [ XT [10; 32]%N; XE (s "b") [] [XT (s "  hello   world ")]; XT [10]%N;
          XE (s "para") [] [XT ([32; 160]%N ++ s "keep  "); XE (s "i") [] [XT (s " this ")]] ])
  = [ XE (s "a") [(s "x", s "1 2")]
        [ XE (s "b") [] [XT (s "hello world")];
          XE (s "para") [] [XT (s "  keep  "); XE (s "i") [] [XT (s " this ")]] ] ].
Proof. vm_compute. reflexivity. Qed.

(* Properties/C20.v — whitespace normalisation is idempotent and structure-preserving.
   Only statements closed by [exact]; proofs are in Proofs/C20_*.v.
   Text branch: [norm] (Model/Normalize.v) models normalize(s) for every Python str
   (code-point list).  32 = U+0020 SPACE, 160 = U+00A0 NO-BREAK SPACE. *)
From MP Require Import Common.Base.
From MP Require Import Model.PyString.
From MP Require Import Model.Normalize.
From MP Require Import Proofs.C20_PyString.
From MP Require Import Proofs.C20_Text.

(** The whitespace predicate is exactly this explicit set (checked against str.isspace
    on all 1,114,112 code points by the harness). *)
Theorem C20_space_set : forall c, is_py_space c = true <->
  (9 <= c <= 13 \/ 28 <= c <= 32 \/ c = 133 \/ c = 160 \/ c = 5760 \/ 8192 <= c <= 8202 \/
   c = 8232 \/ c = 8233 \/ c = 8239 \/ c = 8287 \/ c = 12288)%N.
Proof. exact is_py_space_set. Qed.
Print Assumptions C20_space_set.

(** Text normalisation is idempotent. *)
Theorem C20_idem : forall x : pystr, norm (norm x) = norm x.
Proof. exact C20_idem_l. Qed.
Print Assumptions C20_idem.

(** The result contains no non-breaking space, does not start or end with whitespace
    (in particular not with a space), and has no two adjacent spaces. *)
Theorem C20_shape : forall x : pystr,
  ~ In 160%N (norm x) /\
  (forall c r, norm x = c :: r -> is_py_space c = false) /\
  (forall r c, norm x = r ++ [c] -> is_py_space c = false) /\
  (forall a b, norm x <> a ++ 32%N :: 32%N :: b).
Proof. exact C20_shape_l. Qed.
Print Assumptions C20_shape.

(** The words (as [str.split()] sees them) and their order are kept ... *)
Theorem C20_words : forall x : pystr,
  py_split_ws (norm x) = py_split_ws (replace_char 160 32 x).
Proof. exact C20_words_l. Qed.
Print Assumptions C20_words.

(** ... also relative to the original string, U+00A0 being whitespace for [str.split()]. *)
Theorem C20_words_orig : forall x : pystr, py_split_ws (norm x) = py_split_ws x.
Proof. exact C20_words_orig_l. Qed.
Print Assumptions C20_words_orig.

(** The subsequence of non-whitespace characters is unchanged. *)
Theorem C20_nonspace : forall x : pystr,
  filter (fun c => negb (is_py_space c)) (norm x) = filter (fun c => negb (is_py_space c)) x.
Proof. exact C20_nonspace_l. Qed.
Print Assumptions C20_nonspace.

(** Non-vacuity / sanity: a concrete string with every kind of whitespace. *)
Example C20_example :
  norm ([160; 32] ++ s "a" ++ [9; 32; 32; 160] ++ s "b" ++ [10] ++ s "c" ++ [32; 8195])%N
  = (s "a" ++ [32] ++ s "b" ++ [10] ++ s "c")%N.
Proof. vm_compute. reflexivity. Qed.

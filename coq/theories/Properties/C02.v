(* Properties/C02.v — content validation decides exactly as the rule's content constraints
   require.  Only statements; proofs are in Proofs/C02_content.v.
   [validate_content] computes the collecting-mode list; fail-fast mode raises the first
   entry ([ff_of], Model/Rule.v header), so "accepted" is the same fact in both modes.
   The parsers' answers [orc] are universally quantified. *)
From MP Require Import Common.Base Gen.Tables Model.Rule Spec.Content Proofs.C02_content.

(** Table obligations (complete enumeration over the generated tables, every run). *)
Theorem C02_table_known : forallb (fun r => known_content_rules (rr_content_rules (snd r))) rules = true.
Proof. vm_compute. reflexivity. Qed.
Print Assumptions C02_table_known.

(** the names dispatched on by Rule._validate_content are exactly the statement's names *)
Theorem C02_table_dispatch :
  forallb (fun n => smem n (map fst content_rule_names)) (map fst content_dispatch) &&
  forallb (fun n => smem n (map fst content_dispatch)) (map fst content_rule_names) = true.
Proof. vm_compute. reflexivity. Qed.
Print Assumptions C02_table_dispatch.

(** longitude in [-180,180], latitude in [-90,90] *)
Theorem C02_table_ranges : (range_ew, range_ns) = ((-180, 180), (-90, 90))%Z.
Proof. vm_compute. reflexivity. Qed.
Print Assumptions C02_table_ranges.

(** every ValidationError member the code refers to exists *)
Theorem C02_table_codes_used : forallb (fun c => smem c verr_codes) verr_used = true.
Proof. vm_compute. reflexivity. Qed.
Print Assumptions C02_table_codes_used.

(** every code the model can emit is a member of the enumeration *)
Theorem C02_table_codes_emitted : forall e, In (code_of e) verr_codes.
Proof. apply code_of_in. vm_compute. reflexivity. Qed.
Print Assumptions C02_table_codes_emitted.

(** Generic: for every oracle, rule content section, content and child count. *)
Theorem C02_generic : forall orc ranges mixed crs enum c nkids,
  validate_content orc ranges mixed crs enum c nkids = [] <-> content_ok orc ranges mixed crs enum c nkids.
Proof. exact validate_content_accepts_iff. Qed.
Print Assumptions C02_generic.

Theorem C02_generic_failfast : forall orc ranges mixed crs enum c nkids,
  ff_of (Errs (validate_content orc ranges mixed crs enum c nkids)) = FOk <->
  content_ok orc ranges mixed crs enum c nkids.
Proof. exact validate_content_failfast_iff. Qed.
Print Assumptions C02_generic_failfast.

Theorem C02_only_content_errors : forall orc ranges mixed crs enum c nkids,
  known_content_rules crs = true ->
  Forall content_family (validate_content orc ranges mixed crs enum c nkids).
Proof. exact validate_content_family. Qed.
Print Assumptions C02_only_content_errors.

(** For every shipped rule. *)
Theorem C02 : forall orc ranges rn r mixed c nkids, In (rn, r) rules ->
  (validate_content orc ranges mixed (rr_content_rules r) (rr_content_enum r) c nkids = [] <->
   content_ok orc ranges mixed (rr_content_rules r) (rr_content_enum r) c nkids) /\
  Forall content_family (validate_content orc ranges mixed (rr_content_rules r) (rr_content_enum r) c nkids).
Proof. exact (C02_from_table rules C02_table_known). Qed.
Print Assumptions C02.

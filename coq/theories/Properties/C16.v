(* Properties/C16.v — reference expansion substitutes independent copies, atomically.
   Only statements closed by [exact]; proofs are in Proofs/C16_*.v.

   [expand t] is the Gallina model of references.expand (Model/Expand.v) on id-carrying trees:
   [EOk t' rem n] = tree after, ids leaving the registry, number of nodes created (the k-th gets
   the id [fresh k]); [EFail] = ValueError with the tree as it was; [EOutOfScope] = outside the
   property's precondition.  The spec (Spec/ExpandSpec.v): [spec_ok] = every id value occurs once
   and every references content is one of them; [expands src t t'] = every node keeps its record
   and place, each references child is replaced in place by copies ([copy_of]: same shape and
   fields, any ids) of the children of the element it names.  Preconditions: [attrs_wf]
   (attribute keys unique: a dict), [refs_flat] (referenced elements hold no references; none
   nested), [ns_agree] (copies land under an equal namespace map; else add_child adds the
   parent's prefixes to the copy: modelled and checked against the code, stated in C13). *)
From MP Require Import Common.Base Common.Tree Gen.Tables Model.Rule Model.Expand Model.PruneRun Spec.Lang.
From MP Require Import Spec.ExpandSpec Spec.RefShape.
From Coq Require Import Permutation.
From MP Require Import Proofs.C16_Check Proofs.C16_Eq Proofs.C16_Post Proofs.C16_Valid Proofs.C16_Main Proofs.C16_Fresh.

(** Table obligation: every shipped rule that allows "references" has the shape
    Cho [A; El references 1 1] 1 1, optionally followed in a Seq by El role 1 None. *)
Theorem C16_table : forallb (fun p => rule_ref_shape_ok (snd p)) rules = true.
Proof. exact shipped_ref_shapes. Qed.
Print Assumptions C16_table.

(** The check phase is a pure function deciding the spec's resolvability. *)
Theorem C16_check : forall t, attrs_wf t -> check t = if spec_ok t then Some (id_pairs t) else None.
Proof. exact check_spec. Qed.
Print Assumptions C16_check.

(** Resolvable tree within the precondition: the model expands as the spec says. *)
Theorem C16_eq : forall t,
  attrs_wf t -> spec_ok t = true -> refs_flat t = true -> ns_agree t = true ->
  exists t' n, expand t = EOk t' (flat_map ids_of (refs_of t)) n /\ expands (src_kids t) t t'.
Proof. exact expand_ok. Qed.
Print Assumptions C16_eq.

(** An id used twice or a reference naming no id: ValueError, and the tree is the input (the
    model returns no tree on this path; [C16_atomic_check]: the failure is decided by the check
    phase, which computes no tree, before the edit phase runs). *)
Theorem C16_atomic : forall t, attrs_wf t -> spec_ok t = false -> expand t = EFail.
Proof. exact expand_fail. Qed.
Print Assumptions C16_atomic.

Theorem C16_atomic_check : forall t, expand t = EFail -> check t = None.
Proof. exact expand_fail_only_check. Qed.
Print Assumptions C16_atomic_check.

(** No references node is left behind. *)
Theorem C16_no_refs_left : forall t,
  attrs_wf t -> spec_ok t = true -> refs_flat t = true -> ns_agree t = true ->
  forall t' rem n, expand t = EOk t' rem n -> refs_of t' = [].
Proof. exact no_refs_left_l. Qed.
Print Assumptions C16_no_refs_left.

(** Every subtree that holds no references node and is not inside one is still there, unchanged
    (same records, ids included) — in particular every referenced element ([C16_sources]). *)
Theorem C16_sources_unchanged : forall t,
  attrs_wf t -> spec_ok t = true -> refs_flat t = true -> ns_agree t = true ->
  forall t' rem n, expand t = EOk t' rem n ->
  forall x, outside_refs t x -> has_ref x = false -> In x (preorder t').
Proof. exact sources_unchanged_l. Qed.
Print Assumptions C16_sources_unchanged.

Theorem C16_sources : forall t r x,
  refs_flat t = true -> In r (refs_of t) -> target t r = Some x -> has_ref x = false.
Proof. exact flat_target. Qed.
Print Assumptions C16_sources.

(** Id accounting: ids of the result + ids that left the registry = ids of the input + the
    fresh ids, as multisets. *)
Theorem C16_ids : forall t t' rem n,
  attrs_wf t -> refs_flat t = true -> expand t = EOk t' rem n ->
  Permutation (ids_of t' ++ rem) (ids_of t ++ map fresh (seq 0 n)).
Proof. exact expand_ids. Qed.
Print Assumptions C16_ids.

(** The copies' ids are distinct from all old ids and from each other (given a supply that
    avoids the old ids), and no id occurs twice in the result. *)
Theorem C16_copies_fresh : forall t t' rem n,
  attrs_wf t -> refs_flat t = true -> expand t = EOk t' rem n ->
  NoDup (ids_of t) -> (forall k, ~ In (fresh k) (ids_of t)) ->
  NoDup (ids_of t ++ map fresh (seq 0 n)) /\ NoDup (ids_of t') /\
  (forall i, In i (ids_of t') -> In i (ids_of t) \/ exists k, k < n /\ i = fresh k).
Proof. exact expand_fresh. Qed.
Print Assumptions C16_copies_fresh.

(** Validity is preserved — the language-level part (named _partial because it speaks about the
    declared content model only; the tree-level statement [C16_valid_full_statement] below is proved
    from it in Properties/Valid.v as [C16_valid_full]): for a rule of the references shape,
    replacing the references child by the children of an element governed by the same rule
    (whose child names [w_src] are in the language and hold no "references") gives a child
    sequence of the language. *)
Theorem C16_valid_partial : forall mixed top w_ref w_src,
  ref_shape_ok top = true ->
  L mixed top w_ref -> L mixed top w_src -> ~ In REFS_NAME w_src ->
  L mixed top (subst_refs w_ref w_src).
Proof. exact ref_subst_L. Qed.
Print Assumptions C16_valid_partial.

(** ... the child names after expansion are exactly that substitution ... *)
Theorem C16_valid_names : forall src d ks ks' w_src,
  expands src (FT d ks) (FT d ks') ->
  (forall r, In r ks -> is_ref r = true -> map ft_name (src r) = w_src) ->
  map ft_name ks' = subst_refs (map ft_name ks) w_src.
Proof. exact expanded_child_names. Qed.
Print Assumptions C16_valid_names.

(** ... and a copy validates like its source: validation reads [view], which has no ids. *)
Theorem C16_valid_copies : forall c c', copy_of c c' -> view c' = view c.
Proof. exact copy_view. Qed.
Print Assumptions C16_valid_copies.

(** The tree-level statement "validate.tree passes before => passes after".  It is PROVED in
    Properties/Valid.v (work package C01, built and counted with this check) as
    [C16_valid_full] (and [C16_valid_deep] for node-by-node validity including metadata
    content), by combining the three theorems above with C01 (child validation = membership in
    L under greedy_ok), C03 and C05.  The proved statement differs from the shape kept below in
    its hypotheses:
      - the shipped tables [shipped] instead of an arbitrary [tb] (it needs C16_table, C01_table,
        C03_table and "no rule allowing references is a mixed-content rule", all re-proved by
        enumeration of the regenerated tables);
      - the preconditions of C16_eq: [attrs_wf], [spec_ok], [refs_flat], [ns_agree];
      - "same rule" is required for EVERY parent [p] holding a references node [r] that names
        [x] (forall p, not exists p: trees are values, the same subtree value may occur under
        several parents);
      - [metadata_childless t]: validate.tree does not look below metadata while expansion does
        replace references there ([C16_valid_deep] drops this for deep validity).
    The statement is also executed against the implementation by harness/c16.py. *)
Definition C16_valid_full_statement : Prop :=
  forall orc tb t t' rem n,
    validate_tree orc tb (view t) = Errs [] -> expand t = EOk t' rem n ->
    (forall r x, In r (refs_of t) -> target t r = Some x ->
       exists p, In p (preorder t) /\ In r (ft_kids p) /\
                 assoc (ft_name p) (tb_node_map tb) = assoc (ft_name x) (tb_node_map tb)) ->
    validate_tree orc tb (view t') = Errs [].

(** Non-vacuity *)
Example C16_witness :
  spec_ok ex16 = true /\ refs_flat ex16 = true /\ ns_agree ex16 = true /\
  exists t', expand ex16 = EOk t' [s "a1"] 2 /\ map ft_name (ft_kids (nth 1 (ft_kids t') ex16)) = [s "organizationName"; s "phone"; s "role"].
Proof.
  exact (conj (proj1 ex16_hyps) (conj (proj1 (proj2 ex16_hyps)) (conj (proj2 (proj2 ex16_hyps))
         (ex_intro _ _ (conj ex16_expand eq_refl))))).
Qed.

Example C16_witness_fail :
  expand (FT (mk (s "d") (s "dataset") None [(s "id", s "p1")]) (ft_kids ex16)) = EFail.
Proof. exact ex16_dup. Qed.

(* Properties/C14.v — the node registry tracks exactly the live nodes.
   Only statements closed by [exact]; proofs are in Proofs/C14_*.v.

   Model: Model/Registry.v (set/get/delete_node_instance), Model/RegOps.v ([exec_rop]: create,
   copy, attach, replace ± delete_old, delete ± children), Model/Copy.v, Model/HeapEdits.v.
   [uuid] is the uuid1 oracle, assumed injective; explicit ids of a history must be fresh and
   outside the oracle's range ([rop_pre]: "histories that do not deliberately reuse an id").
   A history is a list of operations that all RETURN NORMALLY ([reg_run]); its ghost set D
   collects the node objects the operations are documented to discard ([discards]: the
   subtree of the deleted / replaced node, or the single node for children=False).
   prune / expand / import are checked against the implementation by harness/c14.py only. *)
From MP Require Import Common.Base Common.Tree Model.Heap Model.Namespace Model.Registry
     Model.HeapEdits Model.Copy Model.RegOps Model.HeapRun
     Proofs.HeapInv Proofs.C12_Frame Proofs.C14_Delete Proofs.C14_Inv Proofs.C14_Main Proofs.C14_Examples.

Section C14.
  Variable uuid : nat -> pystr.
  Hypothesis uuid_inj : forall a b, uuid a = uuid b -> a = b.

  (** After ANY history from the empty process: a node object is retrievable by its id iff it
      was created and not discarded (registry domain = created \ discarded); every registry
      entry names a node object carrying that id; ids of distinct node objects never collide. *)
  Theorem C14_inv : forall ops h D,
    reg_run uuid empty_heap (fun _ => False) ops h D ->
    (forall m r, nget h m = Some r -> (get_node_instance h (idstr r) = Some m <-> ~ D m)) /\
    (forall k m, get_node_instance h k = Some m -> exists r, nget h m = Some r /\ idstr r = k) /\
    (forall a b ra rb, nget h a = Some ra -> nget h b = Some rb -> idstr ra = idstr rb -> a = b).
  Proof. exact (registry_tracks_live uuid uuid_inj). Qed.

  (** … as an invariant [G] preserved by every single operation (induction over the history) *)
  Theorem C14_inv_step : forall h D o h',
    G uuid h D -> rop_pre uuid h o -> exec_rop uuid h o = Ok h' -> G uuid h' (fun m => D m \/ discards h o m).
  Proof. exact (G_step uuid uuid_inj). Qed.

  (** delete(id, children) removes exactly the ids of the subtree (children=True) or exactly
      {id} (children=False) from the registry and touches no object *)
  Theorem C14_delete_exact : forall h D i ch h' n,
    G uuid h D -> delete_node_instance (fuel_of h) h i ch = Ok h' -> get_node_instance h i = Some n ->
    same_objs h h' /\
    forall k v, get_node_instance h' k = Some v <->
                (get_node_instance h k = Some v /\ ~ (if ch then sub_ids h n k else k = i)).
  Proof. exact (delete_exact_thm uuid). Qed.

  (** replace with deletion (the replacement not inside the replaced subtree) leaves no
      discarded node registered and unregisters no node outside the replaced subtree *)
  Theorem C14_replace : forall h D par old new h',
    G uuid h D -> rop_pre uuid h (RReplace par old new true) ->
    replace_child (fuel_of h) h par old new true = Ok h' ->
    (forall m, desc h old m -> ~ registered h' m) /\
    (forall m, ~ desc h old m -> registered h m -> registered h' m).
  Proof. exact (replace_thm uuid). Qed.
End C14.

Print Assumptions C14_inv.
Print Assumptions C14_inv_step.
Print Assumptions C14_delete_exact.
Print Assumptions C14_replace.

(** the model operations of these theorems are the script commands the harness evaluates *)
Theorem C14_ops_are_harness_cmds : forall h o, exec_rop canon_uuid h o = exec_cmd h (to_cmd o).
Proof. exact exec_rop_is_cmd. Qed.
Print Assumptions C14_ops_are_harness_cmds.

(** Non-vacuity: a concrete history (create with explicit id, create with uuid, attach, delete
    without children) that satisfies [reg_run]; afterwards "x" is gone and "#1" is registered. *)
Example C14_nonvacuous :
  exists h D, reg_run uuid_ex empty_heap (fun _ => False) ops_ex h D /\
              get_node_instance h (s "x") = None /\ get_node_instance h (uuid_ex 1) = Some 1.
Proof. exact C14_nonvacuous_proof. Qed.
Print Assumptions C14_nonvacuous.

(* Properties/C08.v — XML import mirrors the document; import-export-import is stable.
   Only statements closed by [exact]; proofs are in Proofs/C08_*.v.
   Reading guide: [xel] (Spec/Infoset.v) is the lxml infoset handed to _process_element
   (lxml.etree.fromstring is an oracle); [infoset_ok] and [mirror] (Spec/Mirror.v) are the
   property's document class and the mirrored tree, written from the property text;
   [process_element] (Model/XmlIn.v) is the model of metapype_io._process_element;
   [itree_equiv] is equality of imported trees with the in-scope bindings read as a finite
   map; [policy] is the documented white-space policy. *)
From MP Require Import Common.Base Common.Tree Common.XStr Spec.Xml Spec.XmlSim Spec.Infoset Spec.Mirror
  Model.XmlOut Model.XmlIn Proofs.C08_Policy Proofs.C08_Mirror Proofs.C08_Stable.

(** Import mirrors the infoset: for every infoset of the class, all four (clean, collapse)
    combinations and any literals, the import succeeds and returns the mirror. *)
Theorem C08_mirror : forall clean collapse literals e,
  infoset_ok e ->
  exists t, process_element clean collapse literals e = Ok t
            /\ itree_equiv t (mirror clean collapse literals e)
            /\ i_nsmap (it_d t) = l_nsmap e.
Proof. exact C08_mirror_proof. Qed.
Print Assumptions C08_mirror.

(** the implication is not vacuous, and the class is the one the harness generates
    (infoset_okb is evaluated on every generated in-class document by the check) *)
Theorem C08_mirror_witness : infoset_ok doc_ok /\ uri_prefix_unique doc_ok = true.
Proof. exact doc_ok_in_class. Qed.
Print Assumptions C08_mirror_witness.

(** The model's clean branch is the documented policy, and the policy is idempotent. *)
Theorem clean_is_policy : forall collapse x, clean_opt collapse x = policy true collapse false x.
Proof. exact clean_opt_policy. Qed.
Print Assumptions clean_is_policy.

Theorem clean_idem : forall collapse x, clean_opt collapse (clean_opt collapse x) = clean_opt collapse x.
Proof. exact clean_idem_proof. Qed.
Print Assumptions clean_idem.

Theorem policy_idempotent : forall clean collapse literal x,
  policy clean collapse literal (policy clean collapse literal x) = policy clean collapse literal x.
Proof. exact policy_idem. Qed.
Print Assumptions policy_idempotent.

(** Re-importing a text that equals an imported text b up to surrounding white space (the
    exporter's newline and indentation) gives b again up to surrounding white space. *)
Theorem policy_stable_under_ws : forall clean collapse lit a b,
  policy clean collapse lit b = b ->
  strip a = strip (otext' b) ->
  ws_same (policy clean collapse lit (opt_text a)) b.
Proof. exact policy_ws_stable. Qed.
Print Assumptions policy_stable_under_ws.

(** Stability, partial: the imported tree is the mirror, and if it lies in the exporter's
    class (C07) its export is well-formed and parses back to it up to surrounding white
    space.  Not proved in general: that the model of the import applied to that parse
    result gives the imported tree again ([C08_stable_statement]); it is witnessed below
    for a document with re-declared prefixes, qualified attributes, xml:lang, a comment,
    tails and white-space text, in all four modes, by evaluation of the models. *)
Theorem C08_stable_partial : forall clean collapse literals e t ft,
  infoset_ok e ->
  process_element clean collapse literals e = Ok t ->
  to_ftree t = Some ft -> exportable ft ->
  itree_equiv t (mirror clean collapse literals e)
  /\ exists x, xparse (to_xml_top ft) = Some x /\ sim [] x ft.
Proof. exact C08_stable_partial_proof. Qed.
Print Assumptions C08_stable_partial.

Definition C08_stable_full_statement : Prop := C08_stable_statement.

Theorem C08_stable_witness :
  chain_ok true false doc_ok = true /\ chain_ok true true doc_ok = true
  /\ chain_ok false false doc_ok = true /\ chain_ok false true doc_ok = true.
Proof. exact C08_stable_witness_proof. Qed.
Print Assumptions C08_stable_witness.

(** Known finding C08:stable:alias-prefix-redeclared: outside [uri_prefix_unique] the chain is
    not stable (a:x comes back as b:x). *)
Theorem C08_alias_refuted :
  infoset_ok doc_alias /\ uri_prefix_unique doc_alias = false /\ chain_ok true false doc_alias = false.
Proof. exact C08_alias_refuted_proof. Qed.
Print Assumptions C08_alias_refuted.

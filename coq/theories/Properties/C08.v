(* Properties/C08.v — XML import mirrors the document; import-export-import is stable.
   Only statements closed by [exact]; proofs are in Proofs/C08_*.v.
   Reading guide: [xel] (Spec/Infoset.v) is the lxml infoset handed to _process_element
   (lxml.etree.fromstring is an oracle); [infoset_ok] and [mirror] (Spec/Mirror.v) are the
   property's document class and the mirrored tree, written from the property text;
   [process_element] (Model/XmlIn.v) is the model of metapype_io._process_element;
   [itree_equiv] is equality of imported trees with the in-scope bindings read as a finite
   map; [policy] is the documented white-space policy. *)
From MP Require Import Common.Base Common.Tree Common.XStr Spec.Xml Spec.XmlSim Spec.Infoset Spec.Mirror
  Model.XmlOut Model.XmlIn Proofs.C07_Parse Proofs.C08_Policy Proofs.C08_Mirror Proofs.C08_Stable Proofs.C08_Chain.

(** Import mirrors the infoset: for every infoset of the class, all four (clean, collapse)
    combinations and any literals, the import succeeds and returns the mirror. *)
Theorem C08_mirror : forall clean collapse literals e,
  infoset_ok e ->
  exists t, process_element clean collapse literals e = Ok t
            /\ itree_equiv t (mirror clean collapse literals e)
            /\ i_nsmap (it_d t) = l_nsmap e.
Proof. exact C08_mirror_proof. Qed.
Print Assumptions C08_mirror.

(** the implication is not vacuous, and the class is the one the harness generates
    (infoset_okb is evaluated on every generated in-class document by the check) *)
Theorem C08_mirror_witness : infoset_ok doc_ok /\ uri_prefix_unique doc_ok = true.
Proof. exact doc_ok_in_class. Qed.
Print Assumptions C08_mirror_witness.

(** The model's clean branch is the documented policy, and the policy is idempotent. *)
Theorem clean_is_policy : forall collapse x, clean_opt collapse x = policy true collapse false x.
Proof. exact clean_opt_policy. Qed.
Print Assumptions clean_is_policy.

Theorem clean_idem : forall collapse x, clean_opt collapse (clean_opt collapse x) = clean_opt collapse x.
Proof. exact clean_idem_proof. Qed.
Print Assumptions clean_idem.

Theorem policy_idempotent : forall clean collapse literal x,
  policy clean collapse literal (policy clean collapse literal x) = policy clean collapse literal x.
Proof. exact policy_idem. Qed.
Print Assumptions policy_idempotent.

(** Re-importing a text that equals an imported text b up to surrounding white space (the
    exporter's newline and indentation) gives b again up to surrounding white space. *)
Theorem policy_stable_under_ws : forall clean collapse lit a b,
  policy clean collapse lit b = b ->
  strip a = strip (otext' b) ->
  ws_same (policy clean collapse lit (opt_text a)) b.
Proof. exact policy_ws_stable. Qed.
Print Assumptions policy_stable_under_ws.

(** Stability.  [C08_stable_full_statement] (= Proofs/C08_Stable.v [C08_stable_statement]) is now
    a THEOREM, for all four (clean, collapse) combinations and any literals tuple:
    for an infoset of the document class in which no namespace name of a qualified attribute
    is bound to two prefixes in scope ([uri_prefix_unique]; the alias class is the known finding),
    if the imported tree lies in the exporter's class ([exportable] = the C07 preconditions),
    then exporting it (metapype_io.to_xml), parsing the output (xparse, read as lxml does) and
    importing again with the same flags succeeds and gives the same tree: equal names,
    prefixes, attributes, qualified attributes (same keys), child order; in-scope bindings equal as
    finite maps; content and tail equal up to leading/trailing white space.
    The last clause cannot be sharpened to equality, in raw mode (the exporter's newline and
    indentation are imported) NOR in clean mode ([clean_mode_not_exact]: kept blank text, or the
    text of a literal element, in front of children absorbs the indentation); no restriction on
    literal elements is needed for the white-space version.
    [exportable] is a hypothesis on the imported tree, not derived from the document. *)
Definition C08_stable_full_statement : Prop := C08_stable_statement.

Theorem C08_stable : C08_stable_full_statement.
Proof. exact C08_stable_proof. Qed.
Print Assumptions C08_stable.

(** the same, read off the models: the second import applied to the exact parse result *)
Theorem C08_reimport : forall clean collapse literals ft,
  tree_imp clean collapse literals ft -> n_tail (ft_d ft) = None ->
  exists t2, process_element clean collapse literals (lxml_of [] (layout None 0 ft [])) = Ok t2
             /\ srel t2 ft.
Proof. exact reimport_tree. Qed.
Print Assumptions C08_reimport.

Theorem C08_clean_mode_not_exact :
  infoset_ok doc_blank
  /\ match process_element true false [] doc_blank with
     | Ok t => match reimport true false [] t with
               | Ok t2 => i_content (it_d t) = Some (s " ") /\ i_content (it_d t2) = Some (s "   ")
                          /\ stable_relb t2 t = true
               | Crash _ => False
               end
     | Crash _ => False
     end.
Proof. exact clean_mode_not_exact. Qed.
Print Assumptions C08_clean_mode_not_exact.

(** superseded by C08_stable, kept: the export of an imported tree is well-formed and parses back
    to it up to white space *)
Theorem C08_stable_partial : forall clean collapse literals e t ft,
  infoset_ok e ->
  process_element clean collapse literals e = Ok t ->
  to_ftree t = Some ft -> exportable ft ->
  itree_equiv t (mirror clean collapse literals e)
  /\ exists x, xparse (to_xml_top ft) = Some x /\ sim [] x ft.
Proof. exact C08_stable_partial_proof. Qed.
Print Assumptions C08_stable_partial.

Theorem C08_stable_witness :
  chain_ok true false doc_ok = true /\ chain_ok true true doc_ok = true
  /\ chain_ok false false doc_ok = true /\ chain_ok false true doc_ok = true.
Proof. exact C08_stable_witness_proof. Qed.
Print Assumptions C08_stable_witness.

(** Known finding C08:stable:alias-prefix-redeclared: outside [uri_prefix_unique] the chain is
    not stable (a:x comes back as b:x). *)
Theorem C08_alias_refuted :
  infoset_ok doc_alias /\ uri_prefix_unique doc_alias = false /\ chain_ok true false doc_alias = false.
Proof. exact C08_alias_refuted_proof. Qed.
Print Assumptions C08_alias_refuted.

(* Properties/C08.v — XML import mirrors the document; import-export-import is stable.
   Only statements closed by [exact]; proofs are in Proofs/. *)
From MP Require Import Common.Base Common.Tree Common.XStr Spec.Xml Spec.Infoset Model.XmlIn.

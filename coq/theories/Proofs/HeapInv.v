(* Proofs/HeapInv.v — the forest invariant of the aliasing heap, descendants, and the proof
   that the standard fuel [fuel_of h] (= number of node objects) is never exhausted by a
   recursion over children (pigeonhole on the ancestor chain). *)
From MP Require Import Common.Base Common.Tree Model.Heap.

Definition kids_of (h : heap) (n : nat) : list nat :=
  match nget h n with Some r => kids r | None => [] end.

Definition parent_of (h : heap) (n : nat) : option nat :=
  match nget h n with Some r => parent r | None => None end.

Definition alive (h : heap) (n : nat) : Prop := exists r, nget h n = Some r.

(** [desc h a m]: m is a or a descendant of a *)
Inductive desc (h : heap) (a : nat) : nat -> Prop :=
| desc_refl : desc h a a
| desc_step p m : desc h a p -> In m (kids_of h p) -> desc h a m.

(** the subtree below n has height < k and no dangling child *)
Inductive tree_at (h : heap) : nat -> nat -> Prop :=
| tree_at_intro k n r :
    nget h n = Some r -> (forall c, In c (kids r) -> tree_at h k c) -> tree_at h (S k) n.

(** n has exactly k proper ancestors (so the parent chain ends in a root) *)
Inductive depth (h : heap) : nat -> nat -> Prop :=
| depth_root n r : nget h n = Some r -> parent r = None -> depth h n 0
| depth_step n r p k : nget h n = Some r -> parent r = Some p -> depth h p k -> depth h n (S k).

Record Forest (h : heap) : Prop := {
  f_kid_parent : forall n r c, nget h n = Some r -> In c (kids r) ->
                               exists rc, nget h c = Some rc /\ parent rc = Some n;
  f_parent_kid : forall c rc p, nget h c = Some rc -> parent rc = Some p ->
                                exists rp, nget h p = Some rp /\ In c (kids rp);
  f_kids_nodup : forall n r, nget h n = Some r -> NoDup (kids r);
  f_rooted : forall n r, nget h n = Some r -> exists k, depth h n k
}.

Lemma kids_of_Some h n r : nget h n = Some r -> kids_of h n = kids r.
Proof. unfold kids_of; intros ->; reflexivity. Qed.

Lemma desc_trans h a b c : desc h a b -> desc h b c -> desc h a c.
Proof. intros H1 H2; induction H2; [exact H1 | eapply desc_step; eauto]. Qed.

Lemma desc_kid h a c : In c (kids_of h a) -> desc h a c.
Proof. intro H; eapply desc_step; [apply desc_refl | exact H]. Qed.

Lemma desc_kids_iff h n m :
  desc h n m <-> m = n \/ exists c, In c (kids_of h n) /\ desc h c m.
Proof.
  split.
  - induction 1 as [|p m' Hd IH Hin].
    + left; reflexivity.
    + right. destruct IH as [->|[c [Hc Hcp]]].
      * exists m'; split; [exact Hin | apply desc_refl].
      * exists c; split; [exact Hc | eapply desc_step; eauto].
  - intros [->|[c [Hc Hd]]]; [apply desc_refl|].
    eapply desc_trans; [apply desc_kid; exact Hc | exact Hd].
Qed.

(** ** depth is a function, and bounded by the number of node objects *)
Lemma depth_fun h n k1 : depth h n k1 -> forall k2, depth h n k2 -> k1 = k2.
Proof.
  induction 1 as [n r Hn Hp | n r p k Hn Hp Hd IH]; intros k2 H2; inversion H2; subst; try congruence.
  rewrite Hn in H; injection H as <-. rewrite Hp in H0; injection H0 as <-.
  f_equal; apply IH; assumption.
Qed.

Lemma depth_chain h n k :
  depth h n k ->
  exists l, length l = S k /\ NoDup l /\
            (forall m, In m l -> In m (map fst (nodes h))) /\
            (forall m, In m l -> exists j, depth h m j /\ j <= k).
Proof.
  induction 1 as [n r Hn Hp | n r p k Hn Hp Hd IH].
  - exists [n]; repeat split.
    + constructor; [intros [] | constructor].
    + intros m [<-|[]]. eapply nlookup_In; exact Hn.
    + intros m [<-|[]]. exists 0; split; [econstructor; eauto | lia].
  - destruct IH as [l [Hlen [Hnd [Hal Hdp]]]].
    exists (n :: l); repeat split.
    + simpl; lia.
    + constructor; [|exact Hnd]. intro Hin. destruct (Hdp _ Hin) as [j [Hj Hle]].
      assert (j = S k) by (eapply depth_fun; [exact Hj | econstructor; eauto]). lia.
    + intros m [<-|Hin]; [eapply nlookup_In; exact Hn | apply Hal, Hin].
    + intros m [<-|Hin].
      * exists (S k); split; [econstructor; eauto | lia].
      * destruct (Hdp _ Hin) as [j [Hj Hle]]. exists j; split; [exact Hj | lia].
Qed.

Lemma depth_lt_fuel h n k : depth h n k -> k < fuel_of h.
Proof.
  intro H. destruct (depth_chain _ _ _ H) as [l [Hlen [Hnd [Hal _]]]].
  assert (length l <= length (map fst (nodes h))) by (apply NoDup_incl_length; [exact Hnd | exact Hal]).
  rewrite map_length in H0. unfold fuel_of. lia.
Qed.

Lemma depth_kid h n r c i :
  Forest h -> nget h n = Some r -> In c (kids r) -> depth h n i -> depth h c (S i).
Proof.
  intros F Hn Hc Hd. destruct (f_kid_parent _ F _ _ _ Hn Hc) as [rc [Hrc Hp]].
  econstructor; eauto.
Qed.

Lemma tree_at_from_depth h :
  Forest h -> forall k n i, alive h n -> depth h n i -> fuel_of h <= i + k -> tree_at h k n.
Proof.
  intros F k; induction k as [|k IH]; intros n i [r Hn] Hd Hle.
  - apply depth_lt_fuel in Hd. lia.
  - econstructor; [exact Hn|]. intros c Hc.
    destruct (f_kid_parent _ F _ _ _ Hn Hc) as [rc [Hrc Hp]].
    apply (IH c (S i)).
    + exists rc; exact Hrc.
    + eapply depth_kid; [exact F | exact Hn | exact Hc | exact Hd].
    + lia.
Qed.

(** the standard fuel suffices for every node of a forest *)
Theorem fuel_ok h n : Forest h -> alive h n -> tree_at h (fuel_of h) n.
Proof.
  intros F [r Hn]. destruct (f_rooted _ F _ _ Hn) as [i Hd].
  eapply tree_at_from_depth; eauto; [exists r; exact Hn | lia].
Qed.

Lemma tree_at_alive h k n : tree_at h k n -> alive h n.
Proof. inversion 1; subst; eexists; eauto. Qed.

Lemma tree_at_mono h k n : tree_at h k n -> forall k', k <= k' -> tree_at h k' n.
Proof.
  induction 1 as [k n r Hn Hk IH]; intros k' Hle.
  destruct k' as [|k']; [lia|]. econstructor; [exact Hn|]. intros c Hc. apply IH; [exact Hc | lia].
Qed.

Lemma tree_at_desc h k n : tree_at h k n -> forall m, desc h n m -> alive h m.
Proof.
  intros Ht m Hd. revert k Ht. induction Hd as [|p m Hd IH Hin]; intros k Ht.
  - eapply tree_at_alive; eauto.
  - (* every descendant is reached through tree_at *)
    assert (G : forall a, desc h n a -> exists k', tree_at h k' a).
    { clear - Ht. induction 1 as [|p a Hd IH Hin]; [eauto|].
      destruct IH as [k' Hp]. inversion Hp; subst. rewrite (kids_of_Some _ _ _ H) in Hin. eauto. }
    destruct (G m) as [k' Hm]; [eapply desc_step; eauto|]. eapply tree_at_alive; eauto.
Qed.

(** ** shape equality: two heaps that agree on everything but the ns_loc fields *)
Definition shape (r : nrec) : nrec := set_ns r 0.

Definition shape_eq (h h' : heap) : Prop :=
  forall m, option_map shape (nget h m) = option_map shape (nget h' m).

Lemma shape_eq_refl h : shape_eq h h.
Proof. intro; reflexivity. Qed.

Lemma shape_eq_sym h h' : shape_eq h h' -> shape_eq h' h.
Proof. intros H m; symmetry; apply H. Qed.

Lemma shape_eq_trans h1 h2 h3 : shape_eq h1 h2 -> shape_eq h2 h3 -> shape_eq h1 h3.
Proof. intros H1 H2 m; rewrite H1; apply H2. Qed.

Lemma shape_eq_get h h' m r :
  shape_eq h h' -> nget h m = Some r -> exists r', nget h' m = Some r' /\ shape r' = shape r.
Proof.
  intros H Hm. specialize (H m). rewrite Hm in H. destruct (nget h' m) as [r'|]; simpl in H; [|discriminate].
  exists r'; split; [reflexivity | congruence].
Qed.

Lemma shape_kids r r' : shape r' = shape r -> kids r' = kids r.
Proof. intro H; apply (f_equal kids) in H; exact H. Qed.

Lemma shape_parent r r' : shape r' = shape r -> parent r' = parent r.
Proof. intro H; apply (f_equal parent) in H; exact H. Qed.

Lemma shape_eq_kids_of h h' m : shape_eq h h' -> kids_of h' m = kids_of h m.
Proof.
  intro H. unfold kids_of. specialize (H m).
  destruct (nget h m) as [r|], (nget h' m) as [r'|]; simpl in H; try discriminate; [|reflexivity].
  apply shape_kids; congruence.
Qed.

Lemma shape_eq_desc h h' a m : shape_eq h h' -> desc h a m -> desc h' a m.
Proof.
  intros H; induction 1 as [|p m Hd IH Hin]; [apply desc_refl|].
  eapply desc_step; [exact IH|]. rewrite (shape_eq_kids_of _ _ _ H). exact Hin.
Qed.

Lemma shape_eq_desc_iff h h' a m : shape_eq h h' -> (desc h a m <-> desc h' a m).
Proof. intro H; split; apply shape_eq_desc; [exact H | apply shape_eq_sym, H]. Qed.

Lemma shape_eq_tree_at h h' k n : shape_eq h h' -> tree_at h k n -> tree_at h' k n.
Proof.
  intros H; induction 1 as [k n r Hn Hk IH].
  destruct (shape_eq_get _ _ _ _ H Hn) as [r' [Hn' Hs]].
  econstructor; [exact Hn'|]. rewrite (shape_kids _ _ Hs). exact IH.
Qed.

Lemma shape_eq_depth h h' n k : shape_eq h h' -> depth h n k -> depth h' n k.
Proof.
  intros H; induction 1 as [n r Hn Hp | n r p k Hn Hp Hd IH];
    destruct (shape_eq_get _ _ _ _ H Hn) as [r' [Hn' Hs]].
  - eapply depth_root; [exact Hn' | rewrite (shape_parent _ _ Hs); exact Hp].
  - eapply depth_step; [exact Hn' | rewrite (shape_parent _ _ Hs); exact Hp | exact IH].
Qed.

Lemma shape_eq_Forest h h' : shape_eq h h' -> Forest h -> Forest h'.
Proof.
  intros H F. pose proof (shape_eq_sym _ _ H) as H'. constructor.
  - intros n r' c Hn Hc. destruct (shape_eq_get _ _ _ _ H' Hn) as [r [Hr Hs]].
    rewrite <- (shape_kids _ _ Hs) in Hc.
    destruct (f_kid_parent _ F _ _ _ Hr Hc) as [rc [Hrc Hp]].
    destruct (shape_eq_get _ _ _ _ H Hrc) as [rc' [Hrc' Hs']].
    exists rc'; split; [exact Hrc' | rewrite (shape_parent _ _ Hs'); exact Hp].
  - intros c rc' p Hc Hp. destruct (shape_eq_get _ _ _ _ H' Hc) as [rc [Hrc Hs]].
    rewrite <- (shape_parent _ _ Hs) in Hp.
    destruct (f_parent_kid _ F _ _ _ Hrc Hp) as [rp [Hrp Hin]].
    destruct (shape_eq_get _ _ _ _ H Hrp) as [rp' [Hrp' Hs']].
    exists rp'; split; [exact Hrp' | rewrite (shape_kids _ _ Hs'); exact Hin].
  - intros n r' Hn. destruct (shape_eq_get _ _ _ _ H' Hn) as [r [Hr Hs]].
    rewrite <- (shape_kids _ _ Hs). eapply f_kids_nodup; eauto.
  - intros n r' Hn. destruct (shape_eq_get _ _ _ _ H' Hn) as [r [Hr Hs]].
    destruct (f_rooted _ F _ _ Hr) as [k Hd]. exists k. eapply shape_eq_depth; eauto.
Qed.

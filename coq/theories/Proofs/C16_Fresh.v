(* Proofs/C16_Fresh.v — id accounting of the edit phase: the ids of the result together with
   the ids of the removed references subtrees are the ids of the input together with the
   fresh ids [fresh 0 .. fresh (n-1)], as multisets.  Hence the copies' ids are distinct
   from every old id and from each other, and the result has no duplicate id. *)
From Coq Require Import Permutation FinFun.
From MP Require Import Common.Base Common.Tree Model.Expand Spec.ExpandSpec.
From MP Require Import Proofs.C15_Eq Proofs.C16_Check Proofs.C16_Eq Proofs.C16_Post.

Lemma perm_mix {A} (a1 a2 b1 b2 : list A) : Permutation ((a1 ++ a2) ++ (b1 ++ b2)) ((a1 ++ b1) ++ (a2 ++ b2)).
Proof.
  rewrite <- !app_assoc. apply Permutation_app_head.
  rewrite !app_assoc. apply Permutation_app_tail. apply Permutation_app_comm.
Qed.

Lemma perm_step {A} (a1 a2 b1 b2 c1 c2 d1 d2 : list A) :
  Permutation (a1 ++ b1) (c1 ++ d1) -> Permutation (a2 ++ b2) (c2 ++ d2) ->
  Permutation ((a1 ++ a2) ++ (b1 ++ b2)) ((c1 ++ c2) ++ (d1 ++ d2)).
Proof.
  intros H1 H2. rewrite perm_mix, H1, H2. apply perm_mix.
Qed.

Lemma seq_split n n1 n2 : n <= n1 -> n1 <= n2 -> seq n (n2 - n) = seq n (n1 - n) ++ seq n1 (n2 - n1).
Proof.
  intros H1 H2. replace (n2 - n) with ((n1 - n) + (n2 - n1)) by lia.
  rewrite seq_app. replace (n + (n1 - n)) with n1 by lia. reflexivity.
Qed.

(** no references node below a references node *)
Definition nonest (u : ftree) : Prop := forall r, In r (refs_of u) -> refs_of r = [].

Lemma refs_of_tail d k ks x : In x (refs_of (FT d ks)) -> In x (refs_of (FT d (k :: ks))).
Proof.
  unfold refs_of, descendants. cbn [ft_kids flat_map]. rewrite filter_app. intro H. apply in_or_app. right; exact H.
Qed.

Lemma filter_preorder k : filter is_ref (preorder k) = (if is_ref k then [k] else []) ++ refs_of k.
Proof. rewrite preorder_unfold. cbn [filter]. unfold refs_of. destruct (is_ref k); reflexivity. Qed.

Section Acc.
Variable ids : list (pystr * ftree).

Definition acc (u : ftree) : Prop :=
  forall n, nonest u ->
    n <= snd (expand_tree ids u n) /\
    Permutation (ids_of (fst (expand_tree ids u n)) ++ flat_map ids_of (refs_of u))
                (ids_of u ++ map fresh (seq n (snd (expand_tree ids u n) - n))).

Lemma exp_go_acc d ks : Forall acc ks -> forall n, nonest (FT d ks) ->
  n <= snd (exp_go ids (n_nsmap d) ks n) /\
  Permutation (flat_map ids_of (fst (exp_go ids (n_nsmap d) ks n)) ++
               flat_map ids_of (filter is_ref (flat_map preorder ks)))
              (flat_map ids_of ks ++ map fresh (seq n (snd (exp_go ids (n_nsmap d) ks n) - n))).
Proof.
  induction 1 as [|k r Hk _ IH]; intros n NN.
  - cbn. rewrite Nat.sub_diag. split; [lia | constructor].
  - assert (NNr : nonest (FT d r)) by (intros x Hx; apply NN, refs_of_tail, Hx).
    rewrite exp_go_cons. cbn [flat_map]. rewrite filter_app, filter_preorder, !flat_map_app.
    destruct (pystr_eqb (ft_name k) REFERENCES) eqn:R; cbv zeta;
      change (pystr_eqb (ft_name k) REFERENCES) with (is_ref k) in R; rewrite R.
    + (* a references child: its subtree goes, the copies come *)
      assert (Rk : refs_of k = []) by (apply NN, (refs_of_self d (k :: r) k); [left; reflexivity | exact R]).
      rewrite Rk. cbn [flat_map app]. rewrite !app_nil_r.
      set (src := match source_of ids k with Some s0 => ft_kids s0 | None => [] end).
      destruct (copy_into_ok (n_nsmap d) src n) as (S1 & I1 & _).
      destruct (copy_into (n_nsmap d) src n) as [cs n1]. cbn [fst snd] in *.
      destruct (IH n1 NNr) as (LE & PM).
      destruct (exp_go ids (n_nsmap d) r n1) as [r' n2]. cbn [fst snd] in *.
      split; [lia|].
      rewrite flat_map_app, (seq_split n n1 n2) by lia. rewrite map_app.
      apply perm_step; [|exact PM].
      rewrite I1. replace (n1 - n) with (length (flat_map preorder src)) by lia. apply Permutation_app_comm.
    + assert (NNk : nonest k) by (intros x Hx; apply NN; eapply refs_of_child; [left; reflexivity | exact Hx]).
      destruct (Hk n NNk) as (LE1 & PM1).
      destruct (expand_tree ids k n) as [k' n1]. cbn [fst snd] in *.
      destruct (IH n1 NNr) as (LE & PM).
      destruct (exp_go ids (n_nsmap d) r n1) as [r' n2]. cbn [fst snd] in *.
      split; [lia|].
      cbn [flat_map app]. rewrite (seq_split n n1 n2) by lia. rewrite map_app.
      apply perm_step; assumption.
Qed.

Theorem expand_tree_acc : forall u, acc u.
Proof.
  apply ftree_ind'. intros d ks IH n NN. rewrite expand_tree_unfold.
  destruct (exp_go_acc d ks IH n NN) as (LE & PM).
  destruct (exp_go ids (n_nsmap d) ks n) as [ks' n']. cbn [fst snd] in *.
  split; [exact LE|]. rewrite !ids_of_unfold_m. cbn [app]. apply perm_skip. exact PM.
Qed.

End Acc.

Lemma flat_nonest t : refs_flat t = true -> nonest t.
Proof.
  intros F r Ir. unfold refs_flat in F. rewrite forallb_forall in F. specialize (F r Ir).
  apply andb_true_iff in F. destruct F as [F1 _]. apply negb_true_iff in F1.
  unfold refs_of. induction (descendants r) as [|x l IH]; [reflexivity|].
  cbn [existsb] in F1. apply orb_false_iff in F1. destruct F1 as [A B]. cbn [filter]. rewrite A. apply IH, B.
Qed.

Lemma fresh_inj : Injective fresh.
Proof. intros a b H. unfold fresh in H. inversion H. apply Nat2N.inj. assumption. Qed.

(** ids of the result + ids removed = ids of the input + the fresh ids, as multisets *)
Theorem expand_ids t t' rem n :
  attrs_wf t -> refs_flat t = true -> expand t = EOk t' rem n ->
  Permutation (ids_of t' ++ rem) (ids_of t ++ map fresh (seq 0 n)).
Proof.
  intros W F E. unfold expand in E. rewrite (check_spec t W) in E.
  destruct (spec_ok t); [|discriminate]. rewrite in_scope_spec, F, find_desc_spec in E.
  destruct (expand_tree_acc (id_pairs t) t 0 (flat_nonest t F)) as (_ & PM).
  destruct (expand_tree (id_pairs t) t 0) as [u m]. cbn [fst snd] in PM. inversion E; subst.
  rewrite Nat.sub_0_r in PM. exact PM.
Qed.

(** the copies' ids are new and pairwise distinct; no id occurs twice in the result *)
Theorem expand_fresh t t' rem n :
  attrs_wf t -> refs_flat t = true -> expand t = EOk t' rem n ->
  NoDup (ids_of t) -> (forall k, ~ In (fresh k) (ids_of t)) ->
  NoDup (ids_of t ++ map fresh (seq 0 n)) /\ NoDup (ids_of t') /\
  (forall i, In i (ids_of t') -> In i (ids_of t) \/ exists k, k < n /\ i = fresh k).
Proof.
  intros W F E ND FR. pose proof (expand_ids t t' rem n W F E) as PM.
  assert (N : NoDup (ids_of t ++ map fresh (seq 0 n))).
  { apply NoDup_app_iff. split; [exact ND|]. split.
    - apply Injective_map_NoDup; [exact fresh_inj | apply seq_NoDup].
    - intros x Hx Hf. apply in_map_iff in Hf. destruct Hf as (k & <- & _). exact (FR k Hx). }
  split; [exact N|]. split.
  - apply (Permutation_NoDup (Permutation_sym PM)) in N. apply NoDup_app_iff in N. apply N.
  - intros i Hi. assert (J : In i (ids_of t ++ map fresh (seq 0 n))).
    { eapply Permutation_in; [exact PM|]. apply in_or_app. left; exact Hi. }
    apply in_app_or in J. destruct J as [J|J]; [left; exact J|]. right.
    apply in_map_iff in J. destruct J as (k & <- & Hk). apply in_seq in Hk. exists k. split; [lia | reflexivity].
Qed.

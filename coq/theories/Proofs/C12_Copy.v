(* Proofs/C12_Copy.v — Node.copy() on a tree: the post-condition of the recursive copy, by
   induction on the fuel with an inner induction over the child list. *)
From MP Require Import Common.Base Common.Tree Model.Heap Model.Copy Spec.CopySpec
     Proofs.HeapInv Proofs.DictFacts Proofs.C12_Base.

Section CopyProof.
  Variable uuid : nat -> pystr.
  Hypothesis uuid_inj : forall a b, uuid a = uuid b -> a = b.

  (** ** the dict-copy step *)
  Lemma fresh_dict_nget h n' rc' src m :
    nget (fresh_dict h n' rc' src) m = if Nat.eqb m n' then Some rc' else nget h m.
  Proof. unfold fresh_dict, alloc. rewrite fill_nget, nget_nset. reflexivity. Qed.

  Lemma fresh_dict_next_loc h n' rc' src : next_loc (fresh_dict h n' rc' src) = S (next_loc h).
  Proof. unfold fresh_dict, alloc. rewrite fill_next_loc. reflexivity. Qed.

  Lemma fresh_dict_next_id h n' rc' src : next_id (fresh_dict h n' rc' src) = next_id h.
  Proof. unfold fresh_dict, alloc. rewrite fill_next_id. reflexivity. Qed.

  Lemma fresh_dict_store h n' rc' src : store (fresh_dict h n' rc' src) = store h.
  Proof. unfold fresh_dict, alloc. rewrite fill_store. reflexivity. Qed.

  Lemma fresh_dict_dget h n' rc' src l :
    src < next_loc h -> wf_dict (dget h src) ->
    dget (fresh_dict h n' rc' src) l = if Nat.eqb l (next_loc h) then dget h src else dget h l.
  Proof.
    intros Hs W. unfold fresh_dict.
    pose proof (dget_alloc h []) as E. unfold alloc in *. simpl in E. cbn [fst snd].
    destruct (Nat.eqb l (next_loc h)) eqn:El.
    - apply Nat.eqb_eq in El; subst l. rewrite fill_dget_self, dget_nset, !E, Nat.eqb_refl.
      assert (Nat.eqb src (next_loc h) = false) as -> by (apply Nat.eqb_neq; lia).
      apply fill_items, W.
    - rewrite fill_dget_other by (apply Nat.eqb_neq; exact El). rewrite dget_nset, E, El. reflexivity.
  Qed.

  Lemma fuel_of_nset' hh m rr r0 : nget hh m = Some r0 -> fuel_of (nset hh m rr) = fuel_of hh.
  Proof. intro H. unfold fuel_of, nset; simpl. eapply nupdate_length_present; exact H. Qed.

  (** ** the statements before the loop *)
  Definition head_rec (h : heap) (r : nrec) : nrec :=
    mkN (nm r) (content r) (tail r) (prefix r) (next_loc h) (S (S (next_loc h))) (S (next_loc h)) []
        None (uuid (next_id h)).

  Lemma copy_head_spec h n r :
    HeapWf h -> nget h n = Some r ->
    let h10 := fst (copy_head uuid h r) in
    snd (copy_head uuid h r) = next_id h /\
    next_id h10 = S (next_id h) /\ next_loc h10 = S (S (S (next_loc h))) /\
    (forall m, nget h10 m = if Nat.eqb m (next_id h) then Some (head_rec h r) else nget h m) /\
    (forall l, dget h10 l = if Nat.eqb l (next_loc h) then dget h (attrs_loc r)
                            else if Nat.eqb l (S (next_loc h)) then dget h (ns_loc r)
                            else if Nat.eqb l (S (S (next_loc h))) then dget h (extras_loc r)
                            else dget h l) /\
    store h10 = dict_set (uuid (next_id h)) (next_id h) (store h) /\
    fuel_of h10 = S (fuel_of h).
  Proof.
    intros W Hn. destruct (hw_locs _ W _ _ Hn) as (La & Le & Ln).
    unfold copy_head. cbn [fst snd].
    set (B := next_id h). set (h1 := fst (new_node h r)).
    set (r1 := set_parent (set_idstr r (uuid B)) None). set (h2 := nset h1 B r1).
    set (h3 := set_store h2 (dict_set (idstr r1) B (store h2))).
    set (r2 := set_attrs r1 (next_loc h3)). set (h5 := fresh_dict h3 B r2 (attrs_loc r)).
    set (r3 := set_ns r2 (next_loc h5)). set (h7 := fresh_dict h5 B r3 (ns_loc r)).
    set (r4 := set_extras r3 (next_loc h7)). set (h9 := fresh_dict h7 B r4 (extras_loc r)).
    assert (L3 : next_loc h3 = next_loc h) by reflexivity.
    assert (L5 : next_loc h5 = S (next_loc h)) by (unfold h5; rewrite fresh_dict_next_loc, L3; reflexivity).
    assert (L7 : next_loc h7 = S (S (next_loc h))) by (unfold h7; rewrite fresh_dict_next_loc, L5; reflexivity).
    assert (L9 : next_loc h9 = S (S (S (next_loc h)))) by (unfold h9; rewrite fresh_dict_next_loc, L7; reflexivity).
    assert (D3 : forall l, dget h3 l = dget h l) by reflexivity.
    assert (D5 : forall l, dget h5 l = if Nat.eqb l (next_loc h) then dget h (attrs_loc r) else dget h l).
    { intro l. unfold h5. rewrite fresh_dict_dget; rewrite ?L3, ?D3; auto. apply (hw_dicts _ W). }
    assert (D7 : forall l, dget h7 l = if Nat.eqb l (S (next_loc h)) then dget h (ns_loc r) else dget h5 l).
    { intro l. unfold h7. rewrite fresh_dict_dget; rewrite ?L5.
      - rewrite (D5 (ns_loc r)). assert (Nat.eqb (ns_loc r) (next_loc h) = false) as -> by (apply Nat.eqb_neq; lia). reflexivity.
      - lia.
      - rewrite D5. assert (Nat.eqb (ns_loc r) (next_loc h) = false) as -> by (apply Nat.eqb_neq; lia). apply (hw_dicts _ W). }
    assert (D9 : forall l, dget h9 l = if Nat.eqb l (S (S (next_loc h))) then dget h (extras_loc r) else dget h7 l).
    { assert (X : dget h7 (extras_loc r) = dget h (extras_loc r)).
      { rewrite D7, D5. assert (Nat.eqb (extras_loc r) (S (next_loc h)) = false) as -> by (apply Nat.eqb_neq; lia).
        assert (Nat.eqb (extras_loc r) (next_loc h) = false) as -> by (apply Nat.eqb_neq; lia). reflexivity. }
      intro l. unfold h9. rewrite fresh_dict_dget; rewrite ?L7.
      - rewrite X. reflexivity.
      - lia.
      - rewrite X. apply (hw_dicts _ W). }
    repeat split.
    - change (next_id h9 = S B). unfold h9. rewrite fresh_dict_next_id. unfold h7. rewrite fresh_dict_next_id. unfold h5. rewrite fresh_dict_next_id. reflexivity.
    - exact L9.
    - intro m. rewrite nget_nset. destruct (Nat.eqb m B) eqn:E.
      + unfold head_rec, r4, r3, r2, r1. rewrite L7, L5, L3. reflexivity.
      + unfold h9. rewrite fresh_dict_nget, E. unfold h7. rewrite fresh_dict_nget, E.
        unfold h5. rewrite fresh_dict_nget, E. change (nget h2 m = nget h m). unfold h2.
        rewrite nget_nset, E. unfold h1. pose proof (nget_new_node h r m) as G. fold B in G. rewrite E in G. exact G.
    - intro l. rewrite dget_nset, D9, D7, D5.
      destruct (Nat.eqb l (S (S (next_loc h)))) eqn:E2.
      + apply Nat.eqb_eq in E2; subst l.
        assert (Nat.eqb (S (S (next_loc h))) (next_loc h) = false) as -> by (apply Nat.eqb_neq; lia).
        assert (Nat.eqb (S (S (next_loc h))) (S (next_loc h)) = false) as -> by (apply Nat.eqb_neq; lia). reflexivity.
      + destruct (Nat.eqb l (S (next_loc h))) eqn:E1; [|reflexivity].
        apply Nat.eqb_eq in E1; subst l.
        assert (Nat.eqb (S (next_loc h)) (next_loc h) = false) as -> by (apply Nat.eqb_neq; lia). reflexivity.
    - change (store h9 = dict_set (uuid B) B (store h)). unfold h9. rewrite fresh_dict_store. unfold h7. rewrite fresh_dict_store. unfold h5. rewrite fresh_dict_store. reflexivity.
    - assert (FN : forall hh rr ss, fuel_of (fresh_dict hh B rr ss) = fuel_of (nset hh B rr)).
      { intros. unfold fuel_of, fresh_dict, alloc. rewrite fill_nodes. reflexivity. }
      assert (NB : nget h B = None).
      { destruct (nget h B) as [rb|] eqn:Eb; [|reflexivity]. pose proof (hw_ids _ W _ _ Eb). unfold B in *. lia. }
      assert (F1 : fuel_of h1 = S (fuel_of h)).
      { unfold fuel_of, h1, new_node; simpl. apply nupdate_length_absent. exact NB. }
      assert (G1 : nget h1 B = Some r).
      { unfold h1. pose proof (nget_new_node h r B) as G. fold B in G. rewrite Nat.eqb_refl in G. exact G. }
      assert (F3 : fuel_of h3 = S (fuel_of h)).
      { change (fuel_of h2 = S (fuel_of h)). unfold h2. rewrite (fuel_of_nset' _ _ _ _ G1). exact F1. }
      assert (G3 : nget h3 B = Some r1) by (change (nget h2 B = Some r1); unfold h2; rewrite nget_nset, Nat.eqb_refl; reflexivity).
      assert (F5 : fuel_of h5 = S (fuel_of h)) by (unfold h5; rewrite FN, (fuel_of_nset' _ _ _ _ G3); exact F3).
      assert (G5 : nget h5 B = Some r2) by (unfold h5; rewrite fresh_dict_nget, Nat.eqb_refl; reflexivity).
      assert (F7 : fuel_of h7 = S (fuel_of h)) by (unfold h7; rewrite FN, (fuel_of_nset' _ _ _ _ G5); exact F5).
      assert (G7 : nget h7 B = Some r3) by (unfold h7; rewrite fresh_dict_nget, Nat.eqb_refl; reflexivity).
      assert (F9 : fuel_of h9 = S (fuel_of h)) by (unfold h9; rewrite FN, (fuel_of_nset' _ _ _ _ G7); exact F7).
      assert (G9 : nget h9 B = Some r4) by (unfold h9; rewrite fresh_dict_nget, Nat.eqb_refl; reflexivity).
      rewrite (fuel_of_nset' _ _ _ _ G9). exact F9.
  Qed.

  (** ** post-condition *)

  (** what holds of every node object created by the copy ([B], [L]: allocation pointers at entry) *)
  Definition new_node_ok (B L : nat) (h' : heap) (m : nat) : Prop :=
    exists r, nget h' m = Some r /\ idstr r = uuid m /\ assoc (uuid m) (store h') = Some m /\
      L <= attrs_loc r /\ L <= extras_loc r /\ L <= ns_loc r /\
      (forall c, In c (kids r) -> m < c < next_id h') /\
      (m <> B -> exists p, parent r = Some p /\ B <= p < m /\ In m (kids_of h' p)).

  Record CopyPost (h : heap) (n : nat) (h' : heap) (n' : nat) : Prop := {
    cp_root : n' = next_id h;
    cp_ids : next_id h < next_id h';
    cp_locs : next_loc h <= next_loc h';
    cp_old_nodes : forall m, m < next_id h -> nget h' m = nget h m;
    cp_old_dicts : forall l, l < next_loc h -> dget h' l = dget h l;
    cp_wf : HeapWf h';
    cp_new : forall m, next_id h <= m < next_id h' -> new_node_ok (next_id h) (next_loc h) h' m;
    cp_store : forall k, (forall m, next_id h <= m < next_id h' -> k <> uuid m) ->
                         assoc k (store h') = assoc k (store h);
    cp_reify : forall g t, reify g h n = Some t -> exists t', reify g h' n' = Some t' /\ erase t' = erase t;
    cp_parent : exists r', nget h' n' = Some r' /\ parent r' = None;
    cp_fuel : fuel_of h <= fuel_of h';
    cp_store_nodup : NoDup (keys (store h)) -> NoDup (keys (store h'))
  }.

  Lemma assoc_dict_set_gen {V} (p q : pystr) (v : V) d :
    assoc q (dict_set p v d) = if pystr_eqb q p then Some v else assoc q d.
  Proof.
    induction d as [|[k w] r IH]; simpl.
    - destruct (pystr_eqb q p); reflexivity.
    - destruct (pystr_eqb_reflect p k) as [->|Npk]; simpl.
      + destruct (pystr_eqb q k); reflexivity.
      + rewrite IH. destruct (pystr_eqb_reflect q k) as [->|Nqk]; [|reflexivity].
        destruct (pystr_eqb_reflect k p) as [->|_]; [contradiction | reflexivity].
  Qed.

  Lemma keys_dict_set_in_gen {V} (p : pystr) (v : V) d q :
    In q (keys (dict_set p v d)) <-> q = p \/ In q (keys d).
  Proof.
    induction d as [|[k w] r IH]; simpl.
    - split; [intros [<-|[]]; auto | intros [->|[]]; auto].
    - destruct (pystr_eqb_reflect p k) as [->|N]; simpl.
      + split; [intros [<-|H]; auto | intros [->|[<-|H]]; auto].
      + unfold keys in IH. rewrite IH. split; [intros [<-|[->|H]]; auto | intros [->|[<-|H]]; auto].
  Qed.

  Lemma nodup_dict_set_gen {V} (p : pystr) (v : V) d : NoDup (keys d) -> NoDup (keys (dict_set p v d)).
  Proof.
    induction d as [|[k w] r IH]; simpl; intro H.
    - constructor; [intros [] | constructor].
    - inversion H as [|? ? Hk Hr]; subst. destruct (pystr_eqb_reflect p k) as [->|N]; simpl.
      + constructor; assumption.
      + constructor; [|apply IH, Hr]. intro Hin. apply (keys_dict_set_in_gen p v r k) in Hin.
        destruct Hin as [->|Hin]; [apply N; reflexivity | apply Hk, Hin].
  Qed.

  Lemma desc_range h lo hi x m :
    (forall a, lo <= a < hi -> exists r, nget h a = Some r /\ forall c, In c (kids r) -> a < c < hi) ->
    lo <= x < hi -> desc h x m -> x <= m < hi.
  Proof.
    intros H Hx. induction 1 as [|p m Hd IH Hin]; [lia|].
    destruct (H p) as (r & Hr & Hk); [lia|]. rewrite (kids_of_Some _ _ _ Hr) in Hin.
    specialize (Hk _ Hin). lia.
  Qed.

  Lemma opt_all_rel (f f' : nat -> option ftree) ks cs :
    Forall2 (fun c cc => forall t, f c = Some t -> exists t', f' cc = Some t' /\ erase t' = erase t) ks cs ->
    forall ts, opt_all (map f ks) = Some ts ->
    exists ts', opt_all (map f' cs) = Some ts' /\ map erase ts' = map erase ts.
  Proof.
    induction 1 as [|c cc ks cs R _ IH]; intros ts H; simpl in *.
    - injection H as <-. exists []; auto.
    - destruct (f c) as [t|] eqn:E; [|discriminate].
      destruct (opt_all (map f ks)) as [ts0|] eqn:E0; [|discriminate]. simpl in H. injection H as <-.
      destruct (R t eq_refl) as (t' & E' & Er). destruct (IH ts0 eq_refl) as (ts' & E1 & E2).
      rewrite E', E1. simpl. exists (t' :: ts'); split; [reflexivity|]. simpl. congruence.
  Qed.

  (** the loop invariant ([h], [r]: heap and record of the original at entry of copy_node) *)
  Record LoopInv (h : heap) (r : nrec) (hk : heap) (cs0 : list nat) : Prop := {
    li_wf : HeapWf hk;
    li_old_nodes : forall m, m < next_id h -> nget hk m = nget h m;
    li_old_dicts : forall l, l < next_loc h -> dget hk l = dget h l;
    li_ids : next_id h < next_id hk;
    li_locs : next_loc h <= next_loc hk;
    li_self : nget hk (next_id h) = Some (set_kids (head_rec h r) cs0);
    li_self_store : assoc (uuid (next_id h)) (store hk) = Some (next_id h);
    li_self_kids : forall c, In c cs0 -> next_id h < c < next_id hk;
    li_new : forall m, next_id h < m < next_id hk -> new_node_ok (next_id h) (next_loc h) hk m;
    li_store : forall k, (forall m, next_id h <= m < next_id hk -> k <> uuid m) ->
                         assoc k (store hk) = assoc k (store h);
    li_fuel : fuel_of h <= fuel_of hk;
    li_store_nodup : NoDup (keys (store h)) -> NoDup (keys (store hk))
  }.

  Lemma copy_kids_ok f h r :
    HeapWf h ->
    (forall hk c, tree_at hk f c -> HeapWf hk ->
                  exists h1 cc, copy_node uuid f hk c = Ok (h1, cc) /\ CopyPost hk c h1 cc) ->
    forall ks hk cs0,
      (forall c, In c ks -> tree_at h f c) -> LoopInv h r hk cs0 ->
      exists h' cs, copy_kids (copy_node uuid f) (next_id h) ks hk = Ok h' /\
                    LoopInv h r h' (cs0 ++ cs) /\
                    Forall2 (fun c cc => forall g t, reify g h c = Some t ->
                                          exists t', reify g h' cc = Some t' /\ erase t' = erase t) ks cs /\
                    (forall g x, next_id h < x < next_id hk -> reify g h' x = reify g hk x) /\
                    (forall l, l < next_loc hk -> dget h' l = dget hk l) /\
                    next_id hk <= next_id h'.
  Proof.
    intros W IHf. set (B := next_id h). set (L := next_loc h).
    induction ks as [|c ks IH]; intros hk cs0 Hks LI.
    - exists hk, []. rewrite app_nil_r. simpl.
      split; [reflexivity|]. split; [exact LI|]. split; [constructor|].
      split; [intros; reflexivity|]. split; [intros; reflexivity | lia].
    - simpl.
      assert (Hc : tree_at h f c) by (apply Hks; left; reflexivity).
      pose proof (li_wf _ _ _ _ LI) as Wk.
      (* the original subtree is untouched so far *)
      assert (Old : forall m, desc h c m -> alive h m) by (intros m Hm; eapply tree_at_desc; eauto).
      assert (SBk : same_below h hk c).
      { eapply same_below_frame with (B := B) (L := L); eauto; try apply LI; unfold B, L; lia. }
      assert (Hck : tree_at hk f c).
      { eapply tree_at_frame; [exact Hc|]. intros m Hm. destruct (Old m Hm) as [rm Hrm].
        apply (li_old_nodes _ _ _ _ LI). eapply (hw_ids _ W); eauto. }
      destruct (IHf hk c Hck Wk) as (h1 & cc & R1 & P1). rewrite R1.
      pose proof (cp_root _ _ _ _ P1) as Ecc.
      pose proof (li_ids _ _ _ _ LI) as HB. fold B in HB.
      destruct (cp_new _ _ _ _ P1 cc) as (rcc & Hrcc & Icc & Scc & La & Le & Ln & Kcc & _).
      { pose proof (cp_ids _ _ _ _ P1). lia. }
      rewrite Hrcc. rewrite nget_nset.
      assert (NB : Nat.eqb B cc = false) by (apply Nat.eqb_neq; lia). fold B. rewrite NB.
      assert (HB1 : nget h1 B = Some (set_kids (head_rec h r) cs0)).
      { rewrite (cp_old_nodes _ _ _ _ P1) by lia. apply LI. }
      rewrite HB1.
      set (h2 := nset h1 cc (set_parent rcc (Some B))).
      set (h3 := nset h2 B (set_kids (set_kids (head_rec h r) cs0) (kids (set_kids (head_rec h r) cs0) ++ [cc]))).
      assert (G3 : forall m, nget h3 m = if Nat.eqb m B then Some (set_kids (head_rec h r) (cs0 ++ [cc]))
                                         else if Nat.eqb m cc then Some (set_parent rcc (Some B)) else nget h1 m).
      { intro m. unfold h3, h2. rewrite !nget_nset. reflexivity. }
      assert (D3 : forall l, dget h3 l = dget h1 l) by reflexivity.
      assert (N3 : next_id h3 = next_id h1) by reflexivity.
      assert (L3 : next_loc h3 = next_loc h1) by reflexivity.
      assert (S3 : store h3 = store h1) by reflexivity.
      pose proof (cp_ids _ _ _ _ P1) as I1. pose proof (cp_locs _ _ _ _ P1) as Lo1.
      pose proof (cp_wf _ _ _ _ P1) as W1.
      (* kids_of only grows from hk to h3 *)
      assert (KG : forall p x, In x (kids_of hk p) -> In x (kids_of h3 p)).
      { intros p x Hx. unfold kids_of in *. destruct (nget hk p) as [rp|] eqn:Hp; [|destruct Hx].
        pose proof (hw_ids _ Wk _ _ Hp) as Hlt. rewrite G3.
        destruct (Nat.eqb p B) eqn:EB.
        - apply Nat.eqb_eq in EB; subst p. pose proof (li_self _ _ _ _ LI) as HS. fold B in HS. rewrite HS in Hp. injection Hp as <-.
          simpl in *. apply in_or_app; left; exact Hx.
        - assert (Nat.eqb p cc = false) as -> by (apply Nat.eqb_neq; lia).
          rewrite (cp_old_nodes _ _ _ _ P1) by lia. rewrite Hp. exact Hx. }
      assert (KG1 : forall p x, p <> B -> In x (kids_of h1 p) -> In x (kids_of h3 p)).
      { intros p x Np Hx. unfold kids_of in *. rewrite G3. apply Nat.eqb_neq in Np; rewrite Np.
        destruct (Nat.eqb p cc) eqn:Ec; [|exact Hx]. apply Nat.eqb_eq in Ec; subst p. rewrite Hrcc in Hx. exact Hx. }
      assert (LI3 : LoopInv h r h3 (cs0 ++ [cc])).
      { constructor.
        - constructor.
          + intros m rm Hm. rewrite G3 in Hm. rewrite N3.
            destruct (Nat.eqb m B) eqn:EB; [apply Nat.eqb_eq in EB; lia|].
            destruct (Nat.eqb m cc) eqn:Ec; [apply Nat.eqb_eq in Ec; lia|].
            eapply (hw_ids _ W1); eauto.
          + intros m rm Hm. rewrite G3 in Hm. rewrite L3.
            destruct (Nat.eqb m B) eqn:EB.
            * injection Hm as <-. exact (hw_locs _ W1 _ _ HB1).
            * destruct (Nat.eqb m cc) eqn:Ec; [injection Hm as <-; exact (hw_locs _ W1 _ _ Hrcc) | eapply (hw_locs _ W1); eauto].
          + intro l. rewrite D3. apply (hw_dicts _ W1).
        - intros m Hm. rewrite G3. fold B in Hm.
          assert (Nat.eqb m B = false) as -> by (apply Nat.eqb_neq; lia).
          assert (Nat.eqb m cc = false) as -> by (apply Nat.eqb_neq; lia).
          rewrite (cp_old_nodes _ _ _ _ P1) by lia. apply (li_old_nodes _ _ _ _ LI). exact Hm.
        - intros l Hl. rewrite D3. pose proof (li_locs _ _ _ _ LI).
          rewrite (cp_old_dicts _ _ _ _ P1) by lia. apply (li_old_dicts _ _ _ _ LI). exact Hl.
        - rewrite N3. fold B. lia.
        - rewrite L3. pose proof (li_locs _ _ _ _ LI). lia.
        - rewrite G3. fold B. rewrite Nat.eqb_refl. reflexivity.
        - rewrite S3. rewrite (cp_store _ _ _ _ P1); [apply LI|].
          intros m Hm E. apply uuid_inj in E. fold B in E. lia.
        - intros x Hx. rewrite N3. fold B. apply in_app_or in Hx. destruct Hx as [Hx|[<-|[]]]; [|lia].
          pose proof (li_self_kids _ _ _ _ LI _ Hx). fold B in H. lia.
        - intros m Hm. rewrite N3 in Hm. fold B in Hm. fold B. fold L.
          destruct (Nat.lt_ge_cases m (next_id hk)) as [Lt|Ge].
          + (* created by an earlier iteration *)
            destruct (li_new _ _ _ _ LI m) as (rm & Hrm & Im & Sm & A1 & A2 & A3 & Km & Pm); [fold B; lia|].
            exists rm. split; [|split; [exact Im|split; [|split; [exact A1|split; [exact A2|split; [exact A3|split]]]]]].
            * rewrite G3. assert (Nat.eqb m B = false) as -> by (apply Nat.eqb_neq; lia).
              assert (Nat.eqb m cc = false) as -> by (apply Nat.eqb_neq; lia).
              rewrite (cp_old_nodes _ _ _ _ P1) by lia. exact Hrm.
            * rewrite S3, (cp_store _ _ _ _ P1); [exact Sm|]. intros m' Hm' E. apply uuid_inj in E. lia.
            * intros x Hx. specialize (Km x Hx). rewrite N3. lia.
            * intro Nm. destruct (Pm Nm) as (p & Pp & Rp & Ip). exists p. split; [exact Pp|]. split; [lia|]. apply KG, Ip.
          + (* created by this iteration *)
            destruct (cp_new _ _ _ _ P1 m) as (rm & Hrm & Im & Sm & A1 & A2 & A3 & Km & Pm); [lia|].
            pose proof (li_locs _ _ _ _ LI) as LL. fold L in LL.
            destruct (Nat.eq_dec m cc) as [->|Nc].
            * exists (set_parent rcc (Some B)). rewrite Hrcc in Hrm; injection Hrm as <-.
              split; [rewrite G3; assert (Nat.eqb cc B = false) as -> by (apply Nat.eqb_neq; lia); rewrite Nat.eqb_refl; reflexivity|].
              split; [exact Im|]. split; [rewrite S3; exact Sm|].
              split; [simpl; lia|]. split; [simpl; lia|]. split; [simpl; lia|].
              split; [intros x Hx; rewrite N3; apply (Km x Hx)|].
              intros _. exists B. split; [reflexivity|]. split; [lia|].
              unfold kids_of. rewrite G3, Nat.eqb_refl. simpl. apply in_or_app; right; left; reflexivity.
            * exists rm. split; [|split; [exact Im|split; [rewrite S3; exact Sm|split; [lia|split; [lia|split; [lia|split]]]]]].
              -- rewrite G3. assert (Nat.eqb m B = false) as -> by (apply Nat.eqb_neq; lia).
                 apply Nat.eqb_neq in Nc; rewrite Nc. exact Hrm.
              -- intros x Hx. rewrite N3. apply (Km x Hx).
              -- intros _. destruct Pm as (p & Pp & Rp & Ip); [lia|]. exists p. split; [exact Pp|]. split; [lia|].
                 apply KG1; [lia | exact Ip].
        - intros k Hk. rewrite S3. rewrite (cp_store _ _ _ _ P1).
          + apply (li_store _ _ _ _ LI). intros m Hm. apply Hk. rewrite N3. fold B in Hm. fold B. lia.
          + intros m Hm. apply Hk. rewrite N3. fold B. lia.
        - unfold h3, h2.
          assert (X : nget (nset h1 cc (set_parent rcc (Some B))) B = Some (set_kids (head_rec h r) cs0))
            by (rewrite nget_nset, NB; exact HB1).
          rewrite (fuel_of_nset' _ _ _ _ X), (fuel_of_nset' _ _ _ _ Hrcc).
          pose proof (cp_fuel _ _ _ _ P1). pose proof (li_fuel _ _ _ _ LI). lia.
        - intro ND. rewrite S3. apply (cp_store_nodup _ _ _ _ P1), (li_store_nodup _ _ _ _ LI), ND. }
      destruct (IH h3 (cs0 ++ [cc])) as (h' & cs & R' & LI' & F2 & St & Dd & Nn); [intros; apply Hks; right; assumption | exact LI3|].
      exists h', (cc :: cs). split; [exact R'|]. rewrite <- app_assoc in LI'. simpl in LI'. split; [exact LI'|].
      (* nodes in a range only reach nodes in that range *)
      assert (RangeK : forall a, next_id hk <= a < next_id h1 -> exists ra, nget h1 a = Some ra /\ forall x, In x (kids ra) -> a < x < next_id h1).
      { intros a Ha. destruct (cp_new _ _ _ _ P1 a Ha) as (ra & Hra & _ & _ & _ & _ & _ & Ka & _). eauto. }
      assert (SB13 : same_below h1 h3 cc).
      { intros m Hm. pose proof (desc_range h1 (next_id hk) (next_id h1) cc m RangeK ltac:(lia) Hm) as Rm.
        split; [|intros; rewrite !D3; auto].
        rewrite G3. assert (Nat.eqb m B = false) as -> by (apply Nat.eqb_neq; lia).
        destruct (Nat.eqb m cc) eqn:Ec; [|reflexivity]. apply Nat.eqb_eq in Ec; subst m. rewrite Hrcc. reflexivity. }
      split; [|split; [|split]].
      + constructor; [|exact F2]. intros g t Ht.
        rewrite <- (reify_ext g h hk c SBk) in Ht.
        destruct (cp_reify _ _ _ _ P1 g t Ht) as (t' & Ht' & Er). exists t'; split; [|exact Er].
        rewrite St by (rewrite N3; fold B; lia). rewrite (reify_ext g h1 h3 cc SB13). exact Ht'.
      + intros g x Hx. rewrite St by (rewrite N3; fold B in Hx; fold B; lia).
        apply reify_ext. intros m Hm.
        assert (RangeH : forall a, S B <= a < next_id hk -> exists ra, nget hk a = Some ra /\ forall y, In y (kids ra) -> a < y < next_id hk).
        { intros a Ha. destruct (li_new _ _ _ _ LI a) as (ra & Hra & _ & _ & _ & _ & _ & Ka & _); [fold B; lia | eauto]. }
        fold B in Hx. pose proof (desc_range hk (S B) (next_id hk) x m RangeH ltac:(lia) Hm) as Rm.
        split.
        * rewrite G3. assert (Nat.eqb m B = false) as -> by (apply Nat.eqb_neq; lia).
          assert (Nat.eqb m cc = false) as -> by (apply Nat.eqb_neq; lia).
          rewrite (cp_old_nodes _ _ _ _ P1) by lia. reflexivity.
        * intros rm Hrm. destruct (hw_locs _ Wk _ _ Hrm) as (B1 & B2 & B3).
          rewrite !D3, !(cp_old_dicts _ _ _ _ P1) by lia. auto.
      + intros l Hl. rewrite Dd by (rewrite L3; lia). rewrite D3. apply (cp_old_dicts _ _ _ _ P1), Hl.
      + rewrite N3 in Nn. lia.
  Qed.

  Lemma Forall2_weaken {A B} (P Q : A -> B -> Prop) l l' :
    (forall a b, P a b -> Q a b) -> Forall2 P l l' -> Forall2 Q l l'.
  Proof. intro H; induction 1; constructor; auto. Qed.

  Lemma copy_node_S f h n :
    copy_node uuid (S f) h n =
    match nget h n with
    | None => Crash "dangling node"
    | Some r =>
      let (h10, n') := copy_head uuid h r in
      match copy_kids (copy_node uuid f) n' (kids r) h10 with
      | Ok h11 => Ok (h11, n')
      | Crash k => Crash k
      | OutOfFuel => OutOfFuel
      end
    end.
  Proof. reflexivity. Qed.

  (** ** the recursive copy *)
  Theorem copy_node_ok : forall f h n,
    tree_at h f n -> HeapWf h ->
    exists h' n', copy_node uuid f h n = Ok (h', n') /\ CopyPost h n h' n'.
  Proof.
    induction f as [|f IHf]; intros h n Ht W; [inversion Ht|].
    inversion Ht as [k n0 r Hn Hk]; subst. rewrite copy_node_S, Hn.
    destruct (copy_head_spec h n r W Hn) as (E0 & N10 & L10 & G10 & D10 & S10 & F10).
    destruct (copy_head uuid h r) as [h10 n'] eqn:EH. simpl in E0, N10, L10, G10, D10, S10, F10. subst n'.
    set (B := next_id h) in *. set (L := next_loc h) in *.
    destruct (hw_locs _ W _ _ Hn) as (La & Le & Ln).
    assert (LI0 : LoopInv h r h10 []).
    { constructor.
      - constructor.
        + intros m rm Hm. rewrite G10 in Hm. rewrite N10.
          destruct (Nat.eqb m B) eqn:E; [apply Nat.eqb_eq in E; lia|]. pose proof (hw_ids _ W _ _ Hm). fold B in H. lia.
        + intros m rm Hm. rewrite G10 in Hm. rewrite L10.
          destruct (Nat.eqb m B) eqn:E; [injection Hm as <-; simpl; fold L; lia|].
          destruct (hw_locs _ W _ _ Hm) as (A1 & A2 & A3). fold L in A1, A2, A3. lia.
        + intro l. rewrite D10. destruct (Nat.eqb l L); [apply (hw_dicts _ W)|].
          destruct (Nat.eqb l (S L)); [apply (hw_dicts _ W)|]. destruct (Nat.eqb l (S (S L))); apply (hw_dicts _ W).
      - intros m Hm. rewrite G10. fold B in Hm. assert (Nat.eqb m B = false) as -> by (apply Nat.eqb_neq; lia). reflexivity.
      - intros l Hl. rewrite D10. fold L in Hl.
        assert (Nat.eqb l L = false) as -> by (apply Nat.eqb_neq; lia).
        assert (Nat.eqb l (S L) = false) as -> by (apply Nat.eqb_neq; lia).
        assert (Nat.eqb l (S (S L)) = false) as -> by (apply Nat.eqb_neq; lia). reflexivity.
      - rewrite N10. fold B. lia.
      - rewrite L10. fold L. lia.
      - rewrite G10. fold B. rewrite Nat.eqb_refl. reflexivity.
      - rewrite S10. fold B. rewrite assoc_dict_set_gen, pystr_eqb_refl. reflexivity.
      - intros c [].
      - intros m Hm. rewrite N10 in Hm. fold B in Hm. lia.
      - intros k0 Hk0. rewrite S10, assoc_dict_set_gen.
        destruct (pystr_eqb_reflect k0 (uuid B)) as [->|_]; [|reflexivity].
        exfalso. apply (Hk0 B); [rewrite N10; fold B; lia | reflexivity].
      - rewrite F10. lia.
      - intro ND. rewrite S10. apply nodup_dict_set_gen, ND. }
    destruct (copy_kids_ok f h r W IHf (kids r) h10 [] Hk LI0) as (h' & cs & R & LI & F2 & _ & Dd & Nn).
    fold B in R. rewrite R. simpl in LI. exists h', B. split; [reflexivity|].
    pose proof (li_self _ _ _ _ LI) as HB. fold B in HB.
    constructor.
    - reflexivity.
    - apply LI.
    - apply LI.
    - apply LI.
    - apply LI.
    - apply LI.
    - intros m Hm. fold B in Hm. fold B. fold L. destruct (Nat.eq_dec m B) as [->|Nm].
      + exists (set_kids (head_rec h r) cs). split; [exact HB|]. split; [reflexivity|].
        split; [apply LI|]. simpl. fold L. split; [lia|]. split; [lia|]. split; [lia|].
        split; [apply (li_self_kids _ _ _ _ LI) | intro X; contradiction].
      + apply (li_new _ _ _ _ LI). fold B. lia.
    - apply LI.
    - intros g t Hg. destruct g as [|g]; [discriminate|]. simpl in Hg. rewrite Hn in Hg.
      destruct (opt_all (map (reify g h) (kids r))) as [ts|] eqn:Ets; [|discriminate]. simpl in Hg. injection Hg as <-.
      destruct (opt_all_rel (reify g h) (reify g h') (kids r) cs) with (ts := ts) as (ts' & Ets' & Er).
      { eapply Forall2_weaken; [|exact F2]. intros a b Hab t0 Ht0. apply (Hab g t0 Ht0). }
      { exact Ets. }
      simpl. rewrite HB. simpl. rewrite Ets'. simpl. eexists; split; [reflexivity|].
      simpl. rewrite Er. f_equal. unfold nd_of, erase_nd; simpl. fold L.
      rewrite !Dd by (rewrite L10; fold L; lia). rewrite !D10. rewrite !Nat.eqb_refl.
      assert (Nat.eqb (S L) L = false) as -> by (apply Nat.eqb_neq; lia).
      assert (Nat.eqb (S (S L)) L = false) as -> by (apply Nat.eqb_neq; lia).
      assert (Nat.eqb (S (S L)) (S L) = false) as -> by (apply Nat.eqb_neq; lia).
      reflexivity.
    - exists (set_kids (head_rec h r) cs). auto.
    - apply LI.
    - apply LI.
  Qed.
End CopyProof.

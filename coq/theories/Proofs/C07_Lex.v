(* Proofs/C07_Lex.v — stage 2 of C07: every start tag the general exporter emits is
   re-lexed by the specification parser to the same name and attribute list. *)
From MP Require Import Common.Base Common.Tree Common.XStr Spec.Xml Spec.XmlSim Model.XmlOut Proofs.C07_Escape.
Local Open Scope N_scope.

(** * Character classes *)
Lemma name_start_bounds c : is_name_start c = true ->
  (65 <= c <= 90) \/ c = 95 \/ (97 <= c <= 122) \/ 192 <= c.
Proof.
  unfold is_name_start, in_range.
  rewrite !orb_true_iff, !andb_true_iff, !N.leb_le, N.eqb_eq. lia.
Qed.

Lemma name_start_char c : is_name_start c = true -> is_name_char c = true.
Proof. intro H. unfold is_name_char. rewrite H. reflexivity. Qed.

Lemma name_char_bounds c : is_name_char c = true ->
  c = 45 \/ c = 46 \/ (48 <= c <= 57) \/ (65 <= c <= 90) \/ c = 95 \/ (97 <= c <= 122) \/ 183 <= c.
Proof.
  unfold is_name_char, is_name_start, in_range.
  rewrite !orb_true_iff, !andb_true_iff, !N.leb_le, !N.eqb_eq. lia.
Qed.

Lemma eqb_false_of c k : c <> k -> (c =? k) = false.
Proof. apply N.eqb_neq. Qed.

Lemma name_char_not_ws c : is_name_char c = true -> is_xml_ws c = false.
Proof.
  intro H. apply name_char_bounds in H. unfold is_xml_ws.
  rewrite !eqb_false_of by lia. reflexivity.
Qed.

Lemma name_char_qname c : is_name_char c = true -> is_qname_char c = true.
Proof. intro H. unfold is_qname_char. rewrite H. reflexivity. Qed.

Lemma name_char_not_colon c : is_name_char c = true -> not_colon c = true.
Proof.
  intro H. apply name_char_bounds in H. unfold not_colon. rewrite eqb_false_of by lia. reflexivity.
Qed.

Lemma ncname_chars n : is_ncname n = true -> forallb is_name_char n = true.
Proof.
  destruct n as [|c r]; [discriminate|]. simpl. intro H. apply andb_true_iff in H as [H1 H2].
  rewrite (name_start_char c H1), H2. reflexivity.
Qed.

Lemma forallb_imp {A} (p q : A -> bool) l :
  (forall x, p x = true -> q x = true) -> forallb p l = true -> forallb q l = true.
Proof.
  intro H. induction l as [|x l IH]; simpl; [reflexivity|]. intro E.
  apply andb_true_iff in E as [E1 E2]. rewrite (H x E1), (IH E2). reflexivity.
Qed.

(** * span *)
Lemma span_app p a x r :
  forallb p a = true -> p x = false -> span p (a ++ x :: r) = (a, x :: r).
Proof.
  intros Ha Hx. induction a as [|c a IH]; simpl.
  - rewrite Hx. reflexivity.
  - simpl in Ha. apply andb_true_iff in Ha as [Hc Ha]. rewrite Hc, (IH Ha). reflexivity.
Qed.

Lemma span_all p a : forallb p a = true -> span p a = (a, []).
Proof.
  induction a as [|c a IH]; simpl; [reflexivity|]. intro H.
  apply andb_true_iff in H as [Hc Ha]. rewrite Hc, (IH Ha). reflexivity.
Qed.

(** * Qualified names *)
Lemma split_colon_plain n : is_ncname n = true -> split_colon n = (None, n).
Proof.
  intro H. unfold split_colon.
  rewrite span_all; [reflexivity|].
  apply (forallb_imp is_name_char); [apply name_char_not_colon | apply ncname_chars, H].
Qed.

Lemma split_colon_pfx p n : is_ncname p = true -> split_colon (p ++ 58 :: n) = (Some p, n).
Proof.
  intro H. unfold split_colon. rewrite span_app; [reflexivity| |reflexivity].
  apply (forallb_imp is_name_char); [apply name_char_not_colon | apply ncname_chars, H].
Qed.

Lemma is_qname_plain n : is_ncname n = true -> is_qname n = true.
Proof. intro H. unfold is_qname. rewrite split_colon_plain by exact H. exact H. Qed.

Lemma is_qname_pfx p n : is_ncname p = true -> is_ncname n = true -> is_qname (p ++ 58 :: n) = true.
Proof.
  intros Hp Hn. unfold is_qname. rewrite split_colon_pfx by exact Hp. rewrite Hp, Hn. reflexivity.
Qed.

Lemma qname_chars_plain n : is_ncname n = true -> forallb is_qname_char n = true.
Proof.
  intro H. apply (forallb_imp is_name_char); [apply name_char_qname | apply ncname_chars, H].
Qed.

Lemma qname_chars_pfx p n :
  is_ncname p = true -> is_ncname n = true -> forallb is_qname_char (p ++ 58 :: n) = true.
Proof.
  intros Hp Hn. rewrite forallb_app. rewrite (qname_chars_plain p Hp). simpl.
  rewrite (qname_chars_plain n Hn). reflexivity.
Qed.

(** a printed name: lexically a QName made of QName characters, starting with a name start *)
Definition lex_name (n : pystr) : Prop :=
  is_qname n = true /\ forallb is_qname_char n = true /\
  exists c r, n = c :: r /\ is_name_start c = true.

Lemma lex_name_plain n : is_ncname n = true -> lex_name n.
Proof.
  intro H. split; [apply is_qname_plain, H|]. split; [apply qname_chars_plain, H|].
  destruct n as [|c r]; [discriminate|]. exists c, r. split; [reflexivity|].
  simpl in H. apply andb_true_iff in H as [H _]. exact H.
Qed.

Lemma lex_name_pfx p n : is_ncname p = true -> is_ncname n = true -> lex_name (p ++ 58 :: n).
Proof.
  intros Hp Hn. split; [apply is_qname_pfx; assumption|]. split; [apply qname_chars_pfx; assumption|].
  destruct p as [|c r]; [discriminate|]. exists c, (r ++ 58 :: n). split; [reflexivity|].
  simpl in Hp. apply andb_true_iff in Hp as [H _]. exact H.
Qed.

Lemma take_qname_ok n x r :
  lex_name n -> is_qname_char x = false -> take_qname (n ++ x :: r) = Some (n, x :: r).
Proof.
  intros (Hq & Hc & _) Hx. unfold take_qname. rewrite span_app by assumption. rewrite Hq. reflexivity.
Qed.

(** * Attributes *)
Lemma pattrs_eq f l :
  pattrs (S f) l =
  let (w, r) := span is_xml_ws l in
  match r with
  | [] => None
  | c :: r1 =>
      if c =? 62 then Some ([], false, r1)
      else if c =? 47 then
        match r1 with
        | c2 :: r2 => if c2 =? 62 then Some ([], true, r2) else None
        | [] => None
        end
      else if is_nil w then None
      else
        match take_qname r with
        | None => None
        | Some (n, r2) =>
            match skip_ws r2 with
            | e :: r3 =>
                if e =? 61 then
                  match skip_ws r3 with
                  | q :: r4 =>
                      if (q =? 34) || (q =? 39) then
                        match pattval q DNorm r4 with
                        | Some (v, r5) =>
                            match pattrs f r5 with
                            | Some (al, sc, r6) => Some ((n, v) :: al, sc, r6)
                            | None => None
                            end
                        | None => None
                        end
                      else None
                  | [] => None
                  end
                else None
            | [] => None
            end
        end
  end.
Proof. reflexivity. Qed.

Lemma pattrs_gt f rest : pattrs (S f) (62 :: rest) = Some ([], false, rest).
Proof. reflexivity. Qed.
Lemma pattrs_sc f rest : pattrs (S f) (47 :: 62 :: rest) = Some ([], true, rest).
Proof. reflexivity. Qed.

Definition fmt_sp (a : pystr * pystr) : pystr := sp ++ fmt_attr a.

Lemma pattrs_step f n v l :
  lex_name n ->
  pattrs (S f) (fmt_sp (n, v) ++ l) =
  match pattrs f l with
  | Some (al, sc, r) => Some ((n, v) :: al, sc, r)
  | None => None
  end.
Proof.
  intros Hn. pose proof Hn as (Hq & Hc & c0 & n' & -> & Hs).
  unfold fmt_sp, fmt_attr, sp, dq. cbn [fst snd].
  assert (Hc0 : is_name_char c0 = true) by (apply name_start_char, Hs).
  pose proof (name_start_bounds c0 Hs) as Hb.
  replace (([32] ++ (c0 :: n') ++ [61] ++ [34] ++ escape_attr v ++ [34]) ++ l)
    with (32 :: c0 :: (n' ++ 61 :: 34 :: escape_attr v ++ 34 :: l)).
  2:{ cbn [app]. rewrite <- !app_assoc. cbn [app]. rewrite <- !app_assoc. reflexivity. }
  rewrite pattrs_eq.
  assert (Hsp : span is_xml_ws (32 :: c0 :: n' ++ 61 :: 34 :: escape_attr v ++ 34 :: l)
                = ([32], c0 :: n' ++ 61 :: 34 :: escape_attr v ++ 34 :: l)).
  { cbn [span]. change (is_xml_ws 32) with true. cbv iota.
    rewrite (name_char_not_ws c0 Hc0). reflexivity. }
  rewrite Hsp. cbv beta iota.
  rewrite (eqb_false_of c0 62), (eqb_false_of c0 47) by lia. cbn [is_nil].
  change (c0 :: n' ++ 61 :: 34 :: escape_attr v ++ 34 :: l)
    with ((c0 :: n') ++ 61 :: 34 :: escape_attr v ++ 34 :: l).
  rewrite (take_qname_ok (c0 :: n') 61) by (exact Hn || reflexivity).
  change (skip_ws (61 :: 34 :: escape_attr v ++ 34 :: l)) with (61 :: 34 :: escape_attr v ++ 34 :: l).
  change (61 =? 61) with true. cbv iota.
  change (skip_ws (34 :: escape_attr v ++ 34 :: l)) with (34 :: escape_attr v ++ 34 :: l).
  change ((34 =? 34) || (34 =? 39)) with true. cbv iota.
  rewrite pattval_escape. reflexivity.
Qed.

Lemma pattrs_print al close rest sc :
  Forall (fun a => lex_name (fst a)) al ->
  (close = [62] /\ sc = false \/ close = [47; 62] /\ sc = true) ->
  forall fuel, (length al < fuel)%nat ->
  pattrs fuel (flat_map fmt_sp al ++ close ++ rest) = Some (al, sc, rest).
Proof.
  intros Hal Hclose. induction Hal as [|[n v] al Hn _ IH]; intros fuel Hf.
  - destruct fuel as [|f]; [inversion Hf|]. cbn [flat_map app].
    destruct Hclose as [[-> ->]|[-> ->]]; [apply pattrs_gt | apply pattrs_sc].
  - destruct fuel as [|f]; [inversion Hf|]. cbn [flat_map]. rewrite <- app_assoc.
    rewrite pattrs_step by exact Hn. rewrite IH by (simpl in Hf; lia). reflexivity.
Qed.

(** * The attribute string of metapype_io.to_xml *)
Definition J (l : list pystr) : pystr := flat_map (fun x => sp ++ x) l.

Definition head_ok (x : pystr) : Prop :=
  match x with c :: _ => is_py_space c = false | [] => False end.

Lemma lstrip_head_ok x : head_ok x -> lstrip x = x.
Proof. destruct x as [|c r]; [intros []|]. simpl. intro H. rewrite H. reflexivity. Qed.

Lemma join_J x l : join sp (x :: l) = x ++ J l.
Proof.
  revert x. induction l as [|y l IH]; intro x.
  - simpl. rewrite app_nil_r. reflexivity.
  - change (join sp (x :: y :: l)) with (x ++ sp ++ join sp (y :: l)). rewrite IH. reflexivity.
Qed.

Lemma J_app a b : J (a ++ b) = J a ++ J b.
Proof. apply flat_map_app. Qed.

Lemma nonempty_app_l {A} (a b : list A) : nonempty a = true -> nonempty (a ++ b) = true.
Proof. destruct a; [discriminate | reflexivity]. Qed.

Lemma assemble F G H :
  Forall head_ok (F ++ G ++ H) ->
  let a0 := if nonempty F then join sp F else [] in
  let a1 := if nonempty G then a0 ++ sp ++ join sp G else a0 in
  let a2 := if nonempty H then a1 ++ sp ++ join sp H else a1 in
  (if nonempty a2 then sp ++ lstrip a2 else a2) = J (F ++ G ++ H).
Proof.
  intros Hok a0 a1 a2.
  assert (HG : (if nonempty G then sp ++ join sp G else []) = J G).
  { destruct G as [|g G]; [reflexivity|]. rewrite join_J. reflexivity. }
  assert (HH : (if nonempty H then sp ++ join sp H else []) = J H).
  { destruct H as [|h H]; [reflexivity|]. rewrite join_J. reflexivity. }
  destruct F as [|f F].
  - (* no plain attributes: the string starts with a space that lstrip removes again *)
    assert (E1 : a1 = J G).
    { subst a1 a0. cbn [nonempty is_nil negb]. destruct G; [reflexivity|]. cbn [nonempty is_nil negb app].
      rewrite join_J. reflexivity. }
    assert (E2 : a2 = J (G ++ H)).
    { subst a2. rewrite E1, J_app. destruct H as [|h H]; [cbn; rewrite app_nil_r; reflexivity|].
      cbn [nonempty is_nil negb]. rewrite join_J. reflexivity. }
    cbn [app]. cbn [app] in Hok. rewrite E2.
    destruct (G ++ H) as [|x L] eqn:EL; [reflexivity|].
    try rewrite EL in Hok. inversion Hok as [|? ? Hx _]; subst.
    unfold J. cbn [flat_map]. unfold sp. cbn [app nonempty is_nil negb lstrip].
    change (is_py_space 32) with true. cbv iota.
    destruct x as [|c x]; [destruct Hx|]. cbn [app lstrip]. unfold head_ok in Hx. rewrite Hx. reflexivity.
  - assert (E0 : sp ++ a0 = J (f :: F)).
    { subst a0. cbn [nonempty is_nil negb]. rewrite join_J. reflexivity. }
    assert (E1 : sp ++ a1 = J ((f :: F) ++ G)).
    { subst a1. rewrite J_app, <- E0.
      destruct G as [|g G]; [unfold J; cbn [nonempty is_nil negb flat_map]; rewrite app_nil_r; reflexivity|].
      cbn [nonempty is_nil negb]. rewrite join_J, <- !app_assoc. reflexivity. }
    assert (E2 : sp ++ a2 = J ((f :: F) ++ G ++ H)).
    { subst a2. rewrite (app_assoc (f :: F) G H), (J_app ((f :: F) ++ G) H), <- E1.
      destruct H as [|h H]; [unfold J; cbn [nonempty is_nil negb flat_map]; rewrite app_nil_r; reflexivity|].
      cbn [nonempty is_nil negb]. rewrite join_J, <- !app_assoc. reflexivity. }
    rewrite <- E2.
    inversion Hok as [|? ? Hf _]; subst.
    assert (Ha2 : exists c r, a2 = c :: r /\ is_py_space c = false).
    { destruct f as [|c f]; [destruct Hf|]. unfold head_ok in Hf.
      assert (Ea0 : exists r, a0 = c :: r).
      { subst a0. cbn [nonempty is_nil negb]. rewrite join_J. cbn [app]. eauto. }
      destruct Ea0 as [r0 Ea0].
      assert (Ea1 : exists r, a1 = c :: r).
      { subst a1. rewrite Ea0. destruct (nonempty G); cbn [app]; eauto. }
      destruct Ea1 as [r1 Ea1].
      subst a2. rewrite Ea1. destruct (nonempty H); cbn [app]; eauto. }
    destruct Ha2 as (c & r & -> & Hc). cbn [nonempty is_nil negb lstrip]. rewrite Hc. reflexivity.
Qed.

(** the attributes a start tag carries, in document order: the node's attributes, the
    namespace declarations it emits, its qualified attributes *)
Definition emitted_decls (parent : option (list (pystr * pystr))) (d : nd) : list (pystr * pystr) :=
  match parent with
  | None => n_nsmap d
  | Some pm => if negb (dict_eq_unord (n_nsmap d) pm) then nsp_unique (n_nsmap d) pm else []
  end.

Definition decl_attr (kv : pystr * pystr) : pystr * pystr := (s "xmlns:" ++ fst kv, snd kv).

Definition all_attrs (parent : option (list (pystr * pystr))) (d : nd) : list (pystr * pystr) :=
  n_attrs d ++ map decl_attr (emitted_decls parent d) ++ n_extras d.

Lemma nonempty_map {A B} (f : A -> B) l : nonempty (map f l) = nonempty l.
Proof. destruct l; reflexivity. Qed.

Lemma fmt_ns_decl kv : fmt_ns kv = fmt_attr (decl_attr kv).
Proof. unfold fmt_ns, fmt_attr, decl_attr. cbn [fst snd]. rewrite <- app_assoc. reflexivity. Qed.

Lemma J_map_fmt l : J (map fmt_attr l) = flat_map fmt_sp l.
Proof. unfold J. induction l as [|a l IH]; [reflexivity|]. cbn [map flat_map]. rewrite IH. reflexivity. Qed.

Lemma attr_string_eq parent d :
  Forall (fun kv => head_ok (fst kv)) (n_attrs d) ->
  Forall (fun kv => head_ok (fst kv)) (n_extras d) ->
  attr_string parent false d = flat_map fmt_sp (all_attrs parent d).
Proof.
  intros HA HE. unfold all_attrs. rewrite <- J_map_fmt, !map_app, map_map.
  rewrite (map_ext (fun x => fmt_attr (decl_attr x)) fmt_ns) by (intro; symmetry; apply fmt_ns_decl).
  rewrite <- (assemble (map fmt_attr (n_attrs d)) (map fmt_ns (emitted_decls parent d))
                       (map fmt_attr (n_extras d))).
  - unfold attr_string. rewrite !nonempty_map.
    destruct parent as [pm|]; cbn [emitted_decls].
    + destruct (negb (dict_eq_unord (n_nsmap d) pm)) eqn:E; cbn [negb].
      * reflexivity.
      * cbn [map nonempty is_nil negb]. reflexivity.
    + reflexivity.
  - rewrite !Forall_app. repeat split.
    + apply Forall_map. eapply Forall_impl; [|exact HA]. intros [k v] Hk. cbn [fst] in Hk.
      unfold fmt_attr. cbn [fst]. destruct k; [destruct Hk|exact Hk].
    + apply Forall_map. apply Forall_forall. intros kv _. unfold fmt_ns. reflexivity.
    + apply Forall_map. eapply Forall_impl; [|exact HE]. intros [k v] Hk. cbn [fst] in Hk.
      unfold fmt_attr. cbn [fst]. destruct k; [destruct Hk|exact Hk].
Qed.

(** * The attribute names of a start tag are pairwise distinct *)
Lemma nodup_keys_NoDup l : nodup_keys l = true <-> NoDup l.
Proof.
  induction l as [|k l IH]; simpl.
  - split; [constructor | reflexivity].
  - rewrite andb_true_iff, negb_true_iff, smem_false, IH. split.
    + intros [H1 H2]; constructor; assumption.
    + intro H; inversion H; subst; split; assumption.
Qed.

Lemma NoDup_app' {A} (a b : list A) :
  NoDup a -> NoDup b -> (forall x, In x a -> ~ In x b) -> NoDup (a ++ b).
Proof.
  intros Ha Hb Hd. induction Ha as [|x a Hx Ha IH]; simpl; [exact Hb|].
  constructor.
  - intro Hin. apply in_app_or in Hin as [Hin|Hin]; [exact (Hx Hin)|].
    exact (Hd x (or_introl eq_refl) Hin).
  - apply IH. intros y Hy. apply Hd. right. exact Hy.
Qed.

Lemma NoDup_map_inj {A B} (f : A -> B) l :
  (forall x y, f x = f y -> x = y) -> NoDup l -> NoDup (map f l).
Proof.
  intros Hinj Hl. induction Hl as [|x l Hx Hl IH]; simpl; constructor.
  - intro Hin. apply in_map_iff in Hin as (y & Hy & Hin). apply Hinj in Hy. subst. exact (Hx Hin).
  - exact IH.
Qed.

Lemma NoDup_keys_filter {V} (f : pystr * V -> bool) (m : list (pystr * V)) :
  NoDup (keys m) -> NoDup (keys (filter f m)).
Proof.
  unfold keys. induction m as [|kv m IH]; simpl; [constructor|]. intro H. inversion H as [|? ? Hx Hm]; subst.
  destruct (f kv); simpl.
  - constructor; [|exact (IH Hm)]. intro Hin. apply Hx.
    apply in_map_iff in Hin as (y & Hy & Hin). apply filter_In in Hin as [Hin _].
    apply in_map_iff. exists y. split; assumption.
  - exact (IH Hm).
Qed.

Lemma split_colon_inv k p l : split_colon k = (Some p, l) -> k = p ++ 58 :: l.
Proof.
  unfold split_colon.
  assert (G : forall k a b, span not_colon k = (a, b) ->
              k = a ++ b /\ match b with c :: _ => c = 58 | [] => True end).
  { clear. induction k as [|c k IH]; intros a b; simpl.
    - intros [= <- <-]. split; reflexivity.
    - destruct (not_colon c) eqn:Ec.
      + destruct (span not_colon k) as [a' b'] eqn:E. intros [= <- <-].
        destruct (IH a' b' eq_refl) as [-> Hb]. split; [reflexivity|exact Hb].
      + intros [= <- <-]. split; [reflexivity|]. unfold not_colon in Ec.
        apply negb_false_iff, N.eqb_eq in Ec. exact Ec. }
  destruct (span not_colon k) as [a b] eqn:E. destruct (G k a b E) as [-> Hb].
  destruct b as [|c b']; [discriminate|]. intros [= <- <-]. subst c. reflexivity.
Qed.

Definition xmlns_colon : pystr := s "xmlns:".

Lemma split_colon_decl k : split_colon (xmlns_colon ++ k) = (Some xmlns_str, k).
Proof. change (xmlns_colon ++ k) with (xmlns_str ++ 58 :: k). apply split_colon_pfx. reflexivity. Qed.

Lemma app_inv_head' {A} (a b c : list A) : a ++ b = a ++ c -> b = c.
Proof. apply app_inv_head. Qed.

(** the lexical side conditions on a node, all consequences of the property's preconditions *)
Record lex_ok (d : nd) : Prop := {
  lx_name : is_ncname (n_name d) = true;
  lx_prefix : match n_prefix d with None => True | Some p => is_ncname p = true end;
  lx_attrs : Forall (fun kv => attr_name_ok (fst kv) = true) (n_attrs d);
  lx_nsmap : Forall (fun kv => is_ncname (fst kv) = true) (n_nsmap d);
  lx_extras : Forall (fun kv => exists p l, split_colon (fst kv) = (Some p, l) /\ xml_name p = true
                                            /\ is_ncname l = true /\ p <> xmlns_str) (n_extras d);
  lx_nd_attrs : NoDup (keys (n_attrs d));
  lx_nd_nsmap : NoDup (keys (n_nsmap d));
  lx_nd_extras : NoDup (keys (n_extras d))
}.

Lemma xml_name_ncname n : xml_name n = true -> is_ncname n = true.
Proof. unfold xml_name. intro H. apply andb_true_iff in H as [H _]. exact H. Qed.

Lemma xml_name_head n : xml_name n = true -> head_ok n.
Proof.
  unfold xml_name. intro H. apply andb_true_iff in H as [H1 H2].
  destruct n as [|c r]; [discriminate|]. simpl in H2. apply negb_true_iff in H2. exact H2.
Qed.

Lemma emitted_incl parent d : incl (emitted_decls parent d) (n_nsmap d).
Proof.
  unfold emitted_decls. destruct parent as [pm|]; [|apply incl_refl].
  destruct (negb _); [|intros x []]. unfold nsp_unique. intros x Hx. apply filter_In in Hx as [Hx _]. exact Hx.
Qed.

Lemma emitted_nodup parent d : NoDup (keys (n_nsmap d)) -> NoDup (keys (emitted_decls parent d)).
Proof.
  intro H. unfold emitted_decls. destruct parent as [pm|]; [|exact H].
  destruct (negb _); [|constructor]. apply NoDup_keys_filter. exact H.
Qed.

Lemma all_attrs_lex parent d : lex_ok d -> Forall (fun a => lex_name (fst a)) (all_attrs parent d).
Proof.
  intros L. unfold all_attrs. rewrite !Forall_app. repeat split.
  - eapply Forall_impl; [|exact (lx_attrs d L)]. intros [k v] H. cbn [fst] in *.
    unfold attr_name_ok in H. apply andb_true_iff in H as [H _].
    apply lex_name_plain, xml_name_ncname, H.
  - apply Forall_map. apply Forall_forall. intros [k v] Hin. unfold decl_attr. cbn [fst snd].
    apply (lex_name_pfx xmlns_str k); [reflexivity|].
    pose proof (lx_nsmap d L) as Hn. rewrite Forall_forall in Hn.
    exact (Hn (k, v) (emitted_incl parent d _ Hin)).
  - eapply Forall_impl; [|exact (lx_extras d L)]. intros [k v] (p & l & Hs & Hp & Hl & _). cbn [fst] in *.
    rewrite (split_colon_inv k p l Hs). apply lex_name_pfx; [apply xml_name_ncname, Hp | exact Hl].
Qed.

Lemma all_attrs_nodup parent d : lex_ok d -> nodup_keys (map fst (all_attrs parent d)) = true.
Proof.
  intro L. apply nodup_keys_NoDup. unfold all_attrs. rewrite !map_app.
  (* classify a name by what stands before its first colon *)
  assert (CA : forall k, In k (map fst (n_attrs d)) -> fst (split_colon k) = None).
  { intros k Hin. apply in_map_iff in Hin as ([k' v] & <- & Hin). cbn [fst].
    pose proof (lx_attrs d L) as H. rewrite Forall_forall in H. specialize (H _ Hin). cbn [fst] in H.
    unfold attr_name_ok in H. apply andb_true_iff in H as [H _].
    rewrite split_colon_plain by (apply xml_name_ncname, H). reflexivity. }
  assert (CD : forall k, In k (map fst (map decl_attr (emitted_decls parent d))) ->
                         fst (split_colon k) = Some xmlns_str).
  { intros k Hin. rewrite map_map in Hin. apply in_map_iff in Hin as ([k' v] & <- & Hin).
    unfold decl_attr. cbn [fst]. fold xmlns_colon. rewrite split_colon_decl. reflexivity. }
  assert (CE : forall k, In k (map fst (n_extras d)) ->
                         exists p, fst (split_colon k) = Some p /\ p <> xmlns_str).
  { intros k Hin. apply in_map_iff in Hin as ([k' v] & <- & Hin). cbn [fst].
    pose proof (lx_extras d L) as H. rewrite Forall_forall in H.
    destruct (H _ Hin) as (p & l & Hs & _ & _ & Hne). cbn [fst] in Hs. rewrite Hs. exists p. split; [reflexivity|exact Hne]. }
  apply NoDup_app'.
  - exact (lx_nd_attrs d L).
  - apply NoDup_app'.
    + rewrite map_map. unfold decl_attr. cbn [fst].
      rewrite <- (map_map fst (fun k => s "xmlns:" ++ k)).
      apply NoDup_map_inj; [intros x y; apply app_inv_head|].
      exact (emitted_nodup parent d (lx_nd_nsmap d L)).
    + exact (lx_nd_extras d L).
    + intros k Hk Hk'. apply CD in Hk. destruct (CE k Hk') as (p & Hp & Hne). congruence.
  - intros k Hk Hk'. apply CA in Hk. apply in_app_or in Hk' as [Hk'|Hk'].
    + apply CD in Hk'. congruence.
    + destruct (CE k Hk') as (p & Hp & _). congruence.
Qed.

Lemma tag_lex d : lex_ok d -> lex_name (tag_of d).
Proof.
  intro L. unfold tag_of. pose proof (lx_prefix d L) as Hp. destruct (n_prefix d) as [p|].
  - apply (lex_name_pfx p (n_name d) Hp (lx_name d L)).
  - apply lex_name_plain, (lx_name d L).
Qed.

(** * Start tags *)
Lemma ptag_print parent d close rest sc :
  lex_ok d ->
  (close = [62] /\ sc = false \/ close = [47; 62] /\ sc = true) ->
  ptag (tag_of d ++ attr_string parent false d ++ close ++ rest)
  = Some (tag_of d, all_attrs parent d, sc, rest).
Proof.
  intros L Hclose. unfold ptag.
  assert (HA : Forall (fun kv : pystr * pystr => head_ok (fst kv)) (n_attrs d)).
  { eapply Forall_impl; [|exact (lx_attrs d L)]. intros [k v] H. cbn [fst] in *.
    unfold attr_name_ok in H. apply andb_true_iff in H as [H _]. apply xml_name_head, H. }
  assert (HE : Forall (fun kv : pystr * pystr => head_ok (fst kv)) (n_extras d)).
  { eapply Forall_impl; [|exact (lx_extras d L)]. intros [k v] (p & l & Hs & Hp & _). cbn [fst] in *.
    rewrite (split_colon_inv k p l Hs). apply xml_name_head in Hp.
    destruct p; [destruct Hp | exact Hp]. }
  rewrite (attr_string_eq parent d HA HE).
  set (al := all_attrs parent d).
  (* what follows the name is a space, a greater-than sign or a slash: never a name character *)
  assert (Hnext : exists x r, flat_map fmt_sp al ++ close ++ rest = x :: r /\ is_qname_char x = false).
  { destruct al as [|a al'].
    - cbn [flat_map app]. destruct Hclose as [[-> _]|[-> _]]; cbn [app]; eexists _, _; split; reflexivity.
    - cbn [flat_map]. unfold fmt_sp at 1. unfold sp. cbn [app]. eexists _, _; split; reflexivity. }
  destruct Hnext as (x & r & Er & Hx).
  rewrite Er, (take_qname_ok (tag_of d) x r (tag_lex d L) Hx), <- Er.
  rewrite (pattrs_print al close rest sc (all_attrs_lex parent d L) Hclose).
  - subst al. rewrite (all_attrs_nodup parent d L). reflexivity.
  - rewrite !app_length. destruct Hclose as [[-> _]|[-> _]]; simpl;
      (assert (Hlen : (length al <= length (flat_map fmt_sp al))%nat);
       [clear; induction al as [|a al IH]; simpl; [lia|]; rewrite app_length; simpl; lia | lia]).
Qed.

(** C07_lexical: both shapes of start tag the general exporter writes are read back as
    the node's qualified name and exactly the attribute list it carries *)
Theorem C07_lexical_stmt parent d rest :
  lex_ok d ->
  ptag (tag_of d ++ attr_string parent false d ++ [62] ++ rest)
    = Some (tag_of d, all_attrs parent d, false, rest)
  /\ ptag (tag_of d ++ attr_string parent false d ++ s "/>" ++ rest)
    = Some (tag_of d, all_attrs parent d, true, rest).
Proof.
  intro L. split; apply ptag_print; auto.
Qed.

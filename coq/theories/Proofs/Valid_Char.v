(* Proofs/Valid_Char.v — the link between whole-tree validation and the per-node DECLARATIVE
   specs, proved once: validate.tree accepts a tree exactly when every node that is not below
   a metadata element is [node_valid] — known name, content constraints (Spec/Content.v),
   attribute constraints (Spec/Attr.v) and child names in the rule's language (Spec/Lang.v),
   a metadata element having at most one child instead.
   Composition of C05 (tree = nodes), C02 (content), C03 (attributes), C01 (children). *)
From MP Require Import Common.Base Gen.Tables Model.Rule
  Spec.TreeVal Spec.Content Spec.Attr Spec.Lang Spec.GreedyOk
  Proofs.C05_tree Proofs.C02_content Proofs.C03_attrs
  Proofs.C01_Total Proofs.C01_Main Proofs.C01_Table.

(** * The declarative notion of a valid node, for any tables *)
Definition node_valid_tb (orc : pystr -> oans) (tb : tables) (n : tree) : Prop :=
  exists rn r top,
    assoc (t_name n) (tb_node_map tb) = Some rn /\
    assoc rn (tb_rules tb) = Some r /\
    parse_children (rr_children r) = Some top /\
    content_ok orc (tb_ranges tb) (smem rn (tb_mixed tb)) (rr_content_rules r) (rr_content_enum r)
               (t_content n) (length (t_kids n)) /\
    attrs_ok (rr_attrs r) (t_attrs n) /\
    (if is_metadata (t_name n) then length (t_kids n) <= 1
     else allowed_names top (map t_name (t_kids n)) /\
          Ltop (smem rn (tb_mixed tb)) top (map t_name (t_kids n))).

(** the table obligations the composition rests on (C01_table, C03_table) *)
Definition rules_ok (tb : tables) : bool :=
  forallb (fun p => greedy_ok_raw (snd p) && wf_attrs (rr_attrs (snd p))) (tb_rules tb).

Lemma validate_children_metadata top mixed w :
  validate_children top mixed METADATA w = Some [] <-> length w <= 1.
Proof.
  unfold validate_children. rewrite pystr_eqb_refl.
  destruct (Nat.ltb 1 (length w)) eqn:E.
  - apply Nat.ltb_lt in E. split; [discriminate | lia].
  - apply Nat.ltb_ge in E. split; [intros _; exact E | reflexivity].
Qed.

Lemma is_metadata_spec n : is_metadata n = true <-> n = METADATA.
Proof. unfold is_metadata. change (s "metadata") with METADATA. apply pystr_eqb_eq. Qed.

(** a rule passing the obligations: validate_rule is the three parts side by side *)
Lemma validate_rule_parts orc tb rn r name content attrs kids top :
  parse_children (rr_children r) = Some top -> greedy_ok_top top = true ->
  exists ek,
    validate_children top (smem rn (tb_mixed tb)) name kids = Some ek /\
    validate_rule orc tb rn r name content attrs kids =
    res_app (res_app (Errs (validate_content orc (tb_ranges tb) (smem rn (tb_mixed tb)) (rr_content_rules r)
                                             (rr_content_enum r) content (length kids)))
                     (validate_attrs (rr_attrs r) attrs))
            (Errs ek).
Proof.
  intros Hp Hok. unfold validate_rule. rewrite Hp.
  assert (match top with Some sp => no_seq_in_seq sp | None => true end = true) as Hns.
  { destruct top as [sp|]; [|reflexivity]. simpl in Hok. unfold greedy_ok in Hok.
    apply andb_true_iff in Hok as [Hok _]. apply shape_ok_no_seq_in_seq. exact Hok. }
  rewrite Hns. simpl negb. cbv iota.
  destruct (validate_children top (smem rn (tb_mixed tb)) name kids) as [ek|] eqn:E;
    [|exfalso; exact (validate_children_total _ _ _ _ E)].
  exists ek. split; reflexivity.
Qed.

Section Generic.
  Variable orc : pystr -> oans.
  Variable tb : tables.
  Hypothesis Hok : rules_ok tb = true.

  Lemma rule_obligations rn r : assoc rn (tb_rules tb) = Some r ->
    wf_attrs (rr_attrs r) = true /\
    exists top, parse_children (rr_children r) = Some top /\ greedy_ok_top top = true.
  Proof.
    intro E. apply assoc_Some_In in E. unfold rules_ok in Hok. rewrite forallb_forall in Hok.
    specialize (Hok _ E). simpl in Hok. apply andb_true_iff in Hok as [G W].
    split; [exact W|]. unfold greedy_ok_raw in G.
    destruct (parse_children (rr_children r)) as [top|]; [|discriminate].
    exists top. split; [reflexivity | exact G].
  Qed.

  (** validate.node accepts exactly the declaratively valid nodes *)
  Theorem node_char n : node_of orc tb n = Errs [] <-> node_valid_tb orc tb n.
  Proof.
    unfold node_of, validate_node, node_valid_tb.
    destruct (assoc (t_name n) (tb_node_map tb)) as [rn|] eqn:E1.
    2:{ split; [discriminate | intros (rn & r & top & X & _); discriminate]. }
    destruct (assoc rn (tb_rules tb)) as [r|] eqn:E2.
    2:{ split; [discriminate | intros (rn' & r & top & X & Y & _)]. injection X as <-. congruence. }
    destruct (rule_obligations rn r E2) as (W & top & Hp & Hg).
    destruct (validate_rule_parts orc tb rn r (t_name n) (t_content n) (t_attrs n)
                                  (map t_name (t_kids n)) top Hp Hg) as (ek & Ek & ->).
    rewrite !res_app_ok_iff, map_length.
    assert (Errs ek = Errs [] <->
            (if is_metadata (t_name n) then length (t_kids n) <= 1
             else allowed_names top (map t_name (t_kids n)) /\
                  Ltop (smem rn (tb_mixed tb)) top (map t_name (t_kids n)))) as Hk.
    { destruct (is_metadata (t_name n)) eqn:M.
      - apply is_metadata_spec in M. rewrite M in Ek.
        rewrite <- (map_length t_name (t_kids n)), <- (validate_children_metadata top (smem rn (tb_mixed tb))), Ek.
        split; congruence.
      - assert (t_name n <> METADATA) as NE.
        { intro X. apply is_metadata_spec in X. congruence. }
        rewrite <- (C01_generic_proof top _ (t_name n) _ Hg NE), Ek. split; congruence. }
    split.
    - intros [[Hc Ha] He]. exists rn, r, top. repeat split; try assumption; try reflexivity.
      + injection Hc as Hc. apply validate_content_accepts_iff in Hc. apply Hc.
      + injection Hc as Hc. apply validate_content_accepts_iff in Hc. apply Hc.
      + apply (validate_attrs_accepts_iff _ _ W) in Ha. apply Ha.
      + apply (validate_attrs_accepts_iff _ _ W) in Ha. apply Ha.
      + apply (validate_attrs_accepts_iff _ _ W) in Ha. apply Ha.
      + apply Hk. exact He.
    - intros (rn' & r' & top' & X1 & X2 & X3 & Hc & Ha & He).
      injection X1 as <-. rewrite E2 in X2. injection X2 as <-. rewrite Hp in X3. injection X3 as <-.
      split; [split|].
      + f_equal. apply validate_content_accepts_iff. exact Hc.
      + apply (validate_attrs_accepts_iff _ _ W). exact Ha.
      + apply Hk. exact He.
  Qed.

  (** validate.tree accepts exactly the trees whose visible nodes are all valid *)
  Theorem tree_char t :
    validate_tree orc tb t = Errs [] <-> Forall (node_valid_tb orc tb) (visible_preorder t).
  Proof.
    rewrite validate_tree_ok_iff. split; apply Forall_impl; intros n H; apply node_char; exact H.
  Qed.

  Corollary tree_char_failfast t :
    ff_of (validate_tree orc tb t) = FOk <-> Forall (node_valid_tb orc tb) (visible_preorder t).
  Proof. rewrite ff_ok_iff. apply tree_char. Qed.
End Generic.

(** * The shipped tables *)
Lemma rules_ok_shipped : rules_ok shipped = true.
Proof. vm_compute. reflexivity. Qed.

Definition node_valid (orc : pystr -> oans) (n : tree) : Prop := node_valid_tb orc shipped n.

Theorem valid_tree_char_proof : forall orc t,
  validate_tree orc shipped t = Errs [] <-> Forall (node_valid orc) (visible_preorder t).
Proof. intros orc t. apply tree_char. exact rules_ok_shipped. Qed.

Theorem valid_node_char_proof : forall orc n, node_of orc shipped n = Errs [] <-> node_valid orc n.
Proof. intros orc n. apply node_char. exact rules_ok_shipped. Qed.

Theorem valid_tree_char_failfast_proof : forall orc t,
  ff_of (validate_tree orc shipped t) = FOk <-> Forall (node_valid orc) (visible_preorder t).
Proof. intros orc t. apply tree_char_failfast. exact rules_ok_shipped. Qed.

(** [node_valid] spelled out over the generated tables *)
Lemma node_valid_unfold orc n :
  node_valid orc n <->
  exists rn r top,
    assoc (t_name n) node_map = Some rn /\ assoc rn rules = Some r /\
    parse_children (rr_children r) = Some top /\
    content_ok orc (range_ew, range_ns) (is_mixed rn) (rr_content_rules r) (rr_content_enum r)
               (t_content n) (length (t_kids n)) /\
    attrs_ok (rr_attrs r) (t_attrs n) /\
    (if is_metadata (t_name n) then length (t_kids n) <= 1
     else allowed_names top (map t_name (t_kids n)) /\ Ltop (is_mixed rn) top (map t_name (t_kids n))).
Proof. reflexivity. Qed.

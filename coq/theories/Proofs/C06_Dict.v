(* Proofs/C06_Dict.v — reading a JSON object of strings back into a node dict, and the
   no-op cases of add_child's namespace merge. *)
From MP Require Import Common.Base Common.Tree Model.Json Spec.JsonSpec.

Lemma dict_set_fresh {V} k (v : V) m : ~ In k (keys m) -> dict_set k v m = m ++ [(k, v)].
Proof.
  induction m as [|[k' v'] r IH]; simpl; intro H; [reflexivity|].
  destruct (pystr_eqb_reflect k k') as [->|NE].
  - exfalso; apply H; left; reflexivity.
  - rewrite IH; [reflexivity | tauto].
Qed.

Definition jd (m : list (pystr * pystr)) : list (pystr * json) :=
  map (fun kv => (fst kv, JStr (snd kv))) m.

Lemma keys_jd m : keys (jd m) = keys m.
Proof. unfold keys, jd. rewrite map_map. reflexivity. Qed.

Lemma assoc_jd k v m : NoDup (keys m) -> In (k, v) m -> assoc k (jd m) = Some (JStr v).
Proof.
  induction m as [|[k' v'] r IH]; simpl; intros ND HI; [contradiction|].
  inversion ND as [|? ? NI ND']; subst.
  destruct HI as [E|HI].
  - inversion E; subst. rewrite pystr_eqb_refl. reflexivity.
  - destruct (pystr_eqb_reflect k k') as [->|NE].
    + exfalso. apply NI. change (In k' (map fst r)). apply in_map_iff. exists (k', v); split; [reflexivity | exact HI].
    + apply IH; assumption.
Qed.

Lemma NoDup_app_notin {A} (a : list A) x b : NoDup (a ++ x :: b) -> ~ In x a.
Proof.
  intros H HI. apply NoDup_remove_2 in H. apply H. apply in_or_app; left; exact HI.
Qed.

(** the generic loop: [for k in x: node.add_xxx(k, x[k])] appends the items in order *)
Lemma set_all_gen setk (upd : list (pystr * pystr) -> ftree) d0 :
  (forall done k v, ~ In k (keys done) -> setk k v (upd done) = upd (done ++ [(k, v)])) ->
  forall todo done,
    NoDup (keys (done ++ todo)) ->
    (forall k v, In (k, v) todo -> assoc k d0 = Some (JStr v)) ->
    set_all setk d0 (keys todo) (upd done) = Ok (upd (done ++ todo)).
Proof.
  intros Hset todo; induction todo as [|[k v] r IH]; intros done ND HA; simpl.
  - rewrite app_nil_r. reflexivity.
  - rewrite (HA k v (or_introl eq_refl)).
    rewrite Hset.
    + replace (done ++ (k, v) :: r) with ((done ++ [(k, v)]) ++ r) by (rewrite <- app_assoc; reflexivity).
      apply IH.
      * rewrite <- app_assoc. exact ND.
      * intros k0 v0 HI. apply HA. right; exact HI.
    + unfold keys in ND. rewrite map_app in ND. simpl in ND.
      apply NoDup_app_notin in ND. exact ND.
Qed.

Lemma for_items_jdict setk (upd : list (pystr * pystr) -> ftree) m :
  (forall done k v, ~ In k (keys done) -> setk k v (upd done) = upd (done ++ [(k, v)])) ->
  NoDup (keys m) ->
  for_items setk (jdict m) (upd []) = Ok (upd m).
Proof.
  intros Hset ND. unfold for_items, jdict. fold (jd m). rewrite keys_jd.
  apply (set_all_gen setk upd (jd m) Hset m []); [exact ND|].
  intros k v HI. apply assoc_jd; assumption.
Qed.

(** membership tests *)
Lemma in_keys_true p (m : list (pystr * pystr)) : in_keys p m = true <-> In p (keys m).
Proof.
  unfold in_keys. destruct (assoc p m) eqn:E.
  - split; [intros _ | reflexivity].
    apply assoc_Some_In in E. change (In p (map fst m)). apply in_map_iff. exists (p, p0); split; [reflexivity | exact E].
  - apply assoc_None_keys in E. split; [discriminate | contradiction].
Qed.

Lemma bound_to_fresh p u (m : list (pystr * pystr)) : ~ In p (keys m) -> bound_to p u m = false.
Proof. intro H. apply assoc_None_keys in H. unfold bound_to. rewrite H. reflexivity. Qed.

(** add_child's merge loop does nothing when the child already has all the parent's prefixes *)
Lemma merge_ns_noop pm c : incl (keys pm) (keys (n_nsmap (ft_d c))) -> merge_ns pm c = c.
Proof.
  unfold merge_ns. induction pm as [|[p u] r IH]; simpl; intro H; [reflexivity|].
  assert (Hp : in_keys p (n_nsmap (ft_d c)) = true) by (apply in_keys_true, H; left; reflexivity).
  rewrite Hp. apply IH. intros x Hx. apply H. right; exact Hx.
Qed.

Lemma add_child_closed d done c :
  incl (keys (n_nsmap d)) (keys (n_nsmap (ft_d c))) ->
  add_child (FT d done) c = FT d (done ++ [c]).
Proof.
  intro H. unfold add_child. destruct (dict_eqb _ _); [reflexivity|].
  rewrite merge_ns_noop by exact H. reflexivity.
Qed.

(** the children loop *)
Lemma load_kids_ok (ld : json -> result ftree) (ser : ftree -> json) d :
  forall todo done,
    Forall (fun c => ld (ser c) = Ok c) todo ->
    Forall (fun c => incl (keys (n_nsmap d)) (keys (n_nsmap (ft_d c)))) todo ->
    load_kids ld (map ser todo) (FT d done) = Ok (FT d (done ++ todo)).
Proof.
  induction todo as [|c r IH]; intros done HL HC; cbn [map load_kids].
  - rewrite app_nil_r. reflexivity.
  - inversion HL as [|? ? Hc HL']; subst. inversion HC as [|? ? Ic HC']; subst.
    rewrite Hc. cbn [bind]. rewrite add_child_closed by exact Ic.
    rewrite IH by assumption. rewrite <- app_assoc. reflexivity.
Qed.

(** heights *)
Lemma fold_max_ge {A} (f : A -> nat) l x : In x l -> f x <= fold_right (fun c a => Nat.max (f c) a) 0 l.
Proof.
  induction l as [|y r IH]; simpl; intro H; [contradiction|].
  destruct H as [->|H]; [lia | specialize (IH H); lia].
Qed.

Lemma fold_max_map_le {A B} (f : A -> nat) (g : B -> nat) (h : A -> B) l :
  Forall (fun c => f c <= g (h c)) l ->
  fold_right (fun c a => Nat.max (f c) a) 0 l <= fold_right (fun x a => Nat.max (g x) a) 0 (map h l).
Proof.
  induction 1 as [|c r Hc _ IH]; simpl; lia.
Qed.

(* Proofs/DictFacts.v — Python-dict facts about [Base.dict_set] / [Base.dict_del] / [Base.assoc]
   on insertion-ordered association lists with unique keys, and list-insertion facts. *)
From MP Require Import Common.Base Common.Tree Model.Heap.

Definition wf_dict (d : dict) : Prop := NoDup (keys d).

Lemma assoc_dict_set (p q u : pystr) (d : dict) :
  assoc q (dict_set p u d) = if pystr_eqb q p then Some u else assoc q d.
Proof.
  induction d as [|[k v] r IH]; simpl.
  - destruct (pystr_eqb q p); reflexivity.
  - destruct (pystr_eqb_reflect p k) as [->|Npk]; simpl.
    + destruct (pystr_eqb q k); reflexivity.
    + rewrite IH. destruct (pystr_eqb_reflect q k) as [->|Nqk]; [|reflexivity].
      destruct (pystr_eqb_reflect k p) as [->|_]; [contradiction | reflexivity].
Qed.

Lemma dict_set_same (p u : pystr) (d : dict) : assoc p d = Some u -> dict_set p u d = d.
Proof.
  induction d as [|[k v] r IH]; simpl; [discriminate|].
  destruct (pystr_eqb_reflect p k) as [->|N].
  - intros [= ->]; reflexivity.
  - intro H; rewrite IH; auto.
Qed.

Lemma dict_del_absent (p : pystr) (d : dict) : assoc p d = None -> dict_del p d = d.
Proof.
  induction d as [|[k v] r IH]; simpl; [reflexivity|].
  destruct (pystr_eqb_reflect p k) as [->|N]; [discriminate|].
  intro H; rewrite IH; auto.
Qed.

Lemma keys_dict_set_in (p u : pystr) (d : dict) q :
  In q (keys (dict_set p u d)) <-> q = p \/ In q (keys d).
Proof.
  induction d as [|[k v] r IH]; simpl.
  - split; [intros [<-|[]]; auto | intros [->|[]]; auto].
  - destruct (pystr_eqb_reflect p k) as [->|N]; simpl.
    + split; [intros [<-|H]; auto | intros [->|[<-|H]]; auto].
    + unfold keys in IH. rewrite IH. split; [intros [<-|[->|H]]; auto | intros [->|[<-|H]]; auto].
Qed.

Lemma wf_dict_set (p u : pystr) (d : dict) : wf_dict d -> wf_dict (dict_set p u d).
Proof.
  unfold wf_dict. induction d as [|[k v] r IH]; simpl; intro H.
  - constructor; [intros [] | constructor].
  - inversion H as [|? ? Hk Hr]; subst. destruct (pystr_eqb_reflect p k) as [->|N]; simpl.
    + constructor; assumption.
    + constructor; [|apply IH, Hr]. intro Hin. apply (keys_dict_set_in p u r k) in Hin.
      destruct Hin as [->|Hin]; [apply N; reflexivity | apply Hk, Hin].
Qed.

Lemma keys_dict_del_in (p : pystr) (d : dict) q : In q (keys (dict_del p d)) -> In q (keys d).
Proof.
  induction d as [|[k v] r IH]; simpl; [tauto|].
  destruct (pystr_eqb p k); simpl; [auto|]. intros [<-|H]; auto.
Qed.

Lemma wf_dict_del (p : pystr) (d : dict) : wf_dict d -> wf_dict (dict_del p d).
Proof.
  unfold wf_dict. induction d as [|[k v] r IH]; simpl; intro H; [constructor|].
  inversion H as [|? ? Hk Hr]; subst. destruct (pystr_eqb p k); simpl; [exact Hr|].
  constructor; [|apply IH, Hr]. intro Hin; apply Hk. eapply keys_dict_del_in; eauto.
Qed.

Lemma assoc_dict_del (p q : pystr) (d : dict) :
  wf_dict d -> assoc q (dict_del p d) = if pystr_eqb q p then None else assoc q d.
Proof.
  unfold wf_dict. induction d as [|[k v] r IH]; simpl; intro H.
  - destruct (pystr_eqb q p); reflexivity.
  - inversion H as [|? ? Hk Hr]; subst.
    destruct (pystr_eqb_reflect p k) as [->|Npk]; simpl.
    + destruct (pystr_eqb_reflect q k) as [->|Nqk]; [|reflexivity].
      apply assoc_None_keys; exact Hk.
    + rewrite IH by exact Hr. destruct (pystr_eqb_reflect q k) as [->|Nqk]; [|reflexivity].
      destruct (pystr_eqb_reflect k p) as [->|_]; [contradiction | reflexivity].
Qed.

Lemma wf_dict_nil : wf_dict [].
Proof. constructor. Qed.

(** ordered dict equality decides Leibniz equality *)
Lemma dict_eqb_eq (a b : dict) : dict_eqb a b = true <-> a = b.
Proof.
  unfold dict_eqb. apply list_eqb_spec. intros [k v] [k' v']; unfold pair_eqb; simpl.
  rewrite andb_true_iff, !pystr_eqb_eq. split; [intros [-> ->]; reflexivity | intros [= -> ->]; auto].
Qed.

(** filling an empty dict key by key reproduces the items in order (the loops of [Node.copy]) *)
Lemma fill_app (d0 d : dict) :
  wf_dict (d0 ++ d) ->
  fold_left (fun acc kv => dict_set (fst kv) (snd kv) acc) d d0 = d0 ++ d.
Proof.
  revert d0; induction d as [|[k v] r IH]; intros d0 H; simpl.
  - rewrite app_nil_r; reflexivity.
  - assert (E : dict_set k v d0 = d0 ++ [(k, v)]).
    { assert (Hk : ~ In k (keys d0)).
      { unfold wf_dict, keys in H. rewrite map_app in H. simpl in H.
        apply NoDup_remove_2 in H. intro Hin; apply H, in_or_app; left; exact Hin. }
      clear - Hk. induction d0 as [|[k0 v0] r0 IH0]; simpl; [reflexivity|].
      destruct (pystr_eqb_reflect k k0) as [->|N]; [exfalso; apply Hk; left; reflexivity|].
      rewrite IH0; [reflexivity | intro Hin; apply Hk; right; exact Hin]. }
    rewrite E. rewrite IH; rewrite <- app_assoc; simpl; [reflexivity | exact H].
Qed.

Lemma fill_items (d : dict) :
  wf_dict d -> fold_left (fun acc kv => dict_set (fst kv) (snd kv) acc) d [] = d.
Proof. intro H. apply (fill_app [] d H). Qed.

(** ** list insertion *)
Lemma insert_at_split {A} i (x : A) l : exists l1 l2, l = l1 ++ l2 /\ insert_at i x l = l1 ++ x :: l2.
Proof.
  revert l; induction i as [|i IH]; intros l.
  - exists [], l; split; [reflexivity | destruct l; reflexivity].
  - destruct l as [|y r]; simpl.
    + exists [], []; split; reflexivity.
    + destruct (IH r) as (l1 & l2 & E1 & E2). exists (y :: l1), l2; split; simpl; congruence.
Qed.

Lemma py_insert_split {A} i (x : A) l : exists l1 l2, l = l1 ++ l2 /\ py_insert i x l = l1 ++ x :: l2.
Proof. unfold py_insert. apply insert_at_split. Qed.

Lemma split_insert_In {A} (l1 l2 : list A) x y : In y (l1 ++ x :: l2) <-> y = x \/ In y (l1 ++ l2).
Proof.
  rewrite !in_app_iff; simpl. split; [intros [H|[<-|H]]; auto | intros [->|[H|H]]; auto].
Qed.

Lemma split_insert_NoDup {A} (l1 l2 : list A) x : NoDup (l1 ++ l2) -> ~ In x (l1 ++ l2) -> NoDup (l1 ++ x :: l2).
Proof.
  intros H N. apply (NoDup_Add (Add_app x l1 l2)). split; assumption.
Qed.

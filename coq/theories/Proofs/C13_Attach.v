(* Proofs/C13_Attach.v — add_child: the link step keeps the forest invariant, the
   share-or-merge step is a frame on the child's subtree, and the whole refines attach_spec. *)
From MP Require Import Common.Base Common.Tree Model.Heap Model.Namespace Spec.NsSpec
     Proofs.HeapInv Proofs.DictFacts Proofs.C13_Walk Proofs.C13_Refine.

(** ** the forest invariant in function form *)
Record ForestF (h : heap) : Prop := {
  ff_kid : forall n c, In c (kids_of h n) -> alive h c /\ parent_of h c = Some n;
  ff_par : forall c p, parent_of h c = Some p -> In c (kids_of h p);
  ff_nodup : forall n, NoDup (kids_of h n);
  ff_root : forall n, alive h n -> exists k, depth h n k
}.

Lemma parent_of_Some h n r : nget h n = Some r -> parent_of h n = parent r.
Proof. unfold parent_of; intros ->; reflexivity. Qed.

Lemma Forest_F h : Forest h -> ForestF h.
Proof.
  intro F. constructor.
  - intros n c Hc. unfold kids_of in Hc. destruct (nget h n) as [r|] eqn:Hn; [|destruct Hc].
    destruct (f_kid_parent _ F _ _ _ Hn Hc) as [rc [Hrc Hp]].
    split; [exists rc; exact Hrc | rewrite (parent_of_Some _ _ _ Hrc); exact Hp].
  - intros c p Hp. unfold parent_of in Hp. destruct (nget h c) as [rc|] eqn:Hc; [|discriminate].
    destruct (f_parent_kid _ F _ _ _ Hc Hp) as [rp [Hrp Hin]]. rewrite (kids_of_Some _ _ _ Hrp). exact Hin.
  - intro n. unfold kids_of. destruct (nget h n) as [r|] eqn:Hn; [eapply f_kids_nodup; eauto | constructor].
  - intros n [r Hn]. eapply f_rooted; eauto.
Qed.

Lemma F_Forest h : ForestF h -> Forest h.
Proof.
  intro F. constructor.
  - intros n r c Hn Hc. rewrite <- (kids_of_Some _ _ _ Hn) in Hc.
    destruct (ff_kid _ F _ _ Hc) as [[rc Hrc] Hp]. exists rc; split; [exact Hrc|].
    rewrite (parent_of_Some _ _ _ Hrc) in Hp; exact Hp.
  - intros c rc p Hc Hp. rewrite <- (parent_of_Some _ _ _ Hc) in Hp.
    pose proof (ff_par _ F _ _ Hp) as Hin. unfold kids_of in Hin.
    destruct (nget h p) as [rp|]; [exists rp; split; [reflexivity | exact Hin] | destruct Hin].
  - intros n r Hn. rewrite <- (kids_of_Some _ _ _ Hn). apply (ff_nodup _ F).
  - intros n r Hn. apply (ff_root _ F). exists r; exact Hn.
Qed.

Lemma depth_root' h n : alive h n -> parent_of h n = None -> depth h n 0.
Proof. intros [r Hn] Hp. rewrite (parent_of_Some _ _ _ Hn) in Hp. econstructor; eauto. Qed.

Lemma depth_step' h n p k : alive h n -> parent_of h n = Some p -> depth h p k -> depth h n (S k).
Proof. intros [r Hn] Hp Hd. rewrite (parent_of_Some _ _ _ Hn) in Hp. econstructor; eauto. Qed.

(** ** decidability of descendance on a tree, and the identity frame *)
Lemma desc_dec h k c : tree_at h k c -> forall m, desc h c m \/ ~ desc h c m.
Proof.
  induction 1 as [k n r Hn Hk IH]. intro m.
  destruct (Nat.eq_dec m n) as [->|Ne]; [left; apply desc_refl|].
  assert (G : forall ks, (forall x, In x ks -> In x (kids r)) ->
                         (exists x, In x ks /\ desc h x m) \/ ~ (exists x, In x ks /\ desc h x m)).
  { induction ks as [|a ks IHks]; intro Hsub.
    - right; intros (x & [] & _).
    - destruct (IH a (Hsub a (or_introl eq_refl)) m) as [Y|N].
      + left; exists a; split; [left; reflexivity | exact Y].
      + destruct IHks as [(x & Hx & Hd)|N2]; [intros x Hx; apply Hsub; right; exact Hx | |].
        * left; exists x; split; [right; exact Hx | exact Hd].
        * right; intros (x & [<-|Hx] & Hd); [contradiction | apply N2; exists x; auto]. }
  destruct (G (kids r) (fun x H => H)) as [(x & Hx & Hd)|N].
  - left. apply desc_kids_iff. right. exists x. rewrite (kids_of_Some _ _ _ Hn). auto.
  - right. intro Hd. apply desc_kids_iff in Hd. destruct Hd as [->|(x & Hx & Hd)]; [apply Ne; reflexivity|].
    apply N. exists x. rewrite (kids_of_Some _ _ _ Hn) in Hx. auto.
Qed.

Lemma ns_frame_refl P (S : nat -> Prop) h :
  (forall m, S m \/ ~ S m) -> (forall m, S m -> alive h m) -> alloc_ok h ->
  ns_frame P (fun d => d) S h h.
Proof.
  intros Dec Al A. constructor; auto.
  intro m. destruct (Dec m) as [Y|N]; [right | left; split; [exact N | reflexivity]].
  split; [exact Y|]. destruct (Al m Y) as [r Hr]. exists r, (ns_loc r). rewrite set_ns_same.
  repeat split; auto. eapply A; eauto.
Qed.

Lemma ns_frame_ext P f g S h h' :
  (forall d, f d = g d) -> ns_frame P f S h h' -> ns_frame P g S h h'.
Proof.
  intros E F. constructor; try apply F.
  intro m. destruct (fr_nodes _ _ _ _ _ F m) as [L|[Y (r & L' & E1 & E2 & E3 & E4)]]; [left; exact L|].
  right; split; [exact Y|]. exists r, L'. repeat split; auto. rewrite <- E; exact E3.
Qed.

Lemma ns_frame_seq P f g (S S' : nat -> Prop) h h1 h2 :
  (forall m, S m <-> S' m) ->
  ns_frame P f S h h1 -> ns_frame P g S' h1 h2 -> ns_frame P (fun d => g (f d)) S h h2.
Proof.
  intros Eq F1 F2. constructor.
  - intro m.
    destruct (fr_nodes _ _ _ _ _ F1 m) as [[N1 E1]|[Y1 (r & L1 & Ea & Eb & Ec & Ed)]];
      destruct (fr_nodes _ _ _ _ _ F2 m) as [[N2 E2]|[Y2 (r2 & L2 & Ea2 & Eb2 & Ec2 & Ed2)]].
    + left; split; [exact N1 | congruence].
    + exfalso; apply N1, Eq, Y2.
    + exfalso; apply N2, Eq, Y1.
    + right; split; [exact Y1|]. exists r, L2. rewrite Eb in Ea2; injection Ea2 as <-.
      repeat split; auto. rewrite Ec2. simpl. rewrite Ec. reflexivity.
  - intros l Hl. rewrite (fr_dicts _ _ _ _ _ F2); [apply (fr_dicts _ _ _ _ _ F1), Hl|].
    pose proof (fr_next _ _ _ _ _ F1). lia.
  - pose proof (fr_next _ _ _ _ _ F1). pose proof (fr_next _ _ _ _ _ F2). lia.
  - intro D0. apply (fr_ok _ _ _ _ _ F2), (fr_ok _ _ _ _ _ F1), D0.
  - rewrite (fr_ids _ _ _ _ _ F2). apply F1.
  - rewrite (fr_store _ _ _ _ _ F2). apply F1.
  - rewrite (fr_fuel _ _ _ _ _ F2). apply F1.
Qed.

(** ** the merge function: what `for prefix in self.nsmap: if prefix not in child.nsmap: …`
    does to the dict of every node of the child's subtree *)
Definition mstep (dp dc : dict) (q : pystr) (d : dict) : dict :=
  match assoc q dc with
  | Some _ => d
  | None => match assoc q dp with Some u => dict_set q u d | None => d end
  end.

Definition mfun (dp dc : dict) (ps : list pystr) (d : dict) : dict :=
  fold_left (fun d q => mstep dp dc q d) ps d.

Lemma mfun_cons dp dc q ps d : mfun dp dc (q :: ps) d = mfun dp dc ps (mstep dp dc q d).
Proof. reflexivity. Qed.

Lemma mstep_wf dp dc q d : wf_dict d -> wf_dict (mstep dp dc q d).
Proof.
  intro W. unfold mstep. destruct (assoc q dc); [exact W|]. destruct (assoc q dp); [apply wf_dict_set, W | exact W].
Qed.

Lemma mfun_wf dp dc ps d : wf_dict d -> wf_dict (mfun dp dc ps d).
Proof.
  unfold mfun. revert d; induction ps as [|q ps IH]; intros d W; simpl; [exact W|]. apply IH, mstep_wf, W.
Qed.

Lemma mfun_ext dp dc dc' ps d :
  (forall q, In q ps -> assoc q dc' = assoc q dc) -> mfun dp dc' ps d = mfun dp dc ps d.
Proof.
  unfold mfun. revert d; induction ps as [|q ps IH]; intros d H; simpl; [reflexivity|].
  assert (E : mstep dp dc' q d = mstep dp dc q d) by (unfold mstep; rewrite H; [reflexivity | left; reflexivity]).
  rewrite E. apply IH. intros q' Hq'; apply H; right; exact Hq'.
Qed.

Lemma assoc_mfun_keep dp dc ps d q :
  assoc q dc <> None \/ assoc q dp = None -> assoc q (mfun dp dc ps d) = assoc q d.
Proof.
  intro H. unfold mfun. revert d; induction ps as [|p ps IH]; intro d; simpl; [reflexivity|].
  rewrite IH. unfold mstep. destruct (assoc p dc) eqn:Ec; [reflexivity|].
  destruct (assoc p dp) as [u|] eqn:Ep; [|reflexivity].
  rewrite assoc_dict_set. destruct (pystr_eqb_reflect q p) as [->|_]; [|reflexivity].
  destruct H as [H|H]; congruence.
Qed.

Lemma assoc_mfun_stays dp dc ps d q u :
  assoc q d = Some u -> assoc q dp = Some u -> assoc q (mfun dp dc ps d) = Some u.
Proof.
  intros Hd Hp. unfold mfun. revert d Hd; induction ps as [|p ps IH]; intros d Hd; simpl; [exact Hd|].
  apply IH. unfold mstep. destruct (assoc p dc); [exact Hd|].
  destruct (assoc p dp) as [v|] eqn:Ep; [|exact Hd].
  rewrite assoc_dict_set. destruct (pystr_eqb_reflect q p) as [->|_]; [congruence | exact Hd].
Qed.

Lemma assoc_mfun_set dp dc ps d q u :
  In q ps -> assoc q dc = None -> assoc q dp = Some u -> assoc q (mfun dp dc ps d) = Some u.
Proof.
  intros Hin Hc Hp. revert d; induction ps as [|p ps IH]; intro d; [destruct Hin|].
  destruct (pystr_eq_dec p q) as [->|Ne].
  - unfold mfun; simpl. apply assoc_mfun_stays; [|exact Hp].
    unfold mstep. rewrite Hc, Hp, assoc_dict_set, pystr_eqb_refl. reflexivity.
  - destruct Hin as [E|Hin]; [contradiction|]. unfold mfun; simpl. apply (IH Hin).
Qed.

(** ** the merge loop is a frame on the child's subtree *)
Lemma merge_loop_ok f par c dp : forall ps h rc,
  tree_at h f c -> NsInv h -> ~ desc h c par ->
  (exists rp, nget h par = Some rp /\ dget h (ns_loc rp) = dp) ->
  nget h c = Some rc -> NoDup ps -> (forall q, In q ps -> assoc q dp <> None) ->
  exists h', merge_loop f par c ps h = Ok h' /\
             ns_frame wf_dict (mfun dp (dget h (ns_loc rc)) ps) (desc h c) h h'.
Proof.
  induction ps as [|q ps IH]; intros h rc Ht I Nd (rp & Hrp & Hdp) Hrc NoD Hps.
  - exists h; split; [reflexivity|]. apply ns_frame_refl.
    + eapply desc_dec; eauto.
    + intros m Hm. eapply tree_at_desc; eauto.
    + exact (ns_alloc _ I).
  - simpl. rewrite Hrp, Hrc. apply NoDup_cons_iff in NoD. destruct NoD as [Hq NoD'].
    destruct (assoc q (dget h (ns_loc rc))) as [v|] eqn:Ec.
    + destruct (IH h rc) as (h' & R & F); auto; [exists rp; auto | intros; apply Hps; right; assumption|].
      exists h'; split; [exact R|]. eapply ns_frame_ext; [|exact F].
      intro d. rewrite mfun_cons. unfold mstep. rewrite Ec. reflexivity.
    + rewrite Hdp. destruct (assoc q dp) as [u|] eqn:Ep; [|exfalso; apply (Hps q); [left; reflexivity | exact Ep]].
      destruct (add_ns_ok f h c q u Ht I) as (h1 & R1 & F1). rewrite R1. simpl.
      pose proof (ns_frame_shape _ _ _ _ _ F1) as Sh.
      assert (I1 : NsInv h1).
      { apply NsInv_heap_ok. eapply (heap_ok_frame wf_dict (dict_set q u)); [exact F1 | apply NsInv_heap_ok, I]. }
      (* the child's record after the step *)
      destruct (fr_nodes _ _ _ _ _ F1 c) as [[N _]|[_ (r0 & L' & E1 & E2 & E3 & _)]]; [exfalso; apply N, desc_refl|].
      rewrite Hrc in E1; injection E1 as <-.
      destruct (IH h1 (set_ns rc L')) as (h' & R & F); auto.
      * eapply shape_eq_tree_at; eauto.
      * intro Hd; apply Nd. eapply shape_eq_desc; [apply shape_eq_sym, Sh | exact Hd].
      * exists rp. destruct (fr_nodes _ _ _ _ _ F1 par) as [[_ E]|[Y _]]; [|contradiction].
        split; [congruence|]. rewrite (fr_dicts _ _ _ _ _ F1); [exact Hdp | eapply (ns_alloc _ I); eauto].
      * intros; apply Hps; right; assumption.
      * exists h'; split; [exact R|].
        eapply ns_frame_ext; [|eapply ns_frame_seq; [|exact F1|exact F]].
        -- intro d. cbv beta. change (ns_loc (set_ns rc L')) with L'. rewrite E3, mfun_cons. unfold mstep. rewrite Ec, Ep.
           apply mfun_ext. intros q' Hq'. rewrite assoc_dict_set.
           destruct (pystr_eqb_reflect q' q) as [->|_]; [contradiction | reflexivity].
        -- intro m. apply shape_eq_desc_iff, Sh.
Qed.

(** ** the link step *)
Section Link.
  Variables (h : heap) (par c : nat) (rp rc : nrec) (ks : list nat).
  Hypothesis Fo : Forest h.
  Hypothesis Hpar : nget h par = Some rp.
  Hypothesis Hc : nget h c = Some rc.
  Hypothesis Hroot : parent rc = None.
  Hypothesis Hnd : ~ desc h c par.
  Hypothesis Hks : exists l1 l2, kids rp = l1 ++ l2 /\ ks = l1 ++ c :: l2.

  Definition link : heap := nset (nset h par (set_kids rp ks)) c (set_parent rc (Some par)).

  Lemma c_ne_par : c <> par.
  Proof. intro E; apply Hnd; rewrite E; apply desc_refl. Qed.

  Lemma nget_link m :
    nget link m = if Nat.eqb m c then Some (set_parent rc (Some par))
                  else if Nat.eqb m par then Some (set_kids rp ks) else nget h m.
  Proof. unfold link. rewrite !nget_nset. reflexivity. Qed.

  Lemma link_c_rec : nget (nset h par (set_kids rp ks)) c = Some rc.
  Proof. rewrite nget_nset. pose proof c_ne_par as N. apply Nat.eqb_neq in N. rewrite N. exact Hc. Qed.

  Lemma kids_of_link m : kids_of link m = if Nat.eqb m par then ks else kids_of h m.
  Proof.
    unfold kids_of. rewrite nget_link. destruct (Nat.eqb m c) eqn:E1.
    - apply Nat.eqb_eq in E1; subst m. pose proof c_ne_par as N. apply Nat.eqb_neq in N. rewrite N, Hc. reflexivity.
    - destruct (Nat.eqb m par); reflexivity.
  Qed.

  Lemma parent_of_link m : parent_of link m = if Nat.eqb m c then Some par else parent_of h m.
  Proof.
    unfold parent_of. rewrite nget_link. destruct (Nat.eqb m c) eqn:E1; [reflexivity|].
    destruct (Nat.eqb m par) eqn:E2; [|reflexivity].
    apply Nat.eqb_eq in E2; subst m. rewrite Hpar. reflexivity.
  Qed.

  Lemma alive_link m : alive link m <-> alive h m.
  Proof.
    unfold alive. rewrite nget_link. destruct (Nat.eqb m c) eqn:E1.
    - apply Nat.eqb_eq in E1; subst m. split; intros _; eauto.
    - destruct (Nat.eqb m par) eqn:E2; [|tauto].
      apply Nat.eqb_eq in E2; subst m. split; intros _; eauto.
  Qed.

  Lemma ns_loc_link m r' : nget link m = Some r' -> exists r, nget h m = Some r /\ ns_loc r' = ns_loc r.
  Proof.
    rewrite nget_link. destruct (Nat.eqb m c) eqn:E1.
    - apply Nat.eqb_eq in E1; subst m. intros [= <-]. exists rc; auto.
    - destruct (Nat.eqb m par) eqn:E2.
      + apply Nat.eqb_eq in E2; subst m. intros [= <-]. exists rp; auto.
      + intro H; exists r'; auto.
  Qed.

  Lemma vis_of_link m q : vis_of link m q = vis_of h m q.
  Proof.
    unfold vis_of. rewrite nget_link. destruct (Nat.eqb m c) eqn:E1.
    - apply Nat.eqb_eq in E1; subst m. rewrite Hc. reflexivity.
    - destruct (Nat.eqb m par) eqn:E2; [|reflexivity].
      apply Nat.eqb_eq in E2; subst m. rewrite Hpar. reflexivity.
  Qed.

  Lemma fuel_of_link : fuel_of link = fuel_of h.
  Proof.
    unfold link. rewrite (fuel_of_nset _ _ _ rc) by exact link_c_rec.
    eapply fuel_of_nset; eauto.
  Qed.

  Let FF := Forest_F _ Fo.

  Lemma c_parent_none : parent_of h c = None.
  Proof. rewrite (parent_of_Some _ _ _ Hc). exact Hroot. Qed.

  Lemma c_not_kid n : ~ In c (kids_of h n).
  Proof. intro H. destruct (ff_kid _ FF _ _ H) as [_ Hp]. rewrite c_parent_none in Hp; discriminate. Qed.

  Lemma In_ks x : In x ks <-> x = c \/ In x (kids_of h par).
  Proof.
    destruct Hks as (l1 & l2 & E1 & E2). rewrite (kids_of_Some _ _ _ Hpar), E1, E2. apply split_insert_In.
  Qed.

  (** descendants of c are the same before and after *)
  Lemma desc_link_iff m : desc link c m <-> desc h c m.
  Proof.
    split; induction 1 as [|p m Hd IH Hin]; try apply desc_refl.
    - rewrite kids_of_link in Hin. destruct (Nat.eqb p par) eqn:E.
      + apply Nat.eqb_eq in E; subst p. contradiction.
      + eapply desc_step; eauto.
    - eapply desc_step; [exact IH|]. rewrite kids_of_link.
      destruct (Nat.eqb p par) eqn:E; [apply Nat.eqb_eq in E; subst p; contradiction | exact Hin].
  Qed.

  Lemma desc_inv_right a m : desc h a m -> m = a \/ exists p, desc h a p /\ parent_of h m = Some p.
  Proof.
    destruct 1 as [|p m Hd Hin]; [left; reflexivity|].
    right; exists p; split; [exact Hd|]. apply (ff_kid _ FF _ _ Hin).
  Qed.

  Lemma depth_link_out x k : depth h x k -> ~ desc h c x -> depth link x k.
  Proof.
    induction 1 as [x r Hx Hp | x r p k Hx Hp Hd IH]; intro Nx.
    - apply depth_root'; [apply alive_link; eexists; eauto|].
      rewrite parent_of_link. destruct (Nat.eqb x c) eqn:E.
      + apply Nat.eqb_eq in E; subst x. exfalso; apply Nx, desc_refl.
      + rewrite (parent_of_Some _ _ _ Hx); exact Hp.
    - apply (depth_step' _ _ p); [apply alive_link; eexists; eauto | |].
      + rewrite parent_of_link. destruct (Nat.eqb x c) eqn:E.
        * apply Nat.eqb_eq in E; subst x. exfalso; apply Nx, desc_refl.
        * rewrite (parent_of_Some _ _ _ Hx); exact Hp.
      + apply IH. intro Hdp. apply Nx. eapply desc_step; [exact Hdp|].
        apply (ff_par _ FF). rewrite (parent_of_Some _ _ _ Hx); exact Hp.
  Qed.

  Lemma depth_link m k :
    depth h m k -> (desc h c m /\ exists k', depth link m k') \/ (~ desc h c m /\ depth link m k).
  Proof.
    induction 1 as [m r Hm Hp | m r p k Hm Hp Hd IH].
    - destruct (Nat.eq_dec m c) as [->|Ne].
      + left; split; [apply desc_refl|].
        destruct (ff_root _ FF par (ex_intro _ rp Hpar)) as [kp Hkp].
        pose proof (depth_link_out _ _ Hkp Hnd) as Hpl.
        exists (S kp). apply (depth_step' _ _ par); [apply alive_link; eexists; eauto | | exact Hpl].
        rewrite parent_of_link, Nat.eqb_refl. reflexivity.
      + right. assert (Nd : ~ desc h c m).
        { intro Hdm. apply desc_inv_right in Hdm. destruct Hdm as [E|(p & _ & Hpp)]; [contradiction|].
          rewrite (parent_of_Some _ _ _ Hm) in Hpp. congruence. }
        split; [exact Nd|]. apply depth_root'; [apply alive_link; eexists; eauto|].
        rewrite parent_of_link. apply Nat.eqb_neq in Ne; rewrite Ne. rewrite (parent_of_Some _ _ _ Hm); exact Hp.
    - assert (Ne : m <> c) by (intros ->; rewrite Hc in Hm; injection Hm as <-; congruence).
      assert (Hpl : parent_of link m = Some p).
      { rewrite parent_of_link. apply Nat.eqb_neq in Ne; rewrite Ne. rewrite (parent_of_Some _ _ _ Hm); exact Hp. }
      assert (Hal : alive link m) by (apply alive_link; eexists; eauto).
      assert (Hin : In m (kids_of h p)) by (apply (ff_par _ FF); rewrite (parent_of_Some _ _ _ Hm); exact Hp).
      destruct IH as [[Y (k' & Hk')]|[N Hk']].
      + left; split; [eapply desc_step; eauto|]. exists (S k'). eapply depth_step'; eauto.
      + right; split; [|eapply depth_step'; eauto].
        intro Hdm. apply desc_inv_right in Hdm. destruct Hdm as [E|(p' & Hd' & Hpp)]; [contradiction|].
        rewrite (parent_of_Some _ _ _ Hm), Hp in Hpp. injection Hpp as <-. contradiction.
  Qed.

  Lemma Forest_link : Forest link.
  Proof.
    apply F_Forest. pose proof c_ne_par as Ncp. constructor.
    - intros n x Hx. rewrite kids_of_link in Hx.
      assert (G : x = c /\ n = par \/ In x (kids_of h n)).
      { destruct (Nat.eqb n par) eqn:E; [|right; exact Hx].
        apply Nat.eqb_eq in E; subst n. apply In_ks in Hx. destruct Hx as [->|Hx]; auto. }
      destruct G as [[-> ->]|Hin].
      + split; [apply alive_link; eexists; eauto | rewrite parent_of_link, Nat.eqb_refl; reflexivity].
      + destruct (ff_kid _ FF _ _ Hin) as [Al Hp]. split; [apply alive_link, Al|].
        rewrite parent_of_link. destruct (Nat.eqb x c) eqn:E; [|exact Hp].
        apply Nat.eqb_eq in E; subst x. exfalso; eapply c_not_kid; eauto.
    - intros x p Hp. rewrite parent_of_link in Hp. rewrite kids_of_link.
      destruct (Nat.eqb x c) eqn:E.
      + apply Nat.eqb_eq in E; subst x. injection Hp as <-. rewrite Nat.eqb_refl. apply In_ks; left; reflexivity.
      + pose proof (ff_par _ FF _ _ Hp) as Hin. destruct (Nat.eqb p par) eqn:E2; [|exact Hin].
        apply Nat.eqb_eq in E2; subst p. apply In_ks; right; exact Hin.
    - intro n. rewrite kids_of_link. destruct (Nat.eqb n par) eqn:E; [|apply (ff_nodup _ FF)].
      destruct Hks as (l1 & l2 & E1 & E2). rewrite E2. apply split_insert_NoDup.
      + rewrite <- E1, <- (kids_of_Some _ _ _ Hpar). apply (ff_nodup _ FF).
      + rewrite <- E1, <- (kids_of_Some _ _ _ Hpar). apply c_not_kid.
    - intros n Hn. apply alive_link in Hn. destruct (ff_root _ FF _ Hn) as [k Hk].
      destruct (depth_link _ _ Hk) as [[_ (k' & Hk')]|[_ Hk']]; eauto.
  Qed.

  Lemma NsInv_link : NsInv h -> NsInv link.
  Proof.
    intros [A W]. constructor.
    - intros m r' Hm. destruct (ns_loc_link _ _ Hm) as (r & Hr & E). rewrite E. eapply A; eauto.
    - exact W.
  Qed.
End Link.

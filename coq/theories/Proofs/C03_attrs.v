(* Proofs/C03_attrs.v — the model of Rule._validate_attributes (Model/Rule.v:
   validate_attrs) reports exactly the violated constraints of Spec/Attr.v, in the
   stated order; the introspection queries report what validation enforces. *)
From MP Require Import Common.Base Model.Rule Spec.Attr.

(** * Generic list facts *)
Lemma nodupb_NoDup l : nodupb l = true <-> NoDup l.
Proof.
  induction l as [|x r IH]; simpl.
  - split; [constructor | reflexivity].
  - rewrite andb_true_iff, negb_true_iff, smem_false, IH. split.
    + intros [H1 H2]; constructor; assumption.
    + intro H; inversion H; subst; split; assumption.
Qed.

Lemma assoc_In_nodup {V} k (v : V) d : NoDup (keys d) -> In (k, v) d -> assoc k d = Some v.
Proof.
  induction d as [|[k' v'] r IH]; simpl; [tauto|].
  intros ND [E|HI].
  - inversion E; subst. rewrite pystr_eqb_refl. reflexivity.
  - inversion ND as [|? ? NI ND']; subst.
    destruct (pystr_eqb_reflect k k') as [->|NE].
    + exfalso. apply NI. change (In (fst (k', v)) (map fst r)). apply in_map, HI.
    + apply IH; assumption.
Qed.

Lemma In_keys {V} k (d : list (pystr * V)) : In k (keys d) <-> exists v, In (k, v) d.
Proof.
  unfold keys. rewrite in_map_iff. split.
  - intros [[k' v] [E HI]]; simpl in E; subst. exists v; exact HI.
  - intros [v HI]. exists (k, v); split; [reflexivity | exact HI].
Qed.

Lemma assoc_Some_keys {V} k (d : list (pystr * V)) : In k (keys d) -> exists v, assoc k d = Some v.
Proof.
  intro H. destruct (assoc k d) eqn:E; [eexists; reflexivity|].
  apply assoc_None_keys in E. contradiction.
Qed.

Lemma In_dec_str (x : pystr) l : In x l \/ ~ In x l.
Proof. destruct (in_dec pystr_eq_dec x l); [left | right]; assumption. Qed.

(** * Well-formed specs: the model's readings agree with the spec's readings *)
Lemma wf_spec_shape sp : wf_attr_spec sp = true ->
  exists b vals, sp = RBool b :: map RStr vals /\ spec_values sp = vals /\ spec_required sp = b.
Proof.
  destruct sp as [|[x|n| |b|l] vals]; simpl; try discriminate.
  intro H. exists b.
  assert (exists vs, vals = map RStr vs /\ flat_map (fun v => match v with RStr x => [x] | _ => [] end) vals = vs) as [vs [E1 E2]].
  { clear b. induction vals as [|v r IH]; simpl in *.
    - exists []; split; reflexivity.
    - destruct v; try discriminate. destruct (IH H) as [vs [E1 E2]].
      exists (x :: vs); simpl; split; congruence. }
  exists vs. repeat split; [congruence | exact E2 | destruct b; reflexivity].
Qed.

Lemma rj_mem_str_map v vals : rj_mem_str v (map RStr vals) = smem v vals.
Proof.
  unfold rj_mem_str, smem. induction vals as [|x r IH]; simpl; [reflexivity|]. rewrite IH; reflexivity.
Qed.

Lemma rj_mem_str_In v l : rj_mem_str v l = true <-> In (RStr v) l.
Proof.
  unfold rj_mem_str. rewrite existsb_exists. split.
  - intros [x [HI E]]. destruct x; try discriminate. apply pystr_eqb_eq in E; subst; exact HI.
  - intro HI. exists (RStr v); split; [exact HI | apply pystr_eqb_refl].
Qed.

Lemma wf_attrs_split r : wf_attrs r = true ->
  (forall k sp, In (k, sp) r -> wf_attr_spec sp = true) /\ NoDup (keys r).
Proof.
  unfold wf_attrs. rewrite andb_true_iff, forallb_forall, nodupb_NoDup. intros [H1 H2]; split; [|exact H2].
  intros k sp HI. apply (H1 (k, sp) HI).
Qed.

(** * The collected list *)
Definition verr_of_aviol (v : aviol) : verr :=
  match v with
  | VRequired k => EAttrRequired k
  | VUnrecognized k => EAttrUnrecognized k
  | VEnum k => EAttrEnum k
  end.

Lemma req_fold (r : list (pystr * list rj)) (ks : list pystr) :
  (forall k sp, In (k, sp) r -> wf_attr_spec sp = true) ->
  fold_right (fun '(a, sp) acc =>
                match attr_required sp with
                | None => Crash [] (s "attr-spec-not-led-by-bool")
                | Some rq => res_app (Errs (if rq && negb (smem a ks) then [EAttrRequired a] else [])) acc
                end) (Errs []) r
  = Errs (map verr_of_aviol
            (flat_map (fun p => if spec_required (snd p) && negb (smem (fst p) ks) then [VRequired (fst p)] else []) r)).
Proof.
  induction r as [|[k sp] r IH]; intro W; [reflexivity|].
  cbn [fold_right flat_map fst snd].
  rewrite IH by (intros k' sp' HI; apply (W k' sp'); right; exact HI).
  destruct (wf_spec_shape sp (W k sp (or_introl eq_refl))) as [b [vals [E [_ Eb]]]].
  rewrite Eb. subst sp. cbn [attr_required res_app]. rewrite map_app.
  destruct (b && negb (smem k ks)); reflexivity.
Qed.

Lemma chk_fold (r : list (pystr * list rj)) (a : list (pystr * pystr)) :
  (forall k sp, In (k, sp) r -> wf_attr_spec sp = true) ->
  fold_right (fun '(k, v) acc =>
                match assoc k r with
                | None => res_app (Errs [EAttrUnrecognized k]) acc
                | Some sp =>
                    res_app (Errs (if Nat.ltb 1 (length sp) && negb (rj_mem_str v (attr_values sp))
                                   then [EAttrEnum k] else [])) acc
                end) (Errs []) a
  = Errs (map verr_of_aviol
            (flat_map (fun p => match assoc (fst p) r with
                                | None => [VUnrecognized (fst p)]
                                | Some sp => match spec_values sp with
                                             | [] => []
                                             | vals => if smem (snd p) vals then [] else [VEnum (fst p)]
                                             end
                                end) a)).
Proof.
  intro W. induction a as [|[k v] a IH]; [reflexivity|].
  cbn [fold_right flat_map fst snd].
  rewrite IH. rewrite map_app.
  destruct (assoc k r) as [sp|] eqn:E; [|reflexivity].
  destruct (wf_spec_shape sp (W k sp (assoc_Some_In _ _ _ E))) as [b [vals [Es [Ev _]]]].
  rewrite Ev. subst sp. unfold attr_values. simpl tl. rewrite rj_mem_str_map. simpl length. rewrite map_length.
  destruct vals as [|x vals]; simpl; [reflexivity|].
  destruct (smem v (x :: vals)); reflexivity.
Qed.

(** Collecting mode: exactly the violated constraints, in the stated order; no crash. *)
Theorem validate_attrs_collect r a : wf_attrs r = true ->
  validate_attrs r a = Errs (map verr_of_aviol (attr_violations r a)).
Proof.
  intro W. destruct (wf_attrs_split r W) as [W1 _].
  unfold validate_attrs, attr_violations.
  rewrite (req_fold r (keys a) W1), (chk_fold r a W1). simpl. rewrite map_app. reflexivity.
Qed.

(** Fail-fast mode raises for the first of them (all attribute errors are raised as
    the family's base class). *)
Theorem validate_attrs_failfast r a : wf_attrs r = true ->
  ff_of (validate_attrs r a) =
  match attr_violations r a with
  | [] => FOk
  | v :: _ => FRaise (class_of (verr_of_aviol v))
  end.
Proof.
  intro W. rewrite (validate_attrs_collect r a W).
  destruct (attr_violations r a); reflexivity.
Qed.

Lemma attr_class v : class_of (verr_of_aviol v) = s "MetapypeRuleError".
Proof. destruct v; reflexivity. Qed.

(** * The list is the set of violated constraints, each once *)
Theorem attr_violations_sound_complete r a v : wf_attrs r = true ->
  (In v (attr_violations r a) <-> violated r a v).
Proof.
  intro W. destruct (wf_attrs_split r W) as [W1 ND].
  unfold attr_violations. rewrite in_app_iff, !in_flat_map. split.
  - intros [[[k sp] [HI H]] | [[k x] [HI H]]]; simpl in H.
    + destruct (spec_required sp && negb (smem k (keys a))) eqn:E; [|destruct H].
      destruct H as [<-|[]]. apply andb_true_iff in E as [E1 E2].
      apply negb_true_iff, smem_false in E2. exists sp; auto.
    + destruct (assoc k r) as [sp|] eqn:E.
      * destruct (spec_values sp) as [|y vals] eqn:Ev; [destruct H|].
        destruct (smem x (y :: vals)) eqn:Em; [destruct H|]. destruct H as [<-|[]].
        exists x, sp. rewrite Ev. repeat split.
        -- exact HI.
        -- apply assoc_Some_In, E.
        -- discriminate.
        -- apply smem_false, Em.
      * destruct H as [<-|[]]. split.
        -- apply In_keys; exists x; exact HI.
        -- apply assoc_None_keys, E.
  - destruct v as [k|k|k]; simpl.
    + intros [sp [HI [Hr Hn]]]. left. exists (k, sp); split; [exact HI|]. simpl.
      rewrite Hr. apply smem_false in Hn. rewrite Hn. left; reflexivity.
    + intros [HI Hn]. right. apply In_keys in HI as [x HI]. exists (k, x); split; [exact HI|]. simpl.
      apply assoc_None_keys in Hn. rewrite Hn. left; reflexivity.
    + intros [x [sp [HI [Hr [Hne Hn]]]]]. right. exists (k, x); split; [exact HI|]. simpl.
      rewrite (assoc_In_nodup k sp r ND Hr).
      destruct (spec_values sp) as [|y vals] eqn:Ev; [congruence|].
      apply smem_false in Hn. rewrite Hn. left; reflexivity.
Qed.

Lemma NoDup_app_disj {B} (l1 l2 : list B) :
  NoDup l1 -> NoDup l2 -> (forall y, In y l1 -> ~ In y l2) -> NoDup (l1 ++ l2).
Proof.
  induction l1 as [|z l1 IH1]; simpl; intros N1 N2 D; [exact N2|].
  inversion N1; subst. constructor.
  - rewrite in_app_iff. intros [H|H]; [contradiction | apply (D z (or_introl eq_refl) H)].
  - apply IH1; auto.
Qed.

Lemma NoDup_flat_map_keys {A B} (f : A -> list B) (key : A -> pystr) (tag : B -> pystr) (l : list A) :
  (forall x y, In y (f x) -> tag y = key x) ->
  (forall x, NoDup (f x)) ->
  NoDup (map key l) -> NoDup (flat_map f l).
Proof.
  intros Ht Hf. induction l as [|x l IH]; simpl; intro ND; [constructor|].
  inversion ND as [|? ? NI ND']; subst.
  apply NoDup_app_disj; [apply Hf | apply IH, ND' |].
  intros y Hy Hy'. apply in_flat_map in Hy' as [x' [Hx' Hy']].
  apply NI. apply Ht in Hy. apply Ht in Hy'. rewrite <- Hy, Hy'. apply in_map, Hx'.
Qed.

Definition aviol_key (v : aviol) : pystr := match v with VRequired k | VUnrecognized k | VEnum k => k end.

(** one error per violated constraint: no constraint is reported twice *)
Theorem attr_violations_NoDup r a : wf_attrs r = true -> NoDup (keys a) -> NoDup (attr_violations r a).
Proof.
  intros W NDa. destruct (wf_attrs_split r W) as [_ NDr].
  unfold attr_violations.
  set (f1 := fun p : pystr * list rj => if spec_required (snd p) && negb (smem (fst p) (keys a)) then [VRequired (fst p)] else []).
  set (f2 := fun p : pystr * pystr => match assoc (fst p) r with
                     | None => [VUnrecognized (fst p)]
                     | Some sp => match spec_values sp with
                                  | [] => []
                                  | vals => if smem (snd p) vals then [] else [VEnum (fst p)]
                                  end
                     end).
  assert (N1 : NoDup (flat_map f1 r)).
  { apply (NoDup_flat_map_keys f1 fst aviol_key); [| |exact NDr].
    - intros x y. unfold f1. destruct (_ && _); simpl; [intros [<-|[]]; reflexivity | tauto].
    - intro x. unfold f1. destruct (_ && _); repeat constructor; simpl; tauto. }
  assert (N2 : NoDup (flat_map f2 a)).
  { apply (NoDup_flat_map_keys f2 fst aviol_key); [| |exact NDa].
    - intros x y. unfold f2. destruct (assoc (fst x) r) as [sp|]; simpl.
      + destruct (spec_values sp); simpl; [tauto|]. destruct (smem _ _); simpl; [tauto | intros [<-|[]]; reflexivity].
      + intros [<-|[]]; reflexivity.
    - intro x. unfold f2. destruct (assoc (fst x) r) as [sp|].
      + destruct (spec_values sp); [constructor|]. destruct (smem _ _); repeat constructor; simpl; tauto.
      + repeat constructor; simpl; tauto. }
  apply NoDup_app_disj; [exact N1 | exact N2 |].
  intros y H1 H2.
  apply in_flat_map in H1 as [x [_ Hx]]. unfold f1 in Hx.
  destruct (spec_required (snd x) && negb (smem (fst x) (keys a))); [|destruct Hx]. destruct Hx as [<-|[]].
  apply in_flat_map in H2 as [x2 [_ Hx2]]. unfold f2 in Hx2.
  destruct (assoc (fst x2) r) as [sp|].
  - destruct (spec_values sp); [destruct Hx2|]. destruct (smem _ _); [destruct Hx2|]. destruct Hx2 as [E|[]]; discriminate.
  - destruct Hx2 as [E|[]]; discriminate.
Qed.

(** * Acceptance = the three constraint families of the statement *)
Lemma attrs_ok_no_violation r a : attrs_ok r a <-> (forall v, ~ violated r a v).
Proof.
  unfold attrs_ok, required_present, only_listed, enumerated_ok. split.
  - intros [H1 [H2 H3]] [k|k|k]; simpl.
    + intros [sp [HI [Hr Hn]]]. apply Hn, (H1 k sp HI Hr).
    + intros [HI Hn]. apply In_keys in HI as [x HI]. apply Hn, (H2 k x HI).
    + intros [x [sp [HI [Hr [Hne Hn]]]]]. apply Hn, (H3 k x sp HI Hr Hne).
  - intro H. repeat split.
    + intros k sp HI Hr. destruct (In_dec_str k (keys a)) as [Y|N]; [exact Y|].
      exfalso. apply (H (VRequired k)). exists sp; auto.
    + intros k x HI. destruct (In_dec_str k (keys r)) as [Y|N]; [exact Y|].
      exfalso. apply (H (VUnrecognized k)). split; [apply In_keys; exists x; exact HI | exact N].
    + intros k x sp HI Hr Hne. destruct (In_dec_str x (spec_values sp)) as [Y|N]; [exact Y|].
      exfalso. apply (H (VEnum k)). exists x, sp; auto.
Qed.

Theorem validate_attrs_accepts_iff r a : wf_attrs r = true ->
  (validate_attrs r a = Errs [] <-> attrs_ok r a).
Proof.
  intro W. rewrite (validate_attrs_collect r a W), attrs_ok_no_violation. split.
  - intros E v Hv. apply (attr_violations_sound_complete r a v W) in Hv.
    destruct (attr_violations r a); [destruct Hv | discriminate].
  - intro H. destruct (attr_violations r a) as [|v l] eqn:E; [reflexivity|].
    exfalso. apply (H v). apply (attr_violations_sound_complete r a v W). rewrite E; left; reflexivity.
Qed.

Theorem validate_attrs_failfast_ok_iff r a : wf_attrs r = true ->
  (ff_of (validate_attrs r a) = FOk <-> attrs_ok r a).
Proof.
  intro W. rewrite <- (validate_attrs_accepts_iff r a W), (validate_attrs_collect r a W).
  destruct (attr_violations r a); simpl; split; intro H; try reflexivity; discriminate.
Qed.

(** * Introspection queries *)
Theorem is_required_reports_table r k sp : wf_attrs r = true -> In (k, sp) r ->
  is_required_attribute r k = Some (Some (spec_required sp)).
Proof.
  intros W HI. destruct (wf_attrs_split r W) as [W1 ND].
  unfold is_required_attribute. rewrite (assoc_In_nodup k sp r ND HI).
  destruct (wf_spec_shape sp (W1 k sp HI)) as [b [vals [E [_ Eb]]]]. rewrite Eb. subst sp. reflexivity.
Qed.

Theorem allowed_values_reports_table r k sp : wf_attrs r = true -> In (k, sp) r ->
  allowed_attribute_values r k = Some (map RStr (spec_values sp)).
Proof.
  intros W HI. destruct (wf_attrs_split r W) as [W1 ND].
  unfold allowed_attribute_values. rewrite (assoc_In_nodup k sp r ND HI).
  destruct (wf_spec_shape sp (W1 k sp HI)) as [b [vals [E [Ev _]]]]. rewrite Ev. subst sp.
  unfold attr_values. simpl. rewrite map_length. destruct vals; reflexivity.
Qed.

Theorem introspection_unknown r k : ~ In k (keys r) ->
  is_required_attribute r k = None /\ allowed_attribute_values r k = None.
Proof.
  intro H. apply assoc_None_keys in H. unfold is_required_attribute, allowed_attribute_values. rewrite H. split; reflexivity.
Qed.

Lemma In_omit k a k' x : In (k', x) (omit k a) <-> In (k', x) a /\ k' <> k.
Proof.
  unfold omit. rewrite filter_In. simpl. rewrite negb_true_iff, pystr_eqb_neq. tauto.
Qed.

Lemma In_keys_omit k a k' : In k' (keys (omit k a)) <-> In k' (keys a) /\ k' <> k.
Proof.
  rewrite !In_keys. split.
  - intros [x H]. apply In_omit in H as [H1 H2]. split; [exists x; exact H1 | exact H2].
  - intros [[x H1] H2]. exists x. apply In_omit; auto.
Qed.

(** "is this attribute required" <-> omitting it from an accepted assignment is a violation *)
Theorem is_required_semantic r a k : wf_attrs r = true -> In k (keys r) -> attrs_ok r a ->
  (is_required_attribute r k = Some (Some true) <-> ~ attrs_ok r (omit k a)).
Proof.
  intros W Hk [H1 [H2 H3]]. destruct (wf_attrs_split r W) as [W1 ND].
  apply In_keys in Hk as [sp Hsp]. rewrite (is_required_reports_table r k sp W Hsp). split.
  - intros E [G1 _]. inversion E as [Er].
    apply (G1 k sp Hsp) in Er. apply In_keys_omit in Er as [_ N]. apply N; reflexivity.
  - intro N. destruct (spec_required sp) eqn:Er; [reflexivity|]. exfalso. apply N. repeat split.
    + intros k' sp' HI Hr. apply In_keys_omit. split; [apply (H1 k' sp' HI Hr)|].
      intros ->.
      pose proof (assoc_In_nodup k sp' r ND HI) as E'. rewrite (assoc_In_nodup k sp r ND Hsp) in E'.
      inversion E'; subst. congruence.
    + intros k' x HI. apply In_omit in HI as [HI _]. apply (H2 k' x HI).
    + intros k' x sp' HI Hr Hne. apply In_omit in HI as [HI _]. apply (H3 k' x sp' HI Hr Hne).
Qed.

(** "which values may it take": v is reported <-> (no enumeration or) setting k := v
    in an accepted assignment is not a violation *)
Theorem allowed_values_semantic r a k vals v : wf_attrs r = true ->
  allowed_attribute_values r k = Some vals -> attrs_ok r a ->
  ((vals = [] \/ In (RStr v) vals) <-> attrs_ok r (assign k v a)).
Proof.
  intros W Ha [H1 [H2 H3]]. destruct (wf_attrs_split r W) as [W1 ND].
  assert (Hk : In k (keys r)).
  { destruct (In_dec_str k (keys r)) as [Y|N]; [exact Y|].
    destruct (introspection_unknown r k N) as [_ E]. congruence. }
  apply In_keys in Hk as [sp Hsp].
  rewrite (allowed_values_reports_table r k sp W Hsp) in Ha. inversion Ha; subst vals. clear Ha.
  assert (Hin : In (RStr v) (map RStr (spec_values sp)) <-> In v (spec_values sp)).
  { rewrite in_map_iff. split; [intros [y [E HI]]; inversion E; subst; exact HI | intro HI; exists v; auto]. }
  rewrite Hin. unfold assign. split.
  - intro Hv. repeat split.
    + intros k' sp' HI Hr. simpl. destruct (pystr_eq_dec k k') as [E|NE]; [left; exact E | right].
      apply In_keys_omit. split; [apply (H1 k' sp' HI Hr) | congruence].
    + intros k' x [E|HI].
      * inversion E; subst. apply In_keys. exists sp; exact Hsp.
      * apply In_omit in HI as [HI _]. apply (H2 k' x HI).
    + intros k' x sp' [E|HI] Hr Hne.
      * inversion E; subst k' x.
        pose proof (assoc_In_nodup k sp' r ND Hr) as E'. rewrite (assoc_In_nodup k sp r ND Hsp) in E'.
        inversion E'; subst sp'. destruct Hv as [Hv|Hv]; [|exact Hv].
        exfalso. apply Hne. destruct (spec_values sp); [reflexivity | discriminate].
      * apply In_omit in HI as [HI _]. apply (H3 k' x sp' HI Hr Hne).
  - intros [_ [_ G3]]. destruct (spec_values sp) as [|y l] eqn:Ev; [left; reflexivity | right].
    rewrite <- Ev. apply (G3 k v sp); [left; reflexivity | exact Hsp | rewrite Ev; discriminate].
Qed.

(** * Non-vacuity: a table with a required enumerated attribute *)
Definition ex_table : list (pystr * list rj) :=
  [(s "id", [RBool false]); (s "scope", [RBool true; RStr (s "document"); RStr (s "system")])].

Example ex_table_wf : wf_attrs ex_table = true.
Proof. vm_compute. reflexivity. Qed.

Example ex_accept : attrs_ok ex_table [(s "scope", s "system")].
Proof. apply (validate_attrs_accepts_iff _ _ ex_table_wf). vm_compute. reflexivity. Qed.

Example ex_violations :
  attr_violations ex_table [(s "zz", s "1"); (s "id", s "7")] = [VRequired (s "scope"); VUnrecognized (s "zz")]
  /\ attr_violations ex_table [(s "scope", s "other")] = [VEnum (s "scope")].
Proof. split; vm_compute; reflexivity. Qed.

Example ex_required_omit : ~ attrs_ok ex_table (omit (s "scope") [(s "scope", s "system")]).
Proof.
  apply (is_required_semantic ex_table _ (s "scope") ex_table_wf).
  - vm_compute. tauto.
  - exact ex_accept.
  - vm_compute. reflexivity.
Qed.

(** * Packaged statements used by Properties/C03.v *)
Lemma C03_accepts_iff_l : forall r a, wf_attrs r = true ->
  (validate_attrs r a = Errs [] <-> attrs_ok r a) /\
  (ff_of (validate_attrs r a) = FOk <-> attrs_ok r a).
Proof. intros r a W. split; [exact (validate_attrs_accepts_iff r a W) | exact (validate_attrs_failfast_ok_iff r a W)]. Qed.

Lemma C03_collect_l : forall r a, wf_attrs r = true ->
  validate_attrs r a = Errs (map verr_of_aviol (attr_violations r a)) /\
  ff_of (validate_attrs r a) = match attr_violations r a with
                               | [] => FOk
                               | v :: _ => FRaise (class_of (verr_of_aviol v))
                               end.
Proof. intros r a W. split; [exact (validate_attrs_collect r a W) | exact (validate_attrs_failfast r a W)]. Qed.

Lemma C03_one_per_violation_l : forall r a, wf_attrs r = true -> NoDup (keys a) ->
  (forall v, In v (attr_violations r a) <-> violated r a v) /\ NoDup (attr_violations r a).
Proof.
  intros r a W ND. split; [intro v; exact (attr_violations_sound_complete r a v W) | exact (attr_violations_NoDup r a W ND)].
Qed.

Lemma C03_introspection_table_l : forall r k sp, wf_attrs r = true -> In (k, sp) r ->
  is_required_attribute r k = Some (Some (spec_required sp)) /\
  allowed_attribute_values r k = Some (map RStr (spec_values sp)).
Proof. intros r k sp W HI. split; [exact (is_required_reports_table r k sp W HI) | exact (allowed_values_reports_table r k sp W HI)]. Qed.

Lemma C03_from_table (rules : list (pystr * rule_raw)) :
  forallb (fun r => wf_attrs (rr_attrs (snd r))) rules = true ->
  forall rn r a, In (rn, r) rules ->
  (validate_attrs (rr_attrs r) a = Errs [] <-> attrs_ok (rr_attrs r) a) /\
  validate_attrs (rr_attrs r) a = Errs (map verr_of_aviol (attr_violations (rr_attrs r) a)).
Proof.
  intros T rn r a HI.
  pose proof (proj1 (forallb_forall _ _) T (rn, r) HI) as W. simpl in W.
  split; [exact (validate_attrs_accepts_iff _ a W) | exact (validate_attrs_collect _ a W)].
Qed.

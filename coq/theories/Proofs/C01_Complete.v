(* Proofs/C01_Complete.v — completeness of the greedy children matcher under the side
   condition greedy_ok: a word of the strict language L, followed by anything whose first
   name is foreign to the spec, is consumed exactly and without error. *)
From MP Require Import Common.Base Model.Rule Spec.Lang Spec.GreedyOk
  Proofs.C01_Total Proofs.C01_Lang Proofs.C01_Sound.

(** * Lists without duplicates *)
Lemma nodup_names_spec l : nodup_names l = true <-> NoDup l.
Proof.
  induction l as [|x l IH]; simpl.
  - split; [constructor | reflexivity].
  - rewrite andb_true_iff, negb_true_iff, smem_false, IH. split.
    + intros [A B]. constructor; assumption.
    + intro H. inversion H; subst. split; assumption.
Qed.

Lemma NoDup_app_l {A} (a b : list A) : NoDup (a ++ b) -> NoDup a.
Proof.
  induction a as [|x a IH]; simpl; intro H; [constructor|].
  inversion H; subst. constructor; [|apply IH; assumption].
  intro Hx. apply H2. apply in_or_app. left. exact Hx.
Qed.

Lemma NoDup_app_r {A} (a b : list A) : NoDup (a ++ b) -> NoDup b.
Proof.
  induction a as [|x a IH]; simpl; intro H; [assumption|].
  inversion H; subst. apply IH; assumption.
Qed.

Lemma NoDup_app_disj {A} (a b : list A) x : NoDup (a ++ b) -> In x a -> In x b -> False.
Proof.
  induction a as [|y a IH]; simpl; intros H Ha Hb; [contradiction|].
  inversion H; subst. destruct Ha as [->|Ha].
  - apply H2. apply in_or_app. right. exact Hb.
  - apply IH; assumption.
Qed.

Lemma NoDup_alt_names_in alts a : NoDup (alt_names alts) -> In a alts -> NoDup (names_of a).
Proof.
  induction alts as [|b r IH]; intros H Hin; [contradiction|].
  rewrite alt_names_cons in H. destruct Hin as [->|Hin].
  - apply NoDup_app_l in H. exact H.
  - apply IH; [apply NoDup_app_r in H; exact H | exact Hin].
Qed.

Lemma in_alt_names alts a x : In a alts -> In x (names_of a) -> In x (alt_names alts).
Proof.
  intros Ha Hx. unfold alt_names. apply in_flat_map. exists a. split; assumption.
Qed.

Lemma head_in_false_app v a b : head_in v (a ++ b) = false -> head_in v a = false /\ head_in v b = false.
Proof. rewrite head_in_app. apply orb_false_iff. Qed.

Lemma head_in_incl v a b : incl a b -> head_in v b = false -> head_in v a = false.
Proof.
  destruct v as [|x v]; simpl; [reflexivity|]. intros Hi H.
  apply smem_false. apply smem_false in H. intro Hx. apply H. apply Hi. exact Hx.
Qed.

(** the head of [u ++ v] avoids [A] when [u] is over an alphabet disjoint from [A] *)
Lemma head_notin_app u v (A B : list pystr) :
  Forall (fun x => In x B) u -> NoDup (A ++ B) -> head_in v A = false -> head_in (u ++ v) A = false.
Proof.
  destruct u as [|x u]; simpl; intros HF HN Hv; [exact Hv|].
  inversion HF; subst. apply smem_false. intro Hx. eapply NoDup_app_disj; eauto.
Qed.

Definition complete_step (f : mstate -> option mstate) (ns : list pystr) (Lg : list pystr -> Prop) : Prop :=
  forall u v e, Lg u -> head_in v ns = false -> f (u ++ v, e) = Some (v, e).

(** * Rule child: an exact match followed by a different name *)
Lemma rule_child_complete n lo hi lm : forall k occ v e,
  head_in v [n] = false -> lo <= occ + k -> le_hi (occ + k) hi ->
  rule_child n lo hi lm occ (repeat n k ++ v) e = (v, e).
Proof.
  induction k as [|k IH]; intros occ v e Hv Hlo Hhi.
  - simpl. rewrite Nat.add_0_r in *.
    assert (Nat.ltb occ lo = false) as X by (apply Nat.ltb_ge; lia).
    destruct v as [|x v]; simpl; rewrite X; [reflexivity|].
    rewrite head_in_single in Hv.
    assert (pystr_eqb n x = false) as Y.
    { apply pystr_eqb_neq. apply pystr_eqb_neq in Hv. congruence. }
    rewrite Y. reflexivity.
  - simpl. rewrite pystr_eqb_refl.
    destruct (lm && hi_reached hi (S occ)) eqn:R.
    + apply andb_true_iff in R as [_ R]. destruct hi as [h|]; unfold hi_reached in R; [|discriminate].
      apply Nat.eqb_eq in R. simpl in Hhi. assert (k = 0) as -> by lia. reflexivity.
    + assert (hi_exceeded hi (S occ) = false) as X.
      { destruct hi as [h|]; simpl in *; [|reflexivity]. apply Nat.ltb_ge. lia. }
      rewrite X. apply IH; [exact Hv | lia | replace (S occ + k) with (occ + S k) by lia; exact Hhi].
Qed.

(** * Iterating choice over rule children *)
Definition lt_hi (k : nat) (hi : option nat) : Prop :=
  match hi with None => True | Some h => k < h end.

Lemma not_reached_next hi occ :
  lt_hi occ hi -> hi_reached hi (S occ) = false -> hi_exceeded hi (S occ) = false /\ lt_hi (S occ) hi.
Proof.
  destruct hi as [h|]; unfold hi_reached, hi_exceeded, lt_hi; intros H R; [|split; [reflexivity | exact I]].
  apply Nat.eqb_neq in R. split; [apply Nat.ltb_ge; lia | lia].
Qed.

Section Blocks.
  Variable alts : list spec.
  Variable v : list pystr.
  Hypothesis Hv : head_in v (alt_names alts) = false.

  Definition block_ok (w : list pystr) : Prop :=
    exists n lo hi k, In (El n lo hi) alts /\ w = repeat n k /\ 1 <= k /\ le_hi k hi.
  Definition blocks_ok (ws : list (list pystr)) : Prop := Forall block_ok ws.

  Lemma block_nonempty w : block_ok w -> w <> [].
  Proof. intros (n & lo & hi & k & _ & -> & Hk & _). destruct k; [lia | discriminate]. Qed.

  Lemma blocks_len ws : blocks_ok ws -> length ws <= length (concat ws).
  Proof.
    induction ws as [|w ws IH]; intro H; simpl; [lia|].
    inversion H; subst. rewrite app_length. specialize (IH H3).
    apply block_nonempty in H2. destruct w; [congruence|]. simpl. lia.
  Qed.

  Lemma v_head_ne n lo hi : In (El n lo hi) alts -> head_in v [n] = false.
  Proof.
    intro Hin. eapply head_in_incl; [|exact Hv].
    intros x [<-|[]]. eapply in_alt_names; [exact Hin | left; reflexivity].
  Qed.

  (** continuing past its own block, a limited rule child eats into the following blocks
      of the same name; what remains is again a list of blocks, no longer than before *)
  Lemma absorb n lo hi : In (El n lo hi) alts -> lo <= 1 ->
    forall m ws occ e, length (concat ws) <= m -> blocks_ok ws -> 1 <= occ -> lt_hi occ hi ->
    exists ws', rule_child n lo hi true occ (concat ws ++ v) e = (concat ws' ++ v, e) /\
                blocks_ok ws' /\ length ws' <= length ws.
  Proof.
    intros Hin Hlo. induction m as [|m IH]; intros ws occ e Hm Hb Hocc Hlt.
    - (* no names left in the blocks *)
      destruct ws as [|b ws].
      + exists []. simpl. split; [|split; [constructor | lia]].
        rewrite <- (app_nil_l v) at 1. change [] with (repeat n 0) at 1.
        apply rule_child_complete; [eapply v_head_ne; exact Hin | lia |].
        rewrite Nat.add_0_r. destruct hi; simpl in *; [lia | exact I].
      + inversion Hb; subst. apply block_nonempty in H1. simpl in Hm. rewrite app_length in Hm.
        destruct b; [congruence | simpl in Hm; lia].
    - destruct ws as [|b ws].
      + apply (IH [] occ e); [simpl; lia | constructor | assumption | assumption].
      + inversion Hb as [|? ? Hb1 Hb2]; subst.
        destruct Hb1 as (n' & lo' & hi' & k & Hin' & -> & Hk & Hhi').
        destruct k as [|k]; [lia|].
        assert (concat (repeat n' (S k) :: ws) ++ v = n' :: (repeat n' k ++ concat ws ++ v)) as Ew
          by (simpl; rewrite <- app_assoc; reflexivity).
        rewrite Ew. cbn [rule_child].
        destruct (pystr_eqb_reflect n n') as [<-|NE].
        * cbn [andb].
          destruct (hi_reached hi (S occ)) eqn:R.
          -- (* limit reached inside this block *)
             destruct k as [|k].
             ++ exists ws. simpl. repeat split; [assumption | lia].
             ++ exists (repeat n (S k) :: ws). split; [|split].
                ** simpl. rewrite <- app_assoc. reflexivity.
                ** constructor; [|assumption]. exists n, lo', hi', (S k).
                   repeat split; [assumption | lia |]. destruct hi'; simpl in *; [lia | exact I].
                ** simpl. lia.
          -- destruct (not_reached_next hi occ Hlt R) as [X Y].
             rewrite X.
             destruct k as [|k].
             ++ simpl repeat. simpl app.
                destruct (IH ws (S occ) e) as (ws' & E & B & Len);
                  [simpl in Hm; lia | assumption | lia | assumption |].
                exists ws'. split; [exact E | split; [exact B | simpl; lia]].
             ++ destruct (IH (repeat n (S k) :: ws) (S occ) e) as (ws' & E & B & Len).
                ** simpl in *. rewrite app_length in *. simpl in *. lia.
                ** constructor; [|assumption]. exists n, lo', hi', (S k).
                   repeat split; [assumption | lia |]. destruct hi'; simpl in *; [lia | exact I].
                ** lia.
                ** assumption.
                ** exists ws'. split; [|split; [exact B | simpl in *; lia]].
                   rewrite <- E. simpl. rewrite <- app_assoc. reflexivity.
        * (* the next block has another name: stop; minimum is met *)
          assert (Nat.ltb occ lo = false) as X by (apply Nat.ltb_ge; lia).
          rewrite X. exists (repeat n' (S k) :: ws). split; [|split; [assumption | lia]].
          simpl. rewrite <- app_assoc. reflexivity.
  Qed.

  Lemma consume_block n lo hi : In (El n lo hi) alts -> lo <= 1 ->
    forall j ws occ e, blocks_ok ws -> lt_hi occ hi -> le_hi (occ + j) hi -> 1 <= occ + j ->
    exists ws', rule_child n lo hi true occ (repeat n j ++ concat ws ++ v) e = (concat ws' ++ v, e) /\
                blocks_ok ws' /\ length ws' <= length ws.
  Proof.
    intros Hin Hlo. induction j as [|j IH]; intros ws occ e Hb Hlt Hle Hocc.
    - simpl. apply (absorb n lo hi Hin Hlo (length (concat ws))); [lia | assumption | lia | assumption].
    - simpl repeat. simpl app. cbn [rule_child]. rewrite pystr_eqb_refl. cbn [andb].
      destruct (hi_reached hi (S occ)) eqn:R.
      + destruct hi as [h|]; unfold hi_reached in R; [|discriminate].
        apply Nat.eqb_eq in R. simpl in Hle. assert (j = 0) as -> by lia.
        exists ws. simpl. repeat split; [assumption | lia].
      + destruct (not_reached_next hi occ Hlt R) as [X Y].
        rewrite X. apply IH; [assumption | assumption | | lia].
        replace (S occ + j) with (occ + S j) by lia. exact Hle.
  Qed.

  Hypothesis Hnd : NoDup (alt_names alts).

  Lemma el_unique n lo hi lo' hi' :
    In (El n lo hi) alts -> In (El n lo' hi') alts -> lo = lo' /\ hi = hi'.
  Proof.
    clear Hv. revert Hnd. induction alts as [|a r IH]; intros HN H1 H2; [contradiction|].
    rewrite alt_names_cons in HN.
    destruct H1 as [->|H1], H2 as [E|H2].
    - injection E as -> ->. split; reflexivity.
    - exfalso. eapply NoDup_app_disj; [exact HN | left; reflexivity |].
      eapply in_alt_names; [exact H2 | left; reflexivity].
    - subst a. exfalso. eapply NoDup_app_disj; [exact HN | left; reflexivity |].
      eapply in_alt_names; [exact H1 | left; reflexivity].
    - apply IH; [apply NoDup_app_r in HN; exact HN | assumption | assumption].
  Qed.

  Variable mixed : bool.
  Hypothesis Hsmall : forallb small_el alts = true.

  Lemma small_el_inv a : In a alts -> exists n lo hi, a = El n lo hi /\ lo <= 1.
  Proof.
    intro Hin. rewrite forallb_forall in Hsmall. specialize (Hsmall a Hin).
    destruct a as [n lo hi| |]; simpl in Hsmall; try discriminate.
    exists n, lo, hi. split; [reflexivity | apply Nat.leb_le; exact Hsmall].
  Qed.

  (** one pass over (a suffix of) the alternatives *)
  Lemma pass_blocks : forall l, incl l alts ->
    forall ws occ e, blocks_ok ws ->
    exists ws' c,
      pass_of (fun a => m_spec mixed a true) l (concat ws ++ v, e) occ = Some ((concat ws' ++ v, e), occ + c) /\
      blocks_ok ws' /\ length ws' + c <= length ws /\
      (head_in (concat ws ++ v) (alt_names l) = true -> 1 <= c).
  Proof.
    induction l as [|a r IH]; intros Hincl ws occ e Hb.
    - exists ws, 0. simpl. rewrite Nat.add_0_r. repeat split; [assumption | lia |].
      unfold alt_names; simpl. rewrite head_in_nil_r. discriminate.
    - assert (incl r alts) as Hincl' by (intros x Hx; apply Hincl; right; exact Hx).
      assert (In a alts) as Hina by (apply Hincl; left; reflexivity).
      destruct (small_el_inv a Hina) as (n & lo & hi & -> & Hlo).
      cbn [pass_of]. simpl fst.
      destruct (concat ws ++ v) as [|x rem] eqn:Erem.
      + simpl. exists ws, 0. rewrite Erem, Nat.add_0_r. repeat split; [assumption | lia | discriminate].
      + cbn [is_nil]. rewrite alt_names_cons, head_in_app.
        change (names_of (El n lo hi)) with [n].
        destruct (head_in (x :: rem) [n]) eqn:Hd.
        * (* the alternative fires: the first block has its name *)
          rewrite head_in_single in Hd. apply pystr_eqb_eq in Hd. subst x.
          rewrite m_spec_El. simpl fst. simpl snd.
          destruct ws as [|b ws].
          { simpl in Erem. exfalso. pose proof (v_head_ne n lo hi Hina) as Hx.
            rewrite Erem, head_in_single, pystr_eqb_refl in Hx. discriminate. }
          inversion Hb as [|? ? Hb1 Hb2]; subst.
          destruct Hb1 as (n' & lo' & hi' & k & Hin' & -> & Hk & Hhi').
          assert (n' = n) as ->.
          { destruct k; [lia|]. simpl in Erem. congruence. }
          destruct (el_unique n lo hi lo' hi' Hina Hin') as [<- <-].
          rewrite <- Erem. simpl concat. rewrite <- app_assoc.
          destruct (consume_block n lo hi Hina Hlo k ws 0 e Hb2) as (ws1 & E1 & B1 & Len1);
            [destruct hi; simpl in *; [lia | exact I] | exact Hhi' | lia |].
          rewrite E1.
          destruct (IH Hincl' ws1 (S occ) e B1) as (ws' & c & E2 & B2 & Len2 & _).
          exists ws', (S c). rewrite E2. split; [|split; [|split]].
          -- replace (S occ + c) with (occ + S c) by lia. reflexivity.
          -- assumption.
          -- simpl. lia.
          -- intros _. lia.
        * rewrite <- Erem. cbn [orb].
          destruct (IH Hincl' ws occ e Hb) as (ws' & c & E2 & B2 & Len2 & P2).
          exists ws', c. rewrite E2. repeat split; assumption.
  Qed.

  Lemma blocks_head_in b ws : blocks_ok (b :: ws) -> head_in (concat (b :: ws) ++ v) (alt_names alts) = true.
  Proof.
    intro Hb. inversion Hb as [|? ? Hb1 Hb2]; subst.
    destruct Hb1 as (n & lo & hi & k & Hin & -> & Hk & _).
    destruct k; [lia|]. simpl. apply smem_In. eapply in_alt_names; [exact Hin | left; reflexivity].
  Qed.

  (** the while loop consumes all blocks using at most one occurrence per block *)
  Lemma loop_blocks : forall fuel ws occ e, blocks_ok ws -> length ws < fuel ->
    exists c,
      loop_of (pass_of (fun a => m_spec mixed a true) alts) (alt_names alts) fuel (concat ws ++ v, e) occ
        = Some ((v, e), occ + c) /\
      c <= length ws /\ (ws <> [] -> 1 <= c).
  Proof.
    induction fuel as [|f IH]; intros ws occ e Hb Hf; [lia|].
    cbn [loop_of]. simpl fst. destruct ws as [|b ws].
    - simpl. rewrite Hv. exists 0. rewrite Nat.add_0_r. repeat split; [lia | congruence].
    - rewrite (blocks_head_in b ws Hb).
      destruct (pass_blocks alts (incl_refl _) (b :: ws) occ e Hb) as (ws' & c1 & E1 & B1 & Len1 & P1).
      rewrite E1. specialize (P1 (blocks_head_in b ws Hb)).
      destruct (IH ws' (occ + c1) e B1) as (c2 & E2 & Len2 & _); [simpl in *; lia|].
      exists (c1 + c2). rewrite E2. rewrite Nat.add_assoc. repeat split; [simpl in *; lia | lia].
  Qed.
End Blocks.

(** occurrences of an iterating choice are blocks *)
Lemma LOccs_blocks mixed alts ws :
  forallb small_el alts = true -> LOccs mixed alts ws -> blocks_ok alts ws.
Proof.
  intros Hs H. apply LOccs_Forall in H. unfold blocks_ok.
  eapply Forall_impl; [|exact H]. intros w [Hne HA].
  apply LAlt_inv in HA as (a & Hin & La).
  destruct (small_el_inv alts Hs a Hin) as (n & lo & hi & -> & Hlo).
  apply L_El_inv in La as (k & -> & Hk & Hhi).
  exists n, lo, hi, k. repeat split; try assumption.
  destruct k; [simpl in Hne; congruence | lia].
Qed.

(** * Sequences *)
Lemma seq_of_complete mixed f : forall items,
  Forall (fun i => complete_step (f i) (names_of i) (L mixed i)) items ->
  NoDup (alt_names items) ->
  forall ws v e, LSeq mixed items ws -> head_in v (alt_names items) = false ->
  seq_of f items (concat ws ++ v, e) = Some (v, e).
Proof.
  induction items as [|i r IH]; intros HF HN ws v e HL Hv.
  - apply LSeq_nil_inv in HL. subst ws. reflexivity.
  - apply LSeq_cons_inv in HL as (w & ws' & -> & Lw & Lws).
    inversion HF as [|? ? Hi Hr]; subst.
    rewrite alt_names_cons in *. apply head_in_false_app in Hv as [Hv1 Hv2].
    simpl concat. rewrite <- app_assoc. cbn [seq_of].
    rewrite (Hi w (concat ws' ++ v) e Lw).
    + apply IH; [assumption | apply NoDup_app_r in HN; exact HN | assumption | assumption].
    + eapply head_notin_app; [apply (LSeq_names _ _ _ Lws) | exact HN | exact Hv1].
Qed.

(** * A single occurrence of a choice *)
Lemma pass_skip f : forall l st occ,
  head_in (fst st) (alt_names l) = false -> pass_of f l st occ = Some (st, occ).
Proof.
  induction l as [|a r IH]; intros st occ H; [reflexivity|].
  cbn [pass_of]. destruct (is_nil (fst st)); [reflexivity|].
  rewrite alt_names_cons in H. apply head_in_false_app in H as [H1 H2].
  rewrite H1. apply IH. exact H2.
Qed.

Lemma pass_single mixed f : forall l,
  Forall (fun a => complete_step (f a) (names_of a) (L mixed a)) l ->
  NoDup (alt_names l) ->
  forall w v e occ, LAlt mixed l w -> w <> [] -> head_in v (alt_names l) = false ->
  pass_of f l (w ++ v, e) occ = Some ((v, e), S occ).
Proof.
  induction l as [|a r IH]; intros HF HN w v e occ HA Hne Hv; [inversion HA|].
  inversion HF as [|? ? Ha Hr]; subst.
  rewrite alt_names_cons in *. pose proof (head_in_false_app _ _ _ Hv) as [Hv1 Hv2].
  cbn [pass_of]. simpl fst.
  destruct w as [|x w]; [congruence|]. simpl app. cbn [is_nil].
  apply LAlt_cons_inv in HA as [La|HA].
  - pose proof (L_names _ _ _ La) as Hn. inversion Hn as [|? ? Hx _]; subst.
    assert (head_in (x :: w ++ v) (names_of a) = true) as Hd by (simpl; apply smem_In; exact Hx).
    rewrite Hd. change (x :: w ++ v) with ((x :: w) ++ v).
    rewrite (Ha (x :: w) v e La Hv1). apply pass_skip. exact Hv2.
  - pose proof (LAlt_names _ _ _ HA) as Hn. inversion Hn as [|? ? Hx _]; subst.
    assert (head_in (x :: w ++ v) (names_of a) = false) as Hd.
    { simpl. apply smem_false. intro Hy. eapply NoDup_app_disj; eauto. }
    rewrite Hd. change (x :: w ++ v) with ((x :: w) ++ v).
    apply IH; [assumption | apply NoDup_app_r in HN; exact HN | assumption | discriminate | assumption].
Qed.

(** * The matcher is complete for greedy_ok specs *)
Lemma is_one_spec hi : is_one hi = true -> hi = Some 1.
Proof. destruct hi as [[|[|h]]|]; simpl; try discriminate. reflexivity. Qed.

Theorem m_spec_complete mixed : forall sp,
  shape_ok sp = true -> NoDup (names_of sp) ->
  forall lm, complete_step (m_spec mixed sp lm) (names_of sp) (L mixed sp).
Proof.
  induction sp as [n lo hi|items IH|alts lo hi IH] using spec_ind'; intros Hok HN lm u v e HL Hv.
  - apply L_El_inv in HL as (k & -> & Hlo & Hhi).
    rewrite m_spec_El. simpl fst. simpl snd. f_equal.
    apply rule_child_complete; [exact Hv | lia | exact Hhi].
  - apply L_Seq_inv in HL as (ws & HL & ->).
    rewrite m_spec_Seq. simpl in Hok. apply andb_true_iff in Hok as [_ Hok].
    rewrite forallb_forall in Hok.
    apply seq_of_complete with (mixed := mixed); try assumption.
    rewrite Forall_forall in *. intros i Hi. apply IH; [exact Hi | |].
    + specialize (Hok i Hi). apply andb_true_iff in Hok as [_ Hok]. exact Hok.
    + eapply NoDup_alt_names_in; [exact HN | exact Hi].
  - apply L_Cho_inv in HL as (ws & HL & Hmin & Hmax & ->).
    rewrite m_spec_Cho. simpl in Hok.
    repeat (apply andb_true_iff in Hok as [Hok ?]).
    change (names_of (Cho alts lo hi)) with (alt_names alts) in *.
    simpl fst.
    destruct (forallb small_el alts && Nat.leb lo 1) eqn:Hit.
    + (* alternatives are rule children with lo <= 1: counting argument *)
      apply andb_true_iff in Hit as [Hs Hlo1]. apply Nat.leb_le in Hlo1.
      pose proof (LOccs_blocks mixed alts ws Hs HL) as Hb.
      destruct (loop_blocks alts v Hv HN mixed Hs (S (length (concat ws ++ v))) ws 0 e Hb) as (c & E & Hc & Hc1).
      { pose proof (blocks_len alts ws Hb). rewrite app_length. lia. }
      rewrite E. simpl. f_equal. f_equal.
      assert (hi_exceeded hi c = false) as X1.
      { destruct hi as [h|]; simpl in *; [|reflexivity]. apply Nat.ltb_ge. lia. }
      assert (Nat.ltb c lo && negb mixed = false) as X2.
      { destruct mixed; [apply andb_false_r|]. rewrite andb_true_r. apply Nat.ltb_ge.
        destruct Hmin as [?|Hmin]; [discriminate|].
        destruct ws as [|w ws]; [simpl in Hmin; lia|].
        assert (1 <= c) by (apply Hc1; discriminate). lia. }
      rewrite X1, X2. rewrite app_nil_r. reflexivity.
    + (* the choice occurs at most once *)
      rewrite orb_false_r in H. apply is_one_spec in H. subst hi.
      assert (Forall (fun a => complete_step (m_spec mixed a true) (names_of a) (L mixed a)) alts) as HF.
      { rewrite forallb_forall in H0. rewrite Forall_forall in *. intros a Ha. apply IH; [exact Ha | auto |].
        eapply NoDup_alt_names_in; [exact HN | exact Ha]. }
      destruct ws as [|w [|w2 ws]]; [| |simpl in Hmax; lia].
      * simpl. rewrite Hv. simpl.
        assert (Nat.ltb 0 lo && negb mixed = false) as X2.
        { destruct mixed; [apply andb_false_r|]. rewrite andb_true_r. apply Nat.ltb_ge.
          destruct Hmin as [?|Hmin]; [discriminate | simpl in Hmin; lia]. }
        rewrite X2, app_nil_r. reflexivity.
      * apply LOccs_cons_inv in HL as (Hne & HA & _).
        simpl concat. rewrite app_nil_r.
        assert (head_in (w ++ v) (alt_names alts) = true) as Hd.
        { destruct w as [|x w]; [congruence|]. pose proof (LAlt_names _ _ _ HA) as Hn.
          inversion Hn; subst. simpl. apply smem_In. assumption. }
        assert (exists f, length (w ++ v) = S f) as (f & Hf).
        { destruct w; [congruence|]. simpl. eauto. }
        rewrite Hf. cbn [loop_of]. simpl fst. rewrite Hd.
        rewrite (pass_single mixed _ alts HF HN w v e 0 HA Hne Hv).
        simpl fst. rewrite Hv. simpl.
        assert (Nat.ltb 1 lo && negb mixed = false) as X2.
        { destruct mixed; [apply andb_false_r|]. rewrite andb_true_r. apply Nat.ltb_ge.
          destruct Hmin as [?|Hmin]; [discriminate | simpl in Hmin; lia]. }
        rewrite X2, app_nil_r. reflexivity.
Qed.

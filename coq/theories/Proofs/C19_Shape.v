(* Proofs/C19_Shape.v — the hypothesis [shape_ok] of C19_exact follows from what validation
   checks: the children word of every element belongs to the language of its rule
   (Spec/Lang.v: L — C01 relates the matcher to it) and authentication / recordDelimiter
   elements carry text (rule nonEmptyContent — C02).  The bounds are COMPUTED from the
   generated rule table. *)
From MP Require Import Common.Base.
From MP Require Import Common.Tree.
From MP Require Import Gen.Tables.
From MP Require Import Model.Rule.
From MP Require Import Spec.Lang.
From MP Require Import Model.PyString.
From MP Require Import Spec.Recommend.
From MP Require Import Proofs.C19_Lemmas.

(** * an upper bound on the occurrences of a name in any word of a spec *)
Definition oadd (a b : option nat) : option nat :=
  match a, b with Some x, Some y => Some (x + y) | _, _ => None end.
Definition omax (a b : option nat) : option nat :=
  match a, b with Some x, Some y => Some (Nat.max x y) | _, _ => None end.
(** [k] occurrences of at most [m] each ([None] = unbounded) *)
Definition omul (k m : option nat) : option nat :=
  match m with
  | Some 0 => Some 0
  | Some m' => match k with Some k' => Some (k' * m') | None => None end
  | None => match k with Some 0 => Some 0 | _ => None end
  end.

Fixpoint ub (name : pystr) (sp : spec) : option nat :=
  match sp with
  | El n lo hi => if pystr_eqb n name then hi else Some 0
  | Seq items => fold_right (fun i acc => oadd (ub name i) acc) (Some 0) items
  | Cho alts lo hi => omul hi (fold_right (fun a acc => omax (ub name a) acc) (Some 0) alts)
  end.

Definition le_ub (c : nat) (u : option nat) : Prop := match u with Some n => c <= n | None => True end.

Definition cnt (name : pystr) (w : list pystr) : nat := length (filter (fun x => pystr_eqb x name) w).

Lemma cnt_app name a b : cnt name (a ++ b) = cnt name a + cnt name b.
Proof. unfold cnt. rewrite filter_app, app_length. reflexivity. Qed.

Lemma cnt_repeat name n k : cnt name (repeat n k) = if pystr_eqb n name then k else 0.
Proof.
  unfold cnt. induction k as [|k IH]; simpl; [destruct (pystr_eqb n name); reflexivity|].
  destruct (pystr_eqb n name); simpl; rewrite IH; reflexivity.
Qed.

Lemma omul_mono c k hi m : le_hi k hi -> le_ub c (omul (Some k) m) -> le_ub c (omul hi m).
Proof.
  unfold le_hi, omul, le_ub. destruct m as [[|m']|]; [tauto | |].
  - destruct hi as [h|]; [|tauto]. intros Hk Hc. etransitivity; [exact Hc|]. apply Nat.mul_le_mono_r. exact Hk.
  - destruct k as [|k].
    + destruct hi as [[|h]|]; tauto.
    + destruct hi as [[|h]|]; [lia | tauto | tauto].
Qed.

Section Bound.
  Variable name : pystr.
  Variable mixed : bool.

  Let ub_seq (items : list spec) := fold_right (fun i acc => oadd (ub name i) acc) (Some 0) items.
  Let ub_alts (alts : list spec) := fold_right (fun a acc => omax (ub name a) acc) (Some 0) alts.

  Lemma L_bound_all :
    (forall sp w, L mixed sp w -> le_ub (cnt name w) (ub name sp)) /\
    (forall items ws, LSeq mixed items ws -> le_ub (cnt name (concat ws)) (ub_seq items)) /\
    (forall alts ws, LOccs mixed alts ws -> le_ub (cnt name (concat ws)) (omul (Some (length ws)) (ub_alts alts))) /\
    (forall alts w, LAlt mixed alts w -> le_ub (cnt name w) (ub_alts alts)).
  Proof.
    apply L_mutind.
    - (* El *) intros n lo hi k Hlo Hhi. simpl. rewrite cnt_repeat. destruct (pystr_eqb n name); simpl.
      + unfold le_hi in Hhi. destruct hi; simpl; [exact Hhi | exact I].
      + lia.
    - (* Seq *) intros items ws _ IH. exact IH.
    - (* Cho *) intros alts lo hi ws _ IH _ Hhi. simpl. eapply omul_mono; [exact Hhi | exact IH].
    - (* LSeq nil *) unfold ub_seq, le_ub, cnt. simpl. lia.
    - (* LSeq cons *) intros i items w ws _ IHw _ IHs. simpl. rewrite cnt_app.
      change (fold_right (fun i0 acc => oadd (ub name i0) acc) (Some 0) items) with (ub_seq items).
      destruct (ub name i) as [a|]; simpl in *; [|exact I]. destruct (ub_seq items) as [b|]; simpl in *; [lia | exact I].
    - (* LOccs nil *) intros alts. unfold le_ub, omul, cnt. simpl. destruct (ub_alts alts) as [[|m]|]; simpl; lia.
    - (* LOccs cons *) intros alts w ws _ _ IHa _ IHo. simpl concat. rewrite cnt_app. simpl length.
      destruct (ub_alts alts) as [[|m]|]; simpl in *.
      + lia.
      + lia.
      + exact I.
    - (* LAlt here *) intros a alts w _ IH. simpl.
      change (fold_right (fun a0 acc => omax (ub name a0) acc) (Some 0) alts) with (ub_alts alts).
      destruct (ub name a) as [x|]; simpl in *; [|exact I]. destruct (ub_alts alts) as [y|]; simpl; [lia | exact I].
    - (* LAlt there *) intros a alts w _ IH. simpl.
      change (fold_right (fun a0 acc => omax (ub name a0) acc) (Some 0) alts) with (ub_alts alts).
      destruct (ub name a) as [x|]; simpl in *; [|exact I]. destruct (ub_alts alts) as [y|]; simpl in *; [lia | exact I].
  Qed.

  Lemma L_bound sp w : L mixed sp w -> le_ub (cnt name w) (ub name sp).
  Proof. apply L_bound_all. Qed.
End Bound.

(** * the shipped rules *)
Definition rule_top (element : pystr) : option (option spec) :=
  match assoc element node_map with
  | Some rn => match assoc rn rules with
               | Some r => parse_children (rr_children r)
               | None => None
               end
  | None => None
  end.

Definition ub_child (element child : string) : option nat :=
  match rule_top (s element) with
  | Some (Some sp) => ub (s child) sp
  | Some None => Some 0
  | None => None
  end.

(** table obligation: the single-valued children are single-valued in rules.json *)
Lemma table_singletons :
  ub_child "dataset" "abstract" = Some 1 /\ ub_child "dataset" "coverage" = Some 1 /\
  ub_child "dataset" "intellectualRights" = Some 1 /\
  ub_child "physical" "size" = Some 1 /\ ub_child "physical" "dataFormat" = Some 1.
Proof. vm_compute. repeat split; reflexivity. Qed.

(** * what validation establishes, per node *)
Definition word (t : ftree) : list pystr := map ft_name (ft_kids t).

(** the children of every element that has a rule form a word of that rule's language *)
Definition lang_ok_node (t : ftree) : Prop :=
  forall top, rule_top (ft_name t) = Some top -> exists mixed, Ltop mixed top (word t).
(** authentication and recordDelimiter elements carry text (nonEmptyContent) *)
Definition text_ok_node (t : ftree) : Prop :=
  named "authentication" t || named "recordDelimiter" t = true -> has_text t = true.

Definition lang_ok (t : ftree) : Prop :=
  forall d, In d (preorder t) -> lang_ok_node d /\ text_ok_node d.

Lemma count_children n t : length (children_named n t) = cnt (s n) (word t).
Proof.
  unfold children_named, cnt, word, named. induction (ft_kids t) as [|k r IH]; [reflexivity|].
  simpl. destruct (pystr_eqb (ft_name k) (s n)); simpl; rewrite IH; reflexivity.
Qed.

Lemma single_from_lang element child t :
  ub_child element child = Some 1 -> named element t = true -> lang_ok_node t -> at_most_one child t = true.
Proof.
  unfold ub_child, at_most_one, lang_ok_node, named. intros U N LN. apply pystr_eqb_eq in N.
  rewrite count_children. apply Nat.leb_le.
  rewrite <- N in U. destruct (rule_top (ft_name t)) as [top|]; [|discriminate].
  destruct (LN top eq_refl) as (mixed & HL). destruct top as [sp|].
  - simpl in HL. pose proof (L_bound (s child) mixed sp _ HL) as B. rewrite U in B. exact B.
  - simpl in HL. rewrite HL. unfold cnt. simpl. lia.
Qed.

Lemma kid_in_pre t k x : In k (ft_kids t) -> In x (preorder k) -> In x (preorder t).
Proof. destruct t as [d kids]. simpl. intros Hk Hx. right. apply in_flat_map. exists k. split; assumption. Qed.

Lemma self_in_pre t : In t (preorder t).
Proof. destruct t; left; reflexivity. Qed.

Lemma pre_closed r : forall x c, In x (preorder r) -> In c (ft_kids x) -> In c (preorder r).
Proof.
  induction r as [d kids IH] using ftree_ind'. intros x c Hx Hc. simpl in Hx. destruct Hx as [<-|Hx].
  - simpl. right. apply in_flat_map. exists c. split; [exact Hc | apply self_in_pre].
  - simpl. right. apply in_flat_map in Hx as (q & Hq & Hx). apply in_flat_map. exists q. split; [exact Hq|].
    rewrite Forall_forall in IH. exact (IH q Hq x c Hx Hc).
Qed.

Lemma uniform_from_text root t n :
  (n = "authentication"%string \/ n = "recordDelimiter"%string) ->
  lang_ok root -> In t (preorder root) -> uniform n t = true.
Proof.
  intros Hn LO Ht. unfold uniform. apply orb_true_iff. right. apply forallb_forall. intros k Hk.
  unfold children_named in Hk. apply filter_In in Hk as [Hk Nk].
  assert (Ik : In k (preorder root)) by (eapply pre_closed; eauto).
  destruct (LO k Ik) as [_ TK]. apply TK. destruct Hn as [-> | ->]; rewrite Nk; [reflexivity | apply orb_true_r].
Qed.

Theorem lang_shape t : lang_ok t -> shape_ok t = true.
Proof.
  intro LO. unfold shape_ok. apply forallb_forall. intros d Hd.
  destruct (LO d Hd) as [LN _]. destruct table_singletons as (A & B & C & D & E).
  unfold node_shape_ok. repeat (apply andb_true_iff; split).
  - destruct (named "dataset" d) eqn:N; [|reflexivity].
    rewrite (single_from_lang "dataset" "abstract" d A N LN), (single_from_lang "dataset" "coverage" d B N LN),
      (single_from_lang "dataset" "intellectualRights" d C N LN). reflexivity.
  - destruct (named "physical" d) eqn:N; [|reflexivity].
    rewrite (single_from_lang "physical" "size" d D N LN), (single_from_lang "physical" "dataFormat" d E N LN).
    rewrite (uniform_from_text t d "authentication") by (auto). rewrite (uniform_from_text t d "recordDelimiter") by (auto).
    reflexivity.
  - destruct (named "textFormat" d) eqn:N; [|reflexivity].
    apply (uniform_from_text t d "recordDelimiter"); auto.
Qed.

(* Proofs/C08_Attr.v — C08, attributes: for the attribute names lxml produces, the model's
   tag stripping, attribute/extras split and _format_extras are the declarative ones of
   Spec/Mirror.v (local name; unqualified attributes; qualified attributes renamed to
   prefix:local with the last prefix bound to the namespace name). *)
From MP Require Import Common.Base Common.XStr Spec.Xml Spec.Infoset Spec.Mirror Model.XmlIn
  Proofs.C07_Lex Proofs.C07_Parse Proofs.C07_Ns.
Local Open Scope N_scope.

(** * Shapes of names *)
Lemma span_decomp p l a b : span p l = (a, b) ->
  l = a ++ b /\ forallb p a = true /\ match b with c :: _ => p c = false | [] => True end.
Proof.
  revert a b. induction l as [|c l IH]; intros a b; cbn [span].
  - intros [= <- <-]. repeat split.
  - destruct (p c) eqn:Ec.
    + destruct (span p l) as [a' b'] eqn:E. intros [= <- <-].
      destruct (IH a' b' eq_refl) as (-> & Ha & Hb). cbn [forallb]. rewrite Ec, Ha. repeat split. exact Hb.
    + intros [= <- <-]. repeat split. exact Ec.
Qed.

Lemma clark_split_inv n u l : clark_split n = Some (u, l) ->
  n = 123 :: u ++ 125 :: l /\ forallb not_rbrace u = true.
Proof.
  unfold clark_split. destruct n as [|c r]; [discriminate|].
  destruct (c =? 123) eqn:Ec; [|discriminate]. apply N.eqb_eq in Ec. subst c.
  destruct (span not_rbrace r) as [a b] eqn:E. destruct (span_decomp _ _ _ _ E) as (-> & Ha & Hb).
  destruct b as [|x b']; [discriminate|]. intros [= <- <-]. split; [|exact Ha].
  unfold not_rbrace in Hb. apply negb_false_iff, N.eqb_eq in Hb. subst x. reflexivity.
Qed.

Lemma ncname_no c n : is_ncname n = true -> is_name_char c = false -> ~ In c n.
Proof.
  intros H Hc Hin. apply ncname_chars in H. rewrite forallb_forall in H. rewrite (H c Hin) in Hc. discriminate.
Qed.

Lemma find_char_none c l : ~ In c l -> find_char c l = None.
Proof.
  induction l as [|x l IH]; [reflexivity|]. intro H. cbn [find_char].
  destruct (x =? c) eqn:E; [apply N.eqb_eq in E; subst; exfalso; apply H; left; reflexivity|].
  rewrite IH; [reflexivity|]. intro Hin. apply H. right. exact Hin.
Qed.

Lemma find_char_app c a l : ~ In c a -> find_char c (a ++ c :: l) = Some (length a).
Proof.
  induction a as [|x a IH]; intro H.
  - cbn. rewrite N.eqb_refl. reflexivity.
  - cbn [app find_char length]. destruct (x =? c) eqn:E.
    + apply N.eqb_eq in E. subst. exfalso. apply H. left. reflexivity.
    + rewrite IH; [reflexivity|]. intro Hin. apply H. right. exact Hin.
Qed.

Lemma not_rbrace_notin u : forallb not_rbrace u = true -> ~ In 125 u.
Proof.
  intros H Hin. rewrite forallb_forall in H. specialize (H 125 Hin). discriminate.
Qed.

Lemma ncname_head_not c n : is_ncname n = true -> is_name_start c = false ->
  match n with x :: _ => x <> c | [] => True end.
Proof.
  destruct n as [|x r]; [trivial|]. cbn. intros H Hc E. subst. apply andb_true_iff in H as [H _]. congruence.
Qed.

(** * Tags *)
Lemma strip_clark_local m pfx tag : tag_okb m pfx tag = true -> strip_clark tag = local_name tag.
Proof.
  unfold tag_okb, strip_clark, local_name. destruct pfx as [p|].
  - destruct (oassoc (Some p) m) as [u|]; [|discriminate].
    destruct (clark_split tag) as [[u' l]|] eqn:E; [|discriminate]. intro H.
    apply andb_true_iff in H as [_ Hl]. destruct (clark_split_inv _ _ _ E) as (-> & Hu).
    change (123 :: u' ++ 125 :: l) with ((123 :: u') ++ 125 :: l).
    rewrite find_char_app.
    + replace (S (length (123 :: u'))) with (length ((123 :: u') ++ [125]))
        by (rewrite app_length; cbn [length]; lia).
      replace ((123 :: u') ++ 125 :: l) with (((123 :: u') ++ [125]) ++ l) by (rewrite <- app_assoc; reflexivity).
      apply skipn_app_len.
    + intros [E1|E1]; [discriminate | exact (not_rbrace_notin u' Hu E1)].
  - intro H. rewrite find_char_none by (apply (ncname_no 125 tag H); reflexivity).
    unfold clark_split. destruct tag as [|c r]; [reflexivity|].
    pose proof (ncname_head_not 123 (c :: r) H eq_refl) as Hc. cbn in Hc.
    apply N.eqb_neq in Hc. rewrite Hc. reflexivity.
Qed.

(** * _format_extras *)
Lemma existsb_false_notin c l : ~ In c l -> existsb (N.eqb c) l = false.
Proof.
  induction l as [|x l IH]; [reflexivity|]. intro H. cbn [existsb].
  destruct (c =? x) eqn:E; [apply N.eqb_eq in E; subst; exfalso; apply H; left; reflexivity|].
  apply IH. intro Hin. apply H. right. exact Hin.
Qed.

Definition uri_chars_ok (u : pystr) : bool := forallb (fun c => negb (c =? 125) && negb (c =? 10)) u.

Lemma uri_chars_notin u c : uri_chars_ok u = true -> c = 125 \/ c = 10 -> ~ In c u.
Proof.
  unfold uri_chars_ok. intros H Hc Hin. rewrite forallb_forall in H. specialize (H c Hin).
  apply andb_true_iff in H as [H1 H2]. destruct Hc as [-> | ->]; discriminate.
Qed.

Lemma match_clark_ok n u l :
  clark_split n = Some (u, l) -> is_ncname l = true -> uri_chars_ok u = true ->
  match_clark n = Some (u, l).
Proof.
  intros E Hl Hu. destruct (clark_split_inv _ _ _ E) as (-> & _).
  unfold match_clark. change (123 =? 123) with true. cbv iota.
  assert (Hrev : rev (u ++ 125 :: l) = rev l ++ 125 :: rev u).
  { rewrite rev_app_distr. cbn [rev]. rewrite <- app_assoc. reflexivity. }
  assert (Hl10 : ~ In 10 l) by (apply (ncname_no 10 l Hl); reflexivity).
  assert (Hl125 : ~ In 125 l) by (apply (ncname_no 125 l Hl); reflexivity).
  rewrite Hrev.
  destruct (rev l) as [|x r] eqn:Er.
  { destruct l; [discriminate|]. apply (f_equal (@length N)) in Er. rewrite rev_length in Er. discriminate. }
  cbn [app].
  assert (Hx : In x l) by (apply in_rev; rewrite Er; left; reflexivity).
  assert (Hx10 : (x =? 10) = false) by (apply N.eqb_neq; intro; subst; exact (Hl10 Hx)).
  rewrite Hx10.
  rewrite existsb_false_notin.
  - rewrite Hrev.
    rewrite (span_app (fun x0 => negb (x0 =? 125)) (x :: r) 125 (rev u)).
    + rewrite <- Er, !rev_involutive. reflexivity.
    + rewrite <- Er. apply forallb_forall. intros y Hy. apply in_rev in Hy.
      apply negb_true_iff, N.eqb_neq. intro; subst. exact (Hl125 Hy).
    + reflexivity.
  - intro Hin. apply in_app_or in Hin as [Hin|[Hin|Hin]].
    + exact (uri_chars_notin u 10 Hu (or_intror eq_refl) Hin).
    + discriminate.
    + exact (Hl10 Hin).
Qed.

Lemma find_app {A} (p : A -> bool) a b :
  find p (a ++ b) = match find p a with Some x => Some x | None => find p b end.
Proof. induction a as [|x a IH]; [reflexivity|]. cbn [app find]. destruct (p x); [reflexivity|exact IH]. Qed.

Lemma fold_last {A B} (P : A -> bool) (F : A -> B) (m : list A) (a0 : B) :
  fold_left (fun acc kv => if P kv then F kv else acc) m a0 =
  match find P (rev m) with Some kv => F kv | None => a0 end.
Proof.
  revert a0. induction m as [|kv m IH]; intro a0; [reflexivity|].
  cbn [fold_left rev]. rewrite IH, find_app. destruct (find P (rev m)); [reflexivity|].
  cbn [find]. destruct (P kv); reflexivity.
Qed.

Lemma find_none_of {A} (p : A -> bool) l : (forall x, In x l -> p x = false) -> find p l = None.
Proof.
  induction l as [|x l IH]; intro H; [reflexivity|]. cbn [find]. rewrite (H x (or_introl eq_refl)).
  apply IH. intros y Hy. apply H. right. exact Hy.
Qed.

Record nsmap_good (m : list (option pystr * pystr)) : Prop := {
  ng_keys : forall k u, In (k, u) m -> exists p, k = Some p /\ is_ncname p = true /\ p <> xml_str /\ p <> xmlns_str;
  ng_uris : forall k u, In (k, u) m -> uri_okb u = true;
  ng_nodup : NoDup (pkeys m)
}.

Lemma nsmap_good_of m : nsmap_okb m = true -> nsmap_good m.
Proof.
  unfold nsmap_okb. intro H. apply andb_true_iff in H as [H1 H2]. rewrite forallb_forall in H1.
  constructor.
  - intros k u Hin. specialize (H1 _ Hin). cbn [fst snd] in H1. destruct k as [p|]; [|discriminate].
    apply andb_true_iff in H1 as [H1 _]. apply andb_true_iff in H1 as [H1 Hc]. apply andb_true_iff in H1 as [Ha Hb].
    exists p. repeat split; [exact Ha | |]; apply pystr_eqb_neq, negb_true_iff; assumption.
  - intros k u Hin. specialize (H1 _ Hin). cbn [fst snd] in H1. destruct k as [p|]; [|discriminate].
    apply andb_true_iff in H1 as [_ H1]. exact H1.
  - apply nodup_keys_NoDup, H2.
Qed.

Lemma uri_okb_not_xml u : uri_okb u = true -> u <> xml_ns.
Proof.
  unfold uri_okb. intro H. apply andb_true_iff in H as [H _]. apply andb_true_iff in H as [_ H].
  apply negb_true_iff, pystr_eqb_neq in H. exact H.
Qed.

Lemma key_str_prefix k : key_str k = prefix_str k.
Proof. destruct k; reflexivity. Qed.

Lemma format_extras_spec m n u l :
  nsmap_good m -> clark_split n = Some (u, l) -> is_ncname l = true -> uri_chars_ok u = true ->
  format_extras n m = qualified_name m n.
Proof.
  intros G E Hl Hu. unfold format_extras, qualified_name, prefix_for.
  rewrite (match_clark_ok n u l E Hl Hu), E, fold_last.
  fold xml_ns. change xml_ns_uri with xml_ns.
  destruct (pystr_eqb_reflect u xml_ns) as [->|NE].
  - rewrite find_none_of; [reflexivity|].
    intros [k v] Hin. apply in_rev in Hin. cbn [snd]. apply pystr_eqb_neq. intro Ev. subst v.
    exact (uri_okb_not_xml _ (ng_uris m G k _ Hin) eq_refl).
  - destruct (find (fun kv => pystr_eqb u (snd kv)) (rev m)) as [kv|]; [|reflexivity].
    rewrite key_str_prefix. reflexivity.
Qed.

(** * The attribute / extras split *)
Lemma dict_set_fresh {V} k (v : V) d : ~ In k (keys d) -> dict_set k v d = d ++ [(k, v)].
Proof.
  induction d as [|[k' v'] d IH]; [reflexivity|]. intro H. cbn [dict_set app].
  destruct (pystr_eqb_reflect k k') as [->|NE]; [exfalso; apply H; left; reflexivity|].
  rewrite IH; [reflexivity|]. intro Hin. apply H. right. exact Hin.
Qed.

Definition plain_of (attrib : list (pystr * pystr)) := filter (fun nv => negb (is_clark (fst nv))) attrib.
Definition qual_of (m : list (option pystr * pystr)) (attrib : list (pystr * pystr)) :=
  map (fun nv => (qualified_name m (fst nv), snd nv)) (filter (fun nv => is_clark (fst nv)) attrib).

Lemma keys_app {V} (a b : list (pystr * V)) : keys (a ++ b) = keys a ++ keys b.
Proof. apply map_app. Qed.

Lemma split_attrib_gen m attrib :
  (forall nv, In nv attrib -> has_lbrace (fst nv) = is_clark (fst nv)
                              /\ (is_clark (fst nv) = true -> format_extras (fst nv) m = qualified_name m (fst nv))) ->
  forall a x,
    NoDup (keys a ++ keys (plain_of attrib)) -> NoDup (keys x ++ keys (qual_of m attrib)) ->
    fold_left (fun ax nv =>
                 if has_lbrace (fst nv)
                 then (fst ax, dict_set (format_extras (fst nv) m) (snd nv) (snd ax))
                 else (dict_set (fst nv) (snd nv) (fst ax), snd ax)) attrib (a, x)
    = (a ++ plain_of attrib, x ++ qual_of m attrib).
Proof.
  induction attrib as [|[n v] attrib IH]; intros Hok a x Ha Hx.
  - cbn. rewrite !app_nil_r. reflexivity.
  - destruct (Hok (n, v) (or_introl eq_refl)) as [H1 H2]. cbn [fst snd] in *.
    assert (Hok' : forall nv, In nv attrib -> has_lbrace (fst nv) = is_clark (fst nv)
                              /\ (is_clark (fst nv) = true -> format_extras (fst nv) m = qualified_name m (fst nv)))
      by (intros nv Hin; apply Hok; right; exact Hin).
    cbn [fold_left fst snd]. rewrite H1. unfold plain_of, qual_of in *. cbn [filter fst] in *.
    destruct (is_clark n) eqn:Ec; cbn [negb map fst snd] in *.
    + rewrite (H2 eq_refl). rewrite dict_set_fresh.
      * rewrite (IH Hok' a (x ++ [(qualified_name m n, v)])).
        -- rewrite <- app_assoc. reflexivity.
        -- exact Ha.
        -- rewrite keys_app, <- app_assoc. exact Hx.
      * intro Hin. apply NoDup_remove_2 in Hx. apply Hx. apply in_or_app. left. exact Hin.
    + rewrite dict_set_fresh.
      * rewrite (IH Hok' (a ++ [(n, v)]) x).
        -- rewrite <- app_assoc. reflexivity.
        -- rewrite keys_app, <- app_assoc. exact Ha.
        -- exact Hx.
      * intro Hin. apply NoDup_remove_2 in Ha. apply Ha. apply in_or_app. left. exact Hin.
Qed.

(** * Attribute names of the class *)
Lemma attr_shape m n : attr_name_okb m n = true ->
  (is_clark n = false /\ is_ncname n = true)
  \/ (is_clark n = true /\ exists u l, clark_split n = Some (u, l) /\ is_ncname l = true
                                       /\ uri_chars_ok u = true /\ (u = xml_ns \/ exists k, In (k, u) m)).
Proof.
  unfold attr_name_okb. destruct (is_clark n) eqn:Ec; [|intro H; left; split; [reflexivity|exact H]].
  destruct (clark_split n) as [[u l]|] eqn:E; [|discriminate]. intro H. right. split; [reflexivity|].
  apply andb_true_iff in H as [H Hu]. apply andb_true_iff in H as [Hl Hb].
  exists u, l. repeat split; try assumption.
  apply orb_true_iff in Hb as [Hb|Hb]; [left; apply pystr_eqb_eq, Hb|right].
  apply existsb_exists in Hb as ([k v] & Hin & Hv). cbn [snd] in Hv. apply pystr_eqb_eq in Hv. subst v.
  exists k. exact Hin.
Qed.

Lemma has_lbrace_clark m n : attr_name_okb m n = true -> has_lbrace n = is_clark n.
Proof.
  intro H. destruct (attr_shape m n H) as [[Ec Hn]|[Ec _]]; rewrite Ec; unfold has_lbrace.
  - rewrite find_char_none; [reflexivity|]. apply (ncname_no 123 n Hn). reflexivity.
  - destruct n as [|c r]; [discriminate|]. cbn [is_clark] in Ec. cbn [find_char]. rewrite Ec. reflexivity.
Qed.

(** the prefix chosen for a namespace name is bound to it *)
Lemma prefix_for_bound m u P : nsmap_good m -> prefix_for m u = Some P ->
  (u = xml_ns /\ P = xml_str) \/ (u <> xml_ns /\ In (Some P, u) m).
Proof.
  intros G. unfold prefix_for. destruct (pystr_eqb_reflect u xml_ns) as [->|NE].
  - intros [= <-]. left. split; reflexivity.
  - destruct (find (fun kv => pystr_eqb u (snd kv)) (rev m)) as [[k v]|] eqn:E; [|discriminate].
    intros [= <-]. right. split; [exact NE|]. apply find_some in E as [Hin Hv]. apply in_rev in Hin.
    cbn [snd] in Hv. apply pystr_eqb_eq in Hv. subst v.
    destruct (ng_keys m G k u Hin) as (p & -> & _). exact Hin.
Qed.

Lemma prefix_for_some m u : (u = xml_ns \/ exists k, In (k, u) m) -> exists P, prefix_for m u = Some P.
Proof.
  intro H. unfold prefix_for. destruct (pystr_eqb u xml_ns) eqn:Ex; [eauto|].
  destruct H as [->|[k Hin]]; [rewrite pystr_eqb_refl in Ex; discriminate|].
  destruct (find (fun kv => pystr_eqb u (snd kv)) (rev m)) as [kv|] eqn:E; [eauto|].
  exfalso. pose proof (List.find_none _ _ E (k, u)) as Hn. cbn [snd] in Hn.
  rewrite pystr_eqb_refl in Hn. assert (In (k, u) (rev m)) by (apply in_rev; rewrite rev_involutive; exact Hin).
  specialize (Hn H). discriminate.
Qed.

Lemma pkeys_functional m P u1 u2 :
  NoDup (pkeys m) -> In (Some P, u1) m -> In (Some P, u2) m -> u1 = u2.
Proof.
  unfold pkeys. induction m as [|[k v] m IH]; [intros _ []|]. cbn [map fst]. intro H.
  inversion H as [|? ? Hk Hm]; subst. intros [E1|H1] [E2|H2].
  - congruence.
  - exfalso. apply Hk. inversion E1; subst. apply in_map_iff. exists (Some P, u2). split; [reflexivity|exact H2].
  - exfalso. apply Hk. inversion E2; subst. apply in_map_iff. exists (Some P, u1). split; [reflexivity|exact H1].
  - exact (IH Hm H1 H2).
Qed.

Definition clark_ok (m : list (option pystr * pystr)) (n : pystr) : Prop :=
  exists u l, clark_split n = Some (u, l) /\ is_ncname l = true /\ uri_chars_ok u = true
              /\ (u = xml_ns \/ exists k, In (k, u) m).

Lemma qualified_name_shape m n : nsmap_good m -> clark_ok m n ->
  exists u l P, clark_split n = Some (u, l) /\ is_ncname l = true /\ prefix_for m u = Some P
                /\ is_ncname P = true /\ qualified_name m n = P ++ 58 :: l.
Proof.
  intros G (u & l & E & Hl & _ & Hb). destruct (prefix_for_some m u Hb) as [P HP].
  exists u, l, P. repeat split; try assumption.
  - destruct (prefix_for_bound m u P G HP) as [[_ ->]|[_ Hin]]; [reflexivity|].
    destruct (ng_keys m G _ _ Hin) as (p & [= <-] & Hp & _). exact Hp.
  - unfold qualified_name. rewrite E, HP. reflexivity.
Qed.

Lemma qualified_name_inj m n1 n2 : nsmap_good m -> clark_ok m n1 -> clark_ok m n2 ->
  qualified_name m n1 = qualified_name m n2 -> n1 = n2.
Proof.
  intros G C1 C2 Eq.
  destruct (qualified_name_shape m n1 G C1) as (u1 & l1 & P1 & E1 & Hl1 & HP1 & HN1 & Q1).
  destruct (qualified_name_shape m n2 G C2) as (u2 & l2 & P2 & E2 & Hl2 & HP2 & HN2 & Q2).
  rewrite Q1, Q2 in Eq. apply (f_equal split_colon) in Eq.
  rewrite (split_colon_pfx P1 l1 HN1), (split_colon_pfx P2 l2 HN2) in Eq. inversion Eq; subst P2 l2.
  assert (u1 = u2).
  { destruct (prefix_for_bound m u1 P1 G HP1) as [[-> Hx1]|[N1 I1]];
      destruct (prefix_for_bound m u2 P1 G HP2) as [[-> Hx2]|[N2 I2]].
    - reflexivity.
    - subst P1. destruct (ng_keys m G _ _ I2) as (p & [= <-] & _ & Hne & _). congruence.
    - subst P1. destruct (ng_keys m G _ _ I1) as (p & [= <-] & _ & Hne & _). congruence.
    - exact (pkeys_functional m P1 u1 u2 (ng_nodup m G) I1 I2). }
  subst u2. destruct (clark_split_inv _ _ _ E1) as [-> _]. destruct (clark_split_inv _ _ _ E2) as [-> _].
  reflexivity.
Qed.

Lemma NoDup_map_inj_in {A B} (f : A -> B) l :
  (forall x y, In x l -> In y l -> f x = f y -> x = y) -> NoDup l -> NoDup (map f l).
Proof.
  intros Hinj Hl. induction Hl as [|x l Hx Hl IH]; cbn [map]; constructor.
  - intro Hin. apply in_map_iff in Hin as (y & Hy & Hin).
    assert (y = x) by (apply Hinj; [right; exact Hin | left; reflexivity | exact Hy]). subst. exact (Hx Hin).
  - apply IH. intros a b Ha Hb. apply Hinj; right; assumption.
Qed.

Theorem split_attrib_spec m attrib :
  nsmap_good m -> (forall nv, In nv attrib -> attr_name_okb m (fst nv) = true) -> NoDup (keys attrib) ->
  split_attrib m attrib = (plain_of attrib, qual_of m attrib).
Proof.
  intros G Hok Hnd. unfold split_attrib.
  rewrite (split_attrib_gen m attrib); [reflexivity| | |].
  - intros nv Hin. specialize (Hok nv Hin). split; [apply (has_lbrace_clark m), Hok|].
    intro Ec. destruct (attr_shape m (fst nv) Hok) as [[Ec' _]|[_ (u & l & E & Hl & Hu & _)]]; [congruence|].
    exact (format_extras_spec m (fst nv) u l G E Hl Hu).
  - cbn [keys map app]. unfold plain_of. apply NoDup_keys_filter, Hnd.
  - cbn [keys map app]. unfold qual_of, keys. rewrite map_map. cbn [fst].
    rewrite <- (map_map fst (qualified_name m)).
    apply NoDup_map_inj_in; [|apply (NoDup_keys_filter _ attrib Hnd)].
    intros x y Hx Hy. apply in_map_iff in Hx as (nx & <- & Hx). apply in_map_iff in Hy as (ny & <- & Hy).
    apply filter_In in Hx as [Hx Hcx]. apply filter_In in Hy as [Hy Hcy].
    apply qualified_name_inj; [exact G| |].
    + destruct (attr_shape m (fst nx) (Hok nx Hx)) as [[Ec _]|[_ H]]; [congruence|exact H].
    + destruct (attr_shape m (fst ny) (Hok ny Hy)) as [[Ec _]|[_ H]]; [congruence|exact H].
Qed.

(* Proofs/C08_Policy.v — the white-space policy of the XML import: the model's clean
   branch is the documented policy (Spec/Mirror.v), and the policy is idempotent. *)
From MP Require Import Common.Base Common.XStr Spec.Xml Spec.Infoset Spec.Mirror Model.XmlIn Proofs.C07_Lex Proofs.C07_Ns.
Local Open Scope N_scope.

(** * strip, split, join *)
Lemma lstrip_nil v : lstrip v = [] -> all_space v.
Proof.
  unfold all_space. induction v as [|c r IH]; [reflexivity|]. cbn [lstrip forallb].
  destruct (is_py_space c); [exact IH | discriminate].
Qed.

Lemma rstrip_cons c r : rstrip (c :: r) = if is_py_space c && is_nil (rstrip r) then [] else c :: rstrip r.
Proof. reflexivity. Qed.

Lemma rstrip_head c r : is_py_space c = false -> rstrip (c :: r) = c :: rstrip r.
Proof. intro H. rewrite rstrip_cons, H. reflexivity. Qed.

Lemma lstrip_cases v : lstrip v = [] \/ exists c r, lstrip v = c :: r /\ is_py_space c = false.
Proof.
  induction v as [|c r IH]; [left; reflexivity|]. cbn [lstrip].
  destruct (is_py_space c) eqn:E; [exact IH|]. right. exists c, r. split; [reflexivity|exact E].
Qed.

Lemma strip_nil_iff v : strip v = [] <-> all_space v.
Proof.
  split; [|apply strip_space]. unfold strip. intro H.
  destruct (lstrip_cases v) as [E|(c & r & E & Hc)].
  - apply lstrip_nil, E.
  - rewrite E, (rstrip_head c r Hc) in H. discriminate.
Qed.

Lemma split_nil_iff v : split_ws v = [] <-> all_space v.
Proof.
  unfold all_space. induction v as [|c r IH]; [split; reflexivity|]. cbn [split_ws forallb].
  destruct (is_py_space c) eqn:E; cbn [andb]; [exact IH|].
  split; [|discriminate]. destruct r as [|c' r']; [discriminate|].
  destruct (is_py_space c'); [discriminate|]. destruct (split_ws (c' :: r')); discriminate.
Qed.

Lemma is_nil_strip_split v : is_nil (strip v) = is_nil (split_ws v).
Proof.
  destruct (strip v) eqn:E1; destruct (split_ws v) eqn:E2; try reflexivity; exfalso.
  - apply strip_nil_iff, split_nil_iff in E1. congruence.
  - apply split_nil_iff, strip_nil_iff in E2. congruence.
Qed.

(** words: non-empty, free of white space *)
Definition word (w : pystr) : Prop := w <> [] /\ forallb (fun c => negb (is_py_space c)) w = true.

Lemma split_words v : Forall word (split_ws v).
Proof.
  induction v as [|c r IH]; [constructor|]. cbn [split_ws].
  destruct (is_py_space c) eqn:E; [exact IH|].
  assert (W1 : word [c]) by (split; [discriminate | cbn [forallb]; rewrite E; reflexivity]).
  destruct r as [|c' r']; [constructor; [exact W1|constructor]|].
  destruct (is_py_space c'); [constructor; [exact W1 | exact IH]|].
  destruct (split_ws (c' :: r')) as [|w ws]; [constructor; [exact W1|constructor]|].
  inversion IH as [|? ? [Hw1 Hw2] Hws]; subst. constructor; [|exact Hws].
  split; [discriminate|]. cbn [forallb]. rewrite E, Hw2. reflexivity.
Qed.

Lemma split_word w rest :
  word w -> (rest = [] \/ exists c r, rest = c :: r /\ is_py_space c = true) ->
  split_ws (w ++ rest) = w :: split_ws rest.
Proof.
  intros [Hne Hw] Hrest. induction w as [|c w IH]; [congruence|].
  cbn [forallb] in Hw. apply andb_true_iff in Hw as [Hc Hw]. apply negb_true_iff in Hc.
  destruct w as [|c2 w'].
  - cbn [app split_ws]. rewrite Hc. destruct Hrest as [->|(c' & r & -> & Hs)]; [reflexivity|].
    rewrite Hs. reflexivity.
  - change ((c :: c2 :: w') ++ rest) with (c :: ((c2 :: w') ++ rest)).
    cbn [split_ws]. rewrite Hc. cbn [app].
    pose proof Hw as Hw'. cbn [forallb] in Hw'. apply andb_true_iff in Hw' as [Hc2 _].
    apply negb_true_iff in Hc2. rewrite Hc2.
    change (c2 :: w' ++ rest) with ((c2 :: w') ++ rest).
    rewrite IH by (discriminate || exact Hw). reflexivity.
Qed.

Lemma split_join ws : Forall word ws -> split_ws (join [32] ws) = ws.
Proof.
  induction 1 as [|w ws Hw Hws IH]; [reflexivity|].
  destruct ws as [|w2 ws'].
  - cbn [join]. rewrite <- (app_nil_r w) at 1. rewrite split_word by (auto). reflexivity.
  - change (join [32] (w :: w2 :: ws')) with (w ++ [32] ++ join [32] (w2 :: ws')).
    rewrite split_word; [|exact Hw|right; exists 32, (join [32] (w2 :: ws')); split; reflexivity].
    f_equal. change ([32] ++ join [32] (w2 :: ws')) with (32 :: join [32] (w2 :: ws')).
    cbn [split_ws]. change (is_py_space 32) with true. cbv iota. exact IH.
Qed.

(** strings that neither begin nor end with white space *)
Definition tight (x : pystr) : Prop :=
  exists c r, x = c :: r /\ is_py_space c = false /\ rstrip x = x.

Lemma rstrip_idem x : rstrip (rstrip x) = rstrip x.
Proof.
  induction x as [|c a IH]; [reflexivity|]. rewrite rstrip_cons.
  destruct (is_py_space c && is_nil (rstrip a)) eqn:E; [reflexivity|].
  rewrite rstrip_cons, IH, E. reflexivity.
Qed.

Lemma strip_tight v : strip v = [] \/ tight (strip v).
Proof.
  unfold strip. destruct (lstrip_cases v) as [E|(c & r & E & Hc)].
  - left. rewrite E. reflexivity.
  - right. rewrite E, (rstrip_head c r Hc). exists c, (rstrip r). split; [reflexivity|]. split; [exact Hc|].
    rewrite (rstrip_head c _ Hc), rstrip_idem. reflexivity.
Qed.

Lemma tight_strip x : tight x -> strip x = x.
Proof.
  intros (c & r & -> & Hc & Hr). unfold strip. cbn [lstrip]. rewrite Hc. exact Hr.
Qed.

Lemma rstrip_word_app w rest : word w -> rstrip (w ++ rest) = w ++ rstrip rest.
Proof.
  intros [_ Hw]. induction w as [|c w IH]; [reflexivity|].
  cbn [forallb] in Hw. apply andb_true_iff in Hw as [Hc Hw]. apply negb_true_iff in Hc.
  cbn [app]. rewrite (rstrip_head c _ Hc), (IH Hw). reflexivity.
Qed.

Lemma rstrip_word w : word w -> rstrip w = w.
Proof. intro H. rewrite <- (app_nil_r w) at 1. rewrite (rstrip_word_app w [] H). apply app_nil_r. Qed.

Lemma rstrip_join ws : Forall word ws -> rstrip (join [32] ws) = join [32] ws.
Proof.
  induction 1 as [|w ws Hw Hws IH]; [reflexivity|]. destruct ws as [|w2 ws'].
  - cbn [join]. apply rstrip_word, Hw.
  - change (join [32] (w :: w2 :: ws')) with (w ++ [32] ++ join [32] (w2 :: ws')).
    rewrite (rstrip_word_app w _ Hw). f_equal.
    change ([32] ++ join [32] (w2 :: ws')) with (32 :: join [32] (w2 :: ws')).
    inversion Hws as [|? ? [Hne _] _]; subst.
    destruct w2 as [|c2 w2']; [congruence|].
    rewrite rstrip_cons, IH. destruct ws'; reflexivity.
Qed.

Lemma tight_join w ws : Forall word (w :: ws) -> tight (join [32] (w :: ws)).
Proof.
  intro H. pose proof (rstrip_join _ H) as Hr. inversion H as [|? ? [Hne Hw] Hws]; subst.
  destruct w as [|c w']; [congruence|]. cbn [forallb] in Hw. apply andb_true_iff in Hw as [Hc _].
  apply negb_true_iff in Hc.
  exists c, (match ws with [] => w' | _ => w' ++ [32] ++ join [32] ws end).
  split; [destruct ws; reflexivity|]. split; [exact Hc | exact Hr].
Qed.

(** * The model's clean branch is the documented policy *)
Lemma keep_regex_blank v : keep_regex v = only_blank v.
Proof.
  unfold keep_regex, only_blank. f_equal. induction v as [|c v IH]; [reflexivity|].
  cbn [forallb]. rewrite IH. f_equal. unfold is_keep_char, blank_char.
  destruct (c =? 32), (c =? 160), (c =? 9); reflexivity.
Qed.

Lemma clean_str_policy collapse v : clean_str collapse v = policy true collapse false (Some v).
Proof.
  unfold clean_str, policy. cbn [negb orb]. rewrite keep_regex_blank.
  destruct (only_blank v); [reflexivity|].
  rewrite is_nil_strip_split. destruct (split_ws v) as [|w ws]; [reflexivity|].
  cbn [is_nil]. destruct collapse; reflexivity.
Qed.

Lemma clean_opt_policy collapse x : clean_opt collapse x = policy true collapse false x.
Proof. destruct x as [v|]; [apply clean_str_policy | reflexivity]. Qed.

(** * Idempotence *)
Lemma blank_is_space c : blank_char c = true -> is_py_space c = true.
Proof.
  unfold blank_char. intro H.
  destruct (c =? 32) eqn:E1; [apply N.eqb_eq in E1; subst; reflexivity|].
  destruct (c =? 9) eqn:E2; [apply N.eqb_eq in E2; subst; reflexivity|].
  destruct (c =? 160) eqn:E3; [apply N.eqb_eq in E3; subst; reflexivity|discriminate].
Qed.

Lemma tight_not_blank x : tight x -> only_blank x = false.
Proof.
  intros (c & r & -> & Hc & _). unfold only_blank. cbn [nonempty is_nil negb forallb andb].
  destruct (blank_char c) eqn:E; [|reflexivity]. apply blank_is_space in E. congruence.
Qed.

Lemma tight_split x : tight x -> split_ws x <> [].
Proof.
  intros (c & r & -> & Hc & _) H. apply split_nil_iff in H. unfold all_space in H.
  cbn [forallb] in H. rewrite Hc in H. discriminate.
Qed.

Theorem policy_idem clean collapse literal x :
  policy clean collapse literal (policy clean collapse literal x) = policy clean collapse literal x.
Proof.
  destruct x as [v|]; [|reflexivity]. unfold policy at 2 3.
  destruct (negb clean || literal) eqn:E1; [cbn [policy]; rewrite E1; reflexivity|].
  destruct (only_blank v) eqn:E2; [cbn [policy]; rewrite E1, E2; reflexivity|].
  destruct (split_ws v) as [|w ws] eqn:E3; [reflexivity|].
  pose proof (split_words v) as Hw. rewrite E3 in Hw.
  destruct collapse.
  - (* collapsed text is tight and a fixpoint of collapsing *)
    pose proof (tight_join w ws Hw) as Ht.
    cbn [policy]. rewrite E1, (tight_not_blank _ Ht), (split_join _ Hw). reflexivity.
  - destruct (strip_tight v) as [E|Ht].
    + apply strip_nil_iff, split_nil_iff in E. congruence.
    + cbn [policy]. rewrite E1, (tight_not_blank _ Ht).
      destruct (split_ws (strip v)) eqn:E4; [exfalso; exact (tight_split _ Ht E4)|].
      rewrite (tight_strip _ Ht). reflexivity.
Qed.

Theorem clean_idem_proof collapse x : clean_opt collapse (clean_opt collapse x) = clean_opt collapse x.
Proof. rewrite !clean_opt_policy. apply policy_idem. Qed.

(** * The policy respects "equal up to surrounding white space" on its own outputs:
    re-importing a text that differs from an imported text only by leading/trailing white
    space (the exporter's newline and indentation) gives the imported text again, up to
    surrounding white space. *)
Lemma split_lstrip a : split_ws (lstrip a) = split_ws a.
Proof.
  induction a as [|c r IH]; [reflexivity|]. cbn [lstrip]. destruct (is_py_space c) eqn:E; [|reflexivity].
  rewrite IH. cbn [split_ws]. rewrite E. reflexivity.
Qed.

Lemma rstrip_nil_space r : rstrip r = [] -> all_space r.
Proof.
  unfold all_space. induction r as [|c r IH]; [reflexivity|]. rewrite rstrip_cons.
  destruct (is_py_space c) eqn:Ec; cbn [andb forallb]; [|discriminate]. rewrite Ec.
  destruct (rstrip r) eqn:Er; cbn [is_nil]; [|discriminate]. intros _. exact (IH eq_refl).
Qed.

Lemma split_ws_cons c r :
  split_ws (c :: r) =
  if is_py_space c then split_ws r
  else match r with
       | [] => [[c]]
       | c' :: _ => if is_py_space c' then [c] :: split_ws r
                    else match split_ws r with w :: ws => (c :: w) :: ws | [] => [[c]] end
       end.
Proof. reflexivity. Qed.

Lemma split_rstrip a : split_ws (rstrip a) = split_ws a.
Proof.
  induction a as [|c r IH]; [reflexivity|]. rewrite rstrip_cons.
  destruct (is_py_space c) eqn:Ec; cbn [andb].
  - destruct (rstrip r) as [|x xs] eqn:Er; cbn [is_nil].
    + rewrite (split_ws_cons c r), Ec, <- IH. reflexivity.
    + rewrite (split_ws_cons c (x :: xs)), (split_ws_cons c r), Ec. exact IH.
  - (* c is not white space *)
    destruct r as [|c' r']; [reflexivity|].
    destruct (rstrip (c' :: r')) as [|x xs] eqn:Er.
    + apply rstrip_nil_space in Er. pose proof Er as Er'. unfold all_space in Er'. cbn [forallb] in Er'.
      apply andb_true_iff in Er' as [Hc' _].
      apply split_nil_iff in Er. rewrite (split_ws_cons c (c' :: r')), Ec, Hc', Er.
      rewrite (split_ws_cons c []), Ec. reflexivity.
    + assert (x = c').
      { rewrite rstrip_cons in Er. destruct (is_py_space c' && is_nil (rstrip r')); [discriminate|].
        inversion Er. reflexivity. }
      subst x. rewrite (split_ws_cons c (c' :: xs)), (split_ws_cons c (c' :: r')), Ec, IH. reflexivity.
Qed.

Lemma split_strip a : split_ws (strip a) = split_ws a.
Proof. unfold strip. rewrite split_rstrip, split_lstrip. reflexivity. Qed.

Lemma strip_idem a : strip (strip a) = strip a.
Proof. destruct (strip_tight a) as [E|Ht]; [rewrite E; reflexivity | apply tight_strip, Ht]. Qed.

Lemma only_blank_space v : only_blank v = true -> all_space v.
Proof.
  unfold only_blank, all_space. intro H. apply andb_true_iff in H as [_ H].
  apply (forallb_imp blank_char); [apply blank_is_space | exact H].
Qed.

Definition otext' (o : option pystr) : pystr := match o with Some x => x | None => [] end.
Definition ws_same (a b : option pystr) : Prop := strip (otext' a) = strip (otext' b).

Theorem policy_ws_stable clean collapse lit (a : pystr) (b : option pystr) :
  policy clean collapse lit b = b ->
  strip a = strip (otext' b) ->
  ws_same (policy clean collapse lit (opt_text a)) b.
Proof.
  intros Hfix Hab. unfold ws_same, opt_text.
  destruct a as [|c0 a0]; cbn [is_nil]; [cbn [policy otext']; exact Hab|].
  set (a := c0 :: a0) in *. cbn [policy].
  destruct (negb clean || lit) eqn:E1; [exact Hab|].
  destruct (only_blank a) eqn:E2; [exact Hab|].
  destruct (split_ws a) as [|w ws] eqn:E3.
  - cbn [otext']. apply split_nil_iff, strip_nil_iff in E3. rewrite <- Hab, E3. reflexivity.
  - cbn [otext']. destruct collapse.
    + (* collapsing: b is itself collapsed *)
      destruct b as [v|]; cbn [otext'] in *.
      * cbn [policy] in Hfix. rewrite E1 in Hfix.
        destruct (only_blank v) eqn:Ev.
        -- apply only_blank_space, strip_nil_iff in Ev. rewrite Ev in Hab.
           apply strip_nil_iff, split_nil_iff in Hab. congruence.
        -- assert (Es : split_ws a = split_ws v) by (rewrite <- (split_strip a), Hab, split_strip; reflexivity).
           rewrite <- Es, E3 in Hfix.
           assert (Hv : join [32] (w :: ws) = v) by congruence. rewrite Hv. reflexivity.
      * change (strip []) with (@nil N) in Hab. apply strip_nil_iff, split_nil_iff in Hab. congruence.
    + rewrite strip_idem. exact Hab.
Qed.

(* Proofs/C09_Queries.v — each query of Model/Edits.v answers what Spec/ListModel.v reads off
   the ordered tree. *)
From MP Require Import Common.Base.
From MP Require Import Model.Edits.
From MP Require Import Spec.ListModel.
From MP Require Import Proofs.C09_Lists.
From MP Require Import Proofs.C09_Inv.

Section RtreeInd.
  Variable P : rtree -> Prop.
  Hypothesis H : forall i n ks, Forall P ks -> P (RT i n ks).
  Fixpoint rtree_ind' (t : rtree) : P t :=
    match t as t0 return P t0 with
    | RT i n ks =>
      H i n ks ((fix go (l : list rtree) : Forall P l :=
                   match l as l0 return Forall P l0 with
                   | [] => Forall_nil P
                   | x :: r => Forall_cons x (rtree_ind' x) (go r)
                   end) ks)
    end.
End RtreeInd.

(** * children *)
Lemma first_named_spec nm l : first_named nm l = hd_error (filter (named nm) l).
Proof.
  induction l as [|c r IH]; simpl; [reflexivity|]. unfold named at 1.
  destruct (Nat.eqb (rt_name c) nm); simpl; auto.
Qed.

Lemma find_child_spec nm t : find_child nm t = spec_find_child nm t.
Proof. apply first_named_spec. Qed.

Lemma find_all_children_spec nm t : find_all_children nm t = spec_find_all_children nm t.
Proof. reflexivity. Qed.

(** * descendants, in document order *)
Lemma tl_rpre t : tl (rpre t) = flat_map rpre (rt_kids t).
Proof. destruct t; reflexivity. Qed.

Lemma hd_error_app_some {A} (x : A) l1 l2 : hd_error l1 = Some x -> hd_error (l1 ++ l2) = Some x.
Proof. destruct l1; simpl; [discriminate | auto]. Qed.

Lemma hd_error_none {A} (l : list A) : hd_error l = None -> l = [].
Proof. destruct l; simpl; [reflexivity | discriminate]. Qed.

Lemma find_descendant_spec nm : forall t, find_descendant nm t = spec_find_descendant nm t.
Proof.
  induction t as [i n ks IH] using rtree_ind'. unfold spec_find_descendant. rewrite tl_rpre. simpl rt_kids.
  cbn [find_descendant].
  induction IH as [|c r Hc Hr IHr]; [reflexivity|].
  simpl flat_map. rewrite filter_app.
  destruct c as [ci cn cks] eqn:EC. rewrite <- EC in *.
  assert (RP : rpre c = c :: flat_map rpre (rt_kids c)) by (rewrite EC; reflexivity).
  rewrite RP. simpl filter. unfold named at 1.
  destruct (Nat.eqb (rt_name c) nm) eqn:E.
  - reflexivity.
  - rewrite Hc. unfold spec_find_descendant. rewrite tl_rpre.
    destruct (hd_error (filter (named nm) (flat_map rpre (rt_kids c)))) as [x|] eqn:F.
    + symmetry. apply hd_error_app_some. exact F.
    + apply hd_error_none in F. rewrite F. simpl. exact IHr.
Qed.

Lemma find_all_descendants_spec nm : forall t acc,
  find_all_descendants nm t acc = acc ++ spec_find_all_descendants nm t.
Proof.
  induction t as [i n ks IH] using rtree_ind'. intro acc.
  unfold spec_find_all_descendants. rewrite tl_rpre. simpl rt_kids. cbn [find_all_descendants].
  revert acc. induction IH as [|c r Hc Hr IHr]; intro acc; [simpl; rewrite app_nil_r; reflexivity|].
  simpl flat_map. rewrite filter_app.
  destruct c as [ci cn cks] eqn:EC. rewrite <- EC in *.
  assert (RP : rpre c = c :: flat_map rpre (rt_kids c)) by (rewrite EC; reflexivity).
  rewrite RP. simpl filter. unfold named at 1.
  rewrite IHr, Hc. unfold spec_find_all_descendants. rewrite tl_rpre.
  destruct (Nat.eqb (rt_name c) nm); simpl; rewrite <- !app_assoc; reflexivity.
Qed.

(** * paths *)
Lemma fold_none (path : list nat) :
  fold_left (fun cur nm => match cur with Some x => spec_find_child nm x | None => None end) path None = None.
Proof. induction path; simpl; auto. Qed.

Lemma walk_single_spec path : forall cur,
  walk_single path cur =
  fold_left (fun cur nm => match cur with Some x => spec_find_child nm x | None => None end) path cur.
Proof.
  induction path as [|nm rest IH]; intro cur; simpl; [reflexivity|].
  destruct cur as [t|]; [rewrite IH, find_child_spec; reflexivity | symmetry; apply fold_none].
Qed.

Lemma find_single_node_by_path_spec path t : find_single_node_by_path path t = spec_single_by_path path t.
Proof.
  unfold find_single_node_by_path, spec_single_by_path. destruct path; [reflexivity|]. apply walk_single_spec.
Qed.

Lemma fold_nil (path : list nat) :
  fold_left (fun cur nm => flat_map (spec_find_all_children nm) cur) path [] = [].
Proof. induction path; simpl; auto. Qed.

Lemma walk_all_spec path : forall cur,
  walk_all path cur = fold_left (fun cur nm => flat_map (spec_find_all_children nm) cur) path cur.
Proof.
  induction path as [|nm rest IH]; intro cur; simpl; [reflexivity|].
  destruct cur as [|t r]; [symmetry; apply fold_nil|]. rewrite IH. reflexivity.
Qed.

Lemma find_all_nodes_by_path_spec path t : find_all_nodes_by_path path t = spec_all_by_path path t.
Proof.
  unfold find_all_nodes_by_path, spec_all_by_path. destruct path; [reflexivity|]. apply walk_all_spec.
Qed.

(** * child_index *)
Lemma child_index_spec s p c :
  child_index s p c = pos c (kids s p) /\
  match child_index s p c with
  | Some i => nth_error (kids s p) i = Some c /\ ~ In c (firstn i (kids s p))
  | None => ~ In c (kids s p)
  end.
Proof.
  unfold child_index. split; [apply index_of_pos|].
  destruct (index_of c (kids s p)) as [i|] eqn:E.
  - apply index_of_Some in E. tauto.
  - apply index_of_None; exact E.
Qed.

(** * the tree the queries walk is the one the child lists describe *)
Lemma reify_sound : forall fuel s i t, reify fuel s i = Some t -> tree_of s i t.
Proof.
  induction fuel as [|f IH]; intros s i t; simpl; [discriminate|].
  set (go := fix go (l : list nat) : option (list rtree) :=
         match l with
         | [] => Some []
         | c :: r => match reify f s c, go r with
                     | Some t, Some ts => Some (t :: ts)
                     | _, _ => None
                     end
         end).
  assert (G : forall l ks, go l = Some ks -> Forall2 (tree_of s) l ks).
  { induction l as [|c r IHl]; intros ks; simpl.
    - intros [= <-]. constructor.
    - destruct (reify f s c) as [tc|] eqn:R; [|discriminate].
      destruct (go r) as [ts|] eqn:Gr; [|discriminate].
      intros [= <-]. constructor; [apply IH; exact R | apply IHl; reflexivity]. }
  destruct (go (kids s i)) as [ks|] eqn:E; [|discriminate].
  intros [= <-]. constructor. apply G. exact E.
Qed.

(** * ancestry *)
Lemma chain_snoc s i l : chain s l -> forall fr p, l = fr ++ [p] -> In i (kids s p) -> chain s (l ++ [i]).
Proof.
  induction 1 as [x | x y r Ixy C IH]; intros fr p E Ii.
  - destruct fr as [|a fr]; simpl in E.
    + inversion E; subst. simpl. constructor; [exact Ii | constructor].
    + inversion E as [[E1 E2]]. destruct fr; discriminate.
  - destruct fr as [|a fr]; simpl in E; [discriminate|].
    inversion E as [[E1 E2]]. subst a. simpl. constructor; [exact Ixy|].
    apply (IH fr p); assumption.
Qed.

Lemma ancestry_spec s : Inv s -> forall fuel i acc l,
  ancestry fuel s i acc = Some l ->
  exists front, l = front ++ i :: acc /\ chain s (front ++ [i]) /\
                exists r rest, front ++ [i] = r :: rest /\ detached s r.
Proof.
  intros I. induction fuel as [|f IH]; intros i acc l; simpl; [discriminate|].
  destruct (parent s i) as [p|] eqn:E.
  - intro H. apply IH in H as [front [EL [C [r [rest [ER D]]]]]].
    apply (inv_listed s I) in E.
    exists (front ++ [p]). split; [rewrite <- app_assoc; exact EL|]. split.
    + eapply chain_snoc; eauto.
    + rewrite ER. exists r, (rest ++ [i]). split; [reflexivity | exact D].
  - intros [= <-]. exists []. simpl. split; [reflexivity|]. split; [constructor|].
    exists i, []. split; [reflexivity|]. apply inv_root_detached; assumption.
Qed.

Theorem get_ancestry_spec s fuel i l : Inv s -> get_ancestry fuel s i = Some l -> is_ancestry s i l.
Proof.
  intros I H. unfold get_ancestry in H. apply (ancestry_spec s I) in H as [front [EL [C [r [rest [ER D]]]]]].
  subst l. unfold is_ancestry. split; [exact C|]. split; [exists r, rest; auto | exists front; reflexivity].
Qed.

(* Proofs/C04_total.v — over closed tables, validation of any node / any tree never
   crashes: every partial operation of the Python (rules_dict[...], modality detection,
   attribute flag access, the matcher's loops) is shown to succeed; the fail-fast
   outcome is success or a class of the rule-error family; collected codes are members
   of the enumeration.
   Uses [validate_children_total] from Proofs/C01_Total.v (owned by the C01 work
   package): the children matcher never runs out of fuel. *)
From MP Require Import Common.Base Model.Rule Spec.TreeVal Proofs.C01_Total Proofs.C05_tree.

(** * The rule-error family, decided by walking up the class table *)
Fixpoint reachesb (parent : list (pystr * pystr)) (root : pystr) (fuel : nat) (c : pystr) : bool :=
  pystr_eqb c root ||
  match fuel with
  | O => false
  | S f => match assoc c parent with
           | Some p => reachesb parent root f p
           | None => false
           end
  end.

Lemma reachesb_sound parent root fuel : forall c, reachesb parent root fuel c = true -> in_family parent root c.
Proof.
  induction fuel as [|f IH]; intros c; simpl; rewrite orb_true_iff; intros [E|E].
  - apply pystr_eqb_eq in E; subst; constructor.
  - discriminate.
  - apply pystr_eqb_eq in E; subst; constructor.
  - destruct (assoc c parent) as [p|] eqn:A; [|discriminate].
    apply (fam_step parent root c p); [apply assoc_Some_In, A | apply IH, E].
Qed.

(** one representative per constructor of [verr] (class and code ignore the payload) *)
Definition verr_reps : list verr :=
  [EUnknownNode; EContentEmpty; EContentEnum; EContentInt; EContentFloat; EContentRange;
   EContentNonEmpty; EContentStrUnicode; EContentTime; EContentUri; EContentYear;
   EUnknownContentRule; EAttrRequired []; EAttrUnrecognized []; EAttrEnum [];
   EChildNotAllowed []; EChildPosition []; EMaxChoice; EMinChoice; EMaxOcc; EMinOcc []; EMetadataMax].

Lemma class_of_rep e : In (class_of e) (map class_of verr_reps).
Proof. destruct e; simpl; tauto. Qed.

Lemma code_of_rep e : In (code_of e) (map code_of verr_reps).
Proof. destruct e; simpl; tauto. Qed.

Lemma classes_in_family parent root fuel :
  forallb (reachesb parent root fuel) (map class_of verr_reps) = true ->
  forall e, in_family parent root (class_of e).
Proof.
  intros H e. rewrite forallb_forall in H. apply (reachesb_sound parent root fuel), H, class_of_rep.
Qed.

Lemma codes_in_enum codes :
  forallb (fun c => smem c codes) (map code_of verr_reps) = true -> forall e, In (code_of e) codes.
Proof.
  intros H e. rewrite forallb_forall in H. apply smem_In, H, code_of_rep.
Qed.

(** * No crash at a node *)
Lemma req_fold_no_crash (r : list (pystr * list rj)) (ks : list pystr) :
  forallb (fun p => match attr_required (snd p) with Some _ => true | None => false end) r = true ->
  no_crash (fold_right (fun '(a, sp) acc =>
                  match attr_required sp with
                  | None => Crash [] (s "attr-spec-not-led-by-bool")
                  | Some rq =>
                      res_app (Errs (if rq && negb (smem a ks) then [EAttrRequired a] else [])) acc
                  end) (Errs []) r).
Proof.
  induction r as [|[k sp] r IH]; cbn [fold_right]; intro W; [exists []; reflexivity|].
  cbn [forallb snd] in W. apply andb_true_iff in W as [W1 W2].
  destruct (attr_required sp) as [b|]; [|discriminate].
  destruct (IH W2) as [l ->]. eexists; reflexivity.
Qed.

Lemma chk_fold_no_crash (r : list (pystr * list rj)) (a : list (pystr * pystr)) :
  no_crash (fold_right (fun '(k, v) acc =>
                  match assoc k r with
                  | None => res_app (Errs [EAttrUnrecognized k]) acc
                  | Some sp =>
                      res_app (Errs (if Nat.ltb 1 (length sp) && negb (rj_mem_str v (attr_values sp))
                                     then [EAttrEnum k] else [])) acc
                  end) (Errs []) a).
Proof.
  induction a as [|[k v] a IH]; cbn [fold_right]; [exists []; reflexivity|].
  destruct IH as [l ->]. destruct (assoc k r); eexists; reflexivity.
Qed.

Lemma validate_attrs_no_crash r a :
  forallb (fun p => match attr_required (snd p) with Some _ => true | None => false end) r = true ->
  no_crash (validate_attrs r a).
Proof.
  intro W. unfold validate_attrs.
  destruct (req_fold_no_crash r (keys a) W) as [l1 ->].
  destruct (chk_fold_no_crash r a) as [l2 ->].
  eexists; reflexivity.
Qed.

Lemma validate_rule_no_crash orc tb rn r name c a w :
  rule_closed r = true -> no_crash (validate_rule orc tb rn r name c a w).
Proof.
  unfold rule_closed. rewrite andb_true_iff. intros [P A].
  unfold validate_rule.
  destruct (parse_children (rr_children r)) as [top|]; [|discriminate].
  assert (N : negb match top with Some sp => no_seq_in_seq sp | None => true end = false).
  { destruct top as [sp|]; [rewrite P|]; reflexivity. }
  rewrite N.
  destruct (validate_children top (smem rn (tb_mixed tb)) name w) as [ek|] eqn:K;
    [|exfalso; exact (validate_children_total _ _ _ _ K)].
  destruct (validate_attrs_no_crash (rr_attrs r) a A) as [la ->].
  eexists; reflexivity.
Qed.

Theorem validate_node_no_crash orc tb name c a w :
  tables_closed tb = true -> no_crash (validate_node orc tb name c a w).
Proof.
  unfold tables_closed. rewrite andb_true_iff, !forallb_forall. intros [M R].
  unfold validate_node.
  destruct (assoc name (tb_node_map tb)) as [rn|] eqn:E1; [|eexists; reflexivity].
  pose proof (M (name, rn) (assoc_Some_In _ _ _ E1)) as Hrn. simpl in Hrn.
  destruct (assoc rn (tb_rules tb)) as [r|] eqn:E2; [|discriminate].
  apply validate_rule_no_crash. apply (R (rn, r) (assoc_Some_In _ _ _ E2)).
Qed.

(** * The C04 statement, generic in the tables *)
Definition total_outcome (codes : list pystr) (parent : list (pystr * pystr)) (r : res) : Prop :=
  exists es, r = Errs es /\
    Forall (fun e => In (code_of e) codes) es /\
    (ff_of r = FOk \/ exists c, ff_of r = FRaise c /\ in_family parent RULE_ERROR_ROOT c) /\
    (ff_of r = FOk <-> es = []).

Lemma total_outcome_of_errs codes parent es :
  (forall e, In (code_of e) codes) ->
  (forall e, in_family parent RULE_ERROR_ROOT (class_of e)) ->
  total_outcome codes parent (Errs es).
Proof.
  intros HC HF. exists es. split; [reflexivity|]. split; [apply Forall_forall; intros e _; apply HC|]. split.
  - destruct es as [|e es]; [left; reflexivity | right; exists (class_of e); split; [reflexivity | apply HF]].
  - destruct es; simpl; split; intro H; try reflexivity; discriminate.
Qed.

Theorem C04_node_generic tb codes parent :
  tables_closed tb = true ->
  (forall e, In (code_of e) codes) ->
  (forall e, in_family parent RULE_ERROR_ROOT (class_of e)) ->
  forall orc name c a w, total_outcome codes parent (validate_node orc tb name c a w).
Proof.
  intros T HC HF orc name c a w.
  destruct (validate_node_no_crash orc tb name c a w T) as [es ->].
  apply total_outcome_of_errs; assumption.
Qed.

Theorem C04_tree_generic tb codes parent :
  tables_closed tb = true ->
  (forall e, In (code_of e) codes) ->
  (forall e, in_family parent RULE_ERROR_ROOT (class_of e)) ->
  forall orc t, total_outcome codes parent (validate_tree orc tb t).
Proof.
  intros T HC HF orc t.
  rewrite (validate_tree_collect orc tb t).
  - apply total_outcome_of_errs; assumption.
  - apply Forall_forall. intros n _. apply validate_node_no_crash, T.
Qed.

(** C05's collecting statement without the no-crash side condition, over closed tables *)
Theorem validate_tree_collect_closed tb orc t : tables_closed tb = true ->
  validate_tree orc tb t = Errs (concat (map (fun n => errs_of (node_of orc tb n)) (visible_preorder t))).
Proof.
  intro T. apply validate_tree_collect. apply Forall_forall. intros n _. apply validate_node_no_crash, T.
Qed.

(** * Non-vacuity: a table that is not closed does crash in the model *)
Example ex_unclosed_crashes :
  let tb := {| tb_rules := []; tb_node_map := [(s "a", s "aRule")]; tb_mixed := []; tb_ranges := ((0, 0), (0, 0))%Z |} in
  tables_closed tb = false /\
  validate_tree (fun _ => {| o_int := false; o_float := None; o_time := false; o_yd := false; o_uri := false |})
                tb (T (s "a") None [] []) = Crash [] (s "KeyError-rule-missing").
Proof. split; reflexivity. Qed.

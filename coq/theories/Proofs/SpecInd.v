(* Proofs/SpecInd.v — induction principle for the nested type [spec] and small list
   lemmas shared by the C10 and C17 proofs. *)
From MP Require Import Common.Base.
From MP Require Import Model.Rule.

Section SpecInd.
  Variable P : spec -> Prop.
  Hypothesis HEl : forall n lo hi, P (El n lo hi).
  Hypothesis HSeq : forall items, Forall P items -> P (Seq items).
  Hypothesis HCho : forall alts lo hi, Forall P alts -> P (Cho alts lo hi).

  Fixpoint spec_ind2 (sp : spec) : P sp :=
    match sp with
    | El n lo hi => HEl n lo hi
    | Seq items =>
        HSeq items ((fix go (l : list spec) : Forall P l :=
                       match l with
                       | [] => Forall_nil P
                       | x :: r => Forall_cons x (spec_ind2 x) (go r)
                       end) items)
    | Cho alts lo hi =>
        HCho alts lo hi ((fix go (l : list spec) : Forall P l :=
                            match l with
                            | [] => Forall_nil P
                            | x :: r => Forall_cons x (spec_ind2 x) (go r)
                            end) alts)
    end.
End SpecInd.

(** immediate-or-deeper sub-specs *)
Inductive sub : spec -> spec -> Prop :=
| sub_refl sp : sub sp sp
| sub_seq t i items : In i items -> sub t i -> sub t (Seq items)
| sub_cho t a alts lo hi : In a alts -> sub t a -> sub t (Cho alts lo hi).

Lemma In_flat_map_names x l :
  In x (flat_map names_of l) <-> exists i, In i l /\ In x (names_of i).
Proof. apply in_flat_map. Qed.

(* Proofs/C01_Tight.v — the side condition greedy_ok is not an artefact of the proof: for each
   of its clauses G1/G2 there is a spec violating only that clause on which the greedy,
   non-backtracking matcher REJECTS a word of the language (it is incomplete there; it stays
   sound, see C01_accept_sound).  No shipped rule has such a shape (C01_table). *)
From MP Require Import Common.Base Model.Rule Spec.Lang Spec.GreedyOk Spec.LangDec Proofs.C01_Main.

Definition a := s "a".
Definition b := s "b".
Definition c := s "c".
Definition P := s "p".

Definition incomplete_on (sp : spec) (w : list pystr) : Prop :=
  greedy_ok sp = false /\ L false sp w /\ validate_children (Some sp) false P w <> Some [].

Ltac tight := split; [vm_compute; reflexivity | split; [apply inL_correct; vm_compute; reflexivity | vm_compute; discriminate]].

(** G1: a name occurring twice *)
Example tight_dup : incomplete_on (Seq [El a 0 (Some 1); El a 1 (Some 1)]) [a].
Proof. tight. Qed.
(** G2: an iterating choice with a sequence alternative *)
Example tight_seq_alt : incomplete_on (Cho [Seq [El a 1 (Some 1); El b 0 (Some 1)]] 1 None) [a; a; b].
Proof. tight. Qed.
(** G2: an iterating choice whose own minimum exceeds 1 *)
Example tight_cho_lo : incomplete_on (Cho [El a 1 None] 2 None) [a; a].
Proof. tight. Qed.
(** G2: an iterating choice with an alternative whose minimum exceeds 1 *)
Example tight_alt_lo : incomplete_on (Cho [El a 2 (Some 3)] 0 None) [a; a; a; a].
Proof. tight. Qed.
(** G2: an iterating choice with a nested choice *)
Example tight_nested : incomplete_on (Cho [Cho [El a 1 (Some 1); El b 1 (Some 1)] 1 (Some 2); El c 1 (Some 1)] 1 (Some 2)) [a; b; a].
Proof. tight. Qed.

Lemma side_condition_needed_proof :
  exists sp w, greedy_ok sp = false /\ L false sp w /\ validate_children (Some sp) false P w <> Some [].
Proof. eexists. eexists. exact tight_cho_lo. Qed.

(* Proofs/C19_Full.v — the full statement of C19 ("on a tree that passes validation the warnings
   are exactly the recommended ones"), from the characterisation of validation in
   Proofs/Valid_Char.v.
   validate.tree does not look below a metadata element, evaluate.tree does; so "passes
   validation" is taken as: validate.tree accepts and no metadata element has children
   ([valid_tree]) or, more generally, every node of the tree — also below metadata — validates
   on its own ([deep_valid]).  Without that the statement is FALSE ([full_needs_hypothesis]). *)
From MP Require Import Common.Base Common.Tree Gen.Tables Model.Rule
  Spec.TreeVal Spec.Content Spec.Lang Model.PyString Model.Evaluate Spec.Recommend
  Proofs.C05_tree Proofs.C01_Main Proofs.C01_Table Proofs.Valid_Char
  Proofs.C19_Shape Proofs.C19_Shipped.

Section FtreeInd.
  Variable P : ftree -> Prop.
  Hypothesis H : forall d kids, Forall P kids -> P (FT d kids).
  Fixpoint ftree_ind_v (t : ftree) : P t :=
    match t with
    | FT d kids =>
        H d kids ((fix go (l : list ftree) : Forall P l :=
                     match l with
                     | [] => Forall_nil P
                     | x :: r => Forall_cons x (ftree_ind_v x) (go r)
                     end) kids)
    end.
End FtreeInd.

(** * [view] and the two pre-orders *)
Lemma view_name d : t_name (view d) = ft_name d.
Proof. destruct d; reflexivity. Qed.
Lemma view_content d : t_content (view d) = n_content (ft_d d).
Proof. destruct d; reflexivity. Qed.
Lemma view_kid_names d : map t_name (t_kids (view d)) = map ft_name (ft_kids d).
Proof.
  destruct d as [d kids]. simpl. rewrite map_map. apply map_ext. intro k. apply view_name.
Qed.

(** no metadata element of the tree has children *)
Definition metadata_childless (t : ftree) : Prop :=
  forall d, In d (preorder t) -> is_metadata (ft_name d) = true -> ft_kids d = [].

Lemma visible_all : forall t, metadata_childless t -> visible_preorder (view t) = map view (preorder t).
Proof.
  induction t as [d kids IH] using ftree_ind_v. intro MC.
  cbn [view visible_preorder preorder map]. f_equal.
  destruct (is_metadata (n_name d)) eqn:M.
  - pose proof (MC (FT d kids) (or_introl eq_refl) M) as K. simpl in K. subst kids. reflexivity.
  - assert (forall k, In k kids -> metadata_childless k) as MCk.
    { intros k Hk x Hx. apply MC. right. apply in_flat_map. exists k. split; assumption. }
    clear MC M. induction kids as [|k kids IHk]; [reflexivity|].
    inversion IH as [|? ? Hk Hr]; subst. cbn [map flat_map]. rewrite map_app.
    rewrite (Hk (MCk k (or_introl eq_refl))), (IHk Hr); [reflexivity|].
    intros k' Hk'. apply MCk. right. exact Hk'.
Qed.

(** every node of the tree validates on its own (validate.node), also below metadata *)
Definition deep_valid (orc : pystr -> oans) (t : ftree) : Prop :=
  forall d, In d (preorder t) -> node_valid orc (view d).

(** validate.tree accepts and there is nothing below a metadata element *)
Definition valid_tree (orc : pystr -> oans) (t : ftree) : Prop :=
  validate_tree orc shipped (view t) = Errs [] /\ metadata_childless t.

Lemma valid_tree_deep orc t : valid_tree orc t -> deep_valid orc t.
Proof.
  intros [V MC] d Hd. apply valid_tree_char_proof in V. rewrite (visible_all t MC) in V.
  rewrite Forall_forall in V. apply V. apply in_map. exact Hd.
Qed.

(** * from node validity to the hypotheses of C19_exact *)
Lemma named_not_metadata n d : named n d = true -> is_metadata (s n) = false -> is_metadata (ft_name d) = false.
Proof. unfold named. intros N M. apply pystr_eqb_eq in N. rewrite N. exact M. Qed.

Lemma node_valid_lang orc d :
  node_valid orc (view d) -> is_metadata (ft_name d) = false -> lang_ok_node d.
Proof.
  intros (rn & r & top & E1 & E2 & E3 & _ & _ & HK) M top0 RT.
  rewrite view_name in *. rewrite M in HK. destruct HK as [_ HL].
  unfold rule_top in RT. change (tb_node_map shipped) with node_map in E1.
  change (tb_rules shipped) with rules in E2. rewrite E1, E2, E3 in RT. injection RT as <-.
  exists (smem rn (tb_mixed shipped)). unfold word. rewrite <- view_kid_names. exact HL.
Qed.

(** table obligation: authentication and recordDelimiter are governed by non-mixed rules
    with the nonEmptyContent content rule *)
Lemma text_rules n : n = s "authentication" \/ n = s "recordDelimiter" ->
  exists rn r, assoc n node_map = Some rn /\ assoc rn rules = Some r /\
               In (s "nonEmptyContent") (rr_content_rules r) /\ is_mixed rn = false.
Proof.
  intros [-> | ->].
  - destruct (assoc (s "authentication") node_map) as [rn|] eqn:E1; [|vm_compute in E1; discriminate].
    destruct (assoc rn rules) as [r|] eqn:E2; [|vm_compute in E1; injection E1 as <-; vm_compute in E2; discriminate].
    exists rn, r. split; [reflexivity|]. split; [exact E2|].
    vm_compute in E1. injection E1 as <-. vm_compute in E2. injection E2 as <-.
    split; [apply smem_In; vm_compute; reflexivity | vm_compute; reflexivity].
  - destruct (assoc (s "recordDelimiter") node_map) as [rn|] eqn:E1; [|vm_compute in E1; discriminate].
    destruct (assoc rn rules) as [r|] eqn:E2; [|vm_compute in E1; injection E1 as <-; vm_compute in E2; discriminate].
    exists rn, r. split; [reflexivity|]. split; [exact E2|].
    vm_compute in E1. injection E1 as <-. vm_compute in E2. injection E2 as <-.
    split; [apply smem_In; vm_compute; reflexivity | vm_compute; reflexivity].
Qed.

Lemma node_valid_text orc d : node_valid orc (view d) -> text_ok_node d.
Proof.
  intros (rn & r & top & E1 & E2 & _ & [HC _] & _) N.
  rewrite view_name, view_content in *.
  assert (ft_name d = s "authentication" \/ ft_name d = s "recordDelimiter") as Hn.
  { apply orb_true_iff in N as [N|N]; unfold named in N; apply pystr_eqb_eq in N; auto. }
  destruct (text_rules _ Hn) as (rn' & r' & F1 & F2 & Hin & Hm).
  change (tb_node_map shipped) with node_map in E1. change (tb_rules shipped) with rules in E2.
  rewrite E1 in F1. injection F1 as <-. rewrite E2 in F2. injection F2 as <-.
  destruct (HC _ Hin) as (k & Hk & HK).
  change (kind_of (s "nonEmptyContent")) with (Some KNonEmpty) in Hk. injection Hk as <-.
  unfold kind_ok in HK. change (smem rn (tb_mixed shipped)) with (is_mixed rn) in HK. rewrite Hm in HK.
  destruct HK as [(x & Ex & Hx)|[X _]]; [|discriminate].
  unfold has_text, text_of. rewrite Ex. destruct x; [congruence | reflexivity].
Qed.

Lemma uniform_from_valid orc root t n :
  (n = "authentication"%string \/ n = "recordDelimiter"%string) ->
  deep_valid orc root -> In t (preorder root) -> uniform n t = true.
Proof.
  intros Hn DV Ht. unfold uniform. apply orb_true_iff. right. apply forallb_forall. intros k Hk.
  unfold children_named in Hk. apply filter_In in Hk as [Hk Nk].
  assert (Ik : In k (preorder root)) by (eapply pre_closed; eauto).
  apply (node_valid_text orc k (DV k Ik)).
  destruct Hn as [-> | ->]; rewrite Nk; [reflexivity | apply orb_true_r].
Qed.

Theorem deep_valid_shape orc t : deep_valid orc t -> Spec.Recommend.shape_ok t = true.
Proof.
  intro DV. unfold Spec.Recommend.shape_ok. apply forallb_forall. intros d Hd.
  pose proof (DV d Hd) as NV. destruct table_singletons as (A & B & C & D & E).
  unfold node_shape_ok. repeat (apply andb_true_iff; split).
  - destruct (named "dataset" d) eqn:N; [|reflexivity].
    pose proof (node_valid_lang orc d NV (named_not_metadata "dataset" d N eq_refl)) as LN.
    rewrite (single_from_lang "dataset" "abstract" d A N LN), (single_from_lang "dataset" "coverage" d B N LN),
      (single_from_lang "dataset" "intellectualRights" d C N LN). reflexivity.
  - destruct (named "physical" d) eqn:N; [|reflexivity].
    pose proof (node_valid_lang orc d NV (named_not_metadata "physical" d N eq_refl)) as LN.
    rewrite (single_from_lang "physical" "size" d D N LN), (single_from_lang "physical" "dataFormat" d E N LN).
    rewrite (uniform_from_valid orc t d "authentication") by (auto).
    rewrite (uniform_from_valid orc t d "recordDelimiter") by (auto).
    reflexivity.
  - destruct (named "textFormat" d) eqn:N; [|reflexivity].
    apply (uniform_from_valid orc t d "recordDelimiter"); auto.
Qed.

(** * the full statement *)
Theorem full_deep orc : full_statement (deep_valid orc).
Proof. apply full_from_shape. intros t V. exact (deep_valid_shape orc t V). Qed.

Theorem full_validation orc : full_statement (valid_tree orc).
Proof. apply full_from_shape. intros t V. exact (deep_valid_shape orc t (valid_tree_deep orc t V)). Qed.

(** * the side condition on metadata is needed
    A dataset with two abstracts hidden below a metadata element: validate.tree accepts the
    tree (metadata is opaque), evaluate.tree walks into it and judges the LAST abstract while the
    recommendation table reads "the" (first) one. *)
Definition mk_node (id name : string) (content : option pystr) (kids : list ftree) : ftree :=
  FT {| n_id := s id; n_name := s name; n_content := content; n_tail := None; n_prefix := None;
        n_attrs := []; n_extras := []; n_nsmap := [] |} kids.

Definition hidden_dataset : ftree :=
  mk_node "am" "additionalMetadata" None
    [ mk_node "m" "metadata" None
        [ mk_node "d" "dataset" None
            [ mk_node "a1" "abstract" (Some (s "short")) [];
              mk_node "a2" "abstract" None [] ] ] ].

Definition orc_none (x : pystr) : oans :=
  {| o_int := false; o_float := None; o_time := false; o_yd := false; o_uri := false |}.

Lemma full_needs_hypothesis :
  validate_tree orc_none shipped (view hidden_dataset) = Errs [] /\
  eval_tree eval_dispatch warn_codes None hidden_dataset [] <> EOk ([] ++ expected hidden_dataset).
Proof. split; [vm_compute; reflexivity | vm_compute; discriminate]. Qed.

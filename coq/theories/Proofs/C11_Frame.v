(* Proofs/C11_Frame.v — programs that stay within a write-free summary leave the heap
   unchanged, and their results do not depend on what ran before. *)
From Coq Require Import Permutation.
From MP Require Import Common.Base Model.Effects.

(** * Summaries without write kinds admit only read-only programs *)
Definition write_free (sm : list kind) : bool := forallb (fun k => negb (is_write k)) sm.

Lemma kind_eqb_write a b : kind_eqb a b = true -> is_write a = is_write b.
Proof. destruct a, b; simpl; intro H; try discriminate; reflexivity. Qed.

Lemma wprim_kind_writes w k : In k (wprim_kind w) -> is_write k = true.
Proof. destruct w; simpl; intuition (subst; reflexivity). Qed.

Lemma write_free_rejects sm w : write_free sm = true -> wprim_allowed sm w = false.
Proof.
  intro WF. unfold wprim_allowed.
  destruct (existsb _ (wprim_kind w)) eqn:E; [|reflexivity].
  apply existsb_exists in E as [k [Hk E]].
  apply existsb_exists in E as [k' [Hk' E]].
  apply kind_eqb_write in E. rewrite (wprim_kind_writes w k Hk) in E.
  unfold write_free in WF. rewrite forallb_forall in WF. specialize (WF k' Hk').
  rewrite <- E in WF. discriminate.
Qed.

Lemma within_read_only {A} sm (p : prog A) : write_free sm = true -> within sm p -> read_only p.
Proof.
  intros WF W. induction W as [a | r k Hr Hk IH | w k Hw Hk IH].
  - constructor.
  - constructor. exact IH.
  - rewrite (write_free_rejects sm w WF) in Hw. discriminate.
Qed.

(** * Frame and order independence, for ANY heap and ANY semantics of the primitives *)
Section Frame.
  Variable heap : Type.
  Variable rd : rprim -> heap -> val.
  Variable wr : wprim -> heap -> heap.

  Lemma read_only_frame {A} (p : prog A) : read_only p -> forall h, snd (run heap rd wr p h) = h.
  Proof.
    induction 1 as [a | r k Hk IH]; intro h; simpl; [reflexivity | apply IH].
  Qed.

  Lemma run_surj {A} (p : prog A) h : run heap rd wr p h = (fst (run heap rd wr p h), snd (run heap rd wr p h)).
  Proof. apply surjective_pairing. Qed.

  Lemma read_only_seq {A} (ps : list (prog A)) :
    Forall read_only ps ->
    forall h, run_seq heap rd wr ps h = (map (fun p => fst (run heap rd wr p h)) ps, h).
  Proof.
    induction 1 as [|p r Hp _ IH]; intro h; simpl; [reflexivity|].
    rewrite (run_surj p h). rewrite (read_only_frame p Hp h). rewrite IH. reflexivity.
  Qed.
End Frame.

(** * The table obligation: no summary of a read-only operation contains a write kind *)
Lemma summaries_write_free : forallb (fun o => write_free (summary o)) all_ops = true.
Proof. vm_compute. reflexivity. Qed.

Lemma all_ops_complete o : In o all_ops.
Proof. destruct o; simpl; tauto. Qed.

Lemma summary_write_free o : write_free (summary o) = true.
Proof.
  pose proof summaries_write_free as H. rewrite forallb_forall in H. apply H, all_ops_complete.
Qed.

Theorem frame :
  forall (heap : Type) (rd : rprim -> heap -> val) (wr : wprim -> heap -> heap)
         (A : Type) (o : op) (p : prog A),
    within (summary o) p -> forall h, snd (run heap rd wr p h) = h.
Proof.
  intros heap rd wr A o p W h. apply read_only_frame.
  apply (within_read_only (summary o)); [apply summary_write_free | exact W].
Qed.

(** a call sequence of read-only operations: every call returns what it returns when run
    alone on the initial heap — whatever ran before it — and the heap is unchanged *)
Theorem order_independent :
  forall (heap : Type) (rd : rprim -> heap -> val) (wr : wprim -> heap -> heap)
         (A : Type) (calls : list (op * prog A)),
    Forall (fun c => within (summary (fst c)) (snd c)) calls ->
    forall h, run_seq heap rd wr (map snd calls) h
              = (map (fun c => fst (run heap rd wr (snd c) h)) calls, h).
Proof.
  intros heap rd wr A calls W h.
  rewrite read_only_seq.
  - rewrite map_map. reflexivity.
  - rewrite Forall_forall in *. intros p Hp. apply in_map_iff in Hp as [c [<- Hc]].
    apply (within_read_only (summary (fst c))); [apply summary_write_free | apply W, Hc].
Qed.

(** hence any two orders of the same calls produce the same results, call by call *)
Corollary permutation_independent :
  forall (heap : Type) (rd : rprim -> heap -> val) (wr : wprim -> heap -> heap)
         (A : Type) (calls calls' : list (op * prog A)),
    Forall (fun c => within (summary (fst c)) (snd c)) calls ->
    Permutation calls calls' ->
    forall h,
      Permutation (combine calls (fst (run_seq heap rd wr (map snd calls) h)))
                  (combine calls' (fst (run_seq heap rd wr (map snd calls') h)))
      /\ snd (run_seq heap rd wr (map snd calls) h) = h
      /\ snd (run_seq heap rd wr (map snd calls') h) = h.
Proof.
  intros heap rd wr A calls calls' W P h.
  assert (W' : Forall (fun c => within (summary (fst c)) (snd c)) calls').
  { rewrite Forall_forall in *. intros c Hc. apply W. eapply Permutation_in; [apply Permutation_sym, P | exact Hc]. }
  rewrite (order_independent heap rd wr A calls W h), (order_independent heap rd wr A calls' W' h). simpl.
  split; [|split; reflexivity].
  assert (E : forall l : list (op * prog A),
             combine l (map (fun c => fst (run heap rd wr (snd c) h)) l)
             = map (fun c => (c, fst (run heap rd wr (snd c) h))) l).
  { induction l as [|c r IH]; simpl; [reflexivity | rewrite IH; reflexivity]. }
  rewrite !E. apply Permutation_map. exact P.
Qed.

(** * The exemplar programs stay within their summaries *)
Lemma within_bindp {A B} sm (p : prog A) (f : A -> prog B) :
  within sm p -> (forall a, within sm (f a)) -> within sm (bindp p f).
Proof.
  intros W Hf. induction W as [a | r k Hr Hk IH | w k Hw Hk IH]; simpl.
  - apply Hf.
  - constructor; [exact Hr | exact IH].
  - constructor; [exact Hw | exact IH].
Qed.

Lemma within_mapp {A B} sm (f : A -> prog B) l :
  (forall x, within sm (f x)) -> within sm (mapp f l).
Proof.
  intro Hf. induction l as [|x r IH]; simpl; [constructor|].
  apply within_bindp; [apply Hf|]. intro y.
  apply within_bindp; [exact IH|]. intro ys. constructor.
Qed.

Lemma within_kids_of sm n : reads sm FKids = true -> within sm (kids_of n).
Proof.
  intro H. unfold kids_of. constructor; [exact H|]. intro v.
  destruct v; try constructor. { simpl. exact H. } intro w. constructor.
Qed.

Lemma within_name_of sm n : reads sm FName = true -> within sm (name_of n).
Proof. intro H. unfold name_of. constructor; [exact H|]. intro v. constructor. Qed.

Local Arguments bindp : simpl never.
Local Arguments mapp : simpl never.
Local Arguments kids_of : simpl never.
Local Arguments name_of : simpl never.

Lemma export_within fuel : forall n, within (summary ExportToXml) (export_to_xml fuel n).
Proof.
  induction fuel as [|f IH]; intro n; simpl; [constructor|].
  apply within_bindp; [apply within_name_of; reflexivity|]. intro name.
  constructor; [reflexivity|]. intro a.
  constructor; [reflexivity|]. intro d.
  constructor; [reflexivity|]. intro c.
  apply within_bindp; [apply within_kids_of; reflexivity|]. intro kids.
  apply within_bindp; [apply within_mapp; exact IH|]. intro rest. constructor.
Qed.

Lemma find_all_descendants_within fuel name :
  forall n acc, within (summary FindAllDescendants) (find_all_descendants fuel name n acc).
Proof.
  induction fuel as [|f IH]; intros n acc; simpl; [constructor|].
  apply within_bindp; [apply within_kids_of; reflexivity|]. intro kids.
  revert acc. induction kids as [|c r IHk]; intro acc; [constructor|].
  apply within_bindp; [apply within_name_of; reflexivity|]. intro cn.
  apply within_bindp; [apply IH|]. intro acc2. apply IHk.
Qed.

Lemma child_insert_index_within names parent new_child :
  within (summary ChildInsertIndex) (child_insert_index names parent new_child).
Proof.
  unfold child_insert_index.
  apply within_bindp; [apply within_name_of; reflexivity|]. intro nn.
  destruct (index_of nn names) as [ni|]; [|constructor].
  apply within_bindp; [apply within_kids_of; reflexivity|]. intro kids.
  generalize 0. induction kids as [|c r IHk]; intro i; [constructor|].
  apply within_bindp; [apply within_name_of; reflexivity|]. intro cn.
  destruct (index_of cn names) as [ci|]; [|constructor].
  destruct (Nat.ltb ni ci); [constructor | apply IHk].
Qed.

(** * The exporter before commit e3be338: within its (writing) summary, and the frame
    statement is FALSE for it — the theorem above has content. *)
Lemma export_before_fix_within fuel :
  forall n, within summary_export_before_fix (export_to_xml_before_fix fuel n).
Proof.
  induction fuel as [|f IH]; intro n; simpl; [constructor|].
  apply within_bindp; [apply within_name_of; reflexivity|]. intro name.
  constructor; [reflexivity|]. intro a.
  constructor; [reflexivity|]. intro d.
  constructor; [reflexivity|]. intro c.
  assert (K : within summary_export_before_fix
                (bindp (kids_of n) (fun kids =>
                 bindp (mapp (export_to_xml_before_fix f) kids) (fun rest =>
                 Ret ((name, match c with VStr x => Some (escape x) | _ => None end) :: concat rest))))).
  { apply within_bindp; [apply within_kids_of; reflexivity|]. intro kids.
    apply within_bindp; [apply within_mapp; exact IH|]. intro rest. constructor. }
  destruct c; try exact K.
  constructor; [reflexivity | exact K].
Qed.

Definition witness_heap : cheap :=
  {| h_nodes := [(0, {| r_id := s "n0"; r_name := s "title"; r_content := Some (s "a<b"); r_tail := None;
                        r_prefix := None; r_attrs := 1; r_extras := 2; r_nsmap := 3; r_kids := 4;
                        r_parent := None |})];
     h_dicts := [(1, []); (2, []); (3, [])];
     h_lists := [(4, [])];
     h_store := [(s "n0", 0)] |}.

Example export_now_frame :
  run cheap crd cwr (export_to_xml 3 0) witness_heap = ([(s "title", Some (s "a&lt;b"))], witness_heap).
Proof. vm_compute. reflexivity. Qed.

Example export_before_fix_refuted :
  snd (run cheap crd cwr (export_to_xml_before_fix 3 0) witness_heap) <> witness_heap
  /\ fst (run_seq cheap crd cwr [export_to_xml_before_fix 3 0; export_to_xml_before_fix 3 0] witness_heap)
     = [[(s "title", Some (s "a&lt;b"))]; [(s "title", Some (s "a&amp;lt;b"))]].
Proof. split; [vm_compute; discriminate | vm_compute; reflexivity]. Qed.

(** non-vacuity of [within (summary o)]: a concrete call sequence on the witness heap *)
Example calls_nonvacuous :
  let calls := [(ExportToXml, export_to_xml 3 0); (ExportToXml, export_to_xml 3 0)] in
  Forall (fun c => within (summary (fst c)) (snd c)) calls /\
  run_seq cheap crd cwr (map snd calls) witness_heap
  = ([[(s "title", Some (s "a&lt;b"))]; [(s "title", Some (s "a&lt;b"))]], witness_heap).
Proof.
  split; [constructor; [apply export_within | constructor; [apply export_within | constructor]] | vm_compute; reflexivity].
Qed.

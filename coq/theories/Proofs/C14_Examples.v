(* Proofs/C14_Examples.v — a concrete history satisfying the hypotheses of the C14 theorems,
   and the tie between [exec_rop] and the script commands evaluated by the harness. *)
From MP Require Import Common.Base Common.Tree Model.Heap Model.Namespace Model.Registry
     Model.HeapEdits Model.Copy Model.RegOps Model.HeapRun
     Proofs.HeapInv Proofs.C14_Delete Proofs.C14_Inv Proofs.C14_Main.

Definition uuid_ex (k : nat) : pystr := [35%N; N.of_nat k].

Lemma uuid_ex_inj a b : uuid_ex a = uuid_ex b -> a = b.
Proof. unfold uuid_ex. intros [= H]. apply Nat2N.inj, H. Qed.

Definition ops_ex : list rop :=
  [RCreate (s "a") (Some (s "x")) None; RCreate (s "a") None None; RAttach 0 1 None; RDelete (s "x") false].

Lemma C14_nonvacuous_proof :
  exists h D, reg_run uuid_ex empty_heap (fun _ => False) ops_ex h D /\
              get_node_instance h (s "x") = None /\ get_node_instance h (uuid_ex 1) = Some 1.
Proof.
  eexists; eexists; split; [|split].
  - eapply rr_cons; [| vm_compute; reflexivity |].
    { simpl. split; [intros m r H; discriminate H | intros k; unfold uuid_ex; discriminate]. }
    eapply rr_cons; [exact Logic.I | vm_compute; reflexivity |].
    eapply rr_cons; [| vm_compute; reflexivity |].
    { simpl. split.
      - econstructor; [vm_compute; reflexivity | intros c []].
      - intro H. match type of H with desc ?hh _ _ => assert (G : forall m, desc hh 1 m -> m = 1) end.
        { clear H. induction 1 as [|p m Hd IH Hin]; [reflexivity|]. subst p. vm_compute in Hin. destruct Hin. }
        specialize (G 0 H). discriminate G. }
    eapply rr_cons; [| vm_compute; reflexivity | apply rr_nil].
    simpl. intro H; discriminate H.
  - vm_compute. reflexivity.
  - vm_compute. reflexivity.
Qed.

(** the operations of the theorems are the commands the harness evaluates (with "#k" ids) *)
Definition to_cmd (o : rop) : cmd :=
  match o with
  | RCreate name ids cont => KCreate name ids cont
  | RCopy n => KCopy n
  | RAttach par c idx => KEdit (ENs (Attach par c idx))
  | RReplace par old new d => KEdit (EReplaceChild par old new d)
  | RDelete i ch => KDelete i ch
  end.

Lemma exec_rop_is_cmd h o : exec_rop canon_uuid h o = exec_cmd h (to_cmd o).
Proof. destruct o; reflexivity. Qed.

(* Proofs/C17_Index.v — C17: the insertion index itself: bounds, declared order,
   refusal, and the characterisation "length of the longest prefix of children whose
   rank is not larger than the new child's". *)
From Coq Require Import Sorted.
From MP Require Import Common.Base.
From MP Require Import Model.Rule.
From MP Require Import Model.Insert.
From MP Require Import Spec.Lang.
From MP Require Import Spec.InsertSpec.

(** * takeWhile / dropWhile *)
Fixpoint takeWhile {A} (f : A -> bool) (l : list A) : list A :=
  match l with
  | [] => []
  | x :: r => if f x then x :: takeWhile f r else []
  end.

Fixpoint dropWhile {A} (f : A -> bool) (l : list A) : list A :=
  match l with
  | [] => []
  | x :: r => if f x then dropWhile f r else l
  end.

Lemma take_drop {A} (f : A -> bool) l : takeWhile f l ++ dropWhile f l = l.
Proof. induction l as [|x r IH]; simpl; [reflexivity|]. destruct (f x); simpl; [f_equal; exact IH | reflexivity]. Qed.

Lemma firstn_takeWhile {A} (f : A -> bool) l : firstn (length (takeWhile f l)) l = takeWhile f l.
Proof. induction l as [|x r IH]; simpl; [reflexivity|]. destruct (f x); simpl; [f_equal; exact IH | reflexivity]. Qed.

Lemma skipn_takeWhile {A} (f : A -> bool) l : skipn (length (takeWhile f l)) l = dropWhile f l.
Proof. induction l as [|x r IH]; simpl; [reflexivity|]. destruct (f x); simpl; [exact IH | reflexivity]. Qed.

Lemma insert_at_takeWhile {A} (f : A -> bool) (x : A) l :
  insert_at (length (takeWhile f l)) x l = takeWhile f l ++ x :: dropWhile f l.
Proof. unfold insert_at. rewrite firstn_takeWhile, skipn_takeWhile. reflexivity. Qed.

Lemma takeWhile_true {A} (f : A -> bool) l c : In c (takeWhile f l) -> f c = true.
Proof.
  induction l as [|x r IH]; simpl; [tauto|]. destruct (f x) eqn:E; simpl; [|tauto].
  intros [<-|H]; [exact E | apply IH, H].
Qed.

Lemma dropWhile_head {A} (f : A -> bool) l c r : dropWhile f l = c :: r -> f c = false.
Proof.
  induction l as [|x l IH]; simpl; [discriminate|]. destruct (f x) eqn:E; [exact IH|].
  intros [= <- _]. exact E.
Qed.

Lemma takeWhile_app_true {A} (f : A -> bool) p q :
  (forall c, In c p -> f c = true) ->
  takeWhile f (p ++ q) = p ++ takeWhile f q /\ dropWhile f (p ++ q) = dropWhile f q.
Proof.
  induction p as [|x p IH]; simpl; intro H; [split; reflexivity|].
  rewrite (H x (or_introl eq_refl)).
  destruct IH as [I1 I2]; [intros c Hc; apply H; right; exact Hc|].
  rewrite I1, I2. split; reflexivity.
Qed.

Lemma dropWhile_all_false {A} (f : A -> bool) r :
  (forall c, In c r -> f c = false) -> takeWhile f r = [] /\ dropWhile f r = r.
Proof.
  destruct r as [|x r]; simpl; intro H; [split; reflexivity|].
  rewrite (H x (or_introl eq_refl)). split; reflexivity.
Qed.

Lemma takeWhile_app_false {A} (f : A -> bool) q r :
  (forall c, In c r -> f c = false) ->
  takeWhile f (q ++ r) = takeWhile f q /\ dropWhile f (q ++ r) = dropWhile f q ++ r.
Proof.
  intro H. induction q as [|x q [I1 I2]]; simpl.
  - destruct (dropWhile_all_false f r H) as [-> ->]. split; reflexivity.
  - destruct (f x); [rewrite I1, I2|]; split; reflexivity.
Qed.

Lemma In_insert_at {A} i (x y : A) w : In y (insert_at i x w) <-> y = x \/ In y w.
Proof.
  unfold insert_at. rewrite in_app_iff. simpl.
  assert (E : In y w <-> In y (firstn i w) \/ In y (skipn i w)).
  { rewrite <- in_app_iff, firstn_skipn. tauto. }
  rewrite E. split; [intros [H|[H|H]] | intros [H|[H|H]]]; auto.
Qed.

Lemma length_insert_at {A} i (x : A) w : length (insert_at i x w) = S (length w).
Proof.
  unfold insert_at. rewrite app_length. simpl. rewrite <- plus_n_Sm, <- app_length, firstn_skipn. reflexivity.
Qed.

(** * index_of *)
Lemma index_of_In x l : In x l -> exists i, index_of x l = Some i /\ i < length l.
Proof.
  induction l as [|y r IH]; simpl; [tauto|]. intro H.
  destruct (pystr_eqb_reflect x y) as [->|NE].
  - exists 0. split; [reflexivity | lia].
  - destruct H as [E|H]; [congruence|]. destruct (IH H) as (i & -> & Hi).
    exists (S i). split; [reflexivity | lia].
Qed.

Lemma index_of_notIn x l : ~ In x l -> index_of x l = None.
Proof.
  induction l as [|y r IH]; simpl; [reflexivity|]. intro H.
  destruct (pystr_eqb_reflect x y) as [->|NE]; [exfalso; apply H; left; reflexivity|].
  rewrite IH; [reflexivity | tauto].
Qed.

Lemma index_of_Some_In x l i : index_of x l = Some i -> In x l.
Proof.
  intro H. destruct (in_dec pystr_eq_dec x l) as [I|N]; [exact I|].
  rewrite (index_of_notIn _ _ N) in H. discriminate.
Qed.

Lemma index_of_app_in x l1 l2 : In x l1 -> index_of x (l1 ++ l2) = index_of x l1.
Proof.
  induction l1 as [|y r IH]; simpl; [tauto|]. intro H.
  destruct (pystr_eqb_reflect x y) as [->|NE]; [reflexivity|].
  destruct H as [E|H]; [congruence|]. rewrite (IH H). reflexivity.
Qed.

Lemma index_of_app_notin x l1 l2 :
  ~ In x l1 -> index_of x (l1 ++ l2) = option_map (fun i => length l1 + i) (index_of x l2).
Proof.
  induction l1 as [|y r IH]; simpl; intro H.
  - destruct (index_of x l2); reflexivity.
  - destruct (pystr_eqb_reflect x y) as [->|NE]; [exfalso; apply H; left; reflexivity|].
    rewrite IH by tauto. destruct (index_of x l2); reflexivity.
Qed.

Lemma index_of_head x r : index_of x (x :: r) = Some 0.
Proof. simpl. rewrite pystr_eqb_refl. reflexivity. Qed.

Lemma rank_In names c : In c names -> index_of c names = Some (rank names c) /\ rank names c < length names.
Proof. intro H. unfold rank. destruct (index_of_In _ _ H) as (i & -> & Hi). split; [reflexivity | exact Hi]. Qed.

Lemma rank_notIn names c : ~ In c names -> rank names c = length names.
Proof. intro H. unfold rank. rewrite index_of_notIn by exact H. reflexivity. Qed.

(** rank comparison used by the scan *)
Definition le_rank (names : list pystr) (x c : pystr) : bool := (rank names c <=? rank names x)%nat.

(** ranks around a split of a duplicate-free name list *)
Lemma le_rank_split names x l1 l2 :
  NoDup names -> names = l1 ++ x :: l2 ->
  le_rank names x x = true /\
  (forall c, In c l1 -> le_rank names x c = true) /\
  (forall c, In c l2 -> le_rank names x c = false).
Proof.
  intros ND ->. unfold le_rank.
  assert (Nx : ~ In x l1).
  { apply NoDup_remove_2 in ND. intro H. apply ND. apply in_or_app. left. exact H. }
  assert (Rx : rank (l1 ++ x :: l2) x = length l1).
  { unfold rank. rewrite index_of_app_notin by exact Nx. rewrite index_of_head. simpl. lia. }
  rewrite Rx. split; [apply Nat.leb_le; lia|]. split.
  - intros c Hc. apply Nat.leb_le. unfold rank. rewrite index_of_app_in by exact Hc.
    destruct (index_of_In _ _ Hc) as (i & -> & Hi). lia.
  - intros c Hc. apply Nat.leb_gt.
    assert (Nc : ~ In c l1).
    { intro H. revert ND. clear -H Hc. induction l1 as [|y r IH]; simpl; [destruct H|].
      intro ND. inversion ND as [|? ? Hn ND']; subst. destruct H as [->|H].
      - apply Hn. apply in_or_app. right. right. exact Hc.
      - apply IH; assumption. }
    assert (Ncx : c <> x).
    { intros ->. apply NoDup_remove_2 in ND. apply ND. apply in_or_app. right. exact Hc. }
    unfold rank. rewrite index_of_app_notin by exact Nc. simpl.
    destruct (pystr_eqb_reflect c x) as [E|_]; [contradiction|].
    destruct (index_of_In _ _ Hc) as (i & -> & Hi). simpl. lia.
Qed.

(** * the scan *)
Lemma scan_char names x rx :
  index_of x names = Some rx ->
  forall w i, (forall c, In c w -> In c names) ->
    scan names rx w i = Idx (i + length (takeWhile (le_rank names x) w)).
Proof.
  intros Hx. assert (Rx : rank names x = rx) by (unfold rank; rewrite Hx; reflexivity).
  induction w as [|c w IH]; intros i Hw; simpl.
  - f_equal. lia.
  - destruct (rank_In names c (Hw c (or_introl eq_refl))) as [Hc _]. rewrite Hc.
    unfold le_rank at 1. rewrite Rx.
    destruct (Nat.ltb_spec rx (rank names c)) as [LT|GE].
    + replace (rank names c <=? rx)%nat with false by (symmetry; apply Nat.leb_gt; exact LT).
      simpl. f_equal. lia.
    + replace (rank names c <=? rx)%nat with true by (symmetry; apply Nat.leb_le; exact GE).
      simpl. rewrite IH by (intros d Hd; apply Hw; right; exact Hd). f_equal. lia.
Qed.

Lemma scan_first_larger names rx :
  forall w i k, scan names rx w i = Idx k ->
    exists d, k = i + d /\ d <= length w /\
      (forall j c, j < d -> nth_error w j = Some c -> rank names c <= rx) /\
      (forall c, nth_error w d = Some c -> rx < rank names c).
Proof.
  induction w as [|c w IH]; intros i k; simpl.
  - intros [= <-]. exists 0. split; [lia|]. split; [lia|]. split.
    + intros j c Hj. lia.
    + intros c H. discriminate.
  - destruct (index_of c names) as [rc|] eqn:Hc; [|discriminate].
    assert (Rc : rank names c = rc) by (unfold rank; rewrite Hc; reflexivity).
    destruct (Nat.ltb_spec rx rc) as [LT|GE].
    + intros [= <-]. exists 0. split; [lia|]. split; [lia|]. split.
      * intros j d Hj. lia.
      * simpl. intros d [= <-]. lia.
    + intro H. destruct (IH _ _ H) as (d & -> & Hd & Hlt & Hat).
      exists (S d). split; [lia|]. split; [lia|]. split.
      * intros [|j] e Hj; simpl.
        -- intros [= <-]. lia.
        -- intro He. apply (Hlt j e); [lia | exact He].
      * simpl. exact Hat.
Qed.

(** * statements about child_insert_index *)
Theorem cii_refuse names w x : ~ In x names -> child_insert_index names w x = Refused.
Proof. intro H. unfold child_insert_index. rewrite index_of_notIn by exact H. reflexivity. Qed.

Theorem cii_refuse_iff names w x : child_insert_index names w x = Refused <-> ~ In x names.
Proof.
  split; [|apply cii_refuse]. unfold child_insert_index.
  destruct (index_of x names) as [rx|] eqn:E.
  - intro H. exfalso. revert H. generalize 0. induction w as [|c w IH]; simpl; intro i; [discriminate|].
    destruct (index_of c names); [|discriminate]. destruct (Nat.ltb rx n); [discriminate | apply IH].
  - intros _ H. destruct (index_of_In _ _ H) as (i & Hi & _). congruence.
Qed.

Theorem cii_first_larger names w x k :
  child_insert_index names w x = Idx k -> In x names /\ first_larger names x w k.
Proof.
  unfold child_insert_index. destruct (index_of x names) as [rx|] eqn:Hx; [|discriminate].
  intro H. split; [eapply index_of_Some_In; exact Hx|].
  assert (Rx : rank names x = rx) by (unfold rank; rewrite Hx; reflexivity).
  destruct (scan_first_larger _ _ _ _ _ H) as (d & -> & Hd & Hlt & Hat). simpl.
  unfold first_larger. rewrite Rx. auto.
Qed.

Theorem cii_bounds names w x k : child_insert_index names w x = Idx k -> 0 <= k <= length w.
Proof. intro H. apply cii_first_larger in H as [_ [H _]]. lia. Qed.

Theorem cii_char names w x :
  In x names -> (forall c, In c w -> In c names) ->
  child_insert_index names w x = Idx (length (takeWhile (le_rank names x) w)).
Proof.
  intros Hx Hw. unfold child_insert_index.
  destruct (index_of_In _ _ Hx) as (rx & E & _). rewrite E.
  rewrite (scan_char names x rx E w 0 Hw). reflexivity.
Qed.

(** a ValueError can only come from an existing child the rule does not name *)
Theorem cii_crash names w x :
  child_insert_index names w x = CrashValueError -> exists c, In c w /\ ~ In c names.
Proof.
  intro H. destruct (in_dec pystr_eq_dec x names) as [Hx|Hx].
  - destruct (Forall_Exists_dec (fun c => In c names) (fun c => in_dec pystr_eq_dec c names) w) as [F|E].
    + rewrite Forall_forall in F. rewrite (cii_char names w x Hx F) in H. discriminate.
    + apply Exists_exists in E. exact E.
  - rewrite cii_refuse in H by exact Hx. discriminate.
Qed.

(** * inserting at the suggested index keeps the declared order *)
Lemma sorted_insert {A} (f : A -> nat) (x : A) :
  forall w k,
    StronglySorted (fun a b => f a <= f b) w ->
    k <= length w ->
    (forall j c, j < k -> nth_error w j = Some c -> f c <= f x) ->
    (forall c, nth_error w k = Some c -> f x < f c) ->
    StronglySorted (fun a b => f a <= f b) (insert_at k x w).
Proof.
  induction w as [|a w IH]; intros k SS Hk Hlt Hat.
  - assert (k = 0) by (simpl in Hk; lia). subst. unfold insert_at. simpl.
    constructor; constructor.
  - inversion SS as [|? ? S' Fa]; subst. destruct k as [|k].
    + unfold insert_at. simpl. constructor; [exact SS|].
      specialize (Hat a eq_refl). constructor; [lia|].
      rewrite Forall_forall in *. intros y Hy. specialize (Fa y Hy). lia.
    + change (insert_at (S k) x (a :: w)) with (a :: insert_at k x w).
      constructor.
      * apply IH; [exact S' | simpl in Hk; lia | |].
        -- intros j c Hj Hc. apply (Hlt (S j) c); [lia | exact Hc].
        -- intros c Hc. apply Hat. exact Hc.
      * rewrite Forall_forall in *. intros y Hy. apply In_insert_at in Hy as [->|Hy].
        -- apply (Hlt 0 a); [lia | reflexivity].
        -- apply Fa, Hy.
Qed.

Theorem cii_keeps_order names w x k :
  in_declared_order names w ->
  child_insert_index names w x = Idx k ->
  in_declared_order names (insert_at k x w).
Proof.
  intros SS H. apply cii_first_larger in H as [_ (Hk & Hlt & Hat)].
  apply sorted_insert; assumption.
Qed.

(** totality inside the property's quantifier: existing children and the new child all
    named by the rule -> an index is returned (no refusal, no ValueError) *)
Lemma scan_not_badrule names rx w : forall i, scan names rx w i <> BadRule.
Proof.
  induction w as [|c w IH]; intros i; cbn [scan]; [discriminate|].
  destruct (index_of c names) as [rc|]; [|discriminate].
  destruct (Nat.ltb rx rc); [discriminate|apply IH].
Qed.

Theorem cii_total names w x :
  In x names -> (forall c, In c w -> In c names) -> exists k, child_insert_index names w x = Idx k.
Proof.
  intros Hx Hw. destruct (child_insert_index names w x) as [k| | |] eqn:E.
  - exists k; reflexivity.
  - exfalso. apply cii_refuse_iff in E. exact (E Hx).
  - exfalso. apply cii_crash in E as (c & Hc & Hn). exact (Hn (Hw c Hc)).
  - exfalso. unfold child_insert_index in E. destruct (index_of x names); [|discriminate].
    exact (scan_not_badrule _ _ _ _ E).
Qed.

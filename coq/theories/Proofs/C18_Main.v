(* Proofs/C18_Main.v — the C18 statements, assembled from C18_Equal. *)
From MP Require Import Common.Base.
From MP Require Import Common.Tree.
From MP Require Import Spec.TreeEq.
From MP Require Import Model.Equal.
From MP Require Import Proofs.C18_Dict.
From MP Require Import Proofs.C18_Equal.

Lemma c18_iff a b :
  tree_wf (erase a) -> tree_wf (erase b) -> disjoint_objs a b ->
  (is_equal a b = true <-> tree_eq (erase a) (erase b)).
Proof. intros Wa Wb D; split; [apply is_equal_sound | apply is_equal_complete]; auto. Qed.

Lemma c18_same_object a b : ot_obj a = ot_obj b -> is_equal a b = false.
Proof.
  destruct a as [oa da ka], b as [ob db kb]. intro E. simpl in E. subst ob.
  rewrite is_equal_unfold, Nat.eqb_refl. reflexivity.
Qed.

Lemma c18_refl_copy a b :
  tree_wf (erase a) -> tree_wf (erase b) -> disjoint_objs a b ->
  tree_eq (erase a) (erase b) -> is_equal a b = true /\ is_equal b a = true.
Proof.
  intros Wa Wb D T. assert (E : is_equal a b = true) by (apply is_equal_complete; auto).
  split; [exact E|]. rewrite <- is_equal_sym; auto.
Qed.

(** a copy exists: the same fields under fresh identities *)
Lemma c18_copy_exists a m :
  tree_wf (erase a) -> (forall x, In x (objs a) -> x < m) ->
  let b := fst (label m (erase a)) in
  erase b = erase a /\ disjoint_objs a b /\ is_equal a b = true /\ is_equal b a = true.
Proof.
  intros W B b. assert (E : erase b = erase a) by apply label_spec.
  assert (D : disjoint_objs a b) by (apply label_disjoint; exact B).
  split; [exact E|]. split; [exact D|].
  apply c18_refl_copy; auto; rewrite E; auto using tree_eq_refl.
Qed.

Lemma c18_single_edit a b b' :
  tree_wf (erase a) -> tree_wf (erase b) -> tree_wf (erase b') ->
  is_equal a b = true -> one_edit (erase b) (erase b') ->
  is_equal a b' = false /\ is_equal b' a = false.
Proof.
  intros Wa Wb Wb' E O.
  assert (F : is_equal a b' = false).
  { destruct (is_equal a b') eqn:E'; [|reflexivity]. exfalso.
    apply is_equal_sound in E; auto. apply is_equal_sound in E'; auto.
    eapply one_edit_not_eq; eauto. eapply tree_eq_trans; [apply tree_eq_sym; exact E | exact E']. }
  split; [exact F|]. rewrite <- is_equal_sym; auto.
Qed.

(** transitivity: with symmetry and [c18_refl_copy], is_equal is an equivalence on
    pairwise object-disjoint well-formed trees; sharing between a/b or b/c is irrelevant *)
Lemma c18_trans a b c :
  tree_wf (erase a) -> tree_wf (erase b) -> tree_wf (erase c) -> disjoint_objs a c ->
  is_equal a b = true -> is_equal b c = true -> is_equal a c = true.
Proof.
  intros Wa Wb Wc D E1 E2.
  apply is_equal_sound in E1; auto. apply is_equal_sound in E2; auto.
  apply c18_iff; auto. eapply tree_eq_trans; eauto.
Qed.

(** the edit made on the FIRST argument's side (the code's traversal is driven by the
    first argument, so this is a separate obligation on the model, here reduced by symmetry) *)
Lemma c18_single_edit_left a a' b :
  tree_wf (erase a) -> tree_wf (erase a') -> tree_wf (erase b) ->
  is_equal a b = true -> one_edit (erase a) (erase a') ->
  is_equal a' b = false /\ is_equal b a' = false.
Proof.
  intros Wa Wa' Wb E O.
  assert (E' : is_equal b a = true) by (rewrite is_equal_sym; auto).
  destruct (c18_single_edit b a a' Wb Wa Wa' E' O) as [F1 F2]. split; assumption.
Qed.

(** the edit may equally be made on the first argument's side *)
Lemma c18_single_edit_spec b b' : tree_wf b -> one_edit b b' -> ~ tree_eq b b'.
Proof. intros W O; apply one_edit_not_eq; auto. Qed.

(** non-vacuity: a two-level tree, its relabelled copy, and an edit of the second child's
    extras deep in the copy *)
Definition ex_nd (nm : string) (ex : list (pystr * pystr)) : nd :=
  {| n_id := s "i"; n_name := s nm; n_content := None; n_tail := None; n_prefix := None;
     n_attrs := [(s "a", s "1"); (s "b", s "2")]; n_extras := ex; n_nsmap := [] |}.
Definition ex_a : otree := OT 0 (ex_nd "r" []) [OT 1 (ex_nd "x" []) []; OT 2 (ex_nd "y" [(s "k", s "v")]) []].
Definition ex_b : otree := fst (label 10 (erase ex_a)).
Definition ex_b' : otree := OT 10 (ex_nd "r" []) [OT 11 (ex_nd "x" []) []; OT 12 (ex_nd "y" [(s "k", s "w")]) []].
(* same dict, other insertion order: still equal *)
Definition ex_c : otree :=
  OT 20 {| n_id := s "j"; n_name := s "r"; n_content := None; n_tail := None; n_prefix := None;
           n_attrs := [(s "b", s "2"); (s "a", s "1")]; n_extras := []; n_nsmap := [] |}
     [OT 21 (ex_nd "x" []) []; OT 22 (ex_nd "y" [(s "k", s "v")]) []].

Lemma c18_example :
  is_equal ex_a ex_b = true /\ is_equal ex_a ex_b' = false /\ is_equal ex_a ex_c = true /\
  is_equal ex_a ex_a = false /\
  one_edit (erase ex_b) (erase ex_b').
Proof.
  repeat split; try (vm_compute; reflexivity).
  change (erase ex_b) with (FT (ex_nd "r" []) ([FT (ex_nd "x" []) []] ++ FT (ex_nd "y" [(s "k", s "v")]) [] :: [])).
  change (erase ex_b') with (FT (ex_nd "r" []) ([FT (ex_nd "x" []) []] ++ FT (ex_nd "y" [(s "k", s "w")]) [] :: [])).
  apply OE_deep.
  change (ex_nd "y" [(s "k", s "w")]) with (with_extras (dict_set (s "k") (s "w") (n_extras (ex_nd "y" [(s "k", s "v")]))) (ex_nd "y" [(s "k", s "v")])).
  apply OE_node, NE_extras, DE_set. vm_compute. discriminate.
Qed.

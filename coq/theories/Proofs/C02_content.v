(* Proofs/C02_content.v — the model of Rule._validate_content (Model/Rule.v:
   content_rule, validate_content) accepts exactly when Spec/Content.v's content_ok
   holds, for every oracle. *)
From MP Require Import Common.Base Model.Rule Spec.Content.

Lemma f_in_range_spec v lo hi : f_in_range v lo hi = true <-> finite_between lo hi v.
Proof.
  destruct v as [|neg|n d]; simpl; try (split; [discriminate | tauto]).
  rewrite andb_true_iff, !Z.leb_le. tauto.
Qed.

Lemma f_nonneg_spec v : f_nonneg v = true <-> non_negative v.
Proof.
  destruct v as [|neg|n d]; simpl.
  - split; [discriminate | tauto].
  - destruct neg; simpl; split; congruence.
  - apply Z.leb_le.
Qed.

Lemma is_surrogate_spec cp : is_surrogate cp = true <-> is_surrogate_cp cp.
Proof. unfold is_surrogate, is_surrogate_cp. rewrite andb_true_iff, !N.leb_le. tauto. Qed.

Lemma nonempty_spec (x : pystr) : nonempty x = true <-> x <> [].
Proof.
  destruct x; unfold nonempty; simpl; split; intro H; try reflexivity; try discriminate.
  exfalso; apply H; reflexivity.
Qed.

Lemma some_kind (k0 : ckind) (P : ckind -> Prop) : (exists k, Some k0 = Some k /\ P k) <-> P k0.
Proof. split; [intros [k [E H]]; inversion E; subst; exact H | intro H; exists k0; auto]. Qed.

Lemma none_kind (P : ckind -> Prop) : (exists k, @None ckind = Some k /\ P k) <-> False.
Proof. split; [intros [k [E _]]; discriminate | tauto]. Qed.

Section Content.
  Variable orc : pystr -> oans.
  Variable ranges : (Z * Z) * (Z * Z).

  Lemma range_rule_spec (chk : fval -> bool) (P : fval -> Prop) c :
    (forall v, chk v = true <-> P v) ->
    (float_check orc c ++
     match c with
     | Some x => match o_float (orc x) with
                 | Some v => if chk v then [] else [EContentRange]
                 | None => []
                 end
     | None => []
     end = [] <-> typed (float_with orc P) c).
  Proof.
    intro H. destruct c as [x|]; simpl; [|tauto].
    unfold float_with. destruct (o_float (orc x)) as [v|]; simpl.
    - destruct (chk v) eqn:E.
      + split; [intros _; exists v; split; [reflexivity | apply H, E] | reflexivity].
      + split; [discriminate|]. intros [v' [Ev Pv]]. inversion Ev; subst v'. apply H in Pv. congruence.
    - split; [discriminate | intros [v [Ev _]]; discriminate].
  Qed.

  Lemma typed_rule_spec (chk : pystr -> bool) (P : pystr -> Prop) (e : verr) c :
    (forall x, chk x = true <-> P x) ->
    (match c with Some x => if chk x then [] else [e] | None => [] end = [] <-> typed P c).
  Proof.
    intro H. destruct c as [x|]; simpl; [|tauto].
    destruct (chk x) eqn:E; split; intro G; try reflexivity; try discriminate.
    - apply H, E.
    - apply H in G. congruence.
  Qed.

  (** one content rule: the model reports nothing iff the name is known and its constraint holds *)
  Lemma content_rule_spec mixed c nkids cr :
    content_rule orc ranges mixed c nkids cr = [] <->
    exists k, kind_of cr = Some k /\ kind_ok orc ranges mixed c nkids k.
  Proof.
    unfold content_rule, kind_of, content_rule_names. cbn [assoc].
    destruct (pystr_eqb cr (s "emptyContent")).
    { rewrite some_kind. simpl. destruct c; split; intro; try reflexivity; discriminate. }
    destruct (pystr_eqb cr (s "floatContent")).
    { rewrite some_kind. cbn [kind_ok]. destruct c as [x|]; simpl; [|tauto].
      unfold float_with. destruct (o_float (orc x)) as [v|]; split; intro G; try reflexivity; try discriminate.
      - exists v; auto.
      - destruct G as [v [E _]]; discriminate. }
    destruct (pystr_eqb cr (s "floatRangeContent_EW")).
    { rewrite some_kind. cbn [kind_ok]. apply range_rule_spec. intro v. apply f_in_range_spec. }
    destruct (pystr_eqb cr (s "floatRangeContent_NS")).
    { rewrite some_kind. cbn [kind_ok]. apply range_rule_spec. intro v. apply f_in_range_spec. }
    destruct (pystr_eqb cr (s "floatContent_Nonnegative")).
    { rewrite some_kind. cbn [kind_ok]. apply range_rule_spec. intro v. apply f_nonneg_spec. }
    destruct (pystr_eqb cr (s "intContent")).
    { rewrite some_kind. cbn [kind_ok]. apply typed_rule_spec. intro x.
      unfold is_int. rewrite andb_true_iff, nonempty_spec. tauto. }
    destruct (pystr_eqb cr (s "nonEmptyContent")).
    { rewrite some_kind. cbn [kind_ok]. destruct c as [[|ch x]|].
      - destruct mixed; simpl; [destruct nkids; simpl|]; split; intro G; try reflexivity; try discriminate.
        + destruct G as [[x [E N]]|[_ G]]; [inversion E; subst; congruence | lia].
        + right; split; [reflexivity | lia].
        + destruct G as [[x [E N]]|[G _]]; [inversion E; subst; congruence | discriminate].
      - split; [intros _; left; exists (ch :: x); split; [reflexivity | discriminate] | reflexivity].
      - destruct mixed; simpl; [destruct nkids; simpl|]; split; intro G; try reflexivity; try discriminate.
        + destruct G as [[x [E N]]|[_ G]]; [discriminate | lia].
        + right; split; [reflexivity | lia].
        + destruct G as [[x [E N]]|[G _]]; discriminate. }
    destruct (pystr_eqb cr (s "strContent")).
    { rewrite some_kind. cbn [kind_ok]. destruct c as [x|]; simpl; [|tauto].
      destruct (existsb is_surrogate x) eqn:E.
      - split; [discriminate|]. intro G. apply existsb_exists in E as [cp [HI Hs]].
        exfalso. apply (G cp HI), is_surrogate_spec, Hs.
      - split; [|reflexivity]. intros _ cp HI Hs.
        assert (existsb is_surrogate x = true) by (apply existsb_exists; exists cp; split; [exact HI | apply is_surrogate_spec, Hs]).
        congruence. }
    destruct (pystr_eqb cr (s "timeContent")).
    { rewrite some_kind. cbn [kind_ok]. apply typed_rule_spec. intro x.
      unfold is_time. rewrite andb_true_iff, nonempty_spec. tauto. }
    destruct (pystr_eqb cr (s "uriContent")).
    { rewrite some_kind. cbn [kind_ok]. apply typed_rule_spec. intro x. unfold is_uri. tauto. }
    destruct (pystr_eqb cr (s "yearDateContent")).
    { rewrite some_kind. cbn [kind_ok]. apply typed_rule_spec. intro x.
      unfold is_yeardate. rewrite andb_true_iff, nonempty_spec. tauto. }
    destruct (pystr_eqb cr (s "anyContent")).
    { rewrite some_kind. simpl. tauto. }
    rewrite none_kind. split; [discriminate | tauto].
  Qed.

  (** what one content rule can report *)
  Lemma content_rule_family mixed c nkids cr e :
    In e (content_rule orc ranges mixed c nkids cr) ->
    content_family e \/ (e = EUnknownContentRule /\ kind_of cr = None).
  Proof.
    assert (FC : forall e, In e (float_check orc c) -> content_family e).
    { intros e0. unfold float_check. destruct c; [|intros []]. destruct (is_float orc (Some p)); [intros [] | intros [<-|[]]; exact I]. }
    assert (RG : forall (chk : fval -> bool) e0,
               In e0 (float_check orc c ++
                      match c with
                      | Some x => match o_float (orc x) with
                                  | Some v => if chk v then [] else [EContentRange]
                                  | None => []
                                  end
                      | None => []
                      end) -> content_family e0).
    { intros chk e0 H. apply in_app_iff in H as [H|H]; [apply FC, H|].
      destruct c as [x|]; [|destruct H]. destruct (o_float (orc x)) as [v|]; [|destruct H].
      destruct (chk v); [destruct H | destruct H as [<-|[]]; exact I]. }
    assert (TY : forall (chk : pystr -> bool) e1 e0, content_family e1 ->
               In e0 (match c with Some x => if chk x then [] else [e1] | None => [] end) -> content_family e0).
    { intros chk e1 e0 F H. destruct c as [x|]; [|destruct H]. destruct (chk x); [destruct H | destruct H as [<-|[]]; exact F]. }
    unfold content_rule, kind_of, content_rule_names. cbn [assoc].
    destruct (pystr_eqb cr (s "emptyContent")).
    { intro H. left. destruct c; [destruct H as [<-|[]]; exact I | destruct H]. }
    destruct (pystr_eqb cr (s "floatContent")). { intro H. left. apply FC, H. }
    destruct (pystr_eqb cr (s "floatRangeContent_EW")). { intro H. left. apply (RG _ _ H). }
    destruct (pystr_eqb cr (s "floatRangeContent_NS")). { intro H. left. apply (RG _ _ H). }
    destruct (pystr_eqb cr (s "floatContent_Nonnegative")). { intro H. left. apply (RG _ _ H). }
    destruct (pystr_eqb cr (s "intContent")). { intro H. left. apply (TY _ EContentInt _ I H). }
    destruct (pystr_eqb cr (s "nonEmptyContent")).
    { intro H. left. destruct c as [[|ch x]|]; try destruct H;
        destruct (mixed && Nat.eqb nkids 0 || negb mixed); try destruct H as [<-|[]]; try exact I; destruct H. }
    destruct (pystr_eqb cr (s "strContent")).
    { intro H. left. destruct c as [x|]; [|destruct H].
      destruct (existsb is_surrogate x); [destruct H as [<-|[]]; exact I | destruct H]. }
    destruct (pystr_eqb cr (s "timeContent")). { intro H. left. apply (TY _ EContentTime _ I H). }
    destruct (pystr_eqb cr (s "uriContent")). { intro H. left. apply (TY _ EContentUri _ I H). }
    destruct (pystr_eqb cr (s "yearDateContent")). { intro H. left. apply (TY _ EContentYear _ I H). }
    destruct (pystr_eqb cr (s "anyContent")). { intros []. }
    intros [<-|[]]. right. split; reflexivity.
  Qed.

  Lemma flat_map_nil {A B} (f : A -> list B) l : flat_map f l = [] <-> forall x, In x l -> f x = [].
  Proof.
    induction l as [|y l IH]; simpl; [tauto|].
    split.
    - intros E x [<-|HI]; apply app_eq_nil in E as [E1 E2]; [exact E1 | apply IH; assumption].
    - intro H. rewrite (H y (or_introl eq_refl)). simpl. apply IH. intros x HI. apply H. right; exact HI.
  Qed.

  (** Content validation accepts exactly when the declared constraints hold. *)
  Theorem validate_content_accepts_iff mixed crs enum c nkids :
    validate_content orc ranges mixed crs enum c nkids = [] <-> content_ok orc ranges mixed crs enum c nkids.
  Proof.
    unfold validate_content, content_ok. split.
    - intro E. apply app_eq_nil in E as [E1 E2]. split.
      + intros cr HI. apply content_rule_spec. apply (proj1 (flat_map_nil _ _) E1 cr HI).
      + destruct enum as [vals|]; simpl; [|exact I]. destruct c as [x|]; [|discriminate].
        destruct (smem x vals) eqn:Em; [|discriminate]. exists x; split; [reflexivity | apply smem_In, Em].
    - intros [H1 H2].
      assert (E1 : flat_map (content_rule orc ranges mixed c nkids) crs = []).
      { apply flat_map_nil. intros cr HI. apply content_rule_spec, H1, HI. }
      rewrite E1. simpl. destruct enum as [vals|]; [|reflexivity].
      destruct H2 as [x [-> HI]]. apply smem_In in HI. rewrite HI. reflexivity.
  Qed.

  (** ... the same way in both modes: fail-fast succeeds iff nothing is collected. *)
  Corollary validate_content_failfast_iff mixed crs enum c nkids :
    ff_of (Errs (validate_content orc ranges mixed crs enum c nkids)) = FOk <->
    content_ok orc ranges mixed crs enum c nkids.
  Proof.
    rewrite <- validate_content_accepts_iff.
    destruct (validate_content orc ranges mixed crs enum c nkids); simpl; split; intro H; try reflexivity; discriminate.
  Qed.

  (** Only content errors are reported when the rule uses implemented content-rule names. *)
  Theorem validate_content_family mixed crs enum c nkids :
    known_content_rules crs = true ->
    Forall content_family (validate_content orc ranges mixed crs enum c nkids).
  Proof.
    intro K. apply Forall_forall. intros e H. unfold validate_content in H.
    apply in_app_iff in H as [H|H].
    - apply in_flat_map in H as [cr [HI He]].
      destruct (content_rule_family mixed c nkids cr e He) as [F|[_ N]]; [exact F|].
      unfold known_content_rules in K. rewrite forallb_forall in K. specialize (K cr HI). rewrite N in K. discriminate.
    - destruct enum as [vals|]; [|destruct H]. destruct c as [x|].
      + destruct (smem x vals); [destruct H | destruct H as [<-|[]]; exact I].
      + destruct H as [<-|[]]; exact I.
  Qed.

  (** Every rejection is raised as a member of the rule-error family's content classes:
      the fail-fast outcome is the class of the first collected entry. *)
  Lemma content_family_class e : content_family e ->
    class_of e = s "MetapypeRuleError" \/ class_of e = s "StrContentUnicodeError" \/ class_of e = s "ContentExpectedUriError".
  Proof. destruct e; simpl; intro H; try destruct H; auto. Qed.
End Content.

(** Generic theorem used by Properties/C02.v: for every rule of a table that passes the
    table obligation. *)
Lemma C02_from_table (rules : list (pystr * rule_raw)) :
  forallb (fun r => known_content_rules (rr_content_rules (snd r))) rules = true ->
  forall orc ranges rn r mixed c nkids, In (rn, r) rules ->
    (validate_content orc ranges mixed (rr_content_rules r) (rr_content_enum r) c nkids = [] <->
     content_ok orc ranges mixed (rr_content_rules r) (rr_content_enum r) c nkids) /\
    Forall content_family (validate_content orc ranges mixed (rr_content_rules r) (rr_content_enum r) c nkids).
Proof.
  intros T orc ranges rn r mixed c nkids HI.
  pose proof (proj1 (forallb_forall _ _) T (rn, r) HI) as K. simpl in K.
  split; [apply validate_content_accepts_iff | apply validate_content_family, K].
Qed.

(** every error code the model can emit *)
Lemma code_of_in (codes : list pystr) :
  forallb (fun c => smem c codes)
          (map code_of [EUnknownNode; EContentEmpty; EContentEnum; EContentInt; EContentFloat; EContentRange;
                        EContentNonEmpty; EContentStrUnicode; EContentTime; EContentUri; EContentYear;
                        EUnknownContentRule; EAttrRequired []; EAttrUnrecognized []; EAttrEnum [];
                        EChildNotAllowed []; EChildPosition []; EMaxChoice; EMinChoice; EMaxOcc; EMinOcc []; EMetadataMax]) = true ->
  forall e, In (code_of e) codes.
Proof.
  intros H e. rewrite forallb_forall in H.
  apply smem_In. apply H. destruct e; simpl; tauto.
Qed.

(** * Non-vacuity: boundary behaviour of the ranged rules, for a concrete oracle *)
Definition ex_orc (x : pystr) : oans :=
  {| o_int := false;
     o_float := if pystr_eqb x (s "180") then Some (FFin 180 1)
                else if pystr_eqb x (s "180.5") then Some (FFin 361 2)
                else if pystr_eqb x (s "nan") then Some FNan
                else if pystr_eqb x (s "inf") then Some (FInf false)
                else if pystr_eqb x (s "-0.0") then Some (FFin 0 1)
                else None;
     o_time := false; o_yd := false; o_uri := false |}.
Definition ex_ranges : (Z * Z) * (Z * Z) := ((-180, 180), (-90, 90))%Z.

Example ex_range_boundary :
  content_ok ex_orc ex_ranges false [s "floatRangeContent_EW"] None (Some (s "180")) 0 /\
  ~ content_ok ex_orc ex_ranges false [s "floatRangeContent_EW"] None (Some (s "180.5")) 0 /\
  ~ content_ok ex_orc ex_ranges false [s "floatRangeContent_EW"] None (Some (s "nan")) 0 /\
  ~ content_ok ex_orc ex_ranges false [s "floatRangeContent_EW"] None (Some (s "inf")) 0 /\
  ~ content_ok ex_orc ex_ranges false [s "floatRangeContent_EW"] None (Some (s "abc")) 0 /\
  ~ content_ok ex_orc ex_ranges false [s "floatRangeContent_NS"] None (Some (s "180")) 0 /\
  content_ok ex_orc ex_ranges false [s "floatContent_Nonnegative"] None (Some (s "inf")) 0 /\
  content_ok ex_orc ex_ranges false [s "floatContent_Nonnegative"] None (Some (s "-0.0")) 0 /\
  ~ content_ok ex_orc ex_ranges false [s "floatContent_Nonnegative"] None (Some (s "nan")) 0 /\
  content_ok ex_orc ex_ranges true [s "nonEmptyContent"] None None 2 /\
  ~ content_ok ex_orc ex_ranges false [s "nonEmptyContent"] None None 2.
Proof.
  assert (acc : forall mixed crs c n, validate_content ex_orc ex_ranges mixed crs None c n = [] ->
                content_ok ex_orc ex_ranges mixed crs None c n) by (intros; apply validate_content_accepts_iff; assumption).
  assert (rej : forall mixed crs c n, validate_content ex_orc ex_ranges mixed crs None c n <> [] ->
                ~ content_ok ex_orc ex_ranges mixed crs None c n)
    by (intros mixed crs c n N H; apply N, validate_content_accepts_iff, H).
  split; [apply acc; vm_compute; reflexivity|].
  split; [apply rej; vm_compute; discriminate|].
  split; [apply rej; vm_compute; discriminate|].
  split; [apply rej; vm_compute; discriminate|].
  split; [apply rej; vm_compute; discriminate|].
  split; [apply rej; vm_compute; discriminate|].
  split; [apply acc; vm_compute; reflexivity|].
  split; [apply acc; vm_compute; reflexivity|].
  split; [apply rej; vm_compute; discriminate|].
  split; [apply acc; vm_compute; reflexivity|].
  apply rej; vm_compute; discriminate.
Qed.

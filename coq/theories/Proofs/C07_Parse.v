(* Proofs/C07_Parse.v — stage 3a of C07: the specification parser reads the general
   exporter's output back, and the result is given exactly ([layout]): the tree's names and
   attribute lists, with the exporter's newline/indentation merged into text and tails. *)
From MP Require Import Common.Base Common.Tree Common.XStr Spec.Xml Spec.XmlSim Model.XmlOut
  Proofs.C07_Escape Proofs.C07_Lex.
Local Open Scope N_scope.

(** induction over trees with the hypothesis for all children *)
Lemma ftree_ind2 (P : ftree -> Prop) :
  (forall d kids, Forall P kids -> P (FT d kids)) -> forall t, P t.
Proof.
  intro H. fix IH 1. intros [d kids]. apply H.
  induction kids as [|k r IHr]; constructor; [apply IH | exact IHr].
Qed.

Ltac norm := repeat first [rewrite <- app_assoc | progress (cbn [app])].

(** * The exact parse result *)
Definition indent (level : nat) : pystr := spaces (2 * level).

Definition layout_text (level : nat) (d : nd) (kids : list ftree) : pystr :=
  match n_content d with
  | None => if is_nil kids then [] else nl ++ indent (S level)
  | Some c => if is_nil kids then c else c ++ indent (S level)
  end.

(** white space between the last child and the end tag *)
Definition close_indent (level : nat) (d : nd) : pystr :=
  match n_content d with None => indent level | Some _ => [] end.

Definition kid_tail (level : nat) (d : nd) (k : ftree) (last : bool) : pystr :=
  nl ++ otext (n_tail (ft_d k)) ++ (if last then close_indent level d else indent (S level)).

Fixpoint layout (parent : option (list (pystr * pystr))) (level : nat) (t : ftree) (tl : pystr)
  {struct t} : xnode :=
  let 'FT d kids := t in
  XN KElem (tag_of d) (all_attrs parent d) (layout_text level d kids)
     ((fix go (ks : list ftree) : list xnode :=
         match ks with
         | [] => []
         | k :: r => layout (Some (n_nsmap d)) (S level) k (kid_tail level d k (is_nil r)) :: go r
         end) kids) tl.

Fixpoint layout_kids (level : nat) (d : nd) (ks : list ftree) : list xnode :=
  match ks with
  | [] => []
  | k :: r => layout (Some (n_nsmap d)) (S level) k (kid_tail level d k (is_nil r)) :: layout_kids level d r
  end.

Lemma layout_eq parent level d kids tl :
  layout parent level (FT d kids) tl =
  XN KElem (tag_of d) (all_attrs parent d) (layout_text level d kids) (layout_kids level d kids) tl.
Proof.
  cbn [layout]. f_equal. induction kids as [|k r IH]; [reflexivity|]. cbn [layout_kids]. rewrite <- IH. reflexivity.
Qed.

Lemma set_tail_layout parent level t tl : set_tail (layout parent level t []) tl = layout parent level t tl.
Proof. destruct t as [d kids]. rewrite !layout_eq. reflexivity. Qed.

(** * The printed element between its less-than sign and the greater-than sign that ends it *)
Definition core (parent : option (list (pystr * pystr))) (level : nat) (t : ftree) : pystr :=
  let 'FT d kids := t in
  tag_of d ++ attr_string parent false d ++
  match n_content d with
  | None =>
      if is_nil kids then s "/>"
      else [62] ++ nl ++ flat_map (to_xml (Some (n_nsmap d)) (S level) false) kids
           ++ indent level ++ s "</" ++ tag_of d ++ [62]
  | Some c =>
      [62] ++ escape_text c ++ flat_map (to_xml (Some (n_nsmap d)) (S level) false) kids
      ++ s "</" ++ tag_of d ++ [62]
  end.

Lemma to_xml_core parent level t :
  to_xml parent level false t =
  indent level ++ [60] ++ core parent level t ++ nl ++ escape_text (otext (n_tail (ft_d t))).
Proof.
  destruct t as [d kids]. cbn [to_xml core ft_d]. fold (indent level).
  destruct (n_content d) as [c|]; [|destruct kids as [|k r]]; cbn [is_nil];
    destruct (n_tail d) as [tl|]; cbn [otext]; rewrite ?escape_text_nil, ?app_nil_r;
    cbn [flat_map]; rewrite <- ?app_assoc; cbn [app]; rewrite <- ?app_assoc; reflexivity.
Qed.

(** the children of a node, from the first child's less-than sign up to the end tag *)
Fixpoint kids_str (level : nat) (d : nd) (ks : list ftree) : pystr :=
  match ks with
  | [] => []
  | k :: r => [60] ++ core (Some (n_nsmap d)) (S level) k ++ escape_text (kid_tail level d k (is_nil r))
              ++ kids_str level d r
  end.

Lemma spaces_plain n : forallb plain_char (spaces n) = true.
Proof. unfold spaces. induction n; simpl; [reflexivity|exact IHn]. Qed.

Lemma escape_indent n : escape_text (indent n) = indent n.
Proof. apply escape_text_plain, spaces_plain. Qed.

Lemma escape_nl : escape_text nl = nl.
Proof. reflexivity. Qed.

Lemma escape_close_indent level d : escape_text (close_indent level d) = close_indent level d.
Proof. unfold close_indent. destruct (n_content d); [reflexivity | apply escape_indent]. Qed.

Lemma escape_kid_tail level d k last :
  escape_text (kid_tail level d k last) =
  nl ++ escape_text (otext (n_tail (ft_d k))) ++ (if last then close_indent level d else indent (S level)).
Proof.
  unfold kid_tail. rewrite !escape_text_app, escape_nl.
  destruct last; [rewrite escape_close_indent | rewrite escape_indent]; reflexivity.
Qed.

Lemma kids_flat level d ks X :
  ks <> [] ->
  flat_map (to_xml (Some (n_nsmap d)) (S level) false) ks ++ close_indent level d ++ X
  = indent (S level) ++ kids_str level d ks ++ X.
Proof.
  induction ks as [|k r IH]; [congruence|]. intros _.
  cbn [flat_map kids_str]. rewrite to_xml_core, escape_kid_tail.
  destruct r as [|k2 r2].
  - cbn [flat_map kids_str is_nil]. norm. reflexivity.
  - cbn [is_nil]. norm. rewrite IH by discriminate. norm. reflexivity.
Qed.

(** * Small lexical facts about what follows a less-than sign *)
Lemma neq_sym_eqb k c : c <> k -> (k =? c) = false.
Proof. intro H. apply N.eqb_neq. congruence. Qed.

Lemma sw_lt_slash c r : c <> 47 -> starts_with lt_slash (60 :: c :: r) = false.
Proof.
  intro H. change lt_slash with [60; 47]. rewrite !starts_with_cons, (neq_sym_eqb 47 c H).
  rewrite andb_false_r. reflexivity.
Qed.
Lemma sw_comment c r : c <> 33 -> starts_with comment_open (60 :: c :: r) = false.
Proof.
  intro H. change comment_open with [60; 33; 45; 45]. rewrite !starts_with_cons, (neq_sym_eqb 33 c H).
  rewrite andb_false_r. reflexivity.
Qed.
Lemma sw_pi c r : c <> 63 -> starts_with pi_open (60 :: c :: r) = false.
Proof.
  intro H. change pi_open with [60; 63]. rewrite !starts_with_cons, (neq_sym_eqb 63 c H).
  rewrite andb_false_r. reflexivity.
Qed.
Lemma sw_cdata c r : c <> 33 -> starts_with cdata_open_tail (c :: r) = false.
Proof.
  intro H. change cdata_open_tail with [33; 91; 67; 68; 65; 84; 65; 91].
  rewrite starts_with_cons, (neq_sym_eqb 33 c H). reflexivity.
Qed.
Lemma sw_decl c r : c <> 63 -> starts_with xml_decl_open (60 :: c :: r) = false.
Proof.
  intro H. change xml_decl_open with [60; 63; 120; 109; 108].
  rewrite !starts_with_cons, (neq_sym_eqb 63 c H). rewrite andb_false_r. reflexivity.
Qed.

Lemma starts_with_app p l : starts_with p (p ++ l) = true.
Proof. induction p as [|c p IH]; [reflexivity|]. cbn [app starts_with]. rewrite N.eqb_refl, IH. reflexivity. Qed.

Lemma skipn_app_len {A} (p l : list A) : skipn (length p) (p ++ l) = l.
Proof. induction p as [|c p IH]; [reflexivity|exact IH]. Qed.

Lemma pendtag_ok name rest : pendtag name (name ++ 62 :: rest) = Some rest.
Proof. unfold pendtag. rewrite starts_with_app, skipn_app_len. reflexivity. Qed.

Lemma core_head parent level d kids :
  lex_ok d -> exists c r, core parent level (FT d kids) = c :: r /\ is_name_start c = true.
Proof.
  intro L. destruct (tag_lex d L) as (_ & _ & c & r & E & Hc).
  cbn [core]. rewrite E. cbn [app]. eauto.
Qed.

(** * Fuel *)
Fixpoint need (t : ftree) : nat :=
  let 'FT _ kids := t in
  S ((fix go (ks : list ftree) : nat :=
        match ks with [] => 1%nat | k :: r => S (need k + go r) end) kids).

Fixpoint needs (ks : list ftree) : nat :=
  match ks with [] => 1%nat | k :: r => S (need k + needs r) end.

Lemma need_eq d kids : need (FT d kids) = S (needs kids).
Proof. reflexivity. Qed.

(** * Unfolding equations *)
Lemma pnode_eq f l :
  pnode (S f) l =
  match ptag l with
  | None => None
  | Some (name, al, sc, r) =>
      if sc then Some (XN KElem name al [] [] [], r)
      else
        match ptext 0 TNorm r with
        | None => None
        | Some (text, r1) =>
            match pkids f r1 with
            | None => None
            | Some (ks, r2) =>
                match pendtag name r2 with
                | None => None
                | Some r3 => Some (XN KElem name al text ks [], r3)
                end
            end
        end
  end.
Proof. reflexivity. Qed.

Lemma pkids_elem f c l :
  is_name_start c = true ->
  pkids (S f) (60 :: c :: l) =
  match pnode f (c :: l) with
  | None => None
  | Some (x, r) =>
      match ptext 0 TNorm r with
      | None => None
      | Some (tl, r1) =>
          match pkids f r1 with
          | None => None
          | Some (ks, r2) => Some (set_tail x tl :: ks, r2)
          end
      end
  end.
Proof.
  intro H. apply name_start_bounds in H. cbn [pkids].
  rewrite sw_lt_slash, sw_comment, sw_pi by lia. reflexivity.
Qed.

Lemma pkids_end f rest : pkids (S f) (s "</" ++ rest) = Some ([], rest).
Proof. reflexivity. Qed.

(** text runs of the output are escaped strings followed by a less-than sign *)
Lemma ptext_run x c r :
  c <> 33 -> ptext 0 TNorm (escape_text x ++ 60 :: c :: r) = Some (x, 60 :: c :: r).
Proof.
  intro H. apply ptext_escape. right. exists (c :: r). split; [reflexivity | apply sw_cdata, H].
Qed.

(** * Children, given the statement for each child *)
Definition node_parses (t : ftree) : Prop :=
  forall parent level rest fuel, (need t <= fuel)%nat ->
    pnode fuel (core parent level t ++ rest) = Some (layout parent level t [], rest).

Inductive tree_lex : ftree -> Prop :=
| TL d kids : lex_ok d -> Forall tree_lex kids -> tree_lex (FT d kids).

Lemma tree_lex_inv d kids : tree_lex (FT d kids) -> lex_ok d /\ Forall tree_lex kids.
Proof. intro H. inversion H; subst. split; assumption. Qed.

Lemma pkids_print level d ks rest :
  Forall tree_lex ks -> Forall node_parses ks ->
  forall fuel, (needs ks <= fuel)%nat ->
  pkids fuel (kids_str level d ks ++ s "</" ++ rest) = Some (layout_kids level d ks, rest).
Proof.
  intros HL HP. induction ks as [|k r IH]; intros fuel Hf.
  - destruct fuel as [|f]; [inversion Hf|]. cbn [kids_str layout_kids app]. apply pkids_end.
  - inversion HL as [|? ? HLk HLr]; subst. inversion HP as [|? ? HPk HPr]; subst.
    destruct fuel as [|f]; [inversion Hf|]. cbn [needs] in Hf.
    destruct k as [dk kk]. destruct (tree_lex_inv _ _ HLk) as [Lk _].
    destruct (core_head (Some (n_nsmap d)) (S level) dk kk Lk) as (c & cr & Ec & Hc).
    cbn [kids_str layout_kids]. rewrite <- !app_assoc. cbn [app].
    set (K := FT dk kk) in *.
    (* what follows this child's tail: the next child or the end tag *)
    assert (Hnext : exists c2 r2, kids_str level d r ++ s "</" ++ rest = 60 :: c2 :: r2 /\ c2 <> 33).
    { destruct r as [|[dk2 kk2] r'].
      - cbn [kids_str app]. exists 47, rest. split; [reflexivity | lia].
      - inversion HLr as [|? ? HLk2 _]; subst. destruct (tree_lex_inv _ _ HLk2) as [Lk2 _].
        destruct (core_head (Some (n_nsmap d)) (S level) dk2 kk2 Lk2) as (c2 & cr2 & Ec2 & Hc2).
        cbn [kids_str]. rewrite Ec2. rewrite <- !app_assoc. cbn [app]. eexists c2, _. split; [reflexivity|].
        apply name_start_bounds in Hc2. lia. }
    destruct Hnext as (c2 & r2 & En & Hc2).
    rewrite Ec. cbn [app]. rewrite (pkids_elem f c _ Hc).
    change (c :: cr ++ escape_text (kid_tail level d K (is_nil r)) ++ kids_str level d r ++ s "</" ++ rest)
      with ((c :: cr) ++ escape_text (kid_tail level d K (is_nil r)) ++ kids_str level d r ++ s "</" ++ rest).
    rewrite <- Ec. rewrite (HPk (Some (n_nsmap d)) (S level) _ f) by lia.
    rewrite En, (ptext_run _ c2 r2 Hc2), <- En.
    rewrite (IH HLr HPr f) by lia.
    rewrite set_tail_layout. reflexivity.
Qed.

(** * Elements *)
Lemma ptext_run_end x r : ptext 0 TNorm (escape_text x ++ s "</" ++ r) = Some (x, s "</" ++ r).
Proof. change (s "</" ++ r) with (60 :: 47 :: r). apply ptext_run. lia. Qed.

Lemma kids_str_head level d kids Y :
  kids <> [] -> Forall tree_lex kids ->
  exists c2 r2, kids_str level d kids ++ Y = 60 :: c2 :: r2 /\ c2 <> 33.
Proof.
  intros Hne HL. destruct kids as [|[dk kk] r]; [congruence|].
  inversion HL as [|? ? HLk0 _]; subst. destruct (tree_lex_inv _ _ HLk0) as [Lk _].
  destruct (core_head (Some (n_nsmap d)) (S level) dk kk Lk) as (c2 & cr2 & Ec2 & Hc2).
  cbn [kids_str]. rewrite Ec2. norm. eexists c2, _. split; [reflexivity|].
  apply name_start_bounds in Hc2. lia.
Qed.

Lemma ptag_gt parent d rest :
  lex_ok d ->
  ptag (tag_of d ++ attr_string parent false d ++ 62 :: rest) = Some (tag_of d, all_attrs parent d, false, rest).
Proof. intro L. apply (ptag_print parent d [62] rest false L). auto. Qed.

Lemma node_parses_all t : tree_lex t -> node_parses t.
Proof.
  induction t as [d kids IH] using ftree_ind2. intro HL.
  destruct (tree_lex_inv _ _ HL) as [L HLk].
  assert (HP : Forall node_parses kids).
  { rewrite Forall_forall in *. intros k Hk. apply IH; [exact Hk | apply HLk, Hk]. }
  intros parent level rest fuel Hf. rewrite need_eq in Hf. destruct fuel as [|f]; [inversion Hf|].
  rewrite pnode_eq, layout_eq. cbn [core]. unfold layout_text.
  destruct (n_content d) as [c|] eqn:Ec.
  - (* content *)
    norm. rewrite (ptag_gt parent d _ L). cbv iota.
    set (X := tag_of d ++ 62 :: rest).
    destruct kids as [|k0 r0] eqn:Ek.
    + cbn [flat_map app is_nil layout_kids].
      rewrite ptext_run_end.
      destruct f as [|f']; [cbn [needs] in Hf; lia|]. rewrite pkids_end.
      subst X. rewrite pendtag_ok. reflexivity.
    + rewrite <- Ek in *. assert (Hne : kids <> []) by (rewrite Ek; discriminate).
      replace (is_nil kids) with false by (rewrite Ek; reflexivity).
      pose proof (kids_flat level d kids (s "</" ++ X) Hne) as KF.
      unfold close_indent in KF. rewrite Ec in KF. cbn [app] in KF. rewrite KF. clear KF.
      destruct (kids_str_head level d kids (s "</" ++ X) Hne HLk) as (c2 & r2 & Eh & Hc2).
      rewrite <- (escape_indent (S level)), app_assoc, <- escape_text_app.
      rewrite Eh, (ptext_run _ c2 r2 Hc2), <- Eh.
      rewrite (pkids_print level d kids X HLk HP f) by lia.
      subst X. rewrite pendtag_ok. rewrite ?escape_text_app, ?escape_indent, ?escape_nl. reflexivity.
  - destruct kids as [|k0 r0] eqn:Ek.
    + (* empty element *)
      cbn [is_nil]. norm.
      rewrite (ptag_print parent d (s "/>") rest true L) by auto. reflexivity.
    + (* children only *)
      rewrite <- Ek in *. assert (Hne : kids <> []) by (rewrite Ek; discriminate).
      replace (is_nil kids) with false by (rewrite Ek; reflexivity).
      norm. rewrite (ptag_gt parent d _ L). cbv iota.
      set (X := tag_of d ++ 62 :: rest).
      pose proof (kids_flat level d kids (s "</" ++ X) Hne) as KF.
      unfold close_indent in KF. rewrite Ec in KF. rewrite KF. clear KF.
      destruct (kids_str_head level d kids (s "</" ++ X) Hne HLk) as (c2 & r2 & Eh & Hc2).
      rewrite <- (escape_indent (S level)), <- escape_nl, app_assoc, <- escape_text_app.
      rewrite Eh, (ptext_run _ c2 r2 Hc2), <- Eh.
      rewrite (pkids_print level d kids X HLk HP f) by lia.
      subst X. rewrite pendtag_ok. rewrite ?escape_text_app, ?escape_indent, ?escape_nl. reflexivity.
Qed.

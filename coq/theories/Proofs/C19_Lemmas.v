(* Proofs/C19_Lemmas.v — list lemmas and the characterisation of the evaluators' loops. *)
From MP Require Import Common.Base.
From MP Require Import Common.Tree.
From MP Require Import Model.PyString.
From MP Require Import Model.Normalize.
From MP Require Import Model.Evaluate.
From MP Require Import Proofs.C20_PyString.
From MP Require Import Proofs.C20_Text.

(** * induction on full trees *)
Section FtreeInd.
  Variable P : ftree -> Prop.
  Hypothesis H : forall d kids, Forall P kids -> P (FT d kids).
  Fixpoint ftree_ind' (t : ftree) : P t :=
    match t with
    | FT d kids => H d kids ((fix go (l : list ftree) : Forall P l :=
                                match l with
                                | [] => Forall_nil P
                                | k :: r => Forall_cons k (ftree_ind' k) (go r)
                                end) kids)
    end.
End FtreeInd.

(** * lists *)
Lemma existsb_filter {A} (f g : A -> bool) l : existsb f (filter g l) = existsb (fun x => g x && f x) l.
Proof.
  induction l as [|x l IH]; [reflexivity|]. simpl. destruct (g x); simpl; rewrite IH; reflexivity.
Qed.

Lemma find_hd_filter {A} (f : A -> bool) l : find f l = hd_error (filter f l).
Proof. induction l as [|x l IH]; [reflexivity|]. simpl. destruct (f x); [reflexivity | exact IH]. Qed.

Lemma filter_orb_nil {A} (f g : A -> bool) l :
  filter (fun x => f x || g x) l = [] <-> filter f l = [] /\ filter g l = [].
Proof.
  induction l as [|x l IH]; simpl; [tauto|].
  destruct (f x), (g x); simpl; try (split; [discriminate | intros [? ?]; discriminate]). exact IH.
Qed.

Lemma list_sum_filter_orb {A} (h : A -> nat) (f g : A -> bool) l :
  (forall x, f x = true -> g x = false) ->
  list_sum (map h (filter (fun x => f x || g x) l)) = list_sum (map h (filter f l)) + list_sum (map h (filter g l)).
Proof.
  intro D. induction l as [|x l IH]; [reflexivity|]. simpl.
  destruct (f x) eqn:Ef; simpl.
  - rewrite (D x Ef). simpl. rewrite IH. lia.
  - destruct (g x); simpl; rewrite IH; lia.
Qed.

Lemma fold_add_sum {A} (h : A -> nat) l n : fold_left (fun n x => n + h x) l n = n + list_sum (map h l).
Proof. revert n. induction l as [|x l IH]; intro n; simpl; [lia|]. rewrite IH. lia. Qed.

(** * "the last matching child wins": [x = child] in a loop *)
Definition lastm {A} (f : A -> bool) (l : list A) (init : option A) : option A :=
  fold_left (fun acc x => if f x then Some x else acc) l init.

Lemma lastm_spec {A} (f : A -> bool) l init :
  lastm f l init = match rev (filter f l) with x :: _ => Some x | [] => init end.
Proof.
  unfold lastm. revert init. induction l as [|c r IH]; intro init; [reflexivity|].
  simpl. rewrite IH. destruct (f c); [|reflexivity].
  simpl. destruct (rev (filter f r)); reflexivity.
Qed.

(** with at most one match, last = first *)
Lemma lastm_single {A} (f : A -> bool) l : length (filter f l) <= 1 -> lastm f l None = hd_error (filter f l).
Proof.
  intro H. rewrite lastm_spec. destruct (filter f l) as [|x [|y r]]; [reflexivity | reflexivity | simpl in H; lia].
Qed.

Lemma lastm_is_some {A} (f : A -> bool) l :
  is_some (lastm f l None) = match filter f l with [] => false | _ => true end.
Proof.
  rewrite lastm_spec. destruct (filter f l) as [|x r]; [reflexivity|].
  simpl. destruct (rev r ++ [x]) eqn:E; [destruct (rev r); discriminate | reflexivity].
Qed.

(** [present (last match)] = "some match has text", when there is at most one match or all
    matches have text *)
Lemma present_lastm (f : ftree -> bool) l :
  (Nat.leb (length (filter f l)) 1 || forallb has_content (filter f l)) = true ->
  present (lastm f l None) = existsb has_content (filter f l).
Proof.
  intro H. apply orb_true_iff in H as [H|H].
  - apply Nat.leb_le in H. rewrite lastm_single by exact H.
    destruct (filter f l) as [|x [|y r]]; simpl; [reflexivity | rewrite orb_false_r; reflexivity | simpl in H; lia].
  - rewrite lastm_spec. destruct (filter f l) as [|x r] eqn:E; [reflexivity|].
    assert (A : forall y, In y (x :: r) -> has_content y = true) by (apply forallb_forall; exact H).
    destruct (rev (x :: r)) as [|z t] eqn:R.
    + simpl in R. destruct (rev r); discriminate.
    + assert (In z (x :: r)) by (apply in_rev; rewrite R; left; reflexivity).
      simpl present. rewrite (A z) by assumption. symmetry. simpl. rewrite (A x) by (left; reflexivity). reflexivity.
Qed.

(** present (first match) = "some match has text" under the same side condition *)
Lemma present_first (f : ftree -> bool) l :
  (Nat.leb (length (filter f l)) 1 || forallb has_content (filter f l)) = true ->
  present (hd_error (filter f l)) = existsb has_content (filter f l).
Proof.
  intro H. destruct (filter f l) as [|x r]; [reflexivity|]. simpl in *.
  apply orb_true_iff in H as [H|H].
  - destruct r; [rewrite orb_false_r; reflexivity | discriminate].
  - apply andb_true_iff in H as [Hx _]. rewrite Hx. reflexivity.
Qed.

(** * element-name tests *)
Lemma nm_is_other a b t : nm_is a t = true -> pystr_eqb (s a) (s b) = false -> nm_is b t = false.
Proof.
  unfold nm_is. intros H N. apply pystr_eqb_eq in H. rewrite H. exact N.
Qed.

(** rewrite every other name test on [c] to false, given [E : nm_is a c = true] *)
Ltac excl E :=
  rewrite ?E;
  repeat match goal with
         | |- context [nm_is ?b ?c] =>
             match type of E with
             | nm_is ?a c = true => rewrite (nm_is_other a b c E eq_refl)
             end
         end.

(** * get_text_content *)
Lemma fold_add_text l acc :
  fold_left add_text l acc = acc ++ concat (map (fun p => NL :: str_or_empty (content_of p)) l).
Proof.
  revert acc. induction l as [|p l IH]; intro acc; simpl; [rewrite app_nil_r; reflexivity|].
  rewrite IH. unfold add_text. rewrite <- app_assoc. reflexivity.
Qed.

Definition block_text (p : ftree) : pystr := str_or_empty (content_of p).

Lemma get_text_content_eq t :
  get_text_content t =
  (str_or_empty (content_of t) ++ concat (map (fun p => NL :: block_text p) (find_all_descendants "para" t)))
  ++ concat (map (fun p => NL :: block_text p) (find_all_descendants "markdown" t)).
Proof. unfold get_text_content. rewrite !fold_add_text. reflexivity. Qed.

Lemma concat_nl_nil (g : ftree -> pystr) l : concat (map (fun p => NL :: g p) l) = [] <-> l = [].
Proof. destruct l; simpl; split; intro H; try reflexivity; discriminate. Qed.

Lemma get_text_content_nonempty t :
  nonempty (get_text_content t) =
  negb (negb (has_content t) &&
        match filter (fun d => nm_is "para" d || nm_is "markdown" d) (descendants t) with [] => true | _ => false end).
Proof.
  rewrite get_text_content_eq. unfold find_all_descendants, has_content.
  pose proof (filter_orb_nil (nm_is "para") (nm_is "markdown") (descendants t)) as F.
  set (P := filter (nm_is "para") (descendants t)) in *.
  set (M := filter (nm_is "markdown") (descendants t)) in *.
  set (O := filter (fun d => nm_is "para" d || nm_is "markdown" d) (descendants t)) in *.
  assert (EO : match O with [] => true | _ => false end =
               match P with [] => true | _ => false end && match M with [] => true | _ => false end).
  { destruct F as [F1 F2]. destruct O, P, M; simpl; try reflexivity; exfalso;
      first [ destruct (F1 eq_refl); discriminate | discriminate (F2 (conj eq_refl eq_refl)) ]. }
  rewrite EO. destruct (content_of t) as [[|c r]|], P, M; reflexivity.
Qed.

Lemma nl_is_space : is_py_space NL = true.
Proof. reflexivity. Qed.

Lemma words_concat_nl (g : ftree -> pystr) l acc :
  py_split_ws (acc ++ concat (map (fun p => NL :: g p) l)) = py_split_ws acc ++ flat_map (fun p => py_split_ws (g p)) l.
Proof.
  revert acc. induction l as [|p l IH]; intro acc; simpl.
  - rewrite !app_nil_r. reflexivity.
  - replace (acc ++ NL :: g p ++ concat (map (fun p0 => NL :: g p0) l))
      with ((acc ++ NL :: g p) ++ concat (map (fun p0 => NL :: g p0) l))
      by (rewrite <- app_assoc; reflexivity).
    rewrite IH. rewrite words_app_sep by exact nl_is_space. rewrite <- app_assoc. reflexivity.
Qed.

Lemma length_flat_map {A B} (f : A -> list B) l : length (flat_map f l) = list_sum (map (fun x => length (f x)) l).
Proof. induction l as [|x l IH]; [reflexivity|]. simpl. rewrite app_length, IH. reflexivity. Qed.

Lemma get_text_content_words t :
  length (py_split_ws (get_text_content t)) =
  length (py_split_ws (str_or_empty (content_of t))) +
  list_sum (map (fun p => length (py_split_ws (block_text p)))
                (filter (fun d => nm_is "para" d || nm_is "markdown" d) (descendants t))).
Proof.
  rewrite get_text_content_eq. rewrite !words_concat_nl. rewrite !app_length, !length_flat_map.
  unfold find_all_descendants. rewrite list_sum_filter_orb.
  - lia.
  - intros x E. exact (nm_is_other "para" "markdown" x E eq_refl).
Qed.

(** * title words *)
Lemma strip_empty_iff w : nonempty (py_strip w) = negb (forallb is_py_space w).
Proof.
  unfold py_strip.
  destruct (lstrip_decomp w) as (pre & E & Fp). destruct (rstrip_decomp (py_lstrip w)) as (suf & E' & Fs).
  destruct (py_rstrip (py_lstrip w)) as [|c r] eqn:R.
  - simpl. symmetry. apply negb_false_iff. rewrite E, E'. simpl. rewrite forallb_app.
    apply andb_true_iff; split; apply forallb_forall; apply Forall_forall; assumption.
  - simpl. symmetry. apply negb_true_iff. apply not_true_iff_false. intro A.
    rewrite forallb_forall in A.
    assert (Hc : is_py_space c = false).
    { apply (strip_first w c r). unfold py_strip. exact R. }
    rewrite A in Hc; [discriminate|]. rewrite E, E'. apply in_or_app; right. left; reflexivity.
Qed.

Lemma split_norm x : norm_words x <> [] -> py_split_on SP (norm x) = norm_words x.
Proof.
  intro NE. unfold norm. apply split_on_join; [exact NE|].
  eapply Forall_impl; [|apply norm_words_good]. intros w (_ & _ & NS & _).
  apply Forall_forall. intros d Hd. destruct (N.eqb_spec SP d) as [<-|]; [contradiction | reflexivity].
Qed.

Lemma title_length x :
  Nat.ltb (length (py_split_on SP (norm x))) 5 =
  Nat.ltb (length (filter (fun w => negb (forallb is_py_space w)) (py_split_on 32 (replace_char 160 32 x)))) 5.
Proof.
  assert (L : length (norm_words x) =
              length (filter (fun w => negb (forallb is_py_space w)) (py_split_on 32 (replace_char 160 32 x)))).
  { unfold norm_words. rewrite map_length. f_equal. apply filter_ext. intro w. apply strip_empty_iff. }
  rewrite <- L. destruct (norm_words x) as [|w ws] eqn:E.
  - unfold norm. rewrite E. reflexivity.
  - rewrite split_norm by (rewrite E; discriminate). rewrite E. reflexivity.
Qed.

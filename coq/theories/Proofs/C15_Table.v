(* Proofs/C15_Table.v — the shipped tables as one [tables] value and a worked instance. *)
From MP Require Import Common.Base Common.Tree Gen.Tables Model.Rule Model.RuleRun Model.Prune Model.PruneRun.
From MP Require Import Spec.PruneSpec Spec.TreeVal.

Definition shipped15 : tables :=
  {| tb_rules := rules; tb_node_map := node_map; tb_mixed := mixed_rules; tb_ranges := (range_ew, range_ns) |}.

Lemma shipped15_closed : tables_closed shipped15 = true.
Proof. vm_compute. reflexivity. Qed.

Lemma shipped15_metadata : known shipped15 METADATA = true.
Proof. vm_compute. reflexivity. Qed.

(** access[ zz ; allow[] ; deny[principal; permission] ]: "zz" is not allowed, the empty "allow"
    is invalid (strict only) *)
Definition ex_tree : ftree :=
  FT (mk (s "r") (s "access") None [(s "authSystem", s "x")])
     [FT (mk (s "a") (s "zz") None []) [FT (mk (s "a1") (s "title") None []) []];
      FT (mk (s "b") (s "allow") None []) [];
      FT (mk (s "c") (s "deny") None [])
         [FT (mk (s "c1") (s "principal") (Some (s "p")) []) []; FT (mk (s "c2") (s "permission") (Some (s "read")) []) []]].

Lemma ex_lenient :
  prune (orc_of []) shipped15 false ex_tree =
  POk (Some (FT (ft_d ex_tree) (tl (ft_kids ex_tree)))) [(s "a", RNotAllowed)] [s "a"; s "a1"].
Proof. vm_compute. reflexivity. Qed.

Lemma ex_strict :
  prune (orc_of []) shipped15 true ex_tree =
  POk (Some (FT (ft_d ex_tree) (tl (tl (ft_kids ex_tree))))) [(s "a", RNotAllowed); (s "b", RInvalid)] [s "a"; s "a1"; s "b"].
Proof. vm_compute. reflexivity. Qed.

Lemma ex_known : known shipped15 (ft_name ex_tree) = true.
Proof. vm_compute. reflexivity. Qed.

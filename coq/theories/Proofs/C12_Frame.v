(* Proofs/C12_Frame.v — footprints of the single edits: an edit writes node records only inside
   the subtrees of the nodes it names, writes dict objects in place only at the attributes /
   extras dict of the node it names, and otherwise allocates.  Hence the reification of any
   tree separated from the edit is unchanged. *)
From MP Require Import Common.Base Common.Tree Model.Heap Model.Namespace Model.Registry
     Model.HeapEdits Model.Copy Spec.CopySpec Spec.NsSpec
     Proofs.HeapInv Proofs.DictFacts Proofs.C13_Walk Proofs.C13_Refine Proofs.C13_Attach
     Proofs.C12_Base.

Definition locs3 (r : nrec) : list nat := [attrs_loc r; extras_loc r; ns_loc r].

(** the nodes an edit names (it may write records in their subtrees only) *)
Definition edit_nodes (e : edit) : list nat :=
  match e with
  | ESetContent n _ | ESetTail n _ | ESetPrefix n _
  | EAddAttr n _ _ | ERemoveAttr n _ | EAddExtras n _ _ => [n]
  | ENs (Declare n _ _) | ENs (Undeclare n _) => [n]
  | ENs (Attach par c _) => [par; c]
  | ERemoveChild par c => [par; c]
  | EReplaceChild par old new _ => [par; old; new]
  end.

(** the dict objects an edit writes IN PLACE *)
Definition edit_inplace (h : heap) (e : edit) : list nat :=
  match e with
  | EAddAttr n _ _ | ERemoveAttr n _ => match nget h n with Some r => [attrs_loc r] | None => [] end
  | EAddExtras n _ _ => match nget h n with Some r => [extras_loc r] | None => [] end
  | _ => []
  end.

(** what the namespace operations need to run (implied by the forest invariant) *)
Definition edit_ready (h : heap) (e : edit) : Prop :=
  match e with
  | ENs (Declare n _ _) | ENs (Undeclare n _) => NsInv h /\ tree_at h (fuel_of h) n
  | ENs (Attach par c _) => NsInv h /\ tree_at h (fuel_of h) c /\ ~ desc h c par
  | _ => True
  end.

(** ** the registry operations touch nothing but the registry *)
Definition same_objs (h h' : heap) : Prop :=
  nodes h' = nodes h /\ dicts h' = dicts h /\ next_loc h' = next_loc h /\ next_id h' = next_id h.

Lemma same_objs_refl h : same_objs h h.
Proof. repeat split. Qed.

Lemma same_objs_trans h1 h2 h3 : same_objs h1 h2 -> same_objs h2 h3 -> same_objs h1 h3.
Proof. intros (A & B & C & D) (A' & B' & C' & D'). repeat split; congruence. Qed.

Lemma same_objs_nget h h' m : same_objs h h' -> nget h' m = nget h m.
Proof. intros (A & _). unfold nget. rewrite A. reflexivity. Qed.

Lemma same_objs_dget h h' l : same_objs h h' -> dget h' l = dget h l.
Proof. intros (_ & B & _). unfold dget. rewrite B. reflexivity. Qed.

Lemma del_store_objs h i h' : del_store h i = Ok h' -> same_objs h h'.
Proof.
  unfold del_store. destruct (assoc i (store h)); [|discriminate]. intros [= <-]. repeat split.
Qed.

Lemma delete_kids_objs (rec : heap -> pystr -> res heap) :
  (forall h i h', rec h i = Ok h' -> same_objs h h') ->
  forall ks h h', delete_kids rec ks h = Ok h' -> same_objs h h'.
Proof.
  intros Hrec ks; induction ks as [|c ks IH]; intros h h' H; simpl in H.
  - injection H as <-. apply same_objs_refl.
  - destruct (nget h c) as [rc|]; [|discriminate].
    destruct (rec h (idstr rc)) as [h1| |] eqn:E; simpl in H; try discriminate.
    eapply same_objs_trans; [eapply Hrec; eauto | eapply IH; eauto].
Qed.

Lemma delete_rec_objs : forall f h i h', delete_rec f h i = Ok h' -> same_objs h h'.
Proof.
  induction f as [|f IH]; intros h i h' H; simpl in H; [discriminate|].
  destruct (get_node_instance h i) as [n|]; [|discriminate].
  destruct (nget h n) as [r|]; [|discriminate].
  destruct (delete_kids (delete_rec f) (kids r) h) as [h1| |] eqn:E; simpl in H; try discriminate.
  eapply same_objs_trans; [eapply delete_kids_objs; eauto | eapply del_store_objs; eauto].
Qed.

Lemma delete_node_instance_objs f h i ch h' : delete_node_instance f h i ch = Ok h' -> same_objs h h'.
Proof.
  unfold delete_node_instance. destruct ch; [apply delete_rec_objs | apply del_store_objs].
Qed.

(** ** footprints *)
Definition footprint (h : heap) (e : edit) (h2 : heap) : Prop :=
  (forall m, (forall t, In t (edit_nodes e) -> ~ desc h t m) -> nget h2 m = nget h m) /\
  (forall l, l < next_loc h -> ~ In l (edit_inplace h e) -> dget h2 l = dget h l).

Lemma ne_of_notdesc h t m : ~ desc h t m -> m <> t.
Proof. intros N E; apply N; rewrite E; apply desc_refl. Qed.

(** setters and in-place dict edits *)
Lemma footprint_nset h n r0 r' e :
  nget h n = Some r0 -> In n (edit_nodes e) -> footprint h e (nset h n r').
Proof.
  intros Hn Hin. split.
  - intros m Hm. rewrite nget_nset. assert (N : m <> n) by (apply (ne_of_notdesc h), Hm, Hin).
    apply Nat.eqb_neq in N; rewrite N; reflexivity.
  - intros l _ _. apply dget_nset.
Qed.

Lemma footprint_dset h l0 d e :
  In l0 (edit_inplace h e) -> footprint h e (dset h l0 d).
Proof.
  intro Hin. split.
  - intros m _. apply nget_dset.
  - intros l _ Nl. rewrite dget_dset. destruct (Nat.eqb l l0) eqn:E; [|reflexivity].
    apply Nat.eqb_eq in E; subst l. contradiction.
Qed.

(** namespace walks, from their frame *)
Lemma footprint_of_frame wr h n h2 e :
  In n (edit_nodes e) -> ns_frame wf_dict wr (desc h n) h h2 -> footprint h e h2.
Proof.
  intros Hin F. split.
  - intros m Hm. destruct (fr_nodes _ _ _ _ _ F m) as [[_ E]|[Y _]]; [exact E|]. exfalso; exact (Hm n Hin Y).
  - intros l Hl _. apply (fr_dicts _ _ _ _ _ F), Hl.
Qed.

(** the merge loop of add_child, assuming it returned normally *)
Lemma merge_loop_frame f par c : forall ps h hf,
  merge_loop f par c ps h = Ok hf -> tree_at h f c -> NsInv h ->
  (forall m, ~ desc h c m -> nget hf m = nget h m) /\ (forall l, l < next_loc h -> dget hf l = dget h l).
Proof.
  induction ps as [|q ps IH]; intros h hf R Ht I; simpl in R.
  - injection R as <-. split; reflexivity.
  - destruct (nget h par) as [rp|]; [|discriminate]. destruct (nget h c) as [rc|]; [|discriminate].
    destruct (assoc q (dget h (ns_loc rc))); [apply IH; assumption|].
    destruct (assoc q (dget h (ns_loc rp))) as [u|]; [|discriminate].
    destruct (add_ns_ok f h c q u Ht I) as (h1 & R1 & F1). rewrite R1 in R. simpl in R.
    pose proof (ns_frame_shape _ _ _ _ _ F1) as Sh.
    assert (I1 : NsInv h1).
    { apply NsInv_heap_ok. eapply (heap_ok_frame wf_dict (dict_set q u)); [exact F1 | apply NsInv_heap_ok, I]. }
    destruct (IH h1 hf R (shape_eq_tree_at _ _ _ _ Sh Ht) I1) as [A B]. split.
    + intros m Nm. rewrite A by (intro H; apply Nm; eapply shape_eq_desc; [apply shape_eq_sym, Sh | exact H]).
      destruct (fr_nodes _ _ _ _ _ F1 m) as [[_ E]|[Y _]]; [exact E | contradiction].
    + intros l Hl. rewrite B by (pose proof (fr_next _ _ _ _ _ F1); lia). apply (fr_dicts _ _ _ _ _ F1), Hl.
Qed.

Lemma tree_at_kids h1 h2 k c :
  tree_at h1 k c -> (forall m, desc h1 c m -> alive h2 m /\ kids_of h2 m = kids_of h1 m) -> tree_at h2 k c.
Proof.
  induction 1 as [k n r Hn Hk IH]; intro F.
  destruct (F n (desc_refl _ _)) as [[r2 Hr2] K]. rewrite (kids_of_Some _ _ _ Hn), (kids_of_Some _ _ _ Hr2) in K.
  econstructor; [exact Hr2|]. rewrite K. intros c Hc. apply IH; [exact Hc|].
  intros m Hm. apply F. eapply desc_trans; [|exact Hm]. apply desc_kid. rewrite (kids_of_Some _ _ _ Hn). exact Hc.
Qed.

Lemma add_child_frame f h par c idx hf :
  add_child f h par c idx = Ok hf -> NsInv h -> tree_at h f c -> ~ desc h c par ->
  (forall m, m <> par -> ~ desc h c m -> nget hf m = nget h m) /\
  (forall l, l < next_loc h -> dget hf l = dget h l).
Proof.
  intros R I Ht Nd. unfold add_child in R.
  destruct (nget h par) as [rp|] eqn:Hpar; [|discriminate].
  destruct (tree_at_alive _ _ _ Ht) as [rc Hc].
  set (ks := match idx with None => kids rp ++ [c] | Some i => py_insert i c (kids rp) end) in R.
  rewrite (link_c_rec h par c rp rc ks Hc Nd) in R.
  fold (link h par c rp rc ks) in R. set (h2 := link h par c rp rc ks) in *.
  pose proof (c_ne_par h par c Nd) as Ncp.
  pose proof (desc_link_iff h par c rp rc ks Hc Nd) as DL.
  pose proof (kids_of_link h par c rp rc ks Hc Nd) as KL.
  pose proof (alive_link h par c rp rc ks Hpar Hc) as AL.
  pose proof (NsInv_link h par c rp rc ks Hpar Hc I) as I2.
  fold h2 in DL, KL, AL, I2.
  assert (G2 : forall m, m <> par -> m <> c -> nget h2 m = nget h m).
  { intros m N1 N2. unfold h2. rewrite nget_link. apply Nat.eqb_neq in N1, N2. rewrite N2, N1. reflexivity. }
  assert (Hp2 : nget h2 par = Some (set_kids rp ks)).
  { unfold h2. rewrite nget_link. apply Nat.eqb_neq in Ncp. rewrite Nat.eqb_sym in Ncp. rewrite Ncp, Nat.eqb_refl. reflexivity. }
  assert (Hc2 : nget h2 c = Some (set_parent rc (Some par))).
  { unfold h2. rewrite nget_link, Nat.eqb_refl. reflexivity. }
  rewrite Hp2, Hc2 in R.
  destruct (dict_eqb (dget h2 (ns_loc (set_kids rp ks))) (dget h2 (ns_loc (set_parent rc (Some par))))).
  - injection R as <-. split; [|intros; reflexivity].
    intros m N1 N2. rewrite nget_nset. assert (N3 : m <> c) by (apply (ne_of_notdesc h), N2).
    pose proof N3 as N3'. apply Nat.eqb_neq in N3'; rewrite N3'. apply G2; assumption.
  - assert (Ht2 : tree_at h2 f c).
    { eapply tree_at_kids; [exact Ht|]. intros m Hm. split; [apply AL; eapply tree_at_desc; eauto|].
      rewrite KL. destruct (Nat.eqb m par) eqn:E; [|reflexivity]. apply Nat.eqb_eq in E; subst m. contradiction. }
    destruct (merge_loop_frame _ _ _ _ _ _ R Ht2 I2) as [A B]. split.
    + intros m N1 N2. rewrite A by (intro H; apply N2, DL, H). apply G2; [exact N1 | apply (ne_of_notdesc h), N2].
    + intros l Hl. apply B. exact Hl.
Qed.

(** ** every edit has the footprint its names say *)
Theorem edit_footprint h e h2 :
  exec_edit h e = Ok h2 -> edit_ready h e -> footprint h e h2.
Proof.
  intros R Rd. destruct e as [n v|n v|n v|n k v|n k|n k v|o|par c|par old new d]; simpl in R.
  - unfold set_content_op, with_node in R. destruct (nget h n) as [r|] eqn:Hn; [|discriminate].
    injection R as <-. eapply footprint_nset; eauto. left; reflexivity.
  - unfold set_tail_op, with_node in R. destruct (nget h n) as [r|] eqn:Hn; [|discriminate].
    injection R as <-. eapply footprint_nset; eauto. left; reflexivity.
  - unfold set_prefix_op, with_node in R. destruct (nget h n) as [r|] eqn:Hn; [|discriminate].
    injection R as <-. eapply footprint_nset; eauto. left; reflexivity.
  - unfold add_attribute, with_node in R. destruct (nget h n) as [r|] eqn:Hn; [|discriminate].
    injection R as <-. apply footprint_dset. simpl. rewrite Hn. left; reflexivity.
  - unfold remove_attribute, with_node in R. destruct (nget h n) as [r|] eqn:Hn; [|discriminate].
    destruct (assoc k (dget h (attrs_loc r))); [|discriminate].
    injection R as <-. apply footprint_dset. simpl. rewrite Hn. left; reflexivity.
  - unfold add_extras, with_node in R. destruct (nget h n) as [r|] eqn:Hn; [|discriminate].
    injection R as <-. apply footprint_dset. simpl. rewrite Hn. left; reflexivity.
  - destruct o as [par c idx|n p u|n p]; simpl in R, Rd.
    + destruct Rd as (I & Ht & Nd). destruct (add_child_frame _ _ _ _ _ _ R I Ht Nd) as [A B]. split.
      * intros m Hm. apply A.
        -- apply (ne_of_notdesc h). apply Hm. left; reflexivity.
        -- apply Hm. right; left; reflexivity.
      * intros l Hl _. apply B, Hl.
    + destruct Rd as (I & Ht). destruct (add_ns_ok _ _ _ p u Ht I) as (h' & R' & F).
      rewrite R in R'; injection R' as <-. eapply footprint_of_frame; [|exact F]. left; reflexivity.
    + destruct Rd as (I & Ht). destruct (remove_ns_ok _ _ _ p Ht I) as (h' & R' & F).
      rewrite R in R'; injection R' as <-. eapply footprint_of_frame; [|exact F]. left; reflexivity.
  - unfold remove_child, with_node in R. destruct (nget h par) as [rp|] eqn:Hpar; [|discriminate].
    destruct (list_remove c (kids rp)) as [ks|]; [|discriminate].
    destruct (nget (nset h par (set_kids rp ks)) c) as [rc|] eqn:Hc; [|discriminate].
    assert (Fin : forall hx, (hx = nset (nset h par (set_kids rp ks)) c (set_parent rc None) \/ hx = nset h par (set_kids rp ks)) ->
                             footprint h (ERemoveChild par c) hx).
    { intros hx Hx. split.
      - intros m Hm. assert (N1 : m <> par) by (apply (ne_of_notdesc h), Hm; left; reflexivity).
        assert (N2 : m <> c) by (apply (ne_of_notdesc h), Hm; right; left; reflexivity).
        apply Nat.eqb_neq in N1, N2. destruct Hx as [->| ->]; rewrite ?nget_nset, ?N2, ?N1; reflexivity.
      - intros l _ _. destruct Hx as [->| ->]; reflexivity. }
    destruct (parent rc) as [p|].
    + destruct (Nat.eqb p par); injection R as <-; apply Fin; auto.
    + injection R as <-; apply Fin; auto.
  - unfold replace_child, with_node in R.
    destruct (nget h par) as [rp|] eqn:Hpar; [|discriminate].
    destruct (nget h old) as [ro|] eqn:Hold; [|discriminate].
    destruct (nget h new) as [rn|] eqn:Hnew; [|discriminate].
    destruct (negb (pystr_eqb (nm rn) (nm ro))); [discriminate|].
    destruct (list_index old (kids rp)) as [i|]; [|discriminate].
    set (h1 := nset h new (set_parent rn (Some par))) in R.
    destruct (nget h1 par) as [rp1|] eqn:Hp1; [|discriminate].
    set (h2' := nset h1 par (set_kids rp1 (list_set i new (kids rp1)))) in R.
    destruct (nget h2' old) as [ro2|] eqn:Ho2; [|discriminate].
    set (h3 := match parent ro2 with
               | Some p => if Nat.eqb p par && negb (Nat.eqb old new) then nset h2' old (set_parent ro2 None) else h2'
               | None => h2'
               end) in R.
    assert (F3 : (forall m, m <> par -> m <> old -> m <> new -> nget h3 m = nget h m) /\ (forall l, dget h3 l = dget h l)).
    { assert (G2 : forall m, m <> par -> m <> new -> nget h2' m = nget h m).
      { intros m N1 N2. unfold h2', h1. rewrite !nget_nset. apply Nat.eqb_neq in N1, N2. rewrite N1, N2. reflexivity. }
      split.
      - intros m N1 N2 N3. unfold h3. destruct (parent ro2) as [p|]; [|apply G2; assumption].
        destruct (Nat.eqb p par && negb (Nat.eqb old new)); [|apply G2; assumption].
        rewrite nget_nset. apply Nat.eqb_neq in N2; rewrite N2. apply G2; assumption.
      - intro l. unfold h3. destruct (parent ro2) as [p|]; [|reflexivity].
        destruct (Nat.eqb p par && negb (Nat.eqb old new)); reflexivity. }
    destruct F3 as [F3n F3d].
    assert (Fin : forall hx, same_objs h3 hx -> footprint h (EReplaceChild par old new d) hx).
    { intros hx So. split.
      - intros m Hm. rewrite (same_objs_nget _ _ _ So). apply F3n; apply (ne_of_notdesc h), Hm; simpl; auto.
      - intros l _ _. rewrite (same_objs_dget _ _ _ So). apply F3d. }
    destruct d.
    + destruct (nget h3 old) as [ro3|]; [|discriminate]. apply Fin. eapply delete_node_instance_objs; eauto.
    + injection R as <-. apply Fin, same_objs_refl.
Qed.

(** ** the frame theorem: a tree separated from the edit reifies to the same value *)
Theorem edit_frame h e h2 x :
  exec_edit h e = Ok h2 -> edit_ready h e ->
  (* node separation: no node of x's tree lies in the subtree of a node the edit names *)
  (forall t m, In t (edit_nodes e) -> desc h t m -> ~ desc h x m) ->
  (* dict separation: no node of x's tree holds a dict the edit writes in place *)
  (forall m rm l, desc h x m -> nget h m = Some rm -> In l (locs3 rm) -> ~ In l (edit_inplace h e)) ->
  (* x's tree lives in allocated memory *)
  (forall m, desc h x m -> exists rm, nget h m = Some rm /\ forall l, In l (locs3 rm) -> l < next_loc h) ->
  forall g, reify g h2 x = reify g h x.
Proof.
  intros R Rd SepN SepL Al g. destruct (edit_footprint h e h2 R Rd) as [FN FD].
  apply reify_ext. intros m Hm. destruct (Al m Hm) as (rm & Hrm & Lm). split.
  - rewrite FN; [reflexivity|]. intros t Ht Hd. exact (SepN t m Ht Hd Hm).
  - intros r0 Hr0. rewrite Hrm in Hr0; injection Hr0 as <-.
    repeat split; apply FD; try (apply Lm; simpl; auto); try (eapply SepL; eauto; simpl; auto).
Qed.

(* Proofs/C08_Chain.v — C08_stable: the import applied to the parse of the export of an
   imported tree gives the imported tree again, up to surrounding white space of content and
   tails.  Route: the parse result is [layout] (C07_general_layout); its lxml view is in the
   document class again ([infoset_ok]); its [mirror] is the tree (qualified attributes get
   their prefix back because no namespace name has two prefixes; texts by
   policy_stable_under_ws); C08_mirror turns the mirror into the model's result. *)
From MP Require Import Common.Base Common.Tree Common.XStr Spec.Xml Spec.XmlSim Spec.Infoset Spec.Mirror
  Model.XmlOut Model.XmlIn
  Proofs.C07_Escape Proofs.C07_Lex Proofs.C07_Parse Proofs.C07_Top Proofs.C07_Ns Proofs.C07_General
  Proofs.C08_Policy Proofs.C08_Attr Proofs.C08_Mirror Proofs.C08_Stable.
Local Open Scope N_scope.

(** * Prefix maps with and without optional keys *)
Definition somek (m : list (pystr * pystr)) : list (option pystr * pystr) :=
  map (fun kv => (Some (fst kv), snd kv)) m.

Lemma oassoc_somek p m : oassoc (Some p) (somek m) = assoc p m.
Proof.
  induction m as [|[k v] m IH]; [reflexivity|]. cbn [somek map fst snd oassoc assoc okey_eqb opt_eqb].
  destruct (pystr_eqb p k); [reflexivity | exact IH].
Qed.

Lemma oassoc_somek_none m : oassoc None (somek m) = None.
Proof. induction m as [|[k v] m IH]; [reflexivity|]. cbn. exact IH. Qed.

Lemma pkeys_somek m : pkeys (somek m) = keys m.
Proof. unfold pkeys, somek, keys. rewrite map_map. reflexivity. Qed.

Lemma In_somek k u m : In (k, u) (somek m) -> exists p, k = Some p /\ In (p, u) m.
Proof.
  unfold somek. intro H. apply in_map_iff in H as ([p v] & E & Hin). cbn [fst snd] in E.
  inversion E; subst. eauto.
Qed.

Lemma In_assoc_nodup {V} k (v : V) d : NoDup (keys d) -> In (k, v) d -> assoc k d = Some v.
Proof.
  unfold keys. induction d as [|[k' v'] d IH]; [intros _ []|]. cbn [map fst]. intros H Hin.
  inversion H as [|? ? Hk Hd]; subst. cbn [assoc]. destruct Hin as [E|Hin].
  - inversion E; subst. rewrite pystr_eqb_refl. reflexivity.
  - destruct (pystr_eqb_reflect k k') as [->|NE]; [|exact (IH Hd Hin)].
    exfalso. apply Hk. apply in_map_iff. exists (k', v). split; [reflexivity|exact Hin].
Qed.

Lemma keys_scope_ext decls scope p :
  In p (keys (scope_ext decls scope)) <-> In p (keys decls) \/ In p (keys scope).
Proof.
  unfold scope_ext, keys. rewrite map_app, in_app_iff. split.
  - intros [H|H]; [left; exact H|]. right. apply in_map_iff in H as (kv & <- & H).
    apply filter_In in H as [H _]. apply in_map_iff. exists kv. split; [reflexivity|exact H].
  - intros [H|H]; [left; exact H|].
    destruct (smem p (map fst decls)) eqn:E; [left; apply smem_In, E|right].
    apply in_map_iff in H as (kv & <- & H). apply in_map_iff. exists kv. split; [reflexivity|].
    apply filter_In. split; [exact H|]. unfold keys. rewrite E. reflexivity.
Qed.

Lemma NoDup_scope_ext decls scope :
  NoDup (keys decls) -> NoDup (keys scope) -> NoDup (keys (scope_ext decls scope)).
Proof.
  intros Hd Hs. unfold scope_ext. rewrite keys_app. apply NoDup_app'.
  - exact Hd.
  - apply NoDup_keys_filter, Hs.
  - intros p Hp Hq. unfold keys in Hq. apply in_map_iff in Hq as (kv & <- & Hq).
    apply filter_In in Hq as [_ Hq]. apply negb_true_iff, smem_false in Hq. exact (Hq Hp).
Qed.

Lemma agrees_In sc m k v : scope_agrees sc m -> NoDup (keys sc) -> In (k, v) sc -> In (k, v) m.
Proof. intros Ha Hn Hin. apply assoc_Some_In. rewrite <- Ha. apply In_assoc_nodup; assumption. Qed.

Lemma agrees_In_rev sc m k v : scope_agrees sc m -> NoDup (keys m) -> In (k, v) m -> In (k, v) sc.
Proof. intros Ha Hn Hin. apply assoc_Some_In. rewrite Ha. apply In_assoc_nodup; assumption. Qed.

Lemma agrees_keys sc m p : scope_agrees sc m -> In p (keys sc) <-> In p (keys m).
Proof.
  intro Ha. split; intro H.
  - destruct (assoc p m) eqn:E; [exact (assoc_In_keys _ _ _ E)|]. rewrite <- Ha in E.
    apply assoc_None_keys in E. contradiction.
  - destruct (assoc p sc) eqn:E; [exact (assoc_In_keys _ _ _ E)|]. rewrite Ha in E.
    apply assoc_None_keys in E. contradiction.
Qed.

Lemma agrees_length sc m : scope_agrees sc m -> NoDup (keys sc) -> NoDup (keys m) -> length sc = length m.
Proof.
  intros Ha H1 H2. rewrite <- (map_length fst sc), <- (map_length fst m). apply Nat.le_antisymm.
  - apply NoDup_incl_length; [exact H1|]. intros p Hp. apply (agrees_keys sc m p Ha), Hp.
  - apply NoDup_incl_length; [exact H2|]. intros p Hp. apply (agrees_keys sc m p Ha), Hp.
Qed.

Lemma omap_equiv_somek sc m :
  scope_agrees sc m -> NoDup (keys sc) -> NoDup (keys m) -> omap_equiv (somek sc) (somek m).
Proof.
  intros Ha H1 H2. split.
  - unfold somek. rewrite !map_length. apply agrees_length; assumption.
  - intros [p|]; [rewrite !oassoc_somek; apply Ha | rewrite !oassoc_somek_none; reflexivity].
Qed.

(** * Clark names *)
Lemma clark_split_clark u l : forallb not_rbrace u = true -> clark_split (clark u l) = Some (u, l).
Proof.
  intro H. unfold clark_split, clark. cbn [app]. change (123 =? 123) with true. cbv iota.
  rewrite (span_app not_rbrace u 125 l H eq_refl). reflexivity.
Qed.

Lemma uri_okb_inv u : uri_okb u = true ->
  forallb not_rbrace u = true /\ uri_chars_ok u = true /\ u <> xml_ns /\ u <> [].
Proof.
  unfold uri_okb. intro H. apply andb_true_iff in H as [H H4]. apply andb_true_iff in H as [H H3].
  apply andb_true_iff in H as [H1 H2]. repeat split.
  - eapply forallb_imp; [|exact H2]. intros c Hc. apply andb_true_iff in Hc as [Hc _].
    apply andb_true_iff in Hc as [_ Hc]. exact Hc.
  - unfold uri_chars_ok. eapply forallb_imp; [|exact H2]. intros c Hc. apply andb_true_iff in Hc as [Hc Hd].
    apply andb_true_iff in Hc as [_ Hc]. rewrite Hc, Hd. reflexivity.
  - apply negb_true_iff, pystr_eqb_neq in H3. exact H3.
  - destruct u; [discriminate|discriminate].
Qed.

Lemma xml_ns_chars : forallb not_rbrace xml_ns = true /\ uri_chars_ok xml_ns = true.
Proof. split; reflexivity. Qed.

(** * The class of imported trees, node by node *)
Record imp_ok (d : nd) : Prop := {
  ip_lex : lex_ok d;
  ip_ns : ns_node_ok d;
  ip_prefix : match n_prefix d with Some p => In p (keys (n_nsmap d)) | None => True end;
  ip_uris : forall k u, In (k, u) (n_nsmap d) -> uri_okb u = true;
  ip_alias : forall kv p l u p', In kv (n_extras d) -> split_colon (fst kv) = (Some p, l) ->
             uri_of (n_nsmap d) p = Some u -> In (p', u) (n_nsmap d) -> p' = p
}.

Definition Sc (sc : list (pystr * pystr)) (d : nd) : Prop :=
  scope_agrees sc (n_nsmap d) /\ NoDup (keys sc).

Lemma bound_ok_inv d : bound_ok d = true ->
  (match n_prefix d with None => True | Some p => bound (n_nsmap d) p = true end)
  /\ (forall kv, In kv (n_extras d) -> match split_colon (fst kv) with
                                       | (Some p, _) => bound (n_nsmap d) p = true
                                       | (None, _) => False
                                       end)
  /\ (forall kv, In kv (n_nsmap d) -> decl_legal kv = true).
Proof.
  unfold bound_ok. intro H. apply andb_true_iff in H as [H H3]. apply andb_true_iff in H as [H1 H2].
  rewrite forallb_forall in H2, H3. repeat split.
  - destruct (n_prefix d); [exact H1 | exact I].
  - intros kv Hin. specialize (H2 kv Hin). destruct (split_colon (fst kv)) as [[p|] l]; [exact H2|discriminate].
  - exact H3.
Qed.

Lemma decl_legal_inv k u : decl_legal (k, u) = true -> k <> xml_str /\ k <> xmlns_str /\ u <> xml_ns.
Proof.
  unfold decl_legal. cbn [fst snd]. intro H.
  apply andb_true_iff in H as [H _]. apply andb_true_iff in H as [H H4]. apply andb_true_iff in H as [H _].
  apply andb_true_iff in H as [H1 H2].
  repeat split; apply pystr_eqb_neq, negb_true_iff; assumption.
Qed.

Lemma nsmap_okb_sc d sc : imp_ok d -> Sc sc d -> nsmap_okb (somek sc) = true.
Proof.
  intros I [Ha Hn]. unfold nsmap_okb. apply andb_true_iff. split.
  - apply forallb_forall. intros [k u] Hin. apply In_somek in Hin as (p & -> & Hin). cbn [fst snd].
    pose proof (agrees_In sc _ p u Ha Hn Hin) as Hm.
    destruct (bound_ok_inv d (nn_bound d (ip_ns d I))) as (_ & _ & Hleg).
    destruct (decl_legal_inv p u (Hleg _ Hm)) as (N1 & N2 & _).
    pose proof (lx_nsmap d (ip_lex d I)) as Hnc. rewrite Forall_forall in Hnc. specialize (Hnc _ Hm). cbn [fst] in Hnc.
    rewrite Hnc, (ip_uris d I p u Hm).
    apply pystr_eqb_neq in N1, N2. rewrite N1, N2. reflexivity.
  - rewrite pkeys_somek. apply nodup_keys_NoDup, Hn.
Qed.

(** * The attributes of the parsed element, in lxml's view *)
Definition cattr (sc : list (pystr * pystr)) (a : pystr * pystr) : pystr * pystr :=
  (clark_of sc (fst a), snd a).

Lemma nondecl_all parent d : lex_ok d ->
  filter (fun a => negb (is_decl a)) (all_attrs parent d) = n_attrs d ++ n_extras d.
Proof.
  intro L. unfold all_attrs. rewrite !filter_app.
  rewrite (filter_all _ (n_attrs d)), (filter_none _ (map decl_attr _)), (filter_all _ (n_extras d)).
  - reflexivity.
  - intros a Ha. destruct (attr_qual d L a Ha) as (p & l & _ & _ & E). unfold is_decl. rewrite E. reflexivity.
  - intros a Ha. apply in_map_iff in Ha as (kv & <- & _). unfold is_decl. rewrite decl_of_decl. reflexivity.
  - intros a Ha. destruct (attr_plain d L a Ha) as (_ & E & _). unfold is_decl. rewrite E. reflexivity.
Qed.

Lemma cattr_plain sc d : lex_ok d -> map (cattr sc) (n_attrs d) = n_attrs d.
Proof.
  intro L. rewrite <- (map_id (n_attrs d)) at 2. apply map_ext_in. intros [k v] Hin.
  destruct (attr_plain d L (k, v) Hin) as (E & _). cbn [fst] in E. unfold cattr, clark_of. cbn [fst snd].
  rewrite E. reflexivity.
Qed.

Lemma is_clark_ncname k : is_ncname k = true -> is_clark k = false.
Proof.
  destruct k as [|c r]; [reflexivity|]. cbn [is_ncname is_clark]. intro H. apply andb_true_iff in H as [H _].
  apply name_start_bounds in H. apply N.eqb_neq. lia.
Qed.

Lemma attr_key_ncname d a : lex_ok d -> In a (n_attrs d) -> is_ncname (fst a) = true.
Proof.
  intros L Hin. pose proof (lx_attrs d L) as H. rewrite Forall_forall in H. specialize (H a Hin).
  unfold attr_name_ok in H. apply andb_true_iff in H as [H _]. apply xml_name_ncname, H.
Qed.

(** the namespace name of a bound prefix, in the element's scope *)
Lemma extras_uri d sc kv : imp_ok d -> Sc sc d -> In kv (n_extras d) ->
  exists p l u, split_colon (fst kv) = (Some p, l) /\ is_ncname l = true /\ uri_of sc p = Some u
                /\ uri_of (n_nsmap d) p = Some u
                /\ forallb not_rbrace u = true /\ uri_chars_ok u = true
                /\ (p = xml_str /\ u = xml_ns \/ p <> xml_str /\ u <> xml_ns /\ In (p, u) (n_nsmap d)).
Proof.
  intros I [Ha Hn] Hin. pose proof (ip_lex d I) as L.
  pose proof (lx_extras d L) as HE. rewrite Forall_forall in HE.
  destruct (HE kv Hin) as (p & l & Es & _ & Hl & _).
  destruct (bound_ok_inv d (nn_bound d (ip_ns d I))) as (_ & Hb & Hleg).
  specialize (Hb kv Hin). rewrite Es in Hb. destruct (bound_uri _ p Hb) as [u Hu].
  exists p, l, u. rewrite (uri_of_agrees sc _ p Ha). repeat split; try assumption.
  - unfold uri_of in Hu. destruct (pystr_eqb p xml_str); [inversion Hu; reflexivity|].
    apply assoc_Some_In in Hu. exact (proj1 (uri_okb_inv u (ip_uris d I _ _ Hu))).
  - unfold uri_of in Hu. destruct (pystr_eqb p xml_str); [inversion Hu; reflexivity|].
    apply assoc_Some_In in Hu. exact (proj1 (proj2 (uri_okb_inv u (ip_uris d I _ _ Hu)))).
  - unfold uri_of in Hu. destruct (pystr_eqb_reflect p xml_str) as [->|NE].
    + left. inversion Hu. split; reflexivity.
    + right. apply assoc_Some_In in Hu. split; [exact NE|]. split; [|exact Hu].
      exact (proj1 (proj2 (proj2 (uri_okb_inv u (ip_uris d I _ _ Hu))))).
Qed.

Lemma cattr_qual sc kv p l u : split_colon (fst kv) = (Some p, l) -> uri_of sc p = Some u ->
  cattr sc kv = (clark u l, snd kv).
Proof. intros Es Hu. unfold cattr, clark_of. rewrite Es, Hu. reflexivity. Qed.

(** the prefixed name comes back: no namespace name has two prefixes *)
Lemma qname_back d sc kv p l u : imp_ok d -> Sc sc d -> In kv (n_extras d) ->
  split_colon (fst kv) = (Some p, l) -> uri_of sc p = Some u ->
  qualified_name (somek sc) (clark u l) = fst kv.
Proof.
  intros I S Hin Es Hu. destruct (extras_uri d sc kv I S Hin) as (p' & l' & u' & Es' & Hl & Hu' & Hun & Hb & Hc & Hcase).
  rewrite Es in Es'. inversion Es'; subst p' l'. rewrite Hu in Hu'. inversion Hu'; subst u'.
  destruct S as [Ha Hn].
  unfold qualified_name. rewrite (clark_split_clark u l Hb). unfold prefix_for.
  rewrite (split_colon_inv _ _ _ Es).
  destruct Hcase as [[-> ->]|(NE & NU & Hm)].
  - rewrite pystr_eqb_refl. reflexivity.
  - apply pystr_eqb_neq in NU. rewrite NU.
    destruct (find (fun kv0 => pystr_eqb u (snd kv0)) (rev (somek sc))) as [[k' v']|] eqn:Ef.
    + apply find_some in Ef as [Hin' Hv]. cbn [snd] in Hv. apply pystr_eqb_eq in Hv. subst v'.
      apply in_rev in Hin'. apply In_somek in Hin' as (q & -> & Hq).
      pose proof (agrees_In sc _ q u Ha Hn Hq) as Hqm.
      rewrite (ip_alias d I kv p l u q Hin Es Hun Hqm). reflexivity.
    + exfalso. pose proof (List.find_none _ _ Ef (Some p, u)) as Hnone. cbn [snd] in Hnone.
      rewrite pystr_eqb_refl in Hnone.
      assert (In (Some p, u) (rev (somek sc))).
      { apply in_rev. rewrite rev_involutive. unfold somek. apply in_map_iff.
        exists (p, u). split; [reflexivity|]. apply (agrees_In_rev sc _ p u Ha); [|exact Hm].
        apply nodup_of_dicts, (nn_dicts d (ip_ns d I)). }
      specialize (Hnone H). discriminate.
Qed.

(** * Tags *)
Lemma clark_split_ncname n : is_ncname n = true -> clark_split n = None.
Proof.
  destruct n as [|c r]; [reflexivity|]. cbn [is_ncname clark_split]. intro H. apply andb_true_iff in H as [H _].
  apply name_start_bounds in H. rewrite (eqb_false_of c 123) by lia. reflexivity.
Qed.

Lemma tag_facts d sc : imp_ok d -> Sc sc d ->
  tag_okb (somek sc) (n_prefix d) (clark_of sc (tag_of d)) = true
  /\ local_name (clark_of sc (tag_of d)) = n_name d.
Proof.
  intros I [Ha Hn]. pose proof (ip_lex d I) as L. pose proof (lx_name d L) as Hname.
  pose proof (ip_prefix d I) as Hp. pose proof (lx_prefix d L) as Hpn.
  unfold tag_of, clark_of. destruct (n_prefix d) as [p|].
  - change (p ++ [58] ++ n_name d) with (p ++ 58 :: n_name d). rewrite (split_colon_pfx p _ Hpn).
    destruct (assoc p (n_nsmap d)) as [u|] eqn:Eu; [|apply assoc_None_keys in Eu; contradiction].
    pose proof (assoc_Some_In _ _ _ Eu) as Hin.
    destruct (bound_ok_inv d (nn_bound d (ip_ns d I))) as (_ & _ & Hleg).
    destruct (decl_legal_inv p u (Hleg _ Hin)) as (N1 & _).
    assert (Hu : uri_of sc p = Some u).
    { unfold uri_of. apply pystr_eqb_neq in N1. rewrite N1, Ha. exact Eu. }
    rewrite Hu. destruct (uri_okb_inv u (ip_uris d I _ _ Hin)) as (Hb & _).
    split.
    + unfold tag_okb. rewrite oassoc_somek, Ha, Eu, (clark_split_clark u _ Hb), pystr_eqb_refl, Hname. reflexivity.
    + unfold local_name. rewrite (clark_split_clark u _ Hb). reflexivity.
  - rewrite (split_colon_plain _ Hname). split; [exact Hname|].
    unfold local_name. rewrite (clark_split_ncname _ Hname). reflexivity.
Qed.

(** * Attributes *)
Lemma attrib_view parent d sc : imp_ok d -> Sc sc d ->
  let attrib := map (cattr sc) (filter (fun a => negb (is_decl a)) (all_attrs parent d)) in
  forallb (fun nv => attr_name_okb (somek sc) (fst nv)) attrib = true
  /\ plain_of attrib = n_attrs d
  /\ qual_of (somek sc) attrib = n_extras d
  /\ NoDup (keys attrib).
Proof.
  intros I S attrib. pose proof (ip_lex d I) as L. subst attrib.
  rewrite (nondecl_all parent d L), map_app, (cattr_plain sc d L).
  assert (HQ : forall kv, In kv (n_extras d) -> exists p l u,
               split_colon (fst kv) = (Some p, l) /\ is_ncname l = true /\ uri_of sc p = Some u
               /\ forallb not_rbrace u = true /\ uri_chars_ok u = true
               /\ cattr sc kv = (clark u l, snd kv)
               /\ (u = xml_ns \/ exists k, In (k, u) (somek sc))).
  { intros kv Hin. destruct (extras_uri d sc kv I S Hin) as (p & l & u & Es & Hl & Hu & _ & Hb & Hc & Hcase).
    exists p, l, u. repeat split; try assumption; [exact (cattr_qual sc kv p l u Es Hu)|].
    destruct Hcase as [[_ ->]|(_ & _ & Hm)]; [left; reflexivity|right].
    exists (Some p). unfold somek. apply in_map_iff. exists (p, u). split; [reflexivity|].
    destruct S as [Ha Hn]. apply (agrees_In_rev sc _ p u Ha); [|exact Hm].
    apply nodup_of_dicts, (nn_dicts d (ip_ns d I)). }
  repeat split.
  - rewrite forallb_app. apply andb_true_iff. split; apply forallb_forall.
    + intros a Ha. pose proof (attr_key_ncname d a L Ha) as Hn. unfold attr_name_okb.
      rewrite (is_clark_ncname _ Hn). exact Hn.
    + intros a Ha. apply in_map_iff in Ha as (kv & <- & Hin).
      destruct (HQ kv Hin) as (p & l & u & _ & Hl & _ & Hb & Hc & -> & Hbound). cbn [fst].
      unfold attr_name_okb. change (is_clark (clark u l)) with true. cbv iota.
      rewrite (clark_split_clark u l Hb), Hl. unfold uri_chars_ok in Hc. rewrite Hc.
      destruct Hbound as [->|[k Hk]]; [reflexivity|].
      assert (Hex : existsb (fun kv0 => pystr_eqb u (snd kv0)) (somek sc) = true).
      { apply existsb_exists. exists (k, u). split; [exact Hk | apply pystr_eqb_refl]. }
      rewrite Hex, orb_true_r. reflexivity.
  - unfold plain_of. rewrite filter_app, filter_all, filter_none; [apply app_nil_r| |].
    + intros a Ha. apply in_map_iff in Ha as (kv & <- & Hin).
      destruct (HQ kv Hin) as (p & l & u & _ & _ & _ & _ & _ & -> & _). reflexivity.
    + intros a Ha. rewrite (is_clark_ncname _ (attr_key_ncname d a L Ha)). reflexivity.
  - unfold qual_of. rewrite filter_app, filter_none, filter_all.
    + cbn [app]. rewrite map_map. rewrite <- (map_id (n_extras d)) at 2. apply map_ext_in. intros kv Hin.
      destruct (HQ kv Hin) as (p & l & u & Es & _ & Hu & _ & _ & Ec & _). rewrite Ec. cbn [fst snd].
      rewrite (qname_back d sc kv p l u I S Hin Es Hu). destruct kv; reflexivity.
    + intros a Ha. apply in_map_iff in Ha as (kv & <- & Hin).
      destruct (HQ kv Hin) as (p & l & u & _ & _ & _ & _ & _ & -> & _). reflexivity.
    + intros a Ha. rewrite (is_clark_ncname _ (attr_key_ncname d a L Ha)). reflexivity.
  - (* distinct names: plain keys are distinct, Clark names are distinct because expanded names are,
       and a Clark name is never plain *)
    rewrite keys_app. apply NoDup_app'.
    + exact (lx_nd_attrs d L).
    + pose proof (nn_dicts d (ip_ns d I)) as Hd. unfold dicts_ok in Hd. apply andb_true_iff in Hd as [_ Hexp].
      apply nodup_keys_NoDup in Hexp. unfold keys in *. rewrite map_map in *.
      revert Hexp HQ. generalize (n_extras d). intro ex. induction ex as [|kv ex IHex]; intros Hexp HQ; [constructor|].
      cbn [map] in *. inversion Hexp as [|? ? Hx Hr]; subst. constructor.
      * intro Hin. apply Hx. apply in_map_iff in Hin as (kv2 & E2 & Hin2).
        destruct (HQ kv (or_introl eq_refl)) as (p & l & u & Es & _ & Hu & Hb & _ & Ec & _).
        destruct (HQ kv2 (or_intror Hin2)) as (p2 & l2 & u2 & Es2 & _ & Hu2 & Hb2 & _ & Ec2 & _).
        rewrite Ec, Ec2 in E2. cbn [fst] in E2.
        assert (u2 = u /\ l2 = l).
        { pose proof (clark_split_clark u l Hb) as C1. rewrite <- E2, (clark_split_clark u2 l2 Hb2) in C1.
          inversion C1. split; reflexivity. }
        destruct H as [-> ->]. apply in_map_iff. exists kv2. split; [|exact Hin2].
        destruct S as [Ha _]. unfold expand_key. rewrite Es, Es2.
        rewrite <- (uri_of_agrees sc _ p Ha), <- (uri_of_agrees sc _ p2 Ha), Hu, Hu2. reflexivity.
      * apply IHex; [exact Hr|]. intros kv' Hin'. apply HQ. right. exact Hin'.
    + intros k Hk Hq. unfold keys in Hk, Hq. apply in_map_iff in Hk as (a & <- & Ha).
      rewrite map_map in Hq. apply in_map_iff in Hq as (kv & E & Hin).
      destruct (HQ kv Hin) as (p & l & u & _ & _ & _ & _ & _ & Ec & _). rewrite Ec in E. cbn [fst] in E.
      pose proof (is_clark_ncname _ (attr_key_ncname d a L Ha)) as Hc. rewrite <- E in Hc. discriminate.
Qed.

(** * The relation between a re-imported tree and the exported tree *)
Fixpoint srel (a : itree) (t : ftree) {struct a} : Prop :=
  let 'IT da ka := a in
  let 'FT d ks := t in
  i_name da = n_name d /\ i_prefix da = n_prefix d /\ i_attrs da = n_attrs d /\ i_extras da = n_extras d
  /\ omap_equiv (i_nsmap da) (somek (n_nsmap d))
  /\ ws_same (i_content da) (n_content d) /\ ws_same (i_tail da) (n_tail d)
  /\ (fix go (xs : list itree) (ts : list ftree) {struct xs} : Prop :=
        match xs, ts with
        | [], [] => True
        | x :: xs', t1 :: ts' => srel x t1 /\ go xs' ts'
        | _, _ => False
        end) ka ks.

Fixpoint srel_kids (xs : list itree) (ts : list ftree) : Prop :=
  match xs, ts with
  | [], [] => True
  | x :: xs', t1 :: ts' => srel x t1 /\ srel_kids xs' ts'
  | _, _ => False
  end.

Lemma srel_eq da ka d ks :
  srel (IT da ka) (FT d ks) =
  (i_name da = n_name d /\ i_prefix da = n_prefix d /\ i_attrs da = n_attrs d /\ i_extras da = n_extras d
   /\ omap_equiv (i_nsmap da) (somek (n_nsmap d))
   /\ ws_same (i_content da) (n_content d) /\ ws_same (i_tail da) (n_tail d) /\ srel_kids ka ks).
Proof. reflexivity. Qed.

(** imported trees: every node in the class, content and tail outputs of the policy, children
    keep their parent's prefixes *)
Inductive tree_imp (clean collapse : bool) (literals : list pystr) : ftree -> Prop :=
| TI d kids :
    imp_ok d ->
    policy clean collapse (smem (n_name d) literals) (n_content d) = n_content d ->
    policy clean collapse false (n_tail d) = n_tail d ->
    Forall (fun k => closed_in (n_nsmap d) (n_nsmap (ft_d k)) /\ tree_imp clean collapse literals k) kids ->
    tree_imp clean collapse literals (FT d kids).

Lemma lxml_of_layout scope parent level d kids tl :
  lxml_of scope (layout parent level (FT d kids) tl) =
  let sc := scope_ext (own_decls (all_attrs parent d)) scope in
  XEl LElem (clark_of sc (tag_of d)) (fst (split_colon (tag_of d))) (somek sc)
      (opt_text (layout_text level d kids)) (opt_text tl)
      (map (cattr sc) (filter (fun a => negb (is_decl a)) (all_attrs parent d)))
      (map (lxml_of sc) (layout_kids level d kids)).
Proof. rewrite layout_eq. reflexivity. Qed.

Definition chain_good (clean collapse : bool) (literals : list pystr) (t : ftree) : Prop :=
  forall parent level scope tl,
    (match parent with
     | None => scope = []
     | Some pm => scope_agrees scope pm /\ NoDup (keys scope) /\ closed_in pm (n_nsmap (ft_d t))
     end) ->
    strip tl = strip (otext' (n_tail (ft_d t))) ->
    let e2 := lxml_of scope (layout parent level t tl) in
    infoset_ok e2 /\ l_kind e2 = LElem
    /\ (forall p, In p (keys scope) -> In p (pkeys (l_nsmap e2)))
    /\ srel (mirror clean collapse literals e2) t.

Lemma chain_good_all clean collapse literals t :
  tree_imp clean collapse literals t -> chain_good clean collapse literals t.
Proof.
  induction t as [d kids IH] using ftree_ind2. intro HT.
  inversion HT as [? ? I Hfc Hft HK]; subst.
  intros parent level scope tl Hpar Htl. cbn [ft_d] in *.
  rewrite lxml_of_layout. cbv zeta.
  pose proof (ip_lex d I) as L.
  rewrite (own_decls_all parent d L), (local_prefix_tag d L). cbn [fst].
  set (sc := scope_ext (emitted_decls parent d) scope).
  assert (S : Sc sc d).
  { split.
    - subst sc. destruct parent as [pm|].
      + destruct Hpar as (Hs & _ & Hc). apply scope_child; [exact Hs | exact Hc | apply nodup_of_dicts, (nn_dicts d (ip_ns d I))].
      + subst scope. apply scope_root.
    - subst sc. apply NoDup_scope_ext.
      + apply emitted_nodup, nodup_of_dicts, (nn_dicts d (ip_ns d I)).
      + destruct parent as [pm|]; [exact (proj1 (proj2 Hpar)) | subst scope; constructor]. }
  destruct (tag_facts d sc I S) as [Htag Hloc].
  destruct (attrib_view parent d sc I S) as (A1 & A2 & A3 & A4).
  (* children *)
  assert (HKids : forallb (fun k1 => match l_kind k1 with
                                     | LElem => forallb (fun p => smem p (pkeys (l_nsmap k1))) (pkeys (somek sc))
                                                && infoset_okb k1
                                     | LComment => true
                                     | LPI => false
                                     end) (map (lxml_of sc) (layout_kids level d kids)) = true
                  /\ srel_kids (mirror_kids clean collapse literals (map (lxml_of sc) (layout_kids level d kids))) kids).
  { clear Htag Hloc A1 A2 A3 A4 HT Hfc Hft. induction kids as [|k r IHr]; [split; [reflexivity|exact Logic.I]|].
    inversion IH as [|? ? IHk IHr']; subst. inversion HK as [|? ? [Hck HTk] HKr]; subst.
    destruct (IHr IHr' HKr) as [R1 R2].
    destruct S as [Ha Hn].
    destruct (IHk HTk (Some (n_nsmap d)) (S level) sc (kid_tail level d k (is_nil r)))
      as (K1 & K2 & K3 & K4).
    { repeat split; assumption. }
    { exact (ws_kid_tail level d k (is_nil r)). }
    cbn [layout_kids map forallb mirror_kids]. rewrite K2. split.
    - rewrite R1, andb_true_r. apply andb_true_iff. split; [|exact K1].
      rewrite pkeys_somek. apply forallb_forall. intros p Hp. apply smem_In, K3, Hp.
    - cbn [srel_kids]. split; [exact K4 | exact R2]. }
  destruct HKids as [KI KS].
  split; [|split; [|split]].
  - (* in the document class *)
    unfold infoset_ok. cbn [infoset_okb]. rewrite (nsmap_okb_sc d sc I S), Htag, A1, KI.
    apply nodup_keys_NoDup in A4. rewrite A4. reflexivity.
  - reflexivity.
  - (* the parent's prefixes stay in scope *)
    intros p Hp. cbn [l_nsmap]. rewrite pkeys_somek. subst sc. apply keys_scope_ext. right. exact Hp.
  - (* the mirror is the tree *)
    rewrite mirror_eq, srel_eq. cbn [i_name i_content i_tail i_prefix i_attrs i_extras i_nsmap].
    rewrite Hloc, A2, A3.
    destruct S as [Ha Hn]. do 4 (split; [reflexivity|]). split; [|split; [|split]].
    + apply omap_equiv_somek; [exact Ha | exact Hn | apply nodup_of_dicts, (nn_dicts d (ip_ns d I))].
    + apply policy_ws_stable; [exact Hfc | exact (ws_layout_text level d kids)].
    + apply policy_ws_stable; [exact Hft | exact Htl].
    + exact KS.
Qed.

(** * From the mirror to the model's result *)
Lemma omap_equiv_trans a b c : omap_equiv a b -> omap_equiv b c -> omap_equiv a c.
Proof. intros [L1 Q1] [L2 Q2]. split; [congruence|]. intro p. rewrite Q1. apply Q2. Qed.

Lemma itree_ind2 (P : itree -> Prop) :
  (forall d kids, Forall P kids -> P (IT d kids)) -> forall t, P t.
Proof.
  intro H. fix IH 1. intros [d kids]. apply H.
  induction kids as [|k r IHr]; constructor; [apply IH | exact IHr].
Qed.

Lemma equiv_srel a b ft : itree_equiv a b -> srel b ft -> srel a ft.
Proof.
  revert b ft. induction a as [da ka IH] using itree_ind2.
  intros [db kb] [d ks]. rewrite itree_equiv_eq, !srel_eq.
  intros (E1 & E2 & E3 & E4 & E5 & E6 & E7 & E8) (S1 & S2 & S3 & S4 & S5 & S6 & S7 & S8).
  repeat (split; [congruence|]). split; [exact (omap_equiv_trans _ _ _ E7 S5)|].
  split; [rewrite E2; exact S6|]. split; [rewrite E3; exact S7|].
  clear - IH E8 S8. revert kb ks E8 S8. induction ka as [|x ka IHk]; intros kb ks E8 S8.
  - destruct kb; [|destruct E8]. destruct ks; [exact Logic.I | destruct S8].
  - destruct kb as [|y kb]; [destruct E8|]. destruct ks as [|t1 ks]; [destruct S8|].
    destruct E8 as [Ex Er]. destruct S8 as [Sx Sr]. inversion IH as [|? ? IHx IHr]; subst.
    split; [exact (IHx y t1 Ex Sx) | exact (IHk IHr kb ks Er Sr)].
Qed.

Theorem reimport_tree clean collapse literals ft :
  tree_imp clean collapse literals ft -> n_tail (ft_d ft) = None ->
  exists t2, process_element clean collapse literals (lxml_of [] (layout None 0%nat ft [])) = Ok t2
             /\ srel t2 ft.
Proof.
  intros HT Ht.
  destruct (chain_good_all clean collapse literals ft HT None 0%nat [] []) as (Hok & _ & _ & Hs).
  - reflexivity.
  - rewrite Ht. reflexivity.
  - destruct (C08_mirror_proof clean collapse literals _ Hok) as (t2 & E & Q & _).
    exists t2. split; [exact E | exact (equiv_srel _ _ _ Q Hs)].
Qed.

(** * Imported trees are in the class *)
Fixpoint to_ftree_kids (ks : list itree) : option (list ftree) :=
  match ks with
  | [] => Some []
  | k :: r => match to_ftree k, to_ftree_kids r with
              | Some a, Some b => Some (a :: b)
              | _, _ => None
              end
  end.

Lemma to_ftree_eq d kids :
  to_ftree (IT d kids) =
  match nsmap_str (i_nsmap d), to_ftree_kids kids with
  | Some m, Some ks =>
      Some (FT {| n_id := []; n_name := i_name d; n_content := i_content d; n_tail := i_tail d;
                  n_prefix := i_prefix d; n_attrs := i_attrs d; n_extras := i_extras d; n_nsmap := m |} ks)
  | _, _ => None
  end.
Proof.
  cbn [to_ftree].
  assert (E : forall ks, (fix go (ks : list itree) : option (list ftree) :=
           match ks with
           | [] => Some []
           | k :: r => match to_ftree k, go r with
                       | Some a, Some b => Some (a :: b)
                       | _, _ => None
                       end
           end) ks = to_ftree_kids ks).
  { induction ks as [|k r IHr]; [reflexivity|]. cbn [to_ftree_kids]. rewrite <- IHr. reflexivity. }
  rewrite E. reflexivity.
Qed.

Lemma nsmap_str_somek m m' : nsmap_str m = Some m' -> m = somek m'.
Proof.
  revert m'. induction m as [|[[p|] u] m IH]; intros m'; cbn [nsmap_str].
  - intros [= <-]. reflexivity.
  - destruct (nsmap_str m) as [r|]; [|discriminate]. cbn [option_map]. intros [= <-].
    cbn [somek map fst snd]. rewrite (IH r eq_refl). reflexivity.
  - discriminate.
Qed.

Lemma filter_le1 {A} (f : A -> bool) l a b :
  (length (filter f l) <= 1)%nat -> In a l -> In b l -> f a = true -> f b = true -> a = b.
Proof.
  induction l as [|x l IH]; [intros _ []|]. cbn [filter]. intros Hl Ha Hb Fa Fb.
  destruct (f x) eqn:Fx.
  - cbn [length] in Hl. assert (Hn : filter f l = []) by (destruct (filter f l); [reflexivity | cbn in Hl; lia]).
    assert (Hno : forall y, In y l -> f y = true -> False).
    { intros y Hy Fy. assert (In y (filter f l)) by (apply filter_In; split; assumption). rewrite Hn in H. destruct H. }
    destruct Ha as [->|Ha]; destruct Hb as [->|Hb]; try reflexivity; exfalso; eauto.
  - destruct Ha as [->|Ha]; [congruence|]. destruct Hb as [->|Hb]; [congruence|]. exact (IH Hl Ha Hb Fa Fb).
Qed.

Lemma In_oassoc_nodup k v (m : list (option pystr * pystr)) :
  NoDup (map fst m) -> In (k, v) m -> oassoc k m = Some v.
Proof.
  induction m as [|[k' v'] m IH]; [intros _ []|]. cbn [map fst]. intros H Hin.
  inversion H as [|? ? Hk Hd]; subst. cbn [oassoc]. destruct Hin as [E|Hin].
  - inversion E; subst. rewrite okey_eqb_refl. reflexivity.
  - destruct (okey_eqb k k') eqn:Ek; [|exact (IH Hd Hin)].
    apply okey_eqb_eq in Ek. subst. exfalso. apply Hk. apply in_map_iff. exists (k', v). split; [reflexivity|exact Hin].
Qed.

Lemma good_nodup_fst m : nsmap_good m -> NoDup (map fst m).
Proof.
  intro G. apply NoDup_fst_of_pkeys; [exact (ng_nodup m G)|].
  intros k u Hin. destruct (ng_keys m G k u Hin) as (p & -> & _). eauto.
Qed.

(** entries of the imported map are entries of the element's map *)
Lemma equiv_In m m' p u : nsmap_good m -> omap_equiv (somek m') m -> NoDup (keys m') ->
  In (p, u) m' <-> In (Some p, u) m.
Proof.
  intros G [_ Q] Hn. split; intro H.
  - apply oassoc_Some_In. rewrite <- Q, oassoc_somek. apply In_assoc_nodup; assumption.
  - apply assoc_Some_In. rewrite <- oassoc_somek, Q. apply In_oassoc_nodup; [apply good_nodup_fst, G | exact H].
Qed.

Lemma tree_ns_inv d kids : tree_ns (FT d kids) ->
  ns_node_ok d /\ Forall (fun k => closed_in (n_nsmap d) (n_nsmap (ft_d k)) /\ tree_ns k) kids.
Proof. intro H. inversion H; subst. split; assumption. Qed.

Section Derive.
  Variables (clean collapse : bool) (literals : list pystr).

  Definition derives (e : xel) : Prop :=
    infoset_ok e -> uri_prefix_unique e = true ->
    forall t ft, itree_equiv t (mirror clean collapse literals e) -> to_ftree t = Some ft ->
                 tree_lex ft -> tree_ns ft -> tree_imp clean collapse literals ft.

  Lemma derive_node tag pfx m attrib dt m' :
    nsmap_okb m = true -> tag_okb m pfx tag = true ->
    (forall nv, In nv attrib -> attr_name_okb m (fst nv) = true) ->
    alias_free_node m attrib = true ->
    i_prefix dt = pfx -> i_extras dt = qual_of m attrib -> omap_equiv (somek m') m ->
    let d' := {| n_id := []; n_name := i_name dt; n_content := i_content dt; n_tail := i_tail dt;
                 n_prefix := i_prefix dt; n_attrs := i_attrs dt; n_extras := i_extras dt; n_nsmap := m' |} in
    lex_ok d' -> ns_node_ok d' -> imp_ok d'.
  Proof.
    intros Hm Htag Hattr Hal Ep Ee Eq d' L N.
    pose proof (nsmap_good_of m Hm) as G.
    assert (Hn' : NoDup (keys m')) by (exact (nodup_of_dicts d' (nn_dicts d' N))).
    constructor; [exact L | exact N | | |]; cbn [n_prefix n_nsmap n_extras d'].
    - rewrite Ep. destruct pfx as [p|]; [|exact Logic.I]. unfold tag_okb in Htag.
      destruct (oassoc (Some p) m) as [u|] eqn:Eu; [|discriminate].
      destruct Eq as [_ Q]. rewrite <- Q, oassoc_somek in Eu. exact (assoc_In_keys _ _ _ Eu).
    - intros k u Hin. apply (equiv_In m m' k u G Eq Hn') in Hin. exact (ng_uris m G _ _ Hin).
    - intros kv p l u p' Hin Es Hu Hp'. rewrite Ee in Hin. unfold qual_of in Hin.
      apply in_map_iff in Hin as (nv & <- & Hnv). apply filter_In in Hnv as [Hnv Hc]. cbn [fst] in Es.
      destruct (attr_shape m (fst nv) (Hattr nv Hnv)) as [[Ec _]|[_ Hshape]]; [congruence|].
      destruct (qualified_name_shape m (fst nv) G Hshape) as (u0 & l0 & P & Ecs & Hl0 & HP & HnP & Eqn).
      rewrite Eqn, (split_colon_pfx P l0 HnP) in Es. inversion Es; subst p l.
      destruct (prefix_for_bound m u0 P G HP) as [[-> ->]|[NU HinP]].
      + (* the xml prefix: nothing else can be bound to the XML namespace *)
        change (uri_of m' xml_str) with (Some xml_ns) in Hu. inversion Hu; subst u.
        apply (equiv_In m m' p' xml_ns G Eq Hn') in Hp'.
        exfalso. exact (uri_okb_not_xml _ (ng_uris m G _ _ Hp') eq_refl).
      + destruct (ng_keys m G _ _ HinP) as (q & [= <-] & _ & NX & _).
        assert (u = u0).
        { unfold uri_of in Hu. apply pystr_eqb_neq in NX. rewrite NX in Hu.
          apply assoc_Some_In in Hu. apply (equiv_In m m' P u G Eq Hn') in Hu.
          exact (pkeys_functional m P u u0 (ng_nodup m G) Hu HinP). }
        subst u. apply (equiv_In m m' p' u0 G Eq Hn') in Hp'.
        unfold alias_free_node in Hal. rewrite forallb_forall in Hal. specialize (Hal nv Hnv).
        rewrite Ecs in Hal. apply Nat.leb_le in Hal.
        assert (E : (Some p', u0) = (Some P, u0)).
        { apply (filter_le1 (fun kv => pystr_eqb u0 (snd kv)) m); try assumption; cbn [snd]; apply pystr_eqb_refl. }
        inversion E. reflexivity.
  Qed.

  Lemma derive_all e : derives e.
  Proof.
    induction e as [k tag pfx m text tail attrib kids IH] using xel_ind2.
    intros Hok Hu [dt kt] ft Heq Hf HL HN.
    pose proof (infoset_elem _ Hok) as Hk. cbn in Hk. subst k.
    destruct (infoset_inv _ _ _ _ _ _ _ Hok) as (Hm & Htag & Hattr & Hnd & Hkids).
    cbn [uri_prefix_unique] in Hu. apply andb_true_iff in Hu as [Hal Huk].
    rewrite mirror_eq, itree_equiv_eq in Heq.
    cbn [i_name i_content i_tail i_prefix i_attrs i_extras i_nsmap] in Heq.
    destruct Heq as (E1 & E2 & E3 & E4 & E5 & E6 & E7 & E8).
    rewrite to_ftree_eq in Hf.
    destruct (nsmap_str (i_nsmap dt)) as [m'|] eqn:En; [|discriminate].
    destruct (to_ftree_kids kt) as [kf|] eqn:Ek; [|discriminate].
    inversion Hf; subst ft. clear Hf.
    apply nsmap_str_somek in En. rewrite En in E7.
    destruct (tree_lex_inv _ _ HL) as [L HLk]. destruct (tree_ns_inv _ _ HN) as [N HNk].
    constructor.
    - exact (derive_node tag pfx m attrib dt m' Hm Htag Hattr Hal E4 E6 E7 L N).
    - cbn [n_name n_content]. rewrite E1, E2. apply policy_idem.
    - cbn [n_tail]. rewrite E3. apply policy_idem.
    - (* children *)
      cbn [n_nsmap] in *.
      clear - IH Hkids Huk E8 Ek HLk HNk. revert kt kf E8 Ek HLk HNk.
      induction kids as [|k1 r IHr]; intros kt kf E8 Ek HLk HNk.
      + cbn [mirror_kids] in E8. destruct kt; [|destruct E8]. cbn in Ek. inversion Ek. constructor.
      + inversion IH as [|? ? IH1 IHr']; subst. inversion Hkids as [|? ? Hk1 Hkr]; subst.
        cbn [forallb] in Huk. apply andb_true_iff in Huk as [Hu1 Hur].
        cbn [mirror_kids] in E8. destruct (l_kind k1) eqn:Ekind.
        * destruct kt as [|t1 kt]; [destruct E8|]. destruct E8 as [Ex Er].
          cbn [to_ftree_kids] in Ek. destruct (to_ftree t1) as [f1|] eqn:Ef1; [|discriminate].
          destruct (to_ftree_kids kt) as [kf'|] eqn:Ekf; [|discriminate]. inversion Ek; subst kf.
          inversion HLk as [|? ? HL1 HLr]; subst. inversion HNk as [|? ? [Hc1 HN1] HNr]; subst.
          constructor.
          -- split; [exact Hc1|]. destruct Hk1 as [_ Hok1]. exact (IH1 Hok1 Hu1 t1 f1 Ex Ef1 HL1 HN1).
          -- exact (IHr IHr' Hur Hkr kt kf' Er Ekf HLr HNr).
        * exact (IHr IHr' Hur Hkr kt kf E8 Ek HLk HNk).
        * destruct Hk1.
  Qed.
End Derive.

(** * The boolean relation of the statement *)
Fixpoint stable_kidsb (x y : list itree) : bool :=
  match x, y with
  | [], [] => true
  | p :: x', q :: y' => stable_relb p q && stable_kidsb x' y'
  | _, _ => false
  end.

Lemma stable_relb_eq da ka db kb :
  stable_relb (IT da ka) (IT db kb) =
  (pystr_eqb (i_name da) (i_name db) && opt_eqb pystr_eqb (i_prefix da) (i_prefix db)
   && dict_eqb' (i_attrs da) (i_attrs db) && dict_eqb' (i_extras da) (i_extras db)
   && omap_equivb (i_nsmap da) (i_nsmap db)
   && ws_sameb (i_content da) (i_content db) && ws_sameb (i_tail da) (i_tail db)
   && stable_kidsb ka kb).
Proof.
  cbn [stable_relb].
  assert (E : forall x y, (fix go (x y : list itree) {struct x} : bool :=
        match x, y with
        | [], [] => true
        | p :: x', q :: y' => stable_relb p q && go x' y'
        | _, _ => false
        end) x y = stable_kidsb x y).
  { induction x as [|p x IHx]; intros [|q y]; try reflexivity. }
  rewrite E. reflexivity.
Qed.

Lemma opt_eqb_refl (o : option pystr) : opt_eqb pystr_eqb o o = true.
Proof. destruct o; [apply pystr_eqb_refl | reflexivity]. Qed.

Lemma dict_eqb'_refl l : dict_eqb' l l = true.
Proof.
  unfold dict_eqb'. induction l as [|[k v] l IH]; [reflexivity|]. cbn [list_eqb fst snd].
  rewrite !pystr_eqb_refl, IH. reflexivity.
Qed.

Lemma omap_equivb_of a b : omap_equiv a b -> omap_equivb a b = true.
Proof.
  intros [L Q]. unfold omap_equivb. rewrite L, Nat.eqb_refl. cbn [andb].
  apply forallb_forall. intros kv _. rewrite Q. apply opt_eqb_refl.
Qed.

Lemma srel_stable t2 : forall t ft, srel t2 ft -> to_ftree t = Some ft -> stable_relb t2 t = true.
Proof.
  induction t2 as [d2 k2 IH] using itree_ind2. intros [dt kt] ft Hs Hf.
  rewrite to_ftree_eq in Hf.
  destruct (nsmap_str (i_nsmap dt)) as [m'|] eqn:En; [|discriminate].
  destruct (to_ftree_kids kt) as [kf|] eqn:Ek; [|discriminate].
  inversion Hf; subst ft. clear Hf. apply nsmap_str_somek in En.
  rewrite srel_eq in Hs. cbn [n_name n_prefix n_attrs n_extras n_nsmap n_content n_tail] in Hs.
  destruct Hs as (S1 & S2 & S3 & S4 & S5 & S6 & S7 & S8).
  rewrite stable_relb_eq, S1, S2, S3, S4, En.
  rewrite pystr_eqb_refl, opt_eqb_refl, !dict_eqb'_refl, (omap_equivb_of _ _ S5).
  unfold ws_sameb. unfold ws_same in S6, S7. rewrite S6, S7, !pystr_eqb_refl. cbn [andb].
  clear - IH S8 Ek. revert kt kf S8 Ek. induction k2 as [|x k2 IHk]; intros kt kf S8 Ek.
  - destruct kf; [|destruct S8]. destruct kt as [|t1 kt]; [reflexivity|].
    cbn [to_ftree_kids] in Ek. destruct (to_ftree t1); [|discriminate]. destruct (to_ftree_kids kt); discriminate.
  - destruct kf as [|f1 kf]; [destruct S8|]. destruct S8 as [Sx Sr].
    destruct kt as [|t1 kt]; [discriminate|]. cbn [to_ftree_kids] in Ek.
    destruct (to_ftree t1) as [f1'|] eqn:E1; [|discriminate].
    destruct (to_ftree_kids kt) as [kf'|] eqn:E2; [|discriminate]. inversion Ek; subst f1' kf'.
    inversion IH as [|? ? IHx IHr]; subst. cbn [stable_kidsb].
    rewrite (IHx t1 f1 Sx E1), (IHk IHr kt kf Sr E2). reflexivity.
Qed.

(** * C08_stable *)
Theorem C08_stable_proof : C08_stable_statement.
Proof.
  intros clean collapse literals e t ft Hok Hu Hp Hf Hex.
  destruct (C08_mirror_proof clean collapse literals e Hok) as (t' & Et & Q & _).
  rewrite Hp in Et. inversion Et; subst t'. clear Et.
  destruct Hex as (H1 & H2 & H3 & H4 & H5 & H6).
  pose proof (tree_lex_of ft H1 H4) as HL. pose proof (tree_ns_of ft H2 H4 H5) as HN.
  pose proof (derive_all clean collapse literals e Hok Hu t ft Q Hf HL HN) as HT.
  destruct (reimport_tree clean collapse literals ft HT H6) as (t2 & E2 & Hs).
  exists t2. split; [|exact (srel_stable t2 t ft Hs Hf)].
  unfold reimport. rewrite Hf, (C07_general_exact ft H1 H2 H3 H4 H5 H6). exact E2.
Qed.

(** Why "up to surrounding white space" even in clean mode: kept blank text (or the text of a
    literal element) in front of children absorbs the exporter's indentation. *)
Definition doc_blank : xel :=
  el (s "a") None [] (Some (s " ")) None [] [el (s "b") None [] None None [] []].

Example clean_mode_not_exact :
  infoset_ok doc_blank
  /\ match process_element true false [] doc_blank with
     | Ok t => match reimport true false [] t with
               | Ok t2 => i_content (it_d t) = Some (s " ") /\ i_content (it_d t2) = Some (s "   ")
                          /\ stable_relb t2 t = true
               | Crash _ => False
               end
     | Crash _ => False
     end.
Proof. split; [vm_compute; reflexivity|]. vm_compute. repeat split; reflexivity. Qed.

(* Proofs/C20_PyString.v — lemmas about the Python string primitives of Model/PyString.v. *)
From MP Require Import Common.Base.
From MP Require Import Model.PyString.

Definition nonsp (c : N) : bool := negb (is_py_space c).

(** * split_by *)
Lemma split_by_nonnil p x : split_by p x <> [].
Proof.
  destruct x as [|c r]; simpl; [discriminate|].
  destruct (p c); [discriminate|]. destruct (split_by p r); discriminate.
Qed.

Lemma split_by_cons_false p c r : p c = false ->
  exists w ws, split_by p r = w :: ws /\ split_by p (c :: r) = (c :: w) :: ws.
Proof.
  intro H. simpl. rewrite H. destruct (split_by p r) as [|w ws] eqn:E.
  - exfalso; eapply split_by_nonnil; eauto.
  - eauto.
Qed.

(** "x y".split(" ") = "x".split(" ") + "y".split(" ") *)
Lemma split_by_app_sep p a c b : p c = true ->
  split_by p (a ++ c :: b) = split_by p a ++ split_by p b.
Proof.
  intro Hc. induction a as [|d a IH]; simpl.
  - rewrite Hc. reflexivity.
  - destruct (p d); [rewrite IH; reflexivity|].
    rewrite IH. destruct (split_by p a) as [|w ws] eqn:E.
    + exfalso; eapply split_by_nonnil; eauto.
    + reflexivity.
Qed.

(** a string without separators is one piece *)
Lemma split_by_none p x : Forall (fun c => p c = false) x -> split_by p x = [x].
Proof.
  induction 1 as [|c r Hc _ IH]; simpl; [reflexivity|]. rewrite Hc, IH. reflexivity.
Qed.

(** the pieces contain no separator, and only characters of the input *)
Lemma split_by_pieces p x : Forall (Forall (fun c => p c = false)) (split_by p x).
Proof.
  induction x as [|c r IH]; simpl.
  - repeat constructor.
  - destruct (p c) eqn:Hc.
    + constructor; [constructor | exact IH].
    + destruct (split_by p r) as [|w ws]; [repeat constructor; exact Hc|].
      inversion IH; subst. constructor; [constructor; assumption | assumption].
Qed.

Lemma split_by_incl p x w c : In w (split_by p x) -> In c w -> In c x.
Proof.
  revert w. induction x as [|d r IH]; simpl; intros w Hw Hc.
  - destruct Hw as [<-|[]]. destruct Hc.
  - destruct (p d).
    + destruct Hw as [<-|Hw]; [destruct Hc | right; eapply IH; eauto].
    + destruct (split_by p r) as [|u us].
      * destruct Hw as [<-|[]]. destruct Hc as [->|[]]. left; reflexivity.
      * destruct Hw as [<-|Hw].
        -- destruct Hc as [->|Hc]; [left; reflexivity | right; apply (IH u); [left; reflexivity | exact Hc]].
        -- right; apply (IH w); [right; exact Hw | exact Hc].
Qed.

(** * join *)
Lemma py_join_cons2 c w w' r : py_join [c] (w :: w' :: r) = w ++ c :: py_join [c] (w' :: r).
Proof. reflexivity. Qed.

(** sep.join(s.split(sep)) == s *)
Lemma join_split_on c x : py_join [c] (py_split_on c x) = x.
Proof.
  unfold py_split_on. induction x as [|d r IH]; simpl; [reflexivity|].
  destruct (N.eqb_spec c d) as [->|NE].
  - destruct (split_by (N.eqb d) r) as [|w ws] eqn:E.
    + exfalso; eapply split_by_nonnil; eauto.
    + simpl in *. rewrite IH. reflexivity.
  - destruct (split_by (N.eqb c) r) as [|w ws] eqn:E.
    + exfalso; eapply split_by_nonnil; eauto.
    + destruct ws as [|w' ws]; simpl in *; rewrite <- IH; reflexivity.
Qed.

(** (sep.join(l)).split(sep) == l for a non-empty list of separator-free pieces *)
Lemma split_on_join c l : l <> [] -> Forall (Forall (fun d => N.eqb c d = false)) l ->
  py_split_on c (py_join [c] l) = l.
Proof.
  unfold py_split_on. intros NE H. induction H as [|w r Hw Hr IH]; [congruence|].
  destruct r as [|w' r].
  - simpl. apply split_by_none; exact Hw.
  - rewrite py_join_cons2. rewrite split_by_app_sep by apply N.eqb_refl.
    rewrite split_by_none by exact Hw. simpl. f_equal. apply IH. discriminate.
Qed.

(** * whitespace words *)
Lemma words_nil : py_split_ws [] = [].
Proof. reflexivity. Qed.

Lemma words_app_sep a c b : is_py_space c = true ->
  py_split_ws (a ++ c :: b) = py_split_ws a ++ py_split_ws b.
Proof. intro H. unfold py_split_ws. rewrite split_by_app_sep by exact H. apply filter_app. Qed.

Lemma words_cons_space c r : is_py_space c = true -> py_split_ws (c :: r) = py_split_ws r.
Proof. intro H. apply (words_app_sep [] c r H). Qed.

Lemma words_all_space x : Forall (fun c => is_py_space c = true) x -> py_split_ws x = [].
Proof.
  induction 1 as [|c r Hc _ IH]; [reflexivity|]. rewrite words_cons_space by exact Hc. exact IH.
Qed.

Lemma words_app_spaces a x : Forall (fun c => is_py_space c = true) x ->
  py_split_ws (a ++ x) = py_split_ws a.
Proof.
  intros H. destruct H as [|c r Hc Hr].
  - rewrite app_nil_r; reflexivity.
  - rewrite words_app_sep by exact Hc. rewrite (words_all_space r Hr). apply app_nil_r.
Qed.

Lemma words_join c l : is_py_space c = true ->
  py_split_ws (py_join [c] l) = flat_map py_split_ws l.
Proof.
  intro Hc. induction l as [|w r IH]; [reflexivity|].
  destruct r as [|w' r].
  - simpl. rewrite app_nil_r. reflexivity.
  - rewrite py_join_cons2. rewrite words_app_sep by exact Hc. rewrite IH. reflexivity.
Qed.

(** a word of [s.split()] is non-empty and free of whitespace *)
Lemma words_spec x : Forall (fun w => w <> [] /\ Forall (fun c => is_py_space c = false) w) (py_split_ws x).
Proof.
  unfold py_split_ws. pose proof (split_by_pieces is_py_space x) as H.
  induction H as [|w r Hw _ IH]; simpl; [constructor|].
  destruct w as [|c w]; simpl; [exact IH|]. constructor; [split; [discriminate | exact Hw] | exact IH].
Qed.

(** * strip *)
Lemma lstrip_decomp x : exists pre, x = pre ++ py_lstrip x /\ Forall (fun c => is_py_space c = true) pre.
Proof.
  induction x as [|c r (pre & E & F)]; simpl.
  - exists []; split; [reflexivity | constructor].
  - destruct (is_py_space c) eqn:Hc.
    + exists (c :: pre); split; [simpl; congruence | constructor; assumption].
    + exists []; split; [reflexivity | constructor].
Qed.

Lemma rstrip_decomp x : exists suf, x = py_rstrip x ++ suf /\ Forall (fun c => is_py_space c = true) suf.
Proof.
  induction x as [|c r (suf & E & F)]; simpl.
  - exists []; split; [reflexivity | constructor].
  - destruct (py_rstrip r) as [|d r'] eqn:R.
    + destruct (is_py_space c) eqn:Hc.
      * exists (c :: suf); split; [simpl in *; congruence | constructor; assumption].
      * exists suf; split; [simpl in *; congruence | assumption].
    + exists suf; split; [simpl in *; congruence | assumption].
Qed.

Lemma lstrip_head x c r : py_lstrip x = c :: r -> is_py_space c = false.
Proof.
  induction x as [|d x IH]; simpl; [discriminate|].
  destruct (is_py_space d) eqn:Hd; [exact IH|]. intros [= <- _]; exact Hd.
Qed.

Lemma lstrip_id c r : is_py_space c = false -> py_lstrip (c :: r) = c :: r.
Proof. intro H; simpl; rewrite H; reflexivity. Qed.

Lemma rstrip_last x r c : py_rstrip x = r ++ [c] -> is_py_space c = false.
Proof.
  revert r. induction x as [|d x IH]; simpl; intros r E.
  - destruct r; discriminate.
  - destruct (py_rstrip x) as [|e x'] eqn:R.
    + destruct (is_py_space d) eqn:Hd.
      * destruct r; discriminate.
      * destruct r as [|? [|? ?]]; try discriminate. injection E as <-; exact Hd.
    + destruct r as [|d' r]; [discriminate|]. injection E as _ E. eapply IH; exact E.
Qed.

Lemma rstrip_head x c r : py_rstrip x = c :: r -> exists r', x = c :: r'.
Proof.
  destruct x as [|d x]; simpl; [discriminate|].
  destruct (py_rstrip x); [destruct (is_py_space d); [discriminate|]|]; intros [= <- _]; eauto.
Qed.

Lemma rstrip_id r c : is_py_space c = false -> py_rstrip (r ++ [c]) = r ++ [c].
Proof.
  intro H. induction r as [|d r IH]; simpl.
  - rewrite H; reflexivity.
  - rewrite IH. destruct (r ++ [c]) eqn:E; [destruct r; discriminate | reflexivity].
Qed.

Lemma strip_incl x c : In c (py_strip x) -> In c x.
Proof.
  unfold py_strip. intro H.
  destruct (lstrip_decomp x) as (pre & E & _). destruct (rstrip_decomp (py_lstrip x)) as (suf & E' & _).
  rewrite E, E'. apply in_or_app; right. apply in_or_app; left; exact H.
Qed.

Lemma words_strip x : py_split_ws (py_strip x) = py_split_ws x.
Proof.
  unfold py_strip.
  destruct (lstrip_decomp x) as (pre & E & Fp). destruct (rstrip_decomp (py_lstrip x)) as (suf & E' & Fs).
  rewrite E at 2. rewrite E' at 2.
  assert (P : forall pre y, Forall (fun c => is_py_space c = true) pre -> py_split_ws (pre ++ y) = py_split_ws y).
  { intros p y F; induction F as [|c r Hc _ IH]; [reflexivity|]. simpl. rewrite words_cons_space by exact Hc. exact IH. }
  rewrite P by exact Fp. rewrite words_app_spaces by exact Fs. reflexivity.
Qed.

(** * filtering out whitespace *)
Lemma nonsp_spaces x : Forall (fun c => is_py_space c = true) x -> filter nonsp x = [].
Proof. induction 1 as [|c r Hc _ IH]; simpl; [reflexivity|]. unfold nonsp at 1. rewrite Hc. exact IH. Qed.

Lemma nonsp_cons_space c x : is_py_space c = true -> filter nonsp (c :: x) = filter nonsp x.
Proof. intro H. simpl. unfold nonsp at 1. rewrite H. reflexivity. Qed.

Lemma nonsp_strip x : filter nonsp (py_strip x) = filter nonsp x.
Proof.
  unfold py_strip.
  destruct (lstrip_decomp x) as (pre & E & Fp). destruct (rstrip_decomp (py_lstrip x)) as (suf & E' & Fs).
  rewrite E at 2. rewrite E' at 2. rewrite !filter_app, (nonsp_spaces _ Fp), (nonsp_spaces _ Fs), app_nil_r.
  reflexivity.
Qed.

Lemma nonsp_join c l : is_py_space c = true ->
  filter nonsp (py_join [c] l) = flat_map (filter nonsp) l.
Proof.
  intro Hc. induction l as [|w r IH]; [reflexivity|].
  destruct r as [|w' r].
  - simpl. rewrite app_nil_r. reflexivity.
  - rewrite py_join_cons2, filter_app, nonsp_cons_space by exact Hc. rewrite IH. reflexivity.
Qed.

Lemma nonsp_replace a b x : is_py_space a = true -> is_py_space b = true ->
  filter nonsp (replace_char a b x) = filter nonsp x.
Proof.
  intros Ha Hb. unfold replace_char. induction x as [|c r IH]; [reflexivity|].
  rewrite map_cons. destruct (N.eqb_spec c a) as [->|NE].
  - rewrite !nonsp_cons_space by assumption. exact IH.
  - simpl. rewrite IH. reflexivity.
Qed.

Lemma replace_char_not_in a b x : a <> b -> ~ In a (replace_char a b x).
Proof.
  intros NE H. unfold replace_char in H. apply in_map_iff in H as (c & E & _).
  destruct (N.eqb_spec c a); congruence.
Qed.

Lemma replace_char_id a b x : ~ In a x -> replace_char a b x = x.
Proof.
  unfold replace_char. induction x as [|c r IH]; simpl; intro H; [reflexivity|].
  destruct (N.eqb_spec c a) as [->|NE]; [exfalso; apply H; left; reflexivity|].
  rewrite IH; [reflexivity | intro; apply H; right; assumption].
Qed.

(** * the whitespace set, explicitly *)
Lemma is_py_space_set c : is_py_space c = true <->
  (9 <= c <= 13 \/ 28 <= c <= 32 \/ c = 133 \/ c = 160 \/ c = 5760 \/ 8192 <= c <= 8202 \/
   c = 8232 \/ c = 8233 \/ c = 8239 \/ c = 8287 \/ c = 12288)%N.
Proof.
  unfold is_py_space, py_space_ranges, in_range. cbn [existsb fst snd].
  rewrite orb_false_r. rewrite !orb_true_iff, !andb_true_iff, !N.leb_le. lia.
Qed.

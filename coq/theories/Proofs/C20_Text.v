(* Proofs/C20_Text.v — the text branch of normalize(): idempotence, shape, words kept. *)
From MP Require Import Common.Base.
From MP Require Import Model.PyString.
From MP Require Import Model.Normalize.
From MP Require Import Proofs.C20_PyString.

Lemma sp_is_space : is_py_space SP = true.
Proof. reflexivity. Qed.
Lemma nbsp_is_space : is_py_space NBSP = true.
Proof. reflexivity. Qed.

(** what every piece of the result looks like *)
Definition good (w : pystr) : Prop :=
  (exists c r, w = c :: r /\ is_py_space c = false) /\
  (exists r c, w = r ++ [c] /\ is_py_space c = false) /\
  ~ In SP w /\ ~ In NBSP w.

Lemma strip_first x c r : py_strip x = c :: r -> is_py_space c = false.
Proof.
  unfold py_strip. intro E. apply rstrip_head in E as (r' & E). eapply lstrip_head; exact E.
Qed.

Lemma strip_last x r c : py_strip x = r ++ [c] -> is_py_space c = false.
Proof. unfold py_strip. apply rstrip_last. Qed.

Lemma good_nonempty w : good w -> w <> [].
Proof. intros ((c & r & -> & _) & _). discriminate. Qed.

Lemma strip_good w : good w -> py_strip w = w.
Proof.
  intros ((c & r & E & Hc) & (r' & c' & E' & Hc') & _). unfold py_strip.
  rewrite E at 1. rewrite lstrip_id by exact Hc. rewrite <- E. rewrite E'. apply rstrip_id; exact Hc'.
Qed.

Lemma norm_words_good x : Forall good (norm_words x).
Proof.
  unfold norm_words. apply Forall_forall. intros w Hw.
  apply in_map_iff in Hw as (u & <- & Hu). apply filter_In in Hu as (Hu & NE).
  destruct (py_strip u) as [|c r] eqn:E; [discriminate|]. rewrite <- E.
  repeat split.
  - exists c, r. split; [exact E | eapply strip_first; exact E].
  - destruct (exists_last (l := py_strip u)) as (r' & c' & E'); [rewrite E; discriminate|].
    exists r', c'. split; [exact E' | eapply strip_last; exact E'].
  - intro H. apply strip_incl in H.
    pose proof (split_by_pieces (N.eqb SP) (replace_char NBSP SP x)) as P.
    rewrite Forall_forall in P. specialize (P u Hu). rewrite Forall_forall in P. specialize (P SP H).
    rewrite N.eqb_refl in P. discriminate.
  - intro H. apply strip_incl in H. eapply split_by_incl in H; [|exact Hu].
    revert H. apply replace_char_not_in. discriminate.
Qed.

Lemma in_join c sep ws : In c (py_join [sep] ws) -> c = sep \/ exists w, In w ws /\ In c w.
Proof.
  induction ws as [|w r IH]; [intros []|].
  destruct r as [|w' r].
  - simpl. intro H. right. exists w. split; [left; reflexivity | exact H].
  - rewrite py_join_cons2. intro H. apply in_app_or in H as [H|[H|H]].
    + right. exists w. split; [left; reflexivity | exact H].
    + left; symmetry; exact H.
    + destruct (IH H) as [->|(u & Hu & Hc)]; [left; reflexivity|].
      right. exists u. split; [right; exact Hu | exact Hc].
Qed.

Lemma norm_words_join ws : Forall good ws -> norm_words (py_join [SP] ws) = ws.
Proof.
  intro G. unfold norm_words.
  rewrite replace_char_id.
  2:{ intro H. apply in_join in H as [H|(w & Hw & Hc)]; [discriminate|].
      rewrite Forall_forall in G. destruct (G w Hw) as (_ & _ & _ & N). exact (N Hc). }
  destruct ws as [|w0 ws0]; [reflexivity|].
  rewrite split_on_join.
  - induction G as [|w r Gw Gr IH]; [reflexivity|].
    simpl. rewrite (strip_good w Gw).
    destruct w as [|c w]; [exfalso; exact (good_nonempty _ Gw eq_refl)|].
    simpl. rewrite (strip_good _ Gw). f_equal. exact IH.
  - discriminate.
  - eapply Forall_impl; [|exact G]. intros w (_ & _ & NS & _).
    apply Forall_forall. intros d Hd. destruct (N.eqb_spec SP d) as [<-|]; [contradiction | reflexivity].
Qed.

Lemma C20_idem_l x : norm (norm x) = norm x.
Proof. unfold norm at 1 3. f_equal. apply norm_words_join, norm_words_good. Qed.

(** shape *)
Fixpoint nodbl (x : pystr) : Prop :=
  match x with
  | [] => True
  | c :: r => match r with d :: _ => ~ (c = SP /\ d = SP) | [] => True end /\ nodbl r
  end.

Lemma nodbl_nosp w : ~ In SP w -> nodbl w.
Proof.
  induction w as [|c r IH]; simpl; [trivial|]. intro H. split.
  - destruct r; [trivial|]. intros [-> _]. apply H; left; reflexivity.
  - apply IH. intro; apply H; right; assumption.
Qed.

Lemma nodbl_app_sp w t : ~ In SP w -> w <> [] -> nodbl t -> (forall d t', t = d :: t' -> d <> SP) ->
  nodbl (w ++ SP :: t).
Proof.
  intros NS NE Ht Hd. induction w as [|c w IH]; [congruence|].
  destruct w as [|c' w].
  - simpl. split; [intros [-> _]; apply NS; left; reflexivity|]. split; [|exact Ht].
    destruct t as [|d t']; [trivial|]. intros [_ ->]. exact (Hd SP t' eq_refl eq_refl).
  - change (nodbl (c :: (c' :: w) ++ SP :: t)). simpl. split.
    + intros [-> _]. apply NS; left; reflexivity.
    + apply IH; [intro; apply NS; right; assumption | discriminate].
Qed.

Lemma nodbl_no_pair a b : ~ nodbl (a ++ SP :: SP :: b).
Proof.
  induction a as [|c a IH]; simpl.
  - intros [H _]. apply H; split; reflexivity.
  - intros [_ H]. exact (IH H).
Qed.

Lemma join_head sep c w0 r : exists t, py_join [sep] ((c :: w0) :: r) = c :: t.
Proof. destruct r; [exists w0; reflexivity | rewrite py_join_cons2; simpl; eauto]. Qed.

Lemma join_good_nodbl ws : Forall good ws -> nodbl (py_join [SP] ws).
Proof.
  induction 1 as [|w r Gw Gr IH]; [exact I|].
  destruct r as [|w' r].
  - simpl. apply nodbl_nosp. destruct Gw as (_ & _ & NS & _); exact NS.
  - rewrite py_join_cons2. pose proof Gw as (_ & _ & NS & _). apply nodbl_app_sp.
    + exact NS.
    + apply good_nonempty; exact Gw.
    + exact IH.
    + intros d t' E. inversion Gr as [|? ? ((c & w0 & -> & Hc) & _) _]; subst.
      destruct (join_head SP c w0 r) as (t & Et). pose proof (eq_trans (eq_sym E) Et) as Q.
      injection Q as -> _. intro Ec. rewrite Ec, sp_is_space in Hc; discriminate.
Qed.

Lemma join_good_last ws r c : Forall good ws -> py_join [SP] ws = r ++ [c] -> is_py_space c = false.
Proof.
  intro G. revert r. induction G as [|w rest Gw Gr IH]; intros r E.
  - destruct r; discriminate.
  - destruct rest as [|w' rest].
    + simpl in E. destruct Gw as (_ & (r1 & c1 & E1 & H1) & _). rewrite E1 in E.
      apply app_inj_tail in E as [_ <-]. exact H1.
    + rewrite py_join_cons2 in E.
      destruct (exists_last (l := py_join [SP] (w' :: rest))) as (r2 & c2 & E2).
      { inversion Gr as [|? ? ((c0 & w0 & -> & _) & _) _]; subst.
        destruct (join_head SP c0 w0 rest) as (t & Et). intro Q. pose proof (eq_trans (eq_sym Q) Et). discriminate. }
      rewrite E2 in E. change (w ++ SP :: r2 ++ [c2]) with (w ++ (SP :: r2) ++ [c2]) in E.
      rewrite app_assoc in E. apply app_inj_tail in E as [_ <-]. eapply IH; exact E2.
Qed.

Lemma C20_shape_l x :
  ~ In NBSP (norm x) /\
  (forall c r, norm x = c :: r -> is_py_space c = false) /\
  (forall r c, norm x = r ++ [c] -> is_py_space c = false) /\
  (forall a b, norm x <> a ++ SP :: SP :: b).
Proof.
  pose proof (norm_words_good x) as G. unfold norm. repeat split.
  - intro H. apply in_join in H as [H|(w & Hw & Hc)]; [discriminate|].
    rewrite Forall_forall in G. destruct (G w Hw) as (_ & _ & _ & N). exact (N Hc).
  - intros c r E. destruct (norm_words x) as [|w ws]; [discriminate|].
    inversion G as [|? ? ((c0 & w0 & -> & Hc) & _) _]; subst.
    destruct (join_head SP c0 w0 ws) as (t & Et). pose proof (eq_trans (eq_sym E) Et) as Q.
    injection Q as -> _. exact Hc.
  - intros r c E. eapply join_good_last; eauto.
  - intros a b E. apply (nodbl_no_pair a b). rewrite <- E. apply join_good_nodbl, G.
Qed.

(** words and order kept *)
Lemma words_norm_words l :
  flat_map py_split_ws (map py_strip (filter (fun w => nonempty (py_strip w)) l)) = flat_map py_split_ws l.
Proof.
  induction l as [|w r IH]; [reflexivity|]. simpl.
  destruct (py_strip w) as [|c u] eqn:E; simpl.
  - rewrite IH. rewrite <- (words_strip w), E. reflexivity.
  - rewrite IH, E. rewrite <- E, words_strip. reflexivity.
Qed.

Lemma C20_words_l x : py_split_ws (norm x) = py_split_ws (replace_char NBSP SP x).
Proof.
  unfold norm, norm_words. rewrite words_join by exact sp_is_space. rewrite words_norm_words.
  rewrite <- (words_join SP) by exact sp_is_space. rewrite join_split_on. reflexivity.
Qed.

Lemma split_replace a b x : is_py_space a = true -> is_py_space b = true ->
  split_by is_py_space (replace_char a b x) = split_by is_py_space x.
Proof.
  intros Ha Hb. unfold replace_char. induction x as [|c r IH]; [reflexivity|].
  rewrite map_cons. destruct (N.eqb_spec c a) as [->|NE].
  - simpl. rewrite Ha, Hb, IH. reflexivity.
  - simpl. rewrite IH. reflexivity.
Qed.

Lemma C20_words_orig_l x : py_split_ws (norm x) = py_split_ws x.
Proof.
  rewrite C20_words_l. unfold py_split_ws. rewrite split_replace; [reflexivity | exact nbsp_is_space | exact sp_is_space].
Qed.

Lemma nonsp_norm_words l :
  flat_map (filter nonsp) (map py_strip (filter (fun w => nonempty (py_strip w)) l)) = flat_map (filter nonsp) l.
Proof.
  induction l as [|w r IH]; [reflexivity|]. simpl.
  destruct (py_strip w) as [|c u] eqn:E; simpl.
  - rewrite IH. rewrite <- (nonsp_strip w), E. reflexivity.
  - rewrite IH, E. rewrite <- E, nonsp_strip. reflexivity.
Qed.

Lemma C20_nonspace_l x : filter nonsp (norm x) = filter nonsp x.
Proof.
  unfold norm, norm_words. rewrite nonsp_join by exact sp_is_space. rewrite nonsp_norm_words.
  rewrite <- (nonsp_join SP) by exact sp_is_space. rewrite join_split_on.
  apply nonsp_replace; [exact nbsp_is_space | exact sp_is_space].
Qed.

(** the result is made of the input's words joined by single spaces *)
Lemma norm_is_join x : Forall good (norm_words x) /\ norm x = py_join [SP] (norm_words x).
Proof. split; [apply norm_words_good | reflexivity]. Qed.

(* Proofs/C16_Valid.v — expansion preserves validity, at the level of the declared content
   model [L] (Spec/Lang.v): for a rule of the references shape, substituting the children
   of a referenced element governed by the same rule for the references child gives a child
   sequence of the language again.  Plus: copies validate like their sources ([view] is
   blind to ids), and the child names after expansion are that substitution. *)
From MP Require Import Common.Base Common.Tree Model.Rule Spec.Lang Spec.RefShape Spec.ExpandSpec Proofs.C15_Eq.

(** * words of L only use the names of the spec *)
Lemma L_names_all mixed :
  (forall sp w, L mixed sp w -> incl w (names_of sp)) /\
  (forall items ws, LSeq mixed items ws -> incl (concat ws) (flat_map names_of items)) /\
  (forall alts ws, LOccs mixed alts ws -> incl (concat ws) (flat_map names_of alts)) /\
  (forall alts w, LAlt mixed alts w -> incl w (flat_map names_of alts)).
Proof.
  apply L_mutind.
  - intros n lo hi k _ _ x Hx. apply repeat_spec in Hx. subst. left; reflexivity.
  - intros items ws _ IH. exact IH.
  - intros alts lo hi ws _ IH _ _. exact IH.
  - intros x [].
  - intros i items w ws _ IH1 _ IH2 x Hx. cbn [concat flat_map] in *.
    apply in_app_or in Hx. apply in_or_app. destruct Hx; [left; apply IH1 | right; apply IH2]; assumption.
  - intros alts x [].
  - intros alts w ws _ _ IH1 _ IH2 x Hx. cbn [concat] in Hx.
    apply in_app_or in Hx. destruct Hx; [apply IH1 | apply IH2]; assumption.
  - intros a alts w _ IH x Hx. cbn [flat_map]. apply in_or_app. left. apply IH, Hx.
  - intros a alts w _ IH x Hx. cbn [flat_map]. apply in_or_app. right. apply IH, Hx.
Qed.

Lemma L_names mixed sp w : L mixed sp w -> incl w (names_of sp).
Proof. apply (proj1 (L_names_all mixed)). Qed.

(** * substitution *)
Lemma subst_refs_id w src : ~ In REFS_NAME w -> subst_refs w src = w.
Proof.
  induction w as [|x r IH]; [reflexivity|]. intro H. unfold subst_refs in *. cbn [flat_map].
  destruct (pystr_eqb_reflect x REFS_NAME) as [->|NE]; [exfalso; apply H; left; reflexivity|].
  cbn [app]. f_equal. apply IH. intro I. apply H. right; exact I.
Qed.

Lemma subst_refs_app a b src : subst_refs (a ++ b) src = subst_refs a src ++ subst_refs b src.
Proof. apply flat_map_app. Qed.

Lemma subst_refs_one src : subst_refs [REFS_NAME] src = src.
Proof. unfold subst_refs. cbn [flat_map]. rewrite pystr_eqb_refl. apply app_nil_r. Qed.

Lemma not_in_repeat (x y : pystr) k : x <> y -> ~ In x (repeat y k).
Proof. intros NE I. apply repeat_spec in I. contradiction. Qed.

(** * the choice  A | references *)
Lemma ref_cho_inv sp A : ref_cho sp = Some A ->
  sp = Cho [A; El REFS_NAME 1 (Some 1)] 1 (Some 1) /\ ~ In REFS_NAME (names_of A).
Proof.
  unfold ref_cho. intro H.
  repeat match type of H with
         | (if (?a && ?b) then _ else _) = _ => destruct (a && b) eqn:B; try discriminate
         | match ?x with _ => _ end = _ => destruct x; try discriminate
         end.
  injection H as <-. apply andb_true_iff in B. destruct B as [B1 B2].
  apply pystr_eqb_eq in B1. subst. apply negb_true_iff, smem_false in B2.
  split; [reflexivity | exact B2].
Qed.

Lemma cho_words mixed A w :
  L mixed (Cho [A; El REFS_NAME 1 (Some 1)] 1 (Some 1)) w ->
  w = [] \/ (w <> [] /\ L mixed A w) \/ w = [REFS_NAME].
Proof.
  intro H. inversion H as [| |alts lo hi ws OC MIN MAX]; subst. cbn [le_hi] in MAX.
  destruct ws as [|w1 [|w2 r]]; [left; reflexivity | | cbn in MAX; lia].
  right. cbn [concat]. rewrite app_nil_r.
  inversion OC as [|? ? ? NE ALT _]; subst.
  inversion ALT as [? ? ? LA|? ? ? ALT']; subst.
  - left. split; assumption.
  - inversion ALT' as [? ? ? LE|? ? ? ALT'']; subst.
    + right. inversion LE as [n lo hi k LO HI| |]; subst. cbn [le_hi] in HI.
      assert (k = 1) by lia. subst k. reflexivity.
    + inversion ALT''.
Qed.

Lemma cho_no_refs mixed A w :
  ~ In REFS_NAME (names_of A) -> L mixed (Cho [A; El REFS_NAME 1 (Some 1)] 1 (Some 1)) w ->
  In REFS_NAME w -> w = [REFS_NAME].
Proof.
  intros NA H I. destruct (cho_words mixed A w H) as [->|[[_ LA]| ->]]; [destruct I | | reflexivity].
  exfalso. apply NA. exact (L_names mixed A w LA _ I).
Qed.

(** * the language lemma *)
Theorem ref_subst_L mixed top w_ref w_src :
  ref_shape_ok top = true ->
  L mixed top w_ref -> L mixed top w_src -> ~ In REFS_NAME w_src ->
  L mixed top (subst_refs w_ref w_src).
Proof.
  intros OK Lr Ls NS.
  destruct (in_dec pystr_eq_dec REFS_NAME w_ref) as [I|NI]; [|rewrite subst_refs_id; assumption].
  destruct top as [|items|alts lo hi]; [discriminate| |].
  - (* A | references, then roles *)
    cbn [ref_shape_ok] in OK.
    destruct items as [|c [|e [|x r]]]; try discriminate;
      try (destruct e as [? [|[|]] [|]| |]; discriminate).
    destruct e as [role lo hi| |]; try discriminate.
    destruct lo as [|[|]]; try discriminate. destruct hi; [discriminate|].
    destruct (ref_cho c) as [A|] eqn:RC; [|discriminate].
    apply negb_true_iff in OK. apply pystr_eqb_neq in OK.
    destruct (ref_cho_inv c A RC) as [-> NA].
    inversion Lr as [|items ws SQ|]; subst.
    inversion SQ as [|? ? w1 ws1 L1 SQ1]; subst. inversion SQ1 as [|? ? w2 ws2 L2 SQ2]; subst. inversion SQ2; subst.
    inversion Ls as [|items ws' SQ'|]; subst.
    inversion SQ' as [|? ? v1 vs1 M1 SQ1']; subst. inversion SQ1' as [|? ? v2 vs2 M2 SQ2']; subst. inversion SQ2'; subst.
    cbn [concat] in *. rewrite app_nil_r in *.
    inversion L2 as [n lo hi k LO _| |]; subst. inversion M2 as [n lo hi k' LO' _| |]; subst.
    assert (I1 : In REFS_NAME w1).
    { apply in_app_or in I. destruct I as [I|I]; [exact I | exfalso; exact (not_in_repeat _ _ _ (not_eq_sym OK) I)]. }
    rewrite (cho_no_refs mixed A w1 NA L1 I1).
    rewrite subst_refs_app, subst_refs_one, (subst_refs_id (repeat role k)); [|apply not_in_repeat; congruence].
    rewrite ?app_nil_r, <- app_assoc, <- repeat_app.
    replace (v1 ++ repeat role (k' + k)) with (concat [v1; repeat role (k' + k)]) by (cbn; rewrite app_nil_r; reflexivity).
    apply L_Seq. constructor; [exact M1|]. constructor; [|constructor].
    apply L_El; [lia | cbn; trivial].
  - (* A | references *)
    cbn [ref_shape_ok] in OK. destruct (ref_cho (Cho alts lo hi)) as [A|] eqn:RC; [|discriminate].
    destruct (ref_cho_inv _ A RC) as [E NA]. rewrite E in *.
    rewrite (cho_no_refs mixed A w_ref NA Lr I), subst_refs_one. exact Ls.
Qed.

(** * copies validate like their sources *)
Theorem copy_view : forall c c', copy_of c c' -> view c' = view c.
Proof.
  apply (ftree_ind' (fun c => forall c', copy_of c c' -> view c' = view c)).
  intros d kids IH c' H. inversion H as [? d' ? kids' SB F2]; subst.
  destruct SB as (E1 & E2 & _ & _ & E5 & _). cbn [view]. rewrite E1, E2, E5. f_equal.
  clear H. induction F2 as [|k k' r r' Hk _ IHr]; [reflexivity|].
  inversion IH; subst. cbn [map]. f_equal; [apply H1, Hk | apply IHr; assumption].
Qed.

Lemma copy_name c c' : copy_of c c' -> ft_name c' = ft_name c.
Proof. intro H. inversion H as [? ? ? ? SB _]; subst. destruct SB as (E & _). unfold ft_name. cbn. congruence. Qed.

(** * child names after expansion = substitution of the sources' child names *)
Lemma expands_name src u u' : expands src u u' -> ft_name u' = ft_name u.
Proof. intro H. inversion H; reflexivity. Qed.

Lemma splice_names src ks ks' :
  splice (expands src) src ks ks' ->
  map ft_name ks' = flat_map (fun k => if is_ref k then map ft_name (src k) else [ft_name k]) ks.
Proof.
  induction 1 as [|r ks cs ks' R C _ IH|k k' ks ks' R E _ IH]; [reflexivity| |].
  - cbn [flat_map]. rewrite R, map_app, IH. f_equal.
    clear -C. induction C as [|a b l l' Hab _ IHl]; [reflexivity|]. cbn [map]. rewrite IHl, (copy_name _ _ Hab). reflexivity.
  - cbn [flat_map map]. rewrite R, IH, (expands_name _ _ _ E). reflexivity.
Qed.

(** when every references child of the node names an element whose children are called [w_src],
    the child names after expansion are [subst_refs] of the names before *)
Theorem expanded_child_names src d ks ks' w_src :
  expands src (FT d ks) (FT d ks') ->
  (forall r, In r ks -> is_ref r = true -> map ft_name (src r) = w_src) ->
  map ft_name ks' = subst_refs (map ft_name ks) w_src.
Proof.
  intros H S. inversion H as [? ? ? SP]; subst. rewrite (splice_names _ _ _ SP).
  unfold subst_refs. clear H SP. induction ks as [|k r IH]; [reflexivity|].
  cbn [map flat_map]. rewrite IH; [|intros x Hx; apply S; right; exact Hx]. f_equal.
  unfold is_ref in *. change REFS with REFS_NAME in *.
  destruct (pystr_eqb (ft_name k) REFS_NAME) eqn:R; [|reflexivity].
  apply S; [left; reflexivity | exact R].
Qed.

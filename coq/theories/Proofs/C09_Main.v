(* Proofs/C09_Main.v — the C09 statements assembled; a worked, non-vacuous example. *)
From MP Require Import Common.Base.
From MP Require Import Model.Edits.
From MP Require Import Spec.ListModel.
From MP Require Import Proofs.C09_Lists.
From MP Require Import Proofs.C09_Refine.
From MP Require Import Proofs.C09_Inv.
From MP Require Import Proofs.C09_Queries.

Theorem c09_queries :
  (forall nm t, find_child nm t = spec_find_child nm t) /\
  (forall nm t, find_all_children nm t = spec_find_all_children nm t) /\
  (forall nm t, find_descendant nm t = spec_find_descendant nm t) /\
  (forall nm t acc, find_all_descendants nm t acc = acc ++ spec_find_all_descendants nm t) /\
  (forall path t, find_single_node_by_path path t = spec_single_by_path path t) /\
  (forall path t, find_all_nodes_by_path path t = spec_all_by_path path t) /\
  (forall s p c, child_index s p c = pos c (kids s p) /\
                 match child_index s p c with
                 | Some i => nth_error (kids s p) i = Some c /\ ~ In c (firstn i (kids s p))
                 | None => ~ In c (kids s p)
                 end) /\
  (forall s fuel i l, Inv s -> get_ancestry fuel s i = Some l -> is_ancestry s i l) /\
  (forall fuel s i t, reify fuel s i = Some t -> tree_of s i t).
Proof.
  repeat split.
  - apply find_child_spec.
  - apply find_descendant_spec.
  - apply find_all_descendants_spec.
  - apply find_single_node_by_path_spec.
  - apply find_all_nodes_by_path_spec.
  - apply index_of_pos.
  - apply child_index_spec.
  - eapply get_ancestry_spec; eauto.
  - eapply get_ancestry_spec; eauto.
  - eapply get_ancestry_spec; eauto.
  - apply reify_sound; assumption.
Qed.

(** what shift does to the other positions: exactly two slots are exchanged, and with
    sib=True the other slot is the nearest same-named sibling on that side *)
Theorem c09_shift_positions fuel s p c d sib i :
  pos c (kids s p) = Some i ->
  match spec_target (name s) (kids s p) i d sib with
  | None => fst (exec fuel (Shift p c d sib) s) = s /\ snd (exec fuel (Shift p c d sib) s) = RInt i
  | Some j => (forall q, kids (fst (exec fuel (Shift p c d sib) s)) q =
                         if Nat.eqb q p then swap_at i j (kids s p) else kids s q) /\
              snd (exec fuel (Shift p c d sib) s) = RInt j
  end.
Proof.
  intro E. simpl exec. rewrite exec_shift_spec, E.
  destruct (spec_target (name s) (kids s p) i d sib); simpl; auto.
Qed.

(** * example: a history that respects the proviso *)
Definition ex_s0 : st := mkst (fun _ => []) (fun _ => None) (fun i => if Nat.eqb i 2 then 1 else 0) (fun _ => true).
Definition ex_h : list op :=
  [AddChild 0 1 None; AddChild 0 2 (Some 0%Z); AddChild 0 3 (Some (-1)%Z); Shift 0 1 RIGHT true;
   RemoveChild 0 4; ReplaceChild 0 2 1 false; ReplaceChild 0 3 4 false].

Lemma no_desc_leaf s c x : kids s c = [] -> ~ desc s c x.
Proof. intros E D. inversion D; subst; rewrite E in *; simpl in *; contradiction. Qed.

Lemma ex_hist_ok : hist_ok 5 ex_s0 ex_h.
Proof.
  unfold ex_h.
  constructor; [simpl; split; [intros q []|split; [discriminate|apply no_desc_leaf; reflexivity]]|].
  constructor.
  { simpl. split; [|split; [discriminate|apply no_desc_leaf; reflexivity]].
    intros q. simpl. unfold upd. destruct (Nat.eqb q 0); simpl; intuition discriminate. }
  constructor.
  { simpl. split; [|split; [discriminate|apply no_desc_leaf; reflexivity]].
    intros q. simpl. unfold upd. destruct (Nat.eqb q 0); simpl; intuition discriminate. }
  constructor; [exact I|].
  constructor; [exact I|].
  constructor; [simpl; intros N; discriminate N|].
  constructor; [|constructor].
  unfold pre, attach_ok. intros _ _. split; [|split; [discriminate|apply no_desc_leaf; reflexivity]].
  intros q. simpl. unfold upd. destruct (Nat.eqb q 0); simpl; intuition discriminate.
Qed.

Lemma ex_result :
  map (kids (run 5 ex_h ex_s0)) [0; 1; 2; 3] = [[2; 4; 1]; []; []; []] /\
  map (parent (run 5 ex_h ex_s0)) [1; 2; 3; 4] = [Some 0; Some 0; None; Some 0] /\
  map (fun o => snd (exec 5 o (run 5 (firstn 3 ex_h) ex_s0))) [Shift 0 1 RIGHT true; Shift 0 3 RIGHT false; RemoveChild 0 4]
    = [RInt 2; RInt 2; Raise ValueError].
Proof. vm_compute. repeat split. Qed.

(* Proofs/C17_Restore.v — C17: whenever SOME insertion position makes the child sequence
   a word of the rule's language, the suggested position does.  Proved over the
   language L (Spec/Lang.v) for every spec satisfying [insert_ok]; the matcher is not
   involved. *)
From MP Require Import Common.Base.
From MP Require Import Model.Rule.
From MP Require Import Model.Insert.
From MP Require Import Spec.Lang.
From MP Require Import Spec.Attr.
From MP Require Import Spec.InsertSpec.
From MP Require Import Proofs.SpecInd.
From MP Require Import Proofs.C17_Index.
From MP Require Import Proofs.C17_Lang.

(** [le] is true exactly on the names declared no later than [x]: for every way of
    cutting the name list at an occurrence of [x] *)
Definition Hsplit (le : pystr -> bool) (x : pystr) (names : list pystr) : Prop :=
  forall l1 l2, names = l1 ++ x :: l2 ->
    (forall c, In c l1 -> le c = true) /\ (forall c, In c l2 -> le c = false).

Lemma Hsplit_sub le x F1 N F2 :
  Hsplit le x (F1 ++ N ++ F2) ->
  Hsplit le x N /\
  (In x N -> (forall c, In c F1 -> le c = true) /\ (forall c, In c F2 -> le c = false)).
Proof.
  intro H. split.
  - intros m1 m2 ->.
    destruct (H (F1 ++ m1) (m2 ++ F2)) as [T F].
    { rewrite <- !app_assoc. simpl. reflexivity. }
    split; intros c Hc; [apply T | apply F]; apply in_or_app; [right | left]; exact Hc.
  - intro Hx. destruct (in_split _ _ Hx) as (m1 & m2 & ->).
    destruct (H (F1 ++ m1) (m2 ++ F2)) as [T F].
    { rewrite <- !app_assoc. simpl. reflexivity. }
    split; intros c Hc; [apply T | apply F]; apply in_or_app; [left | right]; exact Hc.
Qed.

Lemma all_eq_repeat (n : pystr) l : (forall c, In c l -> c = n) -> l = repeat n (length l).
Proof.
  induction l as [|y l IH]; simpl; intro H; [reflexivity|].
  rewrite (H y (or_introl eq_refl)). f_equal. apply IH. intros c Hc. apply H. right. exact Hc.
Qed.

Lemma In_take_drop {A} (f : A -> bool) (x c : A) l :
  In c (takeWhile f l ++ x :: dropWhile f l) <-> c = x \/ In c l.
Proof.
  rewrite <- (take_drop f l) at 3. rewrite !in_app_iff. simpl.
  split; [intros [H|[H|H]] | intros [H|[H|H]]]; auto.
Qed.

Lemma length_take_drop {A} (f : A -> bool) (x : A) l :
  length (takeWhile f l ++ x :: dropWhile f l) = S (length l).
Proof.
  rewrite <- (take_drop f l) at 3. rewrite !app_length. simpl. lia.
Qed.

(** iterating choice: every letter of a word is by itself an occurrence *)
Lemma occ_letter mixed alts ws :
  LOccs mixed alts ws -> forallb is_el_le1 alts = true ->
  forall c, In c (concat ws) -> LAlt mixed alts [c].
Proof.
  intros H OK. rewrite forallb_forall in OK.
  induction H as [|alts w ws N HA HO IH]; intros c Hc; simpl in Hc; [destruct Hc|].
  apply in_app_iff in Hc as [Hc|Hc]; [|apply IH; assumption].
  destruct (LAlt_inv _ _ _ HA) as (al1 & a & al2 & -> & Ha).
  assert (Ia : In a (al1 ++ a :: al2)) by (apply in_or_app; right; left; reflexivity).
  specialize (OK a Ia). destruct a as [n l h| |]; try discriminate. simpl in OK. apply Nat.leb_le in OK.
  inversion Ha as [n' lo' hi' k Hlo Hhi| |]; subst.
  apply repeat_spec in Hc as Ec. subst c.
  assert (K : 1 <= k) by (destruct k; [destruct Hc | lia]).
  eapply LAlt_In; [exact Ia|].
  change [n] with (repeat n 1). constructor; [lia|].
  destruct h as [h|]; simpl in *; [lia | exact I].
Qed.

Lemma occs_length mixed alts ws : LOccs mixed alts ws -> length ws <= length (concat ws).
Proof.
  induction 1 as [|alts w ws N _ _ IH]; simpl; [lia|].
  rewrite app_length. destruct w; [contradiction | simpl; lia].
Qed.

Lemma occs_singletons mixed alts r :
  (forall c, In c r -> LAlt mixed alts [c]) -> LOccs mixed alts (map (fun c => [c]) r).
Proof.
  induction r as [|c r IH]; simpl; intro H; constructor.
  - discriminate.
  - apply H. left. reflexivity.
  - apply IH. intros d Hd. apply H. right. exact Hd.
Qed.

Lemma concat_singletons {A} (r : list A) : concat (map (fun c => [c]) r) = r.
Proof. induction r as [|c r IH]; simpl; [reflexivity | f_equal; exact IH]. Qed.

(** * the induction *)
Lemma restore_gen mixed :
  forall sp, iter_ok sp = true ->
    forall le x w1 w2, le x = true -> Hsplit le x (names_of sp) ->
      L mixed sp (w1 ++ x :: w2) ->
      L mixed sp (takeWhile le (w1 ++ w2) ++ x :: dropWhile le (w1 ++ w2)).
Proof.
  induction sp as [n lo hi | items IH | alts lo hi IH] using spec_ind2;
    intros OK le x w1 w2 Lx HS HL.
  - (* a plain element: every arrangement is the same word *)
    inversion HL as [n' lo' hi' k Hlo Hhi| |]; subst.
    match goal with H : repeat _ _ = _ |- _ => rename H into E end.
    assert (All : forall c, In c (w1 ++ x :: w2) -> c = n) by (intros c Hc; rewrite <- E in Hc; apply repeat_spec in Hc; exact Hc).
    assert (Ex : x = n) by (apply All, in_or_app; right; left; reflexivity). subst x.
    set (r := takeWhile le (w1 ++ w2) ++ n :: dropWhile le (w1 ++ w2)).
    assert (Er : r = repeat n (length r)).
    { apply all_eq_repeat. intros c Hc. apply In_take_drop in Hc as [->|Hc]; [reflexivity|].
      apply All. apply in_app_iff in Hc. apply in_or_app. simpl. tauto. }
    assert (Lr : length r = k).
    { unfold r. rewrite length_take_drop. rewrite <- (repeat_length n k), E. rewrite !app_length. simpl. lia. }
    rewrite Er, Lr. constructor; assumption.
  - (* sequence *)
    simpl in OK. rewrite forallb_forall in OK. rewrite Forall_forall in IH.
    inversion HL as [|its ws HSq|]; subst.
    match goal with H : concat _ = _ |- _ => rename H into E end.
    destruct (LSeq_split _ _ _ HSq _ _ _ E) as (i1 & it & i2 & ws1 & wa & wb & ws2 & -> & H1 & H2 & H3 & -> & ->).
    assert (Iit : In it (i1 ++ it :: i2)) by (apply in_or_app; right; left; reflexivity).
    simpl in HS. rewrite flat_map_app in HS. simpl in HS.
    destruct (Hsplit_sub _ _ _ _ _ HS) as [HSit Hout].
    destruct Hout as [T F]; [eapply L_names; [exact H2 | apply in_or_app; right; left; reflexivity]|].
    assert (T1 : forall c, In c (concat ws1) -> le c = true) by (intros c Hc; apply T; eapply LSeq_names; eassumption).
    assert (F2 : forall c, In c (concat ws2) -> le c = false) by (intros c Hc; apply F; eapply LSeq_names; eassumption).
    replace ((concat ws1 ++ wa) ++ wb ++ concat ws2) with (concat ws1 ++ ((wa ++ wb) ++ concat ws2))
      by (rewrite <- !app_assoc; reflexivity).
    destruct (takeWhile_app_true le (concat ws1) ((wa ++ wb) ++ concat ws2) T1) as [-> ->].
    destruct (takeWhile_app_false le (wa ++ wb) (concat ws2) F2) as [-> ->].
    specialize (IH it Iit (OK it Iit) le x wa wb Lx HSit H2).
    replace ((concat ws1 ++ takeWhile le (wa ++ wb)) ++ x :: dropWhile le (wa ++ wb) ++ concat ws2)
      with (concat (ws1 ++ (takeWhile le (wa ++ wb) ++ x :: dropWhile le (wa ++ wb)) :: ws2)).
    + constructor. apply LSeq_app; [exact H1 | constructor; assumption].
    + rewrite concat_app. simpl. rewrite <- !app_assoc. simpl. reflexivity.
  - (* choice *)
    inversion HL as [| |alts' lo' hi' ws HO Hlo Hhi]; subst.
    match goal with H : concat _ = _ |- _ => rename H into E end.
    simpl in OK. destruct hi as [[|[|h]]|]; try discriminate.
    + (* taken at most once: the word is one occurrence of one alternative *)
      rewrite forallb_forall in OK. rewrite Forall_forall in IH.
      destruct ws as [|u [|v ws]]; simpl in Hhi, E.
      * destruct w1; discriminate.
      * rewrite app_nil_r in E. subst u.
        inversion HO as [|? ? ? N HA _]; subst.
        destruct (LAlt_inv _ _ _ HA) as (al1 & a & al2 & -> & Ha).
        assert (Ia : In a (al1 ++ a :: al2)) by (apply in_or_app; right; left; reflexivity).
        simpl in HS. rewrite flat_map_app in HS. simpl in HS.
        destruct (Hsplit_sub _ _ _ _ _ HS) as [HSa _].
        specialize (IH a Ia (OK a Ia) le x w1 w2 Lx HSa Ha).
        set (r := takeWhile le (w1 ++ w2) ++ x :: dropWhile le (w1 ++ w2)) in *.
        replace r with (concat [r]) by (simpl; apply app_nil_r).
        constructor.
        -- constructor; [| eapply LAlt_In; eassumption | constructor].
           unfold r. intro Z. apply app_eq_nil in Z as [_ Z]. discriminate.
        -- exact Hlo.
        -- simpl. lia.
      * lia.
    + (* unbounded: any arrangement of the same letters is a word *)
      set (r := takeWhile le (w1 ++ w2) ++ x :: dropWhile le (w1 ++ w2)).
      assert (Lt : forall c, In c r -> LAlt mixed alts [c]).
      { intros c Hc. apply (occ_letter mixed alts ws HO OK). rewrite E.
        apply In_take_drop in Hc as [->|Hc]; [apply in_or_app; right; left; reflexivity|].
        apply in_app_iff in Hc. apply in_or_app. simpl. tauto. }
      replace r with (concat (map (fun c => [c]) r)) by apply concat_singletons.
      constructor.
      * apply occs_singletons, Lt.
      * destruct Hlo as [M|Hlo]; [left; exact M | right].
        rewrite map_length. unfold r. rewrite length_take_drop.
        pose proof (occs_length _ _ _ HO) as Q. rewrite E in Q. rewrite !app_length in *. simpl in Q. lia.
      * exact I.
Qed.

Lemma nodupb_NoDup l : nodupb l = true -> NoDup l.
Proof.
  induction l as [|x r IH]; simpl; intro H; constructor.
  - apply andb_true_iff in H as [H _]. apply negb_true_iff, smem_false in H. exact H.
  - apply andb_true_iff in H as [_ H]. apply IH, H.
Qed.

(** * the theorem *)
Theorem restores mixed top x w i :
  insert_ok_top top = true ->
  Ltop mixed top (insert_at i x w) ->
  exists k, child_insert_index (names_of_top top) w x = Idx k /\
            Ltop mixed top (insert_at k x w).
Proof.
  intros OK HL. destruct top as [sp|]; simpl in *.
  - unfold insert_ok in OK. apply andb_true_iff in OK as [ND IT]. apply nodupb_NoDup in ND.
    assert (Hx : In x (names_of sp)) by (eapply L_names; [exact HL | apply In_insert_at; left; reflexivity]).
    assert (Hw : forall c, In c w -> In c (names_of sp)) by (intros c Hc; eapply L_names; [exact HL | apply In_insert_at; right; exact Hc]).
    exists (length (takeWhile (le_rank (names_of sp) x) w)). split; [apply cii_char; assumption|].
    rewrite insert_at_takeWhile.
    unfold insert_at in HL. rewrite <- (firstn_skipn i w) at 1 2.
    apply restore_gen; [exact IT | | | exact HL].
    + unfold le_rank. apply Nat.leb_refl.
    + intros l1 l2 E. destruct (le_rank_split _ _ _ _ ND E) as (_ & T & F). split; assumption.
  - exfalso. apply (f_equal (@length pystr)) in HL. rewrite length_insert_at in HL. discriminate.
Qed.

(** [insert_ok] is needed: with a bounded repeatable choice the suggestion can miss
    (spec: choice of a+ | b taken 1..2 times; children b a; new child a:
     "b a a" is valid, the suggested "a b a" needs three occurrences) *)
Example insert_ok_needed :
  let sp := Cho [El (s "a") 1 None; El (s "b") 1 (Some 1)] 1 (Some 2) in
  let w := [s "b"; s "a"] in
  child_insert_index (names_of sp) w (s "a") = Idx 0 /\
  L false sp (insert_at 2 (s "a") w) /\
  insert_ok sp = false.
Proof.
  split; [reflexivity|]. split; [|reflexivity].
  change (insert_at 2 (s "a") [s "b"; s "a"]) with (concat [repeat (s "b") 1; repeat (s "a") 2]).
  constructor.
  - constructor; [discriminate | apply LAlt_there, LAlt_here; constructor; simpl; lia|].
    constructor; [discriminate | apply LAlt_here; constructor; simpl; [lia | exact I] | constructor].
  - right. simpl. lia.
  - simpl. lia.
Qed.

(** non-vacuity: a shipped-style spec, a sequence that is invalid as it stands and
    becomes valid exactly by the suggested insertion *)
Example restores_nonvacuous :
  let sp := Seq [El (s "a") 1 (Some 1); Cho [El (s "b") 1 (Some 1); El (s "c") 1 (Some 1)] 1 None; El (s "d") 0 (Some 1)] in
  insert_ok sp = true /\
  child_insert_index (names_of sp) [s "a"; s "d"] (s "c") = Idx 1 /\
  L false sp (insert_at 1 (s "c") [s "a"; s "d"]).
Proof.
  split; [reflexivity|]. split; [reflexivity|].
  change (insert_at 1 (s "c") [s "a"; s "d"]) with (concat [repeat (s "a") 1; concat [repeat (s "c") 1]; repeat (s "d") 1]).
  constructor. constructor; [constructor; simpl; lia|].
  constructor; [|constructor; [constructor; simpl; lia | constructor]].
  constructor.
  - constructor; [discriminate | apply LAlt_there, LAlt_here; constructor; simpl; lia | constructor].
  - right. simpl. lia.
  - exact I.
Qed.

(* Proofs/C07_Top.v — stage 3b of C07: the whole document.  Every character the general
   exporter writes is a legal document character, the fuel the parser starts with is
   enough, and the raw (namespace-unaware) parse of the output is [layout]. *)
From MP Require Import Common.Base Common.Tree Common.XStr Spec.Xml Spec.XmlSim Model.XmlOut
  Proofs.C07_Escape Proofs.C07_Lex Proofs.C07_Parse.
Local Open Scope N_scope.

(** * Fuel: the output is longer than the recursion is deep *)
Lemma to_xml_len parent level t :
  (2 + length (core parent level t) <= length (to_xml parent level false t))%nat.
Proof. rewrite to_xml_core, !app_length. simpl. lia. Qed.

Lemma need_le_core t : forall parent level, (need t <= length (core parent level t))%nat.
Proof.
  induction t as [d kids IH] using ftree_ind2. intros parent level.
  rewrite need_eq.
  assert (Hk : forall m l, (needs kids <= 1 + length (flat_map (to_xml m l false) kids))%nat).
  { intros m l. induction IH as [|k r Hk _ IHr]; [simpl; lia|].
    cbn [needs flat_map]. rewrite app_length.
    pose proof (to_xml_len m l k). pose proof (Hk m l). lia. }
  cbn [core]. destruct (n_content d) as [c|]; [|destruct kids as [|k0 r0]].
  - rewrite !app_length. specialize (Hk (Some (n_nsmap d)) (S level)).
    change (length (s "</")) with 2%nat. cbn [length]. lia.
  - cbn [is_nil needs]. rewrite !app_length. change (length (s "/>")) with 2%nat. lia.
  - cbn [is_nil]. rewrite !app_length. specialize (Hk (Some (n_nsmap d)) (S level)).
    change (length (s "</")) with 2%nat. cbn [length]. lia.
Qed.

(** * Characters *)
Lemma name_char_doc c : is_name_char c = true -> doc_char_ok c = true.
Proof.
  unfold is_name_char, is_name_start, doc_char_ok, is_xml_char, in_range.
  rewrite andb_true_iff, negb_true_iff, N.eqb_neq.
  rewrite !orb_true_iff, !andb_true_iff, !N.leb_le, !N.eqb_eq. lia.
Qed.

Lemma qname_char_doc c : is_qname_char c = true -> doc_char_ok c = true.
Proof.
  unfold is_qname_char. rewrite orb_true_iff. intros [H|H]; [apply name_char_doc, H|].
  apply N.eqb_eq in H. subst. reflexivity.
Qed.

Definition docs (x : pystr) : Prop := forallb doc_char_ok x = true.

Lemma docs_app a b : docs (a ++ b) <-> docs a /\ docs b.
Proof. unfold docs. rewrite forallb_app, andb_true_iff. reflexivity. Qed.

Lemma docs_flat_map {A} (f : A -> pystr) l : (forall x, In x l -> docs (f x)) -> docs (flat_map f l).
Proof.
  induction l as [|x l IH]; intro H; [reflexivity|]. cbn [flat_map]. apply docs_app. split.
  - apply H. left. reflexivity.
  - apply IH. intros y Hy. apply H. right. exact Hy.
Qed.

Lemma docs_escape x : forallb is_xml_char x = true -> docs (escape_text x).
Proof.
  intro H. rewrite escape_text_flat. apply docs_flat_map. intros c Hc.
  rewrite forallb_forall in H. specialize (H c Hc).
  unfold esc_text_char, esc_char. destruct (c =? 13) eqn:E13; [reflexivity|].
  destruct (c =? 38); [reflexivity|]. destruct (c =? 62); [reflexivity|].
  destruct (c =? 60); [reflexivity|]. unfold docs, doc_char_ok. simpl. rewrite H, E13. reflexivity.
Qed.

Lemma docs_escape_attr x : value_ok x = true -> docs (escape_attr x).
Proof.
  intro H. rewrite escape_attr_flat. apply docs_flat_map. intros c Hc.
  unfold value_ok in H. rewrite forallb_forall in H. specialize (H c Hc).
  unfold esc_attr_char, esc_char. destruct (c =? 34); [reflexivity|]. destruct (c =? 9); [reflexivity|].
  destruct (c =? 10); [reflexivity|]. destruct (c =? 13) eqn:E13; [reflexivity|].
  destruct (c =? 38); [reflexivity|]. destruct (c =? 62); [reflexivity|].
  destruct (c =? 60); [reflexivity|]. unfold docs, doc_char_ok. simpl. rewrite H, E13. reflexivity.
Qed.

Lemma docs_spaces n : docs (spaces n).
Proof. unfold docs, spaces. induction n; [reflexivity|exact IHn]. Qed.

Lemma docs_name n : lex_name n -> docs n.
Proof. intros (_ & H & _). unfold docs. apply (forallb_imp is_qname_char); [apply qname_char_doc | exact H]. Qed.

(** the values a node writes *)
Record val_ok (d : nd) : Prop := {
  vl_content : otext_ok (n_content d) = true;
  vl_tail : otext_ok (n_tail d) = true;
  vl_attrs : Forall (fun kv => value_ok (snd kv) = true) (n_attrs d);
  vl_extras : Forall (fun kv => value_ok (snd kv) = true) (n_extras d);
  vl_nsmap : Forall (fun kv => value_ok (snd kv) = true) (n_nsmap d)
}.

Lemma all_attrs_values parent d : val_ok d -> Forall (fun a => value_ok (snd a) = true) (all_attrs parent d).
Proof.
  intro V. unfold all_attrs. rewrite !Forall_app. repeat split.
  - exact (vl_attrs d V).
  - apply Forall_map. apply Forall_forall. intros [k v] Hin. cbn [decl_attr snd].
    pose proof (vl_nsmap d V) as H. rewrite Forall_forall in H. exact (H _ (emitted_incl parent d _ Hin)).
  - exact (vl_extras d V).
Qed.

Lemma docs_attr_string parent d : lex_ok d -> val_ok d -> docs (attr_string parent false d).
Proof.
  intros L V.
  assert (HA : Forall (fun kv : pystr * pystr => head_ok (fst kv)) (n_attrs d)).
  { eapply Forall_impl; [|exact (lx_attrs d L)]. intros [k v] H. cbn [fst] in *.
    unfold attr_name_ok in H. apply andb_true_iff in H as [H _]. apply xml_name_head, H. }
  assert (HE : Forall (fun kv : pystr * pystr => head_ok (fst kv)) (n_extras d)).
  { eapply Forall_impl; [|exact (lx_extras d L)]. intros [k v] (p & l & Hs & Hp & _). cbn [fst] in *.
    rewrite (split_colon_inv k p l Hs). apply xml_name_head in Hp.
    destruct p; [destruct Hp | exact Hp]. }
  rewrite (attr_string_eq parent d HA HE). apply docs_flat_map. intros [k v] Hin.
  pose proof (all_attrs_lex parent d L) as H1. pose proof (all_attrs_values parent d V) as H2.
  rewrite Forall_forall in H1, H2. specialize (H1 _ Hin). specialize (H2 _ Hin). cbn [fst snd] in *.
  unfold fmt_sp, fmt_attr. cbn [fst snd]. rewrite !docs_app. repeat split; try reflexivity.
  - apply docs_name, H1.
  - apply docs_escape_attr, H2.
Qed.

Lemma docs_otext o : otext_ok o = true -> forallb is_xml_char (otext o) = true.
Proof. destruct o; [exact (fun H => H) | reflexivity]. Qed.

Inductive tree_val : ftree -> Prop :=
| TV d kids : val_ok d -> Forall tree_val kids -> tree_val (FT d kids).

Lemma docs_to_xml t : tree_lex t -> tree_val t ->
  forall parent level, docs (to_xml parent level false t).
Proof.
  induction t as [d kids IH] using ftree_ind2. intros HL HV parent level.
  destruct (tree_lex_inv _ _ HL) as [L HLk]. inversion HV as [? ? V HVk]; subst.
  assert (Hk : forall m l, docs (flat_map (to_xml m l false) kids)).
  { intros m l. apply docs_flat_map. intros k Hk. rewrite Forall_forall in IH, HLk, HVk.
    apply IH; auto. }
  assert (Htag : docs (tag_of d)) by (apply docs_name, tag_lex, L).
  rewrite to_xml_core. cbn [ft_d core]. fold (spaces (2 * level)).
  rewrite !docs_app. repeat split; try reflexivity.
  - apply docs_spaces.
  - exact Htag.
  - apply docs_attr_string; assumption.
  - destruct (n_content d) as [c|] eqn:Ec.
    + rewrite !docs_app. repeat split; try reflexivity; [|apply Hk|exact Htag].
      apply docs_escape. pose proof (vl_content d V) as Hc. rewrite Ec in Hc. exact Hc.
    + destruct (is_nil kids); [reflexivity|].
      rewrite !docs_app. repeat split; try reflexivity; [apply Hk|apply docs_spaces|exact Htag].
  - apply docs_escape, docs_otext, (vl_tail d V).
Qed.

(** * The document *)
Lemma pmisc_elem f c r : is_name_start c = true -> pmisc (S f) (60 :: c :: r) = Some (60 :: c :: r).
Proof.
  intro H. apply name_start_bounds in H. cbn [pmisc].
  change (skip_ws (60 :: c :: r)) with (60 :: c :: r).
  rewrite sw_comment, sw_pi by lia. reflexivity.
Qed.

Lemma skip_decl_elem c r : is_name_start c = true -> skip_decl (60 :: c :: r) = Some (60 :: c :: r).
Proof.
  intro H. apply name_start_bounds in H. unfold skip_decl. rewrite sw_decl by lia. reflexivity.
Qed.

Theorem xparse_raw_to_xml t :
  tree_lex t -> tree_val t -> n_tail (ft_d t) = None ->
  xparse_raw (to_xml_top t) = Some (layout None 0 t []).
Proof.
  intros HL HV Ht. unfold xparse_raw, to_xml_top.
  pose proof (docs_to_xml t HL HV None 0%nat) as Hd. unfold docs in Hd. rewrite Hd. cbn [negb].
  pose proof (to_xml_len None 0%nat t) as Hlen. pose proof (need_le_core t None 0%nat) as Hneed.
  rewrite to_xml_core in *. rewrite Ht in *. cbn [otext] in *. rewrite escape_text_nil, app_nil_r in *.
  change (indent 0) with (@nil N) in *. cbn [app] in *.
  destruct t as [d kids]. destruct (tree_lex_inv _ _ HL) as [L _].
  destruct (core_head None 0%nat d kids L) as (c & r & Ec & Hc).
  set (K := core None 0%nat (FT d kids)) in *.
  rewrite Ec at 1. cbn [app]. rewrite (skip_decl_elem c _ Hc).
  rewrite (pmisc_elem _ c _ Hc). change (60 =? 60) with true. cbv iota.
  change (c :: r ++ nl) with ((c :: r) ++ nl). rewrite <- Ec.
  rewrite (node_parses_all (FT d kids) HL None 0%nat nl) by (cbn [length] in *; lia).
  reflexivity.
Qed.

(* Proofs/C17_Lang.v — C17: facts about the language L of a children spec that do not
   involve the matcher: words use only the spec's names; decomposition of a sequence word
   around one letter; every name of an [occurs_ok] spec occurs in some word. *)
From MP Require Import Common.Base.
From MP Require Import Model.Rule.
From MP Require Import Model.Insert.
From MP Require Import Spec.Lang.
From MP Require Import Spec.InsertSpec.
From MP Require Import Proofs.SpecInd.

(** * words only use declared names *)
Lemma L_names_mut mixed :
  (forall s w, L mixed s w -> forall c, In c w -> In c (names_of s)) /\
  (forall items ws, LSeq mixed items ws -> forall c, In c (concat ws) -> In c (flat_map names_of items)) /\
  (forall alts ws, LOccs mixed alts ws -> forall c, In c (concat ws) -> In c (flat_map names_of alts)) /\
  (forall alts w, LAlt mixed alts w -> forall c, In c w -> In c (flat_map names_of alts)).
Proof.
  apply (L_mutind mixed
           (fun s w _ => forall c, In c w -> In c (names_of s))
           (fun items ws _ => forall c, In c (concat ws) -> In c (flat_map names_of items))
           (fun alts ws _ => forall c, In c (concat ws) -> In c (flat_map names_of alts))
           (fun alts w _ => forall c, In c w -> In c (flat_map names_of alts))).
  - intros n lo hi k _ _ c Hc. apply repeat_spec in Hc. subst. simpl. auto.
  - intros items ws _ IH c Hc. simpl. apply IH, Hc.
  - intros alts lo hi ws _ IH _ _ c Hc. simpl. apply IH, Hc.
  - intros c [].
  - intros i items w ws _ IH1 _ IH2 c Hc. simpl in *. apply in_app_iff in Hc. apply in_or_app.
    destruct Hc as [Hc|Hc]; [left; apply IH1, Hc | right; apply IH2, Hc].
  - intros alts c [].
  - intros alts w ws _ _ IH1 _ IH2 c Hc. simpl in Hc. apply in_app_iff in Hc.
    destruct Hc as [Hc|Hc]; [apply IH1, Hc | apply IH2, Hc].
  - intros a alts w _ IH c Hc. simpl. apply in_or_app. left. apply IH, Hc.
  - intros a alts w _ IH c Hc. simpl. apply in_or_app. right. apply IH, Hc.
Qed.

Lemma L_names mixed s w : L mixed s w -> forall c, In c w -> In c (names_of s).
Proof. apply L_names_mut. Qed.
Lemma LSeq_names mixed items ws : LSeq mixed items ws -> forall c, In c (concat ws) -> In c (flat_map names_of items).
Proof. apply L_names_mut. Qed.
Lemma LOccs_names mixed alts ws : LOccs mixed alts ws -> forall c, In c (concat ws) -> In c (flat_map names_of alts).
Proof. apply L_names_mut. Qed.

Lemma Ltop_names mixed top w : Ltop mixed top w -> forall c, In c w -> In c (names_of_top top).
Proof.
  destruct top as [sp|]; simpl.
  - apply L_names.
  - intros -> c [].
Qed.

(** * list surgery *)
Lemma app_eq_app_cons {A} (a b w1 w2 : list A) (x : A) :
  a ++ b = w1 ++ x :: w2 ->
  (exists t, a = w1 ++ x :: t /\ w2 = t ++ b) \/ (exists t, w1 = a ++ t /\ b = t ++ x :: w2).
Proof.
  revert w1. induction a as [|y a IH]; intros w1 H; simpl in *.
  - right. exists w1. split; [reflexivity | exact H].
  - destruct w1 as [|z w1]; simpl in *.
    + inversion H; subst. left. exists a. split; reflexivity.
    + inversion H as [[E1 E2]]; subst. destruct (IH _ E2) as [(t & -> & ->)|(t & -> & ->)].
      * left. exists t. split; reflexivity.
      * right. exists t. split; reflexivity.
Qed.

Lemma LSeq_app mixed i1 w1 i2 w2 :
  LSeq mixed i1 w1 -> LSeq mixed i2 w2 -> LSeq mixed (i1 ++ i2) (w1 ++ w2).
Proof. intros H1 H2. induction H1; simpl; [exact H2 | constructor; assumption]. Qed.

(** a sequence word around one of its letters: the letter lies in the word of one item *)
Lemma LSeq_split mixed items ws :
  LSeq mixed items ws ->
  forall w1 x w2, concat ws = w1 ++ x :: w2 ->
    exists items1 it items2 ws1 wa wb ws2,
      items = items1 ++ it :: items2 /\
      LSeq mixed items1 ws1 /\ L mixed it (wa ++ x :: wb) /\ LSeq mixed items2 ws2 /\
      w1 = concat ws1 ++ wa /\ w2 = wb ++ concat ws2.
Proof.
  induction 1 as [|i items w ws Hi Hs IH]; intros w1 x w2 E; simpl in E.
  - destruct w1; discriminate.
  - destruct (app_eq_app_cons _ _ _ _ _ E) as [(t & -> & ->)|(t & -> & E')].
    + exists [], i, items, [], w1, t, ws. simpl. repeat split; try constructor; auto.
    + destruct (IH _ _ _ E') as (i1 & it & i2 & ws1 & wa & wb & ws2 & -> & H1 & H2 & H3 & -> & ->).
      exists (i :: i1), it, i2, (w :: ws1), wa, wb, ws2. simpl.
      repeat split; auto; [constructor; assumption | rewrite app_assoc; reflexivity].
Qed.

Lemma LAlt_In mixed alts a w : In a alts -> L mixed a w -> LAlt mixed alts w.
Proof.
  induction alts as [|b alts IH]; simpl; [tauto|].
  intros [->|H] HL; [apply LAlt_here, HL | apply LAlt_there, IH; assumption].
Qed.

Lemma LAlt_inv mixed alts w : LAlt mixed alts w -> exists al1 a al2, alts = al1 ++ a :: al2 /\ L mixed a w.
Proof.
  induction 1 as [a alts w H | a alts w H IH].
  - exists [], a, alts. split; [reflexivity | exact H].
  - destruct IH as (al1 & b & al2 & -> & Hb). exists (a :: al1), b, al2. split; [reflexivity | exact Hb].
Qed.

(** * every declared name occurs in some valid sequence *)
Lemma le_hib1_reading lo hi : le_hib1 lo hi = true -> lo <= Nat.max lo 1 /\ 1 <= Nat.max lo 1 /\ le_hi (Nat.max lo 1) hi.
Proof.
  intro H. split; [lia|]. split; [lia|]. destruct hi as [h|]; simpl in *; [apply Nat.leb_le, H | exact I].
Qed.

Lemma LSeq_inhab mixed items :
  Forall (fun i => exists w, L mixed i w) items -> exists ws, LSeq mixed items ws.
Proof.
  induction 1 as [|i items [w Hw] _ [ws Hws]].
  - exists []. constructor.
  - exists (w :: ws). constructor; assumption.
Qed.

Lemma In_concat_repeat {A} (x : A) w k : 1 <= k -> In x w -> In x (concat (repeat w k)).
Proof. destruct k as [|k]; [lia|]. intros _ H. simpl. apply in_or_app. left. exact H. Qed.

Lemma LOccs_repeat mixed alts w k : w <> [] -> LAlt mixed alts w -> LOccs mixed alts (repeat w k).
Proof. intros N H. induction k; simpl; constructor; assumption. Qed.

Lemma occurs_words mixed :
  forall sp, occurs_ok sp = true ->
    (exists w, L mixed sp w) /\
    (forall x, In x (names_of sp) -> exists w, L mixed sp w /\ In x w).
Proof.
  induction sp as [n lo hi | items IH | alts lo hi IH] using spec_ind2; intro OK; simpl in OK.
  - destruct (le_hib1_reading _ _ OK) as (H1 & H2 & H3).
    assert (HL : L mixed (El n lo hi) (repeat n (Nat.max lo 1))) by (constructor; assumption).
    split; [eexists; exact HL|].
    intros x [<-|[]]. eexists. split; [exact HL|].
    destruct (Nat.max lo 1) as [|k]; [lia | left; reflexivity].
  - rewrite forallb_forall in OK. rewrite Forall_forall in IH.
    assert (Inh : forall l, (forall i, In i l -> In i items) -> exists ws, LSeq mixed l ws).
    { intros l Hl. apply LSeq_inhab. apply Forall_forall. intros i Hi.
      apply (IH i (Hl i Hi) (OK i (Hl i Hi))). }
    split.
    + destruct (Inh items (fun _ H => H)) as [ws Hws]. eexists. constructor. exact Hws.
    + intros x Hx. simpl in Hx. apply in_flat_map in Hx as (it & Hit & Hx).
      destruct (in_split _ _ Hit) as (i1 & i2 & ->).
      destruct (proj2 (IH it Hit (OK it Hit)) x Hx) as (w & Hw & Hxw).
      destruct (Inh i1) as [ws1 H1]; [intros i Hi; apply in_or_app; left; exact Hi|].
      destruct (Inh i2) as [ws2 H2]; [intros i Hi; apply in_or_app; right; right; exact Hi|].
      exists (concat (ws1 ++ w :: ws2)). split.
      * constructor. apply LSeq_app; [exact H1 | constructor; assumption].
      * rewrite concat_app. simpl. apply in_or_app. right. apply in_or_app. left. exact Hxw.
  - apply andb_true_iff in OK as [OK O3]. apply andb_true_iff in OK as [O1 O2].
    rewrite forallb_forall in O1. rewrite Forall_forall in IH.
    destruct (le_hib1_reading _ _ O2) as (H1 & H2 & H3).
    assert (With : forall x, In x (flat_map names_of alts) ->
                     exists w, L mixed (Cho alts lo hi) w /\ In x w).
    { intros x Hx. apply in_flat_map in Hx as (a & Ha & Hx).
      destruct (proj2 (IH a Ha (O1 a Ha)) x Hx) as (w & Hw & Hxw).
      assert (N : w <> []) by (intros ->; destruct Hxw).
      exists (concat (repeat w (Nat.max lo 1))). split.
      - constructor.
        + apply LOccs_repeat; [exact N | eapply LAlt_In; eassumption].
        + right. rewrite repeat_length. exact H1.
        + rewrite repeat_length. exact H3.
      - apply In_concat_repeat; assumption. }
    split; [|exact With].
    apply orb_true_iff in O3 as [Z|NE].
    + apply Nat.eqb_eq in Z. subst lo. exists (concat []). constructor.
      * constructor.
      * right. simpl. lia.
      * simpl. destruct hi; simpl; [lia | exact I].
    + destruct (flat_map names_of alts) as [|x r] eqn:E; [discriminate|].
      destruct (With x (or_introl eq_refl)) as (w & Hw & _). exists w. exact Hw.
Qed.

Theorem allowed_iff mixed top x :
  occurs_ok_top top = true ->
  (is_allowed_child (names_of_top top) x = true <-> exists w, In x w /\ Ltop mixed top w).
Proof.
  intro OK. unfold is_allowed_child. rewrite smem_In. split.
  - destruct top as [sp|]; simpl in *; [|tauto].
    intro Hx. destruct (proj2 (occurs_words mixed sp OK) x Hx) as (w & Hw & Hxw).
    exists w. split; assumption.
  - intros (w & Hxw & Hw). eapply Ltop_names; eassumption.
Qed.

(** the direction that needs no side condition *)
Theorem occurs_only_if_allowed mixed top x w :
  Ltop mixed top w -> In x w -> is_allowed_child (names_of_top top) x = true.
Proof. intros Hw Hx. apply smem_In. eapply Ltop_names; eassumption. Qed.

(** the side condition is needed: a name whose maximum is 0 is "allowed" but occurs nowhere *)
Example occurs_ok_needed :
  let sp := Seq [El (s "a") 0 (Some 0)] in
  is_allowed_child (names_of sp) (s "a") = true /\
  ~ exists w, In (s "a") w /\ L false sp w.
Proof.
  split; [reflexivity|]. intros (w & Hin & HL).
  inversion HL as [|items ws HS|]; subst.
  inversion HS as [|i its w0 ws0 H0 HS0]; subst. inversion HS0; subst.
  inversion H0 as [n lo hi k Hlo Hhi| |]; subst. simpl in Hhi. assert (k = 0) by lia. subst.
  simpl in Hin. exact Hin.
Qed.

(* Proofs/C18_Dict.v — the code's dict comparison decides finite-map equality on dicts
   with distinct keys; facts about map_eq and single-key edits. *)
From MP Require Import Common.Base.
From MP Require Import Common.Tree.
From MP Require Import Spec.TreeEq.
From MP Require Import Model.Equal.

Lemma assoc_In_keys {V} k (d : list (pystr * V)) v : assoc k d = Some v -> In k (keys d).
Proof.
  intro H. destruct (in_dec pystr_eq_dec k (keys d)) as [I|NI]; [exact I|].
  apply assoc_None_keys in NI. congruence.
Qed.

Lemma In_keys_assoc {V} k (d : list (pystr * V)) : In k (keys d) -> exists v, assoc k d = Some v.
Proof.
  intro H. destruct (assoc k d) as [v|] eqn:E; [eauto|].
  apply assoc_None_keys in E. contradiction.
Qed.

Lemma map_eq_refl a : map_eq a a.
Proof. intro k; reflexivity. Qed.
Lemma map_eq_sym a b : map_eq a b -> map_eq b a.
Proof. intros H k; symmetry; apply H. Qed.
Lemma map_eq_trans a b c : map_eq a b -> map_eq b c -> map_eq a c.
Proof. intros H1 H2 k; rewrite H1; apply H2. Qed.

Lemma map_eq_incl a b : map_eq a b -> incl (keys a) (keys b).
Proof.
  intros H k I. apply In_keys_assoc in I as [v E]. rewrite H in E. eapply assoc_In_keys; eauto.
Qed.

Lemma keys_length {V} (d : list (pystr * V)) : length (keys d) = length d.
Proof. apply map_length. Qed.

Lemma map_eq_length a b : NoDup (keys a) -> NoDup (keys b) -> map_eq a b -> length a = length b.
Proof.
  intros Na Nb H. rewrite <- (keys_length a), <- (keys_length b).
  apply Nat.le_antisymm; apply NoDup_incl_length; auto using map_eq_incl, map_eq_sym.
Qed.

Lemma dict_cmp_true_iff a b :
  NoDup (keys a) -> NoDup (keys b) -> (dict_cmp a b = true <-> map_eq a b).
Proof.
  intros Na Nb. unfold dict_cmp. split.
  - destruct (Nat.eqb (length a) (length b)) eqn:L; simpl; [|discriminate].
    apply Nat.eqb_eq in L. intro F. rewrite forallb_forall in F.
    assert (SUB : forall k, In k (keys a) -> assoc k a = assoc k b).
    { intros k I. specialize (F k I).
      destruct (assoc k a) as [x|]; [|discriminate].
      destruct (assoc k b) as [y|]; [|discriminate].
      apply pystr_eqb_eq in F. congruence. }
    assert (INC : incl (keys a) (keys b)).
    { intros k I. pose proof (SUB k I) as E. apply In_keys_assoc in I as [v Ev].
      rewrite Ev in E. symmetry in E. eapply assoc_In_keys; eauto. }
    assert (INC' : incl (keys b) (keys a)).
    { apply NoDup_length_incl; auto. rewrite !keys_length. lia. }
    intro k. destruct (in_dec pystr_eq_dec k (keys a)) as [I|NI]; [auto|].
    assert (NI' : ~ In k (keys b)) by (intro I; apply NI, INC', I).
    apply assoc_None_keys in NI. apply assoc_None_keys in NI'. congruence.
  - intro H. rewrite (map_eq_length a b Na Nb H), Nat.eqb_refl. simpl.
    apply forallb_forall. intros k I. rewrite <- H.
    apply In_keys_assoc in I as [v ->]. apply pystr_eqb_refl.
Qed.

Lemma dict_cmp_sym a b : NoDup (keys a) -> NoDup (keys b) -> dict_cmp a b = dict_cmp b a.
Proof.
  intros Na Nb.
  destruct (dict_cmp a b) eqn:E1, (dict_cmp b a) eqn:E2; auto.
  - apply dict_cmp_true_iff in E1; auto. apply map_eq_sym in E1.
    apply (dict_cmp_true_iff b a) in E1; auto. congruence.
  - apply dict_cmp_true_iff in E2; auto. apply map_eq_sym in E2.
    apply (dict_cmp_true_iff a b) in E2; auto. congruence.
Qed.

(** single-key edits change the denoted map *)
Lemma assoc_dict_set_same {V} k (v : V) d : assoc k (dict_set k v d) = Some v.
Proof.
  induction d as [|[k' v'] r IH]; simpl.
  - rewrite pystr_eqb_refl; reflexivity.
  - destruct (pystr_eqb k k') eqn:E; simpl; rewrite E; auto.
Qed.

Lemma assoc_dict_del_same {V} k (d : list (pystr * V)) : NoDup (keys d) -> assoc k (dict_del k d) = None.
Proof.
  induction d as [|[k' v'] r IH]; simpl; intro N; [reflexivity|].
  inversion N as [|? ? NI N']; subst.
  destruct (pystr_eqb_reflect k k') as [->|NE].
  - apply assoc_None_keys. exact NI.
  - simpl. destruct (pystr_eqb_reflect k k'); [contradiction|]. auto.
Qed.

Lemma dict_edit_not_map_eq m m' : NoDup (keys m) -> dict_edit m m' -> ~ map_eq m m'.
Proof.
  intros N E H. destruct E as [m k v NE | m k NE | m k k' v NE A].
  - specialize (H k). rewrite assoc_dict_set_same in H. contradiction.
  - specialize (H k). rewrite assoc_dict_del_same in H; auto.
  - specialize (H k'). rewrite assoc_dict_set_same, A in H. discriminate.
Qed.

(* Proofs/C07_General.v — C07 for metapype_io.to_xml: from the property's preconditions
   (Spec/XmlSim.v, boolean) to the inductive side conditions of the proofs, and the theorem. *)
From MP Require Import Common.Base Common.Tree Common.XStr Spec.Xml Spec.XmlSim Model.XmlOut
  Proofs.C07_Escape Proofs.C07_Lex Proofs.C07_Parse Proofs.C07_Top Proofs.C07_Ns.
Local Open Scope N_scope.

Lemma every_inv P d kids :
  every P (FT d kids) = true -> P d = true /\ Forall (fun k => every P k = true) kids.
Proof.
  cbn [every]. intro H. apply andb_true_iff in H as [H1 H2]. split; [exact H1|].
  rewrite forallb_forall in H2. apply Forall_forall. exact H2.
Qed.

Lemma forallb_Forall {A} (f : A -> bool) l : forallb f l = true -> Forall (fun x => f x = true) l.
Proof. rewrite forallb_forall. apply Forall_forall. Qed.

Lemma lex_of_bool d : names_ok d = true -> dicts_ok d = true -> lex_ok d.
Proof.
  unfold names_ok, dicts_ok. intros Hn Hd.
  apply andb_true_iff in Hn as [Hn H5]. apply andb_true_iff in Hn as [Hn H4].
  apply andb_true_iff in Hn as [Hn H3]. apply andb_true_iff in Hn as [H1 H2].
  apply andb_true_iff in Hd as [Hd _]. apply andb_true_iff in Hd as [Hd D3]. apply andb_true_iff in Hd as [D1 D2].
  constructor.
  - exact H1.
  - destruct (n_prefix d); [exact H2 | exact I].
  - exact (forallb_Forall _ _ H3).
  - exact (forallb_Forall _ _ H4).
  - apply forallb_Forall in H5. eapply Forall_impl; [|exact H5]. intros [k v] H. cbn [fst] in *.
    destruct (split_colon k) as [[p|] l] eqn:E; [|discriminate]. exists p, l.
    apply andb_true_iff in H as [H Hx]. apply andb_true_iff in H as [Hp Hl].
    apply negb_true_iff, pystr_eqb_neq in Hx. repeat split; assumption.
  - apply nodup_keys_NoDup, D1.
  - apply nodup_keys_NoDup, D3.
  - apply nodup_keys_NoDup, D2.
Qed.

Lemma val_of_bool d : values_ok d = true -> val_ok d.
Proof.
  unfold values_ok. intro H.
  apply andb_true_iff in H as [H H5]. apply andb_true_iff in H as [H H4].
  apply andb_true_iff in H as [H H3]. apply andb_true_iff in H as [H1 H2].
  constructor; [exact H1 | exact H2 | | |]; apply forallb_Forall; assumption.
Qed.

Lemma tree_lex_of t : xml_names t -> dicts_wf t -> tree_lex t.
Proof.
  unfold xml_names, dicts_wf. induction t as [d kids IH] using ftree_ind2. intros Hn Hd.
  apply every_inv in Hn as [Hn Hnk]. apply every_inv in Hd as [Hd Hdk].
  constructor; [apply lex_of_bool; assumption|].
  rewrite Forall_forall in *. intros k Hk. apply IH; auto.
Qed.

Lemma tree_val_of t : xml_values t -> tree_val t.
Proof.
  unfold xml_values. induction t as [d kids IH] using ftree_ind2. intros Hv.
  apply every_inv in Hv as [Hv Hvk].
  constructor; [apply val_of_bool; assumption|].
  rewrite Forall_forall in *. intros k Hk. apply IH; auto.
Qed.

Lemma tree_ns_of t : prefixes_bound t -> dicts_wf t -> ns_closed t -> tree_ns t.
Proof.
  unfold prefixes_bound, dicts_wf, ns_closed. induction t as [d kids IH] using ftree_ind2. intros Hb Hd Hc.
  apply every_inv in Hb as [Hb Hbk]. apply every_inv in Hd as [Hd Hdk].
  cbn [ns_closed_b] in Hc. rewrite forallb_forall in Hc.
  constructor; [constructor; assumption|].
  rewrite Forall_forall in *. intros k Hk. specialize (Hc k Hk). apply andb_true_iff in Hc as [Hc1 Hc2].
  split.
  - intros p Hp. rewrite forallb_forall in Hc1. apply smem_In, Hc1, Hp.
  - apply IH; auto.
Qed.

Theorem C07_general_proof t :
  xml_names t -> prefixes_bound t -> xml_values t -> dicts_wf t -> ns_closed t ->
  n_tail (ft_d t) = None ->
  exists x, xparse (to_xml_top t) = Some x /\ sim [] x t.
Proof.
  intros Hn Hb Hv Hd Hc Ht.
  pose proof (tree_lex_of t Hn Hd) as HL.
  pose proof (tree_val_of t Hv) as HV.
  pose proof (tree_ns_of t Hb Hd Hc) as HN.
  exists (layout None 0%nat t []).
  destruct (node_good_all t HL HN None 0%nat [] []) as [G1 G2].
  - reflexivity.
  - rewrite Ht. reflexivity.
  - split; [|exact G2]. unfold xparse. rewrite (xparse_raw_to_xml t HL HV Ht), G1. reflexivity.
Qed.

(** well-formedness alone *)
Corollary C07_general_wf t :
  xml_names t -> prefixes_bound t -> xml_values t -> dicts_wf t -> ns_closed t ->
  n_tail (ft_d t) = None -> xparse (to_xml_top t) <> None.
Proof.
  intros. destruct (C07_general_proof t) as (x & E & _); auto. rewrite E. discriminate.
Qed.

(** the result is known exactly: the exporter's newline and indentation are merged into
    content and tails as [layout] says, nothing else changes *)
Theorem C07_general_exact t :
  xml_names t -> prefixes_bound t -> xml_values t -> dicts_wf t -> ns_closed t ->
  n_tail (ft_d t) = None ->
  xparse (to_xml_top t) = Some (layout None 0%nat t []).
Proof.
  intros Hn Hb Hv Hd Hc Ht.
  pose proof (tree_lex_of t Hn Hd) as HL.
  pose proof (tree_val_of t Hv) as HV.
  pose proof (tree_ns_of t Hb Hd Hc) as HN.
  destruct (node_good_all t HL HN None 0%nat [] []) as [G1 _].
  - reflexivity.
  - rewrite Ht. reflexivity.
  - unfold xparse. rewrite (xparse_raw_to_xml t HL HV Ht), G1. reflexivity.
Qed.

(** * Non-vacuity: a tree with prefixes, a re-declared and an added prefix, qualified
    attributes, mixed content, tails and every special character *)
Definition mk (name : pystr) (content tail prefix : option pystr) (attrs extras nsmap : list (pystr * pystr)) : nd :=
  {| n_id := []; n_name := name; n_content := content; n_tail := tail; n_prefix := prefix;
     n_attrs := attrs; n_extras := extras; n_nsmap := nsmap |}.

Definition witness : ftree :=
  FT (mk (s "eml") (Some (s " a<b>&""' ")) None (Some (s "p"))
         [(s "id", [34; 38; 60; 62; 39; 9; 10; 13; 233; 128512])]
         [(s "xml:lang", s "en"); (s "q:k", s "v")]
         [(s "p", s "urn:a&b"); (s "q", s "http://q")])
     [FT (mk (s "title") None (Some (s "tail < text")) (Some (s "q")) [] []
             [(s "p", s "urn:a&b"); (s "q", s "http://other"); (s "r", s "urn:r")]) [];
      FT (mk [233; 116; 233] (Some []) None None [(s "a", []); (s "b", s "2")] []
             [(s "q", s "http://q"); (s "p", s "urn:a&b")])
         [FT (mk (s "leaf") None None None [] [] [(s "q", s "http://q"); (s "p", s "urn:a&b")]) []]].

Example witness_in_class :
  xml_names witness /\ prefixes_bound witness /\ xml_values witness /\ dicts_wf witness
  /\ ns_closed witness /\ n_tail (ft_d witness) = None.
Proof. repeat split; vm_compute; reflexivity. Qed.

Example witness_parses : xparse (to_xml_top witness) <> None.
Proof. vm_compute. discriminate. Qed.

(* Proofs/C14_Delete.v — Node.delete_node_instance removes exactly the ids of the subtree
   (children=True) or exactly the given id (children=False), and touches nothing else. *)
From MP Require Import Common.Base Common.Tree Model.Heap Model.Registry
     Proofs.HeapInv Proofs.C12_Frame.

(** ** Python dict facts for arbitrary value types *)
Lemma gassoc_dict_set {V} (p q : pystr) (v : V) d :
  assoc q (dict_set p v d) = if pystr_eqb q p then Some v else assoc q d.
Proof.
  induction d as [|[k w] r IH]; simpl.
  - destruct (pystr_eqb q p); reflexivity.
  - destruct (pystr_eqb_reflect p k) as [->|Npk]; simpl.
    + destruct (pystr_eqb q k); reflexivity.
    + rewrite IH. destruct (pystr_eqb_reflect q k) as [->|Nqk]; [|reflexivity].
      destruct (pystr_eqb_reflect k p) as [->|_]; [contradiction | reflexivity].
Qed.

Lemma gkeys_dict_set_in {V} (p : pystr) (v : V) d q :
  In q (keys (dict_set p v d)) <-> q = p \/ In q (keys d).
Proof.
  induction d as [|[k w] r IH]; simpl.
  - split; [intros [<-|[]]; auto | intros [->|[]]; auto].
  - destruct (pystr_eqb_reflect p k) as [->|N]; simpl.
    + split; [intros [<-|H]; auto | intros [->|[<-|H]]; auto].
    + unfold keys in IH. rewrite IH. split; [intros [<-|[->|H]]; auto | intros [->|[<-|H]]; auto].
Qed.

Lemma gnodup_dict_set {V} (p : pystr) (v : V) d : NoDup (keys d) -> NoDup (keys (dict_set p v d)).
Proof.
  induction d as [|[k w] r IH]; simpl; intro H.
  - constructor; [intros [] | constructor].
  - inversion H as [|? ? Hk Hr]; subst. destruct (pystr_eqb_reflect p k) as [->|N]; simpl.
    + constructor; assumption.
    + constructor; [|apply IH, Hr]. intro Hin. apply (gkeys_dict_set_in p v r k) in Hin.
      destruct Hin as [->|Hin]; [apply N; reflexivity | apply Hk, Hin].
Qed.

Lemma gkeys_dict_del_in {V} (p : pystr) (d : list (pystr * V)) q : In q (keys (dict_del p d)) -> In q (keys d).
Proof.
  induction d as [|[k w] r IH]; simpl; [tauto|].
  destruct (pystr_eqb p k); simpl; [auto|]. intros [<-|H]; auto.
Qed.

Lemma gnodup_dict_del {V} (p : pystr) (d : list (pystr * V)) : NoDup (keys d) -> NoDup (keys (dict_del p d)).
Proof.
  induction d as [|[k w] r IH]; simpl; intro H; [constructor|].
  inversion H as [|? ? Hk Hr]; subst. destruct (pystr_eqb p k); simpl; [exact Hr|].
  constructor; [|apply IH, Hr]. intro Hin; apply Hk. eapply gkeys_dict_del_in; eauto.
Qed.

Lemma gassoc_dict_del {V} (p q : pystr) (d : list (pystr * V)) :
  NoDup (keys d) -> assoc q (dict_del p d) = if pystr_eqb q p then None else assoc q d.
Proof.
  induction d as [|[k w] r IH]; simpl; intro H.
  - destruct (pystr_eqb q p); reflexivity.
  - inversion H as [|? ? Hk Hr]; subst.
    destruct (pystr_eqb_reflect p k) as [->|Npk]; simpl.
    + destruct (pystr_eqb_reflect q k) as [->|Nqk]; [|reflexivity].
      apply assoc_None_keys; exact Hk.
    + rewrite IH by exact Hr. destruct (pystr_eqb_reflect q k) as [->|Nqk]; [|reflexivity].
      destruct (pystr_eqb_reflect k p) as [->|_]; [contradiction | reflexivity].
Qed.

(** ** registry invariants *)

(** the registry is a dict (unique keys) whose every entry  k |-> m  names an existing node
    object whose id is k *)
Definition RegInv (h : heap) : Prop :=
  NoDup (keys (store h)) /\
  forall k m, assoc k (store h) = Some m -> exists r, nget h m = Some r /\ idstr r = k.

(** ids of distinct node objects never collide *)
Definition IdInj (h : heap) : Prop :=
  forall a b ra rb, nget h a = Some ra -> nget h b = Some rb -> idstr ra = idstr rb -> a = b.

(** k is the id of a node in the subtree of n *)
Definition sub_ids (h : heap) (n : nat) (k : pystr) : Prop :=
  exists m r, desc h n m /\ nget h m = Some r /\ idstr r = k.

(** [removed S h h']: the registry of h' is that of h minus the keys in S, nothing else changed *)
Definition removed (S : pystr -> Prop) (h h' : heap) : Prop :=
  same_objs h h' /\
  forall k v, assoc k (store h') = Some v <-> (assoc k (store h) = Some v /\ ~ S k).

Lemma same_objs_desc h h' a m : same_objs h h' -> (desc h' a m <-> desc h a m).
Proof.
  intro So. assert (K : forall p, kids_of h' p = kids_of h p) by (intro p; unfold kids_of; rewrite (same_objs_nget _ _ _ So); reflexivity).
  split; induction 1 as [|p m Hd IH Hin]; try apply desc_refl; eapply desc_step; eauto; [rewrite <- K | rewrite K]; exact Hin.
Qed.

Lemma same_objs_sub_ids h h' n k : same_objs h h' -> (sub_ids h' n k <-> sub_ids h n k).
Proof.
  intro So. unfold sub_ids. split; intros (m & r & Hd & Hr & E); exists m, r; repeat split; auto.
  - apply (same_objs_desc _ _ _ _ So), Hd.
  - rewrite <- (same_objs_nget _ _ _ So). exact Hr.
  - apply (same_objs_desc _ _ _ _ So), Hd.
  - rewrite (same_objs_nget _ _ _ So). exact Hr.
Qed.

Lemma removed_RegInv S h h' : RegInv h -> removed S h h' -> NoDup (keys (store h')) -> RegInv h'.
Proof.
  intros [_ E] [So R] ND. split; [exact ND|]. intros k m Hk. apply R in Hk. destruct Hk as [Hk _].
  destruct (E k m Hk) as (r & Hr & Ei). exists r; split; [rewrite (same_objs_nget _ _ _ So); exact Hr | exact Ei].
Qed.

Lemma same_objs_IdInj h h' : same_objs h h' -> IdInj h -> IdInj h'.
Proof.
  intros So I a b ra rb Ha Hb. rewrite (same_objs_nget _ _ _ So) in Ha. rewrite (same_objs_nget _ _ _ So) in Hb. eapply I; eauto.
Qed.

Lemma del_store_removed h i h' :
  RegInv h -> del_store h i = Ok h' -> removed (fun k => k = i) h h' /\ NoDup (keys (store h')).
Proof.
  intros [ND _] R. unfold del_store in R. destruct (assoc i (store h)); [|discriminate].
  injection R as <-. split; [split; [repeat split|] | simpl; apply gnodup_dict_del, ND].
  intros k v. simpl. rewrite gassoc_dict_del by exact ND.
  destruct (pystr_eqb_reflect k i) as [->|N]; split.
  - discriminate.
  - intros [_ X]; exfalso; apply X; reflexivity.
  - intro H; split; [exact H | exact N].
  - intros [H _]; exact H.
Qed.

Lemma removed_trans (S1 S2 : pystr -> Prop) h h1 h2 :
  removed S1 h h1 -> removed S2 h1 h2 -> removed (fun k => S1 k \/ S2 k) h h2.
Proof.
  intros [So1 R1] [So2 R2]. split; [eapply same_objs_trans; eauto|].
  intros k v. rewrite R2, R1. tauto.
Qed.

Lemma removed_equiv (S S' : pystr -> Prop) h h' : (forall k, S k <-> S' k) -> removed S h h' -> removed S' h h'.
Proof.
  intros E [So R]. split; [exact So|]. intros k v. rewrite R. rewrite E. tauto.
Qed.

Lemma removed_refl h : removed (fun _ => False) h h.
Proof. split; [apply same_objs_refl|]. intros; tauto. Qed.

(** ** the recursive form *)
Lemma delete_kids_exact (rec : heap -> pystr -> res heap) h0 :
  IdInj h0 ->
  (forall h i h' n, same_objs h0 h -> RegInv h -> rec h i = Ok h' -> assoc i (store h) = Some n ->
                    removed (sub_ids h0 n) h h' /\ NoDup (keys (store h'))) ->
  (forall h i h', rec h i = Ok h' -> exists n, assoc i (store h) = Some n) ->
  forall ks h h', same_objs h0 h -> RegInv h -> delete_kids rec ks h = Ok h' ->
    removed (fun k => exists c, In c ks /\ sub_ids h0 c k) h h' /\ NoDup (keys (store h')).
Proof.
  intros Inj Hrec Hdom ks; induction ks as [|c ks IH]; intros h h' So RI R; simpl in R.
  - injection R as <-. split; [|apply RI]. eapply removed_equiv; [|apply removed_refl].
    intro k; split; [tauto | intros (c & [] & _)].
  - destruct (nget h c) as [rc|] eqn:Hc; [|discriminate].
    destruct (rec h (idstr rc)) as [h1| |] eqn:E; simpl in R; try discriminate.
    destruct (Hdom _ _ _ E) as [x Hx].
    (* the registry entry under the child's id is the child itself *)
    assert (x = c).
    { destruct RI as [_ RE]. destruct (RE _ _ Hx) as (rx & Hrx & Ex).
      rewrite (same_objs_nget _ _ _ So) in Hrx. rewrite (same_objs_nget _ _ _ So) in Hc. eapply Inj; eauto. }
    subst x. destruct (Hrec _ _ _ _ So RI E Hx) as [R1 ND1].
    assert (So1 : same_objs h0 h1) by (eapply same_objs_trans; [exact So | apply R1]).
    assert (RI1 : RegInv h1) by (eapply removed_RegInv; eauto).
    destruct (IH h1 h' So1 RI1 R) as [R2 ND2]. split; [|exact ND2].
    eapply removed_equiv; [|eapply removed_trans; eauto].
    intro k; split.
    + intros [H|(c' & Hc' & H)]; [exists c; split; [left; reflexivity | exact H] | exists c'; split; [right; exact Hc' | exact H]].
    + intros (c' & [<-|Hc'] & H); [left; exact H | right; exists c'; auto].
Qed.

Lemma delete_rec_dom : forall f h i h', delete_rec f h i = Ok h' -> exists n, assoc i (store h) = Some n.
Proof.
  intros [|f] h i h' R; simpl in R; [discriminate|]. unfold get_node_instance in R.
  destruct (assoc i (store h)) as [n|]; [eauto | discriminate].
Qed.

Theorem delete_rec_exact : forall f h0 h i h' n,
  IdInj h0 -> same_objs h0 h -> RegInv h -> delete_rec f h i = Ok h' -> assoc i (store h) = Some n ->
  removed (sub_ids h0 n) h h' /\ NoDup (keys (store h')).
Proof.
  induction f as [|f IH]; intros h0 h i h' n Inj So RI R Hi; simpl in R; [discriminate|].
  unfold get_node_instance in R. rewrite Hi in R.
  destruct (nget h n) as [r|] eqn:Hn; [|discriminate].
  destruct (delete_kids (delete_rec f) (kids r) h) as [h1| |] eqn:E; simpl in R; try discriminate.
  destruct (delete_kids_exact (delete_rec f) h0 Inj
              (fun h i h' n So RI R Hi => IH h0 h i h' n Inj So RI R Hi) (delete_rec_dom f) (kids r) h h1 So RI E) as [R1 ND1].
  assert (RI1 : RegInv h1) by (eapply removed_RegInv; eauto).
  destruct (del_store_removed h1 i h' RI1 R) as [R2 ND2]. split; [|exact ND2].
  eapply removed_equiv; [|eapply removed_trans; eauto].
  assert (Hn0 : nget h0 n = Some r) by (rewrite <- (same_objs_nget _ _ _ So); exact Hn).
  assert (Ei : idstr r = i).
  { destruct RI as [_ RE]. destruct (RE _ _ Hi) as (r' & Hr' & Er'). rewrite Hn in Hr'; injection Hr' as <-. exact Er'. }
  intro k; split.
  - intros [(c & Hc & (m & rm & Hd & Hm & Ek))| ->].
    + exists m, rm. split; [|auto]. eapply desc_trans; [|exact Hd]. apply desc_kid. rewrite (kids_of_Some _ _ _ Hn0). exact Hc.
    + exists n, r. split; [apply desc_refl | auto].
  - intros (m & rm & Hd & Hm & Ek). apply desc_kids_iff in Hd. destruct Hd as [->|(c & Hc & Hd)].
    + right. rewrite Hn0 in Hm; injection Hm as <-. congruence.
    + left. exists c. rewrite (kids_of_Some _ _ _ Hn0) in Hc. split; [exact Hc|]. exists m, rm; auto.
Qed.

(** ** Node.delete_node_instance(id, children) *)
Theorem delete_exact f h i ch h' n :
  RegInv h -> IdInj h -> delete_node_instance f h i ch = Ok h' -> assoc i (store h) = Some n ->
  removed (if ch then sub_ids h n else (fun k => k = i)) h h' /\ RegInv h'.
Proof.
  intros RI Inj R Hi. unfold delete_node_instance in R. destruct ch.
  - destruct (delete_rec_exact f h h i h' n Inj (same_objs_refl h) RI R Hi) as [Rm ND].
    split; [exact Rm | eapply removed_RegInv; eauto].
  - destruct (del_store_removed h i h' RI R) as [Rm ND]. split; [exact Rm | eapply removed_RegInv; eauto].
Qed.

(** a successful delete was given a registered id (KeyError / AttributeError otherwise) *)
Lemma delete_dom f h i ch h' : delete_node_instance f h i ch = Ok h' -> exists n, assoc i (store h) = Some n.
Proof.
  unfold delete_node_instance. destruct ch; [apply delete_rec_dom|].
  unfold del_store. destruct (assoc i (store h)) as [n|]; [eauto | discriminate].
Qed.


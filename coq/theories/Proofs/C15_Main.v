(* Proofs/C15_Main.v — the C15 statements about the MODEL of prune, obtained by transporting
   the facts about the declarative spec (C15_Spec.v) along C15_eq (C15_Eq.v), over any tables
   that satisfy C04's closure condition and map "metadata". *)
From Coq Require Import Permutation.
From MP Require Import Common.Base Common.Tree Model.Rule Model.Prune Spec.PruneSpec Spec.TreeVal.
From MP Require Import Proofs.C15_Eq Proofs.C15_Spec Proofs.C15_Closed.

Lemma NoDup_app_r {A} (a b : list A) : NoDup (a ++ b) -> NoDup b.
Proof. induction a as [|x a IH]; [trivial|]. cbn [app]. intro N. inversion N; subst. apply IH; assumption. Qed.

Section Main.
Variable orc : pystr -> oans.
Variable tb : tables.
Variable strict : bool.
Hypothesis TC : tables_closed tb = true.
Hypothesis HM : known tb METADATA = true.

Notation prune := (prune orc tb strict).
Notation keep := (keep orc tb strict).
Notation removed := (removed orc tb strict).

Lemma eq_l t :
  prune t = POk (fst (prune_spec orc tb strict t)) (spec_list (snd (prune_spec orc tb strict t)))
                (spec_rem (snd (prune_spec orc tb strict t))).
Proof.
  apply C15_eq_generic; [apply closed_node_total, TC | apply closed_known_not_unknown | exact HM].
Qed.

Lemma total_l t : exists t' l rem, prune t = POk t' l rem.
Proof. rewrite eq_l. eauto. Qed.

(** a known root stays; what is left and what is listed are the spec's [keep] and [removed] *)
Lemma known_root_l t :
  known tb (ft_name t) = true ->
  prune t = POk (Some (keep t)) (spec_list (removed t)) (spec_rem (removed t)).
Proof.
  intro K. rewrite eq_l. unfold prune_spec. rewrite K.
  destruct (pystr_eqb (ft_name t) METADATA) eqn:M; [|reflexivity].
  destruct t as [d kids]. rewrite keep_unfold, removed_unfold. unfold opaque.
  change (ft_name (FT d kids)) with (n_name d) in M. rewrite M. reflexivity.
Qed.

Lemma unknown_root_l t :
  known tb (ft_name t) = false -> prune t = POk None [(ft_id t, RUnknown)] (ids_of t).
Proof.
  intro K. rewrite eq_l. unfold prune_spec. rewrite K.
  destruct (pystr_eqb_reflect (ft_name t) METADATA) as [E|_]; [rewrite E, HM in K; discriminate|].
  cbn [fst snd spec_list spec_rem map flat_map]. rewrite app_nil_r. reflexivity.
Qed.

Section KnownRoot.
Variable t t' : ftree.
Variable l : list (pystr * reason).
Variable rem : list pystr.
Hypothesis K : known tb (ft_name t) = true.
Hypothesis P : prune t = POk (Some t') l rem.

Lemma result_is : t' = keep t /\ l = spec_list (removed t) /\ rem = spec_rem (removed t).
Proof. rewrite (known_root_l t K) in P. inversion P. repeat split. Qed.

(** postconditions *)
Lemma post_l : forall x, visited tb t' x ->
  known tb (ft_name x) = true /\
  (opaque tb (ft_name x) = false ->
   forall c, In c (ft_kids x) ->
     known tb (ft_name c) = true /\ allowed tb (ft_name x) (ft_name c) = true /\
     (strict = true -> node_valid orc tb c = true)).
Proof.
  destruct result_is as (-> & _ & _).
  assert (Q : forall x, visited tb (keep t) x -> opaque tb (ft_name x) = false ->
                        forall c, In c (ft_kids x) -> child_ok orc tb strict (ft_name x) c).
  { exact (keep_post orc tb strict t). }
  intros x V. split; [|exact (Q x V)].
  remember (keep t) as kt eqn:E.
  induction V as [r|r d kids c V IH O I]; subst r.
  - rewrite keep_name. exact K.
  - destruct (Q _ V O c I) as (Kc & _). exact Kc.
Qed.

(** kept nodes are untouched and in order *)
Lemma kept_l : embeds t' t.
Proof. destruct result_is as (-> & _ & _). apply keep_embeds. Qed.

(** the returned list names removed subtrees with a truthful reason; the removed ids are the
    ids of those subtrees; together with the ids left they are the ids of the input *)
Lemma removed_exact_l :
  exists L : list (ftree * reason),
    l = spec_list L /\ rem = spec_rem L /\
    (forall u r, In (u, r) L -> entry_ok orc tb strict t u r) /\
    Permutation (ids_of t) (ids_of t' ++ rem).
Proof.
  destruct result_is as (-> & -> & ->). exists (removed t). repeat split.
  - apply removed_reasons.
  - apply keep_ids_split.
Qed.

(** pruning the result again removes nothing *)
Lemma idem_l : prune t' = POk (Some t') [] [].
Proof.
  destruct result_is as (-> & _ & _).
  rewrite known_root_l; [|rewrite keep_name; exact K].
  rewrite keep_idem, removed_keep_nil. reflexivity.
Qed.

(** the registry loses exactly the removed nodes *)
Lemma registry_l store :
  NoDup (ids_of t) -> NoDup store -> incl (ids_of t) store ->
  store_del_all rem store = Some (filter (fun j => negb (smem j rem)) store) /\
  (forall i, In i (ids_of t) -> (In i rem <-> ~ In i (ids_of t'))).
Proof.
  intros ND NS INC. destruct removed_exact_l as (_ & _ & _ & _ & PM).
  assert (ND' : NoDup (ids_of t' ++ rem)) by (eapply Permutation_NoDup; eassumption).
  split.
  - apply store_del_all_filter; [exact NS | eapply NoDup_app_r; exact ND' |].
    intros i Hi. apply INC. eapply Permutation_in; [symmetry; exact PM|]. apply in_or_app. right; exact Hi.
  - intros i Hi. split.
    + intros Hr Hk. revert ND' Hr Hk. generalize (ids_of t'). intro a. induction a as [|x a IH]; [intros _ _ []|].
      cbn [app]. intros N Hr [->|Hk].
      * inversion N as [|? ? NI _]; subst. apply NI, in_or_app. right; exact Hr.
      * inversion N; subst. apply IH; assumption.
    + intro Hk. pose proof (Permutation_in _ PM Hi) as H. apply in_app_or in H. destruct H; [contradiction | assumption].
Qed.

End KnownRoot.
End Main.

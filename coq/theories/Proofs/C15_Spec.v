(* Proofs/C15_Spec.v — consequences of the declarative prune spec (Spec/PruneSpec.v):
   postconditions, kept nodes untouched, removed = listed, idempotence.  No reference to
   the model here. *)
From Coq Require Import Permutation.
From MP Require Import Common.Base Common.Tree Model.Rule Model.Prune Spec.PruneSpec Proofs.C15_Eq.

Section SpecFacts.
Variable orc : pystr -> oans.
Variable tb : tables.
Variable strict : bool.

Notation keep := (keep orc tb strict).
Notation removed := (removed orc tb strict).
Notation offence := (offence orc tb strict).
Notation spec_kept := (spec_kept orc tb strict).
Notation spec_l1 := (spec_l1 tb).
Notation spec_l2 := (spec_l2 orc tb strict).

(** * kept nodes are untouched and in order *)
Lemma spec_kept_sub pn kids :
  Forall (fun c => embeds (keep c) c) kids -> sub_forest (spec_kept pn kids) kids.
Proof.
  induction 1 as [|c r Hc _ IH]; [constructor|].
  rewrite spec_kept_cons. destruct (offence pn (keep c)); cbn [app].
  - apply SF_drop, IH.
  - apply SF_keep; assumption.
Qed.

Theorem keep_embeds : forall t, embeds (keep t) t.
Proof.
  apply ftree_ind'. intros d kids IH. rewrite keep_unfold.
  destruct (opaque tb (n_name d)).
  - constructor. induction kids as [|c r IHr]; [constructor|].
    inversion IH; subst. apply SF_keep; [|apply IHr; assumption].
    clear. revert c. apply ftree_ind'. intros d kids IH. constructor.
    induction IH; constructor; assumption.
  - constructor. apply spec_kept_sub, IH.
Qed.

Lemma embeds_refl : forall t, embeds t t.
Proof.
  apply ftree_ind'. intros d kids IH. constructor. induction IH; constructor; assumption.
Qed.

(** * postconditions *)
Lemma visited_inv t x :
  visited tb t x -> x = t \/ (opaque tb (ft_name t) = false /\ exists c, In c (ft_kids t) /\ visited tb c x).
Proof.
  induction 1 as [t|t d kids c V IH O I].
  - left; reflexivity.
  - destruct IH as [E|[Ot (c0 & I0 & V0)]].
    + subst t. right. split; [exact O|]. exists c. split; [exact I | constructor].
    + right. split; [exact Ot|]. exists c0. split; [exact I0|].
      eapply V_child; eassumption.
Qed.

Lemma visited_lift t c x :
  opaque tb (ft_name t) = false -> In c (ft_kids t) -> visited tb c x -> visited tb t x.
Proof.
  intros O I V. induction V as [c|c d kids c' V IH O' I'].
  - destruct t as [dt kt]. eapply V_child; [constructor | exact O | exact I].
  - eapply V_child; [apply IH; assumption | exact O' | exact I'].
Qed.

(** what pruning guarantees about a child that stays under a parent called [pn] *)
Definition child_ok (pn : pystr) (c : ftree) : Prop :=
  known tb (ft_name c) = true /\ allowed tb pn (ft_name c) = true /\
  (strict = true -> node_valid orc tb c = true).

Lemma offence_none pn c : offence pn c = None -> child_ok pn c.
Proof.
  unfold offence, child_ok.
  destruct (allowed tb pn (ft_name c)); cbn [negb]; [|discriminate].
  destruct (known tb (ft_name c)); cbn [negb]; [|discriminate].
  destruct strict; cbn [andb].
  - destruct (node_valid orc tb c); cbn [negb]; [|discriminate]. intros _. repeat split.
  - intros _. repeat split. discriminate.
Qed.

Lemma child_ok_offence pn c : child_ok pn c -> offence pn c = None.
Proof.
  unfold offence, child_ok. intros (K & A & V). rewrite A, K. cbn [negb].
  destruct strict; cbn [andb]; [rewrite (V eq_refl)|]; reflexivity.
Qed.

Lemma in_spec_kept pn kids c' :
  In c' (spec_kept pn kids) -> exists c, In c kids /\ c' = keep c /\ offence pn c' = None.
Proof.
  induction kids as [|k r IH]; [intros []|].
  rewrite spec_kept_cons. intro H. apply in_app_or in H. destruct H as [H|H].
  - destruct (offence pn (keep k)) eqn:O; [destruct H|].
    destruct H as [<-|[]]. exists k. split; [left; reflexivity|]. split; [reflexivity | exact O].
  - destruct (IH H) as (c & I & E & O). exists c. split; [right; exact I|]. split; assumption.
Qed.

(** every looked-at node of the result has only known, allowed (and, strict, valid) children *)
Theorem keep_post : forall t x,
  visited tb (keep t) x -> opaque tb (ft_name x) = false ->
  forall c, In c (ft_kids x) -> child_ok (ft_name x) c.
Proof.
  apply (ftree_ind' (fun t => forall x, visited tb (keep t) x -> opaque tb (ft_name x) = false ->
                                       forall c, In c (ft_kids x) -> child_ok (ft_name x) c)).
  intros d kids IH x V Ox c Ic.
  rewrite keep_unfold in V.
  destruct (opaque tb (n_name d)) eqn:O.
  - (* nothing below an opaque root is looked at *)
    apply visited_inv in V. destruct V as [E|[O' _]].
    + subst x. unfold ft_name in Ox. simpl in Ox. congruence.
    + unfold ft_name in O'. simpl in O'. congruence.
  - apply visited_inv in V. destruct V as [E|[_ (c0 & I0 & V0)]].
    + subst x. cbn [ft_kids ft_name ft_d] in *. unfold ft_name. cbn [ft_d].
      destruct (in_spec_kept _ _ _ Ic) as (c1 & _ & _ & Off). apply offence_none, Off.
    + cbn [ft_kids] in I0. destruct (in_spec_kept _ _ _ I0) as (c1 & I1 & E1 & _). subst c0.
      rewrite Forall_forall in IH. exact (IH c1 I1 x V0 Ox c Ic).
Qed.

(** * pruning the result removes nothing *)
Lemma spec_kept_fixed pn l :
  Forall (fun c => keep c = c /\ offence pn c = None) l -> spec_kept pn l = l.
Proof.
  induction 1 as [|c r [Hk Ho] _ IH]; [reflexivity|].
  rewrite spec_kept_cons, Hk, Ho, IH. reflexivity.
Qed.

Lemma spec_kept_forall pn kids (P : ftree -> Prop) :
  (forall c, In c kids -> offence pn (keep c) = None -> P (keep c)) -> Forall P (spec_kept pn kids).
Proof.
  intro H. apply Forall_forall. intros c' I.
  destruct (in_spec_kept _ _ _ I) as (c & Ic & -> & O). apply H; assumption.
Qed.

Theorem keep_idem : forall t, keep (keep t) = keep t.
Proof.
  apply ftree_ind'. intros d kids IH. rewrite keep_unfold.
  destruct (opaque tb (n_name d)) eqn:O.
  - rewrite keep_unfold, O. reflexivity.
  - rewrite keep_unfold, O. f_equal. apply spec_kept_fixed.
    apply spec_kept_forall. intros c I Off. split; [|exact Off].
    rewrite Forall_forall in IH. apply IH, I.
Qed.

Lemma spec_l1_fixed pn l : Forall (fun c => allowed tb pn (ft_name c) = true) l -> spec_l1 pn l = [].
Proof.
  induction 1 as [|c r H _ IH]; [reflexivity|]. rewrite spec_l1_cons, H, IH. reflexivity.
Qed.

Lemma spec_l2_fixed pn l :
  Forall (fun c => child_ok pn c /\ keep c = c /\ removed c = []) l -> spec_l2 pn l = [].
Proof.
  induction 1 as [|c r ((K & A & V) & Hk & Hr) _ IH]; [reflexivity|].
  rewrite spec_l2_cons, A, K, Hr, Hk, IH.
  destruct strict; cbn [andb]; [rewrite (V eq_refl)|]; reflexivity.
Qed.

Theorem removed_keep_nil : forall t, removed (keep t) = [].
Proof.
  apply ftree_ind'. intros d kids IH. rewrite keep_unfold.
  destruct (opaque tb (n_name d)) eqn:O.
  - rewrite removed_unfold, O. reflexivity.
  - rewrite removed_unfold, O. rewrite Forall_forall in IH.
    rewrite spec_l1_fixed, spec_l2_fixed; [reflexivity | |].
    + apply spec_kept_forall. intros c I Off. split; [apply offence_none, Off|].
      split; [apply keep_idem | apply IH, I].
    + apply spec_kept_forall. intros c I Off. apply (offence_none _ _ Off).
Qed.

(** * every input id is either kept or removed, exactly once *)
Lemma spec_rem_app' (a b : list (ftree * reason)) : spec_rem (a ++ b) = spec_rem a ++ spec_rem b.
Proof. apply flat_map_app. Qed.

Lemma perm_3 {A} (x k1 k2 a1 a2 b1 b2 : list A) :
  Permutation x (k1 ++ a1 ++ b1) -> forall y, Permutation y (k2 ++ a2 ++ b2) ->
  Permutation (x ++ y) ((k1 ++ k2) ++ (a1 ++ a2) ++ (b1 ++ b2)).
Proof.
  intros H1 y H2. rewrite H1, H2. rewrite <- !app_assoc.
  apply Permutation_app_head.
  rewrite (app_assoc a1 b1). rewrite (Permutation_app_comm (a1 ++ b1) (k2 ++ a2 ++ b2)).
  rewrite <- !app_assoc. apply Permutation_app_head.
  rewrite (app_assoc a2 b2), (Permutation_app_comm (a2 ++ b2) (a1 ++ b1)), <- !app_assoc.
  apply Permutation_app_head.
  rewrite (app_assoc b1 a2), (Permutation_app_comm b1 a2), <- !app_assoc. reflexivity.
Qed.

Lemma spec_rem_nil : spec_rem [] = [].
Proof. reflexivity. Qed.
Lemma spec_rem_one u (r : reason) : spec_rem [(u, r)] = ids_of u.
Proof. unfold spec_rem. cbn [flat_map fst]. apply app_nil_r. Qed.
Lemma fm_nil : flat_map ids_of [] = [].
Proof. reflexivity. Qed.
Lemma fm_one u : flat_map ids_of [u] = ids_of u.
Proof. cbn [flat_map]. apply app_nil_r. Qed.

Definition ids_split (t : ftree) : Prop :=
  Permutation (ids_of t) (ids_of (keep t) ++ spec_rem (removed t)).

Lemma ids_of_unfold d kids : ids_of (FT d kids) = n_id d :: flat_map ids_of kids.
Proof.
  unfold ids_of. cbn [preorder map]. f_equal. unfold ft_id.
  induction kids as [|k r IH]; [reflexivity|]. cbn [flat_map]. rewrite map_app, IH. reflexivity.
Qed.

Lemma kids_split pn kids :
  Forall ids_split kids ->
  Permutation (flat_map ids_of kids)
              (flat_map ids_of (spec_kept pn kids) ++ spec_rem (spec_l1 pn kids) ++ spec_rem (spec_l2 pn kids)).
Proof.
  induction 1 as [|c r Hc _ IH]; [reflexivity|].
  cbn [flat_map]. rewrite spec_kept_cons, spec_l1_cons, spec_l2_cons.
  rewrite flat_map_app, !spec_rem_app'.
  apply perm_3; [|exact IH]. clear IH.
  unfold ids_split in Hc. unfold PruneSpec.offence. rewrite keep_name.
  destruct (allowed tb pn (ft_name c)); cbn [negb].
  - destruct (known tb (ft_name c)); cbn [negb].
    + destruct (strict && negb (node_valid orc tb (keep c))).
      * rewrite spec_rem_app', spec_rem_one, spec_rem_nil, fm_nil. cbn [app].
        rewrite Hc. apply Permutation_app_comm.
      * rewrite app_nil_r, spec_rem_nil, fm_one. cbn [app]. exact Hc.
    + rewrite spec_rem_one, spec_rem_nil, fm_nil. reflexivity.
  - rewrite spec_rem_one, spec_rem_nil, fm_nil. cbn [app]. rewrite app_nil_r. reflexivity.
Qed.

Theorem keep_ids_split : forall t, ids_split t.
Proof.
  apply ftree_ind'. intros d kids IH. unfold ids_split.
  rewrite keep_unfold, removed_unfold.
  destruct (opaque tb (n_name d)).
  - cbn [spec_rem flat_map]. rewrite app_nil_r. reflexivity.
  - rewrite !ids_of_unfold. cbn [app]. apply perm_skip.
    rewrite spec_rem_app'. apply kids_split, IH.
Qed.

(** * the listed subtrees are removed for the stated reason *)
Definition entry_ok (t : ftree) (u : ftree) (r : reason) : Prop :=
  exists p c, visited tb t p /\ opaque tb (ft_name p) = false /\ In c (ft_kids p) /\
    match r with
    | RNotAllowed => u = c /\ allowed tb (ft_name p) (ft_name c) = false
    | RUnknown => u = c /\ allowed tb (ft_name p) (ft_name c) = true /\ known tb (ft_name c) = false
    | RInvalid => u = keep c /\ strict = true /\ allowed tb (ft_name p) (ft_name c) = true /\
                  known tb (ft_name c) = true /\ node_valid orc tb (keep c) = false
    end.

Lemma entry_ok_lift t c u r :
  opaque tb (ft_name t) = false -> In c (ft_kids t) -> entry_ok c u r -> entry_ok t u r.
Proof.
  intros O I (p & c' & V & Op & Ic & H). exists p, c'.
  split; [eapply visited_lift; eassumption|]. repeat split; assumption.
Qed.

Theorem removed_reasons : forall t u r, In (u, r) (removed t) -> entry_ok t u r.
Proof.
  apply (ftree_ind' (fun t => forall u r, In (u, r) (removed t) -> entry_ok t u r)).
  intros d kids IH u r H. rewrite removed_unfold in H.
  destruct (opaque tb (n_name d)) eqn:O; [destruct H|].
  rewrite Forall_forall in IH.
  apply in_app_or in H. destruct H as [H|H].
  - unfold C15_Eq.spec_l1 in H. apply in_flat_map in H. destruct H as (c & Ic & H).
    destruct (allowed tb (n_name d) (ft_name c)) eqn:A; [destruct H|].
    destruct H as [[= <- <-]|[]]. exists (FT d kids), c.
    split; [constructor|]. split; [exact O|]. split; [exact Ic|]. split; [reflexivity | exact A].
  - unfold C15_Eq.spec_l2 in H. apply in_flat_map in H. destruct H as (c & Ic & H).
    destruct (allowed tb (n_name d) (ft_name c)) eqn:A; [|destruct H].
    destruct (known tb (ft_name c)) eqn:K.
    + apply in_app_or in H. destruct H as [H|H].
      * apply (entry_ok_lift (FT d kids) c); [exact O | exact Ic | apply IH; assumption].
      * destruct (strict && negb (node_valid orc tb (keep c))) eqn:S; [|destruct H].
        destruct H as [[= <- <-]|[]]. apply andb_true_iff in S. destruct S as [S1 S2].
        apply negb_true_iff in S2.
        exists (FT d kids), c. split; [constructor|]. split; [exact O|]. split; [exact Ic|].
        repeat split; assumption.
    + destruct H as [[= <- <-]|[]]. exists (FT d kids), c.
      split; [constructor|]. split; [exact O|]. split; [exact Ic|]. repeat split; assumption.
Qed.

End SpecFacts.

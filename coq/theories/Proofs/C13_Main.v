(* Proofs/C13_Main.v — attach refines its specification; every operation refines the abstract
   step on every node and keeps the invariants; lifting over histories; locality; the
   invariants hold on forests of freshly created nodes. *)
From MP Require Import Common.Base Common.Tree Model.Heap Model.Namespace Spec.NsSpec
     Proofs.HeapInv Proofs.DictFacts Proofs.C13_Walk Proofs.C13_Refine Proofs.C13_Attach.

Lemma mfun_same dp dc ps d : (forall q, In q ps -> assoc q dc <> None) -> mfun dp dc ps d = d.
Proof.
  revert d; induction ps as [|q ps IH]; intros d H; [reflexivity|].
  rewrite mfun_cons. unfold mstep. destruct (assoc q dc) eqn:E.
  - apply IH. intros q' Hq'; apply H; right; exact Hq'.
  - exfalso; apply (H q); [left; reflexivity | exact E].
Qed.

(** `child.nsmap = self.nsmap` when both dicts have the same items *)
Lemma share_frame P h k c rc L :
  tree_at h k c -> alloc_ok h -> nget h c = Some rc -> L < next_loc h -> dget h L = dget h (ns_loc rc) ->
  ns_frame P (fun d => d) (desc h c) h (nset h c (set_ns rc L)).
Proof.
  intros Ht A Hc HL E. constructor; simpl; auto.
  - intro m. destruct (desc_dec _ _ _ Ht m) as [Y|N].
    + right; split; [exact Y|]. destruct (Nat.eq_dec m c) as [->|Ne].
      * exists rc, L. rewrite nget_nset, Nat.eqb_refl, dget_nset. auto.
      * destruct (tree_at_desc _ _ _ Ht _ Y) as [r Hr]. exists r, (ns_loc r).
        rewrite set_ns_same, nget_nset. apply Nat.eqb_neq in Ne; rewrite Ne.
        repeat split; auto. eapply A; eauto.
    + left; split; [exact N|]. rewrite nget_nset.
      destruct (Nat.eqb m c) eqn:E1; [|reflexivity]. apply Nat.eqb_eq in E1; subst m. exfalso; apply N, desc_refl.
  - eapply fuel_of_nset; eauto.
Qed.

Theorem attach_refines h par c idx :
  Inv h -> apre (AAttach par c) (abs h) ->
  exists h', exec_nsop h (Attach par c idx) = Ok h' /\ Inv h' /\ attach_spec par c (abs h) (abs h').
Proof.
  intros [Fo I] ([rp Hpar] & [rc Hc] & Hroot & Hnd). simpl in Hroot, Hnd.
  rewrite (parent_of_Some _ _ _ Hc) in Hroot.
  assert (Nd : ~ desc h c par) by (intro H; apply Hnd, adesc_desc, H).
  simpl. unfold add_child. rewrite Hpar.
  set (ks := match idx with None => kids rp ++ [c] | Some i => py_insert i c (kids rp) end).
  assert (Hks : exists l1 l2, kids rp = l1 ++ l2 /\ ks = l1 ++ c :: l2).
  { unfold ks. destruct idx as [i|]; [apply py_insert_split|].
    exists (kids rp), []; split; [rewrite app_nil_r; reflexivity | reflexivity]. }
  rewrite (link_c_rec h par c rp rc ks Hc Nd).
  fold (link h par c rp rc ks). set (h2 := link h par c rp rc ks).
  pose proof (Forest_link h par c rp rc ks Fo Hpar Hc Hroot Nd Hks) as Fo2.
  pose proof (NsInv_link h par c rp rc ks Hpar Hc I) as I2.
  pose proof (c_ne_par h par c Nd) as Ncp.
  pose proof (desc_link_iff h par c rp rc ks Hc Nd) as DL.
  pose proof (vis_of_link h par c rp rc ks Hpar Hc) as VL.
  pose proof (alive_link h par c rp rc ks Hpar Hc) as AL.
  pose proof (kids_of_link h par c rp rc ks Hc Nd) as KL.
  pose proof (parent_of_link h par c rp rc ks Hpar) as PL.
  pose proof (ns_loc_link h par c rp rc ks Hpar Hc) as NLL.
  fold h2 in DL, VL, AL, KL, PL, NLL.
  assert (Hp2 : nget h2 par = Some (set_kids rp ks)).
  { unfold h2. rewrite nget_link. apply Nat.eqb_neq in Ncp. rewrite Nat.eqb_sym in Ncp.
    rewrite Ncp, Nat.eqb_refl. reflexivity. }
  assert (Hc2 : nget h2 c = Some (set_parent rc (Some par))).
  { unfold h2. rewrite nget_link. rewrite Nat.eqb_refl. reflexivity. }
  rewrite Hp2, Hc2.
  change (ns_loc (set_kids rp ks)) with (ns_loc rp). change (ns_loc (set_parent rc (Some par))) with (ns_loc rc).
  set (dp := dget h2 (ns_loc rp)). set (dc := dget h2 (ns_loc rc)).
  assert (Edp : dp = dget h (ns_loc rp)) by reflexivity.
  assert (Edc : dc = dget h (ns_loc rc)) by reflexivity.
  assert (Ht2 : tree_at h2 (fuel_of h) c).
  { rewrite <- (fuel_of_link h par c rp rc ks Hpar Hc Nd). apply fuel_ok; [exact Fo2 | eexists; exact Hc2]. }
  assert (Nd2 : ~ desc h2 c par).
  { intro H. apply Nd, DL, H. }
  (* both branches are the same frame on the child's subtree *)
  assert (Step : exists h',
     (if dict_eqb dp dc then Ok (nset h2 c (set_ns (set_parent rc (Some par)) (ns_loc rp)))
      else merge_loop (fuel_of h) par c (keys dp) h2) = Ok h' /\
     ns_frame wf_dict (mfun dp dc (keys dp)) (desc h2 c) h2 h').
  { destruct (dict_eqb dp dc) eqn:E.
    - apply dict_eqb_eq in E. eexists; split; [reflexivity|].
      eapply ns_frame_ext; [|eapply share_frame; eauto].
      + intro d. symmetry. apply mfun_same. intros q Hq H. rewrite <- E in H.
        apply assoc_None_keys in H. contradiction.
      + exact (ns_alloc _ I2).
      + exact (ns_alloc _ I2 _ _ Hp2).
    - apply (merge_loop_ok (fuel_of h) par c dp (keys dp) h2 (set_parent rc (Some par))); auto.
      + exists (set_kids rp ks); auto.
      + apply (ns_wf _ I2).
      + intros q Hq H. apply assoc_None_keys in H. contradiction. }
  destruct Step as (h' & R & F). exists h'; split; [exact R|].
  pose proof (ns_frame_shape _ _ _ _ _ F) as Sh.
  pose proof (shape_eq_same_shape _ _ Sh) as (SA & SK & SP). simpl in SA, SK, SP.
  split.
  { eapply frame_Inv; [|exact F|split; assumption]. intros d W; apply mfun_wf, W. }
  assert (Vout : forall m q, ~ desc h c m -> vis_of h' m q = vis_of h m q).
  { intros m q N. rewrite (frame_vis_out _ _ _ _ _ m q (ns_alloc _ I2) F).
    - apply VL.
    - intro H; apply N, DL, H. }
  assert (Vin : forall m q, desc h c m ->
                exists r, nget h m = Some r /\ vis_of h' m q = assoc q (mfun dp dc (keys dp) (dget h (ns_loc r)))).
  { intros m q Y. assert (Y2 : desc h2 c m) by (apply DL, Y).
    destruct (frame_vis_in _ _ _ _ _ m q F Y2) as (r2 & Hr2 & E).
    destruct (NLL m r2 Hr2) as (r & Hr & EL).
    exists r; split; [exact Hr|]. rewrite E, EL. reflexivity. }
  assert (Vpar : forall q, vis_of h par q = assoc q dp) by (intro q; unfold vis_of; rewrite Hpar; reflexivity).
  assert (Vc : forall q, vis_of h c q = assoc q dc) by (intro q; unfold vis_of; rewrite Hc; reflexivity).
  repeat split; simpl.
  - intro H. apply SA in H. apply AL, H.
  - intro H. apply SA. apply AL, H.
  - destruct Hks as (l1 & l2 & E1 & E2). exists l1, l2. rewrite (kids_of_Some _ _ _ Hpar), SK.
    rewrite KL, Nat.eqb_refl. auto.
  - intros m Nm. rewrite SK, KL. apply Nat.eqb_neq in Nm; rewrite Nm. reflexivity.
  - rewrite SP, PL, Nat.eqb_refl. reflexivity.
  - intros m Nm. rewrite SP, PL. apply Nat.eqb_neq in Nm; rewrite Nm. reflexivity.
  - intros m q u Hd Hp Hcq. apply adesc_desc in Hd. destruct (Vin m q Hd) as (r & Hr & E). rewrite E.
    rewrite Vpar in Hp. rewrite Vc in Hcq. apply assoc_mfun_set; auto.
    apply assoc_Some_In in Hp. apply (in_map fst) in Hp. exact Hp.
  - intros m q Hor.
    assert (Dec : desc h c m \/ ~ desc h c m).
    { destruct (fr_nodes _ _ _ _ _ F m) as [[N _]|[Y _]].
      - right; intro H; apply N, DL, H.
      - left. apply DL, Y. }
    destruct Dec as [Y|N]; [|apply Vout, N].
    destruct (Vin m q Y) as (r & Hr & E). rewrite E. unfold vis_of at 1. rewrite Hr.
    apply assoc_mfun_keep. destruct Hor as [N|[Hp|Hcq]].
    + exfalso; apply N, adesc_desc, Y.
    + right. rewrite <- Vpar. exact Hp.
    + left. rewrite <- Vc. exact Hcq.
Qed.

(** ** every operation of the alphabet *)
Theorem step_refines h o :
  Inv h -> apre (abs_op o) (abs h) ->
  exists h', exec_nsop h o = Ok h' /\ Inv h' /\ step_spec (abs_op o) (abs h) (abs h').
Proof.
  intros I Pre. destruct o as [par c idx|n p u|n p].
  - apply attach_refines; assumption.
  - destruct (declare_refines h n p u I Pre) as (h' & R & I' & _ & S). eauto.
  - destruct (undeclare_refines h n p I Pre) as (h' & R & I' & _ & S). eauto.
Qed.

(** histories: the precondition of each operation is evaluated in the state it is applied to *)
Fixpoint history_ok (h : heap) (ops : list nsop) : Prop :=
  match ops with
  | [] => True
  | o :: r => apre (abs_op o) (abs h) /\ forall h', exec_nsop h o = Ok h' -> history_ok h' r
  end.

Fixpoint steps_refine (h : heap) (ops : list nsop) : Prop :=
  match ops with
  | [] => True
  | o :: r => exists h', exec_nsop h o = Ok h' /\ Inv h' /\
                         step_spec (abs_op o) (abs h) (abs h') /\ steps_refine h' r
  end.

Theorem history_refines : forall ops h, Inv h -> history_ok h ops -> steps_refine h ops.
Proof.
  induction ops as [|o r IH]; intros h I H; simpl; [exact Logic.I|].
  destruct H as [Pre Hr]. destruct (step_refines h o I Pre) as (h' & R & I' & S).
  exists h'. split; [exact R|]. split; [exact I'|]. split; [exact S|]. apply IH; [exact I' | apply Hr, R].
Qed.

(** locality, read off the specification *)
Theorem step_local h o h' m q :
  Inv h -> apre (abs_op o) (abs h) -> exec_nsop h o = Ok h' ->
  ~ desc h (target (abs_op o)) m -> vis_of h' m q = vis_of h m q.
Proof.
  intros I Pre R N. destruct (step_refines h o I Pre) as (h'' & R' & _ & S).
  rewrite R in R'; injection R' as <-.
  apply (spec_local (abs_op o) (abs h) (abs h') m q S). intro H; apply N, adesc_desc, H.
Qed.

(** ** the invariants hold on forests of freshly created nodes *)
Definition ids_ok (h : heap) : Prop := forall m, alive h m -> m < next_id h.

Lemma create_node_get h name ids cont m :
  nget (fst (create_node h name ids cont)) m =
  if Nat.eqb m (next_id h)
  then Some (mkN name cont None None (next_loc h) (S (S (next_loc h))) (S (next_loc h)) [] None ids)
  else nget h m.
Proof. unfold create_node, alloc, new_node, set_store, nget; simpl. apply nlookup_nupdate. Qed.

Lemma create_node_dget h name ids cont l :
  dget (fst (create_node h name ids cont)) l =
  if Nat.eqb l (next_loc h) then [] else if Nat.eqb l (S (next_loc h)) then []
  else if Nat.eqb l (S (S (next_loc h))) then [] else dget h l.
Proof.
  unfold create_node, alloc, new_node, set_store, dget; simpl. rewrite !nlookup_nupdate.
  destruct (Nat.eqb l (S (S (next_loc h)))), (Nat.eqb l (S (next_loc h))), (Nat.eqb l (next_loc h)); reflexivity.
Qed.

Lemma create_preserves h name ids cont :
  Inv h -> ids_ok h ->
  Inv (fst (create_node h name ids cont)) /\ ids_ok (fst (create_node h name ids cont)).
Proof.
  intros [Fo I] Ids. set (h' := fst (create_node h name ids cont)).
  assert (Old : forall m r, nget h m = Some r -> nget h' m = Some r).
  { intros m r Hm. unfold h'. rewrite create_node_get.
    destruct (Nat.eqb m (next_id h)) eqn:E; [|exact Hm].
    apply Nat.eqb_eq in E. assert (m < next_id h) by (apply Ids; eexists; eauto). lia. }
  assert (Cases : forall m r', nget h' m = Some r' ->
            (m = next_id h /\ kids r' = [] /\ parent r' = None /\ ns_loc r' = S (next_loc h)) \/ nget h m = Some r').
  { intros m r' Hm. unfold h' in Hm. rewrite create_node_get in Hm.
    destruct (Nat.eqb m (next_id h)) eqn:E; [|right; exact Hm].
    apply Nat.eqb_eq in E. injection Hm as <-. left; simpl; auto. }
  assert (Dep : forall m k, depth h m k -> depth h' m k).
  { induction 1 as [m r Hm Hp | m r p k Hm Hp Hd IH]; [eapply depth_root | eapply depth_step]; eauto. }
  assert (NL : next_loc h' = S (S (S (next_loc h)))) by reflexivity.
  repeat split.
  - intros n r' c Hn Hc. destruct (Cases _ _ Hn) as [(_ & K & _)|Hn0]; [rewrite K in Hc; destruct Hc|].
    destruct (f_kid_parent _ Fo _ _ _ Hn0 Hc) as [rc [Hrc Hp]]. exists rc; split; [apply Old, Hrc | exact Hp].
  - intros c rc' p Hc Hp. destruct (Cases _ _ Hc) as [(_ & _ & K & _)|Hc0]; [congruence|].
    destruct (f_parent_kid _ Fo _ _ _ Hc0 Hp) as [rp [Hrp Hin]]. exists rp; split; [apply Old, Hrp | exact Hin].
  - intros n r' Hn. destruct (Cases _ _ Hn) as [(_ & K & _)|Hn0]; [rewrite K; constructor | eapply f_kids_nodup; eauto].
  - intros n r' Hn. destruct (Cases _ _ Hn) as [(_ & _ & K & _)|Hn0].
    + exists 0. eapply depth_root; eauto.
    + destruct (f_rooted _ Fo _ _ Hn0) as [k Hk]. exists k; apply Dep, Hk.
  - intros m r' Hm. rewrite NL. destruct (Cases _ _ Hm) as [(_ & _ & _ & K)|Hm0]; [lia|].
    pose proof (ns_alloc _ I _ _ Hm0). lia.
  - intro l. unfold h'. rewrite create_node_dget.
    destruct (Nat.eqb l (next_loc h)); [apply wf_dict_nil|].
    destruct (Nat.eqb l (S (next_loc h))); [apply wf_dict_nil|].
    destruct (Nat.eqb l (S (S (next_loc h)))); [apply wf_dict_nil | apply (ns_wf _ I)].
  - intros m [r' Hm]. change (next_id h') with (S (next_id h)).
    destruct (Cases _ _ Hm) as [(-> & _)|Hm0]; [lia|].
    assert (m < next_id h) by (apply Ids; eexists; eauto). lia.
Qed.

Lemma Inv_empty : Inv empty_heap /\ ids_ok empty_heap.
Proof.
  split; [split|].
  - constructor; intros; match goal with H : nget empty_heap _ = Some _ |- _ => discriminate H end.
  - constructor; [intros m r H; discriminate H | intro l; apply wf_dict_nil].
  - intros m [r H]; discriminate H.
Qed.

Fixpoint create_many (names : list (pystr * pystr)) (h : heap) : heap :=
  match names with
  | [] => h
  | (nm, i) :: r => create_many r (fst (create_node h nm i None))
  end.

Lemma create_many_Inv names : forall h, Inv h -> ids_ok h -> Inv (create_many names h) /\ ids_ok (create_many names h).
Proof.
  induction names as [|[nm i] r IH]; intros h I Ids; simpl; [auto|].
  destruct (create_preserves h nm i None I Ids) as [I' Ids']. apply IH; assumption.
Qed.

(** running a list of operations *)
Fixpoint run_nsops (h : heap) (ops : list nsop) : res heap :=
  match ops with
  | [] => Ok h
  | o :: r => bind (exec_nsop h o) (fun h' => run_nsops h' r)
  end.

Lemma C13_witness_proof :
  let h0 := create_many [(s "r", s "0"); (s "k", s "1"); (s "k", s "2")] empty_heap in
  match run_nsops h0 [Attach 0 1 None; Attach 0 2 None; Declare 0 (s "p") (s "u1"); Declare 1 (s "p") (s "u2")] with
  | Ok h => (vis_of h 0 (s "p"), vis_of h 1 (s "p"), vis_of h 2 (s "p")) = (Some (s "u1"), Some (s "u2"), Some (s "u1"))
  | _ => False
  end.
Proof. vm_compute. reflexivity. Qed.

(** a concrete history that meets the preconditions of [history_refines] *)
Definition h0_example : heap := create_many [(s "r", s "0"); (s "k", s "1")] empty_heap.

Lemma C13_nonvacuous_proof :
  Inv h0_example /\ history_ok h0_example [Attach 0 1 None; Declare 1 (s "p") (s "u")].
Proof.
  split.
  - exact (proj1 (create_many_Inv _ empty_heap (proj1 Inv_empty) (proj2 Inv_empty))).
  - simpl. split.
    + repeat split; try (eexists; vm_compute; reflexivity).
      intro H. assert (G : forall m, adesc (abs h0_example) 1 m -> m = 1).
      { induction 1 as [|p m Hd IH Hin]; [reflexivity|]. subst p. vm_compute in Hin. destruct Hin. }
      specialize (G 0 H). discriminate G.
    + intros h' E. vm_compute in E. injection E as <-. split; [|intros; exact Logic.I].
      eexists; vm_compute; reflexivity.
Qed.

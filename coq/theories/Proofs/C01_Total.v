(* Proofs/C01_Total.v — structure of the children matcher, for ALL specs (no side condition):
   the loops of m_spec as stand-alone functions, termination (the fuel always suffices:
   every while iteration consumes at least one name), the cursor only moves forward,
   errors are only appended and belong to the min/max family. *)
From MP Require Import Common.Base Model.Rule Spec.Lang.

(** * Induction principle for the nested type [spec] *)
Section SpecInd.
  Variable P : spec -> Prop.
  Hypothesis HEl : forall n lo hi, P (El n lo hi).
  Hypothesis HSeq : forall items, Forall P items -> P (Seq items).
  Hypothesis HCho : forall alts lo hi, Forall P alts -> P (Cho alts lo hi).
  Fixpoint spec_ind' (sp : spec) : P sp :=
    match sp with
    | El n lo hi => HEl n lo hi
    | Seq items =>
        HSeq items ((fix go (l : list spec) : Forall P l :=
                       match l with
                       | [] => Forall_nil P
                       | i :: r => Forall_cons i (spec_ind' i) (go r)
                       end) items)
    | Cho alts lo hi =>
        HCho alts lo hi ((fix go (l : list spec) : Forall P l :=
                            match l with
                            | [] => Forall_nil P
                            | i :: r => Forall_cons i (spec_ind' i) (go r)
                            end) alts)
    end.
End SpecInd.

(** * The loops of [m_spec] as stand-alone functions *)
Definition seq_of (f : spec -> mstate -> option mstate) :=
  fix go (l : list spec) (st : mstate) : option mstate :=
    match l with
    | [] => Some st
    | i :: r => match f i st with Some st' => go r st' | None => None end
    end.

Definition pass_of (f : spec -> mstate -> option mstate) :=
  fix go (l : list spec) (st : mstate) (occ : nat) : option (mstate * nat) :=
    match l with
    | [] => Some (st, occ)
    | a :: r =>
        if is_nil (fst st) then Some (st, occ)
        else if head_in (fst st) (names_of a) then
               match f a st with
               | Some st' => go r st' (S occ)
               | None => None
               end
             else go r st occ
    end.

Definition loop_of (pass : mstate -> nat -> option (mstate * nat)) (ns : list pystr) :=
  fix loop (fuel : nat) (st : mstate) (occ : nat) : option (mstate * nat) :=
    match fuel with
    | O => None
    | S f =>
        if head_in (fst st) ns then
          match pass st occ with
          | Some (st', occ') => loop f st' occ'
          | None => None
          end
        else Some (st, occ)
    end.

Definition cho_end (mixed : bool) (lo : nat) (hi : option nat) (r : option (mstate * nat)) : option mstate :=
  match r with
  | None => None
  | Some (st', occ) =>
      let e1 := if hi_exceeded hi occ then [EMaxChoice] else [] in
      let e2 := if Nat.ltb occ lo && negb mixed then [EMinChoice] else [] in
      Some (fst st', snd st' ++ e1 ++ e2)
  end.

Definition alt_names (alts : list spec) : list pystr := flat_map names_of alts.

Lemma alt_names_cons a r : alt_names (a :: r) = names_of a ++ alt_names r.
Proof. reflexivity. Qed.

Lemma m_spec_El mixed n lo hi lm st :
  m_spec mixed (El n lo hi) lm st = Some (rule_child n lo hi lm 0 (fst st) (snd st)).
Proof. reflexivity. Qed.

Lemma m_spec_Seq mixed items lm st :
  m_spec mixed (Seq items) lm st = seq_of (fun i => m_spec mixed i false) items st.
Proof. reflexivity. Qed.

Lemma m_spec_Cho mixed alts lo hi lm st :
  m_spec mixed (Cho alts lo hi) lm st =
  cho_end mixed lo hi
    (loop_of (pass_of (fun a => m_spec mixed a true) alts) (alt_names alts)
             (S (length (fst st))) st 0).
Proof. reflexivity. Qed.

(** * Small facts *)
Lemma smem_app x a b : smem x (a ++ b) = smem x a || smem x b.
Proof.
  unfold smem. induction a as [|y a IH]; simpl; [reflexivity|].
  rewrite IH. apply orb_assoc.
Qed.

Lemma head_in_app w a b : head_in w (a ++ b) = head_in w a || head_in w b.
Proof. destruct w as [|x w]; simpl; [reflexivity | apply smem_app]. Qed.

Lemma head_in_nil_l ns : head_in [] ns = false.
Proof. reflexivity. Qed.

Lemma head_in_nil_r {w} : head_in w [] = false.
Proof. destruct w; reflexivity. Qed.

Lemma app_eq_self {A} (e x : list A) : e ++ x = e -> x = [].
Proof.
  intro H. apply (app_inv_head e). rewrite app_nil_r. exact H.
Qed.

(** the error family of the children matcher proper *)
Definition child_fam (e : verr) : Prop :=
  match e with
  | EMaxChoice | EMinChoice | EMaxOcc | EMinOcc _ => True
  | _ => False
  end.

(** * [_validate_rule_child] *)
Lemma head_in_single x w n : head_in (x :: w) [n] = pystr_eqb x n.
Proof. simpl. unfold smem. simpl. apply orb_false_r. Qed.

Lemma rule_child_shape n lo hi lm : forall w occ e,
  exists k rest new,
    rule_child n lo hi lm occ w e = (rest, e ++ new) /\
    w = repeat n k ++ rest /\
    (head_in w [n] = true -> 1 <= k) /\
    (head_in w [n] = false -> k = 0) /\
    Forall child_fam new /\
    (new = [] -> le_hi occ hi -> le_hi lo hi -> lo <= occ + k /\ le_hi (occ + k) hi).
Proof.
  induction w as [|x w IH]; intros occ e.
  - exists 0, [], (if Nat.ltb occ lo then [EMinOcc n] else []). simpl.
    destruct (Nat.ltb occ lo) eqn:E; rewrite ?app_nil_r;
      repeat split; try discriminate; try reflexivity; try (repeat constructor; fail).
    + apply Nat.ltb_ge in E. lia.
    + rewrite Nat.add_0_r. assumption.
  - rewrite head_in_single. cbn [rule_child].
    destruct (pystr_eqb_reflect n x) as [<-|NE].
    + rewrite pystr_eqb_refl.
      destruct (lm && hi_reached hi (S occ)) eqn:R.
      * exists 1, w, []. rewrite app_nil_r.
        assert (exists h, hi = Some h /\ S occ = h) as (h & -> & Hh).
        { apply andb_true_iff in R as [_ R]. destruct hi as [h|]; unfold hi_reached in R; [|discriminate].
          apply Nat.eqb_eq in R. eauto. }
        simpl. repeat split; try reflexivity; try lia; try constructor; try discriminate.
      * destruct (IH (S occ) (if hi_exceeded hi (S occ) then e ++ [EMaxOcc] else e))
          as (k & rest & new & E & Hw & _ & _ & Hf & Hs).
        exists (S k), rest, ((if hi_exceeded hi (S occ) then [EMaxOcc] else []) ++ new).
        rewrite E.
        destruct (hi_exceeded hi (S occ)) eqn:X.
        -- repeat split; try lia; try discriminate.
           ++ rewrite <- app_assoc. reflexivity.
           ++ simpl. rewrite Hw at 1. reflexivity.
           ++ constructor; [exact I | exact Hf].
        -- assert (le_hi (S occ) hi) as L1.
           { destruct hi as [h|]; simpl in *; [|exact I]. apply Nat.ltb_ge in X. lia. }
           repeat split; try lia; try discriminate.
           ++ simpl. rewrite Hw at 1. reflexivity.
           ++ exact Hf.
           ++ simpl in H. destruct (Hs H L1 H1) as [A B]. lia.
           ++ simpl in H. destruct (Hs H L1 H1) as [A B].
              replace (occ + S k) with (S occ + k) by lia. exact B.
    + assert (pystr_eqb x n = false) as NE' by (apply pystr_eqb_neq; congruence).
      rewrite NE'.
      exists 0, (x :: w), (if Nat.ltb occ lo then [EMinOcc n] else []).
      destruct (Nat.ltb occ lo) eqn:E; rewrite ?app_nil_r;
        repeat split; try discriminate; try reflexivity; try (repeat constructor; fail).
      * apply Nat.ltb_ge in E. lia.
      * rewrite Nat.add_0_r. assumption.
Qed.

(** * Shape of one matcher step: consumes a prefix, appends family errors, moves iff the
      next name belongs to the spec *)
Definition step_ok (f : mstate -> option mstate) (ns : list pystr) : Prop :=
  forall w e, exists u rest new,
    f (w, e) = Some (rest, e ++ new) /\
    w = u ++ rest /\
    (head_in w ns = true -> u <> []) /\
    (head_in w ns = false -> u = []) /\
    Forall child_fam new.

Lemma seq_of_shape f : forall items,
  Forall (fun i => step_ok (f i) (names_of i)) items ->
  step_ok (seq_of f items) (alt_names items).
Proof.
  induction items as [|i r IH]; intros HF w e.
  - exists [], w, []. simpl. rewrite app_nil_r. unfold alt_names; simpl. rewrite head_in_nil_r.
    repeat split; try discriminate; constructor.
  - inversion HF as [|? ? Hi Hr]; subst. specialize (IH Hr).
    destruct (Hi w e) as (u1 & rest1 & new1 & E1 & W1 & P1 & Q1 & F1).
    destruct (IH rest1 (e ++ new1)) as (u2 & rest2 & new2 & E2 & W2 & P2 & Q2 & F2).
    exists (u1 ++ u2), rest2, (new1 ++ new2). simpl. rewrite E1, E2.
    repeat split.
    + rewrite app_assoc. reflexivity.
    + rewrite W1, W2 at 1. rewrite app_assoc. reflexivity.
    + rewrite head_in_app. intros H X.
      apply app_eq_nil in X as [X1 X2]. subst u1 u2. simpl in *. subst rest1.
      destruct (head_in w (names_of i)) eqn:Hd.
      * apply P1; reflexivity.
      * simpl in H. subst w. apply P2; [exact H | reflexivity].
    + rewrite head_in_app. intros H.
      apply orb_false_iff in H as [H1 H2].
      rewrite (Q1 H1) in *. simpl in *. subst rest1. rewrite (Q2 H2). reflexivity.
    + apply Forall_app; split; assumption.
Qed.

(** one pass over the alternatives *)
Definition pass_ok (p : mstate -> nat -> option (mstate * nat)) (ns : list pystr) : Prop :=
  forall w e occ, exists u rest new c,
    p (w, e) occ = Some ((rest, e ++ new), occ + c) /\
    w = u ++ rest /\
    (head_in w ns = true -> u <> [] /\ 1 <= c) /\
    (head_in w ns = false -> u = [] /\ c = 0) /\
    Forall child_fam new.

Lemma pass_of_shape f : forall alts,
  Forall (fun a => step_ok (f a) (names_of a)) alts ->
  pass_ok (pass_of f alts) (alt_names alts).
Proof.
  induction alts as [|a r IH]; intros HF w e occ.
  - exists [], w, [], 0. simpl. rewrite app_nil_r, Nat.add_0_r. unfold alt_names; simpl.
    rewrite head_in_nil_r. repeat split; try discriminate; constructor.
  - inversion HF as [|? ? Ha Hr]; subst. specialize (IH Hr).
    simpl. destruct w as [|x w].
    + exists [], [], [], 0. simpl. rewrite app_nil_r, Nat.add_0_r.
      repeat split; try discriminate; constructor.
    + simpl is_nil. cbv iota.
      destruct (head_in (x :: w) (names_of a)) eqn:Hd.
      * destruct (Ha (x :: w) e) as (u1 & rest1 & new1 & E1 & W1 & P1 & Q1 & F1).
        destruct (IH rest1 (e ++ new1) (S occ)) as (u2 & rest2 & new2 & c2 & E2 & W2 & P2 & Q2 & F2).
        exists (u1 ++ u2), rest2, (new1 ++ new2), (S c2).
        rewrite E1, E2. rewrite head_in_app, Hd. cbn [orb].
        split; [rewrite app_assoc; replace (S occ + c2) with (occ + S c2) by lia; reflexivity|].
        split; [rewrite W1 at 1; rewrite W2 at 1; rewrite app_assoc; reflexivity|].
        split; [intros _; split; [|lia]|].
        { intro X. apply app_eq_nil in X as [X _]. revert X. apply P1. exact Hd. }
        split; [discriminate|]. apply Forall_app; split; assumption.
      * destruct (IH (x :: w) e occ) as (u2 & rest2 & new2 & c2 & E2 & W2 & P2 & Q2 & F2).
        exists u2, rest2, new2, c2. rewrite E2.
        rewrite head_in_app, Hd. cbn [orb].
        repeat split; try assumption; try (apply P2; assumption); try (apply Q2; assumption).
Qed.

(** the while loop: with fuel above the number of remaining names it terminates *)
Definition loop_ok (lp : nat -> mstate -> nat -> option (mstate * nat)) (ns : list pystr) : Prop :=
  forall fuel w e occ, length w < fuel ->
    exists u rest new c,
      lp fuel (w, e) occ = Some ((rest, e ++ new), occ + c) /\
      w = u ++ rest /\
      head_in rest ns = false /\
      (head_in w ns = true -> u <> [] /\ 1 <= c) /\
      (head_in w ns = false -> u = [] /\ c = 0) /\
      Forall child_fam new.

Lemma loop_of_shape p ns : pass_ok p ns -> loop_ok (loop_of p ns) ns.
Proof.
  intros HP fuel. induction fuel as [|f IH]; intros w e occ Hlen; [lia|].
  simpl. destruct (head_in w ns) eqn:Hd.
  - destruct (HP w e occ) as (u1 & rest1 & new1 & c1 & E1 & W1 & P1 & _ & F1).
    destruct (P1 Hd) as [U1 C1]. rewrite E1.
    assert (length rest1 < f) as Hl.
    { rewrite W1 in Hlen. rewrite app_length in Hlen. destruct u1; [congruence|]. simpl in Hlen. lia. }
    destruct (IH rest1 (e ++ new1) (occ + c1) Hl) as (u2 & rest2 & new2 & c2 & E2 & W2 & R2 & _ & _ & F2).
    exists (u1 ++ u2), rest2, (new1 ++ new2), (c1 + c2). rewrite E2.
    repeat split; try discriminate.
    + rewrite app_assoc, Nat.add_assoc. reflexivity.
    + rewrite W1, W2 at 1. rewrite app_assoc. reflexivity.
    + exact R2.
    + intro X. apply app_eq_nil in X as [X _]. contradiction.
    + lia.
    + apply Forall_app; split; assumption.
  - exists [], w, [], 0. rewrite app_nil_r, Nat.add_0_r.
    repeat split; try discriminate; try assumption; constructor.
Qed.

(** * The matcher is total and well-shaped, for every spec *)
Theorem m_spec_shape mixed : forall sp lm, step_ok (m_spec mixed sp lm) (names_of sp).
Proof.
  induction sp as [n lo hi|items IH|alts lo hi IH] using spec_ind'; intros lm w e.
  - rewrite m_spec_El. simpl.
    destruct (rule_child_shape n lo hi lm w 0 e) as (k & rest & new & E & W & P & Q & F & _).
    exists (repeat n k), rest, new. rewrite E. repeat split; try assumption.
    + intros H X. specialize (P H). destruct k; [lia | discriminate].
    + intros H. rewrite (Q H). reflexivity.
  - rewrite m_spec_Seq. apply seq_of_shape.
    eapply Forall_impl; [|exact IH]. intros a Ha. apply Ha.
  - rewrite m_spec_Cho.
    assert (pass_ok (pass_of (fun a => m_spec mixed a true) alts) (alt_names alts)) as HP.
    { apply pass_of_shape. eapply Forall_impl; [|exact IH]. intros a Ha. apply Ha. }
    destruct (loop_of_shape _ _ HP (S (length w)) w e 0 (Nat.lt_succ_diag_r _))
      as (u & rest & new & c & E & W & R & P & Q & F).
    simpl fst. rewrite E. simpl.
    exists u, rest,
      (new ++ (if hi_exceeded hi c then [EMaxChoice] else []) ++
              (if Nat.ltb c lo && negb mixed then [EMinChoice] else [])).
    repeat split; try assumption.
    + rewrite !app_assoc. reflexivity.
    + intro H. apply P. exact H.
    + intro H. apply Q. exact H.
    + apply Forall_app; split; [exact F|].
      apply Forall_app; split.
      * destruct (hi_exceeded hi c); repeat constructor.
      * destruct (Nat.ltb c lo && negb mixed); repeat constructor.
Qed.

Corollary m_spec_total mixed sp lm st : m_spec mixed sp lm st <> None.
Proof.
  destruct st as [w e].
  destruct (m_spec_shape mixed sp lm w e) as (u & rest & new & E & _). rewrite E. discriminate.
Qed.

(** errors emitted by [validate_children] for a parent other than [metadata] *)
Definition c01_fam (e : verr) : Prop :=
  match e with
  | EChildNotAllowed _ | EChildPosition _ | EMaxChoice | EMinChoice | EMaxOcc | EMinOcc _ => True
  | _ => False
  end.

Lemma child_fam_c01 e : child_fam e -> c01_fam e.
Proof. destruct e; simpl; tauto. Qed.

Definition pre_errs (allowed w : list pystr) : list verr :=
  flat_map (fun c => if smem c allowed then [] else [EChildNotAllowed c]) w.

Lemma pre_errs_fam allowed w : Forall c01_fam (pre_errs allowed w).
Proof.
  induction w as [|x w IH]; simpl; [constructor|].
  unfold pre_errs in *. simpl. destruct (smem x allowed); simpl; [exact IH|].
  constructor; [exact I | exact IH].
Qed.

Lemma pre_errs_nil allowed w : pre_errs allowed w = [] <-> Forall (fun c => In c allowed) w.
Proof.
  induction w as [|x w IH]; simpl.
  - split; constructor.
  - unfold pre_errs in *. simpl. destruct (smem x allowed) eqn:E; simpl.
    + rewrite IH. apply smem_In in E. split; intro H; [constructor; assumption | inversion H; assumption].
    + split; [discriminate|]. intro H. inversion H as [|? ? Hx _]; subst.
      apply smem_In in Hx. congruence.
Qed.

Theorem validate_children_total top mixed pname w : validate_children top mixed pname w <> None.
Proof.
  unfold validate_children. destruct (pystr_eqb pname METADATA); [discriminate|].
  destruct top as [sp|]; [|discriminate].
  fold (pre_errs (names_of_top (Some sp)) w).
  destruct (m_spec_shape mixed sp false w (pre_errs (names_of_top (Some sp)) w))
    as (u & rest & new & E & _). rewrite E. discriminate.
Qed.

Theorem validate_children_family top mixed pname w errs :
  pname <> METADATA -> validate_children top mixed pname w = Some errs -> Forall c01_fam errs.
Proof.
  intros NE. unfold validate_children. apply pystr_eqb_neq in NE. rewrite NE.
  fold (pre_errs (names_of_top top) w).
  destruct top as [sp|].
  - destruct (m_spec_shape mixed sp false w (pre_errs (names_of_top (Some sp)) w))
      as (u & rest & new & E & _ & _ & _ & F). rewrite E.
    intros [= <-].
    assert (Forall c01_fam (pre_errs (names_of_top (Some sp)) w ++ new)) as H.
    { apply Forall_app; split; [apply pre_errs_fam|].
      eapply Forall_impl; [|exact F]. apply child_fam_c01. }
    destruct rest; [exact H|]. apply Forall_app; split; [exact H|]. repeat constructor.
  - intros [= <-]. destruct w as [|c w']; [constructor|].
    apply Forall_app; split; [apply pre_errs_fam | repeat constructor].
Qed.

(* Proofs/C01_Lang.v — elementary facts about the languages of Spec/Lang.v
   (inversions, alphabet, L is contained in Llen). *)
From MP Require Import Common.Base Model.Rule Spec.Lang Proofs.C01_Total.

(** * Inversions *)
Lemma L_El_inv mixed n lo hi w :
  L mixed (El n lo hi) w -> exists k, w = repeat n k /\ lo <= k /\ le_hi k hi.
Proof. intro H. inversion H; subst. eauto. Qed.

Lemma L_Seq_inv mixed items w :
  L mixed (Seq items) w -> exists ws, LSeq mixed items ws /\ w = concat ws.
Proof. intro H. inversion H; subst. eauto. Qed.

Lemma L_Cho_inv mixed alts lo hi w :
  L mixed (Cho alts lo hi) w ->
  exists ws, LOccs mixed alts ws /\ (mixed = true \/ lo <= length ws) /\ le_hi (length ws) hi /\ w = concat ws.
Proof. intro H. inversion H; subst. eauto 6. Qed.

Lemma LSeq_cons_inv mixed i items ws0 :
  LSeq mixed (i :: items) ws0 -> exists w ws, ws0 = w :: ws /\ L mixed i w /\ LSeq mixed items ws.
Proof. intro H. inversion H; subst. eauto. Qed.

Lemma LSeq_nil_inv mixed ws0 : LSeq mixed [] ws0 -> ws0 = [].
Proof. intro H. inversion H; subst. reflexivity. Qed.

Lemma LOccs_cons_inv mixed alts w ws :
  LOccs mixed alts (w :: ws) -> w <> [] /\ LAlt mixed alts w /\ LOccs mixed alts ws.
Proof. intro H. inversion H; subst. auto. Qed.

Lemma LAlt_inv mixed alts w : LAlt mixed alts w -> exists a, In a alts /\ L mixed a w.
Proof.
  induction alts as [|a r IH]; intro H; inversion H as [? ? ? HL|? ? ? HA]; subst.
  - exists a. split; [left; reflexivity | assumption].
  - destruct (IH HA) as (b & Hb & Lb). exists b. split; [right; assumption | assumption].
Qed.

Lemma LAlt_cons_inv mixed a alts w :
  LAlt mixed (a :: alts) w -> L mixed a w \/ LAlt mixed alts w.
Proof. intro H. inversion H; subst; auto. Qed.

Lemma LAlt_in mixed alts a w : In a alts -> L mixed a w -> LAlt mixed alts w.
Proof.
  induction alts as [|b r IH]; intros Hin HL; [contradiction|].
  destruct Hin as [->|Hin]; [apply LAlt_here; assumption | apply LAlt_there; auto].
Qed.

Lemma LOccs_app mixed alts ws1 ws2 :
  LOccs mixed alts ws1 -> LOccs mixed alts ws2 -> LOccs mixed alts (ws1 ++ ws2).
Proof.
  induction ws1 as [|w ws1 IH]; intros H1 H2; simpl; [assumption|].
  apply LOccs_cons_inv in H1 as (A & B & C). apply LOccs_cons; auto.
Qed.

Lemma LOccs_Forall mixed alts ws :
  LOccs mixed alts ws <-> Forall (fun w => w <> [] /\ LAlt mixed alts w) ws.
Proof.
  induction ws as [|w ws IH]; split; intro H.
  - constructor.
  - constructor.
  - apply LOccs_cons_inv in H as (A & B & C). constructor; [auto | apply IH; assumption].
  - inversion H as [|? ? [A B] C]; subst. apply LOccs_cons; [assumption | assumption | apply IH; assumption].
Qed.

(** * Words of the language only use the names of the spec *)
Lemma L_names_mut mixed :
  (forall sp w, L mixed sp w -> Forall (fun x => In x (names_of sp)) w) /\
  (forall items ws, LSeq mixed items ws -> Forall (fun x => In x (alt_names items)) (concat ws)) /\
  (forall alts ws, LOccs mixed alts ws -> Forall (fun x => In x (alt_names alts)) (concat ws)) /\
  (forall alts w, LAlt mixed alts w -> Forall (fun x => In x (alt_names alts)) w).
Proof.
  apply L_mutind; intros.
  - apply Forall_forall. intros x Hx. apply repeat_spec in Hx. simpl. left. symmetry. exact Hx.
  - assumption.
  - assumption.
  - constructor.
  - change (concat (w :: ws)) with (w ++ concat ws). apply Forall_app; split.
    + eapply Forall_impl; [|exact H]. intros x Hx. rewrite alt_names_cons. apply in_or_app. left. exact Hx.
    + eapply Forall_impl; [|exact H0]. intros x Hx. rewrite alt_names_cons. apply in_or_app. right. exact Hx.
  - constructor.
  - change (concat (w :: ws)) with (w ++ concat ws). apply Forall_app; split; assumption.
  - eapply Forall_impl; [|exact H]. intros x Hx. rewrite alt_names_cons. apply in_or_app. left. exact Hx.
  - eapply Forall_impl; [|exact H]. intros x Hx. rewrite alt_names_cons. apply in_or_app. right. exact Hx.
Qed.

Lemma L_names mixed sp w : L mixed sp w -> Forall (fun x => In x (names_of sp)) w.
Proof. apply L_names_mut. Qed.
Lemma LSeq_names mixed items ws :
  LSeq mixed items ws -> Forall (fun x => In x (alt_names items)) (concat ws).
Proof. apply L_names_mut. Qed.
Lemma LOccs_names mixed alts ws :
  LOccs mixed alts ws -> Forall (fun x => In x (alt_names alts)) (concat ws).
Proof. apply L_names_mut. Qed.
Lemma LAlt_names mixed alts w : LAlt mixed alts w -> Forall (fun x => In x (alt_names alts)) w.
Proof. apply L_names_mut. Qed.

(** * The strict language is contained in the lenient one *)
Lemma L_Llen_mut mixed :
  (forall sp w, L mixed sp w -> Llen mixed sp w) /\
  (forall items ws, LSeq mixed items ws -> LlSeq mixed items ws) /\
  (forall alts ws, LOccs mixed alts ws -> LlOccs mixed alts ws) /\
  (forall alts w, LAlt mixed alts w -> LlAlt mixed alts w).
Proof.
  apply L_mutind; intros.
  - apply Ll_El; assumption.
  - apply Ll_Seq; assumption.
  - apply Ll_Cho; assumption.
  - constructor.
  - constructor; assumption.
  - constructor.
  - constructor; assumption.
  - apply LlAlt_here; assumption.
  - apply LlAlt_there; assumption.
Qed.

Theorem L_Llen mixed sp w : L mixed sp w -> Llen mixed sp w.
Proof. apply L_Llen_mut. Qed.

(** head of a word over an alphabet *)
Lemma head_in_Forall w ns : w <> [] -> Forall (fun x => In x ns) w -> head_in w ns = true.
Proof.
  destruct w as [|x w]; [congruence|]. intros _ H. inversion H; subst. simpl. apply smem_In. assumption.
Qed.

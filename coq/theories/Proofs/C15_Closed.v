(* Proofs/C15_Closed.v — the two facts about single-node validation that C15_eq needs,
   derived from the table closure condition of C04 ([tables_closed], Spec/TreeVal.v):
   validation is total, and a mapped name is never reported as an unknown node.
   Also: the registry after the deletions. *)
From MP Require Import Common.Base Common.Tree Model.Rule Model.Prune Spec.PruneSpec Spec.TreeVal.
From MP Require Import Proofs.C01_Total Proofs.C04_total Proofs.C15_Eq.

Definition not_unk (e : verr) : bool := match e with EUnknownNode => false | _ => true end.

Lemma not_unk_In l : forallb not_unk l = true -> ~ In EUnknownNode l.
Proof.
  intros H I. rewrite forallb_forall in H. specialize (H _ I). discriminate.
Qed.

Ltac ifs := repeat match goal with |- context [if ?b then _ else _] => destruct b end.

Lemma content_rule_nu orc rg mixed c nk cr : forallb not_unk (content_rule orc rg mixed c nk cr) = true.
Proof.
  unfold content_rule, float_check, is_float.
  destruct c as [x|]; [destruct (o_float (orc x)); [|]; [| ] |]; ifs; try reflexivity;
    try (destruct x; reflexivity).
Qed.

Lemma forallb_flat_map {A B} (p : B -> bool) (f : A -> list B) l :
  (forall x, forallb p (f x) = true) -> forallb p (flat_map f l) = true.
Proof.
  intro H. induction l as [|x r IH]; [reflexivity|]. cbn [flat_map]. rewrite forallb_app, H, IH. reflexivity.
Qed.

Lemma validate_content_nu orc rg mixed crs enum c nk :
  forallb not_unk (validate_content orc rg mixed crs enum c nk) = true.
Proof.
  unfold validate_content. rewrite forallb_app, forallb_flat_map; [|intro; apply content_rule_nu].
  destruct enum as [vals|]; [|reflexivity]. destruct c as [x|]; [|reflexivity].
  destruct (smem x vals); reflexivity.
Qed.

Definition res_nu (r : res) : Prop :=
  match r with Errs l => forallb not_unk l = true | Crash pre _ => forallb not_unk pre = true end.

Lemma res_app_nu a b : res_nu a -> res_nu b -> res_nu (res_app a b).
Proof.
  destruct a as [l|p k], b as [l'|p' k']; cbn; intros H1 H2; try assumption;
    rewrite forallb_app, H1, H2; reflexivity.
Qed.

Lemma validate_attrs_nu r a : res_nu (validate_attrs r a).
Proof.
  unfold validate_attrs. apply res_app_nu.
  - induction r as [|[k sp] r IH]; cbn [fold_right]; [reflexivity|].
    destruct (attr_required sp) as [b|]; [|reflexivity].
    apply res_app_nu; [|exact IH]. unfold res_nu. destruct (b && negb (smem k (keys a))); reflexivity.
  - induction a as [|[k v] a IH]; cbn [fold_right]; [reflexivity|].
    destruct (assoc k r) as [sp|]; (apply res_app_nu; [|exact IH]); unfold res_nu; [|reflexivity].
    destruct (Nat.ltb 1 (length sp) && negb (rj_mem_str v (attr_values sp))); reflexivity.
Qed.

Lemma c01_fam_nu l : Forall c01_fam l -> forallb not_unk l = true.
Proof.
  induction 1 as [|e l He _ IH]; [reflexivity|]. cbn [forallb]. rewrite IH.
  destruct e; try reflexivity; destruct He.
Qed.

Lemma validate_children_nu top mixed pname w errs :
  validate_children top mixed pname w = Some errs -> forallb not_unk errs = true.
Proof.
  destruct (pystr_eq_dec pname METADATA) as [->|NE].
  - unfold validate_children. rewrite pystr_eqb_refl. intros [= <-].
    destruct (Nat.ltb 1 (length w)); reflexivity.
  - intro H. apply c01_fam_nu. eapply validate_children_family; eassumption.
Qed.

Lemma validate_rule_nu orc tb rn r name c a w : res_nu (validate_rule orc tb rn r name c a w).
Proof.
  unfold validate_rule.
  destruct (parse_children (rr_children r)) as [top|]; [|reflexivity].
  destruct (negb _); [reflexivity|].
  destruct (validate_children top (smem rn (tb_mixed tb)) name w) as [ek|] eqn:K; [|reflexivity].
  apply res_app_nu; [apply res_app_nu|].
  - apply validate_content_nu.
  - apply validate_attrs_nu.
  - exact (validate_children_nu _ _ _ _ _ K).
Qed.

Section Closed.
Variable orc : pystr -> oans.
Variable tb : tables.
Hypothesis TC : tables_closed tb = true.

Lemma closed_node_total : node_total orc tb.
Proof. intros n c a k. exact (validate_node_no_crash orc tb n c a k TC). Qed.

Lemma closed_known_not_unknown : known_not_unknown orc tb.
Proof.
  intros n c a k l K E. unfold known in K. unfold validate_node in E.
  destruct (assoc n (tb_node_map tb)) as [rn|]; [|discriminate].
  destruct (assoc rn (tb_rules tb)) as [r|]; [|discriminate].
  pose proof (validate_rule_nu orc tb rn r n c a k) as N. rewrite E in N.
  apply not_unk_In, N.
Qed.

End Closed.

(** * the registry *)
Lemma filter_id {A} (f : A -> bool) l : (forall x, In x l -> f x = true) -> filter f l = l.
Proof.
  induction l as [|x r IH]; [reflexivity|]. intro H. cbn [filter].
  rewrite (H x (or_introl eq_refl)), IH; [reflexivity|]. intros y Hy. apply H. right; exact Hy.
Qed.

Lemma store_del_filter i store :
  NoDup store -> In i store ->
  store_del i store = Some (filter (fun j => negb (pystr_eqb j i)) store).
Proof.
  induction store as [|j r IH]; [intros _ []|].
  intros ND I. inversion ND as [|? ? NI ND']; subst. cbn [store_del filter].
  destruct (pystr_eqb_reflect i j) as [->|NE].
  - rewrite pystr_eqb_refl. cbn [negb]. f_equal.
    symmetry. apply filter_id. intros x Hx.
    destruct (pystr_eqb_reflect x j) as [->|]; [contradiction | reflexivity].
  - destruct I as [->|I]; [contradiction NE; reflexivity|].
    rewrite (IH ND' I).
    destruct (pystr_eqb_reflect j i) as [->|]; [contradiction NE; reflexivity | reflexivity].
Qed.

Lemma filter_filter_rem i r store :
  filter (fun j => negb (smem j r)) (filter (fun j => negb (pystr_eqb j i)) store) =
  filter (fun j => negb (smem j (i :: r))) store.
Proof.
  induction store as [|j st IH]; [reflexivity|]. cbn [filter].
  change (smem j (i :: r)) with (pystr_eqb j i || smem j r).
  destruct (pystr_eqb j i); cbn [negb orb]; [exact IH|].
  cbn [filter]. destruct (smem j r); cbn [negb]; rewrite IH; reflexivity.
Qed.

(** deleting distinct registered ids succeeds and leaves exactly the other keys, in order *)
Theorem store_del_all_filter : forall rem store,
  NoDup store -> NoDup rem -> incl rem store ->
  store_del_all rem store = Some (filter (fun j => negb (smem j rem)) store).
Proof.
  induction rem as [|i r IH]; intros store NS NR INC.
  - cbn. f_equal. symmetry. apply filter_id. reflexivity.
  - inversion NR as [|? ? NI NR']; subst. cbn [store_del_all].
    rewrite (store_del_filter i store NS (INC i (or_introl eq_refl))).
    rewrite IH; [| apply NoDup_filter, NS | exact NR' |].
    + rewrite filter_filter_rem. reflexivity.
    + intros x Hx. apply filter_In. split; [apply INC; right; exact Hx|].
      destruct (pystr_eqb_reflect x i) as [->|]; [contradiction | reflexivity].
Qed.

(* Proofs/C01_Main.v — C01 assembled: validate_children accepts exactly the declared
   language (under greedy_ok), in both modes; rejections stay in the child / min / max family. *)
From MP Require Import Common.Base Model.Rule Spec.Lang Spec.GreedyOk Spec.LangDec
  Proofs.C01_Total Proofs.C01_Lang Proofs.C01_Sound Proofs.C01_Complete.

Definition allowed_names (top : option spec) (w : list pystr) : Prop :=
  Forall (fun c => In c (names_of_top top)) w.

Lemma validate_children_unfold top mixed pname w : pname <> METADATA ->
  validate_children top mixed pname w =
  match (match top with
         | None => Some (w, pre_errs (names_of_top top) w)
         | Some sp => m_spec mixed sp false (w, pre_errs (names_of_top top) w)
         end) with
  | None => None
  | Some (rest, errs) => Some (match rest with [] => errs | c :: _ => errs ++ [EChildPosition c] end)
  end.
Proof.
  intro NE. unfold validate_children. apply pystr_eqb_neq in NE. rewrite NE. reflexivity.
Qed.

(** accept -> L needs only lo <= hi on rule children *)
Theorem accept_sound top mixed pname w :
  match top with Some sp => lohi_ok sp = true | None => True end ->
  pname <> METADATA ->
  validate_children top mixed pname w = Some [] ->
  allowed_names top w /\ Ltop mixed top w.
Proof.
  intros Hok NE H. rewrite (validate_children_unfold _ _ _ _ NE) in H.
  destruct top as [sp|].
  - destruct (m_spec_shape mixed sp false w (pre_errs (names_of_top (Some sp)) w))
      as (u & rest & new & E & W & _ & _ & _).
    rewrite E in H. injection H as H.
    assert (rest = [] /\ pre_errs (names_of_top (Some sp)) w ++ new = []) as [-> H'].
    { destruct rest; [split; [reflexivity | exact H]|].
      apply app_eq_nil in H as [_ H]. discriminate. }
    apply app_eq_nil in H' as [Hpre ->]. rewrite Hpre, app_nil_r in E.
    split; [apply pre_errs_nil; exact Hpre|].
    destruct (m_spec_sound mixed sp Hok false w [] [] E) as (u' & Wu & Lu).
    rewrite app_nil_r in Wu. subst u'. exact Lu.
  - injection H as H. destruct w as [|c w]; [split; [constructor | reflexivity]|].
    apply app_eq_nil in H as [_ H]. discriminate.
Qed.

(** L -> accept needs the full side condition *)
Theorem accept_complete top mixed pname w :
  greedy_ok_top top = true -> pname <> METADATA ->
  Ltop mixed top w ->
  validate_children top mixed pname w = Some [].
Proof.
  intros Hok NE HL. rewrite (validate_children_unfold _ _ _ _ NE).
  destruct top as [sp|].
  - simpl in HL, Hok. unfold greedy_ok in Hok. apply andb_true_iff in Hok as [Hs Hn].
    apply nodup_names_spec in Hn.
    assert (pre_errs (names_of_top (Some sp)) w = []) as ->.
    { apply pre_errs_nil. apply (L_names _ _ _ HL). }
    pose proof (m_spec_complete mixed sp Hs Hn false w [] [] HL eq_refl) as E.
    rewrite app_nil_r in E. rewrite E. reflexivity.
  - simpl in HL. subst w. reflexivity.
Qed.

Lemma greedy_ok_top_lohi top :
  greedy_ok_top top = true -> match top with Some sp => lohi_ok sp = true | None => True end.
Proof.
  destruct top as [sp|]; simpl; [|trivial]. unfold greedy_ok. intro H.
  apply andb_true_iff in H as [H _]. apply shape_ok_lohi. exact H.
Qed.

Theorem C01_generic_proof top mixed pname w :
  greedy_ok_top top = true -> pname <> METADATA ->
  (validate_children top mixed pname w = Some [] <-> allowed_names top w /\ Ltop mixed top w).
Proof.
  intros Hok NE. split.
  - apply accept_sound; [apply greedy_ok_top_lohi; exact Hok | exact NE].
  - intros [_ HL]. apply accept_complete; assumption.
Qed.

(** fail-fast mode: the outcome is [ff_of] of the collected list; it succeeds iff nothing was collected *)
Lemma ff_of_ok l : ff_of (Errs l) = FOk <-> l = [].
Proof. destruct l; simpl; split; congruence. Qed.

(** both modes, the error family, totality — one statement *)
Theorem C01_modes_proof top mixed pname w :
  greedy_ok_top top = true -> pname <> METADATA ->
  exists errs,
    validate_children top mixed pname w = Some errs /\
    (errs = [] <-> allowed_names top w /\ Ltop mixed top w) /\
    (ff_of (Errs errs) = FOk <-> allowed_names top w /\ Ltop mixed top w) /\
    Forall c01_fam errs.
Proof.
  intros Hok NE.
  destruct (validate_children top mixed pname w) as [errs|] eqn:E;
    [|exfalso; exact (validate_children_total _ _ _ _ E)].
  exists errs. split; [reflexivity|].
  assert (errs = [] <-> allowed_names top w /\ Ltop mixed top w) as Hiff.
  { rewrite <- (C01_generic_proof top mixed pname w Hok NE), E. split; congruence. }
  split; [exact Hiff|]. split.
  - rewrite ff_of_ok. exact Hiff.
  - eapply validate_children_family; eassumption.
Qed.

Theorem C01_sandwich_proof top mixed pname w :
  greedy_ok_top top = true -> pname <> METADATA ->
  (Ltop mixed top w -> validate_children top mixed pname w = Some []) /\
  (validate_children top mixed pname w = Some [] -> Llentop mixed top w).
Proof.
  intros Hok NE. split.
  - apply accept_complete; assumption.
  - intro H. destruct (accept_sound top mixed pname w (greedy_ok_top_lohi _ Hok) NE H) as [_ HL].
    destruct top as [sp|]; simpl in *; [apply L_Llen; exact HL | exact HL].
Qed.

(** what an error of the family looks like to a caller *)
Lemma c01_fam_class e : c01_fam e ->
  In (class_of e) [s "ChildNotAllowedError"; s "MaxOccurrenceExceededError"; s "MinOccurrenceUnmetError"].
Proof. destruct e; simpl; tauto. Qed.

Lemma c01_fam_code e : c01_fam e ->
  In (code_of e) [s "CHILD_NOT_ALLOWED"; s "MAX_CHOICE_EXCEEDED"; s "MIN_CHOICE_UNMET";
                  s "MAX_OCCURRENCE_EXCEEDED"; s "MIN_OCCURRENCE_UNMET"].
Proof. destruct e; simpl; tauto. Qed.

(** * Whole-node validation of a parent whose content and attributes are valid *)
Lemma shape_ok_no_seq_in_seq : forall sp, shape_ok sp = true -> no_seq_in_seq sp = true.
Proof.
  induction sp as [n lo hi|items IH|alts lo hi IH] using spec_ind'; simpl; intro H.
  - reflexivity.
  - apply andb_true_iff in H as [_ H]. rewrite forallb_forall in *. intros i Hi.
    specialize (H i Hi). apply andb_true_iff in H as [H1 H2].
    rewrite Forall_forall in IH. specialize (IH i Hi H2).
    destruct i; [exact IH | discriminate | exact IH].
  - repeat (apply andb_true_iff in H as [H ?]).
    rewrite forallb_forall in *. intros a Ha. rewrite Forall_forall in IH. apply IH; auto.
Qed.

Theorem validate_rule_children orc tb rname r name content attrs kids top :
  parse_children (rr_children r) = Some top ->
  greedy_ok_top top = true ->
  validate_content orc (tb_ranges tb) (smem rname (tb_mixed tb)) (rr_content_rules r)
                   (rr_content_enum r) content (length kids) = [] ->
  validate_attrs (rr_attrs r) attrs = Errs [] ->
  exists errs,
    validate_children top (smem rname (tb_mixed tb)) name kids = Some errs /\
    validate_rule orc tb rname r name content attrs kids = Errs errs.
Proof.
  intros Hp Hok Hc Ha. unfold validate_rule. rewrite Hp.
  assert (match top with Some sp => no_seq_in_seq sp | None => true end = true) as Hns.
  { destruct top as [sp|]; [|reflexivity]. simpl in Hok. unfold greedy_ok in Hok.
    apply andb_true_iff in Hok as [Hok _]. apply shape_ok_no_seq_in_seq. exact Hok. }
  rewrite Hns. simpl negb. cbv iota. rewrite Hc, Ha.
  destruct (validate_children top (smem rname (tb_mixed tb)) name kids) as [errs|] eqn:E;
    [|exfalso; exact (validate_children_total _ _ _ _ E)].
  exists errs. split; reflexivity.
Qed.

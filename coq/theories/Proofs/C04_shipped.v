(* Proofs/C04_shipped.v — the shipped tables as one [tables] value and the table
   obligations of C04/C05, closed by complete enumeration of Gen/Tables.v (re-run
   against the working tree on every check). *)
From MP Require Import Common.Base Gen.Tables Model.Rule Spec.TreeVal Proofs.C05_tree Proofs.C04_total.

Definition shipped_tb : tables :=
  {| tb_rules := rules; tb_node_map := node_map; tb_mixed := mixed_rules; tb_ranges := (range_ew, range_ns) |}.

(** every node_map target exists; every rule parses, has no sequence directly in a
    sequence, and every attribute spec is led by a bool *)
Lemma shipped_closed : tables_closed shipped_tb = true.
Proof. vm_compute. reflexivity. Qed.

(** every exception class the model raises reaches MetapypeRuleError in exceptions.py *)
Lemma shipped_classes_in_family :
  forallb (reachesb exn_parent RULE_ERROR_ROOT 4) (map class_of verr_reps) = true.
Proof. vm_compute. reflexivity. Qed.

(** every code the model collects is a member of ValidationError *)
Lemma shipped_codes_in_enum : forallb (fun c => smem c verr_codes) (map code_of verr_reps) = true.
Proof. vm_compute. reflexivity. Qed.

(** the element name "metadata" maps to a rule without a children section *)
Lemma shipped_metadata_rule :
  match assoc (s "metadata") node_map with
  | Some rn => match assoc rn rules with
               | Some r => match rr_children r with [] => true | _ => false end
               | None => false
               end
  | None => false
  end = true.
Proof. vm_compute. reflexivity. Qed.

Lemma C04_node_shipped : forall orc name c a w,
  total_outcome verr_codes exn_parent (validate_node orc shipped_tb name c a w).
Proof.
  apply C04_node_generic;
    [exact shipped_closed | exact (codes_in_enum _ shipped_codes_in_enum)
     | exact (classes_in_family _ _ _ shipped_classes_in_family)].
Qed.

Lemma C04_tree_shipped : forall orc t,
  total_outcome verr_codes exn_parent (validate_tree orc shipped_tb t).
Proof.
  apply C04_tree_generic;
    [exact shipped_closed | exact (codes_in_enum _ shipped_codes_in_enum)
     | exact (classes_in_family _ _ _ shipped_classes_in_family)].
Qed.

(** * C05 over the shipped tables *)

Lemma C05_collect_shipped : forall orc t,
  validate_tree orc shipped_tb t =
  Errs (concat (map (fun n => errs_of (node_of orc shipped_tb n)) (visible_preorder t))).
Proof. intros orc t. apply validate_tree_collect_closed, shipped_closed. Qed.

(** a metadata element without content and attributes is accepted exactly when it has
    at most one child, whatever that child is *)
Lemma shipped_metadata_accepts : forall orc w,
  validate_node orc shipped_tb (s "metadata") None [] w = Errs [] <-> length w <= 1.
Proof.
  intros orc w. destruct w as [|x [|y w]].
  - split; [simpl; lia | intros _; vm_compute; reflexivity].
  - split; [simpl; lia | intros _; vm_compute; reflexivity].
  - split; [vm_compute; discriminate | simpl; lia].
Qed.

(* Proofs/C06_Examples.v — non-vacuity of the C06 hypotheses, and what happens outside them. *)
From MP Require Import Common.Base Common.Tree Model.Json Spec.JsonSpec Proofs.C06_Roundtrip.

Definition mk (id name : pystr) (content tail prefix : option pystr) (attrs extras nsmap : list (pystr * pystr)) : nd :=
  {| n_id := id; n_name := name; n_content := content; n_tail := tail; n_prefix := prefix;
     n_attrs := attrs; n_extras := extras; n_nsmap := nsmap |}.

Definition EML := s "https://eml.ecoinformatics.org/eml-2.2.0".

(** three levels; the child lists the root's prefixes in ANOTHER order and adds one, the
    grandchild rebinds a prefix *)
Definition ex3 : ftree :=
  FT (mk (s "n0") (s "eml") None None (Some (s "eml")) [(s "packageId", s "p.1.1"); (s "system", s "x")]
         [(s "xsi:schemaLocation", s "a b")] [(s "eml", EML); (s "xsi", s "u2")])
     [FT (mk (s "n1") (s "dataset") None (Some (s " ")) None [] [] [(s "xsi", s "u2"); (s "eml", EML); (s "z", s "u3")])
         [FT (mk (s "n2") (s "title") (Some [34; 92; 10; 233; 128512]%N) None None [(s "id", s "t")] []
                 [(s "xsi", s "u2"); (s "eml", s "other"); (s "z", s "u3")]) [];
          FT (mk (s "n3") (s "title") (Some []) (Some []) (Some []) [] [] [(s "z", s "u3"); (s "xsi", s "u2"); (s "eml", EML)]) []];
      FT (mk (s "n4") (s "access") None None None [] [] [(s "eml", EML); (s "xsi", s "u2")]) []].

Ltac nodup := repeat constructor; cbn; intuition discriminate.
Ltac inclk := intros x Hx; cbn in Hx |- *; intuition (subst; auto).

Example ex3_ok : tree_ok ex3.
Proof. unfold ex3. repeat (constructor; try (repeat split; nodup)). Qed.

Example ex3_closed : ns_closed ex3.
Proof. unfold ex3. repeat (constructor; try inclk). Qed.

Example ex3_roundtrip : load (serialize ex3) = Ok ex3.
Proof. vm_compute. reflexivity. Qed.

Example ex3_nonvacuous :
  tree_ok ex3 /\ ns_closed ex3 /\ theight ex3 = 3 /\ load (serialize ex3) = Ok ex3.
Proof. split; [exact ex3_ok | split; [exact ex3_closed | split; [reflexivity | exact ex3_roundtrip]]]. Qed.

(** outside the precondition: the child lacks the parent's prefix and a grandchild binds it
    to something else — loading re-attaches the child, the merge declares the prefix on the
    whole subtree and overwrites the grandchild's binding *)
Definition bad3 : ftree :=
  FT (mk (s "r") (s "x") None None None [] [] [(s "a", s "u1")])
     [FT (mk (s "c") (s "x") None None None [] [] [])
         [FT (mk (s "g") (s "x") None None None [] [] [(s "a", s "u9")]) []]].

Definition bad3_loaded : ftree :=
  FT (mk (s "r") (s "x") None None None [] [] [(s "a", s "u1")])
     [FT (mk (s "c") (s "x") None None None [] [] [(s "a", s "u1")])
         [FT (mk (s "g") (s "x") None None None [] [] [(s "a", s "u1")]) []]].

Example closed_needed :
  tree_ok bad3 /\ ~ ns_closed bad3 /\ load (serialize bad3) = Ok bad3_loaded /\ bad3_loaded <> bad3.
Proof.
  split; [|split; [|split]].
  - unfold bad3. repeat (constructor; try (repeat split; nodup)).
  - intro H. inversion H as [? ? HI _]; subst. inversion HI as [|? ? Hc _]; subst.
    specialize (Hc (s "a") (or_introl eq_refl)). cbn in Hc. exact Hc.
  - vm_compute. reflexivity.
  - discriminate.
Qed.

(** a legacy document: four slots per node *)
Example ex3_legacy : legacy_load (objectify ex3) = Ok (legacy_view ex3).
Proof. vm_compute. reflexivity. Qed.

Example ex3_upgrade :
  upgrade (objectify ex3) = Ok (serialize (legacy_view ex3)) /\ load (serialize (legacy_view ex3)) = Ok (legacy_view ex3).
Proof. split; vm_compute; reflexivity. Qed.

(** malformed documents are rejected with the Python exception class, not silently *)
Example malformed_short_body :
  load (JObj [(s "x", JArr [JObj [(s "id", JStr (s "i"))]])]) = Crash IndexError.
Proof. vm_compute. reflexivity. Qed.
Example malformed_wrong_key :
  load (JObj [(s "x", JArr [JObj [(s "ID", JStr (s "i"))]])]) = Crash KeyError.
Proof. vm_compute. reflexivity. Qed.

(* Proofs/C07_Escape.v — stage 1 of C07: xml.sax.saxutils.escape produces text that
   contains no markup and that the specification parser's decoders map back to the
   original string. *)
From MP Require Import Common.Base Common.XStr Spec.Xml Model.XmlOut.
Local Open Scope N_scope.

(** * escape as a character-wise map *)
Definition esc_char (c : N) : pystr :=
  if c =? 38 then s "&amp;" else if c =? 62 then s "&gt;" else if c =? 60 then s "&lt;" else [c].

Definition esc_attr_char (c : N) : pystr :=
  if c =? 34 then s "&quot;" else esc_char c.

Lemma flat_map_flat_map {A B C} (f : B -> list C) (g : A -> list B) (l : list A) :
  flat_map f (flat_map g l) = flat_map (fun x => flat_map f (g x)) l.
Proof.
  induction l as [|x l IH]; simpl; [reflexivity|].
  rewrite flat_map_app, IH. reflexivity.
Qed.

Lemma flat_map_ext' {A B} (f g : A -> list B) (l : list A) :
  (forall x, f x = g x) -> flat_map f l = flat_map g l.
Proof. intro H. induction l as [|x l IH]; simpl; [reflexivity|]. rewrite H, IH. reflexivity. Qed.

Lemma eqb_cases (c : N) :
  c = 38 \/ c = 62 \/ c = 60 \/ c = 34 \/ (c <> 38 /\ c <> 62 /\ c <> 60 /\ c <> 34).
Proof. lia. Qed.

Ltac neqb :=
  repeat match goal with
         | H : ?c <> ?k |- context [?c =? ?k] =>
             let E := fresh in assert (E : (c =? k) = false) by (apply N.eqb_neq; exact H); rewrite E; clear E
         end.

Lemma escape_flat x : escape x = flat_map esc_char x.
Proof.
  unfold escape, replace1. rewrite !flat_map_flat_map. apply flat_map_ext'. intro c.
  unfold esc_char.
  destruct (eqb_cases c) as [->|[->|[->|[->|(H1 & H2 & H3 & H4)]]]]; try reflexivity.
  neqb. simpl. neqb. simpl. neqb. reflexivity.
Qed.

Lemma escape_attr_flat x : escape_attr x = flat_map esc_attr_char x.
Proof.
  unfold escape_attr. rewrite escape_flat. unfold replace1. rewrite flat_map_flat_map.
  apply flat_map_ext'. intro c. unfold esc_attr_char, esc_char.
  destruct (eqb_cases c) as [->|[->|[->|[->|(H1 & H2 & H3 & H4)]]]]; try reflexivity.
  neqb. simpl. neqb. reflexivity.
Qed.

Lemma escape_app a b : escape (a ++ b) = escape a ++ escape b.
Proof. rewrite !escape_flat. apply flat_map_app. Qed.

Lemma escape_attr_app a b : escape_attr (a ++ b) = escape_attr a ++ escape_attr b.
Proof. rewrite !escape_attr_flat. apply flat_map_app. Qed.

Lemma escape_cons c x : escape (c :: x) = esc_char c ++ escape x.
Proof. rewrite !escape_flat. reflexivity. Qed.

Lemma escape_attr_cons c x : escape_attr (c :: x) = esc_attr_char c ++ escape_attr x.
Proof. rewrite !escape_attr_flat. reflexivity. Qed.

(** text without the three special characters is left alone *)
Definition plain_char (c : N) : bool := negb (c =? 38) && negb (c =? 60) && negb (c =? 62).

Lemma escape_plain x : forallb plain_char x = true -> escape x = x.
Proof.
  rewrite escape_flat. induction x as [|c x IH]; simpl; [reflexivity|].
  intro H. apply andb_true_iff in H as [Hc Hx]. rewrite (IH Hx).
  unfold plain_char in Hc. unfold esc_char.
  destruct (c =? 38); [discriminate|]. destruct (c =? 60); [simpl in Hc; discriminate|].
  destruct (c =? 62); [simpl in Hc; discriminate|]. reflexivity.
Qed.

(** * The grammar of escaped text: plain characters and predefined entity references *)
Inductive escaped (attr : bool) : pystr -> Prop :=
| esc_nil : escaped attr []
| esc_plain c l : c <> 38 -> c <> 60 -> c <> 62 -> (attr = true -> c <> 34) ->
                  escaped attr l -> escaped attr (c :: l)
| esc_ent e l : In e [s "amp"; s "lt"; s "gt"] \/ (attr = true /\ e = s "quot") ->
                escaped attr l -> escaped attr ([38] ++ e ++ [59] ++ l).

Lemma escaped_no (attr : bool) l k : escaped attr l ->
  (k = 60 \/ k = 62 \/ (attr = true /\ k = 34)) -> ~ In k l.
Proof.
  intros H Hk. induction H as [|c l H1 H2 H3 H4 _ IH|e l He _ IH].
  - simpl; tauto.
  - intros [E|E]; [|exact (IH E)]. subst c.
    destruct Hk as [->|[->|[A ->]]]; [congruence|congruence|exact (H4 A eq_refl)].
  - intro Hin. simpl in Hin. destruct Hin as [E|Hin]; [lia|].
    apply in_app_or in Hin as [Hin|Hin].
    + destruct He as [He|[_ ->]].
      * simpl in He. destruct He as [<-|[<-|[<-|[]]]]; simpl in Hin; lia.
      * simpl in Hin; lia.
    + simpl in Hin. destruct Hin as [E|Hin]; [lia|exact (IH Hin)].
Qed.

Theorem escape_clean x : escaped false (escape x).
Proof.
  rewrite escape_flat. induction x as [|c x IH]; simpl; [constructor|].
  unfold esc_char.
  destruct (eqb_cases c) as [->|[->|[->|[->|(H1 & H2 & H3 & H4)]]]]; simpl.
  - refine (esc_ent false (s "amp") _ _ IH). left; simpl; auto.
  - refine (esc_ent false (s "gt") _ _ IH). left; simpl; auto.
  - refine (esc_ent false (s "lt") _ _ IH). left; simpl; auto.
  - apply esc_plain; [lia|lia|lia|discriminate|exact IH].
  - neqb. simpl. apply esc_plain; auto; discriminate.
Qed.

Theorem escape_attr_clean x : escaped true (escape_attr x).
Proof.
  rewrite escape_attr_flat. induction x as [|c x IH]; simpl; [constructor|].
  unfold esc_attr_char, esc_char.
  destruct (eqb_cases c) as [->|[->|[->|[->|(H1 & H2 & H3 & H4)]]]]; simpl.
  - refine (esc_ent true (s "amp") _ _ IH). left; simpl; auto.
  - refine (esc_ent true (s "gt") _ _ IH). left; simpl; auto.
  - refine (esc_ent true (s "lt") _ _ IH). left; simpl; auto.
  - refine (esc_ent true (s "quot") _ _ IH). right; auto.
  - neqb. simpl. apply esc_plain; auto.
Qed.

Corollary escape_no_lt x : ~ In 60 (escape x).
Proof. apply (escaped_no false); [apply escape_clean | auto]. Qed.
Corollary escape_no_gt x : ~ In 62 (escape x).
Proof. apply (escaped_no false); [apply escape_clean | auto]. Qed.
Corollary escape_attr_no_lt x : ~ In 60 (escape_attr x).
Proof. apply (escaped_no true); [apply escape_attr_clean | auto]. Qed.
Corollary escape_attr_no_quote x : ~ In 34 (escape_attr x).
Proof. apply (escaped_no true); [apply escape_attr_clean | auto]. Qed.

(** * Decoding escaped text with the parser's text reader *)

Lemma cons_res_app c t r : cons_res c (Some (t, r)) = Some (c :: t, r).
Proof. reflexivity. Qed.

(** the head of escaped text is never a greater-than sign *)
Lemma escape_head_not_gt x rest a l :
  escape x ++ rest = a :: l -> (rest = [] \/ exists r, rest = 60 :: r) -> a <> 62.
Proof.
  intros E Hr. destruct x as [|c x].
  - simpl in E. destruct Hr as [->|[r ->]]; [discriminate|]. inversion E; lia.
  - rewrite escape_cons in E. unfold esc_char in E.
    destruct (eqb_cases c) as [->|[->|[->|[->|(H1 & H2 & H3 & H4)]]]]; simpl in E;
      try (inversion E; lia).
    revert E. neqb. simpl. intro E. inversion E; subst. exact H2.
Qed.

Lemma no_cdata_close c x rest :
  (rest = [] \/ exists r, rest = 60 :: r) ->
  starts_with cdata_close (c :: escape x ++ rest) = false.
Proof.
  intro Hr. unfold cdata_close. simpl.
  destruct (93 =? c) eqn:Ec; [|reflexivity]. simpl.
  destruct (escape x ++ rest) as [|a l] eqn:E; [reflexivity|].
  destruct (93 =? a) eqn:Ea; [|reflexivity]. simpl.
  destruct l as [|b l']; [reflexivity|].
  destruct (62 =? b) eqn:Eb; [|reflexivity]. exfalso.
  apply N.eqb_eq in Ea, Eb. subst a b.
  (* a = 93 is a plain character: it is the head of x *)
  destruct x as [|c1 x].
  - simpl in E. destruct Hr as [->|[r ->]]; [discriminate|]. inversion E.
  - rewrite escape_cons in E. unfold esc_char in E.
    destruct (eqb_cases c1) as [->|[->|[->|[->|(H1 & H2 & H3 & H4)]]]]; simpl in E;
      try (inversion E; fail).
    + inversion E as [[E1 E2]]. symmetry in E2. apply escape_head_not_gt in E2; auto.
    + revert E. neqb. simpl. intro E. inversion E as [[E1 E2]].
      symmetry in E2. apply escape_head_not_gt in E2; auto.
Qed.

(** main decoding lemma: an escaped string followed by the end of input or by a
    less-than sign that does not open a CDATA section *)
Lemma ptext_escape x rest :
  (rest = [] \/ exists r, rest = 60 :: r /\ starts_with cdata_open_tail r = false) ->
  ptext 0 TNorm (escape x ++ rest) = Some (x, rest).
Proof.
  intro Hr.
  assert (Hr' : rest = [] \/ exists r, rest = 60 :: r) by (destruct Hr as [->|(r & -> & _)]; eauto).
  induction x as [|c x IH].
  - simpl. destruct Hr as [->|(r & -> & Hc)]; [reflexivity|]. simpl. rewrite Hc. reflexivity.
  - rewrite escape_cons. unfold esc_char.
    destruct (eqb_cases c) as [->|[->|[->|[->|(H1 & H2 & H3 & H4)]]]].
    + change ((if 38 =? 38 then s "&amp;" else _) ++ escape x ++ rest)
        with (s "&amp;" ++ escape x ++ rest).
      change (ptext 0 TNorm (s "&amp;" ++ escape x ++ rest))
        with (cons_res 38 (ptext 0 TNorm (escape x ++ rest))).
      rewrite IH. reflexivity.
    + change (ptext 0 TNorm ((if 62 =? 38 then s "&amp;" else if 62 =? 62 then s "&gt;" else _) ++ escape x ++ rest))
        with (cons_res 62 (ptext 0 TNorm (escape x ++ rest))).
      rewrite IH. reflexivity.
    + change (ptext 0 TNorm ((if 60 =? 38 then s "&amp;" else if 60 =? 62 then s "&gt;" else if 60 =? 60 then s "&lt;" else _) ++ escape x ++ rest))
        with (cons_res 60 (ptext 0 TNorm (escape x ++ rest))).
      rewrite IH. reflexivity.
    + change ((if 34 =? 38 then s "&amp;" else if 34 =? 62 then s "&gt;" else if 34 =? 60 then s "&lt;" else [34]) ++ escape x ++ rest)
        with (34 :: escape x ++ rest).
      pose proof (no_cdata_close 34 x rest Hr') as Hc.
      cbn [ptext]. change (34 =? 60) with false. change (34 =? 38) with false. cbv iota.
      rewrite Hc, IH. reflexivity.
    + neqb. cbn [app]. pose proof (no_cdata_close c x rest Hr') as Hc.
      cbn [ptext]. neqb. rewrite Hc, IH. reflexivity.
Qed.

Theorem escape_decode x : xtext_decode (escape x) = Some x.
Proof.
  unfold xtext_decode. rewrite <- (app_nil_r (escape x)).
  rewrite ptext_escape by (left; reflexivity). reflexivity.
Qed.

(** * Attribute values *)
Lemma pattval_escape x rest :
  pattval 34 DNorm (escape_attr x ++ 34 :: rest) = Some (map attr_norm x, rest).
Proof.
  induction x as [|c x IH].
  - reflexivity.
  - rewrite escape_attr_cons. unfold esc_attr_char, esc_char.
    destruct (eqb_cases c) as [->|[->|[->|[->|(H1 & H2 & H3 & H4)]]]].
    + change (pattval 34 DNorm ((if 38 =? 34 then s "&quot;" else if 38 =? 38 then s "&amp;" else _) ++ escape_attr x ++ 34 :: rest))
        with (cons_res 38 (pattval 34 DNorm (escape_attr x ++ 34 :: rest))).
      rewrite IH. reflexivity.
    + change (pattval 34 DNorm ((if 62 =? 34 then s "&quot;" else if 62 =? 38 then s "&amp;" else if 62 =? 62 then s "&gt;" else _) ++ escape_attr x ++ 34 :: rest))
        with (cons_res 62 (pattval 34 DNorm (escape_attr x ++ 34 :: rest))).
      rewrite IH. reflexivity.
    + change (pattval 34 DNorm ((if 60 =? 34 then s "&quot;" else if 60 =? 38 then s "&amp;" else if 60 =? 62 then s "&gt;" else if 60 =? 60 then s "&lt;" else _) ++ escape_attr x ++ 34 :: rest))
        with (cons_res 60 (pattval 34 DNorm (escape_attr x ++ 34 :: rest))).
      rewrite IH. reflexivity.
    + change (pattval 34 DNorm ((if 34 =? 34 then s "&quot;" else _) ++ escape_attr x ++ 34 :: rest))
        with (cons_res 34 (pattval 34 DNorm (escape_attr x ++ 34 :: rest))).
      rewrite IH. reflexivity.
    + neqb. cbn [app pattval]. neqb. rewrite IH. reflexivity.
Qed.

Definition attr_val_ok (v : pystr) : bool :=
  forallb (fun c => negb ((c =? 9) || (c =? 10) || (c =? 13))) v.

Lemma attr_norm_id v : attr_val_ok v = true -> map attr_norm v = v.
Proof.
  induction v as [|c v IH]; simpl; [reflexivity|]. intro H.
  apply andb_true_iff in H as [Hc Hv]. rewrite (IH Hv). unfold attr_norm.
  apply negb_true_iff in Hc. rewrite Hc. reflexivity.
Qed.

Theorem escape_attr_decode x : attr_val_ok x = true -> xattr_decode (escape_attr x) = Some x.
Proof.
  intro H. unfold xattr_decode. rewrite pattval_escape, attr_norm_id by exact H. reflexivity.
Qed.

(* Proofs/C07_Escape.v — stage 1 of C07: xml.sax.saxutils.escape produces text that
   contains no markup and that the specification parser's decoders map back to the
   original string. *)
From MP Require Import Common.Base Common.XStr Spec.Xml Model.XmlOut.
Local Open Scope N_scope.

(** * escape as a character-wise map *)
Definition esc_char (c : N) : pystr :=
  if c =? 38 then s "&amp;" else if c =? 62 then s "&gt;" else if c =? 60 then s "&lt;" else [c].

Definition esc_attr_char (c : N) : pystr :=
  if c =? 34 then s "&quot;" else if c =? 9 then s "&#9;" else if c =? 10 then s "&#10;"
  else if c =? 13 then s "&#13;" else esc_char c.

Lemma flat_map_flat_map {A B C} (f : B -> list C) (g : A -> list B) (l : list A) :
  flat_map f (flat_map g l) = flat_map (fun x => flat_map f (g x)) l.
Proof.
  induction l as [|x l IH]; simpl; [reflexivity|].
  rewrite flat_map_app, IH. reflexivity.
Qed.

Lemma flat_map_ext' {A B} (f g : A -> list B) (l : list A) :
  (forall x, f x = g x) -> flat_map f l = flat_map g l.
Proof. intro H. induction l as [|x l IH]; simpl; [reflexivity|]. rewrite H, IH. reflexivity. Qed.

Lemma eqb_cases (c : N) :
  c = 38 \/ c = 62 \/ c = 60 \/ c = 34 \/ (c <> 38 /\ c <> 62 /\ c <> 60 /\ c <> 34).
Proof. lia. Qed.

Lemma eqb_cases7 (c : N) :
  c = 38 \/ c = 62 \/ c = 60 \/ c = 34 \/ c = 9 \/ c = 10 \/ c = 13 \/
  (c <> 38 /\ c <> 62 /\ c <> 60 /\ c <> 34 /\ c <> 9 /\ c <> 10 /\ c <> 13).
Proof. lia. Qed.

Ltac neqb :=
  repeat match goal with
         | H : ?c <> ?k |- context [?c =? ?k] =>
             let E := fresh in assert (E : (c =? k) = false) by (apply N.eqb_neq; exact H); rewrite E; clear E
         end.

Lemma escape_flat x : escape x = flat_map esc_char x.
Proof.
  unfold escape, replace1. rewrite !flat_map_flat_map. apply flat_map_ext'. intro c.
  unfold esc_char.
  destruct (eqb_cases c) as [->|[->|[->|[->|(H1 & H2 & H3 & H4)]]]]; try reflexivity.
  neqb. simpl. neqb. simpl. neqb. reflexivity.
Qed.

Lemma escape_attr_flat x : escape_attr x = flat_map esc_attr_char x.
Proof.
  unfold escape_attr. rewrite escape_flat. unfold replace1. rewrite !flat_map_flat_map.
  apply flat_map_ext'. intro c. unfold esc_attr_char, esc_char.
  destruct (eqb_cases7 c) as [->|[->|[->|[->|[->|[->|[->|(H1 & H2 & H3 & H4 & H5 & H6 & H7)]]]]]]];
    try reflexivity.
  neqb. cbn [flat_map app]. neqb. cbn [flat_map app]. neqb. cbn [flat_map app]. neqb.
  cbn [flat_map app]. neqb. reflexivity.
Qed.

Lemma escape_app a b : escape (a ++ b) = escape a ++ escape b.
Proof. rewrite !escape_flat. apply flat_map_app. Qed.

Lemma escape_attr_app a b : escape_attr (a ++ b) = escape_attr a ++ escape_attr b.
Proof. rewrite !escape_attr_flat. apply flat_map_app. Qed.

Lemma escape_cons c x : escape (c :: x) = esc_char c ++ escape x.
Proof. rewrite !escape_flat. reflexivity. Qed.

Lemma escape_attr_cons c x : escape_attr (c :: x) = esc_attr_char c ++ escape_attr x.
Proof. rewrite !escape_attr_flat. reflexivity. Qed.

(** * Text: escape(text, CR -> &#13;) as a character-wise map *)
Definition esc_text_char (c : N) : pystr := if c =? 13 then s "&#13;" else esc_char c.

Lemma tcases (c : N) :
  c = 38 \/ c = 62 \/ c = 60 \/ c = 13 \/ (c <> 38 /\ c <> 62 /\ c <> 60 /\ c <> 13).
Proof. lia. Qed.

Lemma escape_text_flat x : escape_text x = flat_map esc_text_char x.
Proof.
  unfold escape_text. rewrite escape_flat. unfold replace1. rewrite flat_map_flat_map.
  apply flat_map_ext'. intro c. unfold esc_text_char, esc_char.
  destruct (tcases c) as [->|[->|[->|[->|(H1 & H2 & H3 & H4)]]]]; try reflexivity.
  neqb. cbn [flat_map app]. neqb. reflexivity.
Qed.

Lemma escape_text_app a b : escape_text (a ++ b) = escape_text a ++ escape_text b.
Proof. rewrite !escape_text_flat. apply flat_map_app. Qed.

Lemma escape_text_cons c x : escape_text (c :: x) = esc_text_char c ++ escape_text x.
Proof. rewrite !escape_text_flat. reflexivity. Qed.

Lemma escape_text_nil : escape_text [] = [].
Proof. reflexivity. Qed.

(** text without the special characters is left alone *)
Definition plain_char (c : N) : bool := negb (c =? 38) && negb (c =? 60) && negb (c =? 62) && negb (c =? 13).

Lemma escape_text_plain x : forallb plain_char x = true -> escape_text x = x.
Proof.
  rewrite escape_text_flat. induction x as [|c x IH]; simpl; [reflexivity|].
  intro H. apply andb_true_iff in H as [Hc Hx]. rewrite (IH Hx).
  unfold plain_char in Hc. unfold esc_text_char, esc_char.
  destruct (c =? 38); [discriminate|]. destruct (c =? 60); [simpl in Hc; discriminate|].
  destruct (c =? 62); [simpl in Hc; discriminate|]. destruct (c =? 13); [simpl in Hc; discriminate|].
  reflexivity.
Qed.

(** * The grammar of escaped text: plain characters and references *)
Definition text_refs : list pystr := [s "amp"; s "lt"; s "gt"; s "#13"].
Definition attr_refs : list pystr := [s "amp"; s "lt"; s "gt"; s "quot"; s "#9"; s "#10"; s "#13"].

Inductive escaped (attr : bool) : pystr -> Prop :=
| esc_nil : escaped attr []
| esc_plain c l : c <> 38 -> c <> 60 -> c <> 62 -> c <> 13 ->
                  (attr = true -> c <> 34 /\ c <> 9 /\ c <> 10) ->
                  escaped attr l -> escaped attr (c :: l)
| esc_ent e l : In e (if attr then attr_refs else text_refs) ->
                escaped attr l -> escaped attr ([38] ++ e ++ [59] ++ l).

Lemma escaped_no (attr : bool) l k : escaped attr l ->
  (k = 60 \/ k = 62 \/ k = 13 \/ (attr = true /\ (k = 34 \/ k = 9 \/ k = 10))) -> ~ In k l.
Proof.
  intros H Hk. induction H as [|c l H1 H2 H3 H4 H5 _ IH|e l He _ IH].
  - simpl; tauto.
  - intros [E|E]; [|exact (IH E)]. subst c.
    destruct Hk as [->|[->|[->|[A Hk]]]]; [congruence|congruence|congruence|].
    destruct (H5 A) as (Q1 & Q2 & Q3). lia.
  - intro Hin. simpl in Hin. destruct Hin as [E|Hin]; [lia|].
    apply in_app_or in Hin as [Hin|Hin].
    + assert (He' : In e attr_refs).
      { destruct attr; [exact He|]. simpl in He. simpl. tauto. }
      simpl in He'.
      destruct He' as [<-|[<-|[<-|[<-|[<-|[<-|[<-|[]]]]]]]]; simpl in Hin; lia.
    + simpl in Hin. destruct Hin as [E|Hin]; [lia|exact (IH Hin)].
Qed.

Theorem escape_clean x : escaped false (escape_text x).
Proof.
  rewrite escape_text_flat. induction x as [|c x IH]; [constructor|].
  cbn [flat_map]. unfold esc_text_char, esc_char.
  destruct (tcases c) as [->|[->|[->|[->|(H1 & H2 & H3 & H4)]]]].
  - refine (esc_ent false (s "amp") _ _ IH). simpl; auto.
  - refine (esc_ent false (s "gt") _ _ IH). simpl; auto.
  - refine (esc_ent false (s "lt") _ _ IH). simpl; auto.
  - refine (esc_ent false (s "#13") _ _ IH). simpl; auto.
  - neqb. refine (esc_plain false c _ H1 H3 H2 H4 _ IH). discriminate.
Qed.

Theorem escape_attr_clean x : escaped true (escape_attr x).
Proof.
  rewrite escape_attr_flat. induction x as [|c x IH]; [constructor|].
  cbn [flat_map]. unfold esc_attr_char, esc_char.
  destruct (eqb_cases7 c) as [->|[->|[->|[->|[->|[->|[->|(H1 & H2 & H3 & H4 & H5 & H6 & H7)]]]]]]].
  - refine (esc_ent true (s "amp") _ _ IH). simpl; auto.
  - refine (esc_ent true (s "gt") _ _ IH). simpl; auto.
  - refine (esc_ent true (s "lt") _ _ IH). simpl; auto.
  - refine (esc_ent true (s "quot") _ _ IH). simpl; auto.
  - refine (esc_ent true (s "#9") _ _ IH). simpl; auto 10.
  - refine (esc_ent true (s "#10") _ _ IH). simpl; auto 10.
  - refine (esc_ent true (s "#13") _ _ IH). simpl; auto 10.
  - neqb. refine (esc_plain true c _ H1 H3 H2 H7 _ IH). auto.
Qed.

Corollary escape_no_lt x : ~ In 60 (escape_text x).
Proof. apply (escaped_no false); [apply escape_clean | auto]. Qed.
Corollary escape_no_gt x : ~ In 62 (escape_text x).
Proof. apply (escaped_no false); [apply escape_clean | auto]. Qed.
Corollary escape_no_cr x : ~ In 13 (escape_text x).
Proof. apply (escaped_no false); [apply escape_clean | auto]. Qed.
Corollary escape_attr_no_lt x : ~ In 60 (escape_attr x).
Proof. apply (escaped_no true); [apply escape_attr_clean | auto]. Qed.
Corollary escape_attr_no_quote x : ~ In 34 (escape_attr x).
Proof. apply (escaped_no true); [apply escape_attr_clean | auto 10]. Qed.
Corollary escape_attr_no_ws x k : k = 9 \/ k = 10 \/ k = 13 -> ~ In k (escape_attr x).
Proof.
  intro H. apply (escaped_no true); [apply escape_attr_clean|].
  destruct H as [->|[->| ->]]; auto 10.
Qed.

(** * Decoding escaped text with the parser's text reader *)

Lemma starts_with_cons a p b l : starts_with (a :: p) (b :: l) = (a =? b) && starts_with p l.
Proof. reflexivity. Qed.

(** the head of escaped text is never a greater-than sign *)
Lemma escape_head_not_gt x rest a l :
  escape_text x ++ rest = a :: l -> (rest = [] \/ exists r, rest = 60 :: r) -> a <> 62.
Proof.
  intros E Hr. destruct x as [|c x].
  - simpl in E. destruct Hr as [->|[r ->]]; [discriminate|]. inversion E; lia.
  - rewrite escape_text_cons in E. unfold esc_text_char, esc_char in E.
    destruct (tcases c) as [->|[->|[->|[->|(H1 & H2 & H3 & H4)]]]];
      try (cbn in E; inversion E; lia).
    revert E. neqb. cbn [app]. intro E. inversion E; subst. exact H2.
Qed.

Lemma no_cdata_close c x rest :
  (rest = [] \/ exists r, rest = 60 :: r) ->
  starts_with cdata_close (c :: escape_text x ++ rest) = false.
Proof.
  intro Hr. change cdata_close with [93; 93; 62]. rewrite starts_with_cons.
  destruct (93 =? c) eqn:Ec; [|reflexivity]. cbn [andb].
  destruct (escape_text x ++ rest) as [|a l] eqn:E; [reflexivity|]. rewrite starts_with_cons.
  destruct (93 =? a) eqn:Ea; [|reflexivity]. cbn [andb].
  destruct l as [|b l']; [reflexivity|]. rewrite starts_with_cons.
  destruct (62 =? b) eqn:Eb; [|reflexivity]. exfalso.
  apply N.eqb_eq in Ea, Eb. subst a b.
  destruct x as [|c1 x].
  - simpl in E. destruct Hr as [->|[r ->]]; [discriminate|]. inversion E.
  - rewrite escape_text_cons in E. unfold esc_text_char, esc_char in E.
    destruct (tcases c1) as [->|[->|[->|[->|(H1 & H2 & H3 & H4)]]]];
      try (cbn in E; inversion E; fail).
    revert E. neqb. cbn [app]. intro E. inversion E as [[E1 E2]].
    apply escape_head_not_gt in E2; [congruence|exact Hr].
Qed.

(** one decoding step per kind of character *)
Lemma ptext_amp l : ptext 0 TNorm (s "&amp;" ++ l) = cons_res 38 (ptext 0 TNorm l).
Proof. reflexivity. Qed.
Lemma ptext_gt l : ptext 0 TNorm (s "&gt;" ++ l) = cons_res 62 (ptext 0 TNorm l).
Proof. reflexivity. Qed.
Lemma ptext_lt l : ptext 0 TNorm (s "&lt;" ++ l) = cons_res 60 (ptext 0 TNorm l).
Proof. reflexivity. Qed.
Lemma ptext_cr l : ptext 0 TNorm (s "&#13;" ++ l) = cons_res 13 (ptext 0 TNorm l).
Proof. reflexivity. Qed.

Lemma ptext_plain c l :
  c <> 38 -> c <> 60 -> starts_with cdata_close (c :: l) = false ->
  ptext 0 TNorm (c :: l) = cons_res c (ptext 0 TNorm l).
Proof. intros H1 H2 H3. cbn [ptext]. neqb. rewrite H3. reflexivity. Qed.

(** main decoding lemma: an escaped string followed by the end of input or by a
    less-than sign that does not open a CDATA section *)
Lemma ptext_escape x rest :
  (rest = [] \/ exists r, rest = 60 :: r /\ starts_with cdata_open_tail r = false) ->
  ptext 0 TNorm (escape_text x ++ rest) = Some (x, rest).
Proof.
  intro Hr.
  assert (Hr' : rest = [] \/ exists r, rest = 60 :: r) by (destruct Hr as [->|(r & -> & _)]; eauto).
  induction x as [|c x IH].
  - cbn [escape_text escape replace1 flat_map app]. destruct Hr as [->|(r & -> & Hc)]; [reflexivity|].
    cbn [ptext]. change (60 =? 60) with true. cbv iota. rewrite Hc. reflexivity.
  - rewrite escape_text_cons. unfold esc_text_char, esc_char.
    destruct (tcases c) as [->|[->|[->|[->|(H1 & H2 & H3 & H4)]]]].
    + change (38 =? 13) with false. change (38 =? 38) with true. cbv iota.
      rewrite <- app_assoc, ptext_amp, IH. reflexivity.
    + change (62 =? 13) with false. change (62 =? 38) with false. change (62 =? 62) with true. cbv iota.
      rewrite <- app_assoc, ptext_gt, IH. reflexivity.
    + change (60 =? 13) with false. change (60 =? 38) with false. change (60 =? 62) with false.
      change (60 =? 60) with true. cbv iota. rewrite <- app_assoc, ptext_lt, IH. reflexivity.
    + change (13 =? 13) with true. cbv iota. rewrite <- app_assoc, ptext_cr, IH. reflexivity.
    + neqb. cbn [app].
      rewrite ptext_plain, IH; [reflexivity|exact H1|exact H3|apply no_cdata_close; exact Hr'].
Qed.

Theorem escape_decode x : xtext_decode (escape_text x) = Some x.
Proof.
  unfold xtext_decode. rewrite <- (app_nil_r (escape_text x)).
  rewrite ptext_escape by (left; reflexivity). reflexivity.
Qed.

(** * Attribute values *)
Lemma pattval_ref e ch l :
  resolve_ref e = Some ch -> ~ In 59 e ->
  forall acc, pattval 34 (DRef acc) (e ++ 59 :: l) =
              match resolve_ref (rev acc ++ e) with
              | Some ch => cons_res ch (pattval 34 DNorm l)
              | None => None
              end.
Proof.
  intros _ Hn. induction e as [|c e IH]; intro acc.
  - cbn [app pattval]. change (59 =? 59) with true. cbv iota. rewrite app_nil_r. reflexivity.
  - cbn [app pattval]. assert (c <> 59) by (intro; subst; apply Hn; left; reflexivity).
    neqb. rewrite IH by (intro; apply Hn; right; assumption).
    cbn [rev]. rewrite <- app_assoc. reflexivity.
Qed.

Lemma pattval_entity e ch l :
  resolve_ref e = Some ch -> ~ In 59 e ->
  pattval 34 DNorm ([38] ++ e ++ 59 :: l) = cons_res ch (pattval 34 DNorm l).
Proof.
  intros H Hn. cbn [app pattval]. change (38 =? 34) with false. change (38 =? 60) with false.
  change (38 =? 38) with true. cbv iota.
  rewrite (pattval_ref e ch l H Hn []). cbn [rev app]. rewrite H. reflexivity.
Qed.

Lemma pattval_plain c l :
  c <> 34 -> c <> 60 -> c <> 38 -> c <> 9 -> c <> 10 -> c <> 13 ->
  pattval 34 DNorm (c :: l) = cons_res c (pattval 34 DNorm l).
Proof.
  intros. cbn [pattval]. neqb. unfold attr_norm. neqb. reflexivity.
Qed.

Lemma pattval_escape x rest :
  pattval 34 DNorm (escape_attr x ++ 34 :: rest) = Some (x, rest).
Proof.
  induction x as [|c x IH].
  - reflexivity.
  - rewrite escape_attr_cons. unfold esc_attr_char, esc_char.
    destruct (eqb_cases7 c) as [->|[->|[->|[->|[->|[->|[->|(H1 & H2 & H3 & H4 & H5 & H6 & H7)]]]]]]].
    + change (pattval 34 DNorm ([38] ++ s "amp" ++ 59 :: escape_attr x ++ 34 :: rest) = Some (38 :: x, rest)).
      rewrite (pattval_entity (s "amp") 38), IH; [reflexivity|reflexivity|simpl; lia].
    + change (pattval 34 DNorm ([38] ++ s "gt" ++ 59 :: escape_attr x ++ 34 :: rest) = Some (62 :: x, rest)).
      rewrite (pattval_entity (s "gt") 62), IH; [reflexivity|reflexivity|simpl; lia].
    + change (pattval 34 DNorm ([38] ++ s "lt" ++ 59 :: escape_attr x ++ 34 :: rest) = Some (60 :: x, rest)).
      rewrite (pattval_entity (s "lt") 60), IH; [reflexivity|reflexivity|simpl; lia].
    + change (pattval 34 DNorm ([38] ++ s "quot" ++ 59 :: escape_attr x ++ 34 :: rest) = Some (34 :: x, rest)).
      rewrite (pattval_entity (s "quot") 34), IH; [reflexivity|reflexivity|simpl; lia].
    + change (pattval 34 DNorm ([38] ++ s "#9" ++ 59 :: escape_attr x ++ 34 :: rest) = Some (9 :: x, rest)).
      rewrite (pattval_entity (s "#9") 9), IH; [reflexivity|reflexivity|simpl; lia].
    + change (pattval 34 DNorm ([38] ++ s "#10" ++ 59 :: escape_attr x ++ 34 :: rest) = Some (10 :: x, rest)).
      rewrite (pattval_entity (s "#10") 10), IH; [reflexivity|reflexivity|simpl; lia].
    + change (pattval 34 DNorm ([38] ++ s "#13" ++ 59 :: escape_attr x ++ 34 :: rest) = Some (13 :: x, rest)).
      rewrite (pattval_entity (s "#13") 13), IH; [reflexivity|reflexivity|simpl; lia].
    + neqb. cbn [app]. rewrite pattval_plain, IH by assumption. reflexivity.
Qed.

Theorem escape_attr_decode x : xattr_decode (escape_attr x) = Some x.
Proof. unfold xattr_decode. rewrite pattval_escape. reflexivity. Qed.

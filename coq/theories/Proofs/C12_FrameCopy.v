(* Proofs/C12_FrameCopy.v — the frame clause of C12: after copy(), a single edit applied inside
   one of the two trees leaves the reification of the other tree unchanged. *)
From MP Require Import Common.Base Common.Tree Model.Heap Model.Namespace Model.Registry
     Model.HeapEdits Model.Copy Spec.CopySpec
     Proofs.HeapInv Proofs.DictFacts Proofs.C13_Walk Proofs.C13_Refine
     Proofs.C12_Base Proofs.C12_Copy Proofs.C12_Main Proofs.C12_Frame.

Lemma opt_all_inv {A B} (f : A -> option B) l ys :
  opt_all (map f l) = Some ys -> forall x, In x l -> exists y, f x = Some y.
Proof.
  revert ys; induction l as [|a l IH]; intros ys H x Hx; [destruct Hx|]. simpl in H.
  destruct (f a) as [b|] eqn:E; [|discriminate].
  destruct (opt_all (map f l)) as [bs|] eqn:E2; [|discriminate].
  destruct Hx as [<-|Hx]; [eauto | eapply IH; eauto].
Qed.

Lemma reify_tree_at : forall g h x t, reify g h x = Some t -> tree_at h g x.
Proof.
  induction g as [|g IH]; intros h x t H; simpl in H; [discriminate|].
  destruct (nget h x) as [r|] eqn:Hx; [|discriminate].
  destruct (opt_all (map (reify g h) (kids r))) as [ts|] eqn:E; [|discriminate].
  econstructor; [exact Hx|]. intros c Hc. destruct (opt_all_inv _ _ _ E c Hc) as [tc Htc]. eapply IH; eauto.
Qed.

Lemma tree_at_sub h k a m : tree_at h k a -> desc h a m -> tree_at h k m.
Proof.
  intros Ht Hd. induction Hd as [|p m Hd IH Hin]; [exact Ht|].
  inversion IH as [k' p' r Hp Hk]; subst. rewrite (kids_of_Some _ _ _ Hp) in Hin.
  eapply tree_at_mono; [apply Hk, Hin | lia].
Qed.

Section FrameCopy.
  Variable uuid : nat -> pystr.
  Hypothesis uuid_inj : forall a b, uuid a = uuid b -> a = b.
  Variables (h : heap) (n : nat) (h' : heap) (n' : nat).
  Hypothesis Fo : Forest h.
  Hypothesis W : HeapWf h.
  Hypothesis Aln : alive h n.
  Hypothesis P : CopyPost uuid h n h' n'.

  Let B := next_id h.
  Let L := next_loc h.

  Lemma orig_alive x : desc h n x -> alive h x.
  Proof. intro H. eapply tree_at_desc; [apply (fuel_ok h n Fo Aln) | exact H]. Qed.

  Lemma NsInv_after : NsInv h'.
  Proof.
    pose proof (cp_wf _ _ _ _ _ P) as W'. constructor.
    - intros m r Hm. apply (hw_locs _ W' _ _ Hm).
    - apply (hw_dicts _ W').
  Qed.

  Lemma in_orig m : desc h' n m -> m < B /\ nget h' m = nget h m /\ desc h n m.
  Proof.
    intro Hd. pose proof (orig_desc uuid h n h' n' W P m orig_alive Hd) as Hd0.
    destruct (orig_alive m Hd0) as [r Hr]. pose proof (hw_ids _ W _ _ Hr) as Hlt.
    split; [exact Hlt|]. split; [apply (cp_old_nodes _ _ _ _ _ P), Hlt | exact Hd0].
  Qed.

  Lemma in_copy m : desc h' n' m -> B <= m < next_id h'.
  Proof. apply (copy_nodes_range uuid h n h' n' P). Qed.

  (** a namespace walk started inside either tree has enough fuel *)
  Lemma ready_in_trees t : desc h' n' t \/ desc h' n t -> NsInv h' /\ tree_at h' (fuel_of h') t.
  Proof.
    intro Ht. split; [apply NsInv_after|].
    pose proof (cp_fuel _ _ _ _ _ P) as Fu.
    eapply tree_at_mono; [|exact Fu].
    destruct Ht as [Ht|Ht].
    - destruct (reify_total _ _ _ (fuel_ok h n Fo Aln)) as [t0 Ht0].
      destruct (cp_reify _ _ _ _ _ P _ _ Ht0) as (t1 & Ht1 & _).
      eapply tree_at_sub; [eapply reify_tree_at; eauto | exact Ht].
    - destruct (in_orig t Ht) as (_ & _ & Hd0).
      eapply tree_at_frame.
      + eapply tree_at_sub; [apply (fuel_ok h n Fo Aln) | exact Hd0].
      + intros m Hm. apply (cp_old_nodes _ _ _ _ _ P).
        destruct (orig_alive m (desc_trans _ _ _ _ Hd0 Hm)) as [r Hr]. eapply (hw_ids _ W); eauto.
  Qed.

  Lemma alloc_in_h' x m : desc h' x m -> (forall y, desc h' x y -> alive h' y) ->
    exists rm, nget h' m = Some rm /\ forall l, In l (locs3 rm) -> l < next_loc h'.
  Proof.
    intros Hd Al. destruct (Al m Hd) as [rm Hrm]. exists rm; split; [exact Hrm|].
    destruct (hw_locs _ (cp_wf _ _ _ _ _ P) _ _ Hrm) as (A1 & A2 & A3).
    intros l [<-|[<-|[<-|[]]]]; assumption.
  Qed.

  Lemma copy_alive y : desc h' n' y -> alive h' y.
  Proof.
    intro Hd. destruct (cp_new _ _ _ _ _ P y (in_copy y Hd)) as (r & Hr & _). exists r; exact Hr.
  Qed.

  Lemma orig_alive' y : desc h' n y -> alive h' y.
  Proof.
    intro Hd. destruct (in_orig y Hd) as (_ & E & Hd0). destruct (orig_alive y Hd0) as [r Hr].
    exists r. rewrite E. exact Hr.
  Qed.

  (** (a) an edit applied inside the copy is invisible in the original *)
  Theorem edit_in_copy_frame e h2 :
    exec_edit h' e = Ok h2 -> edit_ready h' e ->
    (forall t, In t (edit_nodes e) -> desc h' n' t) ->
    forall g, reify g h2 n = reify g h' n.
  Proof.
    intros R Rd In'. apply (edit_frame h' e h2 n R Rd).
    - intros t m Ht Hd Ho. pose proof (in_copy m (desc_trans _ _ _ _ (In' t Ht) Hd)).
      destruct (in_orig m Ho) as (Hlt & _). lia.
    - intros m rm l Ho Hrm Hl Hin. destruct (in_orig m Ho) as (Hlt & E & _).
      rewrite E in Hrm. destruct (hw_locs _ W _ _ Hrm) as (A1 & A2 & A3). fold L in A1, A2, A3.
      assert (Lt : l < L) by (destruct Hl as [<-|[<-|[<-|[]]]]; assumption).
      (* the dict written in place belongs to a node of the copy: it was allocated by the copy *)
      assert (G : forall t, In t (edit_nodes e) -> forall rt, nget h' t = Some rt -> L <= attrs_loc rt /\ L <= extras_loc rt).
      { intros t Ht rt Hrt. destruct (cp_new _ _ _ _ _ P t (in_copy t (In' t Ht))) as (r1 & Hr1 & _ & _ & C1 & C2 & _).
        rewrite Hrt in Hr1; injection Hr1 as <-. fold L in C1, C2. auto. }
      destruct e as [x v|x v|x v|x k v|x k|x k v|o|a b|a b c d]; simpl in Hin; try contradiction.
      + destruct (nget h' x) as [rx|] eqn:Hx; [|contradiction]. destruct Hin as [<-|[]].
        destruct (G x (or_introl eq_refl) rx Hx). lia.
      + destruct (nget h' x) as [rx|] eqn:Hx; [|contradiction]. destruct Hin as [<-|[]].
        destruct (G x (or_introl eq_refl) rx Hx). lia.
      + destruct (nget h' x) as [rx|] eqn:Hx; [|contradiction]. destruct Hin as [<-|[]].
        destruct (G x (or_introl eq_refl) rx Hx). lia.
    - intros m Hm. apply (alloc_in_h' n m Hm orig_alive').
  Qed.

  (** (b) an edit applied inside the original is invisible in the copy *)
  Theorem edit_in_orig_frame e h2 :
    exec_edit h' e = Ok h2 -> edit_ready h' e ->
    (forall t, In t (edit_nodes e) -> desc h' n t) ->
    forall g, reify g h2 n' = reify g h' n'.
  Proof.
    intros R Rd In'. apply (edit_frame h' e h2 n' R Rd).
    - intros t m Ht Hd Hc. pose proof (in_copy m Hc).
      destruct (in_orig m (desc_trans _ _ _ _ (In' t Ht) Hd)) as (Hlt & _). lia.
    - intros m rm l Hc Hrm Hl Hin.
      destruct (cp_new _ _ _ _ _ P m (in_copy m Hc)) as (r1 & Hr1 & _ & _ & C1 & C2 & C3 & _).
      rewrite Hrm in Hr1; injection Hr1 as <-. fold L in C1, C2, C3.
      assert (Ge : L <= l) by (destruct Hl as [<-|[<-|[<-|[]]]]; assumption).
      assert (G : forall t, In t (edit_nodes e) -> forall rt, nget h' t = Some rt -> attrs_loc rt < L /\ extras_loc rt < L).
      { intros t Ht rt Hrt. destruct (in_orig t (In' t Ht)) as (_ & E & _). rewrite E in Hrt.
        destruct (hw_locs _ W _ _ Hrt) as (A1 & A2 & _). fold L in A1, A2. auto. }
      destruct e as [x v|x v|x v|x k v|x k|x k v|o|a b|a b c d]; simpl in Hin; try contradiction.
      + destruct (nget h' x) as [rx|] eqn:Hx; [|contradiction]. destruct Hin as [<-|[]].
        destruct (G x (or_introl eq_refl) rx Hx). lia.
      + destruct (nget h' x) as [rx|] eqn:Hx; [|contradiction]. destruct Hin as [<-|[]].
        destruct (G x (or_introl eq_refl) rx Hx). lia.
      + destruct (nget h' x) as [rx|] eqn:Hx; [|contradiction]. destruct Hin as [<-|[]].
        destruct (G x (or_introl eq_refl) rx Hx). lia.
    - intros m Hm. apply (alloc_in_h' n' m Hm copy_alive).
  Qed.
End FrameCopy.

(* Proofs/C09_Inv.v — the forest invariant (Spec/ListModel.v [Inv]) is preserved by every
   edit under the proviso [pre], hence along every history. *)
From Coq Require Import Permutation.
From MP Require Import Common.Base.
From MP Require Import Model.Edits.
From MP Require Import Spec.ListModel.
From MP Require Import Proofs.C09_Lists.
From MP Require Import Proofs.C09_Refine.

(** * membership / NoDup of the edited lists *)
Lemma insert_perm (k c : nat) l : Permutation (firstn k l ++ [c] ++ skipn k l) (c :: l).
Proof.
  simpl. rewrite <- (firstn_skipn k l) at 3. symmetry. apply Permutation_middle.
Qed.

Lemma split_at (l : list nat) i c : nth_error l i = Some c -> l = firstn i l ++ c :: skipn (S i) l.
Proof.
  revert i; induction l as [|y r IH]; intros [|i]; simpl; intro H; try discriminate.
  - inversion H; reflexivity.
  - f_equal. apply IH. exact H.
Qed.

Lemma remove_perm (l : list nat) i c : nth_error l i = Some c ->
  Permutation l (c :: (firstn i l ++ skipn (S i) l)).
Proof.
  intro H. rewrite (split_at l i c H) at 1. symmetry. apply Permutation_middle.
Qed.

Lemma replace_perm (l : list nat) i x : Permutation (firstn i l ++ [x] ++ skipn (S i) l) (x :: (firstn i l ++ skipn (S i) l)).
Proof. simpl. symmetry. apply Permutation_middle. Qed.

Lemma in_insert (k c : nat) l x : In x (firstn k l ++ [c] ++ skipn k l) <-> x = c \/ In x l.
Proof.
  split; intro H.
  - apply (Permutation_in _ (insert_perm k c l)) in H. destruct H; auto.
  - apply (Permutation_in _ (Permutation_sym (insert_perm k c l))). destruct H; [left|right]; auto.
Qed.

Lemma in_removed (l : list nat) i c x : NoDup l -> nth_error l i = Some c ->
  (In x (firstn i l ++ skipn (S i) l) <-> In x l /\ x <> c).
Proof.
  intros N H. pose proof (remove_perm l i c H) as P.
  assert (N' : NoDup (c :: (firstn i l ++ skipn (S i) l))) by (eapply Permutation_NoDup; eauto).
  inversion N' as [|? ? NI N'']; subst. split.
  - intro I. split.
    + apply (Permutation_in _ (Permutation_sym P)). right; exact I.
    + intro; subst; contradiction.
  - intros [I NE]. apply (Permutation_in _ P) in I. destruct I; [congruence | assumption].
Qed.

Lemma nodup_removed (l : list nat) i c : NoDup l -> nth_error l i = Some c -> NoDup (firstn i l ++ skipn (S i) l).
Proof.
  intros N H. pose proof (remove_perm l i c H) as P.
  assert (N' : NoDup (c :: (firstn i l ++ skipn (S i) l))) by (eapply Permutation_NoDup; eauto).
  inversion N'; assumption.
Qed.

Lemma in_replaced (l : list nat) i old new x : NoDup l -> nth_error l i = Some old ->
  (In x (firstn i l ++ [new] ++ skipn (S i) l) <-> x = new \/ (In x l /\ x <> old)).
Proof.
  intros N H. rewrite <- (in_removed l i old x N H). split; intro I.
  - apply (Permutation_in _ (replace_perm l i new)) in I. destruct I; auto.
  - apply (Permutation_in _ (Permutation_sym (replace_perm l i new))). destruct I; [left|right]; auto.
Qed.

Lemma nodup_replaced (l : list nat) i old new : NoDup l -> nth_error l i = Some old -> ~ In new l ->
  NoDup (firstn i l ++ [new] ++ skipn (S i) l).
Proof.
  intros N H NI. eapply Permutation_NoDup; [apply Permutation_sym, replace_perm|].
  constructor; [|eapply nodup_removed; eauto].
  intro I. apply (in_removed l i old new N H) in I. tauto.
Qed.

(** the transposition of two positions *)
Definition tr (i j k : nat) : nat := if Nat.eqb k i then j else if Nat.eqb k j then i else k.

Lemma tr_lt i j k n : i < n -> j < n -> k < n -> tr i j k < n.
Proof. unfold tr. intros. destruct (Nat.eqb k i); [assumption|]. destruct (Nat.eqb k j); assumption. Qed.

Lemma tr_invol i j k : tr i j (tr i j k) = k.
Proof.
  unfold tr. destruct (Nat.eqb_spec k i) as [->|NI].
  - rewrite Nat.eqb_refl. destruct (Nat.eqb_spec j i); auto.
  - destruct (Nat.eqb_spec k j) as [->|NJ].
    + rewrite Nat.eqb_refl. reflexivity.
    + destruct (Nat.eqb_spec k i); [contradiction|]. destruct (Nat.eqb_spec k j); [contradiction|]. reflexivity.
Qed.

Lemma in_swap_at i j l x : i < length l -> j < length l -> (In x (swap_at i j l) <-> In x l).
Proof.
  intros Li Lj. split; intro H.
  - apply (In_nth _ _ 0) in H as [k [Lk E]]. rewrite swap_at_length in Lk.
    rewrite swap_at_nth in E by assumption. subst x. apply nth_In. apply (tr_lt i j k); assumption.
  - apply (In_nth _ _ 0) in H as [k [Lk E]].
    assert (Lt : tr i j k < length l) by (apply tr_lt; assumption).
    assert (E' : nth (tr i j k) (swap_at i j l) 0 = x).
    { rewrite swap_at_nth by assumption. fold (tr i j (tr i j k)). rewrite tr_invol. exact E. }
    rewrite <- E'. apply nth_In. rewrite swap_at_length. exact Lt.
Qed.

Lemma nodup_swap_at i j l : i < length l -> j < length l -> NoDup l -> NoDup (swap_at i j l).
Proof.
  intros Li Lj N. apply (NoDup_nth _ 0). intros a b La Lb E.
  rewrite swap_at_length in La, Lb. rewrite !swap_at_nth in E by assumption.
  fold (tr i j a) in E. fold (tr i j b) in E.
  apply (proj1 (NoDup_nth l 0) N) in E; try (apply tr_lt; assumption).
  rewrite <- (tr_invol i j a), <- (tr_invol i j b). congruence.
Qed.

(** * reachability *)
Lemma desc_trans s x y z : desc s x y -> desc s y z -> desc s x z.
Proof.
  induction 1 as [p c I | p c d I D IH]; intro H.
  - eapply desc_step; eauto.
  - eapply desc_step; eauto.
Qed.

Lemma desc_mono s s' : (forall p c, In c (kids s' p) -> In c (kids s p)) ->
  forall x y, desc s' x y -> desc s x y.
Proof.
  intros M x y D. induction D as [p c I | p c d I D IH].
  - apply desc_kid; auto.
  - eapply desc_step; eauto.
Qed.

(** one edge p -> c added (and possibly others dropped) *)
Lemma desc_add s s' p c :
  (forall q x, In x (kids s' q) -> In x (kids s q) \/ (q = p /\ x = c)) ->
  forall x y, desc s' x y ->
    desc s x y \/ desc s c p \/ c = p \/ ((x = p \/ desc s x p) /\ (y = c \/ desc s c y)).
Proof.
  intros E x y D. induction D as [q z I | q z d I D IH].
  - destruct (E q z I) as [O | [-> ->]].
    + left. apply desc_kid; exact O.
    + right; right; right. split; left; reflexivity.
  - destruct (E q z I) as [O | [-> ->]].
    + destruct IH as [A | [A | [A | [[A|A] B]]]].
      * left. eapply desc_step; eauto.
      * right; left; exact A.
      * right; right; left; exact A.
      * subst z. right; right; right. split; [right; apply desc_kid; exact O | exact B].
      * right; right; right. split; [right; eapply desc_step; eauto | exact B].
    + destruct IH as [A | [A | [A | [[A|A] B]]]].
      * right; right; right. split; [left; reflexivity | right; exact A].
      * right; left; exact A.
      * right; right; left; exact A.
      * right; right; left; exact A.
      * right; left; exact A.
Qed.

Lemma acyclic_add s s' p c :
  (forall q x, In x (kids s' q) -> In x (kids s q) \/ (q = p /\ x = c)) ->
  (forall x, ~ desc s x x) -> c <> p -> ~ desc s c p ->
  forall x, ~ desc s' x x.
Proof.
  intros E A NE ND x D. destruct (desc_add s s' p c E x x D) as [H | [H | [H | [[H1|H1] [H2|H2]]]]].
  - exact (A x H).
  - exact (ND H).
  - exact (NE H).
  - congruence.
  - subst x. exact (ND H2).
  - subst x. exact (ND H1).
  - apply ND. eapply desc_trans; eauto.
Qed.

(** * basic consequences of the invariant *)
Lemma inv_unique_lister s p q c : Inv s -> In c (kids s p) -> In c (kids s q) -> p = q.
Proof.
  intros I A B. apply (inv_parent s I) in A. apply (inv_parent s I) in B. congruence.
Qed.

Lemma inv_root_detached s i : Inv s -> parent s i = None -> detached s i.
Proof. intros I H q X. apply (inv_parent s I) in X. congruence. Qed.

Lemma inv_detached_root s i : Inv s -> detached s i -> parent s i = None.
Proof.
  intros I D. destruct (parent s i) as [p|] eqn:E; [|reflexivity].
  apply (inv_listed s I) in E. exfalso. exact (D p E).
Qed.

(** the all-detached forest *)
Lemma inv_initial nm rg : Inv (mkst (fun _ => []) (fun _ => None) nm rg).
Proof.
  constructor; simpl.
  - intros p c [].
  - discriminate.
  - intro; constructor.
  - intros x D. remember x as y in D at 2. clear Heqy. induction D as [p c [] | p c d []].
Qed.

(** * add_child *)
Lemma inv_add s p c idx : Inv s -> attach_ok s p c -> Inv (fst (exec_add s p c idx)).
Proof.
  intros I [Dt [NE ND]]. unfold exec_add.
  set (l' := match idx with None => kids s p ++ [c] | Some z => py_insert z c (kids s p) end).
  assert (HIn : forall x, In x l' <-> x = c \/ In x (kids s p)).
  { intro x. unfold l'. destruct idx as [z|].
    - rewrite py_insert_spec. apply in_insert.
    - rewrite in_app_iff. simpl. intuition congruence. }
  assert (HND : NoDup l').
  { unfold l'. destruct idx as [z|].
    - rewrite py_insert_spec. eapply Permutation_NoDup; [apply Permutation_sym, insert_perm|].
      constructor; [apply Dt | apply (inv_nodup s I)].
    - eapply Permutation_NoDup; [apply Permutation_cons_append|].
      constructor; [apply Dt | apply (inv_nodup s I)]. }
  clearbody l'. simpl fst.
  assert (K : forall q x, In x (kids (set_parent (set_kids s p l') c (Some p)) q) <->
                          (q = p /\ (x = c \/ In x (kids s p))) \/ (q <> p /\ In x (kids s q))).
  { intros q x. simpl. rewrite upd_eq. destruct (Nat.eqb_spec q p) as [->|NQ].
    - rewrite HIn. intuition congruence.
    - intuition congruence. }
  constructor.
  - intros q x H. apply K in H. simpl. rewrite upd_eq.
    destruct H as [[-> [->|H]] | [NQ H]].
    + rewrite Nat.eqb_refl. reflexivity.
    + destruct (Nat.eqb_spec x c) as [->|NX]; [reflexivity | apply (inv_parent s I); exact H].
    + destruct (Nat.eqb_spec x c) as [->|NX]; [exfalso; exact (Dt q H) | apply (inv_parent s I); exact H].
  - intros q x H. apply K. simpl in H. rewrite upd_eq in H.
    revert H. destruct (Nat.eqb_spec x c) as [EX|NX]; intro H.
    + inversion H; subst. left; auto.
    + apply (inv_listed s I) in H. destruct (Nat.eq_dec q p) as [->|NQ]; [left | right]; auto.
  - intro q. simpl. rewrite upd_eq. destruct (Nat.eqb q p); [exact HND | apply (inv_nodup s I)].
  - apply (acyclic_add s _ p c); auto; [|apply (inv_acyclic s I)].
    intros q x H. apply K in H. destruct H as [[-> [->|H]] | [NQ H]]; auto.
Qed.

(** * remove_child *)
Lemma opt_nat_eqb_true a b : opt_nat_eqb a b = true <-> a = Some b.
Proof.
  destruct a as [x|]; simpl; [|split; discriminate].
  rewrite Nat.eqb_eq. split; congruence.
Qed.

Lemma parent_clear_parent_if s c p x :
  parent (clear_parent_if s c p) x =
  if Nat.eqb x c then (if opt_nat_eqb (parent s c) p then None else parent s c) else parent s x.
Proof.
  unfold clear_parent_if. destruct (opt_nat_eqb (parent s c) p) eqn:E; simpl.
  - rewrite upd_eq. reflexivity.
  - destruct (Nat.eqb_spec x c); subst; reflexivity.
Qed.

Lemma inv_remove s p c : Inv s -> Inv (fst (exec_remove s p c)).
Proof.
  intro I. unfold exec_remove. rewrite py_remove_spec.
  destruct (index_of c (kids s p)) as [i|] eqn:E; [|exact I].
  destruct (index_of_Some _ _ _ E) as [L [N _]]. simpl fst.
  pose proof (inv_nodup s I p) as ND.
  set (l' := firstn i (kids s p) ++ skipn (S i) (kids s p)).
  assert (HIn : forall x, In x l' <-> In x (kids s p) /\ x <> c) by (intro x; apply in_removed; auto).
  assert (Pc : parent s c = Some p) by (apply (inv_parent s I); eapply nth_error_In; eauto).
  assert (K : forall q x, In x (kids (clear_parent_if (set_kids s p l') c p) q) <->
                          (q = p /\ In x (kids s p) /\ x <> c) \/ (q <> p /\ In x (kids s q))).
  { intros q x. rewrite kids_clear_parent_if. simpl. rewrite upd_eq.
    destruct (Nat.eqb_spec q p) as [->|NQ]; [rewrite HIn|]; intuition congruence. }
  assert (P : forall x, parent (clear_parent_if (set_kids s p l') c p) x = if Nat.eqb x c then None else parent s x).
  { intro x. rewrite parent_clear_parent_if. simpl. rewrite Pc. simpl. rewrite Nat.eqb_refl. reflexivity. }
  constructor.
  - intros q x H. apply K in H. rewrite P.
    destruct H as [[-> [H NX]] | [NQ H]].
    + destruct (Nat.eqb_spec x c); [contradiction|]. apply (inv_parent s I); exact H.
    + destruct (Nat.eqb_spec x c) as [->|NX]; [|apply (inv_parent s I); exact H].
      exfalso. apply (inv_parent s I) in H. congruence.
  - intros q x H. rewrite P in H. revert H. destruct (Nat.eqb_spec x c) as [EX|NX]; intro H; [discriminate|].
    apply (inv_listed s I) in H. apply K. destruct (Nat.eq_dec q p) as [->|NQ]; [left | right]; auto.
  - intro q. rewrite kids_clear_parent_if. simpl. rewrite upd_eq.
    destruct (Nat.eqb q p); [eapply nodup_removed; eauto | apply (inv_nodup s I)].
  - intros x D. apply (inv_acyclic s I x). revert D. apply desc_mono.
    intros q y H. apply K in H. destruct H as [[-> [H _]] | [_ H]]; exact H.
Qed.

(** * remove_children *)
Lemma parent_fold_clear p l : forall s x,
  parent (fold_left (fun s c => clear_parent_if s c p) l s) x =
  if existsb (Nat.eqb x) l && opt_nat_eqb (parent s x) p then None else parent s x.
Proof.
  induction l as [|c l IH]; intros s x; simpl; [reflexivity|].
  rewrite IH, parent_clear_parent_if.
  destruct (Nat.eqb_spec x c) as [->|NX]; simpl.
  - destruct (opt_nat_eqb (parent s c) p) eqn:E; simpl.
    + rewrite andb_false_r. reflexivity.
    + rewrite E, andb_false_r. reflexivity.
  - reflexivity.
Qed.

Lemma existsb_eqb_In x l : existsb (Nat.eqb x) l = true <-> In x l.
Proof.
  rewrite existsb_exists. split.
  - intros [y [I E]]. apply Nat.eqb_eq in E. subst; exact I.
  - intro I. exists x. split; [exact I | apply Nat.eqb_refl].
Qed.

Lemma inv_clear s p : Inv s -> Inv (fst (exec_clear s p)).
Proof.
  intro I. unfold exec_clear. simpl fst.
  set (s1 := fold_left (fun s c => clear_parent_if s c p) (kids s p) s).
  assert (K : forall q x, In x (kids (set_kids s1 p []) q) <-> q <> p /\ In x (kids s q)).
  { intros q x. simpl. rewrite upd_eq. unfold s1. rewrite kids_fold_clear.
    destruct (Nat.eqb_spec q p) as [->|NQ]; simpl; intuition congruence. }
  assert (P : forall x, parent (set_kids s1 p []) x = if existsb (Nat.eqb x) (kids s p) then None else parent s x).
  { intro x. simpl. unfold s1. rewrite parent_fold_clear.
    destruct (existsb (Nat.eqb x) (kids s p)) eqn:E; simpl; [|reflexivity].
    apply existsb_eqb_In in E. apply (inv_parent s I) in E. rewrite E. simpl. rewrite Nat.eqb_refl. reflexivity. }
  constructor.
  - intros q x H. apply K in H as [NQ H]. rewrite P.
    destruct (existsb (Nat.eqb x) (kids s p)) eqn:E; [|apply (inv_parent s I); exact H].
    apply existsb_eqb_In in E. exfalso. apply NQ. eapply inv_unique_lister; eauto.
  - intros q x H. rewrite P in H.
    destruct (existsb (Nat.eqb x) (kids s p)) eqn:E; [discriminate|].
    apply (inv_listed s I) in H. apply K. split; [|exact H].
    intro; subst q. apply existsb_eqb_In in H. congruence.
  - intro q. simpl. rewrite upd_eq. unfold s1. rewrite kids_fold_clear.
    destruct (Nat.eqb q p); [constructor | apply (inv_nodup s I)].
  - intros x D. apply (inv_acyclic s I x). revert D. apply desc_mono.
    intros q y H. apply K in H. tauto.
Qed.

(** * shift *)
Lemma inv_shift s p c d sib : Inv s -> Inv (fst (exec_shift s p c d sib)).
Proof.
  intro I. rewrite exec_shift_spec.
  destruct (pos c (kids s p)) as [i|] eqn:E; [|exact I].
  rewrite <- index_of_pos in E. destruct (index_of_Some _ _ _ E) as [L _].
  destruct (spec_target (name s) (kids s p) i d sib) as [j|] eqn:T; [|exact I].
  assert (Lj : j < length (kids s p)) by (eapply spec_target_lt; eauto).
  simpl fst.
  assert (K : forall q x, In x (kids (set_kids s p (swap_at i j (kids s p))) q) <-> In x (kids s q)).
  { intros q x. simpl. rewrite upd_eq. destruct (Nat.eqb_spec q p) as [->|NQ]; [|reflexivity].
    apply in_swap_at; assumption. }
  constructor.
  - intros q x H. apply K in H. apply (inv_parent s I); exact H.
  - intros q x H. apply K. apply (inv_listed s I); exact H.
  - intro q. simpl. rewrite upd_eq. destruct (Nat.eqb q p); [|apply (inv_nodup s I)].
    apply nodup_swap_at; auto. apply (inv_nodup s I).
  - intros x D. apply (inv_acyclic s I x). revert D. apply desc_mono.
    intros q y H. apply K in H. exact H.
Qed.

(** * replace_child *)
Lemma inv_replace fuel s p old new del :
  Inv s -> pre s (ReplaceChild p old new del) -> Inv (fst (exec_replace fuel s p old new del)).
Proof.
  intros I Pre. rewrite exec_replace_spec.
  destruct (Nat.eqb_spec (name s new) (name s old)) as [EN|NN]; simpl negb; cbv iota; [|exact I].
  destruct (pos old (kids s p)) as [i|] eqn:E; [|exact I].
  rewrite <- index_of_pos in E. destruct (index_of_Some _ _ _ E) as [L [N _]].
  assert (Io : In old (kids s p)) by (eapply nth_error_In; eauto).
  destruct (Pre EN Io) as [Dt [NE ND]].
  assert (ON : old <> new) by (intro; subst; exact (Dt p Io)).
  pose proof (inv_nodup s I p) as NDl.
  cbv zeta.
  set (l' := firstn i (kids s p) ++ [new] ++ skipn (S i) (kids s p)).
  set (s2' := set_kids (set_parent s new (Some p)) p l').
  assert (Eon : Nat.eqb old new = false) by (apply Nat.eqb_neq; exact ON).
  rewrite Eon. simpl negb. cbv iota.
  set (s2 := clear_parent_if s2' old p).
  assert (HIn : forall x, In x l' <-> x = new \/ (In x (kids s p) /\ x <> old)) by (intro x; apply in_replaced; auto).
  assert (Po : parent s old = Some p) by (apply (inv_parent s I); exact Io).
  assert (K : forall q x, In x (kids s2 q) <->
                          (q = p /\ (x = new \/ (In x (kids s p) /\ x <> old))) \/ (q <> p /\ In x (kids s q))).
  { intros q x. unfold s2. rewrite kids_clear_parent_if. simpl. rewrite upd_eq.
    destruct (Nat.eqb_spec q p) as [->|NQ]; [rewrite HIn|]; intuition congruence. }
  assert (P : forall x, parent s2 x = if Nat.eqb x old then None else if Nat.eqb x new then Some p else parent s x).
  { intro x. unfold s2. rewrite parent_clear_parent_if. simpl. rewrite !upd_eq.
    rewrite Eon, Po. simpl. rewrite Nat.eqb_refl. reflexivity. }
  assert (G : Inv s2).
  { constructor.
    - intros q x H. apply K in H. rewrite P.
      destruct H as [[-> [->|[H NX]]] | [NQ H]].
      + rewrite (proj2 (Nat.eqb_neq new old)) by congruence. rewrite Nat.eqb_refl. reflexivity.
      + rewrite (proj2 (Nat.eqb_neq x old) NX).
        destruct (Nat.eqb_spec x new) as [->|NX']; [reflexivity | apply (inv_parent s I); exact H].
      + destruct (Nat.eqb_spec x old) as [->|NX].
        * exfalso. apply NQ. eapply inv_unique_lister; eauto.
        * destruct (Nat.eqb_spec x new) as [->|NX']; [exfalso; exact (Dt q H) | apply (inv_parent s I); exact H].
    - intros q x H. rewrite P in H. apply K. revert H.
      destruct (Nat.eqb_spec x old) as [EX|NX]; [discriminate|].
      destruct (Nat.eqb_spec x new) as [EX|NX']; intro H.
      + inversion H; subst. left; auto.
      + apply (inv_listed s I) in H. destruct (Nat.eq_dec q p) as [->|NQ]; [left | right]; auto.
    - intro q. unfold s2. rewrite kids_clear_parent_if. simpl. rewrite upd_eq.
      destruct (Nat.eqb q p); [|apply (inv_nodup s I)].
      eapply nodup_replaced; eauto.
    - apply (acyclic_add s _ p new); auto; [|apply (inv_acyclic s I)].
      intros q x H. apply K in H. destruct H as [[-> [->|[H _]]] | [_ H]]; auto. }
  destruct del; [|exact G].
  destruct (del_tree fuel (kids s2) (reg s2) old) as [r e]. simpl fst.
  destruct G as [G1 G2 G3 G4]. constructor; simpl; auto.
  intros x D. apply (G4 x). revert D. apply desc_mono. simpl. auto.
Qed.

(** * every edit, every history *)
Theorem c09_inv fuel o s : Inv s -> pre s o -> Inv (fst (exec fuel o s)).
Proof.
  intros I Pre. destruct o as [p c idx | p c | p old new del | p c d sib | p]; simpl exec.
  - apply inv_add; assumption.
  - apply inv_remove; assumption.
  - apply inv_replace; assumption.
  - apply inv_shift; assumption.
  - apply inv_clear; assumption.
Qed.

Inductive hist_ok (fuel : nat) : st -> list op -> Prop :=
| hist_nil s : hist_ok fuel s []
| hist_cons s o h : pre s o -> hist_ok fuel (fst (exec fuel o s)) h -> hist_ok fuel s (o :: h).

Theorem c09_inv_history fuel h : forall s, Inv s -> hist_ok fuel s h -> Inv (run fuel h s).
Proof.
  induction h as [|o h IH]; intros s I H; [exact I|].
  inversion H; subst. simpl. apply IH; [apply c09_inv; assumption | assumption].
Qed.

Corollary c09_inv_from_detached fuel h nm rg :
  let s0 := mkst (fun _ => []) (fun _ => None) nm rg in
  hist_ok fuel s0 h -> Inv (run fuel h s0).
Proof. intros s0 H. apply c09_inv_history; [apply inv_initial | exact H]. Qed.

(* Proofs/C16_Post.v — consequences of the [expands] relation (Spec/ExpandSpec.v):
   no references node is left; subtrees that hold no references node and are not inside one
   (in particular the referenced elements) are still there, unchanged. *)
From MP Require Import Common.Base Common.Tree Spec.ExpandSpec Proofs.C15_Eq Proofs.C16_Check.

Lemma existsb_flat_map {A B} (p : B -> bool) (f : A -> list B) l :
  existsb p (flat_map f l) = existsb (fun x => existsb p (f x)) l.
Proof. induction l as [|x r IH]; [reflexivity|]. cbn [flat_map existsb]. rewrite existsb_app, IH. reflexivity. Qed.

Lemma has_ref_unfold d ks : has_ref (FT d ks) = is_ref (FT d ks) || existsb has_ref ks.
Proof. unfold has_ref at 1. cbn [preorder existsb]. rewrite existsb_flat_map. reflexivity. Qed.

(** * copies hold a references node iff the source does *)
Lemma copy_is_ref c c' : copy_of c c' -> is_ref c' = is_ref c.
Proof.
  intro H. inversion H as [? ? ? ? SB _]; subst. destruct SB as (E & _).
  unfold is_ref, ft_name. cbn. rewrite E. reflexivity.
Qed.

Lemma copy_has_ref : forall c c', copy_of c c' -> has_ref c' = has_ref c.
Proof.
  apply (ftree_ind' (fun c => forall c', copy_of c c' -> has_ref c' = has_ref c)).
  intros d ks IH c' H. pose proof (copy_is_ref _ _ H) as R.
  inversion H as [? d' ? ks' SB F2]; subst. rewrite !has_ref_unfold, R. f_equal.
  clear H R SB. induction F2 as [|k k' r r' Hk _ IHr]; [reflexivity|].
  inversion IH; subst. cbn [existsb]. rewrite (H1 _ Hk), IHr; [reflexivity | assumption].
Qed.

(** * no references node is left *)
Section Post.
Variable src : ftree -> list ftree.

(** what replaces a references node of [u] holds no references node *)
Definition clean_sources (u : ftree) : Prop :=
  forall r, In r (refs_of u) -> Forall (fun c => has_ref c = false) (src r).

Lemma refs_of_child d ks k r : In k ks -> In r (refs_of k) -> In r (refs_of (FT d ks)).
Proof.
  intros Ik Ir. unfold refs_of in *. apply filter_In in Ir. destruct Ir as [Ir R].
  apply filter_In. split; [|exact R]. unfold descendants. cbn [ft_kids].
  apply in_flat_map. exists k. split; [exact Ik|]. rewrite preorder_unfold. right; exact Ir.
Qed.

Lemma refs_of_self d ks r : In r ks -> is_ref r = true -> In r (refs_of (FT d ks)).
Proof.
  intros Ik R. unfold refs_of. apply filter_In. split; [|exact R]. unfold descendants. cbn [ft_kids].
  apply in_flat_map. exists r. split; [exact Ik|]. rewrite preorder_unfold. left; reflexivity.
Qed.

Definition inner_clean (u : ftree) : Prop := Forall (fun k => has_ref k = false) (ft_kids u).

Lemma inner_clean_refs u : inner_clean u -> refs_of u = [].
Proof.
  unfold inner_clean, refs_of, descendants. intro H. induction H as [|k r Hk _ IH]; [reflexivity|].
  cbn [flat_map]. rewrite filter_app, IH, app_nil_r. unfold has_ref in Hk.
  induction (preorder k) as [|x l IHl]; [reflexivity|]. cbn [existsb] in Hk. apply orb_false_iff in Hk.
  destruct Hk as [H1 H2]. cbn [filter]. rewrite H1. apply IHl, H2.
Qed.

Definition clean_ok (u : ftree) : Prop :=
  forall u', expands src u u' -> clean_sources u -> inner_clean u'.

Lemma splice_clean d ks : Forall clean_ok ks -> forall ks',
  splice (expands src) src ks ks' -> clean_sources (FT d ks) -> Forall (fun k => has_ref k = false) ks'.
Proof.
  intros IH ks' SP. induction SP as [|r ks cs ks' R C SP IHs|k k' ks ks' R E SP IHs]; intro CS; [constructor| |].
  - inversion IH; subst. apply Forall_app. split.
    + pose proof (CS r (refs_of_self d (r :: ks) r (or_introl eq_refl) R)) as F.
      clear -C F. induction C as [|a b l l' Hab _ IHl]; [constructor|].
      inversion F; subst. constructor; [rewrite (copy_has_ref _ _ Hab); assumption | apply IHl; assumption].
    + apply IHs; [assumption|]. intros x Hx. apply CS.
      unfold refs_of, descendants in *. cbn [ft_kids flat_map] in *. rewrite filter_app. apply in_or_app. right; exact Hx.
  - inversion IH as [|? ? Hk IHr]; subst. constructor.
    + destruct k' as [d' kk']. rewrite has_ref_unfold.
      assert (Rk' : is_ref (FT d' kk') = false).
      { inversion E; subst. exact R. }
      rewrite Rk'. cbn [orb].
      assert (IC : inner_clean (FT d' kk')).
      { apply (Hk _ E). intros x Hx. apply CS. eapply refs_of_child; [left; reflexivity | exact Hx]. }
      unfold inner_clean in IC. cbn [ft_kids] in IC. clear -IC.
      induction IC as [|a l Ha _ IHl]; [reflexivity|]. cbn [existsb]. rewrite Ha, IHl. reflexivity.
    + apply IHs; [assumption|]. intros x Hx. apply CS.
      unfold refs_of, descendants in *. cbn [ft_kids flat_map] in *. rewrite filter_app. apply in_or_app. right; exact Hx.
Qed.

Theorem expands_clean : forall u, clean_ok u.
Proof.
  apply ftree_ind'. intros d ks IH u' E CS. inversion E as [? ? ks' SP]; subst.
  unfold inner_clean. cbn [ft_kids]. eapply splice_clean; eassumption.
Qed.

(** * what holds no references node is left alone *)
Lemma expands_no_ref_id : forall u u', expands src u u' -> has_ref u = false -> u' = u.
Proof.
  apply (ftree_ind' (fun u => forall u', expands src u u' -> has_ref u = false -> u' = u)).
  intros d ks IH u' E H. inversion E as [? ? ks' SP]; subst. f_equal.
  rewrite has_ref_unfold in H. apply orb_false_iff in H. destruct H as [_ H]. clear E.
  induction SP as [|r ks cs ks' R C SP IHs|k k' ks ks' R Ek SP IHs]; [reflexivity| |].
  - cbn [existsb] in H. apply orb_false_iff in H. destruct H as [H _].
    destruct r as [dr kr]. rewrite has_ref_unfold, R in H. discriminate.
  - cbn [existsb] in H. apply orb_false_iff in H. destruct H as [H1 H2].
    inversion IH as [|? ? Hk IHr]; subst. f_equal; [apply Hk; assumption | apply IHs; assumption].
Qed.

Lemma outside_refs_inv t x :
  outside_refs t x -> x = t \/ exists c, In c (ft_kids t) /\ is_ref c = false /\ outside_refs c x.
Proof.
  induction 1 as [t|t d kids c O IH I R].
  - left; reflexivity.
  - destruct IH as [E|(c0 & I0 & R0 & O0)].
    + subst t. right. exists c. split; [exact I|]. split; [exact R | constructor].
    + right. exists c0. split; [exact I0|]. split; [exact R0|]. eapply OR_child; eassumption.
Qed.

Lemma splice_in_other ks ks' c :
  splice (expands src) src ks ks' -> In c ks -> is_ref c = false -> exists c', In c' ks' /\ expands src c c'.
Proof.
  induction 1 as [|r ks cs ks' R C SP IHs|k k' ks ks' R E SP IHs]; intros I Rc; [destruct I| |].
  - destruct I as [<-|I]; [congruence|]. destruct (IHs I Rc) as (c' & I' & E'). exists c'. split; [apply in_or_app; right; exact I' | exact E'].
  - destruct I as [<-|I]; [exists k'; split; [left; reflexivity | exact E]|].
    destruct (IHs I Rc) as (c' & I' & E'). exists c'. split; [right; exact I' | exact E'].
Qed.

Theorem expands_keeps : forall u u', expands src u u' ->
  forall x, outside_refs u x -> has_ref x = false -> In x (preorder u').
Proof.
  apply (ftree_ind' (fun u => forall u', expands src u u' -> forall x, outside_refs u x -> has_ref x = false -> In x (preorder u'))).
  intros d ks IH u' E x O H. apply outside_refs_inv in O. destruct O as [->|(c & I & R & O)].
  - rewrite (expands_no_ref_id _ _ E H). rewrite preorder_unfold. left; reflexivity.
  - inversion E as [? ? ks' SP]; subst. cbn [ft_kids] in I.
    destruct (splice_in_other _ _ _ SP I R) as (c' & I' & E').
    rewrite Forall_forall in IH. pose proof (IH c I c' E' x O H) as J.
    cbn [preorder]. right. apply in_flat_map. exists c'. split; assumption.
Qed.

End Post.

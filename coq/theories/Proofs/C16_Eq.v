(* Proofs/C16_Eq.v — the edit phase of the expand model realises the spec's [expands]
   relation; ids of the copies; C16_eq / C16_atomic for the whole function. *)
From Coq Require Import Permutation.
From MP Require Import Common.Base Common.Tree Model.Expand Spec.ExpandSpec Proofs.C15_Eq Proofs.C16_Check.

(** * the inner loops as functions *)
Definition copy_go : list ftree -> nat -> list ftree * nat :=
  fix go (ks : list ftree) (n : nat) : list ftree * nat :=
    match ks with
    | [] => ([], n)
    | k :: r =>
        let '(k', n1) := copy_tree k n in
        let '(r', n2) := go r n1 in
        (k' :: r', n2)
    end.

Lemma copy_tree_unfold d kids n :
  copy_tree (FT d kids) n = let '(kids', n') := copy_go kids (S n) in (FT (set_id d (fresh n)) kids', n').
Proof. reflexivity. Qed.

Lemma copy_go_cons k r n :
  copy_go (k :: r) n = let '(k', n1) := copy_tree k n in let '(r', n2) := copy_go r n1 in (k' :: r', n2).
Proof. reflexivity. Qed.

Definition exp_go (ids : list (pystr * ftree)) (pns : list (pystr * pystr)) : list ftree -> nat -> list ftree * nat :=
  fix go (ks : list ftree) (n : nat) : list ftree * nat :=
    match ks with
    | [] => ([], n)
    | k :: r =>
        if pystr_eqb (ft_name k) REFERENCES then
          let src_kids := match source_of ids k with Some src => ft_kids src | None => [] end in
          let '(cs, n1) := copy_into pns src_kids n in
          let '(r', n2) := go r n1 in
          (cs ++ r', n2)
        else
          let '(k', n1) := expand_tree ids k n in
          let '(r', n2) := go r n1 in
          (k' :: r', n2)
    end.

Lemma expand_tree_unfold ids d kids n :
  expand_tree ids (FT d kids) n = let '(kids', n') := exp_go ids (n_nsmap d) kids n in (FT d kids', n').
Proof. reflexivity. Qed.

Lemma exp_go_cons ids pns k r n :
  exp_go ids pns (k :: r) n =
  if pystr_eqb (ft_name k) REFERENCES then
    let src_kids := match source_of ids k with Some src => ft_kids src | None => [] end in
    let '(cs, n1) := copy_into pns src_kids n in
    let '(r', n2) := exp_go ids pns r n1 in
    (cs ++ r', n2)
  else
    let '(k', n1) := expand_tree ids k n in
    let '(r', n2) := exp_go ids pns r n1 in
    (k' :: r', n2).
Proof. reflexivity. Qed.

Lemma ids_of_unfold_m d kids : ids_of (FT d kids) = n_id d :: flat_map ids_of kids.
Proof.
  unfold ids_of. cbn [preorder map]. f_equal.
  induction kids as [|k r IH]; [reflexivity|]. cbn [flat_map]. rewrite map_app, IH. reflexivity.
Qed.

(** * copies *)
Lemma same_but_id_set d i : same_but_id d (set_id d i).
Proof. repeat split. Qed.

Definition size (t : ftree) : nat := length (preorder t).

Lemma size_unfold d kids : size (FT d kids) = S (length (flat_map preorder kids)).
Proof. reflexivity. Qed.

(** a copy has the source's shape and fields, consumes [size] fresh ids, in order *)
Definition copy_ok (k : ftree) : Prop :=
  forall n, copy_of k (fst (copy_tree k n)) /\
            snd (copy_tree k n) = n + size k /\
            ids_of (fst (copy_tree k n)) = map fresh (seq n (size k)) /\
            n_nsmap (ft_d (fst (copy_tree k n))) = n_nsmap (ft_d k).

Lemma seq_app' a b n : seq n (a + b) = seq n a ++ seq (n + a) b.
Proof. apply seq_app. Qed.

Lemma copy_go_ok ks : Forall copy_ok ks -> forall n,
  Forall2 copy_of ks (fst (copy_go ks n)) /\
  snd (copy_go ks n) = n + length (flat_map preorder ks) /\
  flat_map ids_of (fst (copy_go ks n)) = map fresh (seq n (length (flat_map preorder ks))).
Proof.
  induction 1 as [|k r Hk _ IH]; intro n.
  - cbn. split; [constructor|]. split; [lia | reflexivity].
  - rewrite copy_go_cons. destruct (Hk n) as (C & S1 & I1 & _).
    destruct (copy_tree k n) as [k' n1]. cbn [fst snd] in *. subst n1.
    destruct (IH (n + size k)) as (C2 & S2 & I2).
    destruct (copy_go r (n + size k)) as [r' n2]. cbn [fst snd] in *. subst n2.
    cbn [flat_map]. rewrite app_length. fold (size k).
    split; [constructor; assumption|]. split; [lia|].
    rewrite I1, I2, seq_app', map_app. reflexivity.
Qed.

Theorem copy_tree_ok : forall k, copy_ok k.
Proof.
  apply ftree_ind'. intros d kids IH n. rewrite copy_tree_unfold.
  destruct (copy_go_ok kids IH (S n)) as (C & Sz & I).
  destruct (copy_go kids (S n)) as [kids' n']. cbn [fst snd] in *. subst n'.
  rewrite size_unfold. split; [constructor; [apply same_but_id_set | exact C]|].
  split; [lia|]. split; [|reflexivity].
  rewrite ids_of_unfold_m. cbn [set_id n_id seq map]. rewrite I. reflexivity.
Qed.

(** * attaching a copy: ids never change; nothing changes under an equal namespace map *)
Lemma ns_push_ids p v : forall t, ids_of (ns_push p v t) = ids_of t.
Proof.
  apply ftree_ind'. intros d kids IH. cbn [ns_push]. rewrite !ids_of_unfold_m. cbn [set_nsmap n_id]. f_equal.
  induction IH as [|k r Hk _ IHr]; [reflexivity|]. cbn [map flat_map]. rewrite Hk, IHr. reflexivity.
Qed.

Lemma adopt_ids pns c : ids_of (adopt pns c) = ids_of c.
Proof.
  unfold adopt. destruct (dict_eqb pns (n_nsmap (ft_d c))); [reflexivity|].
  revert c. induction pns as [|[p v] r IH]; intro c; [reflexivity|]. cbn [fold_left fst snd].
  destruct (is_some (assoc p (n_nsmap (ft_d c)))); rewrite IH; [reflexivity | apply ns_push_ids].
Qed.

Lemma adopt_agree pns c : dict_eqb pns (n_nsmap (ft_d c)) = true -> adopt pns c = c.
Proof. intro H. unfold adopt. rewrite H. reflexivity. Qed.

Lemma copy_into_ok pns ks : forall n,
  snd (copy_into pns ks n) = n + length (flat_map preorder ks) /\
  flat_map ids_of (fst (copy_into pns ks n)) = map fresh (seq n (length (flat_map preorder ks))) /\
  (forallb (fun c => dict_eqb pns (n_nsmap (ft_d c))) ks = true -> Forall2 copy_of ks (fst (copy_into pns ks n))).
Proof.
  induction ks as [|k r IH]; intro n.
  - cbn. split; [lia|]. split; [reflexivity | constructor].
  - cbn [copy_into]. destruct (copy_tree_ok k n) as (C & S1 & I1 & NS).
    destruct (copy_tree k n) as [k' n1]. cbn [fst snd] in *. subst n1.
    destruct (IH (n + size k)) as (S2 & I2 & C2).
    destruct (copy_into pns r (n + size k)) as [r' n2]. cbn [fst snd] in *. subst n2.
    cbn [flat_map]. rewrite app_length. fold (size k).
    split; [lia|]. split.
    + rewrite adopt_ids, I1, I2, seq_app', map_app. reflexivity.
    + cbn [forallb]. intro A. apply andb_true_iff in A. destruct A as [A1 A2].
      rewrite adopt_agree; [|rewrite NS; exact A1]. constructor; [exact C | apply C2, A2].
Qed.

(** * the edit phase realises [expands] *)
Section Edit.
Variable t : ftree.   (* the whole input: where ids are looked up *)

Definition exp_ok (u : ftree) : Prop :=
  forall n, ns_agree_at t u = true -> expands (src_kids t) u (fst (expand_tree (id_pairs t) u n)).

Lemma ns_agree_at_unfold d kids :
  ns_agree_at t (FT d kids) =
  forallb (fun k => if is_ref k
                    then forallb (fun c => dict_eqb (n_nsmap d) (n_nsmap (ft_d c))) (src_kids t k)
                    else ns_agree_at t k) kids.
Proof. reflexivity. Qed.

Lemma exp_go_splice d kids : Forall exp_ok kids -> forall n,
  forallb (fun k => if is_ref k
                    then forallb (fun c => dict_eqb (n_nsmap d) (n_nsmap (ft_d c))) (src_kids t k)
                    else ns_agree_at t k) kids = true ->
  splice (expands (src_kids t)) (src_kids t) kids (fst (exp_go (id_pairs t) (n_nsmap d) kids n)).
Proof.
  induction 1 as [|k r Hk _ IH]; intros n A; [constructor|].
  cbn [forallb] in A. apply andb_true_iff in A. destruct A as [A1 A2].
  rewrite exp_go_cons. change (pystr_eqb (ft_name k) REFERENCES) with (is_ref k).
  destruct (is_ref k) eqn:R; cbv zeta.
  - change (match source_of (id_pairs t) k with Some src => ft_kids src | None => [] end) with (src_kids t k).
    destruct (copy_into_ok (n_nsmap d) (src_kids t k) n) as (_ & _ & C).
    destruct (copy_into (n_nsmap d) (src_kids t k) n) as [cs n1]. cbn [fst] in C.
    specialize (IH n1 A2). destruct (exp_go (id_pairs t) (n_nsmap d) r n1) as [r' n2]. cbn [fst] in *.
    apply SP_ref; [exact R | apply C, A1 | exact IH].
  - specialize (Hk n A1). destruct (expand_tree (id_pairs t) k n) as [k' n1]. cbn [fst] in Hk.
    specialize (IH n1 A2). destruct (exp_go (id_pairs t) (n_nsmap d) r n1) as [r' n2]. cbn [fst] in *.
    apply SP_other; assumption.
Qed.

Theorem expand_tree_expands : forall u, exp_ok u.
Proof.
  apply ftree_ind'. intros d kids IH n A. rewrite expand_tree_unfold.
  pose proof (exp_go_splice d kids IH n A) as S.
  destruct (exp_go (id_pairs t) (n_nsmap d) kids n) as [kids' n']. cbn [fst] in *.
  constructor. exact S.
Qed.

End Edit.

(** * the whole function *)
Theorem expand_ok t :
  attrs_wf t -> spec_ok t = true -> refs_flat t = true -> ns_agree t = true ->
  exists t' n, expand t = EOk t' (flat_map ids_of (refs_of t)) n /\ expands (src_kids t) t t'.
Proof.
  intros W S F A. unfold expand. rewrite (check_spec t W), S, in_scope_spec, F, find_desc_spec.
  pose proof (expand_tree_expands t t 0 A) as E.
  destruct (expand_tree (id_pairs t) t 0) as [t' n]. cbn [fst] in E.
  exists t', n. split; [reflexivity | exact E].
Qed.

(** the failure path: the check phase alone decides, before any edit *)
Theorem expand_fail t : attrs_wf t -> spec_ok t = false -> expand t = EFail.
Proof. intros W S. unfold expand. rewrite (check_spec t W), S. reflexivity. Qed.

Theorem expand_fail_only_check t : expand t = EFail -> check t = None.
Proof.
  unfold expand. destruct (check t) as [ids|]; [|reflexivity].
  destruct (in_scope ids t); [|discriminate]. destruct (expand_tree ids t 0). discriminate.
Qed.

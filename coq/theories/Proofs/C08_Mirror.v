(* Proofs/C08_Mirror.v — C08_mirror: on the infosets of the property's document class the
   model of _process_element returns the declarative mirror (Spec/Mirror.v), the in-scope
   bindings read as a finite map (a child whose map equals its parent's as a dict takes the
   parent's key order in the implementation). *)
From MP Require Import Common.Base Common.XStr Spec.Xml Spec.Infoset Spec.Mirror Model.XmlIn
  Proofs.C07_Lex Proofs.C07_Ns Proofs.C08_Policy Proofs.C08_Attr.
Local Open Scope N_scope.

Lemma xel_ind2 (P : xel -> Prop) :
  (forall k tag pfx m text tail attrib kids, Forall P kids -> P (XEl k tag pfx m text tail attrib kids)) ->
  forall e, P e.
Proof.
  intro H. fix IH 1. intros [k tag pfx m text tail attrib kids]. apply H.
  induction kids as [|k1 r IHr]; constructor; [apply IH | exact IHr].
Qed.

(** * Optional-key dicts *)
Lemma okey_eqb_eq a b : okey_eqb a b = true <-> a = b.
Proof. unfold okey_eqb. apply opt_eqb_spec. intros; apply pystr_eqb_eq. Qed.

Lemma okey_eqb_refl a : okey_eqb a a = true.
Proof. apply okey_eqb_eq. reflexivity. Qed.

Lemma oassoc_Some_In k d v : oassoc k d = Some v -> In (k, v) d.
Proof.
  induction d as [|[k' v'] d IH]; [discriminate|]. cbn [oassoc].
  destruct (okey_eqb k k') eqn:E.
  - apply okey_eqb_eq in E. subst. intros [= ->]. left. reflexivity.
  - intro H. right. exact (IH H).
Qed.

Lemma oassoc_None k d : oassoc k d = None <-> ~ In k (map fst d).
Proof.
  induction d as [|[k' v'] d IH]; [cbn; split; [intros _ []|reflexivity]|]. cbn [oassoc map fst].
  destruct (okey_eqb k k') eqn:E.
  - apply okey_eqb_eq in E. subst. split; [discriminate|]. intro H. exfalso. apply H. left. reflexivity.
  - rewrite IH. split; intro H.
    + intros [E'|E']; [|exact (H E')]. subst. rewrite okey_eqb_refl in E. discriminate.
    + intro Hin. apply H. right. exact Hin.
Qed.

Lemma oassoc_In_some k v d : In (k, v) d -> exists v', oassoc k d = Some v'.
Proof.
  intro Hin. destruct (oassoc k d) as [v'|] eqn:E; [eauto|]. apply oassoc_None in E. exfalso. apply E.
  apply in_map_iff. exists (k, v). split; [reflexivity|exact Hin].
Qed.

Lemma omap_equiv_refl m : omap_equiv m m.
Proof. split; reflexivity. Qed.

Lemma NoDup_fst_of_pkeys m : NoDup (pkeys m) -> (forall k u, In (k, u) m -> exists p, k = Some p) -> NoDup (map fst m).
Proof.
  unfold pkeys. intros H Hs. induction m as [|[k v] m IH]; [constructor|]. cbn [map fst] in *.
  inversion H as [|? ? Hk Hm]; subst. constructor.
  - intro Hin. apply Hk. apply in_map_iff in Hin as ([k' v'] & E & Hin). cbn [fst] in E. subst k'.
    apply in_map_iff. exists (k, v'). split; [reflexivity|exact Hin].
  - apply IH; [exact Hm|]. intros k' u' Hin. apply (Hs k' u'). right. exact Hin.
Qed.

Lemma odict_eq_equiv a b :
  odict_eq_unord a b = true -> NoDup (map fst a) -> omap_equiv b a.
Proof.
  unfold odict_eq_unord. intros H Ha. apply andb_true_iff in H as [Hlen H]. apply Nat.eqb_eq in Hlen.
  rewrite forallb_forall in H. split; [symmetry; exact Hlen|]. intro p.
  destruct (oassoc p a) as [v|] eqn:E.
  - apply oassoc_Some_In in E. specialize (H _ E). cbn [fst snd] in H.
    destruct (oassoc p b) as [v'|]; [|discriminate]. apply pystr_eqb_eq in H. subst. reflexivity.
  - apply oassoc_None. apply oassoc_None in E. intro Hin. apply E.
    assert (Hincl : incl (map fst a) (map fst b)).
    { intros k Hk. apply in_map_iff in Hk as ([k' v] & <- & Hk). specialize (H _ Hk). cbn [fst snd] in H.
      destruct (oassoc k' b) as [v'|] eqn:E'; [|discriminate]. apply oassoc_Some_In in E'.
      apply in_map_iff. exists (k', v'). split; [reflexivity|exact E']. }
    assert (Hi : incl (map fst b) (map fst a))
      by (apply NoDup_length_incl; [exact Ha | rewrite !map_length; lia | exact Hincl]).
    exact (Hi p Hin).
Qed.

(** * The recursion over children, as separate functions *)
Fixpoint proc_kids (clean collapse : bool) (literals : list pystr) (nsmap : list (option pystr * pystr))
         (ks : list xel) : res (list itree) :=
  match ks with
  | [] => Ok []
  | k1 :: r =>
      match l_kind k1 with
      | LComment => proc_kids clean collapse literals nsmap r
      | _ =>
          match process_element clean collapse literals k1 with
          | Crash c => Crash c
          | Ok c =>
              match proc_kids clean collapse literals nsmap r with
              | Crash c' => Crash c'
              | Ok cs => Ok (share nsmap (attach nsmap c) :: cs)
              end
          end
      end
  end.

Fixpoint mirror_kids (clean collapse : bool) (literals : list pystr) (ks : list xel) : list itree :=
  match ks with
  | [] => []
  | k1 :: r => match l_kind k1 with
               | LElem => mirror clean collapse literals k1 :: mirror_kids clean collapse literals r
               | _ => mirror_kids clean collapse literals r
               end
  end.

Fixpoint kids_equiv (x y : list itree) : Prop :=
  match x, y with
  | [], [] => True
  | p :: x', q :: y' => itree_equiv p q /\ kids_equiv x' y'
  | _, _ => False
  end.

Lemma process_eq clean collapse literals tag pfx m text tail attrib kids :
  process_element clean collapse literals (XEl LElem tag pfx m text tail attrib kids) =
  match proc_kids clean collapse literals m kids with
  | Crash c => Crash c
  | Ok cs =>
      Ok (IT {| i_name := strip_clark tag;
                i_content := if clean then match text with
                                           | None => None
                                           | Some x => if smem (strip_clark tag) literals then Some x
                                                       else clean_str collapse x
                                           end
                             else text;
                i_tail := if clean then clean_opt collapse tail else tail;
                i_prefix := pfx;
                i_attrs := fst (split_attrib m attrib);
                i_extras := snd (split_attrib m attrib);
                i_nsmap := m |} cs)
  end.
Proof.
  cbn [process_element].
  assert (E : forall ks, (fix go (ks : list xel) : res (list itree) :=
     match ks with
     | [] => Ok []
     | k1 :: r =>
         match l_kind k1 with
         | LComment => go r
         | _ =>
             match process_element clean collapse literals k1 with
             | Ok c =>
                 match go r with
                 | Ok cs => Ok (share m (attach m c) :: cs)
                 | Crash c' => Crash c'
                 end
             | Crash c => Crash c
             end
         end
     end) ks = proc_kids clean collapse literals m ks).
  { induction ks as [|k1 r IHr]; [reflexivity|]. cbn [proc_kids]. rewrite <- IHr. reflexivity. }
  rewrite E. reflexivity.
Qed.

Lemma mirror_eq clean collapse literals k tag pfx m text tail attrib kids :
  mirror clean collapse literals (XEl k tag pfx m text tail attrib kids) =
  IT {| i_name := local_name tag;
        i_content := policy clean collapse (smem (local_name tag) literals) text;
        i_tail := policy clean collapse false tail;
        i_prefix := pfx;
        i_attrs := plain_of attrib;
        i_extras := qual_of m attrib;
        i_nsmap := m |} (mirror_kids clean collapse literals kids).
Proof.
  cbn [mirror].
  assert (E : forall ks, (fix go (ks : list xel) : list itree :=
         match ks with
         | [] => []
         | k1 :: r => match l_kind k1 with
                      | LElem => mirror clean collapse literals k1 :: go r
                      | _ => go r
                      end
         end) ks = mirror_kids clean collapse literals ks).
  { induction ks as [|k1 r IHr]; [reflexivity|]. cbn [mirror_kids]. rewrite <- IHr. reflexivity. }
  rewrite E. reflexivity.
Qed.

Lemma itree_equiv_eq da ka db kb :
  itree_equiv (IT da ka) (IT db kb) =
  (i_name da = i_name db /\ i_content da = i_content db /\ i_tail da = i_tail db
   /\ i_prefix da = i_prefix db /\ i_attrs da = i_attrs db /\ i_extras da = i_extras db
   /\ omap_equiv (i_nsmap da) (i_nsmap db) /\ kids_equiv ka kb).
Proof. reflexivity. Qed.

(** * Attaching a child whose map already has the parent's prefixes *)
Lemma attach_closed pn c :
  (forall kv, In kv pn -> exists v, oassoc (fst kv) (i_nsmap (it_d c)) = Some v) -> attach pn c = c.
Proof.
  intro H. unfold attach. destruct (list_eqb opair_eqb pn (i_nsmap (it_d c))); [reflexivity|].
  induction pn as [|kv pn IH]; [reflexivity|]. cbn [fold_left].
  destruct (H kv (or_introl eq_refl)) as [v ->]. apply IH. intros kv' Hin. apply H. right. exact Hin.
Qed.

Lemma share_equiv pn d ks t' :
  NoDup (map fst (i_nsmap d)) ->
  itree_equiv (IT d ks) t' -> itree_equiv (share pn (IT d ks)) t'.
Proof.
  intros Hnd He. destruct t' as [d' ks']. cbn [share].
  destruct (odict_eq_unord (i_nsmap d) pn) eqn:E; [|exact He].
  rewrite itree_equiv_eq in *. cbn [i_name i_content i_tail i_prefix i_attrs i_extras i_nsmap].
  destruct He as (H1 & H2 & H3 & H4 & H5 & H6 & [H7a H7b] & H8). repeat split; try assumption.
  - destruct (odict_eq_equiv _ _ E Hnd) as [L _]. lia.
  - intro p. destruct (odict_eq_equiv _ _ E Hnd) as [_ Q]. rewrite Q. apply H7b.
Qed.

(** * Content and tail *)
Lemma content_policy (clean collapse lit : bool) (text : option pystr) :
  (if clean then match text with
                 | None => None
                 | Some x => if lit then Some x else clean_str collapse x
                 end
   else text) = policy clean collapse lit text.
Proof.
  destruct text as [x|]; [|destruct clean; reflexivity].
  destruct clean; [|reflexivity]. destruct lit; [reflexivity|].
  apply clean_str_policy.
Qed.

Lemma tail_policy (clean collapse : bool) (tail : option pystr) :
  (if clean then clean_opt collapse tail else tail) = policy clean collapse false tail.
Proof.
  destruct clean; [apply clean_opt_policy|]. destruct tail; reflexivity.
Qed.

(** * The theorem *)
Definition mirrors (clean collapse : bool) (literals : list pystr) (e : xel) : Prop :=
  infoset_ok e ->
  exists t, process_element clean collapse literals e = Ok t
            /\ itree_equiv t (mirror clean collapse literals e)
            /\ i_nsmap (it_d t) = l_nsmap e.

Lemma infoset_inv tag pfx m text tail attrib kids :
  infoset_ok (XEl LElem tag pfx m text tail attrib kids) ->
  nsmap_okb m = true /\ tag_okb m pfx tag = true
  /\ (forall nv, In nv attrib -> attr_name_okb m (fst nv) = true) /\ NoDup (keys attrib)
  /\ Forall (fun k1 => match l_kind k1 with
                       | LElem => (forall p, In p (pkeys m) -> In p (pkeys (l_nsmap k1))) /\ infoset_ok k1
                       | LComment => True
                       | LPI => False
                       end) kids.
Proof.
  unfold infoset_ok. cbn [infoset_okb]. intro H.
  apply andb_true_iff in H as [H H5]. apply andb_true_iff in H as [H H4].
  apply andb_true_iff in H as [H H3]. apply andb_true_iff in H as [H1 H2].
  repeat split; try assumption.
  - rewrite forallb_forall in H3. exact H3.
  - apply nodup_keys_NoDup, H4.
  - rewrite forallb_forall in H5. apply Forall_forall. intros k1 Hk. specialize (H5 k1 Hk).
    destruct (l_kind k1); [|exact I|discriminate].
    apply andb_true_iff in H5 as [Ha Hb]. split; [|exact Hb].
    rewrite forallb_forall in Ha. intros p Hp. apply smem_In, Ha, Hp.
Qed.

Lemma infoset_elem e : infoset_ok e -> l_kind e = LElem.
Proof. destruct e as [[] ? ? ? ? ? ? ?]; unfold infoset_ok; cbn; congruence. Qed.

Lemma infoset_nsmap e : infoset_ok e -> nsmap_good (l_nsmap e).
Proof.
  intro H. pose proof (infoset_elem e H) as Hk. destruct e as [k tag pfx m text tail attrib kids].
  cbn in Hk. subst k. apply infoset_inv in H as (H & _). apply nsmap_good_of, H.
Qed.

Theorem C08_mirror_proof clean collapse literals e : mirrors clean collapse literals e.
Proof.
  induction e as [k tag pfx m text tail attrib kids IH] using xel_ind2. intro Hok.
  pose proof (infoset_elem _ Hok) as Hk. cbn in Hk. subst k.
  destruct (infoset_inv _ _ _ _ _ _ _ Hok) as (Hm & Htag & Hattr & Hnd & Hkids).
  pose proof (nsmap_good_of m Hm) as G.
  (* children *)
  assert (HK : exists cs, proc_kids clean collapse literals m kids = Ok cs
                          /\ kids_equiv cs (mirror_kids clean collapse literals kids)).
  { clear Hok Htag Hattr Hnd. induction kids as [|k1 r IHr]; [exists []; split; [reflexivity|exact I]|].
    inversion IH as [|? ? IH1 IHr']; subst. inversion Hkids as [|? ? Hk1 Hkr]; subst.
    destruct (IHr IHr' Hkr) as (cs & Ecs & Qcs). cbn [proc_kids mirror_kids].
    destruct (l_kind k1) eqn:Ek; [|exists cs; split; assumption|destruct Hk1].
    destruct Hk1 as [Hclosed Hok1]. destruct (IH1 Hok1) as (t1 & Et1 & Qt1 & Nt1).
    rewrite Et1, Ecs. eexists. split; [reflexivity|]. cbn [kids_equiv]. split; [|exact Qcs].
    pose proof (infoset_nsmap k1 Hok1) as G1.
    rewrite attach_closed.
    - destruct t1 as [d1 ks1]. cbn [it_d] in Nt1. apply share_equiv; [|exact Qt1].
      rewrite Nt1. apply NoDup_fst_of_pkeys; [exact (ng_nodup _ G1)|].
      intros k0 u0 Hin. destruct (ng_keys _ G1 k0 u0 Hin) as (p & -> & _). eauto.
    - intros [k0 u0] Hin. cbn [fst]. rewrite Nt1.
      destruct (ng_keys m G k0 u0 Hin) as (p & -> & _).
      assert (Hp : In p (pkeys (l_nsmap k1))).
      { apply Hclosed. unfold pkeys. apply in_map_iff. exists (Some p, u0). split; [reflexivity|exact Hin]. }
      unfold pkeys in Hp. apply in_map_iff in Hp as ([k' u'] & Ep & Hin'). cbn [fst] in Ep.
      destruct (ng_keys _ G1 k' u' Hin') as (p' & -> & _). cbn in Ep. subst p'.
      exact (oassoc_In_some _ _ _ Hin'). }
  destruct HK as (cs & Ecs & Qcs).
  rewrite process_eq, Ecs, mirror_eq. eexists. split; [reflexivity|]. split; [|reflexivity].
  rewrite itree_equiv_eq. cbn [i_name i_content i_tail i_prefix i_attrs i_extras i_nsmap].
  rewrite (strip_clark_local m pfx tag Htag), content_policy, tail_policy.
  rewrite (split_attrib_spec m attrib G Hattr Hnd). cbn [fst snd].
  repeat split; try reflexivity. exact Qcs.
Qed.

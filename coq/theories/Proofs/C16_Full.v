(* Proofs/C16_Full.v — reference expansion preserves validity, at the level of validate.tree.
   Composition of: Proofs/Valid_Char.v (validate.tree = all visible nodes declaratively valid),
   C16_eq (the model of expand realises the spec relation [expands]), C16_valid_partial
   (substitution stays in the language), C16_valid_names, C16_valid_copies, and three table
   facts (references shapes; rules that allow references are not mixed; metadata has no
   children section).
   validate.tree does not look below metadata elements while expansion moves subtrees around, so
   the statement is made for trees in which no metadata element has children
   ([metadata_childless]); the core lemma [expands_deep_valid] is about deep validity (every
   node of the tree validates on its own) and only needs that no references node sits directly
   below a metadata element. *)
From MP Require Import Common.Base Common.Tree Gen.Tables Model.Rule Model.Expand
  Spec.TreeVal Spec.Content Spec.Lang Spec.ExpandSpec Spec.RefShape
  Proofs.C05_tree Proofs.C01_Lang Proofs.C01_Main Proofs.C01_Table Proofs.Valid_Char
  Proofs.C19_Shape Proofs.C19_Full
  Proofs.C16_Check Proofs.C16_Post Proofs.C16_Valid Proofs.C16_Eq Proofs.C16_Main.

(** * all nodes of a [tree], document order *)
Fixpoint all_pre (t : tree) : list tree :=
  let 'T n c a kids := t in t :: flat_map all_pre kids.

Lemma all_pre_view : forall u, all_pre (view u) = map view (preorder u).
Proof.
  induction u as [d kids IH] using ftree_ind_v. cbn [view all_pre preorder map]. f_equal.
  induction IH as [|k kids Hk _ IHk]; [reflexivity|].
  cbn [map flat_map]. rewrite map_app, Hk, IHk. reflexivity.
Qed.

Lemma visible_incl : forall t, incl (visible_preorder t) (all_pre t).
Proof.
  induction t as [n c a kids IH] using tree_ind'. cbn [visible_preorder all_pre].
  intros x [<-|Hx]; [left; reflexivity|]. right.
  destruct (is_metadata n); [destruct Hx|].
  apply in_flat_map in Hx as (k & Hk & Hx). apply in_flat_map. exists k. split; [exact Hk|].
  rewrite Forall_forall in IH. exact (IH k Hk x Hx).
Qed.

Lemma pre_sub : forall r x, In x (preorder r) -> incl (preorder x) (preorder r).
Proof.
  induction r as [d kids IH] using ftree_ind_v. intros x Hx. cbn [preorder] in Hx.
  destruct Hx as [<-|Hx]; [apply incl_refl|].
  apply in_flat_map in Hx as (q & Hq & Hx). rewrite Forall_forall in IH.
  intros y Hy. cbn [preorder]. right. apply in_flat_map. exists q. split; [exact Hq|].
  exact (IH q Hq x Hx y Hy).
Qed.

Lemma Forall2_in_r {A B} (R : A -> B -> Prop) l l' y :
  Forall2 R l l' -> In y l' -> exists x, In x l /\ R x y.
Proof.
  induction 1 as [|a b l l' Hab _ IH]; intros Hy; [destruct Hy|].
  destruct Hy as [<-|Hy]; [exists a; split; [left; reflexivity | exact Hab]|].
  destruct (IH Hy) as (x & Hx & Rx). exists x. split; [right; exact Hx | exact Rx].
Qed.

(** * facts about [target] and references children *)
Lemma target_in t r x : target t r = Some x -> In x (preorder t).
Proof.
  unfold target. destruct (n_content (ft_d r)) as [v|]; [|discriminate]. intro H.
  apply assoc_Some_In in H. unfold id_pairs in H. apply in_flat_map in H as (y & Hy & H).
  destruct (id_of y); [|destruct H]. destruct H as [H|[]]. injection H as _ <-. exact Hy.
Qed.

Lemma kid_refs t p r : In p (preorder t) -> In r (ft_kids p) -> is_ref r = true -> In r (refs_of t).
Proof.
  intros Hp Hr R. unfold refs_of. apply filter_In. split; [|exact R].
  rewrite preorder_unfold in Hp. unfold descendants in *. destruct Hp as [<-|Hp].
  - apply in_flat_map. exists r. split; [exact Hr | apply self_in_pre].
  - apply in_flat_map in Hp as (q & Hq & Hp). apply in_flat_map. exists q. split; [exact Hq|].
    exact (pre_closed q p r Hp Hr).
Qed.

Lemma no_ref_kid_names x : has_ref x = false -> ~ In REFS_NAME (map ft_name (ft_kids x)).
Proof.
  destruct x as [d ks]. rewrite has_ref_unfold. intro H. apply orb_false_iff in H as [_ H].
  cbn [ft_kids]. intro I. apply in_map_iff in I as (k & Nk & Hk).
  assert (has_ref k = true) as X.
  { unfold has_ref. apply existsb_exists. exists k. split; [apply self_in_pre|].
    unfold is_ref. change REFS with REFS_NAME. rewrite Nk. apply pystr_eqb_refl. }
  assert (existsb has_ref ks = true) as Y by (apply existsb_exists; exists k; auto).
  congruence.
Qed.

Lemma noref_names (src : ftree -> list ftree) ks : existsb is_ref ks = false ->
  flat_map (fun k => if is_ref k then map ft_name (src k) else [ft_name k]) ks = map ft_name ks.
Proof.
  induction ks as [|k r IH]; [reflexivity|]. cbn [existsb flat_map map]. intro H.
  apply orb_false_iff in H as [H1 H2]. rewrite H1, (IH H2). reflexivity.
Qed.

(** * table facts *)
Lemma ref_rules_unmixed_table :
  forallb (fun p => match parse_children (rr_children (snd p)) with
                    | Some (Some sp) => if smem REFS_NAME (names_of sp) then negb (is_mixed (fst p)) else true
                    | _ => true
                    end) rules = true.
Proof. vm_compute. reflexivity. Qed.

Lemma ref_rule_facts rn r sp :
  assoc rn rules = Some r -> parse_children (rr_children r) = Some (Some sp) -> In REFS_NAME (names_of sp) ->
  is_mixed rn = false /\ ref_shape_ok sp = true.
Proof.
  intros E P I. apply assoc_Some_In in E. apply smem_In in I. split.
  - pose proof ref_rules_unmixed_table as T. rewrite forallb_forall in T. specialize (T _ E).
    simpl in T. rewrite P, I in T. apply negb_true_iff in T. exact T.
  - pose proof shipped_ref_shapes as T. rewrite forallb_forall in T. specialize (T _ E).
    simpl in T. unfold rule_ref_shape_ok in T. rewrite P, I in T. exact T.
Qed.

Lemma metadata_top_none rn r :
  assoc METADATA node_map = Some rn -> assoc rn rules = Some r -> parse_children (rr_children r) = Some None.
Proof.
  intros E1 E2. vm_compute in E1. injection E1 as <-. vm_compute in E2. injection E2 as <-.
  vm_compute. reflexivity.
Qed.

(** content constraints of a non-mixed rule do not depend on the number of children *)
Lemma content_ok_unmixed orc rg crs enum c n1 n2 :
  content_ok orc rg false crs enum c n1 -> content_ok orc rg false crs enum c n2.
Proof.
  intros [H1 H2]. split; [|exact H2]. intros cr Hcr. destruct (H1 cr Hcr) as (k & Ek & Hk).
  exists k. split; [exact Ek|]. destruct k; try exact Hk.
  unfold kind_ok in *. destruct Hk as [Hk|[X _]]; [left; exact Hk | discriminate].
Qed.

(** a word of a references-shaped language that contains "references": it comes first, once,
    followed only by roles *)
Lemma ref_word_shape mixed sp w :
  ref_shape_ok sp = true -> L mixed sp w -> In REFS_NAME w ->
  exists role k, w = REFS_NAME :: repeat role k /\ role <> REFS_NAME.
Proof.
  intros OK Lr I.
  destruct sp as [|items|alts lo hi]; [discriminate| |].
  - cbn [ref_shape_ok] in OK.
    destruct items as [|c [|e [|x r]]]; try discriminate;
      try (destruct e as [? [|[|]] [|]| |]; discriminate).
    destruct e as [role lo hi| |]; try discriminate.
    destruct lo as [|[|]]; try discriminate. destruct hi; [discriminate|].
    destruct (ref_cho c) as [A|] eqn:RC; [|discriminate].
    apply negb_true_iff in OK. apply pystr_eqb_neq in OK.
    destruct (ref_cho_inv c A RC) as [-> NA].
    inversion Lr as [|items ws SQ|]; subst.
    inversion SQ as [|? ? w1 ws1 L1 SQ1]; subst. inversion SQ1 as [|? ? w2 ws2 L2 SQ2]; subst. inversion SQ2; subst.
    cbn [concat] in *. rewrite app_nil_r in *.
    inversion L2 as [n lo hi k LO _| |]; subst.
    assert (I1 : In REFS_NAME w1).
    { apply in_app_or in I. destruct I as [I|I]; [exact I | exfalso; exact (not_in_repeat _ _ _ (not_eq_sym OK) I)]. }
    rewrite (cho_no_refs mixed A w1 NA L1 I1). exists role, k. split; [reflexivity | exact OK].
  - cbn [ref_shape_ok] in OK. destruct (ref_cho (Cho alts lo hi)) as [A|] eqn:RC; [|discriminate].
    destruct (ref_cho_inv _ A RC) as [E NA]. rewrite E in *.
    rewrite (cho_no_refs mixed A w NA Lr I). exists (s "role"), 0. split; [reflexivity | discriminate].
Qed.

Section Preserve.
  Variable orc : pystr -> oans.
  Variable t : ftree.
  Let src := src_kids t.
  Let V := node_valid orc.

  (** every node of the tree validates on its own *)
  Hypothesis HDV : forall d, In d (preorder t) -> V (view d).
  (** no references node directly below a metadata element *)
  Hypothesis HM : forall p, In p (preorder t) -> is_metadata (ft_name p) = true -> existsb is_ref (ft_kids p) = false.
  (** every references node names an element governed by the same rule as its parent and
      holding no references itself *)
  Hypothesis HR : forall p r, In p (preorder t) -> In r (ft_kids p) -> is_ref r = true ->
    exists x, target t r = Some x /\
              assoc (ft_name p) node_map = assoc (ft_name x) node_map /\ has_ref x = false.

  Lemma sub_dv c : In c (preorder t) -> Forall V (all_pre (view c)).
  Proof.
    intro Hc. rewrite all_pre_view. apply Forall_forall. intros y Hy.
    apply in_map_iff in Hy as (d & <- & Hd). apply HDV. exact (pre_sub t c Hc d Hd).
  Qed.

  (** the node itself stays valid when its children list is spliced *)
  Lemma node_step d ks ks' :
    In (FT d ks) (preorder t) -> splice (expands src) src ks ks' -> V (view (FT d ks')).
  Proof.
    intros Hp SP. pose proof (HDV _ Hp) as (rn & r & top & E1 & E2 & E3 & HC & HA & HK).
    pose proof (splice_names src ks ks' SP) as Nm.
    cbn [view t_name t_content t_attrs t_kids] in *. rewrite map_length in *.
    rewrite map_map in HK.
    assert (forall l, map (fun x => t_name (view x)) l = map ft_name l) as Vn.
    { intro l. apply map_ext. intro k. apply view_name. }
    rewrite Vn in HK.
    destruct (existsb is_ref ks) eqn:Ex.
    - (* a references child *)
      assert (is_metadata (n_name d) = false) as M.
      { destruct (is_metadata (n_name d)) eqn:M; [|reflexivity].
        pose proof (HM _ Hp M) as X. cbn [ft_kids] in X. congruence. }
      rewrite M in HK. destruct HK as [Hall HL].
      apply existsb_exists in Ex as (r0 & Hr0 & R0).
      assert (In REFS_NAME (map ft_name ks)) as IR.
      { apply in_map_iff. exists r0. split; [|exact Hr0]. unfold is_ref in R0. apply pystr_eqb_eq in R0. exact R0. }
      destruct top as [sp|]; [|unfold allowed_names in Hall; rewrite Forall_forall in Hall; destruct (Hall _ IR)].
      assert (In REFS_NAME (names_of sp)) as IS.
      { unfold allowed_names in Hall. rewrite Forall_forall in Hall. exact (Hall _ IR). }
      change (tb_rules shipped) with rules in E2. change (tb_node_map shipped) with node_map in E1.
      destruct (ref_rule_facts rn r sp E2 E3 IS) as [Mx OK].
      change (smem rn (tb_mixed shipped)) with (is_mixed rn) in *. rewrite Mx in *.
      cbn [Ltop] in HL.
      destruct (ref_word_shape false sp _ OK HL IR) as (role & k & Ew & NE).
      (* the one references child is the first child *)
      destruct ks as [|k0 rest]; [discriminate|]. cbn [map] in Ew. injection Ew as N0 Nrest.
      assert (is_ref k0 = true) as R00 by (unfold is_ref; change REFS with REFS_NAME; rewrite N0; apply pystr_eqb_refl).
      destruct (HR _ k0 Hp (or_introl eq_refl) R00) as (x & Tx & Sx & Fx).
      set (w_src := map ft_name (ft_kids x)).
      assert (forall r1, In r1 (k0 :: rest) -> is_ref r1 = true -> map ft_name (src r1) = w_src) as Huniq.
      { intros r1 [<-|Hr1] R1.
        - unfold src, src_kids. rewrite Tx. reflexivity.
        - exfalso. assert (In (ft_name r1) (repeat role k)) as X by (rewrite <- Nrest; apply in_map; exact Hr1).
          apply repeat_spec in X. unfold is_ref in R1. apply pystr_eqb_eq in R1. change REFS with REFS_NAME in R1. congruence. }
      pose proof (expanded_child_names src d (k0 :: rest) ks' w_src (EXP src d _ _ SP) Huniq) as Nm'.
      (* the target is valid under the same rule *)
      pose proof (HDV x (target_in t k0 x Tx)) as (rn' & r' & top' & F1 & F2 & F3 & _ & _ & HKx).
      rewrite view_name in F1, HKx. change (tb_node_map shipped) with node_map in F1.
      change (ft_name (FT d (k0 :: rest))) with (n_name d) in Sx. rewrite <- Sx, E1 in F1. injection F1 as <-.
      change (tb_rules shipped) with rules in F2. rewrite E2 in F2. injection F2 as <-.
      rewrite E3 in F3. injection F3 as <-.
      assert (is_metadata (ft_name x) = false) as Mxm.
      { destruct (is_metadata (ft_name x)) eqn:Y; [|reflexivity]. exfalso.
        apply is_metadata_spec in Y. rewrite Y in Sx. rewrite E1 in Sx. symmetry in Sx.
        pose proof (metadata_top_none rn r Sx E2) as Z. rewrite E3 in Z. discriminate. }
      rewrite Mxm in HKx. destruct HKx as [_ HLx].
      rewrite view_kid_names in HLx. change (smem rn (tb_mixed shipped)) with (is_mixed rn) in HLx.
      rewrite Mx in HLx. cbn [Ltop] in HLx. fold w_src in HLx.
      pose proof (ref_subst_L false sp _ w_src OK HL HLx (no_ref_kid_names x Fx)) as HL'.
      exists rn, r, (Some sp). cbn [view t_name t_content t_attrs t_kids].
      rewrite map_length, map_map, Vn, M. change (smem rn (tb_mixed shipped)) with (is_mixed rn). rewrite Mx.
      split; [exact E1|]. split; [exact E2|]. split; [exact E3|].
      split; [exact (content_ok_unmixed _ _ _ _ _ _ (length ks') HC)|]. split; [exact HA|].
      split.
      + unfold allowed_names. rewrite Nm'. apply (C01_Lang.L_names _ _ _ HL').
      + rewrite Nm'. exact HL'.
    - (* no references child: names and number of children are unchanged *)
      rewrite (noref_names src ks Ex) in Nm.
      assert (length ks' = length ks) as El.
      { rewrite <- (map_length ft_name ks'), Nm, map_length. reflexivity. }
      exists rn, r, top. cbn [view t_name t_content t_attrs t_kids].
      rewrite map_length, map_map, Vn, Nm, El.
      split; [exact E1|]. split; [exact E2|]. split; [exact E3|]. split; [exact HC|]. split; [exact HA | exact HK].
  Qed.

  Lemma splice_dv ks : Forall (fun k => In k (preorder t) -> forall k', expands src k k' -> Forall V (all_pre (view k'))) ks ->
    (forall k, In k ks -> In k (preorder t)) ->
    forall ks', splice (expands src) src ks ks' -> forall k', In k' ks' -> Forall V (all_pre (view k')).
  Proof.
    intros IH Hin ks' SP. induction SP as [|r ks cs ks' R C _ IHs|k k1 ks ks' R E _ IHs]; intros k' Hk'.
    - destruct Hk'.
    - inversion IH as [|? ? _ IHr]; subst.
      apply in_app_or in Hk' as [Hk'|Hk'].
      + destruct (Forall2_in_r _ _ _ _ C Hk') as (c & Hc & Cc).
        rewrite (copy_view c k' Cc). apply sub_dv.
        unfold src, src_kids in Hc. destruct (target t r) as [x|] eqn:Tx; [|destruct Hc].
        exact (pre_closed t x c (target_in t r x Tx) Hc).
      + apply IHs; [exact IHr | intros q Hq; apply Hin; right; exact Hq | exact Hk'].
    - inversion IH as [|? ? IHk IHr]; subst.
      destruct Hk' as [<-|Hk'].
      + apply IHk; [apply Hin; left; reflexivity | exact E].
      + apply IHs; [exact IHr | intros q Hq; apply Hin; right; exact Hq | exact Hk'].
  Qed.

  Theorem expands_dv : forall u, In u (preorder t) -> forall u', expands src u u' -> Forall V (all_pre (view u')).
  Proof.
    induction u as [d ks IH] using ftree_ind_v. intros Hu u' Hex.
    inversion Hex as [? ? ks' SP]; subst.
    cbn [view all_pre]. constructor.
    - exact (node_step d ks ks' Hu SP).
    - apply Forall_forall. intros y Hy. apply in_flat_map in Hy as (vk & Hvk & Hy).
      apply in_map_iff in Hvk as (k' & <- & Hk').
      assert (forall k, In k ks -> In k (preorder t)) as Hin.
      { intros k Hk. exact (pre_closed t (FT d ks) k Hu Hk). }
      pose proof (splice_dv ks IH Hin ks' SP k' Hk') as X. rewrite Forall_forall in X. exact (X y Hy).
  Qed.

  Theorem expands_deep_valid t' : expands src t t' -> forall d', In d' (preorder t') -> V (view d').
  Proof.
    intros Hex d' Hd'. pose proof (expands_dv t (self_in_pre t) t' Hex) as X.
    rewrite all_pre_view, Forall_forall in X. apply X. apply in_map. exact Hd'.
  Qed.
End Preserve.

(** * validate.tree before => validate.tree after *)
Theorem expand_preserves_validation : forall orc t t' rem n,
  attrs_wf t -> spec_ok t = true -> refs_flat t = true -> ns_agree t = true ->
  metadata_childless t ->
  (forall p r x, In p (preorder t) -> In r (ft_kids p) -> is_ref r = true -> target t r = Some x ->
     assoc (ft_name p) node_map = assoc (ft_name x) node_map) ->
  validate_tree orc shipped (view t) = Errs [] ->
  expand t = EOk t' rem n ->
  validate_tree orc shipped (view t') = Errs [].
Proof.
  intros orc t t' rem n W OK F A MC SR Val E.
  destruct (result_expands t W OK F A t' rem n E) as [Hex _].
  pose proof (valid_tree_deep orc t (conj Val MC)) as DV.
  apply valid_tree_char_proof. apply Forall_forall. intros y Hy.
  apply visible_incl in Hy. rewrite all_pre_view in Hy. apply in_map_iff in Hy as (d' & <- & Hd').
  apply (expands_deep_valid orc t DV) with (t' := t'); [| |exact Hex | exact Hd'].
  - intros p Hp M. rewrite (MC p Hp M). reflexivity.
  - intros p r Hp Hr R. pose proof (kid_refs t p r Hp Hr R) as Ir.
    unfold spec_ok in OK. apply andb_true_iff in OK as [_ OK]. rewrite forallb_forall in OK.
    specialize (OK r Ir). destruct (target t r) as [x|] eqn:Tx; [|discriminate].
    exists x. split; [reflexivity|]. split; [exact (SR p r x Hp Hr R Tx) | exact (flat_target t r x F Ir Tx)].
Qed.

(** deep-validity version (no restriction on metadata beyond "no references node directly
    below a metadata element"): if every node validates on its own before, so does every node after *)
Theorem expand_preserves_deep_validity : forall orc t t' rem n,
  attrs_wf t -> spec_ok t = true -> refs_flat t = true -> ns_agree t = true ->
  (forall p, In p (preorder t) -> is_metadata (ft_name p) = true -> existsb is_ref (ft_kids p) = false) ->
  (forall p r x, In p (preorder t) -> In r (ft_kids p) -> is_ref r = true -> target t r = Some x ->
     assoc (ft_name p) node_map = assoc (ft_name x) node_map) ->
  (forall d, In d (preorder t) -> node_of orc shipped (view d) = Errs []) ->
  expand t = EOk t' rem n ->
  forall d', In d' (preorder t') -> node_of orc shipped (view d') = Errs [].
Proof.
  intros orc t t' rem n W OK F A HM SR DV E d' Hd'.
  destruct (result_expands t W OK F A t' rem n E) as [Hex _].
  apply valid_node_char_proof.
  apply (expands_deep_valid orc t) with (t' := t'); [| exact HM | | exact Hex | exact Hd'].
  - intros d Hd. apply valid_node_char_proof. exact (DV d Hd).
  - intros p r Hp Hr R. pose proof (kid_refs t p r Hp Hr R) as Ir.
    unfold spec_ok in OK. apply andb_true_iff in OK as [_ OK]. rewrite forallb_forall in OK.
    specialize (OK r Ir). destruct (target t r) as [x|] eqn:Tx; [|discriminate].
    exists x. split; [reflexivity|]. split; [exact (SR p r x Hp Hr R Tx) | exact (flat_target t r x F Ir Tx)].
Qed.

(** * Non-vacuity: a project whose second personnel refers to the first *)
From MP Require Import Model.PruneRun.

Definition exv : ftree :=
  FT (mk (s "j") (s "project") None [])
     [FT (mk (s "t") (s "title") (Some (s "T")) []) [];
      FT (mk (s "p") (s "personnel") None [(s "id", s "p1")])
         [FT (mk (s "p1") (s "organizationName") (Some (s "Org")) []) []; FT (mk (s "p2") (s "role") (Some (s "r")) []) []];
      FT (mk (s "q") (s "personnel") None [])
         [FT (mk (s "q1") (s "references") (Some (s "p1")) []) []; FT (mk (s "q2") (s "role") (Some (s "r2")) []) []]].

Lemma exv_hypotheses :
  attrs_wf exv /\ spec_ok exv = true /\ refs_flat exv = true /\ ns_agree exv = true /\
  metadata_childless exv /\
  (forall p r x, In p (preorder exv) -> In r (ft_kids p) -> is_ref r = true -> target exv r = Some x ->
     assoc (ft_name p) node_map = assoc (ft_name x) node_map) /\
  validate_tree orc_none shipped (view exv) = Errs [] /\
  exists t' rem n, expand exv = EOk t' rem n /\
                   map ft_name (ft_kids (nth 2 (ft_kids t') exv)) = [s "organizationName"; s "role"; s "role"].
Proof.
  split; [unfold attrs_wf; cbn; repeat (constructor; try (intros [])); intros [E|[]]; discriminate|].
  split; [vm_compute; reflexivity|]. split; [vm_compute; reflexivity|]. split; [vm_compute; reflexivity|].
  split.
  { intros d Hd M. cbn in Hd.
    repeat (destruct Hd as [<-|Hd]; [try (vm_compute in M; discriminate); try reflexivity|]). destruct Hd. }
  split.
  { intros p r x Hp Hr R T. cbn in Hp.
    repeat (destruct Hp as [<-|Hp];
            [cbn in Hr; repeat (destruct Hr as [<-|Hr]; [try (vm_compute in R; discriminate)|]); try destruct Hr|]);
      try destruct Hp.
    vm_compute in T. injection T as <-. vm_compute. reflexivity. }
  split; [vm_compute; reflexivity|].
  destruct (expand exv) as [t' rem n| |] eqn:E; try (vm_compute in E; discriminate).
  exists t', rem, n. split; [reflexivity|]. vm_compute in E. injection E as <- _ _. vm_compute. reflexivity.
Qed.

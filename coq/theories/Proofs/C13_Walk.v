(* Proofs/C13_Walk.v — the copy-on-write walk [ns_walk need wr] (add_namespace and
   remove_namespace) rewrites exactly the subtree it is started on:

     every node of the subtree ends with a dict whose items are [wr (old items)],
     every other node record is untouched, no existing dict location is written,

   and it never runs out of fuel on a tree.  The only facts used about [need]/[wr] are
     need d = false -> wr d = d      and      need (wr d) = false
   (the second one is where `id(child.nsmap) == nsmap_id` + re-pointing is sound). *)
From MP Require Import Common.Base Common.Tree Model.Heap Model.Namespace Proofs.HeapInv.

Definition alloc_ok (h : heap) : Prop :=
  forall m r, nget h m = Some r -> ns_loc r < next_loc h.

Section Frame.
  Variable P : dict -> Prop.      (* well-formedness of dict contents (instantiated with NoDup keys) *)
  Variable wr : dict -> dict.
  Hypothesis wr_P : forall d, P d -> P (wr d).

  Definition dicts_ok (h : heap) : Prop := forall l, P (dget h l).

  (** node m keeps every field but [ns_loc], and the dict it now points to holds [wr] of the
      items it saw before *)
  Definition ns_upd (h h' : heap) (m : nat) : Prop :=
    exists r L', nget h m = Some r /\ nget h' m = Some (set_ns r L') /\
                 dget h' L' = wr (dget h (ns_loc r)) /\ L' < next_loc h'.

  Record ns_frame (S : nat -> Prop) (h h' : heap) : Prop := {
    fr_nodes : forall m, (~ S m /\ nget h' m = nget h m) \/ (S m /\ ns_upd h h' m);
    fr_dicts : forall l, l < next_loc h -> dget h' l = dget h l;
    fr_next : next_loc h <= next_loc h';
    fr_ok : dicts_ok h -> dicts_ok h';
    fr_ids : next_id h' = next_id h;
    fr_store : store h' = store h;
    fr_fuel : fuel_of h' = fuel_of h
  }.

  Lemma set_ns_set_ns r a b : set_ns (set_ns r a) b = set_ns r b.
  Proof. reflexivity. Qed.

  Lemma set_ns_same r : set_ns r (ns_loc r) = r.
  Proof. destruct r; reflexivity. Qed.

  Lemma ns_frame_shape S h h' : ns_frame S h h' -> shape_eq h h'.
  Proof.
    intros F m. destruct (fr_nodes _ _ _ F m) as [[_ E]|[_ (r & L' & E1 & E2 & _)]].
    - rewrite E; reflexivity.
    - rewrite E1, E2; reflexivity.
  Qed.

  Lemma ns_frame_alloc S h h' : ns_frame S h h' -> alloc_ok h -> alloc_ok h'.
  Proof.
    intros F A m r' Hm. destruct (fr_nodes _ _ _ F m) as [[_ E]|[_ (r & L' & E1 & E2 & _ & HL)]].
    - rewrite E in Hm. pose proof (A _ _ Hm). pose proof (fr_next _ _ _ F). lia.
    - rewrite E2 in Hm; injection Hm as <-. exact HL.
  Qed.

  Lemma ns_frame_equiv S S' h h' : (forall m, S m <-> S' m) -> ns_frame S h h' -> ns_frame S' h h'.
  Proof.
    intros E F. constructor; try apply F.
    intro m. destruct (fr_nodes _ _ _ F m) as [[N X]|[Y X]]; [left | right]; split; try exact X.
    - intro; apply N, E; assumption.
    - apply E; exact Y.
  Qed.

  Lemma ns_frame_id h : ns_frame (fun _ => False) h h.
  Proof. constructor; auto. Qed.

  Hypothesis wr_idem : forall d, P d -> wr (wr d) = wr d.

  Lemma ns_frame_comp S1 S2 h h1 h2 :
    alloc_ok h -> dicts_ok h -> ns_frame S1 h h1 -> ns_frame S2 h1 h2 -> ns_frame (fun m => S1 m \/ S2 m) h h2.
  Proof.
    intros A D F1 F2. constructor.
    - intro m.
      destruct (fr_nodes _ _ _ F1 m) as [[N1 E1]|[Y1 (r & L1 & Ea & Eb & Ec & Ed)]];
        destruct (fr_nodes _ _ _ F2 m) as [[N2 E2]|[Y2 (r2 & L2 & Ea2 & Eb2 & Ec2 & Ed2)]].
      + left; split; [tauto | congruence].
      + right; split; [tauto|]. exists r2, L2. rewrite E1 in Ea2. repeat split; try assumption.
        rewrite Ec2. f_equal. apply (fr_dicts _ _ _ F1). eapply A; eauto.
      + right; split; [tauto|]. exists r, L1. repeat split.
        * exact Ea.
        * congruence.
        * rewrite (fr_dicts _ _ _ F2); assumption.
        * pose proof (fr_next _ _ _ F2). lia.
      + right; split; [tauto|]. exists r, L2. rewrite Eb in Ea2; injection Ea2 as <-. repeat split.
        * exact Ea.
        * rewrite Eb2. reflexivity.
        * rewrite Ec2. simpl. rewrite Ec. apply wr_idem, D.
        * exact Ed2.
    - intros l Hl. rewrite (fr_dicts _ _ _ F2); [apply (fr_dicts _ _ _ F1), Hl|].
      pose proof (fr_next _ _ _ F1). lia.
    - pose proof (fr_next _ _ _ F1). pose proof (fr_next _ _ _ F2). lia.
    - intro D0. apply (fr_ok _ _ _ F2), (fr_ok _ _ _ F1), D0.
    - rewrite (fr_ids _ _ _ F2). apply F1.
    - rewrite (fr_store _ _ _ F2). apply F1.
    - rewrite (fr_fuel _ _ _ F2). apply F1.
  Qed.
End Frame.

Lemma fuel_of_nset h n r r0 : nget h n = Some r0 -> fuel_of (nset h n r) = fuel_of h.
Proof. intro H. unfold fuel_of, nset; simpl. eapply nupdate_length_present; exact H. Qed.

Section WalkOk.
  Variable P : dict -> Prop.
  Variable need : dict -> bool.
  Variable wr : dict -> dict.
  Hypothesis wr_P : forall d, P d -> P (wr d).
  Hypothesis need_false_id : forall d, need d = false -> wr d = d.
  Hypothesis need_wr : forall d, P d -> need (wr d) = false.

  Lemma wr_idem : forall d, P d -> wr (wr d) = wr d.
  Proof. intros d Hd. apply need_false_id, need_wr, Hd. Qed.

  Notation ns_frame := (ns_frame P wr).
  Notation dicts_ok := (dicts_ok P).
  Definition heap_ok (h : heap) : Prop := alloc_ok h /\ dicts_ok h.

  Lemma heap_ok_frame S h h' : ns_frame S h h' -> heap_ok h -> heap_ok h'.
  Proof.
    intros F [A D]. split; [eapply ns_frame_alloc; eauto | apply (fr_ok _ _ _ _ _ F), D].
  Qed.

  (** the statements before the loop *)
  Lemma walk_head_frame h n r :
    nget h n = Some r -> heap_ok h ->
    ns_frame (fun m => m = n) h (walk_head need wr h n r).
  Proof.
    intros Hn [A D]. unfold walk_head. destruct (need (dget h (ns_loc r))) eqn:Nd.
    - simpl. constructor; simpl.
      + intro m. destruct (Nat.eq_dec m n) as [->|Ne].
        * right; split; [reflexivity|]. exists r, (next_loc h). repeat split.
          -- exact Hn.
          -- rewrite nget_dset, nget_nset, Nat.eqb_refl. reflexivity.
          -- rewrite dget_dset, Nat.eqb_refl. rewrite dget_nset.
             pose proof (dget_alloc h (dget h (ns_loc r)) (next_loc h)) as E. simpl in E.
             rewrite E, Nat.eqb_refl. reflexivity.
          -- cbn. lia.
        * left; split; [exact Ne|]. rewrite nget_dset, nget_nset.
          apply Nat.eqb_neq in Ne; rewrite Ne. reflexivity.
      + intros l Hl. rewrite dget_dset. assert (Nat.eqb l (next_loc h) = false) as -> by (apply Nat.eqb_neq; lia).
        rewrite dget_nset. pose proof (dget_alloc h (dget h (ns_loc r)) l) as E. simpl in E. rewrite E.
        assert (Nat.eqb l (next_loc h) = false) as -> by (apply Nat.eqb_neq; lia). reflexivity.
      + lia.
      + intros _ l. rewrite dget_dset.
        pose proof (dget_alloc h (dget h (ns_loc r))) as E. simpl in E.
        destruct (Nat.eqb l (next_loc h)) eqn:El; rewrite dget_nset, E.
        * rewrite Nat.eqb_refl. apply wr_P, D.
        * rewrite El. apply D.
      + reflexivity.
      + reflexivity.
      + unfold fuel_of; simpl. eapply nupdate_length_present; exact Hn.
    - constructor; auto.
      intro m. destruct (Nat.eq_dec m n) as [->|Ne]; [right | left; split; [exact Ne | reflexivity]].
      split; [reflexivity|]. exists r, (ns_loc r). rewrite set_ns_same. repeat split; auto.
      + symmetry; apply need_false_id, Nd.
      + eapply A; eauto.
  Qed.

  (** `child.nsmap = self.nsmap` when the child held the dict identified by nsmap_id *)
  Lemma repoint_frame h n rn c rc nsid :
    alloc_ok h -> nget h n = Some rn -> nget h c = Some rc -> ns_loc rc = nsid ->
    dget h (ns_loc rn) = wr (dget h nsid) ->
    ns_frame (fun m => m = c) h (nset h c (set_ns rc (ns_loc rn))).
  Proof.
    intros A Hn Hc E Hd. constructor; simpl; auto.
    - intro m. destruct (Nat.eq_dec m c) as [->|Ne].
      + right; split; [reflexivity|]. exists rc, (ns_loc rn). repeat split.
        * exact Hc.
        * rewrite nget_nset, Nat.eqb_refl; reflexivity.
        * rewrite dget_nset, E. exact Hd.
        * eapply A; eauto.
      + left; split; [exact Ne|]. rewrite nget_nset. apply Nat.eqb_neq in Ne; rewrite Ne; reflexivity.
    - eapply fuel_of_nset; eauto.
  Qed.

  Definition entry_ok (h : heap) (n : nat) (nsmap_id : option nat) : Prop :=
    match nsmap_id with
    | None => True
    | Some L0 => L0 < next_loc h /\ exists r, nget h n = Some r /\ dget h (ns_loc r) = wr (dget h L0)
    end.

  Definition self_ok (h : heap) (n nsid : nat) : Prop :=
    nsid < next_loc h /\ exists rn, nget h n = Some rn /\ dget h (ns_loc rn) = wr (dget h nsid).

  Lemma self_ok_frame S h h' n nsid :
    heap_ok h -> ns_frame S h h' -> self_ok h n nsid -> self_ok h' n nsid.
  Proof.
    intros [A D] F [Hlt (rn & Hn & Hd)]. split; [pose proof (fr_next _ _ _ _ _ F); lia|].
    destruct (fr_nodes _ _ _ _ _ F n) as [[_ E]|[_ (r & L' & E1 & E2 & E3 & _)]].
    - exists rn; split; [congruence|]. rewrite !(fr_dicts _ _ _ _ _ F); auto. eapply A; eauto.
    - rewrite Hn in E1; injection E1 as <-. exists (set_ns rn L'); split; [exact E2|].
      simpl. rewrite E3, Hd, wr_idem by apply D. f_equal. symmetry; apply (fr_dicts _ _ _ _ _ F); exact Hlt.
  Qed.

  (** the loop over the children, given the statement for the recursive calls *)
  Lemma walk_kids_ok f n nsid :
    (forall h c nsmap_id, tree_at h f c -> heap_ok h -> entry_ok h c nsmap_id ->
        exists h', ns_walk need wr f h c nsmap_id = Ok h' /\ ns_frame (desc h c) h h') ->
    forall ks h,
      (forall c, In c ks -> tree_at h f c) -> heap_ok h -> self_ok h n nsid ->
      exists h', walk_kids (ns_walk need wr f) n nsid ks h = Ok h' /\
                 ns_frame (fun m => exists c, In c ks /\ desc h c m) h h'.
  Proof.
    intros IHf ks; induction ks as [|c ks IH]; intros h Hks HO Hself.
    - exists h; split; [reflexivity|].
      eapply ns_frame_equiv; [|apply ns_frame_id]. intro m; split; [tauto | intros (c & [] & _)].
    - simpl. pose proof HO as [A D]. destruct Hself as [Hlt (rn & Hn & Hd)]. rewrite Hn.
      assert (Hc : tree_at h f c) by (apply Hks; left; reflexivity).
      destruct (tree_at_alive _ _ _ Hc) as [rc Hrc]. rewrite Hrc.
      (* the heap after the child's subtree has been processed *)
      assert (Step : exists h2, (if Nat.eqb (ns_loc rc) nsid
                                 then ns_walk need wr f (nset h c (set_ns rc (ns_loc rn))) c (Some nsid)
                                 else ns_walk need wr f h c None) = Ok h2 /\ ns_frame (desc h c) h h2).
      { destruct (Nat.eqb (ns_loc rc) nsid) eqn:E.
        - apply Nat.eqb_eq in E.
          pose proof (repoint_frame h n rn c rc nsid A Hn Hrc E Hd) as F0.
          set (h1 := nset h c (set_ns rc (ns_loc rn))) in *.
          pose proof (ns_frame_shape _ _ _ _ _ F0) as Sh.
          destruct (IHf h1 c (Some nsid)) as (h2 & R & F2).
          + eapply shape_eq_tree_at; eauto.
          + eapply heap_ok_frame; eauto.
          + split; [pose proof (fr_next _ _ _ _ _ F0); lia|].
            exists (set_ns rc (ns_loc rn)); split.
            * unfold h1; rewrite nget_nset, Nat.eqb_refl; reflexivity.
            * simpl. unfold h1. rewrite !dget_nset. exact Hd.
          + exists h2; split; [exact R|].
            eapply ns_frame_equiv; [|eapply ns_frame_comp; [apply wr_idem | exact A | exact D | exact F0 | exact F2]].
            intro m; split.
            * intros [->|H]; [apply desc_refl | eapply shape_eq_desc; [apply shape_eq_sym, Sh | exact H]].
            * intro H; right; eapply shape_eq_desc; eauto.
        - apply (IHf h c None); auto. exact I. }
      destruct Step as (h2 & R & F2).
      assert (G : (if Nat.eqb (ns_loc rc) nsid
                   then bind (ns_walk need wr f (nset h c (set_ns rc (ns_loc rn))) c (Some nsid)) (walk_kids (ns_walk need wr f) n nsid ks)
                   else bind (ns_walk need wr f h c None) (walk_kids (ns_walk need wr f) n nsid ks))
                  = walk_kids (ns_walk need wr f) n nsid ks h2).
      { destruct (Nat.eqb (ns_loc rc) nsid); rewrite R; reflexivity. }
      rewrite G. clear G R.
      pose proof (ns_frame_shape _ _ _ _ _ F2) as Sh.
      destruct (IH h2) as (h3 & R3 & F3).
      + intros c' Hc'. eapply shape_eq_tree_at; [exact Sh|]. apply Hks; right; exact Hc'.
      + eapply heap_ok_frame; eauto.
      + eapply self_ok_frame; eauto. split; [exact Hlt | eauto].
      + exists h3; split; [exact R3|].
        eapply ns_frame_equiv; [|eapply ns_frame_comp; [apply wr_idem | exact A | exact D | exact F2 | exact F3]].
        intro m; split.
        * intros [H|(c' & Hc' & H)].
          -- exists c; split; [left; reflexivity | exact H].
          -- exists c'; split; [right; exact Hc' | eapply shape_eq_desc; [apply shape_eq_sym, Sh | exact H]].
        * intros (c' & [<-|Hc'] & H); [left; exact H|].
          right; exists c'; split; [exact Hc' | eapply shape_eq_desc; eauto].
  Qed.

  (** ** the walk, on any tree, with any fuel that covers the height *)
  Theorem ns_walk_ok : forall f h n nsmap_id,
    tree_at h f n -> heap_ok h -> entry_ok h n nsmap_id ->
    exists h', ns_walk need wr f h n nsmap_id = Ok h' /\ ns_frame (desc h n) h h'.
  Proof.
    induction f as [|f IHf]; intros h n nsmap_id Ht HO He; [inversion Ht|].
    pose proof HO as [A D].
    inversion Ht as [k n0 r Hn Hk]; subst. simpl. rewrite Hn.
    set (nsid := match nsmap_id with Some i => i | None => ns_loc r end).
    pose proof (walk_head_frame h n r Hn HO) as F1.
    set (h1 := walk_head need wr h n r) in *.
    pose proof (ns_frame_shape _ _ _ _ _ F1) as Sh1.
    assert (Hself : self_ok h1 n nsid).
    { destruct nsmap_id as [L0|]; simpl in He; unfold nsid.
      - destruct He as [Hlt (r0 & Hr0 & Hd)]. rewrite Hn in Hr0; injection Hr0 as <-.
        assert (E : h1 = h). { unfold h1, walk_head. rewrite Hd, need_wr by apply D. reflexivity. }
        rewrite E. split; [exact Hlt | exists r; auto].
      - split; [pose proof (A _ _ Hn); pose proof (fr_next _ _ _ _ _ F1); lia|].
        destruct (fr_nodes _ _ _ _ _ F1 n) as [[N _]|[_ (r0 & L' & E1 & E2 & E3 & _)]]; [exfalso; apply N; reflexivity|].
        rewrite Hn in E1; injection E1 as <-. exists (set_ns r L'); split; [exact E2|].
        simpl. rewrite E3. f_equal. symmetry. apply (fr_dicts _ _ _ _ _ F1). eapply A; eauto. }
    destruct (walk_kids_ok f n nsid IHf (kids r) h1) as (h' & R & F2).
    - intros c Hc. eapply shape_eq_tree_at; [exact Sh1 | apply Hk, Hc].
    - eapply heap_ok_frame; eauto.
    - exact Hself.
    - exists h'; split; [exact R|].
      eapply ns_frame_equiv; [|eapply ns_frame_comp; [apply wr_idem | exact A | exact D | exact F1 | exact F2]].
      intro m. rewrite desc_kids_iff, (kids_of_Some _ _ _ Hn). split.
      + intros [->|(c & Hc & H)]; [left; reflexivity|].
        right; exists c; split; [exact Hc | eapply shape_eq_desc; [apply shape_eq_sym, Sh1 | exact H]].
      + intros [->|(c & Hc & H)]; [left; reflexivity|].
        right; exists c; split; [exact Hc | eapply shape_eq_desc; eauto].
  Qed.
End WalkOk.

(* Proofs/C14_Main.v — delete and replace keep the registry invariant; the invariant over all
   histories; exactness of delete; the replace clause. *)
From MP Require Import Common.Base Common.Tree Model.Heap Model.Namespace Model.Registry
     Model.HeapEdits Model.Copy Model.RegOps
     Proofs.HeapInv Proofs.DictFacts Proofs.C13_Walk Proofs.C13_Refine Proofs.C13_Attach Proofs.C13_Main
     Proofs.C12_Base Proofs.C12_Copy Proofs.C12_Main Proofs.C12_Frame Proofs.C12_Examples
     Proofs.C14_Delete Proofs.C14_Inv.

Lemma same_objs_wf h h' : same_objs h h' -> HeapWf h -> HeapWf h'.
Proof.
  intros So W. pose proof So as (A & B & C & D). constructor.
  - intros m r Hm. rewrite (same_objs_nget _ _ _ So) in Hm. rewrite D. eapply (hw_ids _ W); eauto.
  - intros m r Hm. rewrite (same_objs_nget _ _ _ So) in Hm. rewrite C. eapply (hw_locs _ W); eauto.
  - intro l. rewrite (same_objs_dget _ _ _ So). apply (hw_dicts _ W).
Qed.

(** ** replace_child = relink, then (optionally) delete the old subtree from the registry *)
Lemma replace_child_split f h par old new d h' :
  replace_child f h par old new d = Ok h' ->
  exists h3 ro,
    nget h old = Some ro /\ reg_same h h3 /\ (forall l, dget h3 l = dget h l) /\ next_loc h3 = next_loc h /\
    (forall m, option_map ns_loc (nget h3 m) = option_map ns_loc (nget h m)) /\
    (forall m, m <> par -> kids_of h3 m = kids_of h m) /\
    (if d then delete_node_instance f h3 (idstr ro) true = Ok h' else h' = h3).
Proof.
  intro R. unfold replace_child, with_node in R.
  destruct (nget h par) as [rp|] eqn:Hpar; [|discriminate].
  destruct (nget h old) as [ro|] eqn:Hold; [|discriminate].
  destruct (nget h new) as [rn|] eqn:Hnew; [|discriminate].
  destruct (negb (pystr_eqb (nm rn) (nm ro))); [discriminate|].
  destruct (list_index old (kids rp)) as [i|]; [|discriminate].
  set (h1 := nset h new (set_parent rn (Some par))) in R.
  destruct (nget h1 par) as [rp1|] eqn:Hp1; [|discriminate].
  set (h2 := nset h1 par (set_kids rp1 (list_set i new (kids rp1)))) in R.
  destruct (nget h2 old) as [ro2|] eqn:Ho2; [|discriminate].
  set (h3 := match parent ro2 with
             | Some p => if Nat.eqb p par && negb (Nat.eqb old new) then nset h2 old (set_parent ro2 None) else h2
             | None => h2
             end) in R.
  (* each of the three record updates keeps id, dict locations and (except at par) child lists *)
  assert (S1 : reg_same h h1) by (eapply reg_same_nset; [exact Hnew | reflexivity]).
  assert (S2 : reg_same h1 h2) by (eapply reg_same_nset; [exact Hp1 | reflexivity]).
  assert (S3 : reg_same h2 h3).
  { unfold h3. destruct (parent ro2) as [p|]; [|apply reg_same_refl].
    destruct (Nat.eqb p par && negb (Nat.eqb old new)); [|apply reg_same_refl].
    eapply reg_same_nset; [exact Ho2 | reflexivity]. }
  assert (N1 : forall m, option_map ns_loc (nget h1 m) = option_map ns_loc (nget h m)).
  { intro m. unfold h1. rewrite nget_nset. destruct (Nat.eqb m new) eqn:E; [|reflexivity].
    apply Nat.eqb_eq in E; subst m. rewrite Hnew. reflexivity. }
  assert (N2 : forall m, option_map ns_loc (nget h2 m) = option_map ns_loc (nget h1 m)).
  { intro m. unfold h2. rewrite nget_nset. destruct (Nat.eqb m par) eqn:E; [|reflexivity].
    apply Nat.eqb_eq in E; subst m. rewrite Hp1. reflexivity. }
  assert (N3 : forall m, option_map ns_loc (nget h3 m) = option_map ns_loc (nget h2 m)).
  { intro m. unfold h3. destruct (parent ro2) as [p|]; [|reflexivity].
    destruct (Nat.eqb p par && negb (Nat.eqb old new)); [|reflexivity].
    rewrite nget_nset. destruct (Nat.eqb m old) eqn:E; [|reflexivity].
    apply Nat.eqb_eq in E; subst m. rewrite Ho2. reflexivity. }
  assert (K1 : forall m, kids_of h1 m = kids_of h m).
  { intro m. unfold kids_of, h1. rewrite nget_nset. destruct (Nat.eqb m new) eqn:E; [|reflexivity].
    apply Nat.eqb_eq in E; subst m. rewrite Hnew. reflexivity. }
  assert (K2 : forall m, m <> par -> kids_of h2 m = kids_of h1 m).
  { intros m Nm. unfold kids_of, h2. rewrite nget_nset. apply Nat.eqb_neq in Nm; rewrite Nm. reflexivity. }
  assert (K3 : forall m, kids_of h3 m = kids_of h2 m).
  { intro m. unfold h3. destruct (parent ro2) as [p|]; [|reflexivity].
    destruct (Nat.eqb p par && negb (Nat.eqb old new)); [|reflexivity].
    unfold kids_of. rewrite nget_nset. destruct (Nat.eqb m old) eqn:E; [|reflexivity].
    apply Nat.eqb_eq in E; subst m. rewrite Ho2. reflexivity. }
  assert (D3 : forall l, dget h3 l = dget h l).
  { intro l. unfold h3. destruct (parent ro2) as [p|]; [|reflexivity].
    destruct (Nat.eqb p par && negb (Nat.eqb old new)); reflexivity. }
  assert (L3 : next_loc h3 = next_loc h).
  { unfold h3. destruct (parent ro2) as [p|]; [|reflexivity].
    destruct (Nat.eqb p par && negb (Nat.eqb old new)); reflexivity. }
  exists h3, ro. split; [reflexivity|]. split; [eapply reg_same_trans; [eapply reg_same_trans|]; eauto|].
  split; [exact D3|]. split; [exact L3|].
  split; [intro m; rewrite N3, N2, N1; reflexivity|].
  split; [intros m Nm; rewrite K3, K2, K1 by exact Nm; reflexivity|].
  destruct d; [|injection R as <-; reflexivity].
  (* the id looked up for the deletion is old's id *)
  destruct (nget h3 old) as [ro3|] eqn:Ho3; [|discriminate].
  assert (idstr ro3 = idstr ro).
  { destruct (reg_same_trans _ _ _ (reg_same_trans _ _ _ S1 S2) S3) as (_ & _ & _ & EM).
    specialize (EM old). rewrite Ho3, Hold in EM. simpl in EM. unfold meta in EM. congruence. }
  rewrite <- H. exact R.
Qed.

Lemma desc_kids_outside h h3 a par m :
  (forall x, x <> par -> kids_of h3 x = kids_of h x) -> ~ desc h a par -> (desc h3 a m <-> desc h a m).
Proof.
  intros K Nd. split; induction 1 as [|p m Hd IH Hin]; try apply desc_refl.
  - assert (p <> par) by (intros ->; contradiction). rewrite K in Hin by assumption. eapply desc_step; eauto.
  - assert (p <> par) by (intros ->; contradiction). eapply desc_step; [exact IH|]. rewrite K by assumption. exact Hin.
Qed.

Section RegMain.
  Variable uuid : nat -> pystr.
  Hypothesis uuid_inj : forall a b, uuid a = uuid b -> a = b.

  Notation G := (G uuid).
  Notation rop_pre := (rop_pre uuid).

  Lemma G_equiv h (D D' : nat -> Prop) : (forall m, D m <-> D' m) -> G h D -> G h D'.
  Proof.
    intros E Gh. constructor; try apply Gh.
    - intros m Dm. apply (g_D _ _ _ Gh), E, Dm.
    - intros m Rm Dm. apply (g_live1 _ _ _ Gh m Rm), E, Dm.
    - intros m Am Nr. apply E, (g_live2 _ _ _ Gh); assumption.
  Qed.

  (** removing registry entries: the ghost set grows by exactly the nodes whose ids were removed *)
  Lemma G_removed h h' D (S : pystr -> Prop) (Dn : nat -> Prop) :
    G h D -> removed S h h' -> RegInv h' ->
    (forall m r, nget h m = Some r -> (S (idstr r) <-> Dn m)) ->
    (forall m, Dn m -> alive h m) -> (forall m, Dn m \/ ~ Dn m) ->
    G h' (fun m => D m \/ Dn m).
  Proof.
    intros Gh [So Rm] RI' SD DA Dec.
    assert (Reg : forall m, registered h' m <-> (registered h m /\ ~ Dn m)).
    { intro m. unfold registered, get_node_instance. split.
      - intros (r & Hr & E). rewrite (same_objs_nget _ _ _ So) in Hr. apply Rm in E. destruct E as [E NS].
        split; [exists r; auto|]. intro Dm. apply NS, (SD m r Hr), Dm.
      - intros [(r & Hr & E) ND]. exists r; split; [rewrite (same_objs_nget _ _ _ So); exact Hr|].
        apply Rm. split; [exact E|]. intro HS. apply ND, (SD m r Hr), HS. }
    constructor.
    - eapply same_objs_wf; [exact So | apply Gh].
    - exact RI'.
    - eapply same_objs_IdInj; [exact So | apply Gh].
    - intros k Hk m r Hm. rewrite (same_objs_nget _ _ _ So) in Hm. destruct So as (_ & _ & _ & EN). rewrite EN in Hk.
      eapply (g_fresh _ _ _ Gh); eauto.
    - intros m [Dm|Dm]; [destruct (g_D _ _ _ Gh _ Dm) as [r Hr] | destruct (DA _ Dm) as [r Hr]];
        exists r; rewrite (same_objs_nget _ _ _ So); exact Hr.
    - intros m Rm' [Dm|Dm]; apply Reg in Rm'; destruct Rm' as [R0 ND]; [apply (g_live1 _ _ _ Gh m R0 Dm) | exact (ND Dm)].
    - intros m [r Hr] Nr. rewrite (same_objs_nget _ _ _ So) in Hr.
      destruct (Dec m) as [Dm|ND]; [right; exact Dm|]. left.
      apply (g_live2 _ _ _ Gh); [eexists; eauto|]. intro R0. apply Nr, Reg. auto.
  Qed.

  (** ids identify nodes: the id set of a subtree, read on nodes *)
  Lemma sub_ids_node h n m r :
    IdInj h -> nget h m = Some r -> (sub_ids h n (idstr r) <-> desc h n m).
  Proof.
    intros Inj Hm. split.
    - intros (m2 & r2 & Hd & H2 & E). assert (m2 = m) by (eapply Inj; eauto). subst. exact Hd.
    - intro Hd. exists m, r. auto.
  Qed.

  Lemma G_delete h D i ch h' :
    G h D -> rop_pre h (RDelete i ch) -> delete_node_instance (fuel_of h) h i ch = Ok h' ->
    G h' (fun m => D m \/ discards h (RDelete i ch) m).
  Proof.
    intros Gh Pre R. destruct (delete_dom _ _ _ _ _ R) as [n Hn].
    destruct (delete_exact _ _ _ _ _ n (g_reg _ _ _ Gh) (g_inj _ _ _ Gh) R Hn) as [Rm RI'].
    destruct (g_reg _ _ _ Gh) as [_ RE]. destruct (RE _ _ Hn) as (rn & Hrn & Ein).
    destruct ch.
    - simpl in Pre. assert (Ht : tree_at h (fuel_of h) n) by (apply Pre; [reflexivity | exact Hn]).
      eapply G_equiv; [|eapply (G_removed h h' D _ (fun m => desc h n m) Gh Rm RI')].
      + intro m. simpl. unfold get_node_instance. split.
        * intros [Dm|Hd]; [left; exact Dm | right; exists n; auto].
        * intros [Dm|(n' & Hn' & Hd)]; [left; exact Dm | right]. rewrite Hn in Hn'; injection Hn' as <-. exact Hd.
      + intros m r Hm. apply sub_ids_node; [apply Gh | exact Hm].
      + intros m Hd. eapply tree_at_desc; eauto.
      + apply (desc_dec _ _ _ Ht).
    - eapply G_equiv; [|eapply (G_removed h h' D _ (fun m => m = n) Gh Rm RI')].
      + intro m. simpl. unfold get_node_instance. rewrite Hn. split; (intros [Dm|E]; [left; exact Dm | right; congruence]).
      + intros m r Hm. split.
        * intro E. eapply (g_inj _ _ _ Gh); eauto. congruence.
        * intros ->. rewrite Hrn in Hm; injection Hm as <-. exact Ein.
      + intros m ->. eexists; eauto.
      + intro m. destruct (Nat.eq_dec m n); auto.
  Qed.

  Lemma G_replace h D par old new d h' :
    G h D -> rop_pre h (RReplace par old new d) -> replace_child (fuel_of h) h par old new d = Ok h' ->
    G h' (fun m => D m \/ discards h (RReplace par old new d) m).
  Proof.
    intros Gh (Np & Nn & Ht) R.
    destruct (replace_child_split _ _ _ _ _ _ _ R) as (h3 & ro & Ho & RS & D3 & L3 & NS & K3 & Fin).
    assert (I3 : NsInv h3).
    { pose proof (NsInv_of_wf _ (g_wf _ _ _ Gh)) as I. constructor.
      - intros m r3 Hm. specialize (NS m). rewrite Hm in NS. destruct (nget h m) as [r|] eqn:Hr; simpl in NS; [|discriminate].
        injection NS as ->. rewrite L3. exact (ns_alloc _ I _ _ Hr).
      - intro l. rewrite D3. apply (ns_wf _ I). }
    pose proof (G_reg_same uuid h h3 D Gh RS I3) as G3.
    destruct d; simpl.
    - (* the subtree of old is the same before and after the relinking *)
      assert (DE : forall m, desc h3 old m <-> desc h old m) by (intro m; apply (desc_kids_outside h h3 old par m K3 Np)).
      destruct RS as (ES & EN & EL & EM).
      assert (Fu : fuel_of h3 = fuel_of h -> True) by auto.
      assert (Ho3 : exists ro3, nget h3 old = Some ro3 /\ idstr ro3 = idstr ro).
      { specialize (EM old). rewrite Ho in EM. destruct (nget h3 old) as [ro3|]; simpl in EM; [|discriminate].
        exists ro3; split; [reflexivity|]. unfold meta in EM. congruence. }
      destruct Ho3 as (ro3 & Ho3 & Eo3).
      destruct (delete_dom _ _ _ _ _ Fin) as [x Hx].
      assert (x = old).
      { destruct (g_reg _ _ _ G3) as [_ RE3]. destruct (RE3 _ _ Hx) as (rx & Hrx & Ex).
        eapply (g_inj _ _ _ G3); eauto. congruence. }
      subst x.
      destruct (delete_exact _ _ _ _ _ old (g_reg _ _ _ G3) (g_inj _ _ _ G3) Fin Hx) as [Rm RI'].
      assert (Ht3 : tree_at h3 (fuel_of h) old).
      { eapply tree_at_kids; [exact (Ht eq_refl)|]. intros m Hm. split.
        - destruct (tree_at_desc _ _ _ (Ht eq_refl) _ Hm) as [r Hr]. specialize (EM m). rewrite Hr in EM.
          destruct (nget h3 m) as [r3|] eqn:H3; simpl in EM; [exists r3; exact H3 | discriminate].
        - apply K3. intros ->. contradiction. }
      eapply G_equiv; [|eapply (G_removed h3 h' D _ (fun m => desc h3 old m) G3 Rm RI')].
      + intro m. cbv beta. rewrite DE. tauto.
      + intros m r Hm. apply sub_ids_node; [apply G3 | exact Hm].
      + intros m Hd. eapply tree_at_desc; eauto.
      + apply (desc_dec _ _ _ Ht3).
    - subst h'. eapply G_equiv; [|exact G3]. intro m; tauto.
  Qed.

  Lemma G_attach h D par c idx h' :
    G h D -> rop_pre h (RAttach par c idx) -> add_child (fuel_of h) h par c idx = Ok h' -> G h' D.
  Proof.
    intros Gh (Ht & Nd) R.
    destruct (add_child_reg _ _ _ _ _ _ R (NsInv_of_wf _ (g_wf _ _ _ Gh)) Ht Nd) as [RS I'].
    eapply G_reg_same; eauto.
  Qed.

  (** ** every operation *)
  Theorem G_step h D o h' :
    G h D -> rop_pre h o -> exec_rop uuid h o = Ok h' -> G h' (fun m => D m \/ discards h o m).
  Proof.
    intros Gh Pre R. destruct o as [name ids cont|n|par c idx|par old new d|i ch]; simpl in R.
    - injection R as <-. eapply G_equiv; [|eapply G_create; eauto].
      + intro m; simpl; tauto.
      + destruct ids as [i|]; simpl in Pre.
        * apply Pre.
        * intros m r Hm. eapply (g_fresh _ _ _ Gh); eauto.
      + destruct ids as [i|]; simpl in Pre.
        * intros k _. apply Pre.
        * intros k Hk E. apply uuid_inj in E. lia.
    - simpl in Pre. unfold copy_op in R.
      destruct (copy_node_ok uuid uuid_inj _ _ _ Pre (g_wf _ _ _ Gh)) as (h2 & n2 & R2 & P).
      rewrite R2 in R. injection R as <-.
      eapply G_equiv; [|eapply G_copy; eauto]. intro m; simpl; tauto.
    - eapply G_equiv; [|eapply G_attach; eauto]. intro m; simpl; tauto.
    - eapply G_replace; eauto.
    - eapply G_delete; eauto.
  Qed.

  (** ** histories *)
  Inductive reg_run : heap -> (nat -> Prop) -> list (rop) -> heap -> (nat -> Prop) -> Prop :=
  | rr_nil h D : reg_run h D [] h D
  | rr_cons h D o h1 ops h2 D2 :
      rop_pre h o -> exec_rop uuid h o = Ok h1 ->
      reg_run h1 (fun m => D m \/ discards h o m) ops h2 D2 ->
      reg_run h D (o :: ops) h2 D2.

  Theorem G_history h D ops h' D' : G h D -> reg_run h D ops h' D' -> G h' D'.
  Proof.
    intros Gh Run. induction Run as [|h D o h1 ops h2 D2 Pre R _ IH]; [exact Gh|].
    apply IH. eapply G_step; eauto.
  Qed.

  Lemma G_empty : G empty_heap (fun _ => False).
  Proof.
    constructor.
    - apply HeapWf_empty.
    - split; [constructor | intros k m H; discriminate H].
    - intros a b ra rb H; discriminate H.
    - intros k _ m r H; discriminate H.
    - intros m [].
    - intros m _ [].
    - intros m [r H]; discriminate H.
  Qed.

  (** the statement in the words of the property: after any history from the empty process,
      a node object is retrievable by its id iff it was created and not discarded, and ids of
      distinct node objects never collide *)
  Theorem registry_tracks_live ops h D :
    reg_run empty_heap (fun _ => False) ops h D ->
    (forall m r, nget h m = Some r -> (get_node_instance h (idstr r) = Some m <-> ~ D m)) /\
    (forall k m, get_node_instance h k = Some m -> exists r, nget h m = Some r /\ idstr r = k) /\
    (forall a b ra rb, nget h a = Some ra -> nget h b = Some rb -> idstr ra = idstr rb -> a = b).
  Proof.
    intro Run. pose proof (G_history _ _ _ _ _ G_empty Run) as Gh. split; [|split].
    - intros m r Hm. split.
      + intros E Dm. apply (g_live1 _ _ _ Gh m); [exists r; auto | exact Dm].
      + intro ND. destruct (registered_dec h m) as [(r' & Hr' & E)|Nr].
        * rewrite Hm in Hr'; injection Hr' as <-. exact E.
        * exfalso. apply ND, (g_live2 _ _ _ Gh); [eexists; eauto | exact Nr].
    - apply (g_reg _ _ _ Gh).
    - apply (g_inj _ _ _ Gh).
  Qed.

  (** ** delete removes exactly the subtree's ids / exactly the id *)
  Theorem delete_exact_thm h D i ch h' n :
    G h D -> delete_node_instance (fuel_of h) h i ch = Ok h' -> get_node_instance h i = Some n ->
    same_objs h h' /\
    forall k v, get_node_instance h' k = Some v <->
                (get_node_instance h k = Some v /\ ~ (if ch then sub_ids h n k else k = i)).
  Proof.
    intros Gh R Hn. destruct (delete_exact _ _ _ _ _ n (g_reg _ _ _ Gh) (g_inj _ _ _ Gh) R Hn) as [[So Rm] _].
    split; [exact So|]. intros k v. unfold get_node_instance. rewrite Rm. destruct ch; tauto.
  Qed.

  (** ** replace with deletion *)
  Theorem replace_thm h D par old new h' :
    G h D -> rop_pre h (RReplace par old new true) ->
    replace_child (fuel_of h) h par old new true = Ok h' ->
    (* no discarded node stays registered *)
    (forall m, desc h old m -> ~ registered h' m) /\
    (* no other node is unregistered: in particular the replacement's subtree and the rest of the tree *)
    (forall m, ~ desc h old m -> registered h m -> registered h' m).
  Proof.
    intros Gh Pre R. pose proof (G_replace h D par old new true h' Gh Pre R) as G'. simpl in G'. split.
    - intros m Hd Rm. apply (g_live1 _ _ _ G' m Rm). right; exact Hd.
    - intros m Nd Rm. destruct (registered_dec h' m) as [Y|N]; [exact Y|]. exfalso.
      assert (Am : alive h' m).
      { destruct Rm as (r & Hr & _). destruct (replace_child_split _ _ _ _ _ _ _ R) as (h3 & ro & _ & (_ & _ & _ & EM) & _ & _ & _ & _ & Fin).
        pose proof (delete_node_instance_objs _ _ _ _ _ Fin) as So. specialize (EM m). rewrite Hr in EM.
        destruct (nget h3 m) as [r3|] eqn:H3; simpl in EM; [|discriminate]. exists r3. rewrite (same_objs_nget _ _ _ So). exact H3. }
      destruct (g_live2 _ _ _ G' m Am N) as [Dm|Hd]; [exact (g_live1 _ _ _ Gh m Rm Dm) | exact (Nd Hd)].
  Qed.
End RegMain.

(* Proofs/C01_Table.v — C01 over the shipped rule table (Gen/Tables.v, regenerated every run):
   the table obligation (all rules have the greedy_ok shape, by complete enumeration) and the
   instantiation of the generic theorems; non-vacuity witnesses. *)
From MP Require Import Common.Base Gen.Tables Model.Rule Spec.Lang Spec.GreedyOk Spec.LangDec
  Proofs.C01_Total Proofs.C01_Lang Proofs.C01_Sound Proofs.C01_Complete Proofs.C01_Main.

Definition shipped : tables :=
  {| tb_rules := rules; tb_node_map := node_map; tb_mixed := mixed_rules; tb_ranges := (range_ew, range_ns) |}.

Definition is_mixed (rn : pystr) : bool := smem rn mixed_rules.

Lemma C01_table_proof : forallb (fun r => greedy_ok_raw (snd r)) rules = true.
Proof. vm_compute. reflexivity. Qed.

Lemma shipped_greedy rn r : In (rn, r) rules ->
  exists top, parse_children (rr_children r) = Some top /\ greedy_ok_top top = true.
Proof.
  intro Hin. pose proof C01_table_proof as H. rewrite forallb_forall in H.
  specialize (H _ Hin). simpl in H. unfold greedy_ok_raw in H.
  destruct (parse_children (rr_children r)) as [top|]; [|discriminate].
  exists top. split; [reflexivity | exact H].
Qed.

Theorem C01_proof : forall rn r, In (rn, r) rules ->
  exists top, parse_children (rr_children r) = Some top /\
  forall pname w, pname <> METADATA ->
  exists errs,
    validate_children top (is_mixed rn) pname w = Some errs /\
    (errs = [] <-> allowed_names top w /\ Ltop (is_mixed rn) top w) /\
    (ff_of (Errs errs) = FOk <-> allowed_names top w /\ Ltop (is_mixed rn) top w) /\
    Forall c01_fam errs.
Proof.
  intros rn r Hin. destruct (shipped_greedy rn r Hin) as (top & Hp & Hok).
  exists top. split; [exact Hp|]. intros pname w NE.
  apply C01_modes_proof; assumption.
Qed.

(** the same at the level of Rule.validate_rule, for a parent whose content and attributes
    are valid (what the correspondence run observes) *)
Theorem C01_rule_proof : forall orc rn r name content attrs kids, In (rn, r) rules ->
  name <> METADATA ->
  validate_content orc (tb_ranges shipped) (is_mixed rn) (rr_content_rules r) (rr_content_enum r)
                   content (length kids) = [] ->
  validate_attrs (rr_attrs r) attrs = Errs [] ->
  exists top errs,
    parse_children (rr_children r) = Some top /\
    validate_rule orc shipped rn r name content attrs kids = Errs errs /\
    (errs = [] <-> allowed_names top kids /\ Ltop (is_mixed rn) top kids) /\
    (ff_of (Errs errs) = FOk <-> allowed_names top kids /\ Ltop (is_mixed rn) top kids) /\
    Forall c01_fam errs.
Proof.
  intros orc rn r name content attrs kids Hin NE Hc Ha.
  destruct (shipped_greedy rn r Hin) as (top & Hp & Hok).
  destruct (validate_rule_children orc shipped rn r name content attrs kids top Hp Hok Hc Ha)
    as (errs & Ev & Er).
  destruct (C01_modes_proof top (is_mixed rn) name kids Hok NE) as (errs' & Ev' & A & B & C).
  change (smem rn (tb_mixed shipped)) with (is_mixed rn) in Ev.
  rewrite Ev in Ev'. injection Ev' as <-.
  exists top, errs. split; [exact Hp|]. split; [exact Er|]. split; [exact A|]. split; [exact B | exact C].
Qed.

(** * Non-vacuity: shipped rules, words inside and outside their language *)
Definition top_of (rn : pystr) : option (option spec) :=
  match assoc rn rules with Some r => parse_children (rr_children r) | None => None end.

Lemma C01_witness_in_proof :
  exists r top, In (s "accessRule", r) rules /\ parse_children (rr_children r) = Some top /\
    let w := [s "allow"; s "deny"; s "allow"] in
    validate_children top (is_mixed (s "accessRule")) (s "access") w = Some [] /\
    Ltop (is_mixed (s "accessRule")) top w.
Proof.
  destruct (assoc (s "accessRule") rules) as [r|] eqn:E; [|vm_compute in E; discriminate].
  destruct (parse_children (rr_children r)) as [top|] eqn:P;
    [|vm_compute in E; injection E as <-; vm_compute in P; discriminate].
  exists r, top. split; [apply assoc_Some_In; exact E|]. split; [exact P|].
  vm_compute in E. injection E as <-. vm_compute in P. injection P as <-.
  split; [vm_compute; reflexivity|]. apply inLtop_correct. vm_compute. reflexivity.
Qed.

Lemma C01_witness_out_proof :
  exists r top, In (s "individualNameRule", r) rules /\ parse_children (rr_children r) = Some top /\
    let w := [s "givenName"; s "surName"; s "surName"] in
    validate_children top (is_mixed (s "individualNameRule")) (s "individualName") w = Some [EMaxOcc] /\
    ~ Ltop (is_mixed (s "individualNameRule")) top w.
Proof.
  destruct (assoc (s "individualNameRule") rules) as [r|] eqn:E; [|vm_compute in E; discriminate].
  destruct (parse_children (rr_children r)) as [top|] eqn:P;
    [|vm_compute in E; injection E as <-; vm_compute in P; discriminate].
  exists r, top. split; [apply assoc_Some_In; exact E|]. split; [exact P|].
  vm_compute in E. injection E as <-. vm_compute in P. injection P as <-.
  split; [vm_compute; reflexivity|]. intro H. apply inLtop_correct in H. vm_compute in H. discriminate.
Qed.

(** a mixed-content rule waives the minimum of its choice: the empty sequence is accepted *)
Lemma C01_witness_mixed_proof :
  exists r top, In (s "textRule", r) rules /\ parse_children (rr_children r) = Some top /\
    validate_children top (is_mixed (s "textRule")) (s "abstract") [] = Some [] /\
    Ltop true top [] /\ ~ Ltop false top [] /\
    validate_children top false (s "abstract") [] = Some [EMinChoice].
Proof.
  destruct (assoc (s "textRule") rules) as [r|] eqn:E; [|vm_compute in E; discriminate].
  destruct (parse_children (rr_children r)) as [top|] eqn:P;
    [|vm_compute in E; injection E as <-; vm_compute in P; discriminate].
  exists r, top. split; [apply assoc_Some_In; exact E|]. split; [exact P|].
  vm_compute in E. injection E as <-. vm_compute in P. injection P as <-.
  split; [vm_compute; reflexivity|].
  split; [apply inLtop_correct; vm_compute; reflexivity|].
  split; [intro H; apply inLtop_correct in H; vm_compute in H; discriminate|].
  vm_compute. reflexivity.
Qed.

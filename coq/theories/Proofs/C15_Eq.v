(* Proofs/C15_Eq.v — the exception-steered model of prune computes the declarative spec
   (C15_eq), for every tree, in both modes, over any tables on which single-node validation
   is total and never reports "unknown node" for a mapped name. *)
From MP Require Import Common.Base Common.Tree Model.Rule Model.Prune Spec.PruneSpec.

(** * Induction on full-field trees *)
Section FtreeInd.
  Variable P : ftree -> Prop.
  Hypothesis H : forall d kids, Forall P kids -> P (FT d kids).
  Fixpoint ftree_ind' (t : ftree) : P t :=
    match t with
    | FT d kids =>
        H d kids ((fix go (l : list ftree) : Forall P l :=
                     match l with
                     | [] => Forall_nil P
                     | x :: r => Forall_cons x (ftree_ind' x) (go r)
                     end) kids)
    end.
End FtreeInd.

Lemma class_unknown_inv e : class_of e = UNKNOWN_CLS -> e = EUnknownNode.
Proof. destruct e; try reflexivity; intro H; vm_compute in H; discriminate. Qed.

Section Eq.
Variable orc : pystr -> oans.
Variable tb : tables.
Variable strict : bool.

(** validation is total on these tables (C04) *)
Definition node_total : Prop :=
  forall n c a k, exists l, validate_node orc tb n c a k = Errs l.
(** a mapped name is never reported as unknown *)
Definition known_not_unknown : Prop :=
  forall n c a k l, known tb n = true -> validate_node orc tb n c a k = Errs l -> ~ In EUnknownNode l.

Hypothesis HT : node_total.
Hypothesis HK : known_not_unknown.
(** "metadata" is an element name *)
Hypothesis HM : known tb METADATA = true.

(** the two loops of [prune], as a function of the children (the inner fix of the model) *)
Definition go_model (allowed : list pystr) : list ftree -> lres :=
  fix go (ks : list ftree) : lres :=
  match ks with
  | [] => LOk [] [] [] [] []
  | k :: r =>
      if negb (smem (ft_name k) allowed) then lcons_notallowed k (go r)
      else
        match prune orc tb strict k with
        | PCrash c => LCrash c
        | POk None lk remk => lcons_visit None lk remk (go r)
        | POk (Some k') lk remk =>
            if strict then
              match node_ff orc tb k' with
              | FCrash c => LCrash c
              | FRaise _ => lcons_visit None (lk ++ [(ft_id k', RInvalid)]) (remk ++ ids_of k') (go r)
              | FOk => lcons_visit (Some k') lk remk (go r)
              end
            else lcons_visit (Some k') lk remk (go r)
        end
  end.

Lemma go_model_cons allowed k r :
  go_model allowed (k :: r) =
      if negb (smem (ft_name k) allowed) then lcons_notallowed k (go_model allowed r)
      else
        match prune orc tb strict k with
        | PCrash c => LCrash c
        | POk None lk remk => lcons_visit None lk remk (go_model allowed r)
        | POk (Some k') lk remk =>
            if strict then
              match node_ff orc tb k' with
              | FCrash c => LCrash c
              | FRaise _ => lcons_visit None (lk ++ [(ft_id k', RInvalid)]) (remk ++ ids_of k') (go_model allowed r)
              | FOk => lcons_visit (Some k') lk remk (go_model allowed r)
              end
            else lcons_visit (Some k') lk remk (go_model allowed r)
        end.
Proof. reflexivity. Qed.

Definition prune_body (d : nd) (kids : list ftree) : pout :=
  match get_rule_names tb (n_name d) with
  | None => PCrash (s "KeyError-get_rule")
  | Some allowed =>
      match go_model allowed kids with
      | LCrash c => PCrash c
      | LOk kept l1 l2 rem1 rem2 => POk (Some (FT d kept)) (l1 ++ l2) (rem1 ++ rem2)
      end
  end.

Lemma prune_unfold d kids :
  prune orc tb strict (FT d kids) =
  if pystr_eqb (n_name d) METADATA then POk (Some (FT d kids)) [] []
  else match node_ff orc tb (FT d kids) with
       | FCrash c => PCrash c
       | FRaise cls => if pystr_eqb cls UNKNOWN_CLS then POk None [(n_id d, RUnknown)] (ids_of (FT d kids))
                       else prune_body d kids
       | FOk => prune_body d kids
       end.
Proof. reflexivity. Qed.

(** * What fail-fast validation says, by name *)
Lemma node_ff_cases t :
  (known tb (ft_name t) = false /\ node_ff orc tb t = FRaise UNKNOWN_CLS) \/
  (known tb (ft_name t) = true /\
   ((node_valid orc tb t = true /\ node_ff orc tb t = FOk) \/
    (node_valid orc tb t = false /\ exists cls, node_ff orc tb t = FRaise cls /\ cls <> UNKNOWN_CLS))).
Proof.
  destruct t as [d kids]. unfold node_ff, node_valid, node_of, ft_name. simpl.
  destruct (known tb (n_name d)) eqn:K.
  - right. split; [reflexivity|].
    destruct (HT (n_name d) (n_content d) (n_attrs d) (map t_name (map view kids))) as [l E].
    rewrite E. destruct l as [|e l].
    + left. split; reflexivity.
    + right. split; [reflexivity|]. exists (class_of e). split; [reflexivity|].
      intro C. apply class_unknown_inv in C. subst e.
      apply (HK _ _ _ _ _ K E). left; reflexivity.
  - left. split; [reflexivity|]. unfold known in K. unfold validate_node.
    destruct (assoc (n_name d) (tb_node_map tb)); [discriminate | reflexivity].
Qed.

Lemma get_rule_names_known n : known tb n = true -> get_rule_names tb n = Some (allowed_names tb n).
Proof.
  unfold known, get_rule_names, allowed_names. intro K.
  destruct (HT n None [] []) as [l E]. unfold validate_node in E.
  destruct (assoc n (tb_node_map tb)) as [rn|]; [|discriminate].
  destruct (assoc rn (tb_rules tb)) as [r|]; [|discriminate].
  unfold validate_rule in E.
  destruct (parse_children (rr_children r)); [reflexivity | discriminate].
Qed.

(** * Root fields are preserved by [keep] *)
Lemma keep_d t : ft_d (keep orc tb strict t) = ft_d t.
Proof. destruct t as [d kids]. simpl. destruct (opaque tb (n_name d)); reflexivity. Qed.

Lemma keep_name t : ft_name (keep orc tb strict t) = ft_name t.
Proof. unfold ft_name. rewrite keep_d. reflexivity. Qed.

Lemma keep_id t : ft_id (keep orc tb strict t) = ft_id t.
Proof. unfold ft_id. rewrite keep_d. reflexivity. Qed.

(** * The spec's view of the two loops *)
Definition spec_kept (pn : pystr) (kids : list ftree) : list ftree :=
  flat_map (fun c => let c' := keep orc tb strict c in
                     match offence orc tb strict pn c' with Some _ => [] | None => [c'] end) kids.
Definition spec_l1 (pn : pystr) (kids : list ftree) : list (ftree * reason) :=
  flat_map (fun c => if allowed tb pn (ft_name c) then [] else [(c, RNotAllowed)]) kids.
Definition spec_l2 (pn : pystr) (kids : list ftree) : list (ftree * reason) :=
  flat_map (fun c =>
              if allowed tb pn (ft_name c) then
                if known tb (ft_name c) then
                  removed orc tb strict c ++
                  (if strict && negb (node_valid orc tb (keep orc tb strict c)) then [(keep orc tb strict c, RInvalid)] else [])
                else [(c, RUnknown)]
              else []) kids.

Lemma keep_unfold d kids :
  keep orc tb strict (FT d kids) = if opaque tb (n_name d) then FT d kids else FT d (spec_kept (n_name d) kids).
Proof. reflexivity. Qed.

Lemma removed_unfold d kids :
  removed orc tb strict (FT d kids) =
  if opaque tb (n_name d) then [] else spec_l1 (n_name d) kids ++ spec_l2 (n_name d) kids.
Proof. reflexivity. Qed.

Definition agrees (t : ftree) : Prop :=
  prune orc tb strict t =
  POk (fst (prune_spec orc tb strict t)) (spec_list (snd (prune_spec orc tb strict t)))
      (spec_rem (snd (prune_spec orc tb strict t))).

Lemma spec_list_app a b : spec_list (a ++ b) = spec_list a ++ spec_list b.
Proof. apply map_app. Qed.
Lemma spec_rem_app a b : spec_rem (a ++ b) = spec_rem a ++ spec_rem b.
Proof. apply flat_map_app. Qed.

Lemma spec_kept_cons pn k r :
  spec_kept pn (k :: r) =
  (match offence orc tb strict pn (keep orc tb strict k) with Some _ => [] | None => [keep orc tb strict k] end) ++ spec_kept pn r.
Proof. reflexivity. Qed.
Lemma spec_l1_cons pn k r :
  spec_l1 pn (k :: r) = (if allowed tb pn (ft_name k) then [] else [(k, RNotAllowed)]) ++ spec_l1 pn r.
Proof. reflexivity. Qed.
Lemma spec_l2_cons pn k r :
  spec_l2 pn (k :: r) =
  (if allowed tb pn (ft_name k) then
     if known tb (ft_name k) then
       removed orc tb strict k ++
       (if strict && negb (node_valid orc tb (keep orc tb strict k)) then [(keep orc tb strict k, RInvalid)] else [])
     else [(k, RUnknown)]
   else []) ++ spec_l2 pn r.
Proof. reflexivity. Qed.

Ltac fin :=
  cbn [lcons_visit lcons_notallowed app]; rewrite ?spec_list_app, ?spec_rem_app;
  cbn [spec_list spec_rem map flat_map fst snd app]; rewrite ?app_nil_r, ?keep_id, <- ?app_assoc;
  reflexivity.

Lemma go_model_spec pn kids :
  Forall agrees kids ->
  go_model (allowed_names tb pn) kids =
  LOk (spec_kept pn kids) (spec_list (spec_l1 pn kids)) (spec_list (spec_l2 pn kids))
      (spec_rem (spec_l1 pn kids)) (spec_rem (spec_l2 pn kids)).
Proof.
  induction 1 as [|k r Hk _ IH]; [reflexivity|].
  rewrite go_model_cons, IH. clear IH.
  rewrite spec_kept_cons, spec_l1_cons, spec_l2_cons.
  unfold offence. rewrite keep_name. unfold allowed.
  destruct (smem (ft_name k) (allowed_names tb pn)) eqn:A; cbn [negb].
  2:{ cbn [lcons_notallowed app spec_list spec_rem map flat_map fst snd]. rewrite ?app_nil_r. reflexivity. }
  rewrite Hk. unfold prune_spec.
  destruct (pystr_eqb (ft_name k) METADATA) eqn:M.
  - (* a metadata child: left alone by its own call, validated in strict mode *)
    assert (Kp : keep orc tb strict k = k).
    { destruct k as [d ks]. rewrite keep_unfold. unfold opaque. unfold ft_name in M. simpl in M. rewrite M. reflexivity. }
    assert (Rm : removed orc tb strict k = []).
    { destruct k as [d ks]. rewrite removed_unfold. unfold opaque. unfold ft_name in M. simpl in M. rewrite M. reflexivity. }
    rewrite Kp, Rm. cbn [fst snd spec_list spec_rem map flat_map].
    assert (K : known tb (ft_name k) = true).
    { apply pystr_eqb_eq in M. rewrite M. exact HM. }
    rewrite K. cbn [negb].
    destruct (node_ff_cases k) as [[K' _]|[_ [[V F]|[V (cls & F & _)]]]]; [congruence| |];
      rewrite V; destruct strict; cbn [andb negb]; rewrite ?F; fin.
  - destruct (known tb (ft_name k)) eqn:K; cbn [negb fst snd]; [|fin].
    destruct (node_ff_cases (keep orc tb strict k)) as [[K' _]|[_ [[V F]|[V (cls & F & _)]]]].
    + rewrite keep_name, K in K'. discriminate.
    + rewrite V. destruct strict; cbn [andb negb]; rewrite ?F; fin.
    + rewrite V. destruct strict; cbn [andb negb]; rewrite ?F; fin.
Qed.

Lemma prune_body_spec d kids :
  pystr_eqb (n_name d) METADATA = false -> known tb (n_name d) = true -> Forall agrees kids ->
  prune_body d kids =
  POk (Some (keep orc tb strict (FT d kids))) (spec_list (removed orc tb strict (FT d kids)))
      (spec_rem (removed orc tb strict (FT d kids))).
Proof.
  intros M K IH. unfold prune_body.
  rewrite (get_rule_names_known _ K), (go_model_spec (n_name d) kids IH).
  rewrite keep_unfold, removed_unfold. unfold opaque. rewrite M, K. cbn [orb negb].
  rewrite spec_list_app, spec_rem_app. reflexivity.
Qed.

Theorem prune_agrees : forall t, agrees t.
Proof.
  apply ftree_ind'. intros d kids IH.
  unfold agrees. rewrite prune_unfold. unfold prune_spec.
  change (ft_name (FT d kids)) with (n_name d).
  destruct (pystr_eqb (n_name d) METADATA) eqn:M; [reflexivity|].
  destruct (node_ff_cases (FT d kids)) as [[K F]|[K [[V F]|[V (cls & F & NU)]]]];
    change (ft_name (FT d kids)) with (n_name d) in K; rewrite K, F.
  - rewrite pystr_eqb_refl. cbn [fst snd spec_list spec_rem map flat_map]. rewrite app_nil_r. reflexivity.
  - apply prune_body_spec; assumption.
  - apply pystr_eqb_neq in NU. rewrite NU. apply prune_body_spec; assumption.
Qed.

End Eq.

(** C15_eq, generic in the tables *)
Theorem C15_eq_generic orc tb strict :
  node_total orc tb -> known_not_unknown orc tb -> known tb METADATA = true ->
  forall t,
    prune orc tb strict t =
    POk (fst (prune_spec orc tb strict t)) (spec_list (snd (prune_spec orc tb strict t)))
        (spec_rem (snd (prune_spec orc tb strict t))).
Proof. intros HT HK HM t. exact (prune_agrees orc tb strict HT HK HM t). Qed.

(* Proofs/C09_Refine.v — every edit of Model/Edits.v does to the child lists exactly what the
   ordered-list model (Spec/ListModel.v [step]) predicts; failing edits change nothing; shift
   returns the child's actual index.  None of this needs the invariant. *)
From MP Require Import Common.Base.
From MP Require Import Model.Edits.
From MP Require Import Spec.ListModel.
From MP Require Import Proofs.C09_Lists.

Definition ret_of (r : option nat) : ret := match r with None => RNone | Some i => RInt i end.
Definition registry_exn (e : exn) : Prop := e = KeyError \/ e = AttributeError \/ e = OutOfFuel.

(** * projections of the state updates *)
Lemma kids_clear_parent_if s c p : kids (clear_parent_if s c p) = kids s.
Proof. unfold clear_parent_if. destruct (opt_nat_eqb (parent s c) p); reflexivity. Qed.

Lemma name_clear_parent_if s c p : name (clear_parent_if s c p) = name s.
Proof. unfold clear_parent_if. destruct (opt_nat_eqb (parent s c) p); reflexivity. Qed.

Lemma reg_clear_parent_if s c p : reg (clear_parent_if s c p) = reg s.
Proof. unfold clear_parent_if. destruct (opt_nat_eqb (parent s c) p); reflexivity. Qed.

Lemma kids_fold_clear p l : forall s, kids (fold_left (fun s c => clear_parent_if s c p) l s) = kids s.
Proof. induction l as [|c l IH]; intro s; simpl; [reflexivity|]. rewrite IH. apply kids_clear_parent_if. Qed.

Lemma upd_eq {A} (f : nat -> A) i v q : upd f i v q = if Nat.eqb q i then v else f q.
Proof. reflexivity. Qed.

(** * the registry walk raises only registry exceptions *)
Lemma del_tree_exn : forall fuel k r i e, snd (del_tree fuel k r i) = Some e -> registry_exn e.
Proof.
  induction fuel as [|f IH]; intros k r i e; simpl.
  - intros [= <-]. right; right; reflexivity.
  - destruct (r i); [|intros [= <-]; right; left; reflexivity].
    set (go := fix go (r0 : nat -> bool) (l : list nat) {struct l} : (nat -> bool) * option exn :=
           match l with
           | [] => (r0, None)
           | c :: rest => let '(r', e0) := del_tree f k r0 c in
                          match e0 with None => go r' rest | Some _ => (r', e0) end
           end).
    assert (G : forall l r0 e0, snd (go r0 l) = Some e0 -> registry_exn e0).
    { induction l as [|c rest IHl]; intros r0 e0; simpl; [discriminate|].
      destruct (del_tree f k r0 c) as [r' [x|]] eqn:D.
      - simpl. intros [= <-]. apply (IH k r0 c). rewrite D. reflexivity.
      - apply IHl. }
    destruct (go r (k i)) as [r1 [x|]] eqn:E.
    + simpl. intros [= <-]. apply (G (k i) r). rewrite E. reflexivity.
    + destruct (r1 i); simpl; [discriminate|]. intros [= <-]. left; reflexivity.
Qed.

(** * sibling targets are inside the list *)
Lemma sib_left_lt nm l i j : sib_left nm l i = Some j -> j < i.
Proof.
  unfold sib_left. intro H. apply find_some in H as [I _]. apply in_rev, in_seq in I. lia.
Qed.

Lemma sib_right_lt nm l i j : sib_right nm l i = Some j -> i < j < length l.
Proof.
  unfold sib_right. intro H. apply find_some in H as [I _]. apply in_seq in I. lia.
Qed.

(** the model's choice of the slot to swap with = the list model's *)
Definition model_target (s : st) (l : list nat) (i ci : nat) (d : dir) (sib : bool) : option nat :=
  match d, sib with
  | RIGHT, true => scan_right (name s) (name s ci) (skipn (S i) l) (S i)
  | RIGHT, false => if Nat.ltb i (length l - 1) then Some (i + 1) else None
  | LEFT, true => scan_left (name s) (name s ci) (rev (firstn i l)) i
  | LEFT, false => if Nat.ltb 0 i then Some (i - 1) else None
  end.
Definition spec_target (nm : nat -> nat) (l : list nat) (i : nat) (d : dir) (sib : bool) : option nat :=
  match d, sib with
  | LEFT, false => if Nat.eqb i 0 then None else Some (i - 1)
  | RIGHT, false => if Nat.ltb (S i) (length l) then Some (S i) else None
  | LEFT, true => sib_left nm l i
  | RIGHT, true => sib_right nm l i
  end.

Lemma target_eq s l i ci d sib :
  nth_error l i = Some ci -> model_target s l i ci d sib = spec_target (name s) l i d sib.
Proof.
  intro N. assert (L : i < length l) by (apply nth_error_Some; congruence).
  assert (E : nth i l 0 = ci) by (apply nth_error_nth; exact N).
  destruct d, sib; simpl.
  - rewrite <- E. apply scan_left_sib. lia.
  - destruct i; simpl; [reflexivity|]. reflexivity.
  - rewrite <- E. apply scan_right_sib.
  - destruct (Nat.ltb_spec i (length l - 1)); destruct (Nat.ltb_spec (S i) (length l)); try lia; auto.
    f_equal; lia.
Qed.

Lemma spec_target_lt nm l i d sib j : i < length l -> spec_target nm l i d sib = Some j -> j < length l.
Proof.
  intros L. destruct d, sib; simpl.
  - intro H; apply sib_left_lt in H; lia.
  - destruct (Nat.eqb i 0); [discriminate|]. intros [= <-]; lia.
  - intro H; apply sib_right_lt in H; lia.
  - destruct (Nat.ltb_spec (S i) (length l)); [|discriminate]. intros [= <-]; lia.
Qed.
